// D18C: ArenaVector::reserve_grow() with an item count just below 2^32 stores a capacity truncated to 32 bits.
// Build (REPO = asmjit source tree):
//   c++ -std=c++17 -DASMJIT_STATIC -I$REPO D18C_repro.cpp $REPO/asmjit/support/arena.cpp $REPO/asmjit/support/arenavector.cpp $REPO/asmjit/core/globals.cpp -o D18C_repro
// Needs 4 GiB of address space (the memory is never touched; 64-bit target with overcommit). Exit 2 = the allocation was refused.
// Unrepaired: prints FAIL (capacity 0), exits with 1. Repaired: prints PASS, exits with 0.
#include <asmjit/core.h>
#include <stdio.h>

using namespace asmjit;

int main() {
  if (sizeof(size_t) < 8) {
    printf("SKIP: 64-bit only\n");
    return 2;
  }

  Arena arena(1024);
  ArenaVector<uint8_t> vec;

  if (vec.append(arena, uint8_t(42)) != Error::kOk) return 2;

  // A valid item count (fits uint32_t); growing rounds the byte size up to the next multiple of 16 MiB = 2^32 items.
  size_t n = size_t(0xFFFFFFF0u);
  Error err = vec.reserve_grow(arena, n);

  if (err != Error::kOk) {
    printf("SKIP: reserve_grow(%zu) failed - not enough address space for the 4 GiB block\n", n);
    return 2;
  }

  printf("size=%zu capacity=%zu (requested %zu)\n", vec.size(), vec.capacity(), n);

  if (vec.capacity() < n || vec.size() != 1u || vec[0] != 42) {
    printf("FAIL: reserve_grow() returned kOk but capacity() is below the requested item count\n");
    return 1;
  }

  printf("PASS\n");
  return 0;
}
