// C06I: x86 emit_arg_move: float64 argument into a float32 destination converts with cvtsd2ss, float32 into float64 with cvtss2sd
// Build (TREE = asmjit source tree whose library was built in TREE/_build):
//   g++ -std=c++17 -I$TREE C06I_repro.cpp -L$TREE/_build -lasmjit -Wl,-rpath,$TREE/_build -o C06I_repro && ./C06I_repro
// exit 0 = PASS (repaired), exit 1 = FAIL (defect present)
#include <asmjit/x86.h>
#include <asmjit/a64.h>
#include <stdio.h>
#include <string.h>
#include <stdlib.h>
using namespace asmjit;
static Environment env_of(Arch a, Platform p, PlatformABI abi) { return Environment(a, SubArch::kUnknown, Vendor::kUnknown, p, abi); }

int main() {
  // The instruction mnemonic is what this defect is about (operand types are C06J).
  Environment env = env_of(Arch::kX64, Platform::kLinux, PlatformABI::kGNU);
  bool ok = true;
  for (int k = 0; k < 2; k++) {
    CodeHolder code; code.init(env); x86::Assembler a(&code); StringLogger logger; code.set_logger(&logger);
    FuncSignature sig(CallConvId::kX64SystemV); sig.add_arg(k ? TypeId::kFloat32 : TypeId::kFloat64);
    FuncDetail fd; fd.init(sig, env); FuncFrame frame; frame.init(fd);
    FuncArgsAssignment args(&fd); args.assign_reg(0, x86::xmm1, k ? TypeId::kFloat64x1 : TypeId::kFloat32x1);
    args.update_func_frame(frame); frame.finalize();
    a.emit_args_assignment(frame, args);
    printf("%s -> %s: %s", k ? "float" : "double", k ? "double" : "float", logger.data());
    ok &= strncmp(logger.data(), k ? "cvtss2sd " : "cvtsd2ss ", 9) == 0;
  }
  puts(ok ? "PASS" : "FAIL"); return ok ? 0 : 1;
}
