// C20A - AArch64 formatter drops the extend of a memory operand's index when its amount is zero.
// Build & run (against the library built in /tmp/fix/c20/_build):
//   c++ -std=c++17 -I/tmp/fix/c20 C20A_repro.cpp -L/tmp/fix/c20/_build -lasmjit -Wl,-rpath,/tmp/fix/c20/_build -o C20A_repro && ./C20A_repro
// Exit code 1 (FAIL) on the unrepaired tree, 0 (PASS) when repaired.
#include <asmjit/a64.h>
#include <stdio.h>
#include <string.h>

using namespace asmjit;

static int failures;

static void expect_line(const char* what, const char* logged, const char* expected_prefix) {
  bool ok = strncmp(logged, expected_prefix, strlen(expected_prefix)) == 0;
  printf("%-34s logged as \"%.*s\"  expected \"%s\"  %s\n", what, int(strcspn(logged, ";\n")), logged, expected_prefix, ok ? "ok" : "WRONG");
  if (!ok) failures++;
}

int main() {
  using namespace a64;

  struct Case { Mem mem; const char* what; const char* expected; } cases[] = {
    { ptr(x1, w2, sxtw(0)), "ldr x0, [x1, w2, sxtw]"   , "ldr x0, [x1, w2 sxtw]"   },
    { ptr(x1, w2, uxtw(0)), "ldr x0, [x1, w2, uxtw]"   , "ldr x0, [x1, w2 uxtw]"   },
    { ptr(x1, x2, sxtx(0)), "ldr x0, [x1, x2, sxtx]"   , "ldr x0, [x1, x2 sxtx]"   },
    { ptr(x1, x2)         , "ldr x0, [x1, x2]"         , "ldr x0, [x1, x2]"        },
    { ptr(x1, x2, lsl(0)) , "ldr x0, [x1, x2, lsl #0]" , "ldr x0, [x1, x2]"        },
    { ptr(x1, x2, lsl(3)) , "ldr x0, [x1, x2, lsl #3]" , "ldr x0, [x1, x2 lsl 3]"  },
    { ptr(x1, w2, sxtw(3)), "ldr x0, [x1, w2, sxtw #3]", "ldr x0, [x1, w2 sxtw 3]" },
    { ptr_pre(x1, 16)     , "ldr x0, [x1, #16]!"       , "ldr x0, [x1, 16]!"       },
    { ptr_post(x1, x2)    , "ld1 post-index by x2"     , "ldr x0, [x1], x2"        }
  };

  for (const Case& c : cases) {
    CodeHolder code;
    code.init(Environment(Arch::kAArch64));
    StringLogger logger;
    code.set_logger(&logger);
    Assembler a(&code);

    if (c.mem.is_post_index()) {
      // Not encodable as `ldr` - only the operand text is of interest here.
      String sb;
      sb.append("ldr x0, ");
      Formatter::format_operand(sb, FormatFlags::kNone, &a, Arch::kAArch64, c.mem);
      expect_line(c.what, sb.data(), c.expected);
      continue;
    }

    Error err = a.ldr(x0, c.mem);
    if (err != Error::kOk) {
      printf("%-34s failed to assemble: %s\n", c.what, DebugUtils::error_as_string(err));
      failures++;
      continue;
    }
    expect_line(c.what, logger.data(), c.expected);
  }

  // Two different instructions must not share one text.
  {
    String s0, s1;
    Formatter::format_operand(s0, FormatFlags::kNone, nullptr, Arch::kAArch64, ptr(x1, w2, sxtw(0)));
    Formatter::format_operand(s1, FormatFlags::kNone, nullptr, Arch::kAArch64, ptr(x1, w2, uxtw(0)));
    if (s0.equals(s1.data())) {
      printf("[x1, w2, sxtw] and [x1, w2, uxtw] are both shown as \"%s\"\n", s0.data());
      failures++;
    }
  }

  printf("%s\n", failures ? "FAIL" : "PASS");
  return failures ? 1 : 0;
}
