// C10a: code_size() after flatten() must be the end of the last section, also with an empty aligned section in between.
// g++ -std=c++17 -O1 -I<tree> C10a_repro.cpp -L<tree>/_build -lasmjit -Wl,-rpath,<tree>/_build -o C10a_repro && ./C10a_repro
#include <asmjit/x86.h>
#include <stdio.h>
#include <string.h>
using namespace asmjit;
int main() {
  Environment env(Arch::kX64);
  CodeHolder code; code.init(env);
  x86::Assembler a(&code);
  for (int i = 0; i < 7; i++) a.nop();
  Section *A, *B;
  code.new_section(Out(A), ".empty", SIZE_MAX, SectionFlags::kNone, 64, 1);   // stays empty
  code.new_section(Out(B), ".data", SIZE_MAX, SectionFlags::kNone, 8, 2);
  a.section(B); a.db(0xAB);
  size_t estimated = code.code_size();
  bool ok = code.flatten() == Error::kOk;
  uint64_t end = B->offset() + B->real_size();
  size_t after = code.code_size();
  printf("estimate=%zu, end of last section=%llu, code_size() after flatten=%zu, .empty: offset=%llu virtual_size=%llu\n",
         estimated, (unsigned long long)end, after, (unsigned long long)A->offset(), (unsigned long long)A->virtual_size());
  if (after != end || after > estimated || A->real_size() != 0) ok = false;
  // the padding between .text and .data is still covered (zeroed when asked for)
  uint8_t img[16]; memset(img, 0xCC, sizeof(img));
  if (code.copy_flattened_data(img, end, CopySectionFlags::kPadSectionBuffer) != Error::kOk || img[7] != 0 || img[8] != 0xAB || img[9] != 0xCC) ok = false;
  printf("%s\n", ok ? "PASS" : "FAIL");
  return ok ? 0 : 1;
}
