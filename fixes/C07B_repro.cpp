// C07B: x86 prolog: every preserved k register gets its own 8-byte save slot
// Build (TREE = asmjit source tree whose library was built in TREE/_build):
//   g++ -std=c++17 -I$TREE C07B_repro.cpp -L$TREE/_build -lasmjit -Wl,-rpath,$TREE/_build -o C07B_repro && ./C07B_repro
// exit 0 = PASS (repaired), exit 1 = FAIL (defect present)
#include <asmjit/x86.h>
#include <asmjit/a64.h>
#include <stdio.h>
#include <string.h>
#include <stdlib.h>
using namespace asmjit;
static Environment env_of(Arch a, Platform p, PlatformABI abi) { return Environment(a, SubArch::kUnknown, Vendor::kUnknown, p, abi); }

int main() {
  Environment env = env_of(Arch::kX64, Platform::kLinux, PlatformABI::kGNU);
  CodeHolder code; code.init(env); x86::Assembler a(&code); StringLogger logger; code.set_logger(&logger);
  FuncSignature sig(CallConvId::kX64SystemV);
  FuncDetail fd; fd.init(sig, env);
  fd._call_conv.set_preserved_regs(RegGroup::kMask, 0x06u);      // a user-defined convention that preserves k1 and k2
  FuncFrame frame; frame.init(fd);
  frame.add_dirty_regs(x86::k1, x86::k2);
  if (frame.finalize() != Error::kOk) return 1;
  a.emit_prolog(frame); a.emit_epilog(frame);
  printf("%s", logger.data());
  int offs[4], n = 0; const char* p = logger.data();
  while ((p = strstr(p, "kmovq")) && n < 4) { const char* b = strchr(p, '['); const char* plus = b ? strpbrk(b, "+]") : nullptr; offs[n++] = (plus && *plus == '+') ? atoi(plus + 1) : 0; p += 5; }
  bool ok = n == 4 && offs[0] != offs[1] && offs[0] == offs[2] && offs[1] == offs[3] && abs(offs[1] - offs[0]) == 8;
  puts(ok ? "PASS" : "FAIL"); return ok ? 0 : 1;
}
