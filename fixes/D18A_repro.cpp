// D18A: Arena::reset(ResetPolicy::kHard) (and ~Arena) does not release dynamic blocks when no managed block exists.
// Build (REPO = asmjit source tree):
//   c++ -std=c++17 -DASMJIT_STATIC -I$REPO D18A_repro.cpp $REPO/asmjit/support/arena.cpp $REPO/asmjit/core/globals.cpp -o D18A_repro
// Unrepaired: prints FAIL, exits with 1 (with -fsanitize=address LeakSanitizer also reports the block at exit).
// Repaired: prints PASS, exits with 0.
#include <asmjit/core.h>
#include <stdio.h>

using namespace asmjit;

int main() {
  Arena arena(1024);

  // More than Arena::kMaxReusableSlotSize bytes -> served by a dynamic block; no managed block is allocated.
  void* p = arena.alloc_reusable(5000);
  if (!p) {
    printf("SKIP: out of memory\n");
    return 2;
  }

  arena.reset(ResetPolicy::kHard);

  // After a hard reset the arena owns nothing.
  if (arena._dynamic_blocks != nullptr) {
    printf("FAIL: dynamic block still owned after reset(ResetPolicy::kHard) - it is never released\n");
    return 1;
  }

  // The arena must be usable again.
  void* q = arena.alloc_reusable(5000);
  void* r = arena.alloc_oneshot(64);
  if (!q || !r) {
    printf("FAIL: arena not usable after reset\n");
    return 1;
  }

  printf("PASS\n");
  return 0;
}
