// D5: a far call goes through .addrtab; the slot must be part of the flattened image also when a section is ordered after .addrtab.
// g++ -std=c++17 -O1 -I<tree> D5_repro.cpp -L<tree>/_build -lasmjit -Wl,-rpath,<tree>/_build -o D5_repro && ./D5_repro
#include <asmjit/x86.h>
#include <stdio.h>
#include <string.h>
#include <limits>
using namespace asmjit;
int main() {
  Environment env(Arch::kX64);
  CodeHolder code; code.init(env);
  x86::Assembler a(&code);
  const uint64_t target = 0x1122334455667788ull;
  a.call(Imm(target));                   // creates .addrtab (order INT32_MAX) and reserves one slot
  a.ret();
  Section* user;
  code.new_section(Out(user), ".user", SIZE_MAX, SectionFlags::kNone, 8, std::numeric_limits<int32_t>::max());   // sorted after .addrtab
  a.section(user);
  a.embed("ABCDEFGH", 8);
  bool ok = code.flatten() == Error::kOk && code.relocate_to_base(0x10000) == Error::kOk;
  uint8_t img[64]; memset(img, 0xCC, sizeof(img));
  size_t size = code.code_size();
  ok = ok && size <= sizeof(img) && code.copy_flattened_data(img, size, CopySectionFlags::kPadSectionBuffer) == Error::kOk;
  printf("image:"); for (size_t i = 0; i < size && i < sizeof(img); i++) printf(" %02X", img[i]); printf("\n");
  // FF 15 rel32 at offset 0: the slot is at end of instruction (6) + rel32
  if (!(img[0] == 0xFF && img[1] == 0x15)) ok = false;
  int32_t rel; memcpy(&rel, img + 2, 4);
  uint64_t slot = 0; size_t at = size_t(6 + rel);
  if (at + 8 <= size) memcpy(&slot, img + at, 8); else ok = false;
  if (slot != target) { printf("slot at image offset %zu holds 0x%llx, expected 0x%llx\n", at, (unsigned long long)slot, (unsigned long long)target); ok = false; }
  if (memcmp(img + user->offset(), "ABCDEFGH", 8) != 0) ok = false;
  printf("%s\n", ok ? "PASS" : "FAIL");
  return ok ? 0 : 1;
}
