// C03b: reference to a label that is already bound in another section.
// g++ -std=c++17 -O1 -I<tree> C03b_repro.cpp -L<tree>/_build -lasmjit -Wl,-rpath,<tree>/_build -o C03b_repro && ./C03b_repro
#include <asmjit/x86.h>
#include <stdio.h>
using namespace asmjit;
int main() {
  Environment env(Arch::kX64);
  CodeHolder code; code.init(env);
  x86::Assembler a(&code);
  Section* data;
  code.new_section(Out(data), ".data", SIZE_MAX, SectionFlags::kNone, 8, 0);
  Label L = a.new_label();
  a.section(data);
  a.dq(0x1122334455667788ull);
  a.bind(L);                                      // L = .data + 8
  a.dq(0xAABBCCDDEEFF0011ull);
  a.section(code.text_section());
  Error e = a.mov(x86::rax, x86::qword_ptr(L));   // 48 8B 05 rel32: backward reference across sections
  bool ok = e == Error::kOk;
  if (!code.is_label_bound(L) || code.label_offset(L) != 8) { printf("label entry damaged: offset=0x%llx\n", (unsigned long long)code.label_offset(L)); ok = false; }
  if (code.flatten() != Error::kOk || code.resolve_cross_section_fixups() != Error::kOk) ok = false;
  if (code.unresolved_fixup_count() != 0) { printf("unresolved=%zu\n", code.unresolved_fixup_count()); ok = false; }
  const uint8_t* t = code.text_section()->data();
  int32_t rel = int32_t(uint32_t(t[3]) | uint32_t(t[4]) << 8 | uint32_t(t[5]) << 16 | uint32_t(t[6]) << 24);
  uint64_t target = code.text_section()->offset() + 7 + int64_t(rel), want = data->offset() + 8;
  if (target != want) { printf("rel32 designates %llu, label is at %llu\n", (unsigned long long)target, (unsigned long long)want); ok = false; }
  printf("%s\n", ok ? "PASS" : "FAIL");
  return ok ? 0 : 1;
}
