// C07D: AArch64 frame with preserved FP: stack arguments are at FP + push_pop_save_size
// Build (TREE = asmjit source tree whose library was built in TREE/_build):
//   g++ -std=c++17 -I$TREE C07D_repro.cpp -L$TREE/_build -lasmjit -Wl,-rpath,$TREE/_build -o C07D_repro && ./C07D_repro
// exit 0 = PASS (repaired), exit 1 = FAIL (defect present)
#include <asmjit/x86.h>
#include <asmjit/a64.h>
#include <stdio.h>
#include <string.h>
#include <stdlib.h>
using namespace asmjit;
static Environment env_of(Arch a, Platform p, PlatformABI abi) { return Environment(a, SubArch::kUnknown, Vendor::kUnknown, p, abi); }

int main() {
  Environment env = env_of(Arch::kAArch64, Platform::kLinux, PlatformABI::kGNU);
  CodeHolder code; code.init(env); a64::Assembler a(&code); StringLogger logger; code.set_logger(&logger);
  FuncSignature sig(CallConvId::kCDecl);
  FuncDetail fd; fd.init(sig, env);
  FuncFrame frame; frame.init(fd);
  frame.set_preserved_fp(); frame.add_dirty_regs(a64::x19, a64::x20, a64::x21);
  if (frame.finalize() != Error::kOk) return 1;
  a.emit_prolog(frame);
  printf("%spush_pop_save_size=%u sa_offset_from_sa=%u\n", logger.data(), frame.push_pop_save_size(), frame.sa_offset_from_sa());
  // prolog: stp x29, x30, [sp, -N]! ; mov x29, sp  => x29 = entry SP - N, first stack argument at entry SP = x29 + N
  bool ok = frame.push_pop_save_size() == 48 && frame.sa_offset_from_sa() == frame.push_pop_save_size();
  puts(ok ? "PASS" : "FAIL"); return ok ? 0 : 1;
}
