// D18B: ArenaBitSet::resize() growing from a size that is not a multiple of 64 loses old bits / sets wrong new bits.
// Build (REPO = asmjit source tree; arenabitset_p.h is a private header of the library):
//   c++ -std=c++17 -DASMJIT_STATIC -I$REPO D18B_repro.cpp $REPO/asmjit/support/arena.cpp $REPO/asmjit/support/arenabitset.cpp $REPO/asmjit/core/globals.cpp -o D18B_repro
// Unrepaired: prints FAIL lines, exits with 1. Repaired: prints PASS, exits with 0.
#include <asmjit/core.h>
#include <asmjit/support/arenabitset_p.h>
#include <stdio.h>

using namespace asmjit;

static int failures = 0;

static void expect_bits(const char* what, const ArenaBitSet& set, size_t size, size_t ones_from, size_t ones_to) {
  // Expected: bits [ones_from, ones_to) are 1, all other bits below `size` are 0.
  if (set.size() != size) {
    printf("FAIL: %s: size is %zu (expected %zu)\n", what, set.size(), size);
    failures++;
    return;
  }
  for (size_t i = 0; i < size; i++) {
    bool expected = i >= ones_from && i < ones_to;
    if (set.bit_at(i) != expected) {
      printf("FAIL: %s: bit %zu is %d (expected %d)\n", what, i, int(set.bit_at(i)), int(expected));
      failures++;
      return;
    }
  }
}

int main() {
  Arena arena(1024);

  {
    // Old bits must survive growing inside the same bit-word.
    ArenaBitSet set;
    if (set.resize(arena, 3, true) != Error::kOk || set.resize(arena, 10, false) != Error::kOk) return 2;
    expect_bits("3 ones, resize(10, false)", set, 10, 0, 3);
  }

  {
    // New bits must get the requested value, also in the bit-word the old size ends in.
    ArenaBitSet set;
    if (set.resize(arena, 3, false) != Error::kOk || set.resize(arena, 70, true) != Error::kOk) return 2;
    expect_bits("3 zeros, resize(70, true)", set, 70, 3, 70);
  }

  {
    // Both at once, across a reallocation (capacity of the first resize is 128 bits).
    ArenaBitSet set;
    if (set.resize(arena, 100, false) != Error::kOk || set.resize(arena, 200, true) != Error::kOk) return 2;
    expect_bits("100 zeros, resize(200, true)", set, 200, 100, 200);
  }

  if (failures) return 1;
  printf("PASS\n");
  return 0;
}
