// C07E: AArch64, 16-byte vector save slots: the prolog allocates exactly the save area FuncFrame::finalize() computed
// Build (TREE = asmjit source tree whose library was built in TREE/_build):
//   g++ -std=c++17 -I$TREE C07E_repro.cpp -L$TREE/_build -lasmjit -Wl,-rpath,$TREE/_build -o C07E_repro && ./C07E_repro
// exit 0 = PASS (repaired), exit 1 = FAIL (defect present)
#include <asmjit/x86.h>
#include <asmjit/a64.h>
#include <stdio.h>
#include <string.h>
#include <stdlib.h>
using namespace asmjit;
static Environment env_of(Arch a, Platform p, PlatformABI abi) { return Environment(a, SubArch::kUnknown, Vendor::kUnknown, p, abi); }

int main() {
  Environment env = env_of(Arch::kAArch64, Platform::kLinux, PlatformABI::kGNU);
  bool ok = true;
  for (uint32_t mask : { 0x100u, 0x700u, 0x300u }) {              // one, three, two dirty callee-saved vector registers
    CodeHolder code; code.init(env); a64::Assembler a(&code); StringLogger logger; code.set_logger(&logger);
    FuncSignature sig(CallConvId::kLightCall2);
    FuncDetail fd; if (fd.init(sig, env) != Error::kOk) return 1;
    FuncFrame frame; frame.init(fd);
    frame.set_dirty_regs(RegGroup::kGp, 0); frame.set_dirty_regs(RegGroup::kVec, mask);
    if (frame.finalize() != Error::kOk) return 1;
    a.emit_prolog(frame);
    const char* p = strstr(logger.data(), "[sp, "); int pre = p ? atoi(p + 5) : 0;
    printf("mask=%x push_pop_save_size=%u first store pre-index=%d\n%s", mask, frame.push_pop_save_size(), pre, logger.data());
    ok &= pre == -int(frame.push_pop_save_size());
  }
  puts(ok ? "PASS" : "FAIL"); return ok ? 0 : 1;
}
