// C06D_C06E: AArch64 stack arguments: Apple packs char arguments (offsets 0,1), 128-bit vectors are 16-byte aligned (AAPCS64 and Apple)
// Build (TREE = asmjit source tree whose library was built in TREE/_build):
//   g++ -std=c++17 -I$TREE C06D_C06E_repro.cpp -L$TREE/_build -lasmjit -Wl,-rpath,$TREE/_build -o C06D_C06E_repro && ./C06D_C06E_repro
// exit 0 = PASS (repaired), exit 1 = FAIL (defect present)
#include <asmjit/x86.h>
#include <asmjit/a64.h>
#include <stdio.h>
#include <string.h>
#include <stdlib.h>
using namespace asmjit;
static Environment env_of(Arch a, Platform p, PlatformABI abi) { return Environment(a, SubArch::kUnknown, Vendor::kUnknown, p, abi); }

int main() {
  bool ok = true;
  { // Apple: f(int x8, char, char, short, int)
    Environment env = env_of(Arch::kAArch64, Platform::kOSX, PlatformABI::kDarwin);
    FuncSignature sig(CallConvId::kCDecl); for (int i = 0; i < 8; i++) sig.add_arg(TypeId::kInt32);
    sig.add_arg(TypeId::kInt8); sig.add_arg(TypeId::kInt8); sig.add_arg(TypeId::kInt16); sig.add_arg(TypeId::kInt32);
    FuncDetail fd; if (fd.init(sig, env) != Error::kOk) return 1;
    printf("apple: %d %d %d %d size=%u\n", fd.arg(8).stack_offset(), fd.arg(9).stack_offset(), fd.arg(10).stack_offset(), fd.arg(11).stack_offset(), fd.arg_stack_size());
    ok &= fd.arg(8).stack_offset() == 0 && fd.arg(9).stack_offset() == 1 && fd.arg(10).stack_offset() == 2 && fd.arg(11).stack_offset() == 4 && fd.arg_stack_size() == 8;
  }
  for (int apple = 0; apple < 2; apple++) { // f(float x8, float, float32x4_t, char)
    Environment env = apple ? env_of(Arch::kAArch64, Platform::kOSX, PlatformABI::kDarwin) : env_of(Arch::kAArch64, Platform::kLinux, PlatformABI::kGNU);
    FuncSignature sig(CallConvId::kCDecl); for (int i = 0; i < 9; i++) sig.add_arg(TypeId::kFloat32);
    sig.add_arg(TypeId::kFloat32x4);
    FuncDetail fd; if (fd.init(sig, env) != Error::kOk) return 1;
    printf("%s: float at %d, vector at %d, size=%u\n", apple ? "apple" : "aapcs64", fd.arg(8).stack_offset(), fd.arg(9).stack_offset(), fd.arg_stack_size());
    ok &= fd.arg(8).stack_offset() == 0 && fd.arg(9).stack_offset() == 16 && fd.arg_stack_size() == 32;
  }
  puts(ok ? "PASS" : "FAIL"); return ok ? 0 : 1;
}
