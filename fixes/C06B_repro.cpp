// C06B: Win64: f(__m128, int, int, int, int) - the 5th argument is at offset 32 and the argument area is 40 bytes
// Build (TREE = asmjit source tree whose library was built in TREE/_build):
//   g++ -std=c++17 -I$TREE C06B_repro.cpp -L$TREE/_build -lasmjit -Wl,-rpath,$TREE/_build -o C06B_repro && ./C06B_repro
// exit 0 = PASS (repaired), exit 1 = FAIL (defect present)
#include <asmjit/x86.h>
#include <asmjit/a64.h>
#include <stdio.h>
#include <string.h>
#include <stdlib.h>
using namespace asmjit;
static Environment env_of(Arch a, Platform p, PlatformABI abi) { return Environment(a, SubArch::kUnknown, Vendor::kUnknown, p, abi); }

int main() {
  Environment env = env_of(Arch::kX64, Platform::kWindows, PlatformABI::kMSVC);
  FuncSignature sig(CallConvId::kX64Windows);
  sig.add_arg(TypeId::kFloat32x4); for (int i = 0; i < 4; i++) sig.add_arg(TypeId::kInt32);
  FuncDetail fd; if (fd.init(sig, env) != Error::kOk) return 1;
  printf("arg0 reg=%u indirect=%d, arg4 stack offset=%d, arg_stack_size=%u\n", fd.arg(0).reg_id(), fd.arg(0).is_indirect(), fd.arg(4).stack_offset(), fd.arg_stack_size());
  bool ok = fd.arg(0).is_reg() && fd.arg(0).is_indirect() && fd.arg(4).is_stack() && fd.arg(4).stack_offset() == 32 && fd.arg_stack_size() == 40;
  puts(ok ? "PASS" : "FAIL"); return ok ? 0 : 1;
}
