// D1: Arena::_alloc_oneshot() frees a retained block that is too small but leaves it linked.
// Build (AddressSanitizer makes the use of the freed block observable; REPO = asmjit source tree):
//   c++ -std=c++17 -g -fsanitize=address -DASMJIT_STATIC -I$REPO D1_repro.cpp $REPO/asmjit/support/arena.cpp $REPO/asmjit/core/globals.cpp -o D1_repro
// Unrepaired: AddressSanitizer reports heap-use-after-free in Arena::reset() and the program exits with 1.
// Repaired: prints PASS, exits with 0.
#include <asmjit/core.h>
#include <stdio.h>

using namespace asmjit;

int main() {
  Arena arena(1024);

  // Three managed blocks: [default] -> [1536+] -> [6000+].
  void* a = arena.alloc_oneshot(512);
  void* b = arena.alloc_oneshot(1536);
  void* c = arena.alloc_oneshot(6000);
  if (!a || !b || !c) {
    printf("SKIP: out of memory\n");
    return 2;
  }

  // Soft reset keeps all blocks; the first one becomes current again.
  arena.reset(ResetPolicy::kSoft);

  // Does not fit the first block, skips (frees) the second block, fits the third one.
  void* d = arena.alloc_oneshot(5000);
  if (!d) {
    printf("SKIP: out of memory\n");
    return 2;
  }

  // The block chain must consist of live blocks only.
  ArenaStatistics stats = arena.statistics();
  printf("blocks after reuse: %zu (expected 2)\n", stats.block_count());

  // Walks and frees the chain - use-after-free / double free if the freed block is still linked.
  arena.reset(ResetPolicy::kHard);

  if (stats.block_count() != 2u) {
    printf("FAIL\n");
    return 1;
  }

  printf("PASS\n");
  return 0;
}
