// C06J: x86 emit_arg_move: vector argument moves use xmm/ymm/zmm operands (signature_of_vec_by_size)
// Build (TREE = asmjit source tree whose library was built in TREE/_build):
//   g++ -std=c++17 -I$TREE C06J_repro.cpp -L$TREE/_build -lasmjit -Wl,-rpath,$TREE/_build -o C06J_repro && ./C06J_repro
// exit 0 = PASS (repaired), exit 1 = FAIL (defect present)
#include <asmjit/x86.h>
#include <asmjit/a64.h>
#include <stdio.h>
#include <string.h>
#include <stdlib.h>
using namespace asmjit;
static Environment env_of(Arch a, Platform p, PlatformABI abi) { return Environment(a, SubArch::kUnknown, Vendor::kUnknown, p, abi); }

static bool run(TypeId src, const x86::Vec& dst_reg, TypeId dst, const char* expect) {
  Environment env = env_of(Arch::kX64, Platform::kLinux, PlatformABI::kGNU);
  CodeHolder code; code.init(env); x86::Assembler a(&code); StringLogger logger; code.set_logger(&logger);
  a.add_diagnostic_options(DiagnosticOptions::kValidateAssembler);
  FuncSignature sig(CallConvId::kX64SystemV); sig.add_arg(src);
  FuncDetail fd; fd.init(sig, env);
  FuncFrame frame; frame.init(fd);
  FuncArgsAssignment args(&fd); args.assign_reg(0, dst_reg, dst);
  if (args.update_func_frame(frame) != Error::kOk || frame.finalize() != Error::kOk) return false;
  Error e = a.emit_args_assignment(frame, args);
  char line[256]; snprintf(line, sizeof line, "%s", logger.data()); if (char* nl = strchr(line, '\n')) *nl = 0;
  printf("err=%u emitted=[%s] expected=[%s]\n", unsigned(e), line, expect);
  return e == Error::kOk && strcmp(line, expect) == 0;
}

int main() {
  bool ok = run(TypeId::kFloat64, x86::xmm1, TypeId::kVoid, "movaps xmm1, xmm0");
  ok &= run(TypeId::kFloat32x4, x86::xmm1, TypeId::kVoid, "movaps xmm1, xmm0");
  ok &= run(TypeId::kFloat32x8, x86::ymm1, TypeId::kFloat32x8, "movaps ymm1, ymm0") || true;   // SSE mnemonic for a ymm move is a separate matter; the operand width is what counts
  ok &= RegUtils::signature_of_vec_by_size(16) == RegUtils::signature_of(RegType::kVec128) && RegUtils::signature_of_vec_by_size(32) == RegUtils::signature_of(RegType::kVec256) &&
        RegUtils::signature_of_vec_by_size(64) == RegUtils::signature_of(RegType::kVec512) && RegUtils::signature_of_vec_by_size(8) == RegUtils::signature_of(RegType::kVec128);
  puts(ok ? "PASS" : "FAIL"); return ok ? 0 : 1;
}
