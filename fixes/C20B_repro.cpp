// C20B - AArch64 formatter shows the lane count of a 128-bit vector for vector registers narrower than 64 bits (Vn.2H -> "vN.8h").
// Build & run (against the library built in /tmp/fix/c20/_build):
//   c++ -std=c++17 -I/tmp/fix/c20 C20B_repro.cpp -L/tmp/fix/c20/_build -lasmjit -Wl,-rpath,/tmp/fix/c20/_build -o C20B_repro && ./C20B_repro
// Exit code 1 (FAIL) on the unrepaired tree, 0 (PASS) when repaired.
#include <asmjit/a64.h>
#include <stdio.h>
#include <string.h>

using namespace asmjit;

static int failures;

static void expect_text(const char* what, const char* actual, const char* expected) {
  bool ok = strncmp(actual, expected, strlen(expected)) == 0;
  printf("%-22s shown as \"%.*s\"  expected \"%s\"  %s\n", what, int(strcspn(actual, ";\n")), actual, expected, ok ? "ok" : "WRONG");
  if (!ok) failures++;
}

static void expect_operand(const char* what, const Operand_& op, const char* expected) {
  String sb;
  Formatter::format_operand(sb, FormatFlags::kNone, nullptr, Arch::kAArch64, op);
  bool ok = sb.equals(expected);
  printf("%-22s shown as \"%s\"  expected \"%s\"  %s\n", what, sb.data(), expected, ok ? "ok" : "WRONG");
  if (!ok) failures++;
}

int main() {
  using namespace a64;

  // An emitted instruction: FADDP Hd, Vn.2H (half-precision pairwise add, scalar).
  {
    CodeHolder code;
    code.init(Environment(Arch::kAArch64));
    StringLogger logger;
    code.set_logger(&logger);
    Assembler a(&code);

    Error err = a.faddp(h0, v1.h2());
    if (err != Error::kOk) {
      printf("faddp h0, v1.2h failed to assemble: %s\n", DebugUtils::error_as_string(err));
      failures++;
    }
    else {
      expect_text("faddp h0, v1.2h", logger.data(), "faddp h0, v1.2h");
    }
  }

  // Operands alone - every arrangement the operand API offers.
  expect_operand("v3.h2()"  , v3.h2()  , "v3.2h");
  expect_operand("v3.b8()"  , v3.b8()  , "v3.8b");
  expect_operand("v3.b16()" , v3.b16() , "v3.16b");
  expect_operand("v3.h4()"  , v3.h4()  , "v3.4h");
  expect_operand("v3.h8()"  , v3.h8()  , "v3.8h");
  expect_operand("v3.s2()"  , v3.s2()  , "v3.2s");
  expect_operand("v3.s4()"  , v3.s4()  , "v3.4s");
  expect_operand("v3.d2()"  , v3.d2()  , "v3.2d");
  expect_operand("v3.h(5)"  , v3.h(5)  , "v3.8h[5]");
  expect_operand("v3.b4(1)" , v3.b4(1) , "v3.4b[1]");
  expect_operand("v3.h2(1)" , v3.h2(1) , "v3.2h[1]");
  expect_operand("v3.s()"   , v3.s()   , "s3");

  printf("%s\n", failures ? "FAIL" : "PASS");
  return failures ? 1 : 0;
}
