// D7: Win64: a by-reference vector argument at index >= 16 must be passed on the stack (no out-of-range read of the GP order)
// Build (TREE = asmjit source tree whose library was built in TREE/_build):
//   g++ -std=c++17 -I$TREE D7_repro.cpp -L$TREE/_build -lasmjit -Wl,-rpath,$TREE/_build -o D7_repro && ./D7_repro
// exit 0 = PASS (repaired), exit 1 = FAIL (defect present)
#include <asmjit/x86.h>
#include <asmjit/a64.h>
#include <stdio.h>
#include <string.h>
#include <stdlib.h>
using namespace asmjit;
static Environment env_of(Arch a, Platform p, PlatformABI abi) { return Environment(a, SubArch::kUnknown, Vendor::kUnknown, p, abi); }

int main() {
  Environment env = env_of(Arch::kX64, Platform::kWindows, PlatformABI::kMSVC);
  FuncSignature sig(CallConvId::kX64Windows);
  for (int i = 0; i < 16; i++) sig.add_arg(TypeId::kInt32);
  sig.add_arg(TypeId::kInt32x4); sig.add_arg(TypeId::kInt32x4);
  FuncDetail fd; if (fd.init(sig, env) != Error::kOk) return 1;
  const FuncValue& a16 = fd.arg(16), &a17 = fd.arg(17);
  printf("arg16: reg=%d stack=%d off=%d indirect=%d | arg17: reg=%d stack=%d off=%d\n", a16.is_reg(), a16.is_stack(), a16.stack_offset(), a16.is_indirect(), a17.is_reg(), a17.is_stack(), a17.stack_offset());
  bool ok = a16.is_stack() && !a16.is_reg() && a16.is_indirect() && a16.stack_offset() == 128 && a17.is_stack() && a17.stack_offset() == 136;
  puts(ok ? "PASS" : "FAIL"); return ok ? 0 : 1;
}
