// C03a: embed_label_delta() of two labels already bound to one section must not truncate the difference.
// g++ -std=c++17 -O1 -I<tree> C03a_repro.cpp -L<tree>/_build -lasmjit -Wl,-rpath,<tree>/_build -o C03a_repro && ./C03a_repro
#include <asmjit/x86.h>
#include <stdio.h>
using namespace asmjit;
int main() {
  Environment env(Arch::kX64);
  CodeHolder code; code.init(env);
  x86::Assembler a(&code);
  Label base = a.new_label(), lab = a.new_label();
  a.bind(base);
  for (int i = 0; i < 300; i++) a.nop();
  a.bind(lab);
  bool ok = true;
  size_t at = a.offset();
  Error e1 = a.embed_label_delta(lab, base, 1);           // 300 does not fit one byte: must be reported, nothing emitted
  if (e1 == Error::kOk) { printf("delta 300 in 1 byte: Ok, emitted %02X\n", code.text_section()->data()[at]); ok = false; }
  if (a.offset() != at) ok = false;
  Error e2 = a.embed_label_delta(lab, base, 2);           // fits two bytes: 2C 01
  const uint8_t* t = code.text_section()->data();
  if (e2 != Error::kOk || a.offset() != at + 2 || t[at] != 0x2C || t[at + 1] != 0x01) ok = false;
  Error e3 = a.embed_label_delta(base, lab, 2);           // -300 fits two bytes as a signed value: D4 FE
  if (e3 != Error::kOk || t[at + 2] != 0xD4 || t[at + 3] != 0xFE) ok = false;
  printf("%s\n", ok ? "PASS" : "FAIL");
  return ok ? 0 : 1;
}
