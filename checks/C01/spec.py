# C01 — x86/x64 encoding
X86_UNITS = ['asmjit/x86/x86assembler.cpp', 'asmjit/x86/x86instdb.cpp', 'asmjit/x86/x86instapi.cpp']
UNITS = [Unit('core', harness=['h_core.cpp'], repo_units=X86_UNITS)]
HARNESSES = [
    Harness('core', 'h_add_rr64', unwind=17, bounds='all 16x16 register ids', mem_gb=6),
    Harness('core', 'h_vaddps_zmm_mem', unwind=17, bounds='zmm0-31 x zmm0-31 x base 0-15 x index 0-15 (not rsp) x scale 0-3 x all 2^32 disp x k0-7 x z', mem_gb=8, timeout=900),
]
EXPLANATION = 'bounded symbolic execution (CBMC) of the real x86::Assembler::_emit + strict validation, decoded by an independent reference decoder in the harness'
OUTSIDE = []
ASSUMPTIONS = ['code buffer has >= 16 free bytes (growth path is C15)']
