# C01 — x86/x64 encoding
X86_UNITS = ['asmjit/x86/x86assembler.cpp', 'asmjit/x86/x86instdb.cpp', 'asmjit/x86/x86instapi.cpp']
UNITS = [Unit('core', harness=['h_core.cpp'], repo_units=X86_UNITS), Unit('forms', prescreen=True, harness=['h_forms.cpp'], repo_units=X86_UNITS)]
HARNESSES = [
    Harness('core', 'h_add_rr64', unwind=17, bounds='all 16x16 register ids', mem_gb=6),
    Harness('core', 'h_vaddps_zmm_mem', unwind=17, bounds='zmm0-31 x zmm0-31 x base 0-15 x index 0-15 (not rsp) x scale 0-3 x all 2^32 disp x k0-7 x z', mem_gb=8, timeout=900),
]
import json, os
_here = os.path.dirname(os.path.abspath(__file__))
_fg = json.load(open(os.path.join(_here, 'forms_gen.json')))
_st = json.load(open(os.path.join(_here, 'forms_status.json'))) if os.path.exists(os.path.join(_here, 'forms_status.json')) else None
_sel = [h for h in _fg['harnesses'] if h.get('known') != 'D15' and (_st is None or _st.get(h['fn'], {}).get('accepted_runs', 0) > 0)]
# Rotation: the family is far larger than one run's budget. quick: ~14 harnesses per seed; thorough: ~220 per seed.
_NQ = max(1, len(_sel) // 60); _NT = max(1, len(_sel) // 1500)
for _i, _h in enumerate(_sel):
    HARNESSES.append(Harness('forms', _h['fn'], unwind=17, tiers=('quick', 'thorough'), mem_gb=5, timeout=900, validate_runs=200,
                             rotate=(_i % _NQ, _NQ), rotate_thorough=((_i * 7919) % _NT, _NT), known=_h.get('known'),
                             bounds='instruction %s, %s-bit mode, %d database record(s): %s; every register id of each operand class, memory = base/index/scale/disp32/segment/abs/RIP forms, immediates full width, {k}{z}' % (
                                 _h['inst'], _h['mode'], _h['nforms'], ' | '.join(_h['records'])[:300])))
EXPLANATION = 'bounded symbolic execution (CBMC) of the real x86::Assembler::_emit + strict validation, decoded by an independent reference decoder in the harness'
OUTSIDE = []
ASSUMPTIONS = ['code buffer has >= 16 free bytes (growth path is C15)']
