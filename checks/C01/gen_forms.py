#!/usr/bin/env python3
"""Generates the C01 form family from /repo/db/isa_x86.json (documented in db/isa_x86.md).

Output (written next to this file, committed; regenerate by hand when the DB changes — the harness .cpp is compiled from
/repo on every run, so a renamed/removed instruction id is a compile error, not a silent skip):
  forms_gen.h     tables of vf::Form + one HARNESS per (instruction, operand-kind signature, mode)
  forms_gen.json  list of harnesses with their DB records, and the records not generated (with the reason)
"""
import json, re, os, sys, collections

HERE = os.path.dirname(os.path.abspath(__file__))
REPO = os.environ.get('VERIF_REPO', '/repo')
db = json.load(open(os.path.join(REPO, 'db', 'isa_x86.json')))

REG_KINDS = {'r8': 'K_GP8', 'r16': 'K_GP16', 'r32': 'K_GP32', 'r64': 'K_GP64', 'mm': 'K_MM', 'xmm': 'K_XMM', 'ymm': 'K_YMM', 'zmm': 'K_ZMM', 'k': 'K_KREG'}
MEM_SIZES = {'m8': 1, 'm16': 2, 'm32': 4, 'm64': 8, 'm80': 10, 'm128': 16, 'm256': 32, 'm512': 64, 'mem': 0,
             'm16int': 2, 'm32int': 4, 'm64int': 8, 'm32fp': 4, 'm64fp': 8, 'm80fp': 10, 'm80bcd': 10, 'm80dec': 10}
IMM_SIZES = {'imm8': 1, 'imms8': 1, 'immu8': 1, 'imm16': 2, 'immu16': 2, 'imm32': 4, 'imms32': 4, 'immu32': 4, 'imm64': 8}

class Skip(Exception):
    pass

def split_ops(s):
    out, depth, cur = [], 0, ''
    for ch in s:
        if ch in '([{<': depth += 1
        if ch in ')]}>': depth -= 1
        if ch == ',' and depth == 0:
            out.append(cur.strip()); cur = ''
        else:
            cur += ch
    if cur.strip():
        out.append(cur.strip())
    return out

def parse_operand(tok):
    """-> dict(alts=[('reg',name)|('mem',name)|('imm',name)], deco=set())"""
    t = re.sub(r'^[RWXrwx]\??:', '', tok).strip()
    deco = set(re.findall(r'\{(\w+)\}', t))
    t = re.sub(r'\{\w+\}', '', t).strip()
    t = t.replace('~', '')
    if t.startswith('<') or t in ('al', 'ax', 'eax', 'rax', 'cl', 'dx', 'axv', 'dxv', '1', 'st(0)', 'st(i)', 'es', 'cs', 'ss', 'ds', 'fs', 'gs'):
        raise Skip('implicit/fixed operand ' + t)
    alts = []
    for a in t.split('/'):
        a = a.strip()
        a = re.sub(r'\[\d+:\d+\]$', '', a)
        if a in REG_KINDS or a in ('rv', 'ry', 'xy', 'xyz', 'xxx', 'xxy'):
            alts.append(('reg', a))
        elif a in MEM_SIZES or a in ('mv', 'my', 'mxy', 'mxyz', 'mxxx', 'mxxy'):
            alts.append(('mem', a))
        elif a in IMM_SIZES or a in ('immv', 'imm4'):
            alts.append(('imm', a))
        elif re.fullmatch(r'b(16|32|64)', a):
            pass  # broadcast alternative: not generated (b stays 0)
        else:
            raise Skip('operand token ' + a)
    return dict(alts=alts, deco=deco)

def parse_op_string(op):
    """-> dict(layout, enc, pp, map, w, l, opcode, digit, has_modrm, modrm_mode, imm, is4, fixed, rexw, opreg, vl_token, w_token)"""
    m = re.match(r'\s*\[([A-Za-z_ ]*)\]\s*(.*)$', op)
    if not m:
        raise Skip('no layout')
    layout = m.group(1).strip().replace('_', '')
    toks = m.group(2).split()
    r = dict(layout=layout, enc='E_LEGACY', pp=0, map=0, w=0, l=0, opcode=None, digit=-1, has_modrm=0, modrm_mode='any', imm=[], is4=False, fixed=[], rexw=False, opreg=False,
             vl_token=None, w_token=None, pv=False)
    i = 0
    PP = {'NP': 0, '66': 1, 'F3': 2, 'F2': 3, 'P0': 0}
    MAP = {'0F': 1, '0F38': 2, '0F3A': 3, 'MAP5': 5, 'MAP6': 6, 'MAP8': 8, 'MAP9': 9, 'MAPA': 10, 'MAP10': 10}
    if toks and re.match(r'(VEX|EVEX|XOP)\.', toks[0]):
        parts = toks[0].split('.'); i = 1
        r['enc'] = {'VEX': 'E_VEX', 'EVEX': 'E_EVEX', 'XOP': 'E_XOP'}[parts[0]]
        for p in parts[1:]:
            if p in ('128', 'L0', 'LZ', 'LLZ'): r['l'] = 0
            elif p in ('256', 'L1'): r['l'] = 1
            elif p == '512': r['l'] = 2
            elif p in ('LIG',): r['l'] = 3
            elif p in ('Lxy', 'xyz', 'xy'): r['vl_token'] = p
            elif p in PP: r['pp'] = PP[p]
            elif p in MAP: r['map'] = MAP[p]
            elif p == 'W0': r['w'] = 0
            elif p == 'W1': r['w'] = 1
            elif p == 'WIG': r['w'] = 2
            elif p == 'Wy': r['w_token'] = 'y'
            else: raise Skip('vex field ' + p)
        if r['map'] == 0: raise Skip('no map')
    else:
        while i < len(toks):
            t = toks[i]
            if t == 'NP': i += 1
            elif t in ('66', 'F2', 'F3') and i + 1 < len(toks) and (toks[i + 1] in ('0F', 'REX.W') or r['opcode'] is None and re.fullmatch(r'[0-9A-F]{2}', toks[i + 1] or '') and toks[i+1] == '0F'):
                r['pp'] = PP[t]; i += 1
            elif t == 'REX.W': r['rexw'] = True; i += 1
            elif t == '0F' and r['opcode'] is None:
                r['map'] = 1; i += 1
                if i < len(toks) and toks[i] in ('38', '3A') and i + 1 < len(toks) and re.fullmatch(r'[0-9A-F]{2}(\+[ri])?', toks[i + 1]):
                    r['map'] = 2 if toks[i] == '38' else 3; i += 1
            else:
                break
    # opcode byte
    if i >= len(toks): raise Skip('no opcode')
    m = re.fullmatch(r'([0-9A-F]{2})(\+[ri])?', toks[i])
    if not m: raise Skip('opcode token ' + toks[i])
    r['opcode'] = int(m.group(1), 16)
    if m.group(2) == '+r': r['opreg'] = True
    elif m.group(2) == '+i': raise Skip('fpu +i')
    i += 1
    while i < len(toks):
        t = toks[i]; i += 1
        if t == '/r': r['has_modrm'] = 1
        elif re.fullmatch(r'/[0-7]', t): r['has_modrm'] = 1; r['digit'] = int(t[1])
        elif t == '11:rrr:bbb': r['has_modrm'] = 1; r['modrm_mode'] = 'reg'
        elif t == '!(11):rrr:bbb': r['has_modrm'] = 1; r['modrm_mode'] = 'mem'
        elif re.fullmatch(r'11:[01]{3}:bbb', t): r['has_modrm'] = 1; r['digit'] = int(t[3:6], 2); r['modrm_mode'] = 'reg'
        elif re.fullmatch(r'!\(11\):[01]{3}:bbb', t): r['has_modrm'] = 1; r['digit'] = int(t[6:9], 2); r['modrm_mode'] = 'mem'
        elif t in ('ib', 'iw', 'id', 'iq'): r['imm'].append({'ib': 1, 'iw': 2, 'id': 4, 'iq': 8}[t])
        elif t == 'iv': r['imm'].append('v')
        elif t == '/is4': r['is4'] = True
        elif re.fullmatch(r'[0-9A-F]{2}', t) and not r['has_modrm'] and not r['imm']: r['fixed'].append(int(t, 16))
        else: raise Skip('op token ' + t)
    if len(r['fixed']) > 2: raise Skip('too many fixed bytes')
    return r

SIZE_VARIANTS = {'v': [2, 4, 8], 'y': [4, 8], 'xy': [16, 32], 'xyz': [16, 32, 64]}

def expand(rec, arch, sig, opstr, extra):
    m = re.match(r'\s*(\[[^\]]*\]\s*)?([A-Za-z0-9_|{}]+)\s*(.*)$', sig)
    name = m.group(2)
    if '{' in name: raise Skip('apx name suffix')
    name = name.split('|')[0]
    ops = [parse_operand(t) for t in split_ops(m.group(3))]
    if len(ops) > 4: raise Skip('more than 4 operands')
    o = parse_op_string(opstr)
    if arch == 'apx': raise Skip('apx')
    # which grouping variable does this record use?
    alltoks = [a[1] for op in ops for a in op['alts']]
    groups = set()
    for t in alltoks:
        if t in ('rv', 'mv', 'immv'): groups.add('v')
        if t in ('ry', 'my'): groups.add('y')
        if t in ('xy', 'mxy'): groups.add('xy')
        if t in ('xyz', 'mxyz', 'xxx', 'mxxx', 'xxy', 'mxxy'): groups.add('xyz')
    if o['vl_token'] == 'Lxy': groups.add('xy')
    if o['vl_token'] in ('xyz',): groups.add('xyz')
    if o['w_token'] == 'y': groups.add('y')
    if 'xy' in groups and 'xyz' in groups: raise Skip('mixed xy/xyz')
    gp = [g for g in groups if g in ('v', 'y')]
    vg = [g for g in groups if g in ('xy', 'xyz')]
    if len(gp) > 1: raise Skip('mixed v/y')
    modes = {'any': 3, 'x86': 1, 'x64': 2}[arch]
    out = []
    for gsz in (SIZE_VARIANTS[gp[0]] if gp else [None]):
        for vsz in (SIZE_VARIANTS[vg[0]] if vg else [None]):
            # choose reg-or-mem alternative per operand (at most one operand has both)
            variants = [[]]
            for op in ops:
                nv = []
                kinds = sorted(set(a[0] for a in op['alts']))
                for k in kinds:
                    a = [x for x in op['alts'] if x[0] == k][0]
                    for v in variants: nv.append(v + [(a, op['deco'])])
                variants = nv
            for var in variants:
                try:
                    out.append(build_form(name, o, var, gsz, vsz, modes, extra))
                except Skip as e:
                    raise
    return out

def build_form(name, o, var, gsz, vsz, modes, extra):
    f = dict(name=name, enc=o['enc'], pp=o['pp'], map=o['map'], opcode=o['opcode'], digit=o['digit'], has_modrm=o['has_modrm'], w=o['w'], l=o['l'], osize=0, ops=[], imm_bytes=0,
             disp8_shift=0, flags=[], fixed=o['fixed'], modes=modes)
    if o['w_token'] == 'y': f['w'] = 1 if gsz == 8 else 0
    if o['vl_token']: f['l'] = {16: 0, 32: 1, 64: 2}[vsz]
    if o['enc'] == 'E_LEGACY':
        if gsz is not None: f['osize'] = gsz if gsz in (2, 8) else 0
        if o['rexw']: f['w'] = 1; f['osize'] = 8 if gsz is None else f['osize']
    if gsz == 8 or o['rexw'] or (o['enc'] != 'E_LEGACY' and f['w'] == 1 and any(a[0][1] in ('r64',) for a in var)): f['modes'] &= 2
    layout = o['layout']
    roles = {'R': 'R_REG', 'M': 'R_RM', 'V': 'R_VVVV', 'S': 'R_IS4'}
    imm_specs = list(o['imm'])
    li = 0; mem_seen = False
    for (alt, deco) in var:
        kind, tok = alt
        if kind == 'imm':
            if tok == 'imm4': raise Skip('imm4')
            nb = IMM_SIZES.get(tok)
            if tok == 'immv': nb = {2: 2, 4: 4, 8: 4}[gsz]
            if not imm_specs: raise Skip('imm operand without imm bytes')
            spec = imm_specs.pop(0)
            if spec == 'v': spec = {2: 2, 4: 4, 8: 4}[gsz]
            if spec != nb: raise Skip('imm size mismatch')
            if f['imm_bytes']: raise Skip('two immediates')
            f['imm_bytes'] = spec
            f['ops'].append(('K_IMM', 'R_IMM', spec))
            continue
        if o['opreg']:
            role = 'R_OPREG'
        else:
            if li >= len(layout): raise Skip('layout shorter than operands')
            role = roles.get(layout[li])
            if role is None: raise Skip('layout letter ' + layout[li])
            li += 1
        if kind == 'reg':
            if tok == 'rv': k = {2: 'K_GP16', 4: 'K_GP32', 8: 'K_GP64'}[gsz]
            elif tok == 'ry': k = {4: 'K_GP32', 8: 'K_GP64'}[gsz]
            elif tok in ('xy', 'xyz'): k = {16: 'K_XMM', 32: 'K_YMM', 64: 'K_ZMM'}[vsz]
            elif tok == 'xxx': k = 'K_XMM'
            elif tok == 'xxy': k = {16: 'K_XMM', 32: 'K_XMM', 64: 'K_YMM'}[vsz]
            else: k = REG_KINDS[tok]
            if k == 'K_GP64': f['modes'] &= 2
            if role == 'R_RM' and o['modrm_mode'] == 'mem': raise Skip('reg alt in mem-only modrm')
            f['ops'].append((k, role, 0))
        else:
            if role != 'R_RM': raise Skip('memory operand not in rm position')
            if o['modrm_mode'] == 'reg': raise Skip('mem alt in reg-only modrm')
            if mem_seen: raise Skip('two memory operands')
            mem_seen = True
            if tok == 'mv': sz = gsz
            elif tok == 'my': sz = gsz
            elif tok in ('mxy', 'mxyz'): sz = vsz
            elif tok == 'mxxx': sz = {16: 4, 32: 8, 64: 16}[vsz]
            elif tok == 'mxxy': sz = {16: 8, 32: 16, 64: 32}[vsz]
            else: sz = MEM_SIZES[tok]
            f['ops'].append(('K_MEM', role, sz))
        if 'kz' in deco: f['flags'] = ['F_K', 'F_Z']
        elif 'k' in deco: f['flags'] = ['F_K']
    if imm_specs: raise Skip('imm bytes without imm operand')
    if o['is4'] and not any(op[1] == 'R_IS4' for op in f['ops']): raise Skip('is4 without S')
    if f['enc'] == 'E_EVEX':
        tt = extra.get('tt')
        if mem_seen:
            f['disp8_shift'] = disp8_shift(tt, f, vsz)
    if f['modes'] == 0: raise Skip('no mode')
    return f

def disp8_shift(tt, f, vsz):
    """EVEX disp8*N (SDM Vol.2 2.7.5, tables 2-34/2-35), broadcast not used here."""
    import math
    vl = {0: 16, 1: 32, 2: 64, 3: 16}[f['l']]
    w = 1 if f['w'] == 1 else 0
    memsz = [op[2] for op in f['ops'] if op[0] == 'K_MEM'][0]
    if tt is None: raise Skip('evex mem form without tt')
    tt = tt.lower()
    if tt == 'fv': n = vl
    elif tt == 'hv': n = vl // 2
    elif tt == 'fvm': n = vl
    elif tt in ('t1s', 't1f', 't1s8', 't1s16', 't2', 't4', 't8', 't1_4x'):
        # N is the size of the memory access for these tuple types
        n = memsz
    elif tt == 'hvm': n = vl // 2
    elif tt == 'qvm': n = vl // 4
    elif tt == 'ovm': n = vl // 8
    elif tt == 'm128': n = 16
    elif tt == 'dup': n = {16: 8, 32: 32, 64: 64}[vl]
    elif tt == 'quarter' or tt == 'qv': n = vl // 4
    else: raise Skip('tuple type ' + tt)
    if n <= 0 or (n & (n - 1)): raise Skip('disp8 N ' + str(n))
    return int(math.log2(n))

# ------------------------------------------------------------------------------------------------------------------------
groups = collections.OrderedDict()   # (name, kinds signature) -> [forms]
skipped = collections.Counter(); nrec = 0; ngen = 0
for g in db['instructions']:
    for rec in g['instructions']:
        al = [k for k in ('any', 'x86', 'x64', 'apx') if k in rec]
        if not al: skipped['no arch key'] += 1; nrec += 1; continue
        nrec += 1
        try:
            forms = expand(rec, al[0], rec[al[0]], rec.get('op', ''), rec)
        except Skip as e:
            skipped[re.sub(r' [^ ]*$', '', str(e)) if str(e).startswith(('operand token', 'op token', 'vex field', 'opcode token', 'implicit', 'tuple')) else str(e)] += 1
            continue
        except Exception as e:
            skipped['generator error: %s' % type(e).__name__] += 1
            continue
        ngen += 1
        for f in forms:
            key = (f['name'], tuple(op[0] if op[0] != 'K_MEM' else 'K_MEM%d' % op[2] for op in f['ops']), 'E' if f['enc'] == 'E_EVEX' else 'L', bool(f['flags']))
            f['record'] = rec[al[0]] + ' :: ' + rec.get('op', '')
            groups.setdefault(key, []).append(f)

def cname(s): return re.sub(r'[^A-Za-z0-9]', '_', s)
def inst_id(name): return 'x86::Inst::kId' + name[0].upper() + name[1:]

hdr = ['// GENERATED by gen_forms.py from db/isa_x86.json - do not edit', '#pragma once', '#include "forms.h"', 'namespace vf {']
harn = []; meta = []
idx = 0
for key, forms in groups.items():
    name = key[0]
    tab = 'kForms_%d' % idx
    rows = []
    for f in forms:
        ops = ', '.join('{%s, %s, %d}' % op for op in f['ops']) or '{0,0,0}'
        rows.append('  {%s, %s, %d, %d, 0x%02X, %d, %d, %d, %d, %d, %d, {%s}, %d, %d, %s, %d, {%s}}' % (
            inst_id(name), f['enc'], f['pp'], f['map'], f['opcode'], f['digit'], f['has_modrm'], f['w'], f['l'], f['osize'], len(f['ops']), ops,
            f['imm_bytes'], f['disp8_shift'], '|'.join(f['flags']) or '0', len(f['fixed']), ', '.join('0x%02X' % b for b in f['fixed']) or '0'))
    hdr.append('static const Form %s[] = {\n%s\n};' % (tab, ',\n'.join(rows)))
    modes = 0
    for f in forms: modes |= f['modes']
    sig = '_'.join(k.replace('K_', '').lower() for k in key[1]) or 'none'
    for mode, bit in (('64', 2), ('32', 1)):
        sel = [i for i, f in enumerate(forms) if f['modes'] & bit]
        if not sel: continue
        fn = 'h_f%s_%s_%s_%d' % (mode, cname(name), sig, idx)
        if len(sel) == len(forms):
            harn.append('HARNESS %s() { vf::run_forms<%s>(vf::%s, %d); }' % (fn, 'true' if mode == '64' else 'false', tab, len(forms)))
        else:
            sub = '%s_m%s' % (tab, mode)
            hdr.append('static const Form %s[] = { %s };' % (sub, ', '.join('%s[%d]' % (tab, i) for i in sel)))
            harn.append('HARNESS %s() { vf::run_forms<%s>(vf::%s, %d); }' % (fn, 'true' if mode == '64' else 'false', sub, len(sel)))
        meta.append(dict(fn=fn, inst=name, mode=mode, enc=forms[0]['enc'], has_mem=any(k.startswith('K_MEM') for k in key[1]), nforms=len(sel), records=sorted(set(forms[i]['record'] for i in sel))))
    idx += 1
hdr.append('}  // namespace vf')
open(os.path.join(HERE, 'forms_gen.h'), 'w').write('\n'.join(hdr) + '\n' + '\n'.join(harn) + '\n')
json.dump(dict(records_total=nrec, records_generated=ngen, harnesses=meta, skipped=dict(skipped.most_common())), open(os.path.join(HERE, 'forms_gen.json'), 'w'), indent=0)
print('records %d, generated %d, groups %d, harnesses %d' % (nrec, ngen, len(groups), len(meta)))
for k, v in skipped.most_common(40): print('  skipped %4d  %s' % (v, k))
