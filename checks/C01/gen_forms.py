#!/usr/bin/env python3
"""Generates the C01 form family from /repo/db/isa_x86.json (documented in db/isa_x86.md).

Output (written next to this file, committed; regenerate by hand when the DB changes — the harness .cpp is compiled from
/repo on every run, so a renamed/removed instruction id is a compile error, not a silent skip):
  forms_gen.h     tables of vf::Form + one HARNESS per (instruction, operand-kind signature, mode)
  forms_gen.json  list of harnesses with their DB records, and the records not generated (with the reason)
"""
import json, re, os, sys, collections

HERE = os.path.dirname(os.path.abspath(__file__))
REPO = os.environ.get('VERIF_REPO', '/repo')
db = json.load(open(os.path.join(REPO, 'db', 'isa_x86.json')))

REG_KINDS = {'st(i)': 'K_ST', 'r8': 'K_GP8', 'r16': 'K_GP16', 'r32': 'K_GP32', 'r64': 'K_GP64', 'mm': 'K_MM', 'xmm': 'K_XMM', 'ymm': 'K_YMM', 'zmm': 'K_ZMM', 'k': 'K_KREG'}
MEM_SIZES = {'m8': 1, 'm16': 2, 'm32': 4, 'm64': 8, 'm80': 10, 'm128': 16, 'm256': 32, 'm512': 64, 'mem': 0,
             'm16int': 2, 'm32int': 4, 'm64int': 8, 'm32fp': 4, 'm64fp': 8, 'm80fp': 10, 'm80bcd': 10, 'm80dec': 10}
IMM_SIZES = {'imm8': 1, 'imms8': 1, 'immu8': 1, 'imm16': 2, 'immu16': 2, 'imm32': 4, 'imms32': 4, 'immu32': 4, 'imm64': 8}

# Database records that disagree with the SDM (checked by hand); the SDM value is used. Listed in DESIGN.md.
DB_ERRATA = {
    ('vmovupd', 'VEX'): dict(pp=1),    # db says NP; SDM: VEX.66.0F 10/11
    ('vmovups', 'VEX'): dict(pp=0),    # db says 66; SDM: VEX.NP.0F 10/11
    ('vmovntps', 'EVEX'): dict(pp=0),  # db says 66; SDM: EVEX.NP.0F.W0 2B
    ('shrd', 'LEGACY'): dict(pp=0),    # db: "66 0F AC /r ib" for rv/mv; SDM: 0F AC (66 only as the operand-size prefix of the 16-bit form)
    ('vpmovmskb', 'layout'): True,
    ('fsqrt', 'LEGACY'): dict(fixed=[0xFA]),   # db says D9 FE (that is fsin); SDM: D9 FA
    ('vcvtph2psx', 'tt'): 'hv',        # db says qv; SDM (AVX512-FP16): Half tuple (m64/m128/m256 source)     # db layout [RVM] for a two-operand instruction; SDM: ModRM:reg(w), ModRM:r/m(r)
}

# explicit operands that name one register: (kind or 'v' for the rv-sized accumulator, encoding id)
FIXED_REGS = {'st(0)': ('K_ST', 0), 'al': ('K_GP8', 0), 'ax': ('K_GP16', 0), 'eax': ('K_GP32', 0), 'rax': ('K_GP64', 0), 'axv': ('v', 0), 'cl': ('K_GP8', 1), 'dx': ('K_GP16', 2)}
# implicit operands written <reg> in the database: they may be omitted or written out; when written out they must be exactly this register
IMPLICIT_REGS = dict(FIXED_REGS, **{'cx': ('K_GP16', 1), 'ecx': ('K_GP32', 1), 'rcx': ('K_GP64', 1), 'edx': ('K_GP32', 2), 'rdx': ('K_GP64', 2), 'dxv': ('v', 2), 'dxy': ('y', 2),
                                    'ebx': ('K_GP32', 3), 'rbx': ('K_GP64', 3), 'xmm0': ('K_XMM', 0)})

# the destination's read access depends on the immediate (vpternlog with imm 0x00/0xFF ignores its inputs): no claim on operand 0
ACCESS_VALUE_DEPENDENT = {'vpternlogd', 'vpternlogq'}

class Skip(Exception):
    pass

def split_ops(s):
    out, depth, cur = [], 0, ''
    for ch in s:
        if ch in '([{<': depth += 1
        if ch in ')]}>': depth -= 1
        if ch == ',' and depth == 0:
            out.append(cur.strip()); cur = ''
        else:
            cur += ch
    if cur.strip():
        out.append(cur.strip())
    return out

def parse_operand(tok, first=False):
    """-> dict(alts=[('reg',name)|('mem',name)|('imm',name)], deco=set())"""
    ma = re.match(r'^([RWXrwx])(\??):', tok)
    acc = (ma.group(1) if not ma.group(2) else '?') if ma else None
    if acc is None and first: acc = '?'   # isa_x86.md: the first operand must carry an access mark; a few records do not -> no claim
    t = re.sub(r'^[RWXrwx]\??:', '', tok).strip()
    deco = set(re.findall(r'\{(\w+)\}', t))
    t = re.sub(r'\{\w+\}', '', t).strip()
    t = t.replace('~', '')
    if t.startswith('<') and t.endswith('>') and t[1:-1] in IMPLICIT_REGS:
        return dict(alts=[('fixedreg', t[1:-1])], deco=deco, acc=acc, implicit=True)
    if t.startswith('<') or t in ('dxv', 'es', 'cs', 'ss', 'ds', 'fs', 'gs'):
        raise Skip('implicit/fixed operand ' + t)
    if t in FIXED_REGS: return dict(alts=[('fixedreg', t)], deco=deco, acc=acc)
    if t == '1': return dict(alts=[('const1', t)], deco=deco, acc=acc)
    alts = []
    for a in t.split('/'):
        a = a.strip()
        a = re.sub(r'\[\d+:\d+\]$', '', a)
        if a in REG_KINDS or a in ('rv', 'ry', 'xy', 'xyz', 'xxx', 'xxy'):
            alts.append(('reg', a))
        elif a in MEM_SIZES or a in ('mv', 'my', 'mxy', 'mxyz', 'mxxx', 'mxxy'):
            alts.append(('mem', a))
        elif a in IMM_SIZES or a in ('immv', 'imm4'):
            alts.append(('imm', a))
        elif re.fullmatch(r'vm(32|64)[xyz]', a):
            alts.append(('vmem', a))
        elif re.fullmatch(r'b(16|32|64)', a):
            pass  # broadcast alternative: not generated (b stays 0)
        else:
            raise Skip('operand token ' + a)
    return dict(alts=alts, deco=deco, acc=acc)

def parse_op_string(op):
    """-> dict(layout, enc, pp, map, w, l, opcode, digit, has_modrm, modrm_mode, imm, is4, fixed, rexw, opreg, vl_token, w_token)"""
    m = re.match(r'\s*(?:\[([A-Za-z_ ]*)\]\s*)?(.*)$', op)
    if not m or not m.group(2).strip():
        raise Skip('no layout')
    layout = (m.group(1) or '').strip().replace('_', '')   # x87 records carry no [layout]
    toks = m.group(2).split()
    r = dict(layout=layout, enc='E_LEGACY', pp=0, map=0, w=0, l=0, opcode=None, digit=-1, has_modrm=0, modrm_mode='any', imm=[], is4=False, fixed=[], rexw=False, opreg=False,
             vl_token=None, w_token=None, pv=False, p66=False, x87=False)
    i = 0
    PP = {'NP': 0, '66': 1, 'F3': 2, 'F2': 3, 'P0': 0}
    MAP = {'0F': 1, '0F38': 2, '0F3A': 3, 'MAP5': 5, 'MAP6': 6, 'MAP8': 8, 'MAP9': 9, 'MAPA': 10, 'MAP10': 10}
    if toks and re.match(r'(VEX|EVEX|XOP)\.', toks[0]):
        parts = toks[0].split('.'); i = 1
        r['enc'] = {'VEX': 'E_VEX', 'EVEX': 'E_EVEX', 'XOP': 'E_XOP'}[parts[0]]
        for p in parts[1:]:
            if p in ('128', 'L0', 'LZ', 'LLZ'): r['l'] = 0
            elif p in ('256', 'L1'): r['l'] = 1
            elif p == '512': r['l'] = 2
            elif p in ('LIG',): r['l'] = 3
            elif p in ('Lxy', 'xyz', 'xy'): r['vl_token'] = p
            elif p in PP: r['pp'] = PP[p]
            elif p in MAP: r['map'] = MAP[p]
            elif p == 'W0': r['w'] = 0
            elif p == 'W1': r['w'] = 1
            elif p == 'WIG': r['w'] = 2
            elif p == 'Wy': r['w_token'] = 'y'
            else: raise Skip('vex field ' + p)
        if r['map'] == 0: raise Skip('no map')
    else:
        while i < len(toks):
            t = toks[i]
            if t == 'NP': i += 1
            elif t in ('66', 'F2', 'F3') and i + 1 < len(toks) and r['opcode'] is None and (toks[i + 1] in ('0F', 'REX.W', '66', 'F2', 'F3') or re.fullmatch(r'[0-9A-F]{2}(\+[ri])?', toks[i + 1])):
                if t == '66' and toks[i + 1] in ('F2', 'F3'): r['p66'] = True
                else: r['pp'] = PP[t]
                i += 1
            elif t == 'REX.W': r['rexw'] = True; i += 1
            elif t == '0F' and r['opcode'] is None:
                r['map'] = 1; i += 1
                if i < len(toks) and toks[i] in ('38', '3A') and i + 1 < len(toks) and re.fullmatch(r'[0-9A-F]{2}(\+[ri])?', toks[i + 1]):
                    r['map'] = 2 if toks[i] == '38' else 3; i += 1
            else:
                break
    if i + 1 < len(toks) and toks[i] == '67' and toks[i + 1] == '8D': i += 1; r['pp'] = 1   # db erratum: lea r16 is 66 8D /r (66 comes from the operand size)
    # opcode byte
    if i >= len(toks): raise Skip('no opcode')
    m = re.fullmatch(r'([0-9A-F]{2})(\+[ri])?', toks[i])
    if not m: raise Skip('opcode token ' + toks[i])
    r['opcode'] = int(m.group(1), 16)
    if m.group(2) in ('+r', '+i'): r['opreg'] = True
    i += 1
    while i < len(toks):
        t = toks[i]; i += 1
        if t == '/r': r['has_modrm'] = 1
        elif re.fullmatch(r'/[0-7]', t): r['has_modrm'] = 1; r['digit'] = int(t[1])
        elif t == '11:rrr:bbb': r['has_modrm'] = 1; r['modrm_mode'] = 'reg'
        elif t == '!(11):rrr:bbb': r['has_modrm'] = 1; r['modrm_mode'] = 'mem'
        elif re.fullmatch(r'11:[01]{3}:bbb', t): r['has_modrm'] = 1; r['digit'] = int(t[3:6], 2); r['modrm_mode'] = 'reg'
        elif re.fullmatch(r'!\(11\):[01]{3}:bbb', t): r['has_modrm'] = 1; r['digit'] = int(t[6:9], 2); r['modrm_mode'] = 'mem'
        elif t in ('ib', 'iw', 'id', 'iq'): r['imm'].append({'ib': 1, 'iw': 2, 'id': 4, 'iq': 8}[t])
        elif t == 'iv': r['imm'].append('v')
        elif t == '/is4': r['is4'] = True
        elif re.fullmatch(r'[0-9A-F]{2}\+i', t) and not r['has_modrm']:   # x87 register form: second byte = 11 reg(3) st(i)
            b2 = int(t[:2], 16); r['has_modrm'] = 1; r['digit'] = (b2 >> 3) & 7; r['modrm_mode'] = 'reg'; r['x87'] = True
        elif re.fullmatch(r'[0-9A-F]{2}', t) and not r['has_modrm'] and not r['imm']: r['fixed'].append(int(t, 16))
        else: raise Skip('op token ' + t)
    if len(r['fixed']) > 2: raise Skip('too many fixed bytes')
    return r

SIZE_VARIANTS = {'v': [2, 4, 8], 'y': [4, 8], 'xy': [16, 32], 'xyz': [16, 32, 64]}

def expand(rec, arch, sig, opstr, extra):
    m = re.match(r'\s*(\[[^\]]*\]\s*)?([A-Za-z0-9_|{}]+)\s*(.*)$', sig)
    name = m.group(2)
    if '{' in name: raise Skip('apx name suffix')
    name = name.split('|')[0]
    ops = [parse_operand(t, i == 0) for i, t in enumerate(split_ops(m.group(3)))]
    if name in ACCESS_VALUE_DEPENDENT and ops: ops[0]['acc'] = '?'
    if len(ops) > 6: raise Skip('more than 6 operands')
    o = parse_op_string(opstr)
    if arch == 'apx': raise Skip('apx')
    # which grouping variable does this record use?
    alltoks = [a[1] for op in ops for a in op['alts']]
    groups = set()
    for t in alltoks:
        if t in ('rv', 'mv', 'immv', 'axv', 'dxv'): groups.add('v')
        if t in ('dxy',): groups.add('y')
        if t in ('ry', 'my'): groups.add('y')
        if t in ('xy', 'mxy'): groups.add('xy')
        if t in ('xyz', 'mxyz', 'xxx', 'mxxx', 'xxy', 'mxxy'): groups.add('xyz')
    if o['vl_token'] == 'Lxy': groups.add('xy')
    if o['vl_token'] in ('xyz',): groups.add('xyz')
    if o['w_token'] == 'y': groups.add('y')
    if 'xy' in groups and 'xyz' in groups: raise Skip('mixed xy/xyz')
    gp = [g for g in groups if g in ('v', 'y')]
    vg = [g for g in groups if g in ('xy', 'xyz')]
    if len(gp) > 1: raise Skip('mixed v/y')
    modes = {'any': 3, 'x86': 1, 'x64': 2}[arch]
    out = []
    for gsz in (SIZE_VARIANTS[gp[0]] if gp else [None]):
        for vsz in (SIZE_VARIANTS[vg[0]] if vg else [None]):
            # choose reg-or-mem alternative per operand (at most one operand has both)
            variants = [[]]
            for op in ops:
                nv = []
                kinds = sorted(set(a[0] for a in op['alts']))
                for k in kinds:
                    a = [x for x in op['alts'] if x[0] == k][0]
                    for v in variants: nv.append(v + [(a, op['deco'], op['acc'])])
                variants = nv
            has_implicit = any(op.get('implicit') for op in ops)
            for var in variants:
                try:
                    out.append(build_form(name, o, var, gsz, vsz, modes, extra))
                    if has_implicit:   # the same record with its implicit operands omitted (asmjit accepts one, the other or both spellings)
                        fo = build_form(name, o, [v for v, op in zip(var, ops) if not op.get('implicit')], gsz, vsz, modes, extra); fo['implicit_omitted'] = True; out.append(fo)
                except Skip as e:
                    raise
    return out

IO_BITS = {'OF': 'kX86_OF', 'CF': 'kX86_CF', 'ZF': 'kX86_ZF', 'SF': 'kX86_SF', 'AF': 'kX86_AF', 'PF': 'kX86_PF', 'DF': 'kX86_DF', 'IF': 'kX86_IF', 'AC': 'kX86_AC',
           'C0': 'kX86_C0', 'C1': 'kX86_C1', 'C2': 'kX86_C2', 'C3': 'kX86_C3'}
def io_masks(io):
    rd, wr = [], []
    for t in (io or '').split():
        k, v = t.split('=')
        if k not in IO_BITS: continue
        if v in ('R', 'X'): rd.append(IO_BITS[k])
        if v in ('W', 'X', '0', '1', 'U'): wr.append(IO_BITS[k])
    f = lambda l: ' | '.join('uint32_t(CpuRWFlags::%s)' % x for x in l) or '0'
    return f(rd), f(wr)
def build_form(name, o, var, gsz, vsz, modes, extra):
    f = dict(io=io_masks(extra.get('io')), name=name, enc=o['enc'], pp=o['pp'], map=o['map'], opcode=o['opcode'], digit=o['digit'], has_modrm=o['has_modrm'], w=o['w'], l=o['l'], osize=0, ops=[], imm_bytes=0,
             disp8_shift=0, flags=[], fixed=o['fixed'], modes=modes)
    if o['w_token'] == 'y': f['w'] = 1 if gsz == 8 else 0
    if o['vl_token']: f['l'] = {16: 0, 32: 1, 64: 2}[vsz]
    if o['enc'] == 'E_LEGACY':
        if o['p66']: f['osize'] = 2
        if gsz is not None: f['osize'] = gsz if gsz in (2, 8) else f['osize']
        if o['rexw']: f['w'] = 1; f['osize'] = 8 if gsz is None else f['osize']
    if gsz == 8 or o['rexw'] or (o['enc'] != 'E_LEGACY' and f['w'] == 1 and any(a[0][1] in ('r64',) for a in var)): f['modes'] &= 2
    layout = o['layout']
    roles = {'R': 'R_REG', 'M': 'R_RM', 'V': 'R_VVVV', 'S': 'R_IS4'}
    imm_specs = list(o['imm'])
    li = 0; mem_seen = False
    nregmem = sum(1 for (alt, deco, acc) in var if alt[0] in ('reg', 'mem', 'vmem'))
    if len(layout) > nregmem and layout.replace('V', '', 1) and len(layout) - 1 == nregmem and 'V' in layout and (name, 'layout') in DB_ERRATA:
        layout = layout.replace('V', '', 1)
    for opi, (alt, deco, acc) in enumerate(var):
        kind, tok = alt
        acc = acc or 'R'   # operands without a mark are read-only (isa_x86.md)
        # isa_x86.md: with rv/mv the partial marks w/x only apply to the 16-bit operation; 32/64-bit operations write the whole register
        if tok in ('rv', 'mv', 'axv', 'ry', 'my') and gsz in (4, 8) and acc in ('w', 'x'): acc = acc.upper()
        if kind == 'const1':
            f['ops'].append(('K_IMM', 'R_NONE', 0, 1, 'R')); continue
        if kind == 'fixedreg':
            k, rid = IMPLICIT_REGS[tok]
            if k == 'v':
                if gsz is None: raise Skip('axv without size group')
                k = {2: 'K_GP16', 4: 'K_GP32', 8: 'K_GP64'}[gsz]
            if k == 'y':
                if gsz is None: raise Skip('dxy without size group')
                k = {4: 'K_GP32', 8: 'K_GP64'}[gsz]
            if k == 'K_GP64': f['modes'] &= 2
            f['ops'].append((k, 'R_NONE', 0, rid, acc)); continue
        if kind == 'imm':
            if tok == 'imm4': raise Skip('imm4')
            nb = IMM_SIZES.get(tok)
            if tok == 'immv': nb = {2: 2, 4: 4, 8: 4}[gsz]
            if not imm_specs: raise Skip('imm operand without imm bytes')
            spec = imm_specs.pop(0)
            if spec == 'v': spec = {2: 2, 4: 4, 8: 4}[gsz]
            if spec != nb: raise Skip('imm size mismatch')
            if f['imm_bytes']: raise Skip('two immediates')
            f['imm_bytes'] = spec
            # sign-extended to the operand size (value must survive the extension) or a plain field of that width
            sext = tok in ('imms8', 'imms32') or (tok == 'immv' and gsz == 8) or (tok in ('imm8',) and False)
            f['ops'].append(('K_IMM', 'R_IMM', spec, -2 if sext else (-3 if tok.startswith('immu') else -1), 'R'))
            continue
        if o['opreg']:
            role = 'R_OPREG'
        else:
            if not layout and kind == 'mem' and o['digit'] >= 0: layout = 'M'   # x87: "D8 /0" with a memory operand
            if not layout and o['x87'] and kind == 'reg' and tok == 'st(i)': layout = 'M' * 4   # st(i) lives in ModRM.rm
            if li >= len(layout): raise Skip('layout shorter than operands')
            role = roles.get(layout[li])
            if role is None: raise Skip('layout letter ' + layout[li])
            if role == 'R_REG' and o['digit'] >= 0: role = 'R_RM'   # "[R] .. /7": the register is in ModRM.rm (mod=11)
            li += 1
        if kind == 'vmem':
            if role != 'R_RM': raise Skip('memory operand not in rm position')
            if mem_seen: raise Skip('two memory operands')
            mem_seen = True
            f['ops'].append(('K_VMEM', role, {'x': 1, 'y': 2, 'z': 3}[tok[-1]], -1, acc))
            if 'kz' in deco: f['flags'] = ['F_K', 'F_Z']
            elif 'k' in deco: f['flags'] = ['F_K']
            continue
        if kind == 'reg':
            if tok == 'rv': k = {2: 'K_GP16', 4: 'K_GP32', 8: 'K_GP64'}[gsz]
            elif tok == 'ry': k = {4: 'K_GP32', 8: 'K_GP64'}[gsz]
            elif tok in ('xy', 'xyz'): k = {16: 'K_XMM', 32: 'K_YMM', 64: 'K_ZMM'}[vsz]
            elif tok == 'xxx': k = 'K_XMM'
            elif tok == 'xxy': k = {16: 'K_XMM', 32: 'K_XMM', 64: 'K_YMM'}[vsz]
            else: k = REG_KINDS[tok]
            if k == 'K_GP64': f['modes'] &= 2
            if role == 'R_RM' and o['modrm_mode'] == 'mem': raise Skip('reg alt in mem-only modrm')
            f['ops'].append((k, role, 0, -1, acc))
        else:
            if role != 'R_RM': raise Skip('memory operand not in rm position')
            if o['modrm_mode'] == 'reg': raise Skip('mem alt in reg-only modrm')
            if mem_seen: raise Skip('two memory operands')
            mem_seen = True
            if tok == 'mv': sz = gsz
            elif tok == 'my': sz = gsz
            elif tok in ('mxy', 'mxyz'): sz = vsz
            elif tok == 'mxxx': sz = {16: 4, 32: 8, 64: 16}[vsz]
            elif tok == 'mxxy': sz = {16: 8, 32: 16, 64: 32}[vsz]
            else: sz = MEM_SIZES[tok]
            f['ops'].append(('K_MEM', role, sz, -1, acc))
        if 'kz' in deco: f['flags'] = ['F_K', 'F_Z']
        elif 'k' in deco: f['flags'] = ['F_K']
    # {er} / {sae}: embedded rounding / suppress-all-exceptions exist only for the register form of a 512-bit or scalar (LIG) record
    alldeco = set(); [alldeco.update(d) for (_a, d, _c) in var]
    if f['enc'] == 'E_EVEX' and not mem_seen and f['l'] in (2, 3):
        if 'er' in alldeco: f['flags'] = list(f['flags']) + ['F_ER']
        elif 'sae' in alldeco: f['flags'] = list(f['flags']) + ['F_SAE']
    if (name, o['enc'][2:]) in DB_ERRATA: f.update(DB_ERRATA[(name, o['enc'][2:])])
    if any(op[0] == 'K_VMEM' for op in f['ops']): f['has_modrm'] = 1   # db omits /r on the EVEX gather/scatter records
    if name in PREFER_EVEX: f['flags'] = list(f['flags']) + ['F_PREFER_EVEX']
    if imm_specs: raise Skip('imm bytes without imm operand')
    if o['is4'] and not any(op[1] == 'R_IS4' for op in f['ops']): raise Skip('is4 without S')
    if f['enc'] == 'E_EVEX':
        tt = DB_ERRATA.get((name, 'tt'), extra.get('tt'))
        if mem_seen:
            f['disp8_shift'] = disp8_shift(tt, f, vsz)
    if f['modes'] == 0: raise Skip('no mode')
    return f

def disp8_shift(tt, f, vsz):
    """EVEX disp8*N (SDM Vol.2 2.7.5, tables 2-34/2-35), broadcast not used here."""
    import math
    vl = {0: 16, 1: 32, 2: 64, 3: 16}[f['l']]
    w = 1 if f['w'] == 1 else 0
    memsz = ([op[2] for op in f['ops'] if op[0] == 'K_MEM'] or [0])[0]
    if any(op[0] == 'K_VMEM' for op in f['ops']):
        # gathers/scatters: Tuple1 Scalar, N = element size (vm32* index size is irrelevant; EVEX.W selects 32/64-bit data)
        return 3 if f['w'] == 1 else 2
    if tt is None: raise Skip('evex mem form without tt')
    tt = tt.lower()
    if tt in ('fv', 'fvm', 'fm'): n = vl
    elif tt in ('hv', 'hvm'): n = vl // 2
    elif tt in ('qv', 'qvm'): n = vl // 4
    elif tt == 'ovm': n = vl // 8
    elif tt == 'm128': n = 16
    elif tt in ('dup', 'movddup'): n = {16: 8, 32: 32, 64: 64}[vl]
    elif tt in ('t1s', 't1f', 't1', 't2', 't4', 't8'):
        # Tuple1 scalar/fixed and Tuple2/4/8: N is the size of the memory access, except the expand/compress family
        # (T1S with a full-vector memory operand), where N is the element size.
        if memsz <= 8 or tt != 't1s': n = memsz
        elif re.match(r'vp(expand|compress)b', f['name']): n = 1
        elif re.match(r'vp(expand|compress)w', f['name']): n = 2
        else: n = 8 if w else 4
    else: raise Skip('tuple type ' + tt)
    if n <= 0 or (n & (n - 1)): raise Skip('disp8 N ' + str(n))
    return int(math.log2(n))

# ------------------------------------------------------------------------------------------------------------------------
# instructions for which the database asks for the EVEX encoding even where VEX would do (postproc: encodingPreference)
PREFER_EVEX = set()
for grp in db.get('postproc', []):
    for it in grp.get('instructions', []):
        if it.get('encodingPreference') == 'EVEX': PREFER_EVEX.update(it['name'].split())
# instruction ids asmjit defines (the DB knows a few instructions asmjit does not implement; those are listed as skipped)
KNOWN_IDS = set(m.group(1) for m in re.finditer(r'^\s*kId([A-Za-z0-9_]+)\b', open(os.path.join(REPO, 'asmjit', 'x86', 'x86globals.h')).read(), re.M))
groups = collections.OrderedDict()   # (name, kinds signature) -> [forms]
skipped = collections.Counter(); nrec = 0; ngen = 0
for g in db['instructions']:
    for rec in g['instructions']:
        al = [k for k in ('any', 'x86', 'x64', 'apx') if k in rec]
        if not al: skipped['no arch key'] += 1; nrec += 1; continue
        nrec += 1
        try:
            forms = expand(rec, al[0], rec[al[0]], rec.get('op', ''), rec)
        except Skip as e:
            skipped[re.sub(r' [^ ]*$', '', str(e)) if str(e).startswith(('operand token', 'op token', 'vex field', 'opcode token', 'implicit', 'tuple')) else str(e)] += 1
            continue
        except Exception as e:
            skipped['generator error: %s' % type(e).__name__] += 1
            continue
        if forms and (forms[0]['name'][0].upper() + forms[0]['name'][1:]) not in KNOWN_IDS:
            skipped['instruction has no asmjit id'] += 1; continue
        ngen += 1
        for f in forms:
            key = (f['name'], tuple(op[0] if op[0] not in ('K_MEM', 'K_VMEM') else '%s%d' % (op[0], op[2]) for op in f['ops']))
            f['record'] = rec[al[0]] + ' :: ' + rec.get('op', '')
            groups.setdefault(key, []).append(f)

# ret/retf imm16 with imm == 0 may be emitted as the operand-less form (same meaning)
for nm in ('ret', 'retf'):
    if (nm, ('K_IMM',)) in groups and (nm, ()) in groups:
        for f in groups[(nm, ())]:
            g = dict(f); g['ops'] = [('K_IMM', 'R_NONE', 0, 0, 'R')]
            groups[(nm, ('K_IMM',))].append(g)
# mov between the accumulator and an absolute address has the moffs encodings (A0..A3), which are not generated: excluded
for key, forms in groups.items():
    if key[0] == 'mov' and any(k.startswith('K_MEM') for k in key[1]) and any(k.startswith('K_GP') for k in key[1]):
        for f in forms: f['flags'] = list(f['flags']) + ['F_NOABS_ACC']

# Known findings (see /verif/known_findings.jsonl): while open, the EVEX-encoded region of these groups is split off into
# a companion harness carrying known=<id>; the rest of the group is still proved.
KF_EVEX = {'vmpsadbw': ('D10', False)}
for _n in ('vpdpbssd', 'vpdpbssds', 'vpdpbsud', 'vpdpbsuds', 'vpdpbuud', 'vpdpbuuds', 'vpdpwsud', 'vpdpwsuds', 'vpdpwusd', 'vpdpwusds', 'vpdpwuud', 'vpdpwuuds'):
    KF_EVEX[_n] = ('D11', True)   # only groups with a memory operand
# D4 (no 15-byte limit): XOP lwpins/lwpval with a memory operand reach 16 bytes with segment + address-size overrides
KF_LEN = {'lwpins': 'D4', 'lwpval': 'D4'}
# Groups left out, with the reason (listed in forms_gen.json)
EXCLUDED_GROUPS = {('xchg', ('K_GP64', 'K_GP64')): 'xchg rax, rax is emitted as 90 (nop), a semantic alias outside the record syntax',
                   ('xchg', ('K_GP32', 'K_GP32')): 'accumulator alias handling (xchg eax, eax must not be 90 in 64-bit mode) is checked by hand-written harness instead',
                   ('xchg', ('K_GP16', 'K_GP16')): 'same as above'}
EXCLUDED_NAMES = {n: 'FWAIT-prefixed (9B) x87 control forms are not modelled by the reference decoder' for n in ('fstcw', 'fstenv', 'fstsw', 'fsave', 'fclex', 'finit')}
excluded = []
for k in list(groups):
    if k[0] in EXCLUDED_NAMES:
        excluded.append(dict(inst=k[0], kinds=list(k[1]), reason=EXCLUDED_NAMES[k[0]])); del groups[k]; continue
    if k in EXCLUDED_GROUPS:
        excluded.append(dict(inst=k[0], kinds=list(k[1]), reason=EXCLUDED_GROUPS[k])); del groups[k]

def cname(s): return re.sub(r'[^A-Za-z0-9]', '_', s)
def inst_id(name): return 'x86::Inst::kId' + name[0].upper() + name[1:]

hdr = ['// GENERATED by gen_forms.py from db/isa_x86.json - do not edit', '#pragma once', '#include "forms.h"', 'namespace vf {']
harn = []; meta = []
idx = 0
for key, forms in groups.items():
    name = key[0]
    tab = 'kForms_%d' % idx
    rows = []
    for f in forms:
        ops = ', '.join("{%s, %s, %d, %d, '%s'}" % op for op in f['ops']) or "{0,0,0,-1,'R'}"
        rows.append('  {%s, %s, %d, %d, 0x%02X, %d, %d, %d, %d, %d, %d, {%s}, %d, %d, %s, %d, {%s}, %s, %s}' % (
            inst_id(name), f['enc'], f['pp'], f['map'], f['opcode'], f['digit'], f['has_modrm'], f['w'], f['l'], f['osize'], len(f['ops']), ops,
            f['imm_bytes'], f['disp8_shift'], '|'.join(f['flags']) or '0', len(f['fixed']), ', '.join('0x%02X' % b for b in f['fixed']) or '0', f['io'][0], f['io'][1]))
    hdr.append('static const Form %s[] = {\n%s\n};' % (tab, ',\n'.join(rows)))
    modes = 0
    for f in forms: modes |= f['modes']
    sig = '_'.join(k.replace('K_', '').lower() for k in key[1]) or 'none'
    for mode, bit in (('64', 2), ('32', 1)):
        sel = [i for i, f in enumerate(forms) if f['modes'] & bit]
        if not sel: continue
        fn = 'h_f%s_%s_%s' % (mode, cname(name), sig)
        has_mem = any(k.startswith('K_MEM') or k.startswith('K_VMEM') for k in key[1])
        kf = KF_EVEX.get(name)
        if kf and kf[1] and not has_mem: kf = None
        if kf and not any(forms[i]['enc'] == 'E_EVEX' for i in sel): kf = None
        if len(sel) == len(forms):
            tabn, cnt = tab, len(forms)
        else:
            tabn, cnt = '%s_m%s' % (tab, mode), len(sel)
            hdr.append('static const Form %s[] = { %s };' % (tabn, ', '.join('%s[%d]' % (tab, i) for i in sel)))
        x64 = 'true' if mode == '64' else 'false'
        rec = dict(inst=name, mode=mode, enc='+'.join(sorted(set(forms[i]['enc'] for i in sel))), has_mem=has_mem, nforms=len(sel), records=sorted(set(forms[i]['record'] for i in sel)))
        if any(forms[i].get('implicit_omitted') for i in sel): rec['implicit_omitted'] = True
        kl = KF_LEN.get(name) if (has_mem and mode == '64') else None
        if kl:
            harn.append('#if KF_%s\nHARNESS %s() { VF_RUN(%s, vf::%s, %d, 3); }\n#if VF_C01\nHARNESS %s_kf_%s() { vf::run_forms<%s>(vf::%s, %d, 4); }\n#endif\n#else\nHARNESS %s() { VF_RUN(%s, vf::%s, %d, 0); }\n#endif' % (
                kl, fn, x64, tabn, cnt, fn, kl, x64, tabn, cnt, fn, x64, tabn, cnt))
            meta.append(dict(rec, fn=fn)); meta.append(dict(rec, fn='%s_kf_%s' % (fn, kl), known=kl))
        elif name in KF_EVEX and any(forms[i]['enc'] == 'E_EVEX' for i in sel):
            # C01: D10 / D11 (D11 only with a memory operand); C13: D15 (validator refuses the EVEX-only operands the encoder encodes)
            c01 = kf[0] if kf else None
            cond = ' || '.join('KF_%s' % x for x in ([c01] if c01 else []) + ['D15'])
            txt = '#if %s\nHARNESS %s() { VF_RUN(%s, vf::%s, %d, 1); }\n' % (cond, fn, x64, tabn, cnt)
            if c01: txt += '#if VF_C01 && KF_%s\nHARNESS %s_kf_%s() { vf::run_forms<%s>(vf::%s, %d, 2); }\n#endif\n' % (c01, fn, c01, x64, tabn, cnt)
            txt += '#if defined(VF_AGREE) && KF_D15\nHARNESS %s_kf_D15() { vf::run_agree<%s>(vf::%s, %d, 2); }\n#endif\n' % (fn, x64, tabn, cnt)
            txt += '#else\nHARNESS %s() { VF_RUN(%s, vf::%s, %d, 0); }\n#endif' % (fn, x64, tabn, cnt)
            harn.append(txt)
            meta.append(dict(rec, fn=fn))
            if c01: meta.append(dict(rec, fn='%s_kf_%s' % (fn, c01), known=c01))
            meta.append(dict(rec, fn='%s_kf_D15' % fn, known='D15'))
        else:
            harn.append('HARNESS %s() { VF_RUN(%s, vf::%s, %d, 0); }' % (fn, x64, tabn, cnt))
            if fn == 'h_f32_vaddpd_xmm_xmm_mem16':   # companion of known finding D18
                harn.append('#if VF_C01 && KF_D18\nHARNESS %s_kf_D18() { vf::run_forms<%s>(vf::%s, %d, 6); }\n#endif' % (fn, x64, tabn, cnt))
                meta.append(dict(rec, fn=fn + '_kf_D18', known='D18'))
            meta.append(dict(rec, fn=fn))
    idx += 1
hdr.append('}  // namespace vf')
open(os.path.join(HERE, 'forms_gen.h'), 'w').write('\n'.join(hdr) + '\n' + '\n'.join(harn) + '\n')
json.dump(dict(records_total=nrec, records_generated=ngen, excluded_groups=excluded, harnesses=meta, skipped=dict(skipped.most_common())), open(os.path.join(HERE, 'forms_gen.json'), 'w'), indent=0)
print('records %d, generated %d, groups %d, harnesses %d' % (nrec, ngen, len(groups), len(meta)))
try:
    for k, v in skipped.most_common(40): print('  skipped %4d  %s' % (v, k))
except BrokenPipeError: pass
