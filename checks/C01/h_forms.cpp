// C01 generated form family: tables and harnesses come from forms_gen.h (gen_forms.py, from db/isa_x86.json).
#include "forms_gen.h"
