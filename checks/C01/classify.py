#!/usr/bin/env python3
"""One-off (re-run when the pinned release or the DB changes): which generated forms does the pinned asmjit accept at all?
Runs every harness's native twin (real code) on 400 random operand assignments and records whether the 'accepted'
witness was reached. The result (forms_status.json) is vendored: C01 proves encodings of accepted forms, C13 uses the
list as "implemented by the pinned release" so that a form that silently stops being accepted is noticed."""
import sys, os, json, subprocess
sys.path.insert(0, os.path.join(os.path.dirname(os.path.abspath(__file__)), '..', '..', 'tools'))
import vlib
from concurrent.futures import ThreadPoolExecutor
here = os.path.dirname(os.path.abspath(__file__))
spec = vlib.load_spec(here)
chk = vlib.Check('C01', here, spec, 'thorough', 0)
chk.build_unit('forms')
real = chk.built['forms']['real']
fg = json.load(open(os.path.join(here, 'forms_gen.json')))
def classify(h):
    r = subprocess.run([real, h['fn'], '--seeds', '1', '400'], capture_output=True, text=True, timeout=120)
    acc = sum(1 for l in r.stdout.split('\n') if 'WITNESS:accepted' in l)
    bad = sum(1 for l in r.stdout.split('\n') if 'decode under a database record' in l)
    return h['fn'], acc, bad, r.returncode
with ThreadPoolExecutor(max_workers=8) as ex:
    res = list(ex.map(classify, fg['harnesses']))
status = {fn: dict(accepted_runs=a, native_decode_failures=b, rc=rc) for fn, a, b, rc in res}
json.dump(status, open(os.path.join(here, 'forms_status.json'), 'w'), indent=0)
print('harnesses', len(res), 'accepted', sum(1 for _, a, _, _ in res if a), 'never accepted', sum(1 for _, a, _, _ in res if not a),
      'native decode failures in', sum(1 for _, _, b, _ in res if b), 'crashed', sum(1 for _, _, _, rc in res if rc))
