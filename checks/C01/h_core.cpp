// C01 core harnesses (hand-written forms); the DB-driven family lives in h_forms_*.cpp (generated).
#include "x86_env.h"
using namespace asmjit;
using namespace venv;

// add r64, r64 (MR 01 /r with REX.W): all register ids.
HARNESS h_add_rr64() {
  x86::Assembler* a = make_asm(true, true);
  uint32_t d = nondet_u32() & 15, s = nondet_u32() & 15;
  Operand_ o0 = x86::gpq(d), o1 = x86::gpq(s), none{};
  Error e = a->x86::Assembler::_emit(x86::Inst::kIdAdd, o0, o1, none, EmitterUtils::no_ext);
  v_observe_bytes(buf, 16);
  V_ASSERT(e == Error::kOk, "accepted");
  size_t n = emitted();
  V_ASSERT(n == 3, "length");
  uint8_t rex = buf[0], op = buf[1], modrm = buf[2];
  V_ASSERT((rex & 0xF8) == 0x48, "REX.W");
  V_ASSERT(op == 0x01, "opcode");
  V_ASSERT((modrm >> 6) == 3, "mod=11");
  V_ASSERT((((rex >> 2) & 1) << 3 | ((modrm >> 3) & 7)) == s, "reg field = src");
  V_ASSERT((((rex >> 0) & 1) << 3 | (modrm & 7)) == d, "rm field = dst");
  V_ASSERT(((rex >> 1) & 1) == 0, "REX.X clear");
  V_ASSERT(buf[3] == 0xCC, "nothing beyond the instruction written");
  V_WITNESS("add-rr64");
}

// vaddps zmm{k}{z}, zmm, [base + index*scale + disp] : EVEX RVM, tuple FV (disp8*64)
HARNESS h_vaddps_zmm_mem() {
  x86::Assembler* a = make_asm(true, true);
  uint32_t d = nondet_u32() & 31, s1 = nondet_u32() & 31, b = nondet_u32() & 15, x = nondet_u32() & 15, sh = nondet_u32() & 3;
  uint32_t k = nondet_u32() & 7; bool z = nondet_u8() & 1;
  int32_t disp = (int32_t)nondet_u32();
  V_ASSUME(x != 4);
  V_ASSUME(!(z && k == 0));
  x86::Mem m = x86::ptr(x86::gpq(b), x86::gpq(x), sh, disp, 64);
  Operand_ o0 = x86::zmm(d), o1 = x86::zmm(s1), o2 = m;
  if (k) a->_extra_reg.init(x86::k(k));
  if (z) a->_inst_options |= InstOptions::kX86_ZMask;
  Error e = a->x86::Assembler::_emit(x86::Inst::kIdVaddps, o0, o1, o2, EmitterUtils::no_ext);
  v_observe_bytes(buf, 16);
  V_ASSERT(e == Error::kOk, "accepted");
  size_t n = emitted();
  V_ASSERT(buf[0] == 0x62, "EVEX escape");
  uint8_t p0 = buf[1], p1 = buf[2], p2 = buf[3];
  V_ASSERT((p0 & 0x0C) == 0 && (p0 & 3) == 1, "mm=0F, reserved zero");
  V_ASSERT((p1 & 0x04) == 0x04 && (p1 & 3) == 0 && (p1 & 0x80) == 0, "pp=NP W0");
  uint32_t R = !((p0 >> 7) & 1), X = !((p0 >> 6) & 1), B = !((p0 >> 5) & 1), R2 = !((p0 >> 4) & 1);
  uint32_t vvvv = (~(p1 >> 3)) & 15, V2 = !((p2 >> 3) & 1);
  V_ASSERT(((p2 >> 5) & 3) == 2, "L'L = 512");
  V_ASSERT(((p2 >> 4) & 1) == 0, "no broadcast");
  V_ASSERT((p2 & 7) == k, "aaa");
  V_ASSERT(((p2 >> 7) & 1) == (z ? 1 : 0), "z");
  V_ASSERT(buf[4] == 0x58, "opcode");
  uint8_t modrm = buf[5], sib = buf[6];
  V_ASSERT((modrm & 7) == 4, "SIB follows");
  V_ASSERT((R2 << 4 | R << 3 | ((modrm >> 3) & 7)) == d, "dest");
  V_ASSERT((V2 << 4 | vvvv) == s1, "src1");
  V_ASSERT((B << 3 | (sib & 7)) == b, "base");
  V_ASSERT((X << 3 | ((sib >> 3) & 7)) == x, "index");
  V_ASSERT((sib >> 6) == sh, "scale");
  uint32_t mod = modrm >> 6;
  int64_t dec = 0;
  if (mod == 0) { dec = 0; V_ASSERT((b & 7) != 5, "mod0 with rbp/r13 base would mean disp32-no-base"); V_ASSERT(n == 7, "len"); }
  else if (mod == 1) { dec = (int64_t)(int8_t)buf[7] * 64; V_ASSERT(n == 8, "len"); }
  else { V_ASSERT(mod == 2, "mod"); dec = (int32_t)(buf[7] | buf[8] << 8 | buf[9] << 16 | (uint32_t)buf[10] << 24); V_ASSERT(n == 11, "len"); }
  V_ASSERT(dec == disp, "displacement decodes to the requested one");
  V_WITNESS("vaddps-zmm-mem");
}
