// C01 — form-directed reference decoder and the generic harness body.
//
// A `Form` is one concrete instantiation of an ISA-database record (db/isa_x86.json): grouped operands (rv, xyz, ..)
// expanded to one size, `r/m` expanded to the register or the memory alternative. Forms are *generated* by
// gen_forms.py from the database; nothing here is derived from asmjit's own tables.
//
// The decoder below is written from the SDM encoding rules (Vol.2 ch.2: prefixes, REX, VEX, EVEX, ModRM/SIB, disp8*N)
// and shares no code with asmjit. It is "form-directed": given a Form it parses the byte string and reports the fields;
// `matches()` then compares every field with the operands that were handed to the assembler.
#pragma once
#include "x86_env.h"

namespace vf {
using namespace asmjit;

enum Kind : uint8_t { K_NONE, K_GP8, K_GP16, K_GP32, K_GP64, K_MM, K_XMM, K_YMM, K_ZMM, K_KREG, K_MEM, K_IMM, K_VMEM /* VSIB memory: size = 1 xmm, 2 ymm, 3 zmm index */, K_ST /* x87 stack register */ };
enum Role : uint8_t { R_NONE, R_REG, R_RM, R_VVVV, R_IS4, R_OPREG, R_IMM };
enum Enc : uint8_t { E_LEGACY, E_VEX, E_EVEX, E_XOP };
enum : uint8_t { F_K = 1, F_Z = 2, F_NOABS_ACC = 4, F_PREFER_EVEX = 8, F_ER = 16, F_SAE = 32 };

struct Op { uint8_t kind, role; uint16_t size; int16_t fixed; char acc; };  // fixed: -1 free; >= 0 required register id / immediate value; -2 sign-extended immediate; -3 zero-extended (unsigned) immediate
struct Form {
  uint32_t inst;
  uint8_t enc, pp /*0 none,1=66,2=F3,3=F2*/, map /*legacy: 0 none,1=0F,2=0F38,3=0F3A; vex/evex mmmmm*/, opcode;
  int8_t digit;       // -1: /r (or opcode+r: no ModRM), 0..7: /digit
  uint8_t has_modrm;
  uint8_t w;          // 0, 1, 2 = ignored
  uint8_t l;          // 0, 1, 2, 3 = ignored
  uint8_t osize;      // legacy GP operand size in bytes (0 = not size-prefixed, 2 => 66, 8 => REX.W)
  uint8_t nops; Op ops[6];
  uint8_t imm_bytes;  // trailing immediate bytes (not counting is4)
  uint8_t disp8_shift;
  uint8_t flags;
  uint8_t nfixed; uint8_t fixed[2];  // extra fixed bytes following the opcode ([OP] records such as 0F 01 CA)
  uint32_t flags_read, flags_written;   // CPU status flags per the record's `io` field (C12)
};

// ---- what was handed to the assembler
struct MemX { bool has_base, has_index, rip, addr32, addr16, vsib, abs_u32; uint32_t base, index, shift, seg; int32_t disp; };
struct Given {
  uint32_t reg_enc[6];   // encoding id of a register operand (AH..BH already mapped to 4..7)
  bool gp8_hi[6], gp8_needs_rex[6];
  MemX mem; int mem_index;   // operand index of the memory operand or -1
  uint64_t imm; uint32_t k; bool z;
  uint32_t er;   // 0: none; 1..4: {rn|rd|ru|rz-sae} (embedded rounding); 5: {sae}
};

// ---- decoded fields
struct Dec {
  bool ok; uint32_t len;
  bool p66, p67, pF2, pF3, pF0; uint32_t seg;   // seg: 0 none, 1 es, 2 cs, 3 ss, 4 ds, 5 fs, 6 gs (asmjit's SReg ids)
  bool has_rex; uint32_t W, R, X, B, R2, V2, vvvv, L, pp, map, z, b, aaa;
  uint32_t opcode, modrm, sib; bool has_sib;
  int64_t disp; uint32_t disp_size;
  uint64_t imm; uint32_t is4;
};

static inline uint32_t seg_of_prefix(uint8_t b) {
  switch (b) { case 0x26: return 1; case 0x2E: return 2; case 0x36: return 3; case 0x3E: return 4; case 0x64: return 5; case 0x65: return 6; default: return 0; }
}

static Dec decode(const Form& f, const uint8_t* p, bool x64) {
  Dec d; memset(&d, 0, sizeof(d)); d.ok = false; d.vvvv = 0; d.V2 = 0;
  uint32_t i = 0;
  // legacy prefixes (any order, each at most once, at most 5)
  for (int k = 0; k < 5; k++) {
    uint8_t b = p[i];
    if (b == 0x66) { if (d.p66) return d; d.p66 = true; }
    else if (b == 0x67) { if (d.p67) return d; d.p67 = true; }
    else if (b == 0xF2) { if (d.pF2 || d.pF3) return d; d.pF2 = true; }
    else if (b == 0xF3) { if (d.pF2 || d.pF3) return d; d.pF3 = true; }
    else if (b == 0xF0) { if (d.pF0) return d; d.pF0 = true; }
    else if (seg_of_prefix(b)) { if (d.seg) return d; d.seg = seg_of_prefix(b); }
    else break;
    i++;
  }
  if (f.enc == E_LEGACY) {
    if (x64 && (p[i] & 0xF0) == 0x40) { d.has_rex = true; d.W = (p[i] >> 3) & 1; d.R = (p[i] >> 2) & 1; d.X = (p[i] >> 1) & 1; d.B = p[i] & 1; i++; }
    if (f.map >= 1) { if (p[i] != 0x0F) return d; i++; }
    if (f.map == 2) { if (p[i] != 0x38) return d; i++; }
    if (f.map == 3) { if (p[i] != 0x3A) return d; i++; }
    d.map = f.map;
  } else if (f.enc == E_VEX || f.enc == E_XOP) {
    // SIMD prefixes, LOCK and REX before VEX are #UD
    if (d.p66 || d.pF2 || d.pF3 || d.pF0) return d;
    if (f.enc == E_VEX && p[i] == 0xC5) {
      uint8_t b1 = p[i + 1];
      if (!x64 && (b1 & 0xC0) != 0xC0) return d;  // would be LDS in 32-bit mode
      d.R = !((b1 >> 7) & 1); d.vvvv = (~(b1 >> 3)) & 15; d.L = (b1 >> 2) & 1; d.pp = b1 & 3; d.map = 1; d.W = 0; d.X = 0; d.B = 0;
      i += 2;
    } else if (p[i] == (f.enc == E_VEX ? 0xC4 : 0x8F)) {
      uint8_t b1 = p[i + 1], b2 = p[i + 2];
      if (!x64 && (b1 & 0xC0) != 0xC0) return d;
      d.R = !((b1 >> 7) & 1); d.X = !((b1 >> 6) & 1); d.B = !((b1 >> 5) & 1); d.map = b1 & 31;
      d.W = (b2 >> 7) & 1; d.vvvv = (~(b2 >> 3)) & 15; d.L = (b2 >> 2) & 1; d.pp = b2 & 3;
      if (f.enc == E_XOP && d.map < 8) return d;  // would be POP r/m
      i += 3;
    } else return d;
  } else {  // EVEX
    if (d.p66 || d.pF2 || d.pF3 || d.pF0) return d;
    if (p[i] != 0x62) return d;
    uint8_t p0 = p[i + 1], p1 = p[i + 2], p2 = p[i + 3];
    if (!x64 && (p0 & 0xC0) != 0xC0) return d;   // would be BOUND in 32-bit mode
    if (p0 & 0x08) return d;                       // reserved (no APX here)
    if (!(p1 & 0x04)) return d;                    // fixed 1
    d.R = !((p0 >> 7) & 1); d.X = !((p0 >> 6) & 1); d.B = !((p0 >> 5) & 1); d.R2 = !((p0 >> 4) & 1); d.map = p0 & 7;
    d.W = (p1 >> 7) & 1; d.vvvv = (~(p1 >> 3)) & 15; d.pp = p1 & 3;
    d.z = (p2 >> 7) & 1; d.L = (p2 >> 5) & 3; d.b = (p2 >> 4) & 1; d.V2 = !((p2 >> 3) & 1); d.aaa = p2 & 7;
    i += 4;
  }
  d.opcode = p[i++];
  for (uint32_t k = 0; k < f.nfixed; k++) { if (p[i] != f.fixed[k]) return d; i++; }
  if (f.has_modrm) {
    d.modrm = p[i++];
    uint32_t mod = d.modrm >> 6, rm = d.modrm & 7;
    if (mod != 3) {
      bool a16 = !x64 && d.p67;
      if (a16) {   // 16-bit addressing: no SIB; mod=00 rm=110 is [disp16]
        if (mod == 1) { d.disp = int64_t(int8_t(p[i])) * (int64_t(1) << (f.enc == E_EVEX ? f.disp8_shift : 0)); d.disp_size = 1; i += 1; }
        else if (mod == 2 || (mod == 0 && rm == 6)) { d.disp = int16_t(uint16_t(p[i]) | uint16_t(p[i + 1]) << 8); d.disp_size = 2; i += 2; }
      }
      else {
      if (rm == 4) { d.has_sib = true; d.sib = p[i++]; }
      if (mod == 1) { d.disp = int64_t(int8_t(p[i])) * (int64_t(1) << (f.enc == E_EVEX ? f.disp8_shift : 0)); d.disp_size = 1; i += 1; }
      else if (mod == 2 || (mod == 0 && rm == 5) || (mod == 0 && d.has_sib && (d.sib & 7) == 5)) {
        d.disp = int32_t(uint32_t(p[i]) | uint32_t(p[i + 1]) << 8 | uint32_t(p[i + 2]) << 16 | uint32_t(p[i + 3]) << 24); d.disp_size = 4; i += 4;
      }
      }
    }
  }
  bool has_is4 = false;
  for (uint32_t k = 0; k < f.nops; k++) if (f.ops[k].role == R_IS4) has_is4 = true;
  if (has_is4) { d.is4 = p[i++]; }
  d.imm = 0;
  for (uint32_t k = 0; k < f.imm_bytes; k++) d.imm |= uint64_t(p[i + k]) << (8 * k);
  i += f.imm_bytes;
  d.len = i; d.ok = true;
  return d;
}

static inline bool is_vec(uint8_t k) { return k == K_XMM || k == K_YMM || k == K_ZMM; }

// Does the decoded instruction denote form `f` with exactly the operands `g`?
#if defined(VERIF_NATIVE)
#include <stdio.h>
#include <stdlib.h>
#define CHK(...) do { if (!(__VA_ARGS__)) { ok = false; if (getenv("VERIF_DEBUG")) fprintf(stderr, "  mismatch[%d]: %s\n", __LINE__, #__VA_ARGS__); } } while (0)
#else
#define CHK(...) do { ok &= (__VA_ARGS__); } while (0)
#endif
static bool matches(const Form& f, const Dec& d, const Given& g, bool x64) {
  if (!d.ok) return false;
  bool ok = true;
  bool mem_present = g.mem_index >= 0;
  // --- prefixes / fixed fields
  if (f.enc == E_LEGACY) {
    bool want66 = f.pp == 1 || f.osize == 2;
    CHK(d.p66 == want66);
    CHK(d.pF3 == (f.pp == 2) && d.pF2 == (f.pp == 3));
    CHK(!d.pF0);
    bool wantW = f.osize == 8 || f.w == 1;
    // lea r64, [abs u32]: the zero-extended address is produced by a 32-bit lea (no REX.W, no 67h) - same result in the 64-bit register
    bool lea_zx = f.inst == x86::Inst::kIdLea && mem_present && g.mem.abs_u32 && wantW;
    if (lea_zx) wantW = false;
    CHK(d.W == (wantW ? 1u : 0u));
    if (!x64) CHK(!d.has_rex);
    if ((d.opcode & (f.digit == -1 && !f.has_modrm ? 0xF8 : 0xFF)) != (f.opcode & (f.digit == -1 && !f.has_modrm ? 0xF8 : 0xFF))) ok = false;
  } else {
    CHK(d.opcode == f.opcode);
    CHK(d.pp == f.pp && d.map == f.map);
    if (f.w != 2) CHK(d.W == f.w);
    // EVEX.b with register operands: embedded rounding (L'L carries the rounding mode, the operation is 512-bit or scalar) or {sae}
    // (L'L ignored, SDM Vol.2 2.7.4/2.7.5); only records decorated {er}/{sae} have such a form and only for their 512-bit / scalar variant
    if (g.er) { CHK(f.enc == E_EVEX && !mem_present && (f.l == 2 || f.l == 3)); CHK(g.er <= 4 ? (f.flags & F_ER) != 0 : (f.flags & (F_SAE | F_ER)) != 0); }
    if (f.l != 3 && !g.er) CHK(d.L == f.l);
    if (g.er >= 1 && g.er <= 4) CHK(d.L == g.er - 1);
    if (f.enc != E_EVEX) { CHK(d.L <= 1); CHK(g.k == 0 && !g.z); }
    if (f.enc == E_EVEX) {
      if (!g.er) CHK(d.L != 3);
      CHK(d.aaa == g.k && d.z == (g.z ? 1u : 0u) && d.b == (g.er ? 1u : 0u));
      if (!(f.flags & F_K)) CHK(g.k == 0);
      if (!(f.flags & F_Z)) CHK(!g.z);
    }
    if (!x64) CHK(!d.R && !d.X && !d.B && !d.R2 && !(d.vvvv & 8) && !d.V2);
  }
  if (!mem_present) CHK(!d.p67 && d.seg == 0);
  // --- operands
  bool vvvv_used = false;
  for (uint32_t k = 0; k < f.nops; k++) {
    const Op& op = f.ops[k];
    uint32_t id = g.reg_enc[k];
    switch (op.role) {
      case R_REG: {
        uint32_t got = ((d.modrm >> 3) & 7) | (d.R << 3) | (f.enc == E_EVEX && is_vec(op.kind) ? d.R2 << 4 : 0);
        if (f.enc == E_EVEX && !is_vec(op.kind)) CHK(d.R2 == 0);
        CHK(got == id);
        break;
      }
      case R_RM: {
        if (op.kind == K_MEM || op.kind == K_VMEM) break;
        CHK((d.modrm >> 6) == 3);
        uint32_t got = (d.modrm & 7) | (d.B << 3) | (f.enc == E_EVEX && is_vec(op.kind) ? d.X << 4 : 0);
        if (!(f.enc == E_EVEX && is_vec(op.kind))) CHK(d.X == 0);
        CHK(got == id);
        break;
      }
      case R_VVVV: { vvvv_used = true; CHK((d.vvvv | ((g.mem_index >= 0 && g.mem.vsib && f.enc == E_EVEX) ? 0u : (d.V2 << 4))) == id); break; }
      case R_IS4: { CHK((d.is4 >> 4) == id && (x64 || !(d.is4 & 0x80))); break; }
      case R_OPREG: { CHK(((d.opcode & 7) | (d.B << 3)) == id); CHK(d.X == 0 && d.R == 0); if (op.kind == K_ST) CHK(!d.has_rex); break; }
      default: break;
    }
    if (op.fixed >= 0) {
      if (op.kind == K_IMM) CHK(g.imm == uint64_t(op.fixed));
      else CHK(id == uint32_t(op.fixed) && !g.gp8_hi[k]);
    }
    if (op.kind == K_GP8) {
      if (g.gp8_hi[k]) CHK(!d.has_rex);            // AH..BH cannot be encoded with REX
      if (g.gp8_needs_rex[k]) CHK(d.has_rex);       // SPL..DIL need one
    }
  }
  if (f.enc != E_LEGACY && !vvvv_used) CHK(d.vvvv == 0 && (d.V2 == 0 || (g.mem_index >= 0 && g.mem.vsib)));
  if (f.has_modrm && f.digit >= 0) { CHK(((d.modrm >> 3) & 7) == uint32_t(f.digit)); CHK(d.R == 0 && d.R2 == 0); }
  // --- memory operand
  if (mem_present) {
    const MemX& m = g.mem;
    uint32_t mod = d.modrm >> 6, rm = d.modrm & 7;
    CHK(mod != 3);
    CHK(d.seg == m.seg);
    bool lea_zx_m = f.inst == x86::Inst::kIdLea && m.abs_u32;   // any lea: the low 32 bits of the sign-extended address are the zero-extended address
    CHK(d.p67 == (x64 ? (m.addr32 && !lea_zx_m) : m.addr16));
    bool dbase, dindex = false, drip = false; uint32_t base = 0, index = 0, scale = 0;
    if (!x64 && d.p67) {   // 16-bit ModRM table (SDM Vol.2 table 2-1): bx=3 bp=5 si=6 di=7
      static const uint8_t kBase[8] = { 3, 3, 5, 5, 6, 7, 5, 3 }; static const uint8_t kIndex[8] = { 6, 7, 6, 7, 0xFF, 0xFF, 0xFF, 0xFF };
      if (rm == 6 && mod == 0) { dbase = false; }
      else { dbase = true; base = kBase[rm]; if (kIndex[rm] != 0xFF) { dindex = true; index = kIndex[rm]; scale = 0; } }
      CHK(d.X == 0 && d.B == 0);
      if (!dbase) CHK(d.disp_size == 2);
    }
    else if (d.has_sib) {
      uint32_t sb = d.sib & 7, si = (d.sib >> 3) & 7; scale = d.sib >> 6;
      index = si | (d.X << 3); dindex = index != 4;
      if (m.vsib) { dindex = true; if (f.enc == E_EVEX) index |= d.V2 << 4; }   // VSIB: index is a vector register, 100b is a valid id, EVEX.V' extends it
      base = sb | (d.B << 3); dbase = !(sb == 5 && mod == 0);
    } else {
      CHK(d.X == 0);
      if (rm == 5 && mod == 0) { dbase = false; drip = x64; }
      else { dbase = true; base = rm | (d.B << 3); }
    }
    CHK(drip == m.rip);
    CHK(dbase == m.has_base); if (m.has_base) CHK(base == m.base);
    CHK(dindex == m.has_index); if (m.has_index) CHK(index == m.index && scale == m.shift);
    CHK(d.disp == int64_t(m.disp));
    if (!dbase && !drip && !(!x64 && d.p67)) CHK(d.disp_size == 4);
    if (m.vsib) CHK(d.has_sib);
  }
  // --- immediate
  if (f.imm_bytes) {
    uint64_t mask = f.imm_bytes >= 8 ? ~0ull : ((1ull << (8 * f.imm_bytes)) - 1);
    bool sext = false;
    for (uint32_t k = 0; k < f.nops; k++) if (f.ops[k].kind == K_IMM && f.ops[k].fixed == -2) sext = true;
    uint32_t sh = 64 - 8 * f.imm_bytes;
    int64_t as_signed = f.imm_bytes >= 8 ? int64_t(d.imm) : (int64_t(d.imm << sh) >> sh);
    if (sext) CHK(as_signed == int64_t(g.imm));                                   // the extension must reproduce the value given
    else CHK(d.imm == (g.imm & mask) && (as_signed == int64_t(g.imm) || (g.imm & ~mask) == 0));  // fits the field, signed or unsigned
  }
  return ok;
}

// ---- symbolic operands for a form
static inline uint32_t pick(uint32_t mask) { return nondet_u8() & mask; }

// Symbolic operands for a group of forms (all forms of a group have the same operand kinds). Fills `o` and `g`.
template<bool X64>
static void build_operands(const Form* forms, uint32_t nforms, int evex_split, Operand_* o, Given& g, bool in_domain = false) {
  const Form& f0 = forms[0];
  memset(&g, 0, sizeof(g)); g.mem_index = -1;
  for (int i = 0; i < 6; i++) o[i].reset();
  bool evex = false; uint8_t kflags = 0;
  for (uint32_t i = 0; i < nforms; i++) { evex |= forms[i].enc == E_EVEX; kflags |= forms[i].flags; }
  for (uint32_t k = 0; k < f0.nops; k++) {
    const Op& op = f0.ops[k];
    switch (op.kind) {
      case K_GP8: {
        bool hi = nondet_bool();
        if (hi) { uint32_t id = pick(3); o[k] = x86::gpb_hi(id); g.reg_enc[k] = id + 4; g.gp8_hi[k] = true; }
        else { uint32_t id = pick(X64 ? 15 : 3); o[k] = x86::gpb_lo(id); g.reg_enc[k] = id; g.gp8_needs_rex[k] = id >= 4 && id <= 7; }
        break;
      }
      case K_GP16: { uint32_t id = pick(X64 ? 15 : 7); o[k] = x86::gpw(id); g.reg_enc[k] = id; break; }
      case K_GP32: { uint32_t id = pick(X64 ? 15 : 7); o[k] = x86::gpd(id); g.reg_enc[k] = id; break; }
      case K_GP64: { uint32_t id = pick(15); o[k] = x86::gpq(id); g.reg_enc[k] = id; break; }
      case K_MM: { uint32_t id = pick(7); o[k] = x86::mm(id); g.reg_enc[k] = id; break; }
      case K_XMM: { uint32_t id = pick(X64 ? (evex ? 31 : 15) : 7); o[k] = x86::xmm(id); g.reg_enc[k] = id; break; }
      case K_YMM: { uint32_t id = pick(X64 ? (evex ? 31 : 15) : 7); o[k] = x86::ymm(id); g.reg_enc[k] = id; break; }
      case K_ZMM: { uint32_t id = pick(X64 ? 31 : 7); o[k] = x86::zmm(id); g.reg_enc[k] = id; break; }
      case K_KREG: { uint32_t id = pick(7); o[k] = x86::k(id); g.reg_enc[k] = id; break; }
      case K_ST: { uint32_t id = pick(7); o[k] = x86::st(id); g.reg_enc[k] = id; break; }
      case K_VMEM: {   // VSIB: [base + vector index * scale + disp32] or [vector index * scale + disp32]
        MemX& m = g.mem; g.mem_index = int(k); m.vsib = true; m.has_index = true;
        m.disp = int32_t(nondet_u32()); m.seg = pick(7); V_ASSUME(m.seg <= 6);
        m.addr32 = X64 ? nondet_bool() : false;
        uint32_t b = pick(X64 ? 15 : 7), sh = pick(3);
        m.index = pick(X64 ? (evex ? 31 : 15) : 7); m.shift = sh; m.has_base = nondet_bool(); m.base = b;
        x86::Vec vidx = op.size == 1 ? x86::xmm(m.index) : op.size == 2 ? x86::ymm(m.index) : x86::zmm(m.index);
        x86::Mem mem = m.has_base ? x86::ptr((X64 && !m.addr32) ? x86::gpq(b) : x86::gpd(b), vidx, sh, m.disp) : x86::ptr(uint64_t(X64 ? uint64_t(int64_t(m.disp)) : uint64_t(uint32_t(m.disp))), vidx, sh);
        if (!m.has_base) m.addr32 = false;
        if (m.seg) mem.set_segment(x86::SReg(m.seg));
        o[k] = mem;
        break;
      }
      case K_MEM: {
        MemX& m = g.mem; g.mem_index = int(k);
        uint32_t shape = pick(7); V_ASSUME(shape <= 6);
        m.disp = int32_t(nondet_u32()); m.seg = pick(7); V_ASSUME(m.seg <= 6);
        m.addr32 = X64 ? nondet_bool() : false;
        uint32_t b = pick(X64 ? 15 : 7), x = pick(X64 ? 15 : 7), sh = pick(3);
        x86::Mem mem;
        if (shape == 0) { m.has_base = true; m.base = b; mem = x86::ptr((X64 && !m.addr32) ? x86::gpq(b) : x86::gpd(b), m.disp); }
        else if (shape == 1) {
          V_ASSUME(x != 4);
          m.has_base = true; m.base = b; m.has_index = true; m.index = x; m.shift = sh;
          mem = (X64 && !m.addr32) ? x86::ptr(x86::gpq(b), x86::gpq(x), sh, m.disp) : x86::ptr(x86::gpd(b), x86::gpd(x), sh, m.disp);
        }
        else if (shape == 4) {   // 16-bit addressing (32-bit mode only): the eight ModRM combinations + [disp16]
          V_ASSUME(!X64);
          uint32_t rm16 = pick(15); V_ASSUME(rm16 <= 8);
          static const uint8_t kBase[8] = { 3, 3, 5, 5, 6, 7, 5, 3 }; static const uint8_t kIndex[8] = { 6, 7, 6, 7, 0xFF, 0xFF, 0xFF, 0xFF };
          m.addr16 = true; m.disp = int32_t(int16_t(m.disp));
          if (rm16 == 8) { V_ASSUME(false); }   // absolute 16-bit addresses cannot be expressed through the operand API: not generated
          m.has_base = true; m.base = kBase[rm16];
          if (kIndex[rm16] != 0xFF) { m.has_index = true; m.index = kIndex[rm16]; m.shift = 0; mem = x86::ptr(x86::gpw(m.base), x86::gpw(m.index), 0, m.disp); }
          else mem = x86::ptr(x86::gpw(m.base), m.disp);
        }
        else if (shape == 5) {   // 64-bit mode: absolute address 0x80000000..0xFFFFFFFF (zero-extended 32 bits): needs 67h, or for LEA a 32-bit operand size
          V_ASSUME(X64 && m.disp < 0);
          m.abs_u32 = true; m.addr32 = true;
          mem = x86::ptr(uint64_t(uint32_t(m.disp))); mem.set_addr_type(x86::Mem::AddrType::kAbs);
        }
        else if (shape == 6) {   // index without base: [index*scale + disp32] (SIB with base=101b, mod=00); a 32-bit index in 64-bit mode needs 67h
          V_ASSUME(x != 4);
          m.has_index = true; m.index = x; m.shift = sh;
          mem = x86::ptr(uint64_t(X64 ? uint64_t(int64_t(m.disp)) : uint64_t(uint32_t(m.disp))), (X64 && !m.addr32) ? x86::gpq(x) : x86::gpd(x), sh);
        }
        else if (shape == 2) { m.addr32 = false; mem = x86::ptr(X64 ? uint64_t(int64_t(m.disp)) : uint64_t(uint32_t(m.disp))); if (X64) mem.set_addr_type(x86::Mem::AddrType::kAbs); }
        else { V_ASSUME(X64); m.addr32 = false; m.rip = true; mem = x86::ptr(x86::rip, m.disp); }
        mem.set_size(op.size);
        if (m.seg) mem.set_segment(x86::SReg(m.seg));
        o[k] = mem;
        break;
      }
      case K_IMM: {
        uint32_t nb = 0;
        for (uint32_t i = 0; i < nforms; i++) if (forms[i].nops > k && forms[i].ops[k].kind == K_IMM && forms[i].ops[k].size > nb) nb = forms[i].ops[k].size;
        if (nb == 0) nb = 1;   // only constant-immediate records (shift by 1): still offer any 8-bit value
        int64_t v = int64_t(nondet_u64());
        if (nb < 8) { uint32_t sh = 64 - 8 * nb; v = (v << sh) >> sh; }   // any value of that width, sign-extended
        if (in_domain) {   // unsigned immediates (immu8/16/32) are zero-extended when every record of the group says so
          bool all_unsigned = true; for (uint32_t i = 0; i < nforms; i++) if (forms[i].ops[k].fixed < 0 && forms[i].ops[k].fixed != -3) all_unsigned = false;
          if (all_unsigned && nb < 8) v = int64_t(uint64_t(v) & ((1ull << (8 * nb)) - 1));
        }
        g.imm = uint64_t(v); o[k] = Imm(v);
        break;
      }
      default: break;
    }
  }
  if (kflags & F_NOABS_ACC) {   // moffs forms of mov (accumulator <-> absolute address) are outside the generated family
    bool abs_mem = g.mem_index >= 0 && !g.mem.has_base && !g.mem.has_index && !g.mem.rip;
    bool acc = false;
    for (uint32_t k = 0; k < f0.nops; k++) if (f0.ops[k].kind >= K_GP8 && f0.ops[k].kind <= K_GP64 && g.reg_enc[k] == 0 && !g.gp8_hi[k]) acc = true;
    V_ASSUME(!(abs_mem && acc));
  }
  if (kflags & F_K) {
    g.k = pick(7);
    if ((kflags & F_Z) && g.k && nondet_bool()) { g.z = true; }
  }
  if ((kflags & (F_ER | F_SAE)) && g.mem_index < 0) {   // decoration offered whenever a record of the group has it; none / the four rounding modes / {sae}
    uint32_t er = pick(7); V_ASSUME(er <= 5);
    if (!(kflags & F_ER)) V_ASSUME(er == 0 || er == 5);
    if (in_domain) {   // C13: only where the records allow it (the decorated record must be the one the operands select: 512-bit or scalar)
      bool allowed = false;
      for (uint32_t i = 0; i < nforms; i++) {
        if (!(forms[i].flags & (er <= 4 ? F_ER : (F_ER | F_SAE)))) continue;
        bool kinds_match = true;
        for (uint32_t k = 0; k < forms[i].nops; k++) if (forms[i].ops[k].kind != f0.ops[k].kind) kinds_match = false;
        if (kinds_match) allowed = true;
      }
      if (!allowed) er = 0;
    }
    g.er = er;
  }
  if (in_domain) {   // a register operand that every record of the group fixes (cl, dx, al..) takes that register
    for (uint32_t k = 0; k < f0.nops; k++) {
      if (f0.ops[k].kind == K_IMM || f0.ops[k].kind == K_MEM || f0.ops[k].kind == K_VMEM || f0.ops[k].fixed < 0) continue;
      bool all_same = true; for (uint32_t i = 1; i < nforms; i++) if (forms[i].ops[k].fixed != f0.ops[k].fixed) all_same = false;
      if (all_same) V_ASSUME(g.reg_enc[k] == uint32_t(f0.ops[k].fixed) && !g.gp8_hi[k]);
    }
  }
  {   // D18 region: 16-bit addressing in an EVEX-encoded instruction (disp8 is emitted without the *N compression)
    bool needs_evex = g.k != 0, all_evex = true;
    for (uint32_t i = 0; i < nforms; i++) { if (forms[i].enc != E_EVEX) all_evex = false; if (forms[i].flags & F_PREFER_EVEX) needs_evex = true; }
    for (uint32_t k = 0; k < f0.nops; k++) { if (f0.ops[k].kind == K_ZMM) needs_evex = true; if (is_vec(f0.ops[k].kind) && g.reg_enc[k] >= 16) needs_evex = true; }
    bool d18 = g.mem_index >= 0 && g.mem.addr16 && (needs_evex || all_evex);
#if KF_D18
    if (evex_split != 6) V_ASSUME(!d18);
#endif
    if (evex_split == 6) V_ASSUME(d18);
  }
  if (evex_split == 3 || evex_split == 4) {   // D4 region: segment override together with an address-size override
    bool long_form = g.mem_index >= 0 && g.mem.seg != 0 && g.mem.addr32;
    V_ASSUME(long_form == (evex_split == 4));
  } else if (evex_split) {
    bool needs_evex = g.k != 0;
    for (uint32_t k = 0; k < f0.nops; k++) { if (f0.ops[k].kind == K_ZMM) needs_evex = true; if (is_vec(f0.ops[k].kind) && g.reg_enc[k] >= 16) needs_evex = true; }
    V_ASSUME(needs_evex == (evex_split == 2));
  }
}

static inline void apply_decorations(x86::Assembler* a, const Given& g) {
  if (g.k) a->_extra_reg.init(x86::k(g.k));
  if (g.z) a->_inst_options |= InstOptions::kX86_ZMask;
  if (g.er >= 1 && g.er <= 4) a->_inst_options |= InstOptions::kX86_ER | InstOptions(uint32_t(InstOptions::kX86_RN_SAE) + ((g.er - 1) << Support::ctz_const<InstOptions::kX86_ERMask>));
  if (g.er == 5) a->_inst_options |= InstOptions::kX86_SAE;
}

// evex_split: 0 = whole group; 1 = only operands for which the encoder does not need EVEX; 2 = only those that need it
template<bool X64>
static void run_forms(const Form* forms, uint32_t nforms, int evex_split = 0) {
  const Form& f0 = forms[0];
  Operand_ o[6]; Given g;
  build_operands<X64>(forms, nforms, evex_split, o, g);
  x86::Assembler* a = venv::make_asm(X64, true);
  apply_decorations(a, g);
  Operand_ ext[3]; ext[0] = o[3]; ext[1] = o[4]; ext[2] = o[5];
  Error e = a->x86::Assembler::_emit(f0.inst, o[0], o[1], o[2], ext);
  size_t n = venv::emitted();
  verif_observe(uint32_t(e)); verif_observe(n); v_observe_bytes(venv::buf, 16);
  if (e == Error::kOk) {
    V_ASSERT(n >= 1 && n <= 15, "instruction length 1..15");
    bool any = false;
    for (uint32_t i = 0; i < nforms; i++) {
      Dec d = decode(forms[i], venv::buf, X64);
      any |= (d.ok && d.len == n && matches(forms[i], d, g, X64));
    }
    V_ASSERT(any, "emitted bytes decode under a database record to exactly this instruction and these operands");
    V_ASSERT(venv::text()->_buffer._size == 0 || venv::text()->_buffer._size == n, "section size consistent");
    V_WITNESS("accepted");
  } else {
    V_ASSERT(n == 0, "refused form appends nothing");
  }
}

// C13: strict validation on vs off - same verdict, same bytes - for every operand assignment of the group.
template<bool X64>
static void run_agree(const Form* forms, uint32_t nforms, int split = 0) {
  const Form& f0 = forms[0];
  Operand_ o[6]; Given g;
  build_operands<X64>(forms, nforms, split, o, g, true);   // operands inside the records' domain
  Operand_ ext[3]; ext[0] = o[3]; ext[1] = o[4]; ext[2] = o[5];
  uint8_t b1[16]; Error e1, e2; size_t n1, n2;
  {
    x86::Assembler* a = venv::make_asm(X64, true);
    apply_decorations(a, g);
    e1 = a->x86::Assembler::_emit(f0.inst, o[0], o[1], o[2], ext); n1 = venv::emitted();
    memcpy(b1, venv::buf, 16);
  }
  {
    x86::Assembler* a = venv::make_asm(X64, false);
    apply_decorations(a, g);
    e2 = a->x86::Assembler::_emit(f0.inst, o[0], o[1], o[2], ext); n2 = venv::emitted();
  }
  verif_observe(uint32_t(e1)); verif_observe(uint32_t(e2)); verif_observe(n1); verif_observe(n2);
  V_ASSERT((e1 == Error::kOk) == (e2 == Error::kOk), "strict validation and the encoder agree on acceptance");
  if (e1 == Error::kOk && e2 == Error::kOk) {
    V_ASSERT(n1 == n2, "validation does not change the length");
    bool same = true;
    for (uint32_t i = 0; i < 15; i++) if (i < n1) same &= b1[i] == venv::buf[i];
    V_ASSERT(same, "validation does not change the bytes");
    V_WITNESS("both-accept");
  }
}

// C16: output is independent of whether a logger is attached.
static char dummy_logger_storage[8];
template<bool X64>
static void run_logindep(const Form* forms, uint32_t nforms, int split = 0) {
  const Form& f0 = forms[0];
  Operand_ o[6]; Given g;
  build_operands<X64>(forms, nforms, split, o, g);
  Operand_ ext[3]; ext[0] = o[3]; ext[1] = o[4]; ext[2] = o[5];
  uint8_t b1[16]; Error e1, e2; size_t n1, n2;
  {
    x86::Assembler* a = venv::make_asm(X64, false);
    apply_decorations(a, g);
    e1 = a->x86::Assembler::_emit(f0.inst, o[0], o[1], o[2], ext); n1 = venv::emitted();
    memcpy(b1, venv::buf, 16);
    V_ASSERT(venv::n_logged == 0, "nothing is logged without a logger");
  }
  {
    x86::Assembler* a = venv::make_asm(X64, false);
    a->_logger = reinterpret_cast<Logger*>(dummy_logger_storage);   // never dereferenced: the logging call is a stub
    a->_forced_inst_options |= InstOptions::kReserved;              // as BaseEmitter::on_settings_updated() sets it when a logger is present
    apply_decorations(a, g);
    e2 = a->x86::Assembler::_emit(f0.inst, o[0], o[1], o[2], ext); n2 = venv::emitted();
    V_ASSERT(uint32_t(a->_inst_options) == 0 && !a->_extra_reg.is_reg() && a->_inline_comment == nullptr, "one-shot state cleared with a logger attached");
  }
  V_ASSERT(e1 == e2 && n1 == n2, "a logger changes neither the verdict nor the length");
  bool same = true;
  for (uint32_t i = 0; i < 15; i++) if (i < n1) same &= b1[i] == venv::buf[i];
  V_ASSERT(same, "a logger does not change the bytes");
  if (e1 == Error::kOk) { V_ASSERT(venv::n_logged == 1, "an accepted instruction is logged exactly once"); V_WITNESS("logged"); }
  verif_observe(uint32_t(e1)); verif_observe(n1);
}

// C12 (database agreement): InstAPI::query_rw_info for the same symbolic operands reports, per explicit operand, the
// read/write access of the database record (R:/W:/X:/w:/x:), zero-extension of 32-bit GP destinations in 64-bit mode,
// no extension for partial (8/16-bit) writes, and the CPU status flags of the record's `io` field.
template<bool X64>
static void run_rw(const Form* forms, uint32_t nforms, int split = 0) {
  const Form& f0 = forms[0];
  Operand_ o[6]; Given g;
  build_operands<X64>(forms, nforms, split == 1 || split == 2 ? 0 : 0, o, g);
  // same-register idioms (xor r,r ...) legitimately change the access: outside this harness
  for (uint32_t i = 0; i < f0.nops; i++) for (uint32_t j = i + 1; j < f0.nops; j++)
    if (f0.ops[i].kind == f0.ops[j].kind && f0.ops[i].kind != K_MEM && f0.ops[i].kind != K_IMM) V_ASSUME(g.reg_enc[i] != g.reg_enc[j]);
  BaseInst inst(f0.inst, g.z ? InstOptions::kX86_ZMask : InstOptions::kNone, RegOnly());
  if (g.k) inst._extra_reg.init(x86::k(g.k));
  InstRWInfo rw;
  Error e = x86::InstInternal::query_rw_info(X64 ? Arch::kX64 : Arch::kX86, inst, o, f0.nops, &rw);
  V_ASSERT(e == Error::kOk, "read/write information is available for the form");
  if (e != Error::kOk) return;   // nothing was filled in: reading it would be garbage (and differ between the native twins)
  V_ASSERT(rw.op_count() == f0.nops, "operand count reported");
  for (uint32_t i = 0; i < f0.nops; i++) {
    const Op& op = f0.ops[i]; const OpRWInfo& w = rw.operand(i);
    // all records of a group must agree on the access before it is asserted
    bool agree = true; for (uint32_t k = 1; k < nforms; k++) if (forms[k].ops[i].acc != op.acc) agree = false;
    if (op.kind == K_IMM || op.acc == '?' || !agree) continue;
    bool rd = op.acc == 'R' || op.acc == 'X' || op.acc == 'x', wr = op.acc == 'W' || op.acc == 'X' || op.acc == 'w' || op.acc == 'x';
    // merge-masking: {k} without {z} on a form that also admits {z} keeps the unselected destination elements (the destination is
    // read). Forms that admit only {k} (mask-register results of compares/tests/fpclass) zero the unselected bits instead.
    bool zeroing_capable = false; for (uint32_t k = 0; k < nforms; k++) if (forms[k].flags & F_Z) zeroing_capable = true;
    if (i == 0 && wr && g.k && !g.z && zeroing_capable) rd = true;
    verif_observe(uint32_t(w.op_flags()));
    // The property asks for coverage (nothing the CPU reads/writes may be missing from the report); over-reporting is not a violation.
    if (op.kind == K_MEM || op.kind == K_VMEM) {
      V_ASSERT((!rd || w.is_read()) && (!wr || w.is_write()), "memory operand: every access of the database record is reported");
    } else {
      V_ASSERT(!rd || w.is_read(), "register operand the database marks R or X is reported read");
      V_ASSERT(!wr || w.is_write(), "register operand the database marks W or X is reported written");
      if (wr && X64 && op.kind == K_GP32 && (op.acc == 'W' || op.acc == 'X')) V_ASSERT((w.write_byte_mask() | w.extend_byte_mask()) == 0xFFu, "a 32-bit GP destination is written or zero-extended over all 8 bytes in 64-bit mode");
      if (wr && (op.kind == K_GP8 || op.kind == K_GP16) && (op.acc == 'w' || op.acc == 'x')) V_ASSERT(!w.is_zext() && w.extend_byte_mask() == 0, "a partial 8/16-bit write does not extend");
    }
  }
  bool same_io = true; for (uint32_t k = 1; k < nforms; k++) if (forms[k].flags_read != f0.flags_read || forms[k].flags_written != f0.flags_written) same_io = false;
  if (same_io) {
    V_ASSERT(uint32_t(rw.read_flags()) == f0.flags_read, "CPU flags read equal the database io field");
    V_ASSERT(uint32_t(rw.write_flags()) == f0.flags_written, "CPU flags written equal the database io field");
  }
  V_WITNESS("rw-checked");
}
}  // namespace vf

// C01 compiles the generated harnesses as encoding checks; C13 (VF_AGREE), C16 (VF_LOGINDEP) and C12 (VF_RW) reuse the
// family with other runners. SPLIT selects the operand region when a known finding is open (see run_forms).
#if defined(VF_RW)
#define VF_RUN(X64, TAB, CNT, SPLIT) vf::run_rw<X64>(TAB, CNT, SPLIT)
#elif defined(VF_LOGINDEP)
#define VF_RUN(X64, TAB, CNT, SPLIT) vf::run_logindep<X64>(TAB, CNT, SPLIT)
#elif defined(VF_AGREE)
#define VF_RUN(X64, TAB, CNT, SPLIT) vf::run_agree<X64>(TAB, CNT, SPLIT)
#else
#define VF_C01 1
#define VF_RUN(X64, TAB, CNT, SPLIT) vf::run_forms<X64>(TAB, CNT, SPLIT)
#endif
