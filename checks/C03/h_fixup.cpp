// C03/H1-H2 — fixup algebra: CodeHolder::bind_label and CodeHolder::resolve_cross_section_fixups, one step from an arbitrary
// pre-state: a label with up to 3 pending fixups (symbolic section, position, addend, format drawn from the formats the back
// ends create, optionally carrying a relocation), a non-empty list of older cross-section fixups and a non-empty fixup pool.
// Oracle: the patched field, decoded the way the CPU decodes it, designates bound position + addend; what cannot be
// represented stays pending and is reported.
#include "ch_env.h"
using namespace asmjit;
using namespace chenv;

enum Kind : uint32_t { kS1, kS4, kA26, kA19, kA14, kAdr, kAdrp, kU1, kU2, kU4, kU8, kKindCount };

static void make_format(OffsetFormat& f, uint32_t kind) {
  switch (kind) {
    case kS1: f.reset_to_simple_value(OffsetType::kSignedOffset, 1); break;      // x86 jmp/jcc short, jecxz, loop
    case kS4: f.reset_to_simple_value(OffsetType::kSignedOffset, 4); break;      // x86 rel32, [rip+label]
    case kA26: f.reset_to_imm_value(OffsetType::kSignedOffset, 4, 0, 26, 2); break;  // a64 b/bl
    case kA19: f.reset_to_imm_value(OffsetType::kSignedOffset, 4, 5, 19, 2); break;  // a64 b.cond/cbz/ldr literal
    case kA14: f.reset_to_imm_value(OffsetType::kSignedOffset, 4, 5, 14, 2); break;  // a64 tbz
    case kAdr: f.reset_to_imm_value(OffsetType::kAArch64_ADR, 4, 5, 21, 0); break;
    case kAdrp: f.reset_to_imm_value(OffsetType::kAArch64_ADRP, 4, 5, 21, 0); f._imm_discard_lsb = 12; break;
    case kU1: f.reset_to_simple_value(OffsetType::kUnsignedOffset, 1); break;    // embed_label
    case kU2: f.reset_to_simple_value(OffsetType::kUnsignedOffset, 2); break;
    case kU4: f.reset_to_simple_value(OffsetType::kUnsignedOffset, 4); break;
    default: f.reset_to_simple_value(OffsetType::kUnsignedOffset, 8); break;
  }
}
static uint32_t value_size_of(uint32_t kind) { return kind == kS1 || kind == kU1 ? 1 : kind == kU2 ? 2 : kind == kU8 ? 8 : 4; }
static uint64_t field_mask_of(uint32_t kind) {
  switch (kind) {
    case kS1: case kU1: return 0xFF; case kU2: return 0xFFFF; case kS4: case kU4: return 0xFFFFFFFFull; case kU8: return ~0ull;
    case kA26: return 0x3FFFFFFull; case kA19: return 0x7FFFFull << 5; case kA14: return 0x3FFFull << 5;
    default: return (3ull << 29) | (0x7FFFFull << 5);
  }
}
template<uint32_t BITS> static inline int64_t sx(uint64_t v) { return int64_t(v << (64 - BITS)) >> (64 - BITS); }
// the displacement the CPU reads out of the patched word
static int64_t decode_field(uint32_t kind, uint64_t w) {
  switch (kind) {
    case kS1: return sx<8>(w); case kS4: return sx<32>(w);
    case kA26: return sx<26>(w & 0x3FFFFFF) * 4; case kA19: return sx<19>((w >> 5) & 0x7FFFF) * 4; case kA14: return sx<14>((w >> 5) & 0x3FFF) * 4;
    case kAdr: return sx<21>((((w >> 5) & 0x7FFFF) << 2) | ((w >> 29) & 3));
    case kAdrp: return sx<21>((((w >> 5) & 0x7FFFF) << 2) | ((w >> 29) & 3)) * 4096;
    case kU1: case kU2: case kU4: return int64_t(w);
    default: return int64_t(w);
  }
}
static bool representable(uint32_t kind, int64_t d) {
  switch (kind) {
    case kS1: return d >= -128 && d <= 127; case kS4: return d >= INT32_MIN && d <= INT32_MAX;
    case kA26: return (d & 3) == 0 && d >= -(1ll << 27) && d < (1ll << 27);
    case kA19: return (d & 3) == 0 && d >= -(1ll << 20) && d < (1ll << 20);
    case kA14: return (d & 3) == 0 && d >= -(1ll << 15) && d < (1ll << 15);
    case kAdr: return d >= -(1ll << 20) && d < (1ll << 20);
    case kAdrp: return (d & 4095) == 0 && d >= -(1ll << 32) && d < (1ll << 32);
    case kU1: return d >= 0 && d <= 0xFF; case kU2: return d >= 0 && d <= 0xFFFF; case kU4: return d >= 0 && d <= 0xFFFFFFFFll;
    default: return true;
  }
}

static Fixup fx[3];      // fixups of the label, linked fx[0] -> fx[1] -> fx[2]
static Fixup older;      // an older cross-section fixup already in CodeHolder::_fixups
static Fixup pooled;     // a released fixup sitting in the pool
static uint8_t before[2][kBufCap];
struct Site { uint32_t kind, sid, off, vs; int64_t rel; bool has_reloc; uint64_t w0, payload0; };
static Site site[3];

// fixup i lives in its own 8-byte window [8i, 8i+8) of its section (reference sites of a program never overlap)
static void symbolic_fixup(uint32_t i, bool allow_reloc) {
  Site& s = site[i];
  uint32_t kind = nondet_u8() % kKindCount;
  s.has_reloc = allow_reloc && nondet_bool();
  // plain fixups: branch / pc-relative formats; relocation-carrying fixups: embed_label (unsigned data) and the x86-32 [label] form (rel32 shape)
  if (!s.has_reloc && kind >= kU1) kind = kS4;
  if (s.has_reloc && kind < kU1 && kind != kS4) kind = kU4;
  s.kind = kind; s.vs = value_size_of(kind);
  s.sid = nondet_bool() ? 1 : 0;
  uint32_t d = nondet_u8() & 7; if (d > 8 - s.vs) d = 0;
  s.off = 8 * i + d;
  s.rel = int64_t(nondet_u64());
  Fixup& f = fx[i];
  f.section_id = s.sid; f.offset = s.off; f.rel = intptr_t(s.rel); make_format(f.format, kind);
  f.label_or_reloc_id = Globals::kInvalidId;
  if (s.has_reloc) {
    RelocEntry* re = add_reloc(RelocType::kRelToAbs);
    re->_source_section_id = s.sid; re->_source_offset = s.off; re->_format = f.format; re->_payload = nondet_u64();
    f.label_or_reloc_id = re->_id; s.payload0 = re->_payload;
  }
  // zero placeholder in the field bits
  uint8_t* word = sbuf[s.sid] + s.off;
  uint64_t w0 = load_le(word, s.vs) & ~field_mask_of(kind);
  for (uint32_t b = 0; b < 8; b++) if (b < s.vs) word[b] = uint8_t(w0 >> (8 * b));
  s.w0 = w0;
}

static bool in_list(Fixup* head, Fixup* x) { uint32_t n = 0; for (Fixup* p = head; p && n < 6; p = p->next, n++) if (p == x) return true; return false; }
static uint32_t list_len(Fixup* head) { uint32_t n = 0; for (Fixup* p = head; p && n < 7; p = p->next) n++; return n; }

template<uint32_t K, bool INVALID>
static void bind_step() {
  CodeHolder* c = make_holder(nondet_bool() ? Arch::kX64 : Arch::kAArch64, 2);
  sec(0)->_buffer._size = 24; sec(1)->_buffer._size = 24;
  if (INVALID) { for (uint32_t q = 0; q < 6; q++) { uint64_t v = nondet_u64(); memcpy(sbuf[q / 3] + 8 * (q % 3), &v, 8); } }
  else for (uint32_t j = 0; j < 48; j++) sbuf[j / 24][j % 24] = nondet_u8();
  uint32_t label_id = add_label();     // label 0: the one being bound
  add_bound_label(1, 5);               // label 1: some other label (owner of the older cross-section fixup)
  for (uint32_t i = 0; i < 3; i++) if (i < K) symbolic_fixup(i, true);
  for (uint32_t i = 0; i < 3; i++) fx[i].next = (i + 1 < K) ? &fx[i + 1] : nullptr;
  label_tab[label_id]._offset_or_fixups = K ? uint64_t(uintptr_t(&fx[0])) : 0;
  // older pending cross-section fixup (of label 1, sitting in section 0), pool with one released fixup
  bool have_older = nondet_bool(), have_pooled = nondet_bool();
  older.next = nullptr; older.section_id = 0; older.label_or_reloc_id = 1; older.offset = 20; older.rel = -4; make_format(older.format, kS4);
  pooled.next = nullptr;
  c->_fixups = have_older ? &older : nullptr;
  c->_fixup_data_pool._data = have_pooled ? reinterpret_cast<ArenaPool<Fixup>::Link*>(&pooled) : nullptr;
  size_t count0 = size_t(K) + (have_older ? 1 : 0) + (nondet_u8() & 3);  // + pending fixups of other unbound labels
  c->_unresolved_fixup_count = count0;
  memcpy(before[0], sbuf[0], kBufCap); memcpy(before[1], sbuf[1], kBufCap);

  uint32_t to_sid = nondet_bool() ? 1 : 0; uint64_t to_off = nondet_u64();
  if (INVALID) {
    // invalid label id / invalid section id: refused, nothing changes.
    // ids just beyond the tables and the reserved invalid id, each in a call of its own (concrete for the symbolic executor)
    bool bad_label = nondet_bool(); uint32_t sel = nondet_u8() & 3;
    Error err;
    if (bad_label) err = sel == 0 ? c->bind_label(Label(2), to_sid, to_off) : sel == 1 ? c->bind_label(Label(3), to_sid, to_off) : sel == 2 ? c->bind_label(Label(0x80000000u), to_sid, to_off) : c->bind_label(Label(Globals::kInvalidId), to_sid, to_off);
    else err = sel == 0 ? c->bind_label(Label(label_id), 2, to_off) : sel == 1 ? c->bind_label(Label(label_id), 3, to_off) : sel == 2 ? c->bind_label(Label(label_id), 0x80000000u, to_off) : c->bind_label(Label(label_id), Globals::kInvalidId, to_off);
    verif_observe(uint64_t(err));
    V_ASSERT(err == (bad_label ? Error::kInvalidLabel : Error::kInvalidSection), "bind with an invalid label or section id is refused");
    V_ASSERT(!label_tab[label_id].is_bound() && label_tab[label_id]._get_fixups() == (K ? &fx[0] : nullptr) && c->_unresolved_fixup_count == count0, "refused bind leaves label and counters unchanged");
    for (uint32_t q = 0; q < 6; q++) V_ASSERT(load_le(sbuf[q / 3] + 8 * (q % 3), 8) == load_le(before[q / 3] + 8 * (q % 3), 8), "refused bind writes nothing");
    V_ASSERT(c->_fixups == (have_older ? &older : nullptr), "refused bind leaves the pending list unchanged");
    V_WITNESS("bind-refused");
    return;
  }
  Error err = c->bind_label(Label(label_id), to_sid, to_off);
  verif_observe(uint64_t(err)); v_observe_bytes(sbuf[0], 24); v_observe_bytes(sbuf[1], 24);
  V_ASSERT(label_tab[label_id].is_bound() && label_tab[label_id].section_id() == to_sid && label_tab[label_id].offset() == to_off, "label is bound to the given section and offset");

  uint32_t resolved = 0, pending = 0; bool any_unrepresentable = false;
  Fixup* expect_seq[4] = { nullptr, nullptr, nullptr, nullptr };
  for (uint32_t i = 0; i < 3; i++) {
    if (i >= K) continue;
    Site& s = site[i]; Fixup& f = fx[i];
    uint64_t w = load_le(sbuf[s.sid] + s.off, s.vs);
    if (s.has_reloc) {
      // relocation-carrying reference (embed_label, 32-bit [label]): the relocation takes over, the bytes stay placeholders
      uint32_t rid = 0; for (uint32_t q = 0; q < i; q++) if (site[q].has_reloc) rid++;
      RelocEntry* re = &reloc_mem[rid];
      V_ASSERT(re->_payload == s.payload0 + to_off && re->_target_section_id == to_sid, "relocation payload advanced by the bound offset, target section recorded");
      V_ASSERT(w == s.w0, "relocation-carrying reference is not patched at bind time");
      V_ASSERT(!in_list(c->_fixups, &f), "relocation-carrying fixup is consumed");
      resolved++;
    }
    else if (s.sid != to_sid) {
      V_ASSERT(w == s.w0, "cross-section reference is not patched at bind time");
      V_ASSERT(in_list(c->_fixups, &f) && f.label_or_reloc_id == label_id, "cross-section fixup moved to the pending list with the label id");
      V_ASSERT(f.section_id == s.sid && f.offset == s.off && f.rel == intptr_t(s.rel) && f.format._type == (s.kind == kAdr ? OffsetType::kAArch64_ADR : s.kind == kAdrp ? OffsetType::kAArch64_ADRP : OffsetType::kSignedOffset), "cross-section fixup kept intact");
      expect_seq[pending++] = &f;
    }
    else {
      int64_t disp = int64_t(to_off - uint64_t(s.off) + uint64_t(s.rel));
      if (representable(s.kind, disp)) {
        V_ASSERT((w & ~field_mask_of(s.kind)) == s.w0, "bits outside the displacement field untouched");
        V_ASSERT(decode_field(s.kind, w) == disp, "patched field decodes to bound offset - reference offset plus addend");
        V_ASSERT(!in_list(c->_fixups, &f), "resolved fixup is unlinked");
        resolved++;
      }
      else {
        any_unrepresentable = true;
        V_ASSERT(w == s.w0, "unrepresentable displacement: nothing written");
        V_ASSERT(in_list(c->_fixups, &f) && f.label_or_reloc_id == label_id, "unrepresentable displacement: fixup stays pending with the label id");
        expect_seq[pending++] = &f;
      }
    }
  }
  V_ASSERT((err == Error::kOk) == !any_unrepresentable, "bind reports an error iff some same-section displacement is not representable");
  if (any_unrepresentable) V_ASSERT(err == Error::kInvalidDisplacement, "unrepresentable displacement is kInvalidDisplacement");
  V_ASSERT(c->_unresolved_fixup_count == count0 - resolved, "unresolved count decreased by exactly the number of resolved fixups");
  // pending list = this label's unresolved fixups in order, followed by the older list; terminated
  if (have_older) expect_seq[pending] = &older;
  Fixup* p = c->_fixups;
  for (uint32_t q = 0; q < 4; q++) { V_ASSERT(p == expect_seq[q], "pending list is the unresolved fixups of this label followed by the older ones"); if (p) p = p->next; }
  V_ASSERT(p == nullptr, "pending list is terminated");
  V_ASSERT(list_len(reinterpret_cast<Fixup*>(c->_fixup_data_pool._data)) == resolved + (have_pooled ? 1 : 0), "every resolved fixup went back to the pool exactly once");
  // bytes outside the patched words
  for (uint32_t j = 0; j < 48; j++) {
    uint32_t sidx = j / 24, k = j % 24; bool in_word = false;
    for (uint32_t i = 0; i < 3; i++) if (i < K && site[i].sid == sidx && k >= site[i].off && k < site[i].off + site[i].vs) in_word = true;
    if (!in_word) V_ASSERT(sbuf[sidx][k] == before[sidx][k], "bytes outside the referenced words untouched");
  }
  if (any_unrepresentable) V_WITNESS("bind-unrepresentable"); else if (pending) V_WITNESS("bind-cross-section-pending"); else V_WITNESS("bind-all-resolved");
}
HARNESS h_bind_0() { bind_step<0, false>(); }
HARNESS h_bind_1() { bind_step<1, false>(); }
HARNESS h_bind_2() { bind_step<2, false>(); }
HARNESS h_bind_3() { bind_step<3, false>(); }
HARNESS h_bind_invalid() { bind_step<2, true>(); }

// Binding twice is refused and changes nothing.
HARNESS h_bind_twice() {
  CodeHolder* c = make_holder(Arch::kX64, 2);
  uint32_t id = add_bound_label(nondet_bool() ? 1 : 0, nondet_u64());
  uint64_t off0 = label_tab[id]._offset_or_fixups; uint32_t sid0 = label_tab[id].section_id();
  Error err = c->bind_label(Label(id), nondet_u8() & 1, nondet_u64());
  V_ASSERT(err == Error::kLabelAlreadyBound, "a label can be bound only once");
  V_ASSERT(label_tab[id]._offset_or_fixups == off0 && label_tab[id].section_id() == sid0, "second bind leaves the first binding");
  V_WITNESS("bind-twice-refused");
}

// ---------------------------------------------------------------------------------------------------------------------
// H2: resolve_cross_section_fixups from an arbitrary pending list of K <= 3 fixups referring to two bound labels; section
// offsets (after flatten) and label offsets full 64-bit, so the overflow paths of offset + label are inside.
template<uint32_t K>
static void resolve_step() {
  CodeHolder* c = make_holder(nondet_bool() ? Arch::kX64 : Arch::kAArch64, 2);
  sec(0)->_buffer._size = 24; sec(1)->_buffer._size = 24;
  sec(0)->_offset = nondet_u64(); sec(1)->_offset = nondet_u64();
  for (uint32_t j = 0; j < 48; j++) sbuf[j / 24][j % 24] = nondet_u8();
  uint32_t lsid[2]; uint64_t loff[2];
  for (uint32_t l = 0; l < 2; l++) { lsid[l] = nondet_bool() ? 1 : 0; loff[l] = nondet_u64(); add_bound_label(lsid[l], loff[l]); }
  uint32_t owner[3] = { 0, 0, 0 };
  for (uint32_t i = 0; i < 3; i++) if (i < K) { symbolic_fixup(i, false); owner[i] = nondet_bool() ? 1 : 0; fx[i].label_or_reloc_id = owner[i]; }
  for (uint32_t i = 0; i < 3; i++) fx[i].next = (i + 1 < K) ? &fx[i + 1] : nullptr;
  c->_fixups = K ? &fx[0] : nullptr;
  size_t extra = nondet_u8() & 3;   // fixups of still unbound labels
  size_t count0 = K + extra;
  c->_unresolved_fixup_count = count0;
  memcpy(before[0], sbuf[0], kBufCap); memcpy(before[1], sbuf[1], kBufCap);

  Error err = c->resolve_cross_section_fixups();
  verif_observe(uint64_t(err)); v_observe_bytes(sbuf[0], 24); v_observe_bytes(sbuf[1], 24);

  uint32_t resolved = 0, pending = 0; bool any_overflow = false;
  Fixup* expect_seq[4] = { nullptr, nullptr, nullptr, nullptr };
  for (uint32_t i = 0; i < 3; i++) {
    if (i >= K) continue;
    Site& s = site[i]; Fixup& f = fx[i];
    uint64_t w = load_le(sbuf[s.sid] + s.off, s.vs);
    uint64_t to_sec = sec(lsid[owner[i]])->_offset, lo = loff[owner[i]], from_sec = sec(s.sid)->_offset;
    bool overflow = to_sec > UINT64_MAX - lo || from_sec > UINT64_MAX - s.off;
    int64_t disp = int64_t((to_sec + lo) - (from_sec + s.off) + uint64_t(s.rel));
    if (!overflow && representable(s.kind, disp)) {
      V_ASSERT((w & ~field_mask_of(s.kind)) == s.w0, "resolve: bits outside the displacement field untouched");
      V_ASSERT(decode_field(s.kind, w) == disp, "resolve: patched field decodes to (section plus label) - (section plus reference) plus addend");
      V_ASSERT(!in_list(c->_fixups, &f), "resolve: resolved fixup is unlinked");
      resolved++;
    }
    else {
      if (overflow) any_overflow = true;
      V_ASSERT(w == s.w0, "resolve: unrepresentable or overflowing displacement writes nothing");
      V_ASSERT(in_list(c->_fixups, &f), "resolve: unrepresentable reference stays pending");
      expect_seq[pending++] = &f;
    }
  }
  V_ASSERT(c->_unresolved_fixup_count == count0 - resolved, "resolve: unresolved count decreased by exactly the number of resolved fixups");
  V_ASSERT((c->_unresolved_fixup_count == 0) == (pending == 0 && extra == 0), "resolve: reported count is zero exactly when no reference remains");
  if (any_overflow) V_ASSERT(err == Error::kInvalidDisplacement, "resolve: position overflow is reported as kInvalidDisplacement");
  else V_ASSERT(err == Error::kOk, "resolve: no error without overflow (out-of-range references stay counted as unresolved)");
  Fixup* p = c->_fixups;
  for (uint32_t q = 0; q < 4; q++) { V_ASSERT(p == expect_seq[q], "resolve: pending list keeps the unresolved fixups in order"); if (p) p = p->next; }
  for (uint32_t j = 0; j < 48; j++) {
    uint32_t sidx = j / 24, k = j % 24; bool in_word = false;
    for (uint32_t i = 0; i < 3; i++) if (i < K && site[i].sid == sidx && k >= site[i].off && k < site[i].off + site[i].vs) in_word = true;
    if (!in_word) V_ASSERT(sbuf[sidx][k] == before[sidx][k], "resolve: bytes outside the referenced words untouched");
  }
  if (K == 0) V_WITNESS("resolve-nothing-pending"); else if (pending) V_WITNESS("resolve-some-pending"); else V_WITNESS("resolve-all-resolved");
}
HARNESS h_resolve_0() { resolve_step<0>(); }
HARNESS h_resolve_1() { resolve_step<1>(); }
HARNESS h_resolve_2() { resolve_step<2>(); }
HARNESS h_resolve_3() { resolve_step<3>(); }
