// C03/H4 — label address data and label-difference data: BaseAssembler::embed_label / embed_label_delta (sizes 1/2/4/8, 0 =
// register size, invalid sizes), composed with bind_label and relocate_to_base, and CodeHolder_evaluate_expression for
// expressions of depth <= 2. Oracle: after binding and relocation the emitted field holds the address / the difference, or the
// API reported that it cannot.
#include "ch_env.h"
#include <asmjit/core/assembler.h>
using namespace asmjit;
using namespace chenv;

// An assembler attached "by construction" to section `sid` at position `pos` (typed storage, no constructor run).
union AsmBox { BaseAssembler a; AsmBox() noexcept {} ~AsmBox() noexcept {} };
static AsmBox abox;
static int reports;
// 96 bytes: RelocEntry + Fixup / Expression. Small enough for CBMC to track every byte separately (spec: --max-field-sensitivity-array-size 128),
// so what new_reloc_entry / new_fixup write (relocation type, list links) stays concrete for the symbolic executor.
alignas(16) static uint8_t arena_bytes[96];

static BaseAssembler* make_asm(CodeHolder* c, uint32_t sid, uint32_t pos) {
  BaseAssembler* a = &abox.a;
#if !defined(VERIF_CBMC)
  memset(static_cast<void*>(&abox), 0, sizeof(abox));
#endif
  a->_code = c; a->_section = sec(sid); a->_environment = c->_environment; a->_logger = nullptr; a->_error_handler = nullptr;
  a->_emitter_flags = EmitterFlags::kNone; a->_inline_comment = nullptr;
  a->_buffer_data = sbuf[sid]; a->_buffer_ptr = sbuf[sid] + pos; a->_buffer_end = sbuf[sid] + kBufCap;
  sec(sid)->_buffer._size = pos;
  reports = 0;
  memset(arena_bytes, 0xA5, sizeof(arena_bytes)); set_arena(arena_bytes, sizeof(arena_bytes));
  return a;
}
ASMJIT_BEGIN_NAMESPACE
// emitter.cpp is not linked: the failure path without an error handler, and the one-line validity test, restated.
Error BaseEmitter::_report_error(Error err, const char*) { reports++; return err; }
bool BaseEmitter::is_label_valid(uint32_t label_id) const noexcept { return _code && label_id < _code->label_count(); }
ASMJIT_END_NAMESPACE

// 0: architecture chosen symbolically inside the flow; 1 / 2: fixed x86-32 / x86-64 (data size 0 = register size needs a concrete one)
static int arch_sel;
static inline bool pick_x64() { return arch_sel == 0 ? nondet_bool() : arch_sel == 2; }

template<uint32_t BITS> static inline int64_t sx(uint64_t v) { return BITS >= 64 ? int64_t(v) : int64_t(v << (64 - BITS)) >> (64 - BITS); }
template<uint32_t BITS> static inline uint64_t zx(uint64_t v) { return BITS >= 64 ? v : v & ((1ull << (BITS & 63)) - 1); }

static void symbolic_buffers() { for (uint32_t j = 0; j < 32; j++) { sbuf[0][j] = nondet_u8(); sbuf[1][j] = nondet_u8(); } }

// ---------------------------------------------------------------------------------------------------------------------
// embed_label(label, DS) -> [bind_label] -> relocate_to_base(base): the DS-byte field holds base + section offset + label offset.
// SID (emitting section) and BOUND (label bound before the reference) are concrete per instantiation and chosen by a symbolic
// branch in the harness: a symbolic flag would leave the symbolic executor with a fixup chain / cursor it cannot resolve.
template<uint32_t DS, uint32_t SID, bool BOUND>
static void embed_label_flow_s() {
  bool x64 = pick_x64();
  CodeHolder* c = make_holder(x64 ? Arch::kX64 : Arch::kX86, 2);
  symbolic_buffers();
  constexpr uint32_t pos = 4;
  constexpr uint32_t sid = SID;   // concrete per instantiation: a symbolic emitting section makes the cursor arithmetic symbolic
  BaseAssembler* a = make_asm(c, sid, pos);
  constexpr bool bound = BOUND;
  uint32_t lsid = nondet_bool() ? 1 : 0; uint64_t loff = nondet_u64();
  uint32_t id = bound ? add_bound_label(lsid, loff) : add_label();
  uint8_t guard_before = sbuf[sid][pos - 1];

  Error err = a->BaseAssembler::embed_label(Label(id), DS);
  verif_observe(uint64_t(err)); v_observe_bytes(sbuf[sid], 16);
  constexpr bool valid = DS == 0 || DS == 1 || DS == 2 || DS == 4 || DS == 8;
  const uint32_t size = DS ? DS : (x64 ? 8 : 4);
  size_t emitted = size_t(a->_buffer_ptr - sbuf[sid]) - pos;
  if (!valid) {
    V_ASSERT(err == Error::kInvalidOperandSize && reports == 1, "embed_label with a size that is not 1, 2, 4 or 8 is refused and reported");
    V_ASSERT(emitted == 0 && c->_relocations._size == 0 && c->_unresolved_fixup_count == 0 && sec(sid)->_buffer._size == pos, "refused embed_label leaves buffer, relocations and fixups unchanged");
    V_WITNESS_MARK(0);
    return;
  }
  V_ASSERT(err == Error::kOk, "embed_label of a valid label and size succeeds");
  V_ASSERT(emitted == size && sec(sid)->_buffer._size == pos + size, "embed_label appends exactly data_size bytes");
  for (uint32_t i = 0; i < 8; i++) if (i < size) V_ASSERT(sbuf[sid][pos + i] == 0, "embed_label emits a zero placeholder");
  V_ASSERT(sbuf[sid][pos - 1] == guard_before, "embed_label does not touch the byte in front of the cursor");
  V_ASSERT(c->_relocations._size == 1, "embed_label records one relocation");
  V_ASSERT(c->_unresolved_fixup_count == (bound ? 0u : 1u), "an unbound label leaves exactly one unresolved reference");

  // the label is bound later, anywhere
  if (!bound) {
    lsid = nondet_bool() ? 1 : 0; loff = nondet_u64();
    Error berr = c->bind_label(Label(id), lsid, loff);
    V_ASSERT(berr == Error::kOk, "binding the referenced label succeeds");
    V_ASSERT(c->_unresolved_fixup_count == 0 && c->_fixups == nullptr, "no unresolved reference remains after the bind");
  }
  sec(0)->_offset = nondet_u64(); sec(1)->_offset = nondet_u64();   // layout after flatten()
  uint64_t base = nondet_u64(); V_ASSUME(base != Globals::kNoBaseAddress);
  Error rerr = c->relocate_to_base(base, nullptr);
  verif_observe(uint64_t(rerr)); v_observe_bytes(sbuf[sid], 16);
  uint64_t want = base + sec(lsid)->_offset + loff;
  uint64_t field = load_le(sbuf[sid] + pos, size);
  bool fits = size == 8 || want < (1ull << (8 * (size & 7)));
  V_ASSERT((rerr == Error::kOk) == fits, "label address is accepted iff it fits the data size (never truncated)");
  if (rerr == Error::kOk) { V_ASSERT(field == want, "embedded label address is base plus section offset plus label offset"); V_WITNESS_MARK(1); }
  else { V_ASSERT(field == 0, "refused label address leaves the placeholder"); if (DS != 8 && DS != 0) V_WITNESS_MARK(2); }
}
template<uint32_t DS> static void embed_label_flow() {
  uint32_t sel = nondet_u8() & 3;
  if (sel == 0) embed_label_flow_s<DS, 0, false>(); else if (sel == 1) embed_label_flow_s<DS, 0, true>();
  else if (sel == 2) embed_label_flow_s<DS, 1, false>(); else embed_label_flow_s<DS, 1, true>();
}
HARNESS h_embed_label_0() { chenv::wit_mask = 0;  if (nondet_bool()) { arch_sel = 2; embed_label_flow<0>(); } else { arch_sel = 1; embed_label_flow<0>(); } V_WITNESS_EMIT(1, "embed-label-address"); }
HARNESS h_embed_label_1() { chenv::wit_mask = 0;  arch_sel = 0; embed_label_flow<1>(); V_WITNESS_EMIT(1, "embed-label-address"); V_WITNESS_EMIT(2, "embed-label-address-refused"); }
HARNESS h_embed_label_2() { chenv::wit_mask = 0;  arch_sel = 0; embed_label_flow<2>(); V_WITNESS_EMIT(1, "embed-label-address"); V_WITNESS_EMIT(2, "embed-label-address-refused"); }
HARNESS h_embed_label_4() { chenv::wit_mask = 0;  arch_sel = 0; embed_label_flow<4>(); V_WITNESS_EMIT(1, "embed-label-address"); V_WITNESS_EMIT(2, "embed-label-address-refused"); }
HARNESS h_embed_label_8() { chenv::wit_mask = 0;  arch_sel = 0; embed_label_flow<8>(); V_WITNESS_EMIT(1, "embed-label-address"); }
HARNESS h_embed_label_3() { chenv::wit_mask = 0;  arch_sel = 0; embed_label_flow<3>(); V_WITNESS_EMIT(0, "embed-label-invalid-size"); }
HARNESS h_embed_label_16() { chenv::wit_mask = 0;  arch_sel = 0; embed_label_flow<16>(); V_WITNESS_EMIT(0, "embed-label-invalid-size"); }
// embed_label with a label id outside the table: refused.
HARNESS h_embed_label_invalid() {
  CodeHolder* c = make_holder(Arch::kX64, 2);
  BaseAssembler* a = make_asm(c, 0, 4);
  add_label();
  uint32_t bad = nondet_u32(); V_ASSUME(bad >= 1);
  Error err = a->BaseAssembler::embed_label(Label(bad), 1u << (nondet_u8() & 3));
  V_ASSERT(err == Error::kInvalidLabel && reports == 1, "embed_label of an invalid label id is refused and reported");
  V_ASSERT(a->_buffer_ptr == sbuf[0] + 4 && c->_relocations._size == 0, "refused embed_label appends nothing");
  Error err2 = a->BaseAssembler::embed_label_delta(Label(0), Label(bad), 4);
  V_ASSERT(err2 == Error::kInvalidLabel && a->_buffer_ptr == sbuf[0] + 4, "embed_label_delta with an invalid label id is refused");
  V_WITNESS("embed-invalid-label");
}

// ---------------------------------------------------------------------------------------------------------------------
#if KF_C03a
#define DELTA_KF_WITNESS   /* region excluded from the main harnesses while the finding is open */
#else
#define DELTA_KF_WITNESS V_WITNESS_EMIT(8, "embed-delta-unrepresentable-reported");
#endif
// embed_label_delta(label, base, DS) -> [bind either] -> relocate_to_base: the field holds (section + label) - (section + base label).
// mode 0: main harness (region of known finding C03a excluded while it is open); mode 1: confined to that region.
// SA/SB: sections the labels are bound to before the reference (ignored for a label bound afterwards); concrete, because
// "same section" decides whether a relocation is recorded at all.
template<uint32_t DS, uint32_t SID, bool BOUND_A, bool BOUND_B, uint32_t SA, uint32_t SB>
static void embed_delta_flow_s(int mode) {
  bool x64 = pick_x64();
  CodeHolder* c = make_holder(x64 ? Arch::kX64 : Arch::kX86, 2);
  symbolic_buffers();
  constexpr uint32_t pos = 8;
  constexpr uint32_t sid = SID;
  BaseAssembler* a = make_asm(c, sid, pos);
  constexpr bool bound_a = BOUND_A, bound_b = BOUND_B;
  uint32_t sa = SA, sb = SB; uint64_t oa = nondet_u64(), ob = nondet_u64();
  uint32_t la = bound_a ? add_bound_label(sa, oa) : add_label();
  uint32_t lb = bound_b ? add_bound_label(sb, ob) : add_label();
  const uint32_t size = DS ? DS : (x64 ? 8 : 4);
  // known finding C03a: both labels already bound to the same section: the difference is emitted directly, truncated to DS bytes
  bool direct = bound_a && bound_b && sa == sb;
  uint64_t d0 = oa - ob;
  bool kf = direct && size < 8 && sx<64>(d0) != (size == 1 ? sx<8>(d0) : size == 2 ? sx<16>(d0) : sx<32>(d0)) && d0 != (size == 1 ? zx<8>(d0) : size == 2 ? zx<16>(d0) : zx<32>(d0));
  if (mode == 0) {
#if KF_C03a
    V_ASSUME(!kf);
#endif
  }
  else V_ASSUME(kf);

  Error err = a->BaseAssembler::embed_label_delta(Label(la), Label(lb), DS);
  verif_observe(uint64_t(err)); v_observe_bytes(sbuf[sid], 24);
  if (kf) {
    // both labels bound to one section and the difference fits the field neither as a signed nor as an unsigned value: it cannot
    // be represented, so it must be reported (and nothing appended) - this is the assertion known finding C03a fails
    V_ASSERT(err != Error::kOk && reports == 1 && size_t(a->_buffer_ptr - sbuf[sid]) == pos && sec(sid)->_buffer._size == pos && c->_relocations._size == 0,
             "label difference emitted directly is not truncated");
    V_WITNESS_MARK(8);
    return;
  }
  V_ASSERT(err == Error::kOk, "embed_label_delta of valid labels and size succeeds");
  V_ASSERT(size_t(a->_buffer_ptr - sbuf[sid]) == pos + size && sec(sid)->_buffer._size == pos + size, "embed_label_delta appends exactly data_size bytes");
  V_ASSERT(c->_relocations._size == (direct ? 0u : 1u), "a relocation is recorded unless both labels are bound to one section");
  if (!bound_a) { sa = nondet_bool() ? 1 : 0; oa = nondet_u64(); V_ASSERT(c->bind_label(Label(la), sa, oa) == Error::kOk, "binding the label succeeds"); }
  if (!bound_b) { sb = nondet_bool() ? 1 : 0; ob = nondet_u64(); V_ASSERT(c->bind_label(Label(lb), sb, ob) == Error::kOk, "binding the base label succeeds"); }
  sec(0)->_offset = nondet_u64(); sec(1)->_offset = nondet_u64();
  uint64_t base = nondet_u64(); V_ASSUME(base != Globals::kNoBaseAddress);
  Error rerr = c->relocate_to_base(base, nullptr);
  verif_observe(uint64_t(rerr)); v_observe_bytes(sbuf[sid], 24);
  uint64_t delta = (sec(sa)->_offset + oa) - (sec(sb)->_offset + ob);
  uint64_t field = load_le(sbuf[sid] + pos, size);
  int64_t as_signed = size == 1 ? sx<8>(field) : size == 2 ? sx<16>(field) : size == 4 ? sx<32>(field) : int64_t(field);
  if (direct) {
    V_ASSERT(rerr == Error::kOk, "nothing to relocate for a directly emitted difference");
    // the weakest reading of "not silently truncated": the field, sign- or zero-extended, is the difference
    V_ASSERT(uint64_t(as_signed) == delta || field == delta, "label difference emitted directly is not truncated");
    V_WITNESS_MARK(3);
  }
  else if (rerr == Error::kOk) {
    V_ASSERT(uint64_t(as_signed) == delta, "label difference field holds (section plus label) - (section plus base label)");
    V_WITNESS_MARK(4);
  }
  else {
    V_ASSERT(uint64_t(as_signed) != delta || field == 0, "refused label difference leaves the placeholder");
    V_ASSERT(size < 8 && int64_t(delta) != (size == 1 ? sx<8>(delta) : size == 2 ? sx<16>(delta) : sx<32>(delta)), "label difference is refused only when it does not fit the signed field");
    if (DS == 1 || DS == 2 || DS == 4) V_WITNESS_MARK(5);
  }
}
template<uint32_t DS> static void embed_delta_flow(int mode) {
  uint32_t sel = nondet_u8() % 9;
  if (mode == 1) {  // the finding needs both labels bound to one section
    if (sel & 1) embed_delta_flow_s<DS, 0, true, true, 0, 0>(1); else embed_delta_flow_s<DS, 1, true, true, 1, 1>(1);
    return;
  }
  switch (sel) {
    case 0: embed_delta_flow_s<DS, 0, false, false, 0, 0>(0); break;
    case 1: embed_delta_flow_s<DS, 1, false, true, 0, 0>(0); break;
    case 2: embed_delta_flow_s<DS, 0, false, true, 0, 1>(0); break;
    case 3: embed_delta_flow_s<DS, 1, true, false, 0, 0>(0); break;
    case 4: embed_delta_flow_s<DS, 0, true, false, 1, 0>(0); break;
    case 5: embed_delta_flow_s<DS, 0, true, true, 0, 0>(0); break;
    case 6: embed_delta_flow_s<DS, 1, true, true, 1, 1>(0); break;
    case 7: embed_delta_flow_s<DS, 0, true, true, 0, 1>(0); break;
    default: embed_delta_flow_s<DS, 1, true, true, 1, 0>(0); break;
  }
}
HARNESS h_embed_delta_0() { chenv::wit_mask = 0;  if (nondet_bool()) { arch_sel = 2; embed_delta_flow<0>(0); } else { arch_sel = 1; embed_delta_flow<0>(0); } V_WITNESS_EMIT(3, "embed-delta-direct"); V_WITNESS_EMIT(4, "embed-delta-relocated"); DELTA_KF_WITNESS }
HARNESS h_embed_delta_1() { chenv::wit_mask = 0;  arch_sel = 0; embed_delta_flow<1>(0); V_WITNESS_EMIT(3, "embed-delta-direct"); V_WITNESS_EMIT(4, "embed-delta-relocated"); V_WITNESS_EMIT(5, "embed-delta-refused"); DELTA_KF_WITNESS }
HARNESS h_embed_delta_2() { chenv::wit_mask = 0;  arch_sel = 0; embed_delta_flow<2>(0); V_WITNESS_EMIT(3, "embed-delta-direct"); V_WITNESS_EMIT(4, "embed-delta-relocated"); V_WITNESS_EMIT(5, "embed-delta-refused"); DELTA_KF_WITNESS }
HARNESS h_embed_delta_4() { chenv::wit_mask = 0;  arch_sel = 0; embed_delta_flow<4>(0); V_WITNESS_EMIT(3, "embed-delta-direct"); V_WITNESS_EMIT(4, "embed-delta-relocated"); V_WITNESS_EMIT(5, "embed-delta-refused"); DELTA_KF_WITNESS }
HARNESS h_embed_delta_8() { chenv::wit_mask = 0;  arch_sel = 0; embed_delta_flow<8>(0); V_WITNESS_EMIT(3, "embed-delta-direct"); V_WITNESS_EMIT(4, "embed-delta-relocated"); }
HARNESS h_embed_delta_1_kf_C03a() { chenv::wit_mask = 0;  arch_sel = 0; embed_delta_flow<1>(1); V_WITNESS_EMIT(8, "embed-delta-unrepresentable-reported"); }
HARNESS h_embed_delta_4_kf_C03a() { chenv::wit_mask = 0;  arch_sel = 0; embed_delta_flow<4>(1); V_WITNESS_EMIT(8, "embed-delta-unrepresentable-reported"); }
// ---------------------------------------------------------------------------------------------------------------------
// CodeHolder_evaluate_expression through an Expression relocation with an 8-byte field: every operator, operands constant /
// label / nested expression (depth 2). The expression shape is fixed per instantiation (the evaluator is recursive).
static Expression ex_outer, ex_inner;
static uint64_t ref_op(uint32_t op, uint64_t a, uint64_t b) {
  switch (op) {
    case 0: return a + b; case 1: return a - b; case 2: return a * b;
    case 3: return b > 63 ? 0 : a << (b & 63); case 4: return b > 63 ? 0 : a >> (b & 63);
    default: return uint64_t(int64_t(a) >> (b > 63 ? 63 : (b & 63)));
  }
}
// SHAPE 0: (const op const); 1: (label op const); 2: ((label op2 const) op const); 3: (const op (const op2 label))
template<uint32_t SHAPE, uint32_t OP2>
static void expression_eval_i() {
  CodeHolder* c = make_holder(Arch::kX64, 2);
  sec(0)->_offset = nondet_u64(); sec(1)->_offset = nondet_u64(); sec(0)->_buffer._size = 16; sec(1)->_buffer._size = 16;
  uint32_t lsid = nondet_bool() ? 1 : 0; uint64_t loff = nondet_u64();
  uint32_t id = add_bound_label(lsid, loff);
  uint64_t lv = sec(lsid)->_offset + loff;
  uint32_t op = nondet_u8() % 7; constexpr uint32_t op2 = OP2;   // op == 6: invalid operator; inner operator concrete per instantiation
  if (SHAPE >= 2 && op == 2) op = 0;   // depth 2: no multiplication (two chained multipliers against two reference multipliers do not finish); depth 1 covers it
  uint64_t k1 = nondet_u64(), k2 = nondet_u64();
  // a multiplier circuit against a second multiplier circuit is beyond SAT at 64x64 bits: the constant factor is 8 bits wide
  if (op == 2) k2 &= 0xFF;
  if (op2 == 2) k1 &= 0xFF;
  // (field-wise initialisation: Expression::reset() is a memset over a typed object, dear for the solver and opaque for constant propagation)
  for (uint32_t i = 0; i < 2; i++) { ex_outer.value_type[i] = ExpressionValueType::kNone; ex_inner.value_type[i] = ExpressionValueType::kNone; ex_outer.value[i].constant = 0; ex_inner.value[i].constant = 0; }
  for (uint32_t i = 0; i < 5; i++) { ex_outer.reserved[i] = 0; ex_inner.reserved[i] = 0; }
  ex_outer.op_type = ExpressionOpType(op); ex_inner.op_type = ExpressionOpType(op2);
  uint64_t want;
  if (SHAPE == 0) { ex_outer.set_value_as_constant(0, k1); ex_outer.set_value_as_constant(1, k2); want = ref_op(op, k1, k2); }
  else if (SHAPE == 1) { ex_outer.set_value_as_label_id(0, id); ex_outer.set_value_as_constant(1, k2); want = ref_op(op, lv, k2); }
  else if (SHAPE == 2) {
    ex_inner.set_value_as_label_id(0, id); ex_inner.set_value_as_constant(1, k1);
    ex_outer.set_value_as_expression(0, &ex_inner); ex_outer.set_value_as_constant(1, k2); want = ref_op(op, ref_op(op2, lv, k1), k2);
  }
  else {
    ex_inner.set_value_as_constant(0, k1); ex_inner.set_value_as_label_id(1, id);
    ex_outer.set_value_as_constant(0, k2); ex_outer.set_value_as_expression(1, &ex_inner); want = ref_op(op, k2, ref_op(op2, k1, lv));
  }
  RelocEntry* re = add_reloc(RelocType::kExpression);
  re->_format.reset_to_simple_value(OffsetType::kSignedOffset, 8); re->_source_section_id = 0; re->_source_offset = 8; re->_payload = uint64_t(uintptr_t(&ex_outer));
  for (uint32_t i = 0; i < 16; i++) sbuf[0][i] = 0;
  uint64_t base = nondet_u64(); V_ASSUME(base != Globals::kNoBaseAddress);
  Error err = c->relocate_to_base(base, nullptr);
  uint64_t field = load_le(sbuf[0] + 8, 8);
  verif_observe(uint64_t(err)); verif_observe(field);
  if (op == 6) { V_ASSERT(err == Error::kInvalidState && field == 0, "expression with an unknown operator is refused"); V_WITNESS_MARK(6); return; }
  V_ASSERT(err == Error::kOk && field == want, "expression value is the reference evaluation over label positions");
  V_WITNESS_MARK(7);
}
template<uint32_t SHAPE>
static void expression_eval() {
  if (SHAPE < 2) { expression_eval_i<SHAPE, 0>(); return; }
  switch (nondet_u8() % 6) {
    case 0: expression_eval_i<SHAPE, 0>(); break; case 1: expression_eval_i<SHAPE, 1>(); break; case 2: expression_eval_i<SHAPE, 1>(); break;
    case 3: expression_eval_i<SHAPE, 3>(); break; case 4: expression_eval_i<SHAPE, 4>(); break; default: expression_eval_i<SHAPE, 5>(); break;
  }
}
HARNESS h_expression_cc() { chenv::wit_mask = 0;  expression_eval<0>(); V_WITNESS_EMIT(6, "expression-invalid-operator"); V_WITNESS_EMIT(7, "expression-evaluated"); }
HARNESS h_expression_lc() { chenv::wit_mask = 0;  expression_eval<1>(); V_WITNESS_EMIT(6, "expression-invalid-operator"); V_WITNESS_EMIT(7, "expression-evaluated"); }
HARNESS h_expression_nested_l() { chenv::wit_mask = 0;  expression_eval<2>(); V_WITNESS_EMIT(6, "expression-invalid-operator"); V_WITNESS_EMIT(7, "expression-evaluated"); }
HARNESS h_expression_nested_r() { chenv::wit_mask = 0;  expression_eval<3>(); V_WITNESS_EMIT(6, "expression-invalid-operator"); V_WITNESS_EMIT(7, "expression-evaluated"); }