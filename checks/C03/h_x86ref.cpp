// C03/H3 (x86) — reference sites in the real x86::Assembler::_emit, composed end-to-end with the real CodeHolder:
// jmp / jcc / call / jecxz / loop to a label, RIP-relative [label+disp] with and without trailing immediates (64-bit) and the
// absolute [label+disp] form (32-bit), with the label (a) already bound in this section at a symbolic position, (b) unbound and
// bound afterwards at a symbolic position (bind_label patches the field), (c) bound in another section (new_fixup, then
// resolve_cross_section_fixups after a symbolic layout). Oracle: the emitted bytes are decoded the way the CPU does
// (end of instruction + displacement) and must designate label position + addend, or the API must have reported it cannot.
#include "ch_env.h"
#include <asmjit/x86.h>
#include <asmjit/core/emitterutils_p.h>
#include <asmjit/x86/x86instapi_p.h>
using namespace asmjit;
using namespace chenv;

union XAsmBox { x86::Assembler a; XAsmBox() noexcept {} ~XAsmBox() noexcept {} };
static XAsmBox xbox;
static int reports;
alignas(16) static uint8_t arena_bytes[96];

ASMJIT_BEGIN_NAMESPACE
Error BaseEmitter::_report_error(Error err, const char*) { reports++; return err; }
bool BaseEmitter::is_label_valid(uint32_t label_id) const noexcept { return _code && label_id < _code->label_count(); }
namespace EmitterUtils {
Error log_instruction_failed(BaseEmitter* self, Error err, InstId, InstOptions, const Operand_&, const Operand_&, const Operand_&, const Operand_*) {
  self->reset_state(); return self->report_error(err);
}
}
ASMJIT_END_NAMESPACE

constexpr uint32_t kPos = 8;   // cursor position inside the 32-byte buffer of section 0

// x86::Assembler attached by construction to section 0 at kPos (same field setup as include/x86_env.h, no strict validation).
static x86::Assembler* make_xasm(CodeHolder* c, bool x64) {
  x86::Assembler* a = &xbox.a;
#if !defined(VERIF_CBMC)
  memset(static_cast<void*>(&xbox), 0, sizeof(xbox));
#endif
  a->_code = c; a->_section = sec(0); a->_environment = c->_environment; a->_logger = nullptr; a->_error_handler = nullptr;
  a->_emitter_flags = EmitterFlags::kNone; a->_inline_comment = nullptr; a->_inst_options = InstOptions::kNone; a->_extra_reg.reset();
  a->_arch_mask = (uint64_t(1) << uint32_t(Arch::kX86)) | (uint64_t(1) << uint32_t(Arch::kX64));
  a->_forced_inst_options = x64 ? InstOptions::kNone : InstOptions::kX86_InvalidRex;
  a->_diagnostic_options = DiagnosticOptions::kNone; a->_encoding_options = EncodingOptions::kNone;
  a->_funcs.validate = x64 ? x86::InstInternal::validate_x64 : x86::InstInternal::validate_x86;
  a->_private_data = x64 ? 0x80 : 0x40;
  a->_buffer_data = sbuf[0]; a->_buffer_ptr = sbuf[0] + kPos; a->_buffer_end = sbuf[0] + kBufCap;
  sec(0)->_buffer._size = kPos;
  reports = 0;
  memset(arena_bytes, 0xA5, sizeof(arena_bytes)); set_arena(arena_bytes, sizeof(arena_bytes));
  return a;
}

template<uint32_t BITS> static inline int64_t sx(uint64_t v) { return int64_t(v << (64 - BITS)) >> (64 - BITS); }

// Known finding C03b: a reference to a label that is already bound to a *different* section hands a bound LabelEntry to
// CodeHolder::new_fixup (debug assertion; release: the label offset is overwritten by the fixup pointer and the reference is never
// resolved). While it is open the kOtherSection harnesses are the finding's companions: they stop at that assertion, so their
// later witnesses are compiled out and the witness in front of the emit call is the one that must be reached.
#if KF_C03b
#define WITNESS_AFTER_EMIT(l) do { if (MODE != kOtherSection) V_WITNESS(l); } while (0)
#else
#define WITNESS_AFTER_EMIT(l) V_WITNESS(l)
#endif

enum Form : uint32_t { kJmp, kJcc, kCall, kJecxz, kLoop, kMovLoad, kLea, kAddImm8, kAddImm32, kMovAbs32 };
enum Mode : uint32_t { kBoundHere, kBoundLater, kOtherSection };

struct Decoded { bool ok; uint32_t len; int64_t rel; bool is_short; };
// Reference decoder for exactly the instruction that was requested.
template<uint32_t FORM>
static Decoded decode_at(const uint8_t* b, uint32_t cc, bool x64) {
  Decoded d = { false, 0, 0, false };
  switch (FORM) {
    case kJmp: if (b[0] == 0xEB) { d = { true, 2, sx<8>(b[1]), true }; } else if (b[0] == 0xE9) { d = { true, 5, sx<32>(load_le(b + 1, 4)), false }; } break;
    case kJcc: if (b[0] == 0x70 + cc) { d = { true, 2, sx<8>(b[1]), true }; } else if (b[0] == 0x0F && b[1] == 0x80 + cc) { d = { true, 6, sx<32>(load_le(b + 2, 4)), false }; } break;
    case kCall: if (b[0] == 0xE8) d = { true, 5, sx<32>(load_le(b + 1, 4)), false }; break;
    case kJecxz: if (b[0] == 0xE3) d = { true, 2, sx<8>(b[1]), true }; break;
    case kLoop: if (b[0] == 0xE2) d = { true, 2, sx<8>(b[1]), true }; break;
    case kMovLoad: if (b[0] == 0x8B && b[1] == 0x0D) d = { true, 6, sx<32>(load_le(b + 2, 4)), false }; break;               // mov ecx, [rip+rel32]
    case kLea: if (b[0] == 0x48 && b[1] == 0x8D && b[2] == 0x05) d = { true, 7, sx<32>(load_le(b + 3, 4)), false }; break;  // lea rax, [rip+rel32]
    case kAddImm8: if (b[0] == 0x83 && b[1] == 0x05) d = { true, 7, sx<32>(load_le(b + 2, 4)), false }; break;               // add dword [rip+rel32], imm8
    case kAddImm32: if (b[0] == 0x81 && b[1] == 0x05) d = { true, 10, sx<32>(load_le(b + 2, 4)), false }; break;             // add dword [rip+rel32], imm32
    default: if (b[0] == 0x8B && b[1] == 0x0D) d = { true, 6, int64_t(load_le(b + 2, 4)), false }; break;                   // 32-bit: mov ecx, [abs32]
  }
  (void)x64;
  return d;
}

static const InstId jcc_ids[4] = { x86::Inst::kIdJz, x86::Inst::kIdJnbe, x86::Inst::kIdJl, x86::Inst::kIdJo };
static const uint32_t jcc_cc[4] = { 4, 7, 12, 0 };

template<uint32_t FORM, uint32_t MODE>
static void ref_site() {
  constexpr bool is_branch = FORM <= kLoop, is_mem = !is_branch, x64 = FORM != kMovAbs32;
  CodeHolder* c = make_holder(x64 ? Arch::kX64 : Arch::kX86, 2);
  for (uint32_t j = 0; j < 32; j++) sbuf[0][j] = nondet_u8();
  x86::Assembler* a = make_xasm(c, x64);
  // label: positions below 2 GiB (buffers beyond that are outside the claim)
  uint64_t lo = nondet_u32() & 0x7FFFFFFFu;
  uint32_t id = MODE == kBoundHere ? add_bound_label(0, lo) : MODE == kOtherSection ? add_bound_label(1, lo) : add_label();
  int32_t disp = is_mem ? int32_t(nondet_u32()) : 0;
  uint32_t jsel = nondet_u8() & 3; uint32_t cc = jcc_cc[jsel];
  int32_t imm = FORM == kAddImm8 ? int32_t(int8_t(nondet_u8())) : FORM == kAddImm32 ? int32_t(nondet_u32()) : 0;
  if (FORM == kAddImm32) V_ASSUME(imm < -128 || imm > 127);
  bool short_form = (FORM == kJmp || FORM == kJcc) && nondet_bool(), long_form = (FORM == kJmp || FORM == kJcc) && !short_form && nondet_bool();
  if (short_form) a->_inst_options |= InstOptions::kShortForm;
  if (long_form) a->_inst_options |= InstOptions::kLongForm;

  Operand_ none{}; Operand_ o0 = none, o1 = none;
  Label label(id);
  InstId inst;
  switch (FORM) {
    case kJmp: inst = x86::Inst::kIdJmp; o0 = label; break;
    case kJcc: inst = jcc_ids[jsel]; o0 = label; break;
    case kCall: inst = x86::Inst::kIdCall; o0 = label; break;
    case kJecxz: inst = x86::Inst::kIdJecxz; o0 = label; break;
    case kLoop: inst = x86::Inst::kIdLoop; o0 = label; break;
    case kMovLoad: case kMovAbs32: inst = x86::Inst::kIdMov; o0 = x86::ecx; o1 = x86::dword_ptr(label, disp); break;
    case kLea: inst = x86::Inst::kIdLea; o0 = x86::rax; o1 = x86::ptr(label, disp); break;
    default: inst = x86::Inst::kIdAdd; o0 = x86::dword_ptr(label, disp); o1 = Imm(imm); break;
  }
  if (MODE == kOtherSection) V_WITNESS("ref-foreign-section-emit");
  Error err = a->x86::Assembler::_emit(inst, o0, o1, none, EmitterUtils::no_ext);
  verif_observe(uint64_t(err)); v_observe_bytes(sbuf[0], 32);
  const uint8_t* b = sbuf[0] + kPos;
  uint32_t emitted = uint32_t(a->_buffer_ptr - sbuf[0]) - kPos;
  uint64_t addend = uint64_t(int64_t(disp));

  if (err != Error::kOk) {
    V_ASSERT(emitted == 0 && sec(0)->_buffer._size == kPos && reports == 1, "refused reference appends nothing and is reported once");
    V_ASSERT(c->_unresolved_fixup_count == 0 && c->_relocations._size == 0, "refused reference leaves no fixup and no relocation behind");
    constexpr uint32_t len = FORM == kMovLoad ? 6 : FORM == kLea ? 7 : FORM == kAddImm8 ? 7 : 10, imm_size = FORM == kAddImm8 ? 1 : FORM == kAddImm32 ? 4 : 0;
    if (is_mem) {
      // rip-relative reference: refused only when the displacement to encode leaves the 32-bit range
      V_ASSERT(FORM != kMovAbs32, "the 32-bit absolute form is never refused at emit time");
      int64_t need = MODE == kBoundHere ? int64_t(lo) + int64_t(disp) - int64_t(kPos + len) : int64_t(disp) - 4 - int64_t(imm_size);
      V_ASSERT(need < INT32_MIN || need > INT32_MAX, "rip-relative reference is refused only when its displacement leaves the 32-bit range");
      if (FORM != kMovAbs32) WITNESS_AFTER_EMIT("ref-rip-out-of-range");
    }
    else {
      // a branch is refused only when a short-only form cannot reach an already bound target
      int64_t d2 = int64_t(lo) - int64_t(kPos + 2);
      V_ASSERT(MODE == kBoundHere && (FORM == kJecxz || FORM == kLoop || short_form) && (d2 < -128 || d2 > 127), "a branch is refused only when a short-only form cannot reach the bound target");
      if (MODE != kBoundHere) return;
      if (FORM != kCall) WITNESS_AFTER_EMIT("ref-short-out-of-range");
    }
    return;
  }
  Decoded d = decode_at<FORM>(b, cc, x64);
  V_ASSERT(d.ok && d.len == emitted, "emitted bytes are the requested instruction and nothing else");
  V_ASSERT(sec(0)->_buffer._size == kPos + emitted, "section size follows the cursor");
  if (FORM == kAddImm8) V_ASSERT(int8_t(b[6]) == int8_t(imm), "trailing imm8 is the requested immediate");
  if (FORM == kAddImm32) V_ASSERT(int32_t(uint32_t(load_le(b + 6, 4))) == imm, "trailing imm32 is the requested immediate");
  if (short_form) V_ASSERT(d.is_short, "short form option is honoured");
  if (long_form) V_ASSERT(!d.is_short, "long form option is honoured");
  uint64_t end_ip = kPos + emitted;

  // (the 32-bit absolute form handles a label bound to any section directly: the relocation records the target section)
  if (MODE == kBoundHere || (FORM == kMovAbs32 && MODE == kOtherSection)) {
    V_ASSERT(c->_unresolved_fixup_count == 0 && c->_fixups == nullptr, "bound target needs no fixup");
    if (FORM == kMovAbs32) {
      // 32-bit absolute form: a relocation carries the address; finish with relocate_to_base
      constexpr uint32_t tsec = MODE == kOtherSection ? 1 : 0;
      V_CONCRETIZE(c->_relocations._size, 1u, "32-bit absolute reference records one relocation");
      V_CONCRETIZE(reloc_tab[0], reinterpret_cast<RelocEntry*>(arena_bytes), "the relocation entry is the first arena object");
      V_CONCRETIZE(reloc_tab[0]->_reloc_type, RelocType::kRelToAbs, "32-bit absolute reference records a RelToAbs relocation");
      V_CONCRETIZE(reloc_tab[0]->_target_section_id, tsec, "the relocation records the section the label is bound to");
      V_CONCRETIZE(reloc_tab[0]->_source_section_id, 0u, "the relocation records the emitting section");
      sec(0)->_offset = nondet_u32(); sec(1)->_offset = nondet_u32(); uint64_t base = nondet_u32();
      Error rerr = c->relocate_to_base(base, nullptr);
      uint64_t want = base + sec(tsec)->_offset + lo + addend;
      if (rerr == Error::kOk) { V_ASSERT(uint64_t(load_le(b + 2, 4)) == want, "32-bit absolute reference holds base plus section offset plus label offset plus addend"); V_WITNESS("ref-abs32-bound"); }
      else V_ASSERT(want > 0xFFFFFFFFull, "32-bit absolute reference is refused only when the address does not fit 32 bits");
      return;
    }
    V_ASSERT(end_ip + uint64_t(d.rel) == lo + addend, "bound target: end of instruction plus displacement is label position plus addend");
    if (d.is_short) V_WITNESS("ref-bound-short"); else if (FORM != kJecxz && FORM != kLoop) V_WITNESS("ref-bound-long");
    return;
  }

  V_ASSERT(c->_unresolved_fixup_count == 1, "unbound or foreign-section target leaves exactly one unresolved reference");
  if (FORM == kMovAbs32 && MODE == kBoundLater) {
    // 32-bit absolute reference to an unbound label: hand-over to CodeHolder (one fixup on the label carrying the relocation id, a
    // RelToAbs relocation whose payload is the addend). The values are re-stated for the symbolic executor (V_CONCRETIZE), then the
    // flow continues end-to-end with bind_label and relocate_to_base.
    Fixup* f = reinterpret_cast<Fixup*>(arena_bytes + Arena::aligned_size(sizeof(RelocEntry)));
    V_CONCRETIZE(label_tab[id]._offset_or_fixups, uint64_t(uintptr_t(f)), "32-bit absolute reference: one fixup on the label (second arena object)");
    V_CONCRETIZE(f->next, static_cast<Fixup*>(nullptr), "32-bit absolute reference: the fixup is the only one");
    V_ASSERT(f->section_id == 0 && f->offset == kPos + 2, "32-bit absolute reference: fixup at the disp32 field of this section");
    V_CONCRETIZE(c->_relocations._size, 1u, "32-bit absolute reference to an unbound label records one relocation");
    V_CONCRETIZE(reloc_tab[0], reinterpret_cast<RelocEntry*>(arena_bytes), "the relocation entry is the first arena object");
    V_CONCRETIZE(f->label_or_reloc_id, 0u, "32-bit absolute reference: the fixup carries the relocation id");
    RelocEntry* re = reloc_tab[0];
    V_CONCRETIZE(re->_reloc_type, RelocType::kRelToAbs, "32-bit absolute reference: RelToAbs relocation");
    V_ASSERT(re->_source_section_id == 0 && re->_source_offset == kPos && re->_target_section_id == Globals::kInvalidId, "32-bit absolute reference: relocation at the instruction, target not yet known");
    V_ASSERT(re->_format.type() == OffsetType::kUnsignedOffset && re->_format.value_size() == 4 && re->_format.value_offset() == 2 && re->_format.region_size() == 6, "32-bit absolute reference: unsigned 32-bit field after opcode and modrm");
    V_ASSERT(re->_payload == addend, "32-bit absolute reference: payload is the requested addend");
    V_ASSERT(load_le(b + 2, 4) == 0, "32-bit absolute reference: zero placeholder");
  }
  uint64_t target, ip_base = 0;
  Error berr;
  if (MODE == kBoundLater) {
    uint64_t to = nondet_u32() & 0x7FFFFFFFu;
    berr = c->bind_label(label, 0, to);
    target = to + addend;
  }
  else {
    uint64_t s0 = nondet_u64() & 0xFFFFFFFFFFull, s1 = nondet_u64() & 0xFFFFFFFFFFull;
    sec(0)->_offset = s0; sec(1)->_offset = s1;
    // hand-over re-stated for the symbolic executor: the reference to a label bound elsewhere is one fixup (first arena object) at
    // the head of the cross-section list, carrying the label id; the label entry itself is untouched
    Fixup* xf = reinterpret_cast<Fixup*>(arena_bytes);
    V_CONCRETIZE(c->_fixups, xf, "foreign-section target: the fixup heads the cross-section list");
    V_CONCRETIZE(xf->next, static_cast<Fixup*>(nullptr), "foreign-section target: the cross-section list held nothing else");
    V_CONCRETIZE(xf->label_or_reloc_id, id, "foreign-section target: the fixup names the label");
    V_CONCRETIZE(xf->section_id, 0u, "foreign-section target: the fixup names the emitting section");
    V_ASSERT(label_tab[id].is_bound() && label_tab[id].section_id() == 1 && label_tab[id]._offset_or_fixups == lo, "foreign-section target: the label stays bound where it was");
    berr = c->resolve_cross_section_fixups();
    target = s1 + lo + addend; ip_base = s0;
  }
  verif_observe(uint64_t(berr)); v_observe_bytes(sbuf[0], 32);
  d = decode_at<FORM>(b, cc, x64);
  V_ASSERT(d.ok && d.len == emitted, "patching keeps the instruction intact");
  if (FORM == kAddImm8) V_ASSERT(int8_t(b[6]) == int8_t(imm), "patching keeps the trailing imm8");
  if (FORM == kAddImm32) V_ASSERT(int32_t(uint32_t(load_le(b + 6, 4))) == imm, "patching keeps the trailing imm32");
  if (FORM == kMovAbs32) {
    V_ASSERT(berr == Error::kOk && c->_unresolved_fixup_count == 0, "32-bit absolute reference: the relocation takes over at bind time");
    uint64_t s_t = MODE == kBoundLater ? 0 : 1;
    if (MODE == kBoundLater) sec(0)->_offset = nondet_u32();
    uint64_t base = nondet_u32();
    Error rerr = c->relocate_to_base(base, nullptr);
    uint64_t want = base + sec(s_t)->_offset + (target - (MODE == kBoundLater ? 0 : sec(1)->_offset));
    if (rerr == Error::kOk) { V_ASSERT(uint64_t(load_le(b + 2, 4)) == want, "32-bit absolute reference bound later holds base plus section offset plus label offset plus addend"); WITNESS_AFTER_EMIT("ref-abs32-later"); }
    else V_ASSERT(want > 0xFFFFFFFFull, "32-bit absolute reference bound later is refused only when the address does not fit 32 bits");
    return;
  }
  if (c->_unresolved_fixup_count == 0) {
    V_ASSERT(ip_base + end_ip + uint64_t(d.rel) == target, "resolved reference: end of instruction plus displacement is label position plus addend");
    WITNESS_AFTER_EMIT("ref-resolved");
  }
  else {
    V_ASSERT(c->_unresolved_fixup_count == 1 && d.rel == 0, "unresolvable reference stays counted and unpatched");
    int64_t need = int64_t(target - (ip_base + end_ip));
    V_ASSERT(d.is_short ? (need < -128 || need > 127) : (need < INT32_MIN || need > INT32_MAX), "a reference stays unresolved only when the displacement does not fit the field");
    if (MODE == kBoundLater) V_ASSERT(berr == Error::kInvalidDisplacement, "bind reports the unrepresentable displacement");
    if (FORM == kJecxz || FORM == kLoop) WITNESS_AFTER_EMIT("ref-unresolvable");
  }
}

#define REF(form, name) \
  HARNESS h_x86_##name##_bound() { ref_site<form, kBoundHere>(); } \
  HARNESS h_x86_##name##_later() { ref_site<form, kBoundLater>(); } \
  HARNESS h_x86_##name##_xsect() { ref_site<form, kOtherSection>(); }
REF(kJmp, jmp) REF(kJcc, jcc) REF(kCall, call) REF(kJecxz, jecxz) REF(kLoop, loop)
REF(kMovLoad, mov_rip) REF(kLea, lea_rip) REF(kAddImm8, add_rip_imm8) REF(kAddImm32, add_rip_imm32) REF(kMovAbs32, mov_abs32)
