# C03 — label references resolve to the bound position
# loop ids of the two fixup-list walks (if the code changes shape the global bound applies again: slower, never unsound)
UW_BIND = ','.join('_ZN6asmjit5v1_2110CodeHolder10bind_labelERKNS0_5LabelEjm.%d:5' % i for i in range(8))   # every back edge of the one do-while in bind_label
UW_EXPR = '_ZN6asmjit5v1_21L30CodeHolder_evaluate_expressionEPNS0_10CodeHolderEPNS0_10ExpressionEPm:3'   # recursion depth of the expression evaluator
UW_EMB = UW_BIND + ',' + UW_EXPR
FS = ['--max-field-sensitivity-array-size', '128']
CH = ['asmjit/core/codeholder.cpp', 'asmjit/core/codewriter.cpp']
UNITS = [
    Unit('fixup', harness=['h_fixup.cpp'], repo_units=CH),
    Unit('embed', harness=['h_embed.cpp'], repo_units=CH + ['asmjit/core/assembler.cpp']),
]
B_FIX = ' pending fixup(s) of one label, each with symbolic section (0/1), position inside its own 8-byte window, addend (all 2^64), format drawn from {x86 rel8, rel32, a64 imm26, imm19, imm14, ADR, ADRP} or relocation-carrying {embed_label 1/2/4/8, x86-32 [label]}; 24 symbolic bytes per section (field bits zero); '
HARNESSES = [Harness('fixup', 'h_bind_%d' % k, unwind=49, bounds=str(k) + B_FIX + 'bind target section 0..3 and offset all 2^64; label id valid or beyond the table; older cross-section list empty or one entry; pool empty or one entry', mem_gb=6, timeout=900, unwindset=UW_BIND,
                     tiers=('quick', 'thorough') if k < 3 else ('thorough',)) for k in (0, 1, 2, 3)]
HARNESSES += [Harness('fixup', 'h_bind_invalid', unwind=9, bounds='label id / section id in {count, count+1, 2^31, kInvalidId}; 2 pending fixups as in h_bind_2', mem_gb=4, timeout=600, unwindset=UW_BIND)]
HARNESSES += [Harness('fixup', 'h_bind_twice', unwind=9, bounds='label bound at any offset in section 0/1, second bind with any section 0/1 and offset', mem_gb=2, timeout=300)]
HARNESSES += [Harness('fixup', 'h_resolve_%d' % k, unwind=49, bounds=str(k) + B_FIX + 'two bound labels at any 2^64 offset in either section; both section offsets all 2^64 (overflow of section + label inside)', mem_gb=6, timeout=900,
                      tiers=('quick', 'thorough') if k < 3 else ('thorough',)) for k in (0, 1, 2, 3)]
B_EMB = 'x86-32 / x86-64; emitting section 0/1; label bound before the reference (section 0/1, offset all 2^64) or bound afterwards anywhere; section offsets and base address all 2^64; 32 symbolic bytes per section'
HARNESSES += [Harness('embed', 'h_embed_label_%d' % n, unwind=33, bounds='embed_label data size %d (0 = register size); ' % n + B_EMB, mem_gb=4, timeout=600, unwindset=UW_EMB, flags=FS) for n in (0, 1, 2, 4, 8, 3, 16)]
HARNESSES += [Harness('embed', 'h_embed_label_invalid', unwind=33, bounds='label id any value beyond the table', mem_gb=4, timeout=600, unwindset=UW_EMB, flags=FS)]
HARNESSES += [Harness('embed', 'h_embed_delta_%d' % n, unwind=33, bounds='embed_label_delta data size %d (0 = register size); nine combinations of (emitting section, each label bound before in section 0/1 or bound afterwards anywhere); ' % n + B_EMB, mem_gb=4, timeout=600, unwindset=UW_EMB, flags=FS) for n in (0, 1, 2, 4, 8)]
HARNESSES += [Harness('embed', 'h_embed_delta_%d_kf_C03a' % n, unwind=33, known='C03a', bounds='as h_embed_delta_%d, confined to: both labels already bound to one section and the difference does not fit the field' % n, mem_gb=4, timeout=600, unwindset=UW_EMB, flags=FS) for n in (1, 4)]
HARNESSES += [Harness('embed', 'h_expression_' + k, unwind=33, bounds='expression shape ' + k + ' (c = constant, l = label, nested = depth 2); operators add/sub/mul/sll/srl/sra and an invalid one (mul: constant factor 8 bits wide, depth 1 only); constants, label offset, section offsets all 2^64', mem_gb=4, timeout=600, unwindset=UW_EMB, flags=FS) for k in ('cc', 'lc', 'nested_l', 'nested_r')]
EXPLANATION = 'bounded symbolic execution (CBMC) of the real CodeHolder::bind_label / resolve_cross_section_fixups / new_fixup / relocate_to_base, BaseAssembler::embed_label / embed_label_delta and the reference sites of x86::Assembler::_emit / a64::Assembler::_emit compiled from /repo; the oracle decodes the patched bytes the way the CPU does (reference decoders in the harness)'
OUTSIDE = ['more than 3 pending fixups per label (the list code is uniform in the length)', 'more than 2 sections', 'buffer growth during emission (C15)', 'Thumb/A32 formats (no A32 assembler in this tree)']
ASSUMPTIONS = ['emitter.cpp is not linked: BaseEmitter::_report_error (counter) and BaseEmitter::is_label_valid (same one-line test) are defined in the harness; the assembler object is attached by construction',
               'label / fixup / relocation tables are built directly in static storage in the state new_label_id / new_fixup / new_reloc_entry leave them',
               'reference sites of one program never overlap (each pending fixup has its own 8-byte window)',
               'field bits of a referenced word are zero before patching (both back ends emit zero placeholders; write_offset ORs the field in)']
