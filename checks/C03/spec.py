# C03 — label references resolve to the bound position
import os, json
def _kf_open(kid):
    # is the finding listed in known_findings.jsonl (and not taken out for a trial run by VERIF_KF_EXCLUDE)? While it is, the harnesses
    # that live entirely inside its input region carry known=<id>; once it is gone they are ordinary harnesses that must pass.
    if kid in os.environ.get('VERIF_KF_EXCLUDE', '').split(','): return False
    try:
        for ln in open(os.path.join(os.path.dirname(os.path.dirname(os.path.dirname(os.path.abspath(__file__)))), 'known_findings.jsonl')):
            ln = ln.strip()
            if ln.startswith('{') and json.loads(ln).get('id') == kid: return True
    except OSError:
        pass
    return False
C03B = 'C03b' if _kf_open('C03b') else None
# loop ids of the two fixup-list walks (if the code changes shape the global bound applies again: slower, never unsound)
UW_BIND = ','.join('_ZN6asmjit5v1_2110CodeHolder10bind_labelERKNS0_5LabelEjm.%d:5' % i for i in range(8))   # every back edge of the one do-while in bind_label
UW_EXPR = '_ZN6asmjit5v1_21L30CodeHolder_evaluate_expressionEPNS0_10CodeHolderEPNS0_10ExpressionEPm:3'   # recursion depth of the expression evaluator
UW_EXPR1 = UW_EXPR[:-2] + ':1'   # harnesses without an Expression relocation: the evaluator may be entered (type field symbolic for the executor) but never recurses
UW_EMB = UW_BIND + ',' + UW_EXPR
FS = ['--max-field-sensitivity-array-size', '128']
CH = ['asmjit/core/codeholder.cpp', 'asmjit/core/codewriter.cpp']
UNITS = [
    Unit('fixup', harness=['h_fixup.cpp'], repo_units=CH),
    Unit('x86ref', harness=['h_x86ref.cpp'], repo_units=CH + ['asmjit/x86/x86assembler.cpp', 'asmjit/x86/x86instdb.cpp', 'asmjit/x86/x86instapi.cpp']),
    Unit('a64ref', harness=['h_a64ref.cpp'], repo_units=CH + ['asmjit/arm/a64assembler.cpp', 'asmjit/arm/a64instdb.cpp']),
    Unit('embed', harness=['h_embed.cpp'], repo_units=CH + ['asmjit/core/assembler.cpp']),
]
B_FIX = ' pending fixup(s) of one label, each with symbolic section (0/1), position inside its own 8-byte window, addend (all 2^64), format drawn from {x86 rel8, rel32, a64 imm26, imm19, imm14, ADR, ADRP} or relocation-carrying {embed_label 1/2/4/8, x86-32 [label]}; 24 symbolic bytes per section (field bits zero); '
HARNESSES = [Harness('fixup', 'h_bind_%d' % k, unwind=49, bounds=str(k) + B_FIX + 'bind target section 0/1 and offset all 2^64; older cross-section list empty or one entry; pool empty or one entry', mem_gb=(1, 2, 4, 8)[k], timeout=(300, 600, 900, 3600)[k], unwindset=UW_BIND,
                     tiers=('quick', 'thorough') if k < 3 else ('thorough',)) for k in (0, 1, 2, 3)]
HARNESSES += [Harness('fixup', 'h_bind_invalid', unwind=9, bounds='label id / section id in {count, count+1, 2^31, kInvalidId}; 2 pending fixups as in h_bind_2', mem_gb=1, timeout=600, unwindset=UW_BIND)]
HARNESSES += [Harness('fixup', 'h_bind_twice', unwind=9, bounds='label bound at any offset in section 0/1, second bind with any section 0/1 and offset', mem_gb=2, timeout=300)]
HARNESSES += [Harness('fixup', 'h_resolve_%d' % k, unwind=49, bounds=str(k) + B_FIX + 'two bound labels at any 2^64 offset in either section; both section offsets all 2^64 (overflow of section + label inside)', mem_gb=(1, 1, 2, 4)[k], timeout=(300, 600, 900, 3600)[k],
                      tiers=('quick', 'thorough') if k < 3 else ('thorough',)) for k in (0, 1, 2, 3)]
B_EMB = 'x86-32 / x86-64; emitting section 0/1; label bound before the reference (section 0/1, offset all 2^64) or bound afterwards anywhere; section offsets and base address all 2^64; 32 symbolic bytes per section'
HARNESSES += [Harness('embed', 'h_embed_label_%d' % n, unwind=33, bounds='embed_label data size %d (0 = register size); ' % n + B_EMB, mem_gb=2, timeout=600, unwindset=UW_EMB, flags=FS) for n in (0, 1, 2, 4, 8, 3, 16)]
HARNESSES += [Harness('embed', 'h_embed_label_invalid', unwind=33, bounds='label id any value beyond the table', mem_gb=2, timeout=600, unwindset=UW_EMB, flags=FS)]
HARNESSES += [Harness('embed', 'h_embed_delta_%d' % n, unwind=33, bounds='embed_label_delta data size %d (0 = register size); nine combinations of (emitting section, each label bound before in section 0/1 or bound afterwards anywhere); ' % n + B_EMB, mem_gb=2, timeout=600, unwindset=UW_EMB, flags=FS) for n in (0, 1, 2, 4, 8)]
HARNESSES += [Harness('embed', 'h_embed_delta_%d_kf_C03a' % n, unwind=33, known='C03a', bounds='as h_embed_delta_%d, confined to: both labels already bound to one section and the difference does not fit the field' % n, mem_gb=2, timeout=600, unwindset=UW_EMB, flags=FS) for n in (1, 4)]
HARNESSES += [Harness('embed', 'h_expression_' + k, unwind=33, bounds='expression shape ' + k + ' (c = constant, l = label, nested = depth 2); operators add/sub/mul/sll/srl/sra and an invalid one (mul: constant factor 8 bits wide, depth 1 only); constants, label offset, section offsets all 2^64', mem_gb=2, timeout=600, unwindset=UW_EMB, flags=FS) for k in ('cc', 'lc', 'nested_l', 'nested_r')]
UW_REL = ','.join('_ZN6asmjit5v1_2110CodeHolder16relocate_to_baseEmPNS1_17RelocationSummaryE.%d:3' % i for i in range(14))
UW_RES = ','.join('_ZN6asmjit5v1_2110CodeHolder28resolve_cross_section_fixupsEv.%d:4' % i for i in range(10))
B_X86 = {'bound': 'label already bound in this section at any position below 2 GiB', 'later': 'label unbound, bound afterwards at any position below 2 GiB (bind_label patches)', 'xsect': 'label bound in another section below 2 GiB, section offsets below 2^40 (resolve_cross_section_fixups patches)'}
X86_FORMS = [('jmp', 'jmp label, short/long form options'), ('jcc', 'jz/jnbe/jl/jo label, short/long form options'), ('call', 'call label'), ('jecxz', 'jecxz label'), ('loop', 'loop label'),
             ('mov_rip', '64-bit mov ecx, [label+disp32]'), ('lea_rip', '64-bit lea rax, [label+disp32]'), ('add_rip_imm8', '64-bit add dword [label+disp32], imm8'), ('add_rip_imm32', '64-bit add dword [label+disp32], imm32'), ('mov_abs32', '32-bit mov ecx, [label+disp32] (relocation; base and section offset below 2^32)')]
QUICK_X86 = ('h_x86_jmp_later', 'h_x86_jcc_bound', 'h_x86_add_rip_imm32_later', 'h_x86_mov_abs32_bound', 'h_x86_jcc_xsect')
for f, what in X86_FORMS:
    for m in ('bound', 'later', 'xsect'):
        fn = 'h_x86_%s_%s' % (f, m)
        # --unwindset may only name functions the harness reaches (unused ones are dropped and then rejected as invalid ids)
        uw = [UW_BIND] if m == 'later' else [UW_RES] if (m == 'xsect' and f != 'mov_abs32') else []
        if f == 'mov_abs32': uw += [UW_EXPR1]   # ends with relocate_to_base
        HARNESSES.append(Harness('x86ref', fn, unwind=33, bounds=what + '; disp32 all 2^32; ' + B_X86[m] + '; cursor at byte 8 of a 32-byte buffer', mem_gb=3, timeout=1800,
                                 unwindset=','.join(uw) or None, flags=FS, known=C03B if (m == 'xsect' and f != 'mov_abs32') else None, tiers=('quick', 'thorough') if fn in QUICK_X86 else ('thorough',)))
A64_FORMS = [('b', 'b label'), ('bl', 'bl label'), ('bcond', 'b.eq/ne/ge/lt label'), ('cbz', 'cbz x0-15, label'), ('tbz', 'tbz x0-15, bit 0-63, label'), ('adr', 'adr x0-15, label'), ('adrp', 'adrp x0-15, label'), ('ldr_lit', 'ldr x0-15, [label, disp32]')]
B_A64 = {'bound': 'label already bound in this section at any position below 8 GiB', 'later': 'label unbound, bound afterwards at any position below 8 GiB (bind_label patches)', 'xsect': 'label bound in another section, section offsets below 2^40 (resolve_cross_section_fixups patches)'}
QUICK_A64 = ('h_a64_b_later', 'h_a64_tbz_bound', 'h_a64_adrp_later', 'h_a64_ldr_lit_bound', 'h_a64_cbz_xsect')
for f, what in A64_FORMS:
    for m in ('bound', 'later', 'xsect'):
        fn = 'h_a64_%s_%s' % (f, m)
        uw = [UW_BIND] if m == 'later' else [UW_RES] if m == 'xsect' else []
        HARNESSES.append(Harness('a64ref', fn, unwind=33, bounds=what + '; ' + B_A64[m] + '; cursor at byte 8 of a 32-byte buffer', mem_gb=3, timeout=1800,
                                 unwindset=','.join(uw) or None, flags=FS, known=C03B if m == 'xsect' else None, tiers=('quick', 'thorough') if fn in QUICK_A64 else ('thorough',)))
EXPLANATION = 'bounded symbolic execution (CBMC) of the real CodeHolder::bind_label / resolve_cross_section_fixups / new_fixup / relocate_to_base, BaseAssembler::embed_label / embed_label_delta and the reference sites of x86::Assembler::_emit / a64::Assembler::_emit compiled from /repo; the oracle decodes the patched bytes the way the CPU does (reference decoders in the harness)'
OUTSIDE = ['more than 3 pending fixups per label (the list code is uniform in the length)', 'more than 2 sections', 'buffer growth during emission (C15)', 'Thumb/A32 formats (no A32 assembler in this tree)',
           'label positions of 2 GiB and more in the x86 reference-site harnesses (jmp/jcc/call to a bound label compute rel32 modulo 2^32 without a range check; buffers of that size are outside the claim), 8 GiB in the a64 ones',
           'reference sites other than the listed forms (x86: jmp, 4 of 16 jcc, call, jecxz, loop, mov/lea/add with [label+disp]; a64: b, bl, b.cond, cbz, tbz, adr, adrp, ldr literal); register and condition fields beyond those named in the bounds',
           'expressions deeper than 2 and 64x64-bit products inside expressions']
ASSUMPTIONS = ['Arena::_alloc_oneshot / ArenaVector growth / CodeHolder::grow_buffer are stubs that assert they are not reached (include/ch_env.h); the arena block end is the highest address; arena objects live in a 96-byte block',
               'reference-site harnesses: values handed over by _emit (fixup on the label, relocation entry) are asserted and then re-stated as constants (V_CONCRETIZE) before bind_label / relocate_to_base run',
               'emitter.cpp is not linked: BaseEmitter::_report_error (counter) and BaseEmitter::is_label_valid (same one-line test) are defined in the harness; the assembler object is attached by construction',
               'label / fixup / relocation tables are built directly in static storage in the state new_label_id / new_fixup / new_reloc_entry leave them',
               'reference sites of one program never overlap (each pending fixup has its own 8-byte window)',
               'field bits of a referenced word are zero before patching (both back ends emit zero placeholders; write_offset ORs the field in)']
