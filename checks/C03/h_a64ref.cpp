// C03/H3 (AArch64) — reference sites in the real a64::Assembler::_emit composed with the real CodeHolder: b / bl / b.cond /
// cbz / tbz / adr / adrp / ldr (literal) to a label that is (a) already bound in this section, (b) unbound and bound afterwards
// (bind_label patches the word), (c) bound in another section. Oracle: the emitted word decoded the way the CPU does
// (address of the instruction + displacement; adrp: page of the instruction + page displacement).
#include "ch_env.h"
#include <asmjit/a64.h>
#include <asmjit/core/emitterutils_p.h>
using namespace asmjit;
using namespace chenv;

union AAsmBox { a64::Assembler a; AAsmBox() noexcept {} ~AAsmBox() noexcept {} };
static AAsmBox abox;
static int reports;
alignas(16) static uint8_t arena_bytes[96];

ASMJIT_BEGIN_NAMESPACE
Error BaseEmitter::_report_error(Error err, const char*) { reports++; return err; }
bool BaseEmitter::is_label_valid(uint32_t label_id) const noexcept { return _code && label_id < _code->label_count(); }
namespace EmitterUtils {
Error log_instruction_failed(BaseEmitter* self, Error err, InstId, InstOptions, const Operand_&, const Operand_&, const Operand_&, const Operand_*) {
  self->reset_state(); return self->report_error(err);
}
}
ASMJIT_END_NAMESPACE

constexpr uint32_t kPos = 8;

static a64::Assembler* make_aasm(CodeHolder* c) {
  a64::Assembler* a = &abox.a;
#if !defined(VERIF_CBMC)
  memset(static_cast<void*>(&abox), 0, sizeof(abox));
#endif
  a->_code = c; a->_section = sec(0); a->_environment = c->_environment; a->_logger = nullptr; a->_error_handler = nullptr;
  a->_emitter_flags = EmitterFlags::kNone; a->_inline_comment = nullptr; a->_inst_options = InstOptions::kNone; a->_extra_reg.reset();
  a->_arch_mask = uint64_t(1) << uint32_t(Arch::kAArch64);
  a->_forced_inst_options = InstOptions::kNone; a->_diagnostic_options = DiagnosticOptions::kNone; a->_encoding_options = EncodingOptions::kNone;
  a->_instruction_alignment = 4;
  a->_buffer_data = sbuf[0]; a->_buffer_ptr = sbuf[0] + kPos; a->_buffer_end = sbuf[0] + kBufCap;
  sec(0)->_buffer._size = kPos;
  reports = 0;
  memset(arena_bytes, 0xA5, sizeof(arena_bytes)); set_arena(arena_bytes, sizeof(arena_bytes));
  return a;
}

#if KF_C03b
#define WITNESS_AFTER_EMIT(l) do { if (MODE != kOtherSection) V_WITNESS(l); } while (0)
#else
#define WITNESS_AFTER_EMIT(l) V_WITNESS(l)
#endif

template<uint32_t BITS> static inline int64_t sx(uint64_t v) { return int64_t(v << (64 - BITS)) >> (64 - BITS); }
enum Form : uint32_t { kB, kBl, kBcond, kCbz, kTbz, kAdr, kAdrp, kLdrLit };
enum Mode : uint32_t { kBoundHere, kBoundLater, kOtherSection };

struct Decoded { bool ok; int64_t disp; };
template<uint32_t FORM>
static Decoded decode_word(uint32_t w, uint32_t cond, uint32_t rt, uint32_t bit) {
  switch (FORM) {
    case kB: return { (w >> 26) == 0x05, sx<26>(w & 0x3FFFFFF) * 4 };
    case kBl: return { (w >> 26) == 0x25, sx<26>(w & 0x3FFFFFF) * 4 };
    case kBcond: return { (w >> 24) == 0x54 && (w & 0x10) == 0 && (w & 15) == cond, sx<19>((w >> 5) & 0x7FFFF) * 4 };
    case kCbz: return { (w >> 24) == 0xB4 && (w & 31) == rt, sx<19>((w >> 5) & 0x7FFFF) * 4 };                                      // cbz Xt
    case kTbz: return { ((w >> 24) & 0x7F) == 0x36 && (w & 31) == rt && (((w >> 31) << 5) | ((w >> 19) & 31)) == bit, sx<14>((w >> 5) & 0x3FFF) * 4 };
    case kAdr: return { (w & 0x9F000000u) == 0x10000000u && (w & 31) == rt, sx<21>((((w >> 5) & 0x7FFFF) << 2) | ((w >> 29) & 3)) };
    case kAdrp: return { (w & 0x9F000000u) == 0x90000000u && (w & 31) == rt, sx<21>((((w >> 5) & 0x7FFFF) << 2) | ((w >> 29) & 3)) * 4096 };
    default: return { (w >> 24) == 0x58 && (w & 31) == rt, sx<19>((w >> 5) & 0x7FFFF) * 4 };                                         // ldr Xt, literal
  }
}
template<uint32_t FORM> static bool reachable(int64_t d) {
  switch (FORM) {
    case kB: case kBl: return (d & 3) == 0 && d >= -(1ll << 27) && d < (1ll << 27);
    case kBcond: case kCbz: case kLdrLit: return (d & 3) == 0 && d >= -(1ll << 20) && d < (1ll << 20);
    case kTbz: return (d & 3) == 0 && d >= -(1ll << 15) && d < (1ll << 15);
    case kAdr: return d >= -(1ll << 20) && d < (1ll << 20);
    default: return (d & 4095) == 0 && d >= -(1ll << 32) && d < (1ll << 32);   // adrp to a label: byte distance must be whole pages
  }
}

template<uint32_t FORM, uint32_t MODE>
static void ref_site() {
  CodeHolder* c = make_holder(Arch::kAArch64, 2);
  for (uint32_t j = 0; j < 32; j++) sbuf[0][j] = nondet_u8();
  a64::Assembler* a = make_aasm(c);
  uint64_t lo = nondet_u64() & 0x1FFFFFFFFull;   // label positions below 8 GiB
  uint32_t id = MODE == kBoundHere ? add_bound_label(0, lo) : MODE == kOtherSection ? add_bound_label(1, lo) : add_label();
  uint32_t rt = nondet_u8() & 15, bit = nondet_u8() & 63;
  uint32_t ccsel = nondet_u8() & 3;
  const arm::CondCode ccs[4] = { arm::CondCode::kEQ, arm::CondCode::kNE, arm::CondCode::kGE, arm::CondCode::kLT };
  const uint32_t conds[4] = { 0, 1, 10, 11 };
  int32_t disp = FORM == kLdrLit ? int32_t(nondet_u32()) : 0;   // ldr Xt, [label, #disp]
  Operand_ none{}; Operand_ o0 = none, o1 = none, o2 = none;
  Label label(id);
  InstId inst;
  switch (FORM) {
    case kB: inst = a64::Inst::kIdB; o0 = label; break;
    case kBl: inst = a64::Inst::kIdBl; o0 = label; break;
    case kBcond: inst = BaseInst::compose_arm_inst_id(a64::Inst::kIdB, ccs[ccsel]); o0 = label; break;
    case kCbz: inst = a64::Inst::kIdCbz; o0 = a64::x(rt); o1 = label; break;
    case kTbz: inst = a64::Inst::kIdTbz; o0 = a64::x(rt); o1 = Imm(bit); o2 = label; break;
    case kAdr: inst = a64::Inst::kIdAdr; o0 = a64::x(rt); o1 = label; break;
    case kAdrp: inst = a64::Inst::kIdAdrp; o0 = a64::x(rt); o1 = label; break;
    default: inst = a64::Inst::kIdLdr; o0 = a64::x(rt); o1 = a64::ptr(label, disp); break;
  }
  if (MODE == kOtherSection) V_WITNESS("ref-foreign-section-emit");
  Error err = a->a64::Assembler::_emit(inst, o0, o1, o2, EmitterUtils::no_ext);
  verif_observe(uint64_t(err)); v_observe_bytes(sbuf[0], 32);
  uint32_t emitted = uint32_t(a->_buffer_ptr - sbuf[0]) - kPos;
  uint64_t addend = uint64_t(int64_t(disp));
  uint32_t w = uint32_t(load_le(sbuf[0] + kPos, 4));

  if (err != Error::kOk) {
    V_ASSERT(emitted == 0 && sec(0)->_buffer._size == kPos && reports == 1, "refused reference appends nothing and is reported once");
    V_ASSERT(c->_unresolved_fixup_count == 0 && c->_relocations._size == 0, "refused reference leaves no fixup and no relocation behind");
    V_ASSERT(MODE == kBoundHere && !reachable<FORM>(int64_t(lo + addend - kPos)), "a reference is refused only when the bound target is out of reach of the format");
    if (MODE == kBoundHere) V_WITNESS("ref-bound-out-of-reach");
    return;
  }
  V_ASSERT(emitted == 4 && sec(0)->_buffer._size == kPos + 4, "one instruction word appended");
  Decoded d = decode_word<FORM>(w, conds[ccsel], rt, bit);
  V_ASSERT(d.ok, "emitted word is the requested instruction with the requested register, condition and bit number");

  if (MODE == kBoundHere) {
    V_ASSERT(c->_unresolved_fixup_count == 0 && c->_fixups == nullptr, "bound target in this section needs no fixup");
    V_ASSERT(uint64_t(kPos) + uint64_t(d.disp) == lo + addend, "bound target: instruction address plus displacement is label position plus addend");
    WITNESS_AFTER_EMIT("ref-bound");
    return;
  }
  V_ASSERT(c->_unresolved_fixup_count == 1, "unbound or foreign-section target leaves exactly one unresolved reference");
  V_ASSERT(d.disp == 0, "unresolved reference carries a zero placeholder");
  uint64_t target, ip_base = 0; Error berr;
  if (MODE == kBoundLater) {
    // hand-over re-stated for the symbolic executor: one fixup (first arena object) on the label
    Fixup* f = reinterpret_cast<Fixup*>(arena_bytes);
    V_CONCRETIZE(label_tab[id]._offset_or_fixups, uint64_t(uintptr_t(f)), "one fixup on the label (first arena object)");
    V_CONCRETIZE(f->next, static_cast<Fixup*>(nullptr), "the fixup is the only one");
    V_CONCRETIZE(f->label_or_reloc_id, uint32_t(Globals::kInvalidId), "the fixup carries no relocation");
    V_ASSERT(f->section_id == 0 && f->offset == kPos, "fixup at the instruction word of this section");
    uint64_t to = nondet_u64() & 0x1FFFFFFFFull;
    berr = c->bind_label(label, 0, to);
    target = to + addend;
  }
  else {
    uint64_t s0 = nondet_u64() & 0xFFFFFFFFFFull, s1 = nondet_u64() & 0xFFFFFFFFFFull;
    sec(0)->_offset = s0; sec(1)->_offset = s1;
    // hand-over re-stated for the symbolic executor: the reference to a label bound elsewhere is one fixup (first arena object) at
    // the head of the cross-section list, carrying the label id; the label entry itself is untouched
    Fixup* xf = reinterpret_cast<Fixup*>(arena_bytes);
    V_CONCRETIZE(c->_fixups, xf, "foreign-section target: the fixup heads the cross-section list");
    V_CONCRETIZE(xf->next, static_cast<Fixup*>(nullptr), "foreign-section target: the cross-section list held nothing else");
    V_CONCRETIZE(xf->label_or_reloc_id, id, "foreign-section target: the fixup names the label");
    V_CONCRETIZE(xf->section_id, 0u, "foreign-section target: the fixup names the emitting section");
    V_ASSERT(label_tab[id].is_bound() && label_tab[id].section_id() == 1 && label_tab[id]._offset_or_fixups == lo, "foreign-section target: the label stays bound where it was");
    berr = c->resolve_cross_section_fixups();
    target = s1 + lo + addend; ip_base = s0;
  }
  verif_observe(uint64_t(berr)); v_observe_bytes(sbuf[0], 32);
  w = uint32_t(load_le(sbuf[0] + kPos, 4));
  d = decode_word<FORM>(w, conds[ccsel], rt, bit);
  V_ASSERT(d.ok, "patching keeps opcode, register, condition and bit number");
  int64_t need = int64_t(target - (ip_base + kPos));
  if (c->_unresolved_fixup_count == 0) {
    V_ASSERT(d.disp == need, "resolved reference: instruction address plus displacement is label position plus addend");
    WITNESS_AFTER_EMIT("ref-resolved");
  }
  else {
    V_ASSERT(c->_unresolved_fixup_count == 1 && d.disp == 0, "unresolvable reference stays counted and unpatched");
    V_ASSERT(!reachable<FORM>(need), "a reference stays unresolved only when the displacement does not fit the format");
    if (MODE == kBoundLater) V_ASSERT(berr == Error::kInvalidDisplacement, "bind reports the unrepresentable displacement");
    WITNESS_AFTER_EMIT("ref-unresolvable");
  }
}

#define REF(form, name) \
  HARNESS h_a64_##name##_bound() { ref_site<form, kBoundHere>(); } \
  HARNESS h_a64_##name##_later() { ref_site<form, kBoundLater>(); } \
  HARNESS h_a64_##name##_xsect() { ref_site<form, kOtherSection>(); }
REF(kB, b) REF(kBl, bl) REF(kBcond, bcond) REF(kCbz, cbz) REF(kTbz, tbz) REF(kAdr, adr) REF(kAdrp, adrp) REF(kLdrLit, ldr_lit)
