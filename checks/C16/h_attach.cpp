// C16 (emitters): detaching an emitter from a holder and attaching it to another one (or re-initialising it) leaves exactly
// the state a freshly constructed emitter has after the same attach: nothing of the earlier use survives.
#include <asmjit/x86.h>
#include <asmjit/core/emitterutils_p.h>
#include <asmjit/x86/x86instapi_p.h>
#include "verif.h"
using namespace asmjit;

template<typename T> union Raw { T v; Raw() noexcept {} ~Raw() noexcept {} };
static Raw<CodeHolder> code1, code2;
static Raw<Section> sect1, sect2;
static Section* sect_ptrs1[1]; static Section* sect_ptrs2[1];
static uint8_t buf1[32], buf2[32];

ASMJIT_BEGIN_SUB_NAMESPACE(x86)
void init_emitter_funcs(BaseEmitter* emitter) noexcept { (void)emitter; }     // formatter / helper function pointers: not part of this claim
void update_emitter_funcs(BaseEmitter* emitter) noexcept { (void)emitter; }
ASMJIT_END_SUB_NAMESPACE

static void make_holder(Raw<CodeHolder>& c, Raw<Section>& s, Section** ptrs, uint8_t* buf, bool x64, uint32_t size) {
  memset((void*)&c, 0, sizeof(c)); memset((void*)&s, 0, sizeof(s));
  c.v._environment.init(x64 ? Arch::kX64 : Arch::kX86);
  c.v._base_address = Globals::kNoBaseAddress;
  ptrs[0] = &s.v; c.v._sections._data = ptrs; c.v._sections._size = 1; c.v._sections._capacity = 1;
  s.v._buffer._data = buf; s.v._buffer._capacity = 32; s.v._buffer._size = size;
}
static bool same_state(const x86::Assembler& a, const x86::Assembler& b) {
  return a._code == b._code && a._emitter_flags == b._emitter_flags && a._instruction_alignment == b._instruction_alignment &&
         a._forced_inst_options == b._forced_inst_options && a._private_data == b._private_data && a._logger == b._logger && a._error_handler == b._error_handler &&
         a._environment == b._environment && a._gp_signature._bits == b._gp_signature._bits &&
         a._inst_options == b._inst_options && a._extra_reg._signature._bits == b._extra_reg._signature._bits && a._extra_reg._id == b._extra_reg._id && a._inline_comment == b._inline_comment &&
         a._encoding_options == b._encoding_options && a._diagnostic_options == b._diagnostic_options &&
         a._section == b._section && a._buffer_data == b._buffer_data && a._buffer_ptr == b._buffer_ptr && a._buffer_end == b._buffer_end &&
         // the function table: the validator depends on the mode of the holder (seeded change C16-m2 kept the first one)
         a._funcs.validate == b._funcs.validate && a._funcs.emit_prolog == b._funcs.emit_prolog && a._funcs.emit_epilog == b._funcs.emit_epilog &&
         a._funcs.emit_args_assignment == b._funcs.emit_args_assignment && a._funcs.format_instruction == b._funcs.format_instruction;
}
static void dirty(x86::Assembler& a) {   // what an arbitrary earlier use may leave behind
  a._inst_options = InstOptions(nondet_u32()); a._extra_reg._signature._bits = nondet_u32(); a._extra_reg._id = nondet_u32();
  a._inline_comment = nondet_bool() ? "x" : nullptr;
  a._buffer_ptr = a._buffer_data + (nondet_u8() & 31);   // cursor moved by emitted code
}

HARNESS h_detach_reattach() {
  bool x64_1 = nondet_bool(), x64_2 = nondet_bool();
  make_holder(code1, sect1, sect_ptrs1, buf1, x64_1, nondet_u8() & 31);
  make_holder(code2, sect2, sect_ptrs2, buf2, x64_2, nondet_u8() & 31);
  EncodingOptions eo = EncodingOptions(nondet_u32() & 0x3); DiagnosticOptions dopt = DiagnosticOptions(nondet_u32() & 0x1);
  x86::Assembler a, b;   // real constructors, not attached
  a._encoding_options = eo; b._encoding_options = eo; a._diagnostic_options = dopt; b._diagnostic_options = dopt;
  V_ASSERT(a.x86::Assembler::on_attach(code1.v) == Error::kOk, "first attach ok");
  dirty(a);
  V_ASSERT(a.x86::Assembler::on_detach(code1.v) == Error::kOk, "detach ok");
  a._code = nullptr;   // CodeHolder::detach() clears the back pointer after on_detach
  V_ASSERT(a.x86::Assembler::on_attach(code2.v) == Error::kOk, "second attach ok");
  V_ASSERT(b.x86::Assembler::on_attach(code2.v) == Error::kOk, "fresh attach ok");
  V_ASSERT(same_state(a, b), "re-attached emitter state equals a freshly attached emitter's");
  V_ASSERT(a._buffer_ptr == buf2 + sect2.v._buffer._size && a._buffer_end == buf2 + 32 && a._section == &sect2.v, "cursor at the end of the new holder's text section");
  V_ASSERT(Support::test(a._forced_inst_options, InstOptions::kX86_InvalidRex) == !x64_2 && a._private_data == (x64_2 ? 0x80u : 0x40u), "mode-dependent state follows the new holder");
  V_ASSERT(a._funcs.validate == (x64_2 ? x86::InstInternal::validate_x64 : x86::InstInternal::validate_x86), "the validator of the re-attached emitter is the one of the new holder's mode");
  verif_observe(uint32_t(a._forced_inst_options)); verif_observe(a._private_data);
  a._code = nullptr; b._code = nullptr;   // so that the destructors do not call CodeHolder::detach (not part of this unit)
  V_WITNESS("reattach");
}

HARNESS h_reinit() {
  bool x64 = nondet_bool();
  make_holder(code1, sect1, sect_ptrs1, buf1, x64, 0);
  x86::Assembler a, b;
  V_ASSERT(a.x86::Assembler::on_attach(code1.v) == Error::kOk && b.x86::Assembler::on_attach(code1.v) == Error::kOk, "attach ok");
  dirty(a);
  V_ASSERT(a.BaseAssembler::on_reinit(code1.v) == Error::kOk, "reinit ok");
  V_ASSERT(same_state(a, b), "re-initialised emitter state equals a freshly attached emitter's");
  a._code = nullptr; b._code = nullptr;
  V_WITNESS("reinit");
}
