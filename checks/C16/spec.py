# C16 — reset / reinit / reuse leave no residue
UNITS = [Unit('attach', harness=['h_attach.cpp'], repo_units=['asmjit/core/emitter.cpp', 'asmjit/core/assembler.cpp', 'asmjit/x86/x86assembler.cpp', 'asmjit/x86/x86instdb.cpp', 'asmjit/x86/x86instapi.cpp',
                                                             'asmjit/core/environment.cpp', 'asmjit/core/archtraits.cpp', 'asmjit/core/globals.cpp', 'asmjit/core/type.cpp'])]
UNITS.append(Unit('logindep', harness=['h_logindep.cpp'], repo_units=['asmjit/x86/x86assembler.cpp', 'asmjit/x86/x86instdb.cpp', 'asmjit/x86/x86instapi.cpp']))
LOG_FORMS = ['h_f64_add_gp64_gp64', 'h_f32_mov_mem4_gp32', 'h_f64_lea_gp64_mem0', 'h_f64_vaddps_zmm_zmm_mem64', 'h_f64_imul_gp32_gp32_imm', 'h_f32_push_gp32', 'h_f64_movq_xmm_gp64', 'h_f64_vpermq_ymm_ymm_imm']
HARNESSES = [Harness('logindep', n, unwind=17, mem_gb=6, timeout=900, validate_runs=200, rotate=(i % 4, 4), bounds='same symbolic operand space as the C01 harness of the same name; emitted with and without a logger attached') for i, n in enumerate(LOG_FORMS)] + [
    Harness('attach', 'h_detach_reattach', unwind=8, mem_gb=6, timeout=600, bounds='x86::Assembler attached to a holder of either mode, arbitrary one-shot state and cursor, detached, attached to a second holder of either mode; compared field by field with a fresh emitter attached to the second holder'),
    Harness('attach', 'h_reinit', unwind=8, mem_gb=6, timeout=600, bounds='on_reinit from an arbitrary used state vs a freshly attached emitter'),
]
EXPLANATION = 'bounded symbolic execution of the real attach / detach / reinit event handlers'
OUTSIDE = ['CodeHolder::reset/reinit themselves', 'Compiler reuse across functions (needs whole register-allocation runs)', 'Builder/Compiler attach events']
ASSUMPTIONS = ['EmitterUtils::log_instruction_emitted replaced by a counting stub (text formatting is C20)', 'x86::init_emitter_funcs / update_emitter_funcs (formatter and helper function pointers) stubbed empty', 'CodeHolder::attach/detach bookkeeping of the emitter list is not part of the unit: the event handlers are called directly']
