// C16 (holder): a CodeHolder recycled by reinit(), or by reset(soft|hard) followed by init(), carries nothing of the earlier program:
// every field that the public API exposes (sections, labels, relocations, named labels, pending fixups and their count, address table,
// logger / error handler for reset) equals that of a freshly constructed and initialised holder. The earlier program is "arbitrary":
// scalar fields get symbolic values, containers get symbolic sizes over static storage (drive the unit, not the program); the reset
// code itself (CodeHolder::reset / reinit / init and the container reset functions they call) is the real one.
#include <new>
#include <asmjit/core.h>
#include "verif.h"
#include "arena_stub.h"
using namespace asmjit;

template<typename T> union Raw { T v; Raw() noexcept {} ~Raw() noexcept {} };
static Raw<CodeHolder> used_store, fresh_store;
static Raw<Section> extra_section;
static uint8_t text_buf[32];
static Section* sect_tab[4]; static Section* order_tab[4];
static Raw<LabelEntry> label_tab[4];
static RelocEntry* reloc_tab[4];
static ArenaHashNode* hash_tab[4];
static Raw<Fixup> a_fixup;
static int dummy_logger, dummy_handler;   // only their addresses are used

static void arbitrary_use(CodeHolder& c) {
  // the text section has been written to (external buffer: released by nobody), laid out and given a virtual size
  c._text_section._buffer._data = text_buf; c._text_section._buffer._capacity = sizeof(text_buf);
  c._text_section._buffer._size = nondet_u8() & 31; c._text_section._buffer._flags = CodeBufferFlags::kIsExternal;
  c._text_section._offset = nondet_u64(); c._text_section._virtual_size = nondet_u64();
  // a second section, labels, relocations, named labels
  memset((void*)&extra_section, 0, sizeof(extra_section)); extra_section.v._section_id = 1;
  sect_tab[0] = &c._text_section; sect_tab[1] = &extra_section.v; order_tab[0] = &c._text_section; order_tab[1] = &extra_section.v;
  uint32_t ns = 1 + (nondet_u8() & 1);
  c._sections._data = sect_tab; c._sections._size = ns; c._sections._capacity = 4;
  c._sections_by_order._data = order_tab; c._sections_by_order._size = ns; c._sections_by_order._capacity = 4;
  c._label_entries._data = &label_tab[0].v; c._label_entries._size = nondet_u8() & 3; c._label_entries._capacity = 4;
  c._relocations._data = reloc_tab; c._relocations._size = nondet_u8() & 3; c._relocations._capacity = 4;
  c._named_labels._data = hash_tab; c._named_labels._size = nondet_u8() & 3; c._named_labels._buckets_count = 4; c._named_labels._buckets_grow = 3;
  // pending fixups, address table
  c._fixups = nondet_bool() ? &a_fixup.v : nullptr;
  c._unresolved_fixup_count = nondet_u32();
  c._fixup_data_pool._data = nondet_bool() ? reinterpret_cast<decltype(c._fixup_data_pool._data)>(&a_fixup.v) : nullptr;
  c._address_table_section = nondet_bool() ? &extra_section.v : nullptr;
  c._address_table_entries._root = nondet_bool() ? reinterpret_cast<decltype(c._address_table_entries._root)>(&a_fixup.v) : nullptr;
  c._logger = nondet_bool() ? reinterpret_cast<Logger*>(&dummy_logger) : nullptr;
  c._error_handler = nondet_bool() ? reinterpret_cast<ErrorHandler*>(&dummy_handler) : nullptr;
}

// everything but the arena and the storage of the text buffer (a soft reset keeps the allocation for reuse)
static bool same_holder(const CodeHolder& a, const CodeHolder& b, bool compare_attached_objects) {
  bool ok = a._environment == b._environment && a._base_address == b._base_address &&
    a._attached_first == b._attached_first && a._attached_last == b._attached_last &&
    a._sections._size == b._sections._size && a._sections_by_order._size == b._sections_by_order._size &&
    a._label_entries._size == b._label_entries._size && a._relocations._size == b._relocations._size &&
    a._named_labels._size == b._named_labels._size && a._named_labels._buckets_count == b._named_labels._buckets_count &&
    a._fixups == b._fixups && a._unresolved_fixup_count == b._unresolved_fixup_count && a._fixup_data_pool._data == b._fixup_data_pool._data &&
    a._address_table_section == b._address_table_section && a._address_table_entries._root == b._address_table_entries._root &&
    a._text_section._section_id == b._text_section._section_id && a._text_section.flags() == b._text_section.flags() &&
    a._text_section._alignment == b._text_section._alignment && a._text_section._order == b._text_section._order &&
    a._text_section._offset == b._text_section._offset && a._text_section._virtual_size == b._text_section._virtual_size &&
    a._text_section._buffer._size == b._text_section._buffer._size;
  if (compare_attached_objects) ok = ok && a._logger == b._logger && a._error_handler == b._error_handler;
  return ok;
}
static void observe(const CodeHolder& c) {
  verif_observe(c._unresolved_fixup_count); verif_observe(c._sections._size); verif_observe(c._label_entries._size); verif_observe(c._relocations._size);
  verif_observe(c._text_section._buffer._size); verif_observe(c._text_section._offset); verif_observe(c._text_section._virtual_size);
}

static inline Arch any_arch() { return nondet_bool() ? Arch::kX64 : nondet_bool() ? Arch::kX86 : Arch::kAArch64; }

template<int OP> static void holder_case() {   // OP 0: reinit, 1: reset(soft) + init, 2: reset(hard) + init
  CodeHolder* u = new (&used_store.v) CodeHolder();
  CodeHolder* f = new (&fresh_store.v) CodeHolder();
  Environment env1(any_arch()), env2(any_arch());
  uint64_t base2 = nondet_bool() ? Globals::kNoBaseAddress : nondet_u64();
  V_ASSERT(u->init(env1, nondet_u64()) == Error::kOk, "first init ok");
  arbitrary_use(*u);
  if (OP == 0) {
    Logger* lg = u->_logger; ErrorHandler* eh = u->_error_handler; uint64_t base1 = u->_base_address;
    V_ASSERT(u->reinit() == Error::kOk, "reinit ok");
    V_ASSERT(f->init(env1, base1) == Error::kOk, "fresh init ok");
    V_ASSERT(u->_logger == lg && u->_error_handler == eh, "reinit keeps the attached logger and error handler");
    V_ASSERT(same_holder(*u, *f, false), "re-initialised holder equals a freshly initialised one");
    V_WITNESS("holder reinit");
  }
  else {
    u->reset(OP == 1 ? ResetPolicy::kSoft : ResetPolicy::kHard);
    V_ASSERT(!u->is_initialized() && u->_logger == nullptr && u->_error_handler == nullptr && u->_sections._size == 0 && u->_unresolved_fixup_count == 0 && u->_fixups == nullptr, "a reset holder is uninitialised and empty");
    if (OP == 2) V_ASSERT(u->_text_section._buffer._data == nullptr && u->_text_section._buffer._capacity == 0, "a hard reset gives up the text buffer");
    V_ASSERT(u->init(env2, base2) == Error::kOk, "second init ok");
    V_ASSERT(f->init(env2, base2) == Error::kOk, "fresh init ok");
    V_ASSERT(same_holder(*u, *f, true), "reset and re-initialised holder equals a freshly initialised one");
    V_WITNESS("holder reset");
  }
  V_ASSERT(u->_sections._size == 1 && u->_sections[0] == &u->_text_section && u->_sections_by_order[0] == &u->_text_section, "the only section is the built-in text section");
  observe(*u); observe(*f);
  // leave both uninitialised so that nothing is torn down by a destructor (there is none: Raw storage)
}
HARNESS h_holder_reinit() { holder_case<0>(); }
HARNESS h_holder_reset_soft() { holder_case<1>(); }
HARNESS h_holder_reset_hard() { holder_case<2>(); }
