// C16 (logging independence): the C01 form family compiled as "logger attached vs not attached" checks.
#define VF_LOGINDEP 1
#include "../C01/forms_gen.h"
