// C16 (holder with several emitters): CodeHolder::reset() / ~CodeHolder() detach every attached emitter completely - back pointer and both
// list links cleared, the detach event delivered once - so that an emitter can be attached to another holder without dragging a stale
// neighbour along; CodeHolder::attach() / detach() keep the list of attached emitters well-formed. Emitters are a minimal harness subclass
// of BaseEmitter (the event handlers count); the list code is the real CodeHolder::attach / detach / reset.
#include <new>
#include <asmjit/core.h>
#include "verif.h"
#include "arena_stub.h"
using namespace asmjit;

template<typename T> union Raw { T v; Raw() noexcept {} ~Raw() noexcept {} };
static int n_attach[3], n_detach[3];
struct Em : public BaseEmitter {
  int idx;
  explicit Em(int i) noexcept : BaseEmitter(EmitterType::kAssembler), idx(i) { _arch_mask = ~uint64_t(0); }
  Error _emit(InstId, const Operand_&, const Operand_&, const Operand_&, const Operand_*) override { return Error::kOk; }
  Error _emit_op_array(InstId, const Operand_*, size_t) override { return Error::kOk; }
  Error finalize() override { return Error::kOk; }
  Error section(Section*) override { return Error::kOk; }
  Label new_label() override { return Label(); }
  Label new_named_label(const char*, size_t, LabelType, uint32_t) override { return Label(); }
  Error bind(const Label&) override { return Error::kOk; }
  Error align(AlignMode, uint32_t) override { return Error::kOk; }
  Error embed(const void*, size_t) override { return Error::kOk; }
  Error embed_data_array(TypeId, const void*, size_t, size_t) override { return Error::kOk; }
  Error embed_const_pool(const Label&, const ConstPool&) override { return Error::kOk; }
  Error embed_label(const Label&, size_t) override { return Error::kOk; }
  Error embed_label_delta(const Label&, const Label&, size_t) override { return Error::kOk; }
  Error comment(const char*, size_t) override { return Error::kOk; }
  Error on_attach(CodeHolder& c) noexcept override { n_attach[idx]++; return BaseEmitter::on_attach(c); }
  Error on_detach(CodeHolder& c) noexcept override { n_detach[idx]++; return BaseEmitter::on_detach(c); }
};
static Raw<CodeHolder> h1, h2;
static Raw<Em> em[3];

static bool list_is(const CodeHolder& c, BaseEmitter* a, BaseEmitter* b, BaseEmitter* d) {   // the attached list is exactly a, b, d (nullptr = absent)
  BaseEmitter* seq[3] = { a, b, d }; unsigned n = 0; while (n < 3 && seq[n]) n++;
  if (n == 0) return c._attached_first == nullptr && c._attached_last == nullptr;
  if (c._attached_first != seq[0] || c._attached_last != seq[n - 1]) return false;
  for (unsigned i = 0; i < n; i++) {
    if (seq[i]->_attached_prev != (i ? seq[i - 1] : nullptr) || seq[i]->_attached_next != (i + 1 < n ? seq[i + 1] : nullptr) || seq[i]->_code != &c) return false;
  }
  return true;
}

// The holder is built directly (zeroed, environment set: the reset of its containers is h_holder.cpp's subject) and the emitters are linked
// by hand exactly as CodeHolder::attach links them; PICK (a constant) is the emitter that is re-attached afterwards.
template<unsigned N, int OP, unsigned PICK> static void multi_case() {   // OP 0: reset(soft), 1: reset(hard), 2: detach emitter PICK
  memset((void*)&h1, 0, sizeof(h1)); memset((void*)&h2, 0, sizeof(h2));
  CodeHolder* c1 = &h1.v; CodeHolder* c2 = &h2.v;
  Arch arch = nondet_bool() ? Arch::kX64 : Arch::kAArch64;
  c1->_environment.init(arch); c2->_environment.init(arch); c1->_base_address = c2->_base_address = Globals::kNoBaseAddress;
  Em* e[3];
  for (unsigned i = 0; i < 3; i++) { n_attach[i] = n_detach[i] = 0; e[i] = new (&em[i].v) Em(int(i)); }
  for (unsigned i = 0; i < N; i++) { e[i]->_code = c1; e[i]->_attached_prev = i ? e[i - 1] : nullptr; e[i]->_attached_next = i + 1 < N ? e[i + 1] : nullptr; }
  c1->_attached_first = e[0]; c1->_attached_last = e[N - 1];
  const unsigned pick = PICK;
  if (OP == 2) {
    V_ASSERT(c1->detach(e[pick]) == Error::kOk, "detach ok");
    V_ASSERT(e[pick]->_code == nullptr && e[pick]->_attached_prev == nullptr && e[pick]->_attached_next == nullptr && n_detach[pick] == 1, "a detached emitter keeps no link to the holder or its neighbours");
    BaseEmitter* rest[3] = { nullptr, nullptr, nullptr }; unsigned k = 0;
    for (unsigned i = 0; i < N; i++) if (i != pick) rest[k++] = e[i];
    V_ASSERT(list_is(*c1, rest[0], rest[1], rest[2]), "the remaining emitters stay attached in order");
    V_WITNESS("multi detach");
  } else {
    c1->reset(OP == 0 ? ResetPolicy::kSoft : ResetPolicy::kHard);
    V_ASSERT(list_is(*c1, nullptr, nullptr, nullptr), "a reset holder has no attached emitters");
    for (unsigned i = 0; i < N; i++)
      V_ASSERT(e[i]->_code == nullptr && e[i]->_attached_prev == nullptr && e[i]->_attached_next == nullptr && n_detach[i] == 1, "every emitter of a reset holder is completely detached, once");
    V_WITNESS("multi reset");
  }
  // reuse: the picked emitter goes to another holder and must be alone there
  V_ASSERT(c2->attach(e[pick]) == Error::kOk && n_attach[pick] == 1, "re-attach ok");
  V_ASSERT(list_is(*c2, e[pick], nullptr, nullptr), "an emitter attached to another holder brings no stale neighbour along");
  verif_observe(uint64_t(n_detach[0] + n_detach[1] + n_detach[2]));
}
HARNESS h_multi_reset_soft_2() { multi_case<2, 0, 0>(); }
HARNESS h_multi_reset_hard_3() { multi_case<3, 1, 1>(); }
HARNESS h_multi_detach_3() { multi_case<3, 2, 1>(); }
HARNESS h_multi_detach_1() { multi_case<1, 2, 0>(); }
