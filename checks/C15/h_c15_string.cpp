// C15 (String): an allocation failure inside String::assign / append / prepare leaves the string exactly as it was - same
// representation, same buffer (still allocated), same content - and the retried call succeeds with the right content; the old heap
// buffer is released exactly once, and only after its replacement exists. malloc and free are routed through the harness: malloc may
// fail, free is recorded.
#include <asmjit/core.h>
#include "verif.h"
using namespace asmjit;

static bool may_fail = false; static int n_malloc = 0, n_failed = 0, n_free = 0;
static void* freed[4];
extern "C" {
#if defined(VERIF_NATIVE)
void* __real_malloc(size_t); void __real_free(void*);
#define REAL_MALLOC __real_malloc
#define REAL_FREE __real_free
#else
#define REAL_MALLOC malloc
#define REAL_FREE free
#endif
__attribute__((noinline, used)) void* verif_malloc(size_t n) {
  n_malloc++;
  if (may_fail && nondet_bool()) { n_failed++; return nullptr; }
  void* p = REAL_MALLOC(n); __CPROVER_assume(p != nullptr); return p;
}
__attribute__((noinline, used)) void verif_free(void* p) {
  if (p && n_free < 4) freed[n_free] = p;
  if (p) n_free++;
  // the block is deliberately not handed back: the harness still reads it to show that nothing else was changed, and a second free
  // of the same pointer is visible in the record instead of being undefined behaviour
}
#if defined(VERIF_NATIVE)
void* __wrap_malloc(size_t n) { return verif_malloc(n); }
void __wrap_free(void* p) { verif_free(p); }
#endif
}
static bool was_freed(const void* p) { for (int i = 0; i < 4; i++) if (i < n_free && freed[i] == p) return true; return false; }

static char src[48];

// PRE: 0 = small (embedded, LEN <= 30), 1 = heap buffer of capacity 15. OP: 0 = assign(src, N), 1 = append(src, N), 2 = append_chars(c, N),
// 3 = assign_chars(c, N) (the kAssign branch of String::prepare, shared by assign_format / assign_hex / assign_int).
// LEN, N constants such that the operation must grow the string; contents symbolic.
template<int PRE, int OP, unsigned LEN, unsigned N> static void string_case() {
  String s;
  char old[32];
  for (unsigned i = 0; i < LEN; i++) old[i] = char('a' + (nondet_u8() & 15));
  for (unsigned i = 0; i < N && i < sizeof(src); i++) src[i] = char('A' + (nondet_u8() & 15));
  char fill = char('0' + (nondet_u8() & 7));
  may_fail = false; n_malloc = n_failed = n_free = 0;
  if (PRE == 1) {
    char* buf = static_cast<char*>(malloc(16)); __CPROVER_assume(buf != nullptr);
    s._large.type = String::kTypeLarge; s._large.size = LEN; s._large.capacity = 15; s._large.data = buf;
    for (unsigned i = 0; i < LEN; i++) buf[i] = old[i];
    buf[LEN] = 0;
  }
  else {
    V_ASSERT(s.assign(old, LEN) == Error::kOk && !s.is_large_or_external(), "pre-state: small string");
  }
  const char* data_before = s.data();
  n_malloc = 0; may_fail = true;

  auto run = [&]() -> Error {
    if (OP == 0) return s.assign(src, N);
    if (OP == 1) return s.append(src, N);
    if (OP == 3) return s.assign_chars(fill, N);
    return s.append_chars(fill, N);
  };
  Error e1 = run();
  int failed1 = n_failed;
  if (e1 != Error::kOk) {
    V_ASSERT(e1 == Error::kOutOfMemory && failed1 >= 1, "the only error is the injected allocation failure");
    V_ASSERT(s.size() == LEN && s.data() == data_before && (PRE == 1) == s.is_large_or_external(), "failed call: size, buffer and representation unchanged");
    V_ASSERT(!was_freed(data_before) && n_free == 0, "failed call: nothing was released");
    bool same = true;
    for (unsigned i = 0; i < LEN; i++) same = same && s.data()[i] == old[i];
    V_ASSERT(same && s.data()[LEN] == 0, "failed call: content unchanged and terminated");
    V_WITNESS("string op failed");
    may_fail = false;
    Error e2 = run();
    V_ASSERT(e2 == Error::kOk, "retry without failures succeeds");
  }
  else {
    V_ASSERT(failed1 == 0, "success only without a failed allocation");
    V_WITNESS("string op ok first time");
  }
  may_fail = false;
  // final state: the right content in a new heap buffer; the old heap buffer released exactly once
  unsigned keep = (OP == 0 || OP == 3) ? 0 : LEN;
  V_ASSERT(s.size() == keep + N && s.is_large_or_external() && s.data() != data_before && s.data()[keep + N] == 0, "final: grown into a new heap buffer, terminated");
  bool okc = true;
  for (unsigned i = 0; i < keep; i++) okc = okc && s.data()[i] == old[i];
  for (unsigned i = 0; i < N; i++) okc = okc && s.data()[keep + i] == (OP >= 2 ? fill : src[i]);
  V_ASSERT(okc, "final: content is the old content (append) followed by the new characters");
  V_ASSERT(n_free == (PRE == 1 ? 1 : 0) && (PRE != 1 || freed[0] == data_before), "final: the old heap buffer was released exactly once, nothing else");
  V_ASSERT(!was_freed(s.data()), "final: the live buffer was not released");
  v_observe_bytes((const uint8_t*)s.data(), keep + N);
  s._large.type = 0; s._small.type = 0;   // no destructor work
}
HARNESS h_c15_string_assign_heap() { string_case<1, 0, 9, 40>(); }
HARNESS h_c15_string_assign_small() { string_case<0, 0, 9, 40>(); }
HARNESS h_c15_string_append_heap() { string_case<1, 1, 9, 24>(); }
HARNESS h_c15_string_append_chars_heap() { string_case<1, 2, 12, 8>(); }
HARNESS h_c15_string_assign_chars_heap() { string_case<1, 3, 9, 40>(); }
HARNESS h_c15_string_assign_chars_small() { string_case<0, 3, 9, 40>(); }
