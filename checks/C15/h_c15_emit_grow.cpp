// C15 (assembler): the code buffer has fewer than 16 free bytes, so x86::Assembler::_emit must grow it through the real
// CodeHolder::grow_buffer; malloc/realloc may fail. Failure: kOutOfMemory, nothing appended, buffer and pointers intact.
// Success: earlier bytes preserved, emitter pointers re-based, instruction appended.
#include "x86_env.h"
#include "libc_fault.h"
using namespace asmjit;
using namespace venv;

HARNESS h_c15_emit_grow() {
  x86::Assembler* a = make_asm(true, false);
  uint8_t* heap = static_cast<uint8_t*>(malloc(32)); V_ASSUME(heap != nullptr);
  uint32_t used = 17 + (nondet_u8() & 15);   // 17..32 bytes used: 0..15 bytes free
  V_ASSUME(used <= 32);
  for (uint32_t i = 0; i < 32; i++) heap[i] = uint8_t(i * 7 + 1);
  Section* s = text();
  s->_buffer._data = heap; s->_buffer._capacity = 32; s->_buffer._size = used;
  a->_buffer_data = heap; a->_buffer_end = heap + 32; a->_buffer_ptr = heap + used;
  uint32_t d = nondet_u8() & 15, r = nondet_u8() & 15;
  Operand_ none{}; Operand_ o0 = x86::gpq(d), o1 = x86::gpq(r);
  libc_fault::may_fail = true;
  Error e = a->x86::Assembler::_emit(x86::Inst::kIdAdd, o0, o1, none, EmitterUtils::no_ext);
  libc_fault::may_fail = false;
  verif_observe(uint32_t(e)); verif_observe(used);
  V_ASSERT(e == Error::kOk || e == Error::kOutOfMemory, "only out-of-memory is reported");
  if (e != Error::kOk) {
    V_ASSERT(reports >= 1 && last_reported == e, "failure reported to the error handler");   // (ensure_space and the Failed path both report: twice)
    V_ASSERT(a->_buffer_data == heap && a->_buffer_end == heap + 32 && a->_buffer_ptr == heap + used, "failed growth leaves the emitter pointers untouched");
    V_ASSERT(s->_buffer._data == heap && s->_buffer._capacity == 32 && s->_buffer._size == used, "failed growth leaves the section buffer untouched");
    bool same = true; for (uint32_t i = 0; i < 32; i++) if (i < used) same &= heap[i] == uint8_t(i * 7 + 1);
    V_ASSERT(same, "failed growth leaves the code bytes intact");
    // retry with memory available
    Error r2 = a->x86::Assembler::_emit(x86::Inst::kIdAdd, o0, o1, none, EmitterUtils::no_ext);
    V_ASSERT(r2 == Error::kOk, "retry succeeds once memory is available");
    V_WITNESS("grow-failed-then-retried");
  } else V_WITNESS("grow-ok");
  uint8_t* nd = s->_buffer._data;
  V_ASSERT(s->_buffer._capacity >= used + 16, "buffer has room after growth");
  V_ASSERT(a->_buffer_data == nd && a->_buffer_end == nd + s->_buffer._capacity && a->_buffer_ptr == nd + used + 3, "emitter pointers re-based on the new buffer and advanced by the instruction");
  bool same = true; for (uint32_t i = 0; i < 32; i++) if (i < used) same &= nd[i] == uint8_t(i * 7 + 1);
  V_ASSERT(same, "bytes emitted before the growth are preserved");
  V_ASSERT((nd[used] & 0xF8) == 0x48 && nd[used + 1] == 0x01 && (nd[used + 2] >> 6) == 3, "the instruction follows them (REX.W 01 /r)");
  v_observe_bytes(nd + used, 3);
}
