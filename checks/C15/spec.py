# C15 — allocation failure yields an error, never a crash/leak/wrong code.
# Fault schedules are symbolic: every arena request (include/arena_stub.h with may_fail) / malloc / VirtMem call may fail
# independently, so "the k-th request fails, for every k" and all multi-failure patterns are inside one query per workload.
# The check is assembled from fragments (frag_*.py), one per subsystem.
import glob, os
_here = os.path.dirname(os.path.abspath(__file__))
UNITS = []; HARNESSES = []; OUTSIDE = []; ASSUMPTIONS = []
for _f in sorted(glob.glob(os.path.join(_here, 'frag_*.py'))):
    _ns = dict(Unit=Unit, Harness=Harness)
    exec(compile(open(_f).read(), _f, 'exec'), _ns)
    UNITS += _ns.get('UNITS', []); HARNESSES += _ns.get('HARNESSES', []); OUTSIDE += _ns.get('OUTSIDE', []); ASSUMPTIONS += _ns.get('ASSUMPTIONS', [])
EXPLANATION = 'bounded symbolic execution of real allocation-failure paths with a symbolic fault schedule'
OUTSIDE += ['whole compile pipelines (register allocation passes allocate in hundreds of places)']
