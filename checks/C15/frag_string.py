UNITS = [Unit('c15string', harness=['h_c15_string.cpp'], repo_units=['asmjit/core/string.cpp'], wrap=['malloc', 'free'])]
HARNESSES = [Harness('c15string', 'h_c15_string_' + n, unwind=42, mem_gb=6, timeout=900, bounds=b) for n, b in (
    ('assign_heap', 'String with a 15-character heap buffer holding 9 symbolic characters, assign() of 40 symbolic characters; the growth malloc may fail; then a retry'),
    ('assign_small', 'embedded 9-character string, assign() of 40 characters'),
    ('append_heap', 'heap string (capacity 15, 9 characters) + append() of 24 characters'),
    ('append_chars_heap', 'heap string (capacity 15, 12 characters) + append_chars(c, 8)'),
    ('assign_chars_heap', 'heap string (capacity 15, 9 characters), assign_chars(c, 40): the kAssign branch of String::prepare (shared by assign_format / assign_hex / assign_int); the growth malloc may fail; then a retry'),
    ('assign_chars_small', 'embedded 9-character string, assign_chars(c, 40)'))]
ASSUMPTIONS = ['String harnesses: malloc (may fail) and free (recorded, the block is kept readable) routed through the harness']
OUTSIDE = ['String: append() growing an embedded (small) string (no verdict within 6 GB: the embedded characters overlay the pointer field); other sizes than the ones listed per harness (sizes are constants so that every memcpy length is concrete); append_format / append_hex growth (same prepare() path)']
