UNITS = [Unit('c15builder', harness=['h_c15_builder.cpp'], repo_units=['asmjit/core/builder.cpp', 'asmjit/core/emitter.cpp', 'asmjit/core/globals.cpp', 'asmjit/core/operand.cpp', 'asmjit/core/type.cpp', 'asmjit/core/emitterutils.cpp'])]
HARNESSES = [
    Harness('c15builder', 'h_c15_emit', unwind=17, mem_gb=8, timeout=900, bounds='BaseBuilder::_emit (imul eax, ebx, 7; arbitrary option bits), inline comment present or not; each of the two arena requests (node, comment copy) may fail independently; then a failure-free retry'),
    Harness('c15builder', 'h_c15_nodes', unwind=17, mem_gb=8, timeout=900, bounds='align / embed_label / embed_label_delta / comment / embed (4 bytes): the node request may fail; then a failure-free retry'),
]
ASSUMPTIONS = ['Arena replaced by the malloc-backed stub include/arena_stub.h whose every request may fail (nondeterministic)']
