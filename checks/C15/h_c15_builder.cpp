// C15 (Builder): every arena request may fail. A failing call reports kOutOfMemory, leaves the node list as it was and the
// one-shot state cleared; repeating the call once memory is available appends exactly the node a failure-free run appends.
#include <asmjit/x86.h>
#include <asmjit/core/emitterutils_p.h>
#include "verif.h"
#include "arena_stub.h"
using namespace asmjit;

static int reports; static Error last_err;
template<typename T> union Raw { T v; Raw() noexcept {} ~Raw() noexcept {} };
static Raw<CodeHolder> code_store;   // zeroed holder: the node-creating calls only test that a holder is attached
ASMJIT_BEGIN_NAMESPACE
Error BaseEmitter::_report_error(Error err, const char*) { reports++; last_err = err; return err; }
ASMJIT_END_NAMESPACE

static void any_op(Operand_& o) { o._signature._bits = nondet_u32() | 1u; o._base_id = nondet_u32(); o._data[0] = nondet_u32(); o._data[1] = nondet_u32(); }
static uint32_t list_len(BaseBuilder& b) { uint32_t n = 0; for (BaseNode* p = b._node_list.first(); p && n < 8; p = p->next()) n++; return n; }

HARNESS h_c15_emit() {
  BaseBuilder b; b._forced_inst_options = InstOptions::kNone;
  // operand contents are irrelevant to the failure paths (capture of arbitrary operands is C08): concrete here
  Operand_ o[3], ext[3]; o[0] = x86::eax; o[1] = x86::ebx; o[2] = Imm(7); for (int i = 0; i < 3; i++) ext[i].reset();
  InstId id = x86::Inst::kIdImul; InstOptions opts = InstOptions(nondet_u32()) & ~InstOptions::kReserved;
  static const char text[] = "cm"; const char* cmt = nondet_bool() ? text : nullptr;
  reports = 0;
  arena_stub::may_fail = true;
  b._inst_options = opts; b._inline_comment = cmt; b._extra_reg.init(x86::k(1));
  Error e = b.BaseBuilder::_emit(id, o[0], o[1], o[2], ext);
  arena_stub::may_fail = false;
  V_ASSERT(e == Error::kOk || e == Error::kOutOfMemory, "only out-of-memory is reported");
  V_ASSERT(uint32_t(b._inst_options) == 0 && !b._extra_reg.is_reg() && b._inline_comment == nullptr, "one-shot state cleared whatever the outcome");
  uint32_t n_after = list_len(b);
  if (e != Error::kOk) {
    V_ASSERT(reports == 1 && last_err == e, "failure reported exactly once");
    V_ASSERT(n_after == 0 && b._cursor == nullptr, "failed call leaves the node list untouched");
    // retry with memory available
    b._inst_options = opts; b._inline_comment = cmt; b._extra_reg.init(x86::k(1));
    Error r = b.BaseBuilder::_emit(id, o[0], o[1], o[2], ext);
    V_ASSERT(r == Error::kOk, "retry succeeds once memory is available");
    V_WITNESS("emit-failed-then-retried");
  } else if (arena_stub::n_failed) {
    // the node was created but the inline-comment copy failed: asmjit keeps the instruction (comment dropped)
    V_WITNESS("emit-ok-despite-failed-comment-copy");
  } else V_WITNESS("emit-ok");
  V_ASSERT(list_len(b) == 1, "exactly one node after success or retry");
  InstNode* node = b._node_list.first()->as<InstNode>();
  V_ASSERT(node->is_inst() && node->inst_id() == id && node->options() == opts && node->op_count() == 3, "the node is the one a failure-free run creates");
  V_ASSERT(node->extra_reg().is_reg() && node->extra_reg().id() == 1, "extra register stored");
  verif_observe(uint32_t(e)); verif_observe(arena_stub::n_failed);
}

HARNESS h_c15_nodes() {
  BaseBuilder b; b._forced_inst_options = InstOptions::kNone;
  memset((void*)&code_store, 0, sizeof(code_store)); b._code = &code_store.v;
  uint32_t kind = nondet_u8() & 7; V_ASSUME(kind <= 4);
  uint32_t x = nondet_u32() & 0xFFFF, y = 1u << (nondet_u8() & 3);
  static const uint8_t blob[4] = { 9, 8, 7, 6 };
  reports = 0;
  for (int attempt = 0; attempt < 2; attempt++) {
    arena_stub::may_fail = attempt == 0;
    Error e;
    Label l; l._base_id = x; Label base; base._base_id = x + 1;
    switch (kind) {
      case 0: e = b.BaseBuilder::align(AlignMode::kCode, y * 4); break;
      case 1: e = b.BaseBuilder::comment("xy", 2); break;
      case 2: e = b.BaseBuilder::embed(blob, 4); break;
      case 3: e = b.BaseBuilder::embed_data_array(TypeId::kUInt16, blob, 2, y); break;
      default: e = b.BaseBuilder::embed(blob, 3); break;
    }
    arena_stub::may_fail = false;
    V_ASSERT(e == Error::kOk || e == Error::kOutOfMemory, "only out-of-memory is reported");
    if (e == Error::kOk) { V_ASSERT(list_len(b) == 1 && b._cursor == b._node_list.first(), "one node appended, cursor on it"); V_WITNESS("node-appended"); break; }
    V_ASSERT(attempt == 0, "the retry with memory available succeeds");
    V_ASSERT(list_len(b) == 0 && b._cursor == nullptr, "failed call leaves the node list untouched");
    V_ASSERT(reports == 1, "failure reported exactly once");
    V_WITNESS("node-failed");
  }
  b._code = nullptr;   // detached again before the destructor runs
}
