// C18 — String (core/string.cpp): small (embedded), external (StringTmp) and heap representations, one operation from a
// hand-built valid pre-state, contents compared with a plain char-array model; number formatting checked by parsing back.
#include <asmjit/core.h>
#include <asmjit/core/string.h>
#include <stdlib.h>
#include "verif.h"
using namespace asmjit;

static const unsigned MAXM = 96;
struct SModel { char m[MAXM]; size_t n; };

// `d` is where the text must live according to the model of the representation (embedded array, external buffer or the
// heap pointer field): data() is compared with it, the characters are read through it (reading through data() itself makes
// the solver consider the pointer that overlays the embedded characters).
static inline void str_equals_model(String& s, SModel& m, unsigned upto, const char* d) {
  V_ASSERT(s.size() == m.n && s.is_empty() == (m.n == 0), "string: size equals the model size");
  V_ASSERT(s.size() <= s.capacity(), "string: size within capacity");
  V_ASSERT(s.data() == d, "string: data() is the buffer of the current representation");
  for (unsigned i = 0; i < upto; i++) if (i < m.n) V_ASSERT(d[i] == m.m[i], "string: character equals the model character");
  V_ASSERT(d[m.n] == '\0', "string: null terminated at its size");
  V_ASSERT(s.end() == s.begin() + m.n, "string: begin and end span the size");
  verif_observe(m.n); for (unsigned i = 0; i < upto; i++) if (i < m.n) verif_observe(uint8_t(d[i]));
}

// KIND 0: embedded (capacity 30), 1: StringTmp<8> (external buffer, capacity 15), 2: heap (capacity 15).
// OPSET selects a group of operations (one harness per representation and group keeps each formula small).
// LEN: length of the pre-state content; N: size argument of the operation. All three are constants per instantiation so that
// every length reaching memcpy/memset/malloc is concrete for the solver; contents, characters and the operation are symbolic.
template<unsigned KIND, unsigned LEN, unsigned N, unsigned OPSET>
static void string_case() {
  StringTmp<8> tmp; String plain;
  String& s = KIND == 1 ? static_cast<String&>(tmp) : plain;
  const size_t cap0 = KIND == 0 ? String::kSSOCapacity : 15;
  char* heap = nullptr;
  SModel m; m.n = LEN;
  for (unsigned i = 0; i < LEN; i++) m.m[i] = char(nondet_u8());
  if (KIND == 0) { s._small.type = uint8_t(LEN); for (unsigned i = 0; i < LEN; i++) s._small.data[i] = m.m[i]; s._small.data[LEN] = 0; }
  else if (KIND == 1) { s._large.size = LEN; for (unsigned i = 0; i < LEN; i++) tmp._embedded_data[i] = m.m[i]; tmp._embedded_data[LEN] = 0; }
  else { heap = static_cast<char*>(malloc(16)); s._large.type = String::kTypeLarge; s._large.data = heap; s._large.capacity = 15; s._large.size = LEN;
         for (unsigned i = 0; i < LEN; i++) heap[i] = m.m[i]; heap[LEN] = 0; }
  V_ASSERT(s.capacity() == cap0 && s.is_large_or_external() == (KIND != 0) && s.is_external() == (KIND == 1), "string: pre-state has the representation intended");
  str_equals_model(s, m, LEN, KIND == 0 ? s._small.data : KIND == 1 ? tmp._embedded_data : heap);
  char src[N + 1]; for (unsigned i = 0; i < N; i++) src[i] = char(nondet_u8()); src[N] = 0;
  char c = char(nondet_u8());
  unsigned op = OPSET * 4 + (nondet_u8() & 3); if (op > 10) op = 10;
  verif_observe(op);
  Error e = Error::kOk; size_t need = m.n;
  switch (op) {
    case 0: e = s.assign(src, N); m.n = N; for (unsigned i = 0; i < N; i++) m.m[i] = src[i]; need = N; V_WITNESS("string-assign"); break;
    case 1: e = s.append(src, N); for (unsigned i = 0; i < N; i++) m.m[m.n + i] = src[i]; m.n += N; need = m.n; V_WITNESS("string-append"); break;
    case 2: e = s.append(c); m.m[m.n++] = c; need = m.n; V_WITNESS("string-append-char"); break;
    case 3: e = s.append_chars(c, N); for (unsigned i = 0; i < N; i++) m.m[m.n + i] = c; m.n += N; need = m.n; V_WITNESS("string-append-chars"); break;
    case 4: e = s.pad_end(N, c); if (N > m.n) { for (unsigned i = unsigned(m.n); i < N; i++) m.m[i] = c; m.n = N; } need = m.n; V_WITNESS("string-pad-end"); break;
    case 5: e = s.truncate(N); if (N < m.n) m.n = N; V_WITNESS("string-truncate"); break;
    case 6: e = s.clear(); m.n = 0; V_ASSERT(s.capacity() == cap0, "string: clear keeps the capacity"); V_WITNESS("string-clear"); break;
    case 7: e = s.assign(c); m.n = 1; m.m[0] = c; V_WITNESS("string-assign-char"); break;
    case 8: e = s.assign_chars(c, N); m.n = N; for (unsigned i = 0; i < N; i++) m.m[i] = c; need = N; V_WITNESS("string-assign-chars"); break;
    case 9: { // assign(const String&) from a small string holding src (at most 30 characters)
      if constexpr (N <= String::kSSOCapacity) {
      String o; o._small.type = uint8_t(N); for (unsigned i = 0; i < N; i++) o._small.data[i] = src[i]; o._small.data[N] = 0;
      e = s.assign(o); m.n = N; for (unsigned i = 0; i < N; i++) m.m[i] = src[i]; need = N;
      V_ASSERT(s.equals(o) && (s == o) && o.equals(s.data(), s.size()), "string: equals its source after assignment");
      V_WITNESS("string-assign-string"); }
      break; }
    default: { e = s.reset(); m.n = 0;
      V_ASSERT(!s.is_large_or_external() && s.capacity() == String::kSSOCapacity && s.size() == 0, "string: reset returns to the empty embedded string");
      heap = nullptr; V_WITNESS("string-reset"); break; }
  }
  V_ASSERT(e == Error::kOk, "string: operation succeeds (malloc never fails here)");
  const char* where = s._small.data;
  if (op != 10) {
    where = need > cap0 ? s._large.data : KIND == 0 ? s._small.data : KIND == 1 ? tmp._embedded_data : heap;
    if (need > cap0) {
      V_ASSERT(s._type == String::kTypeLarge && s._large.data != heap && s._large.data != tmp._embedded_data && s._large.data != s._small.data && s.capacity() >= need, "string: exceeding the capacity moves the text to a larger heap buffer");
      if (OPSET == 0 ? (LEN + N > cap0) : N > cap0) V_WITNESS("string-grown");
    } else {
      V_ASSERT(s.capacity() == cap0, "string: within capacity the buffer stays in place");
    }
  }
  str_equals_model(s, m, LEN + N + 1, where);
}  // destructors: a heap buffer is freed exactly once, the external buffer never (pointer checks)

#define STRING_H(SUFFIX, OPSET) \
  HARNESS h_string_small_##SUFFIX() { \
    switch (nondet_u8() % 3) { \
      case 0: string_case<0, 5, 25, OPSET>(); break;   /* fills the embedded buffer exactly */ \
      case 1: string_case<0, 5, 26, OPSET>(); break;   /* one more: embedded -> heap */ \
      default: string_case<0, 30, 1, OPSET>(); break;  /* full embedded buffer */ \
    } } \
  HARNESS h_string_tmp_##SUFFIX() { \
    switch (nondet_u8() % 5) { \
      case 0: string_case<1, 0, 15, OPSET>(); break;   /* fills the external buffer exactly */ \
      case 1: string_case<1, 0, 16, OPSET>(); break;   /* external -> heap by assign */ \
      case 2: string_case<1, 8, 7, OPSET>(); break;    /* append up to the capacity */ \
      case 3: string_case<1, 8, 8, OPSET>(); break;    /* append across the boundary */ \
      default: string_case<1, 15, 3, OPSET>(); break;  /* full buffer */ \
    } } \
  HARNESS h_string_heap_##SUFFIX() { \
    switch (nondet_u8() % 4) { \
      case 0: string_case<2, 0, 15, OPSET>(); break; \
      case 1: string_case<2, 8, 7, OPSET>(); break; \
      case 2: string_case<2, 8, 8, OPSET>(); break;    /* heap -> larger heap (old buffer freed) */ \
      default: string_case<2, 15, 2, OPSET>(); break; \
    } }
STRING_H(a, 0)   // assign, append, append char, append_chars
STRING_H(b, 1)   // pad_end, truncate, clear, assign char
STRING_H(c, 2)   // assign_chars, assign(String), reset

// Sizes that must be refused rather than wrapped around: every entry point that takes a length.
HARNESS h_string_huge() {
  StringTmp<32> s; s.append('x');
  // lengths the arithmetic itself must refuse (below them the request reaches malloc, which is the environment's call)
  unsigned op = nondet_u8() % 4; char* p = nullptr; Error e = Error::kOk;
  const size_t kMaxAlloc = SIZE_MAX - Globals::kGrowThreshold;
  if (op == 0) { size_t n = nondet_u64(); V_ASSUME(n >= kMaxAlloc - 2); p = s.prepare(String::ModifyOp::kAppend, n); V_ASSERT(p == nullptr, "string: append of a length that overflows the size computation is refused"); }
  else if (op == 1) { size_t n = nondet_u64(); V_ASSUME(n >= kMaxAlloc); p = s.prepare(String::ModifyOp::kAssign, n); V_ASSERT(p == nullptr, "string: assign of a length that overflows the size computation is refused"); }
  else if (op == 2) { size_t n = nondet_u64(); V_ASSUME(n >= kMaxAlloc - 2); e = s.append_chars('y', n); V_ASSERT(e == Error::kOutOfMemory, "string: append_chars of an overflowing length reports out of memory"); }
  else { bool sep = nondet_bool(); size_t n = nondet_u64(); V_ASSUME(n >= (sep ? SIZE_MAX / 3 : SIZE_MAX / 2)); uint8_t b = 1; e = s.append_hex(&b, n, sep ? ':' : '\0'); V_ASSERT(e == Error::kOutOfMemory, "string: append_hex of a length whose text size overflows reports out of memory"); }
  V_ASSERT(s.size() == 1 && s.data()[0] == 'x' && s.data()[1] == 0 && s.is_external(), "string: refused operation leaves the string unchanged");
  V_WITNESS("string-huge-refused");
}

// append_hex: N bytes -> 2N digits (3N-1 with separator), parsed back.
static inline int hexval(char ch) { return ch >= '0' && ch <= '9' ? ch - '0' : ch >= 'A' && ch <= 'F' ? ch - 'A' + 10 : -1; }
template<unsigned LEN, unsigned N, bool SEP>
static void hex_case() {
  StringTmp<32> s; SModel m; m.n = LEN;
  for (unsigned i = 0; i < LEN; i++) { m.m[i] = char('a' + i % 26); s.append(m.m[i]); }
  uint8_t src[N ? N : 1]; for (unsigned i = 0; i < N; i++) src[i] = nondet_u8();
  Error e = s.append_hex(src, N, SEP ? '-' : '\0');
  V_ASSERT(e == Error::kOk, "hex: succeeds");
  const size_t added = N == 0 ? 0 : SEP ? 3 * N - 1 : 2 * N;
  V_ASSERT(s.size() == LEN + added && s.data()[s.size()] == 0 && s.size() <= s.capacity(), "hex: two digits per byte, separators only between bytes, terminated");
  const char* d = s.data();
  for (unsigned i = 0; i < LEN; i++) V_ASSERT(d[i] == m.m[i], "hex: previous content kept");
  for (unsigned i = 0; i < N; i++) {
    const char* q = d + LEN + i * (SEP ? 3 : 2);
    V_ASSERT(hexval(q[0]) >= 0 && hexval(q[1]) >= 0 && hexval(q[0]) * 16 + hexval(q[1]) == src[i], "hex: digits parse back to the byte");
    if (SEP && i + 1 < N) V_ASSERT(q[2] == '-', "hex: separator between bytes");
  }
  v_observe_bytes(reinterpret_cast<const uint8_t*>(d), LEN + added);
  if (LEN + added > 39) V_WITNESS("hex-grown"); else V_WITNESS("hex-in-place");
}
HARNESS h_string_hex() {
  switch (nondet_u8() % 6) {
    case 0: hex_case<0, 0, false>(); break;
    case 1: hex_case<3, 1, true>(); break;
    case 2: hex_case<3, 4, false>(); break;
    case 3: hex_case<3, 4, true>(); break;
    case 4: hex_case<30, 5, false>(); break;   // 30 + 10 = 40 > 39: grows
    default: hex_case<31, 3, true>(); break;   // 31 + 8 = 39: exactly full
  }
}

// Number formatting: value symbolic, base / flags / width constants per instantiation; the text is parsed back.
// MAXD: most digits a VBITS-bit magnitude has in this base (bounds the parse-back loop)
template<unsigned BASE, uint32_t FLAGS, unsigned WIDTH, bool IS_SIGNED, unsigned VBITS, unsigned MAXD>
static void number_case() {
  StringTmp<32> s; s.append('#');
  uint64_t v = nondet_u64();
  if (VBITS < 64) v = IS_SIGNED ? uint64_t(int64_t(v << (64 - VBITS)) >> (64 - VBITS)) : v & ((uint64_t(1) << VBITS) - 1);
  StringFormatFlags fl = StringFormatFlags(FLAGS);
  Error e = IS_SIGNED ? s.append_int(int64_t(v), BASE, WIDTH, fl) : s.append_uint(v, BASE, WIDTH, fl);
  V_ASSERT(e == Error::kOk, "number: formatting succeeds");
  const char* d = s.data(); size_t n = s.size();
  V_ASSERT(n >= 2 && n <= 1 + 3 + 64 + WIDTH && d[0] == '#' && d[n] == 0 && n <= s.capacity(), "number: appended after the existing text, terminated, bounded length");
  size_t i = 1;
  bool neg = IS_SIGNED && int64_t(v) < 0;
  uint64_t mag = neg ? uint64_t(0) - v : v;
  // sign
  if (neg) { V_ASSERT(d[i] == '-', "number: negative values start with a minus sign"); i++; }
  else if (FLAGS & 1) { V_ASSERT(d[i] == '+', "number: show-sign prints a plus sign"); i++; }
  else if (FLAGS & 2) { V_ASSERT(d[i] == ' ', "number: show-space prints a space"); i++; }
  // alternate form prefix
  const unsigned base = BASE ? BASE : 10;
  if (FLAGS & 4) {
    if (base == 16) { V_ASSERT(d[i] == '0' && d[i + 1] == 'x', "number: alternate hexadecimal form starts with 0x"); i += 2; }
    else if (base == 8 && v != 0) { V_ASSERT(d[i] == '0', "number: alternate octal form starts with 0"); i++; }
  }
  // digits (with zero padding up to WIDTH digits): parse back
  uint64_t acc = 0; unsigned digits = 0; bool ok = true, ovf = false;
  V_ASSERT(n - i <= (MAXD > WIDTH ? MAXD : WIDTH), "number: no more digits than the magnitude or the width needs");
  for (unsigned k = 0; k < (MAXD > WIDTH ? MAXD : WIDTH); k++) {
    if (i + k >= n) break;
    char ch = d[i + k]; int dv = ch >= '0' && ch <= '9' ? ch - '0' : ch >= 'A' && ch <= 'F' ? ch - 'A' + 10 : 99;
    if (dv >= int(base)) ok = false;
    if (acc > (~uint64_t(0) - uint64_t(dv < 36 ? dv : 0)) / base) ovf = true;
    acc = acc * base + uint64_t(dv < 36 ? dv : 0); digits++;
  }
  V_ASSERT(ok && digits >= 1 && !ovf, "number: only digits of the base follow the prefix");
  V_ASSERT(acc == mag, "number: digits parse back to the magnitude of the value");
  V_ASSERT(digits >= (WIDTH > 256 ? 256 : WIDTH), "number: at least width digits");
  // minimality: without width no leading zero (except the number 0 itself)
  if (WIDTH == 0 && mag != 0) V_ASSERT(d[i] != '0', "number: no leading zeros without a width");
  verif_observe(n); v_observe_bytes(reinterpret_cast<const uint8_t*>(d), n < 8 ? n : 8);
  if (neg) V_WITNESS("number-negative");
  V_WITNESS("number-formatted");
}
// one instantiation per harness (each carries the digit loop of _op_number, the copies into the string and the parse-back loop)
HARNESS h_string_num_hex64() { number_case<16, 0, 0, false, 64, 16>(); }
HARNESS h_string_num_hex64_alt() { number_case<16, 4 | 1, 18, true, 64, 16>(); }      // "+0x" / "-0x", zero padded to 18 digits
HARNESS h_string_num_oct32() { number_case<8, 4, 0, false, 32, 11>(); }               // alternate form: leading 0
HARNESS h_string_num_bin16() { number_case<2, 2, 0, true, 16, 16>(); }                // show-space, signed 16-bit range
HARNESS h_string_num_dec16() { number_case<10, 0, 0, true, 16, 5>(); }                // quick: the /10 digit loop is the slow kernel for SAT
HARNESS h_string_num_dec32() { number_case<10, 0, 0, false, 32, 10>(); }
HARNESS h_string_num_dec32_signed() { number_case<0, 1, 12, true, 32, 10>(); }        // base 0 = 10, show-sign, width 12
HARNESS h_string_num_badbase() {
  StringTmp<32> s; s.append('#');
  uint32_t base = nondet_u32(); V_ASSUME(base != 0 && base != 2 && base != 8 && base != 10 && base != 16);
  Error e = s.append_uint(nondet_u64(), base, nondet_u8(), StringFormatFlags(nondet_u8() & 7));
  V_ASSERT(e == Error::kInvalidArgument && s.size() == 1 && s.data()[0] == '#' && s.data()[1] == 0, "number: unsupported base is refused and nothing is appended");
  V_WITNESS("number-bad-base");
}
