/* Typed heap blocks for the Arena harnesses: malloc(sizeof(struct ...)) gives the solver a field-sensitive object (the
 * `next` links stay constant-propagated), whereas malloc(<number>) is an untyped byte array. Layout = Arena::ManagedBlock
 * header followed by the payload (pointer-typed where the harness keeps slot chains in it, byte-typed where it copies
 * text into it) / Arena::DynamicBlock header, back pointer, payload. */
#include <stdlib.h>
#include <stdint.h>
#define VBLK(N) struct vblk##N { void* next; uint64_t size; void* payload[(N) / 8]; }; \
  void* verif_block_##N(void) { return malloc(sizeof(struct vblk##N)); }
#define VBYTES(N) struct vbytes##N { void* next; uint64_t size; uint8_t payload[N]; }; \
  void* verif_bytes_##N(void) { return malloc(sizeof(struct vbytes##N)); }
VBLK(64) VBLK(128) VBLK(256) VBLK(512)
VBYTES(64) VBYTES(128) VBYTES(256)
struct vdyn { void* prev; void* next; void* self; uint64_t payload[4]; };
void* verif_dyn_block(void) { return malloc(sizeof(struct vdyn)); }

/* base + 8*k for k = 0..32, written as a case split so that the solver sees a choice between constant-offset pointers
 * (cheap dereference) instead of pointer arithmetic with a symbolic offset. Not routed through LLVM, which would turn it
 * back into arithmetic. */
void* verif_at8(void* base, unsigned k) {
  char* b = (char*)base;
  switch (k) {
#define C(i) case i: return b + 8 * i;
    C(1) C(2) C(3) C(4) C(5) C(6) C(7) C(8) C(9) C(10) C(11) C(12) C(13) C(14) C(15) C(16)
    C(17) C(18) C(19) C(20) C(21) C(22) C(23) C(24) C(25) C(26) C(27) C(28) C(29) C(30) C(31) C(32)
#undef C
    default: return b;
  }
}
