// C18 — node-based containers: ArenaList (doubly linked), ArenaTree (red-black), ArenaHash (chained buckets).
// Nodes are harness-owned typed objects; pre-states are arbitrary valid structures built by hand (one operation from any
// valid state + invariant), compared with plain-array models.
#include <asmjit/core.h>
#include <asmjit/support/arena.h>
#include <asmjit/support/arenalist.h>
#include <asmjit/support/arenatree.h>
#include <asmjit/support/arenahash.h>
#include <stdlib.h>
#include "verif.h"
// file-local prime tables of the hash are reached by including the unit (it is then not linked separately)
#include <asmjit/support/arenahash.cpp>
using namespace asmjit;

// =================================================================================================================
// ArenaList
struct LNode : public ArenaListNode<LNode> { uint32_t id; };
static const unsigned LN = 5;  // nodes 0..3 may be in the list, node 4 is the one inserted

// Checks that the list holds exactly seq[0..n) in order, with consistent links in both directions.
static inline void list_check(ArenaList<LNode>& l, LNode* nodes, const unsigned* seq, unsigned n) {
  V_ASSERT(l.is_empty() == (n == 0), "list: is_empty iff the model is empty");
  V_ASSERT(l.first() == (n ? &nodes[seq[0]] : nullptr) && l.last() == (n ? &nodes[seq[n - 1]] : nullptr), "list: first and last are the ends of the model sequence");
  for (unsigned i = 0; i < LN; i++) if (i < n) {
    LNode* x = &nodes[seq[i]];
    V_ASSERT(x->prev() == (i ? &nodes[seq[i - 1]] : nullptr), "list: prev link follows the model order");
    V_ASSERT(x->next() == (i + 1 < n ? &nodes[seq[i + 1]] : nullptr), "list: next link follows the model order");
  }
}

HARNESS h_list_step() {
  LNode nodes[LN]; ArenaList<LNode> l;
  for (unsigned i = 0; i < LN; i++) nodes[i].id = i;
  // pre-state: any sequence of n <= 4 distinct nodes out of 0..3, built by direct link writes
  unsigned n = nondet_u8() % 5; unsigned seq[LN + 1];
  for (unsigned i = 0; i < 4; i++) seq[i] = nondet_u8() & 3;
  V_ASSUME(seq[0] != seq[1] && seq[0] != seq[2] && seq[0] != seq[3] && seq[1] != seq[2] && seq[1] != seq[3] && seq[2] != seq[3]);
  for (unsigned i = 0; i < 4; i++) if (i < n) {
    nodes[seq[i]]._list_nodes[0] = i ? &nodes[seq[i - 1]] : nullptr;
    nodes[seq[i]]._list_nodes[1] = i + 1 < n ? &nodes[seq[i + 1]] : nullptr;
  }
  l._nodes[0] = n ? &nodes[seq[0]] : nullptr; l._nodes[1] = n ? &nodes[seq[n - 1]] : nullptr;
  list_check(l, nodes, seq, n);
  unsigned op = nondet_u8() % 7; unsigned at = nondet_u8() % 4; if (at >= n) at = 0;
  verif_observe(op); verif_observe(n);
  LNode* fresh = &nodes[4];
  switch (op) {
    case 0: l.append(fresh); seq[n++] = 4; V_WITNESS("list-append"); break;
    case 1: l.prepend(fresh); for (unsigned i = n; i > 0; i--) seq[i] = seq[i - 1]; seq[0] = 4; n++; V_WITNESS("list-prepend"); break;
    case 2: if (!n) return; l.insert_after(&nodes[seq[at]], fresh); for (unsigned i = n; i > at + 1; i--) seq[i] = seq[i - 1]; seq[at + 1] = 4; n++; V_WITNESS("list-insert-after"); break;
    case 3: if (!n) return; l.insert_before(&nodes[seq[at]], fresh); for (unsigned i = n; i > at; i--) seq[i] = seq[i - 1]; seq[at] = 4; n++; V_WITNESS("list-insert-before"); break;
    case 4: { if (!n) return; LNode* x = &nodes[seq[at]]; LNode* r = l.unlink(x);
      V_ASSERT(r == x && !x->has_prev() && !x->has_next(), "list: unlinked node is returned with cleared links");
      for (unsigned i = at; i + 1 < n; i++) seq[i] = seq[i + 1]; n--; V_WITNESS("list-unlink"); break; }
    case 5: { if (!n) return; LNode* r = l.pop_first();
      V_ASSERT(r == &nodes[seq[0]] && !r->has_prev() && !r->has_next(), "list: pop_first returns the first node with cleared links");
      for (unsigned i = 0; i + 1 < n; i++) seq[i] = seq[i + 1]; n--; V_WITNESS("list-pop-first"); break; }
    default: { if (!n) return; LNode* r = l.pop();
      V_ASSERT(r == &nodes[seq[n - 1]] && !r->has_prev() && !r->has_next(), "list: pop returns the last node with cleared links");
      n--; V_WITNESS("list-pop"); break; }
  }
  list_check(l, nodes, seq, n);
  // swap with an empty list moves everything
  ArenaList<LNode> other; other.swap(l);
  V_ASSERT(l.is_empty() && l.last() == nullptr, "list: swap leaves the other side's (empty) content");
  list_check(other, nodes, seq, n);
}

// =================================================================================================================
// ArenaTree (red-black)
struct TNode : public ArenaTreeNodeT<TNode> {
  uint32_t key;
  inline bool operator<(const TNode& o) const noexcept { return key < o.key; }
  inline bool operator>(const TNode& o) const noexcept { return key > o.key; }
  inline bool operator<(uint32_t k) const noexcept { return key < k; }
  inline bool operator>(uint32_t k) const noexcept { return key > k; }
};


// Pre-state: any valid red-black tree whose nodes sit at heap positions 1..P of a complete binary tree of depth D (position i
// has children 2i and 2i+1), with at most MAXN nodes, symbolic distinct keys and symbolic colours, subject to the red-black
// invariants. Every node is its own object so that the solver resolves the integer-encoded child links per node.
template<unsigned D> struct TreeShape { static const unsigned P = (1u << D) - 1, Q = (1u << (D + 1)) - 1; };

template<unsigned Q>
struct Decoded { TNode* pos[2 * Q + 2]; };

// Walks the real tree from the root into heap positions 1..Q and checks: nothing deeper than Q, BST order, root black,
// no red node with a red child, equal black heights. Returns the number of nodes.
template<unsigned Q>
static inline unsigned tree_check(ArenaTree<TNode>& t, Decoded<Q>& d, bool assume_only) {
  for (unsigned i = 0; i < 2 * Q + 2; i++) d.pos[i] = nullptr;
  d.pos[1] = t.root();
  for (unsigned i = 1; i <= Q; i++) if (d.pos[i]) { d.pos[2 * i] = d.pos[i]->left(); d.pos[2 * i + 1] = d.pos[i]->right(); }
  bool shallow = true; for (unsigned i = Q + 1; i < 2 * Q + 2; i++) if (d.pos[i]) shallow = false;
  // key bounds per position (exclusive), black heights bottom-up
  bool order = true, redred = false, balanced = true; unsigned count = 0;
  uint64_t lo[Q + 1], hi[Q + 1]; unsigned bh[2 * Q + 2];
  for (unsigned i = 0; i < 2 * Q + 2; i++) bh[i] = 0;
  lo[1] = 0; hi[1] = uint64_t(1) << 33;
  for (unsigned i = 1; i <= Q; i++) if (d.pos[i]) {
    uint64_t k = uint64_t(d.pos[i]->key) + 1;
    if (!(lo[i] < k && k < hi[i])) order = false;
    if (2 * i + 1 <= Q) { lo[2 * i] = lo[i]; hi[2 * i] = k; lo[2 * i + 1] = k; hi[2 * i + 1] = hi[i]; }
    if (d.pos[i]->is_red() && ((d.pos[2 * i] && d.pos[2 * i]->is_red()) || (d.pos[2 * i + 1] && d.pos[2 * i + 1]->is_red()))) redred = true;
    count++;
  }
  for (unsigned i = Q; i >= 1; i--) if (d.pos[i]) {
    if (bh[2 * i] != bh[2 * i + 1]) balanced = false;
    bh[i] = bh[2 * i] + (d.pos[i]->is_red() ? 0 : 1);
  }
  bool root_black = !d.pos[1] || !d.pos[1]->is_red();
  if (assume_only) { V_ASSUME(shallow && order && !redred && balanced && root_black); }
  else {
    V_ASSERT(shallow, "tree: height stays within the red-black bound for this node count");
    V_ASSERT(order, "tree: binary search order holds at every node");
    V_ASSERT(root_black, "tree: root is black");
    V_ASSERT(!redred, "tree: no red node has a red child");
    V_ASSERT(balanced, "tree: every path has the same number of black nodes");
  }
  return count;
}

__attribute__((noinline)) static void tree_do_insert(ArenaTree<TNode>& t, TNode* n) { t.insert(n); }
__attribute__((noinline)) static void tree_do_remove(ArenaTree<TNode>& t, TNode* n) { t.remove(n); }
__attribute__((noinline)) static TNode* tree_do_get(ArenaTree<TNode>& t, uint32_t k) { return t.get(k); }

template<unsigned D, unsigned MAXN, bool REMOVE>
static void tree_step() {
  const unsigned P = TreeShape<D>::P, Q = TreeShape<D>::Q;
  TNode a1, a2, a3, a4, a5, a6, a7, a8, a9, a10, a11, a12, a13, a14, a15, extra;
  TNode* nd[16] = {nullptr, &a1, &a2, &a3, &a4, &a5, &a6, &a7, &a8, &a9, &a10, &a11, &a12, &a13, &a14, &a15};
  bool present[2 * P + 2]; for (unsigned i = 0; i < 2 * P + 2; i++) present[i] = false;
  unsigned n = 0;
  for (unsigned i = 1; i <= P; i++) {
    present[i] = (i == 1 || present[i / 2]) && nondet_bool();
    if (present[i]) n++;
  }
  V_ASSUME(n <= MAXN);
  for (unsigned i = 1; i <= P; i++) if (present[i]) {
    nd[i]->key = nondet_u32();
    bool red = nondet_bool();
    nd[i]->_tree_nodes[0] = (present[2 * i] ? (uintptr_t)nd[2 * i] : 0) | (red ? 1 : 0);
    nd[i]->_tree_nodes[1] = present[2 * i + 1] ? (uintptr_t)nd[2 * i + 1] : 0;
  }
  ArenaTree<TNode> t; t._root = present[1] ? nd[1] : nullptr;
  Decoded<P> pre; unsigned n0 = tree_check<P>(t, pre, true);
  V_ASSERT(n0 == n, "tree: pre-state decodes to the nodes placed");
  verif_observe(n);
  Decoded<Q> post;
  if (!REMOVE) {
    extra.key = nondet_u32();
    for (unsigned i = 1; i <= P; i++) if (present[i]) V_ASSUME(nd[i]->key != extra.key);
    tree_do_insert(t, &extra);
    unsigned n1 = tree_check<Q>(t, post, false);
    V_ASSERT(n1 == n + 1, "tree: insert adds exactly one node");
    unsigned seen_extra = 0; for (unsigned j = 1; j <= Q; j++) if (post.pos[j] == &extra) seen_extra++;
    V_ASSERT(seen_extra == 1, "tree: inserted node is in the tree once");
    for (unsigned i = 1; i <= P; i++) if (present[i]) {
      unsigned seen = 0; for (unsigned j = 1; j <= Q; j++) if (post.pos[j] == nd[i]) seen++;
      V_ASSERT(seen == 1, "tree: insert keeps every previous node exactly once");
    }
    V_ASSERT(tree_do_get(t, extra.key) == &extra, "tree: lookup finds the inserted key");
    uint32_t probe = nondet_u32(); TNode* g = tree_do_get(t, probe);
    bool member = probe == extra.key; for (unsigned i = 1; i <= P; i++) if (present[i] && nd[i]->key == probe) member = true;
    V_ASSERT((g != nullptr) == member && (!g || g->key == probe), "tree: lookup succeeds exactly for member keys");
    if (n == MAXN) V_WITNESS("tree-insert-into-full-bound");
    if (n == 0) V_WITNESS("tree-insert-into-empty");
    V_WITNESS("tree-insert");
  } else {
    V_ASSUME(n >= 1);
    unsigned victim = 1 + nondet_u8() % P; V_ASSUME(present[victim]);
    uint32_t vkey = nd[victim]->key;
    tree_do_remove(t, nd[victim]);
    unsigned n1 = tree_check<Q>(t, post, false);
    V_ASSERT(n1 == n - 1, "tree: remove takes out exactly one node");
    for (unsigned i = 1; i <= P; i++) if (present[i]) {
      unsigned seen = 0; for (unsigned j = 1; j <= Q; j++) if (post.pos[j] == nd[i]) seen++;
      V_ASSERT(seen == (i == victim ? 0u : 1u), "tree: remove keeps every other node exactly once and drops the victim");
    }
    V_ASSERT(tree_do_get(t, vkey) == nullptr, "tree: removed key is no longer found");
    V_ASSERT(t.is_empty() == (n == 1), "tree: empty iff the last node was removed");
    if (n == 1) V_WITNESS("tree-remove-last");
    if (n == MAXN) V_WITNESS("tree-remove-from-full-bound");
    V_WITNESS("tree-remove");
  }
}
HARNESS h_tree_insert_d2() { tree_step<2, 3, false>(); }
HARNESS h_tree_remove_d2() { tree_step<2, 3, true>(); }
HARNESS h_tree_insert_d3() { tree_step<3, 5, false>(); }

// =================================================================================================================
// ArenaHash
struct HNode : public ArenaHashNode { uint32_t key; };
struct HKey {
  uint32_t key, code;
  inline uint32_t hash_code() const noexcept { return code; }
  inline bool matches(const HNode* n) const noexcept { return n->key == key; }
};

// Reciprocal-multiplication modulo of a table entry equals the true remainder for every 32-bit hash code. The prime is a
// constant per instantiation (multiplication and remainder by a symbolic value are out of reach for the SAT back end);
// each harness covers a block of 8 consecutive table entries chosen by a symbolic selector.
template<unsigned IDX>
static void hash_mod_case() {
  if (IDX >= ASMJIT_ARRAY_SIZE(ArenaHash_prime_array)) return;
  const unsigned idx = IDX < ASMJIT_ARRAY_SIZE(ArenaHash_prime_array) ? IDX : 0;
  // The SAT back end cannot decide the 32x32-bit multiply/remainder equivalence over all 2^32 codes for small primes (no
  // verdict in 15 min for p = 11). Decided here: (a) all codes below 2^16 symbolically through the real _calc_mod, and (b) the
  // exactness condition of division by multiplication with a reciprocal on the table constants: with m*p = 2^s + e, e >= 0, and
  // h = q*p + r:  m*h / 2^s = q + r/p + e*h / (p*2^s), so floor(m*h / 2^s) = q  iff  e*h < (p - r) * 2^s. For h < N = 2^32 this
  // holds for every h iff it holds for the largest h with r = p-1 (e*h < 2^s) provided e*N < 2 * 2^s (then every r <= p-2 is
  // covered by e*h < e*N < 2 * 2^s <= (p-r) * 2^s). (Granlund, Montgomery 1994, Thm 4.2 is the special case e*N <= 2^s; two
  // table entries, 42543269 and 196630033, exceed that but satisfy the exact condition.)
  uint32_t h = nondet_u16();
  {
    const uint64_t prime = ArenaHash_prime_array[idx].prime;
    unsigned __int128 mp = (unsigned __int128)ArenaHash_prime_array[idx].rcp * prime;
    unsigned sh = ArenaHash_prime_shift[idx];
    unsigned __int128 two_s = (unsigned __int128)1 << sh;
    const uint64_t N = uint64_t(1) << 32;
    uint64_t hmax = (N / prime) * prime + prime - 1; if (hmax >= N) hmax -= prime;   // largest h < 2^32 with h mod p == p-1
    V_ASSERT(sh >= 32 && sh < 64 && mp >= two_s, "hash: reciprocal is not below 2^s / p");
    unsigned __int128 e = mp - two_s;
    V_ASSERT(e * N < (two_s << 1) && e * hmax < two_s, "hash: table constants satisfy the exactness condition of reciprocal division for all 32-bit codes");
  }
  ArenaHash<HNode> t;
  t._buckets_count = ArenaHash_prime_array[idx].prime; t._rcp_value = ArenaHash_prime_array[idx].rcp; t._rcp_shift = ArenaHash_prime_shift[idx];
  uint32_t m = t._calc_mod(h);
  verif_observe(m);
  V_ASSERT(m == h % t._buckets_count, "hash: reciprocal modulo equals the remainder");
  V_ASSERT(uint32_t(t._buckets_count * 0.9) <= t._buckets_count && uint32_t(t._buckets_count * 0.9) >= 1, "hash: grow threshold between 1 and the bucket count");
  V_WITNESS("hash-mod");
}
template<unsigned BASE>
static void hash_mod_block() {
  switch (nondet_u8() & 7) {
    case 0: hash_mod_case<BASE + 0>(); break; case 1: hash_mod_case<BASE + 1>(); break; case 2: hash_mod_case<BASE + 2>(); break; case 3: hash_mod_case<BASE + 3>(); break;
    case 4: hash_mod_case<BASE + 4>(); break; case 5: hash_mod_case<BASE + 5>(); break; case 6: hash_mod_case<BASE + 6>(); break; default: hash_mod_case<BASE + 7>(); break;
  }
}
#define HASH_MOD(N) HARNESS h_hash_mod_##N() { hash_mod_block<8 * N>(); }
HASH_MOD(0) HASH_MOD(1) HASH_MOD(2) HASH_MOD(3) HASH_MOD(4) HASH_MOD(5) HASH_MOD(6) HASH_MOD(7) HASH_MOD(8)
HASH_MOD(9) HASH_MOD(10) HASH_MOD(11) HASH_MOD(12) HASH_MOD(13) HASH_MOD(14) HASH_MOD(15) HASH_MOD(16)

// Environment stub for the hash harnesses: the table's bucket array comes from this typed pool instead of a real Arena (the
// arena has its own harnesses in h_arena.cpp; here it is environment). Zeroed, as _alloc_reusable_zeroed promises.
static void* hash_pool[32]; static unsigned hash_pool_calls; static size_t hash_pool_request;
ASMJIT_BEGIN_NAMESPACE
void* Arena::_alloc_reusable_zeroed(size_t size, Out<size_t> allocated_size) noexcept {
  hash_pool_calls++; hash_pool_request = size;
  for (unsigned i = 0; i < 32; i++) hash_pool[i] = nullptr;
  allocated_size = size;
  return size <= sizeof(hash_pool) ? hash_pool : nullptr;
}
ASMJIT_END_NAMESPACE

// Pre-state: a table with 1 (embedded), 2 or 11 buckets (harness array) containing 0..4 of the nodes 0..3 with symbolic
// 8-bit hash codes (collisions included; wider codes put the reciprocal-modulo multiplier out of the SAT back end's reach,
// see h_hash_mod), chained in any order an insertion history could produce.
static const unsigned HN = 5;
// reference remainder for 8-bit codes by shift-and-subtract (a divider circuit next to the code's multiplier is needlessly hard for SAT)
static inline uint32_t ref_mod(uint32_t code, uint32_t nb) { uint32_t r = code; for (int k = 7; k >= 0; k--) if (r >= (nb << k)) r -= nb << k; return r; }
// Nodes and the bucket array are separate objects (a store through a pointer with a symbolic offset rewrites the whole
// object it points into: keep those objects small).
struct HState {
  HNode* nd[HN]; bool in[HN]; unsigned count;
  ArenaHashNode** buckets;
};
template<unsigned PIDX, bool EMBEDDED, unsigned LIM>
static inline void hash_build(ArenaHash<HNode>& t, HState& s) {
  for (unsigned i = 0; i < HN; i++) { s.nd[i]->_hash_code = nondet_u8(); s.nd[i]->key = s.nd[i]->_hash_code ^ 0x5A5A5A5Au; s.nd[i]->_hash_next = nullptr; s.nd[i]->_custom_data = i; s.in[i] = false; }
  for (unsigned i = 0; i < 11; i++) s.buckets[i] = nullptr;
  for (unsigned i = 0; i < HN; i++) for (unsigned j = 0; j < i; j++) V_ASSUME(s.nd[i]->_hash_code != s.nd[j]->_hash_code);  // distinct keys
  if (!EMBEDDED) {
    t._data = s.buckets; t._buckets_count = ArenaHash_prime_array[PIDX].prime; t._buckets_grow = uint32_t(t._buckets_count * 0.9);
    t._rcp_value = ArenaHash_prime_array[PIDX].rcp; t._rcp_shift = ArenaHash_prime_shift[PIDX]; t._prime_index = uint8_t(PIDX);
  }
  s.count = 0;
  const unsigned limit = EMBEDDED ? 1 : LIM;
  for (unsigned i = 0; i < 4; i++) {
    if (s.count < limit && nondet_bool()) {
      uint32_t b = ref_mod(s.nd[i]->_hash_code, t._buckets_count);
      s.nd[i]->_hash_next = t._data[b]; t._data[b] = s.nd[i]; s.in[i] = true; s.count++;
    }
  }
  t._size = s.count;
}
__attribute__((noinline)) static HNode* hash_do_get(ArenaHash<HNode>& t, const HKey& k) { return t.get(k); }
// Membership = model without walking every chain: (1) every bucket head and every member's successor is a member whose
// hash code belongs to that bucket, (2) every member has exactly one predecessor (a bucket head slot or another member),
// (3) lookup (the real get) reaches every member and no non-member, (4) size matches. (1)-(3) together exclude foreign
// nodes, duplicates, wrong buckets and cycles.
template<unsigned NBMAX>
__attribute__((noinline)) static void hash_check(ArenaHash<HNode>& t, HState& s) {
  unsigned expect = 0; for (unsigned i = 0; i < HN; i++) if (s.in[i]) expect++;
  V_ASSERT(t._size == expect, "hash: size equals the number of members");
  V_ASSERT(t._buckets_count <= NBMAX && t._buckets_count >= 1, "hash: bucket count within the expected bound");
  unsigned preds[HN]; for (unsigned i = 0; i < HN; i++) preds[i] = 0;
  for (unsigned b = 0; b < NBMAX; b++) if (b < t._buckets_count) {
    ArenaHashNode* q = t._data[b];
    if (q) {
      bool known = false;
      for (unsigned i = 0; i < HN; i++) if (q == s.nd[i]) { known = s.in[i]; preds[i]++; }
      V_ASSERT(known, "hash: a bucket head is a member");
      V_ASSERT(ref_mod(q->_hash_code, t._buckets_count) == b, "hash: a bucket head sits in the bucket of its hash code");
    }
  }
  for (unsigned i = 0; i < HN; i++) if (s.in[i] && s.nd[i]->_hash_next) {
    ArenaHashNode* q = s.nd[i]->_hash_next; bool known = false;
    for (unsigned j = 0; j < HN; j++) if (q == s.nd[j]) { known = s.in[j] && j != i; preds[j]++; }
    V_ASSERT(known, "hash: the successor of a member is another member");
    V_ASSERT(ref_mod(q->_hash_code, t._buckets_count) == ref_mod(s.nd[i]->_hash_code, t._buckets_count), "hash: chained nodes share the bucket");
  }
  for (unsigned i = 0; i < HN; i++) if (s.in[i]) V_ASSERT(preds[i] == 1, "hash: every member is linked exactly once");
  for (unsigned i = 0; i < HN; i++) {
    HKey k{s.nd[i]->key, s.nd[i]->_hash_code};
    HNode* g = hash_do_get(t, k);
    V_ASSERT(g == (s.in[i] ? s.nd[i] : nullptr), "hash: lookup finds members and only members");
  }
}

// PIDX: prime index of the pre-state table (EMBEDDED: the single embedded bucket); RIDX: target of the explicit rehash.
template<unsigned PIDX, bool EMBEDDED, unsigned RIDX, unsigned OP, unsigned LIM = 4>
static void hash_step() {
  // never-constructed Arena object: only its slot lists are touched (free_reusable of the old bucket array)
  alignas(8) static unsigned char arena_mem[sizeof(Arena)]; memset(arena_mem, 0, sizeof arena_mem);
  Arena& arena = *reinterpret_cast<Arena*>(arena_mem);
  hash_pool_calls = 0;
  ArenaHash<HNode> t; HState s;
  HNode n0, n1, n2, n3, n4; ArenaHashNode* bucket_mem[11];
  s.nd[0] = &n0; s.nd[1] = &n1; s.nd[2] = &n2; s.nd[3] = &n3; s.nd[4] = &n4; s.buckets = bucket_mem;
  hash_build<PIDX, EMBEDDED, LIM>(t, s);
  const unsigned nb0 = EMBEDDED ? 1u : ArenaHash_prime_array[PIDX].prime;
  const unsigned op = OP;  // one operation per harness: the formula of all three together costs a minute per solver call
  verif_observe(s.count);
  if (op == 0) {
    HNode* r = t.insert(arena, s.nd[4]); s.in[4] = true;
    V_ASSERT(r == s.nd[4], "hash: insert returns the node");
    bool grows = s.count + 1 > (EMBEDDED ? 1u : uint32_t(nb0 * 0.9));
    if (grows) {
      if (!EMBEDDED && PIDX == 1) V_ASSERT(false, "hash: an 11-bucket table does not grow at 5 nodes");
      const unsigned pi = (EMBEDDED ? 0 : PIDX) + 2;
      V_ASSERT(t._buckets_count == ArenaHash_prime_array[pi].prime && t._data != t._embedded && t._data != s.buckets && t._prime_index == pi && t._buckets_grow == uint32_t(t._buckets_count * 0.9), "hash: insert beyond the threshold moves to the prime two steps up");
      if (EMBEDDED || PIDX == 0) V_WITNESS("hash-insert-rehash");
    } else { V_ASSERT(t._buckets_count == nb0 && t._data == (EMBEDDED ? t._embedded : s.buckets), "hash: insert below the threshold keeps the bucket array"); if (EMBEDDED || PIDX == 1) V_WITNESS("hash-insert"); }
  } else if (op == 1) {
    unsigned v = nondet_u8() % HN;
    HNode* r = t.remove(arena, s.nd[v]);
    V_ASSERT(r == (s.in[v] ? s.nd[v] : nullptr), "hash: remove returns the node iff it was a member");
    V_ASSERT(t._buckets_count == nb0, "hash: remove keeps the bucket array");
    if (s.in[v]) V_WITNESS("hash-remove-member"); else V_WITNESS("hash-remove-absent");
    s.in[v] = false;
  } else {
    t._rehash(arena, RIDX);
    V_ASSERT(t._buckets_count == ArenaHash_prime_array[RIDX].prime && t._prime_index == RIDX && t._buckets_grow == uint32_t(t._buckets_count * 0.9), "hash: rehash installs the requested prime");
    V_ASSERT(reinterpret_cast<void**>(t._data) == hash_pool && hash_pool_calls == 1 && hash_pool_request == size_t(t._buckets_count) * sizeof(void*), "hash: new bucket array is one arena request of bucket-count pointers");
    if (!EMBEDDED) V_ASSERT(arena._reusable_slots[PIDX == 0 ? 0 : 3] == reinterpret_cast<Arena::ReusableSlot*>(s.buckets), "hash: old bucket array released to the arena slot of its size");
    V_WITNESS("hash-rehash");
  }
  hash_check<29>(t, s);
}
#define HASH_H(NAME, PIDX, EMB, RIDX) \
  HARNESS h_hash_##NAME##_insert() { hash_step<PIDX, EMB, RIDX, 0>(); } \
  HARNESS h_hash_##NAME##_remove() { hash_step<PIDX, EMB, RIDX, 1>(); } \
  HARNESS h_hash_##NAME##_rehash() { hash_step<PIDX, EMB, RIDX, 2>(); }
// variants with at most 2 nodes in the pre-state: the 4-node versions of these three get no verdict from the SAT back end in 15 min
HARNESS h_hash_p2_insert_n2() { hash_step<0, false, 1, 0, 2>(); }
HARNESS h_hash_p2_rehash_n2() { hash_step<0, false, 1, 2, 2>(); }
HARNESS h_hash_p11_rehash_n2() { hash_step<1, false, 2, 2, 2>(); }
HASH_H(embedded, 0, true, 0)   // 1 bucket; insert -> 29, rehash -> 2
HASH_H(p2, 0, false, 1)        // 2 buckets; insert -> 29, rehash -> 11
HASH_H(p11, 1, false, 2)       // 11 buckets; insert stays, rehash -> 29
