// C18 — node-based containers: ArenaList (doubly linked), ArenaTree (red-black), ArenaHash (chained buckets).
// Nodes are harness-owned typed objects; pre-states are arbitrary valid structures built by hand (one operation from any
// valid state + invariant), compared with plain-array models.
#include <asmjit/core.h>
#include <asmjit/support/arena.h>
#include <asmjit/support/arenalist.h>
#include <asmjit/support/arenatree.h>
#include <asmjit/support/arenahash.h>
#include "verif.h"
using namespace asmjit;

// =================================================================================================================
// ArenaList
struct LNode : public ArenaListNode<LNode> { uint32_t id; };
static const unsigned LN = 5;  // nodes 0..3 may be in the list, node 4 is the one inserted

// Checks that the list holds exactly seq[0..n) in order, with consistent links in both directions.
static inline void list_check(ArenaList<LNode>& l, LNode* nodes, const unsigned* seq, unsigned n) {
  V_ASSERT(l.is_empty() == (n == 0), "list: is_empty iff the model is empty");
  V_ASSERT(l.first() == (n ? &nodes[seq[0]] : nullptr) && l.last() == (n ? &nodes[seq[n - 1]] : nullptr), "list: first and last are the ends of the model sequence");
  for (unsigned i = 0; i < LN; i++) if (i < n) {
    LNode* x = &nodes[seq[i]];
    V_ASSERT(x->prev() == (i ? &nodes[seq[i - 1]] : nullptr), "list: prev link follows the model order");
    V_ASSERT(x->next() == (i + 1 < n ? &nodes[seq[i + 1]] : nullptr), "list: next link follows the model order");
  }
}

HARNESS h_list_step() {
  LNode nodes[LN]; ArenaList<LNode> l;
  for (unsigned i = 0; i < LN; i++) nodes[i].id = i;
  // pre-state: any sequence of n <= 4 distinct nodes out of 0..3, built by direct link writes
  unsigned n = nondet_u8() % 5; unsigned seq[LN + 1];
  unsigned perm = nondet_u8() % 24; unsigned pool[4] = {0, 1, 2, 3};
  for (unsigned i = 0; i < 4; i++) {  // factorial-base decoding of the permutation
    unsigned r = 4 - i; unsigned k = perm % r; perm /= r;
    seq[i] = pool[k];
    for (unsigned j = k; j + 1 < 4; j++) pool[j] = pool[j + 1];
  }
  for (unsigned i = 0; i < 4; i++) if (i < n) {
    nodes[seq[i]]._list_nodes[0] = i ? &nodes[seq[i - 1]] : nullptr;
    nodes[seq[i]]._list_nodes[1] = i + 1 < n ? &nodes[seq[i + 1]] : nullptr;
  }
  l._nodes[0] = n ? &nodes[seq[0]] : nullptr; l._nodes[1] = n ? &nodes[seq[n - 1]] : nullptr;
  list_check(l, nodes, seq, n);
  unsigned op = nondet_u8() % 7; unsigned at = nondet_u8() % 4; if (at >= n) at = 0;
  verif_observe(op); verif_observe(n);
  LNode* fresh = &nodes[4];
  switch (op) {
    case 0: l.append(fresh); seq[n++] = 4; V_WITNESS("list-append"); break;
    case 1: l.prepend(fresh); for (unsigned i = n; i > 0; i--) seq[i] = seq[i - 1]; seq[0] = 4; n++; V_WITNESS("list-prepend"); break;
    case 2: if (!n) return; l.insert_after(&nodes[seq[at]], fresh); for (unsigned i = n; i > at + 1; i--) seq[i] = seq[i - 1]; seq[at + 1] = 4; n++; V_WITNESS("list-insert-after"); break;
    case 3: if (!n) return; l.insert_before(&nodes[seq[at]], fresh); for (unsigned i = n; i > at; i--) seq[i] = seq[i - 1]; seq[at] = 4; n++; V_WITNESS("list-insert-before"); break;
    case 4: { if (!n) return; LNode* x = &nodes[seq[at]]; LNode* r = l.unlink(x);
      V_ASSERT(r == x && !x->has_prev() && !x->has_next(), "list: unlinked node is returned with cleared links");
      for (unsigned i = at; i + 1 < n; i++) seq[i] = seq[i + 1]; n--; V_WITNESS("list-unlink"); break; }
    case 5: { if (!n) return; LNode* r = l.pop_first();
      V_ASSERT(r == &nodes[seq[0]] && !r->has_prev() && !r->has_next(), "list: pop_first returns the first node with cleared links");
      for (unsigned i = 0; i + 1 < n; i++) seq[i] = seq[i + 1]; n--; V_WITNESS("list-pop-first"); break; }
    default: { if (!n) return; LNode* r = l.pop();
      V_ASSERT(r == &nodes[seq[n - 1]] && !r->has_prev() && !r->has_next(), "list: pop returns the last node with cleared links");
      n--; V_WITNESS("list-pop"); break; }
  }
  list_check(l, nodes, seq, n);
  // swap with an empty list moves everything
  ArenaList<LNode> other; other.swap(l);
  V_ASSERT(l.is_empty() && l.last() == nullptr, "list: swap leaves the other side's (empty) content");
  list_check(other, nodes, seq, n);
}

// =================================================================================================================
// ArenaTree (red-black)
struct TNode : public ArenaTreeNodeT<TNode> {
  uint32_t key;
  inline bool operator<(const TNode& o) const noexcept { return key < o.key; }
  inline bool operator>(const TNode& o) const noexcept { return key > o.key; }
  inline bool operator<(uint32_t k) const noexcept { return key < k; }
  inline bool operator>(uint32_t k) const noexcept { return key > k; }
};

HARNESS h_tree_probe() {
  TNode n[3]; ArenaTree<TNode> t;
  n[0].key = 10; n[1].key = 5; n[2].key = nondet_u32();
  V_ASSUME(n[2].key != 10 && n[2].key != 5);
  t.insert(&n[0]); t.insert(&n[1]); t.insert(&n[2]);
  TNode* g = t.get(n[2].key);
  V_ASSERT(g == &n[2], "probe: inserted key is found");
  V_ASSERT(!t.root()->is_red(), "probe: root black");
  V_WITNESS("tree-probe");
}
