// C18 — String::_op_vformat (append_format / assign_format) at the capacity boundary of its direct path: with at least 128 characters of
// capacity left the text is formatted straight into the string's buffer; the cases decided here are the outputs that are one shorter than,
// exactly as long as, and one longer than the remaining capacity (the last must grow the string). Found defect D21 (fixed in /repo): an
// output of exactly the remaining capacity lost its last character. Lengths are constants per harness, characters symbolic.
#include <asmjit/core.h>
#include "verif.h"
using namespace asmjit;

static char store[160];   // external storage: capacity 140 (141 bytes used), the rest is a guard
static char arg[160];
template<unsigned PRE, unsigned N> static void format_case() {
  String s;
  s._large.type = String::kTypeExternal; s._large.size = 0; s._large.capacity = 140; s._large.data = store;
  for (unsigned i = 0; i < sizeof(store); i++) store[i] = '#';
  store[0] = 0;
  for (unsigned i = 0; i < N; i++) arg[i] = char('a' + (nondet_u8() & 15));
  arg[N] = 0;
  char pre[16]; for (unsigned i = 0; i < PRE; i++) pre[i] = char('0' + (nondet_u8() & 7));
  if (PRE) V_ASSERT(s.append(pre, PRE) == Error::kOk, "format pre-state");
  Error e = s.append_format("%s", arg);
  V_ASSERT(e == Error::kOk, "append_format succeeds");
  V_ASSERT(s.size() == PRE + N, "append_format: size is the old size plus the length of the formatted text");
  bool ok = s.data()[PRE + N] == '\0';
  for (unsigned i = 0; i < PRE; i++) ok = ok && s.data()[i] == pre[i];
  for (unsigned i = 0; i < N; i++) ok = ok && s.data()[PRE + i] == arg[i];
  V_ASSERT(ok, "append_format: the old text is kept, every character of the formatted text is there, terminated");
  if (PRE + N <= 140) {
    V_ASSERT(s.data() == store, "append_format: text that fits stays in the buffer given");
    bool guard = true; for (unsigned i = 141; i < sizeof(store); i++) guard = guard && store[i] == '#';
    V_ASSERT(guard, "append_format: nothing written behind the buffer");
  } else {
    V_ASSERT(s.data() != store && s.capacity() >= PRE + N, "append_format: text that does not fit moves to a larger buffer");
  }
  verif_observe(s.size()); v_observe_bytes((const uint8_t*)s.data() + PRE + N - 2, 3);
  s._large.type = 0; s._small.type = 0;
  V_WITNESS("string format");
}
HARNESS h_string_format_fit_minus1() { format_case<5, 134>(); }   // remaining 135, output 134
HARNESS h_string_format_fit_exact() { format_case<5, 135>(); }    // remaining 135, output 135 (D21)
HARNESS h_string_format_fit_exact0() { format_case<0, 140>(); }   // empty string, output = capacity
HARNESS h_string_format_grow() { format_case<5, 136>(); }         // one more: must grow
