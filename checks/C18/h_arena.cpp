// C18 — Arena: one operation from an arbitrary valid pre-state built by hand (block chain, bump pointer, slot lists,
// dynamic blocks), post-state compared with a model: returned range aligned, inside the free region of the pre-state,
// free region only shrinks, block chain = model chain (no freed block stays linked), slots recycle only released chunks.
#include <asmjit/core.h>
#include <asmjit/support/arena.h>
#include <asmjit/support/arenastring.h>
#include <asmjit/support/arenapool.h>
#include <new>
#include <stdlib.h>
#include "verif.h"
using namespace asmjit;

typedef Arena::ManagedBlock MB;
typedef Arena::DynamicBlock DB;
typedef Arena::ReusableSlot RS;
static const size_t kHdr = sizeof(MB);

// Blocks handed to the arena must be heap objects (the arena frees them). stubs_arena.c allocates them with
// malloc(sizeof(struct)) so that the solver sees typed, field-sensitive objects; natively they are plain mallocs.
// verif_block_N: payload typed as pointers (slot chains live there); verif_bytes_N: payload typed as bytes (text is copied there).
extern "C" { void* verif_block_64(); void* verif_block_128(); void* verif_block_256(); void* verif_bytes_64(); void* verif_bytes_128(); void* verif_bytes_256(); void* verif_dyn_block(); void* verif_at8(void* base, unsigned k); }
#if !defined(VERIF_CBMC)
extern "C" { void* verif_block_64() { return malloc(16 + 64); } void* verif_block_128() { return malloc(16 + 128); } void* verif_block_256() { return malloc(16 + 256); }
             void* verif_bytes_64() { return malloc(16 + 64); } void* verif_bytes_128() { return malloc(16 + 128); } void* verif_bytes_256() { return malloc(16 + 256); }
             void* verif_dyn_block() { return malloc(24 + 32); }
             void* verif_at8(void* base, unsigned k) { return static_cast<char*>(base) + 8 * (k <= 32 ? k : 0); } }
#endif
static inline MB* init_block(void* m, size_t size) { MB* b = static_cast<MB*>(m); b->next = nullptr; b->size = size; return b; }
#define mk_block(N) init_block(BYTES ? verif_bytes_##N() : verif_block_##N(), N)
static inline uintptr_t U(const void* p) { return (uintptr_t)p; }

// The Arena lives on the harness's stack as a typed object (field-sensitive for the solver). Its destructor performs the
// hard reset that every scenario ends with; `defuse` detaches everything first where that is not wanted.
static inline void defuse(Arena& a, MB* zero) { a._first_block = zero; a._current_block = zero; a._dynamic_blocks = nullptr; a._has_static_block = 0; }

// ---------------------------------------------------------------------------------------------------------------
// _get_reusable_slot_index: for every size_t
HARNESS h_arena_slot_index() {
  size_t size = nondet_u64();
  size_t slot = 99, alloc = 0;
  bool ok = Arena::_get_reusable_slot_index(size, Out(slot), Out(alloc));
  verif_observe(ok); verif_observe(slot);
  bool ref = size >= 1 && size <= Arena::kMaxReusableSlotSize;
  V_ASSERT(ok == ref, "slot index: valid iff 1 <= size <= 2048");
  if (ok) {
    verif_observe(alloc);
    V_ASSERT(slot < Arena::kReusableSlotCount, "slot index: below slot count");
    V_ASSERT(alloc == (size_t(16) << slot), "slot index: slot size = 16 << slot");
    V_ASSERT(alloc >= size, "slot index: slot size covers the request");
    V_ASSERT(slot == 0 || (alloc >> 1) < size, "slot index: smallest slot that fits");
    size_t slot2 = 77;
    bool ok2 = Arena::_get_reusable_slot_index(size, Out(slot2));
    V_ASSERT(ok2 && slot2 == slot, "slot index: both overloads agree");
    V_WITNESS("slot-valid");
  } else V_WITNESS("slot-invalid");
}

// ---------------------------------------------------------------------------------------------------------------
// Pre-state: chain of N <= 3 blocks (payload 128, 64, 256), current block symbolic, bump pointer at a symbolic 8-aligned
// position of the current block. Blocks after the current one are unused (what a soft reset, or a soft reset followed by
// some allocations, leaves behind). Block size shifts 7..8 (hand-set; the constructor's smallest is 11) keep fresh blocks small.
struct Pre {
  Arena* a; MB* b[3]; unsigned n, cur; size_t used; uint8_t* old_ptr; uint8_t* old_end; uint32_t old_unused; uint8_t old_shift;
};
template<bool BYTES = false, unsigned MAXN = 3, int FIXED_USED = -1>
static inline void build_chain(Pre& s, Arena* arena) {
  s.a = arena;
  s.n = MAXN == 1 ? 1 : 1 + nondet_u8() % MAXN;
  for (unsigned i = 0; i < 3; i++) s.b[i] = nullptr;
  s.b[0] = mk_block(128); if (s.n >= 2) s.b[1] = mk_block(64); if (s.n >= 3) s.b[2] = mk_block(256);
  for (unsigned i = 0; i + 1 < s.n; i++) s.b[i]->next = s.b[i + 1];
  s.cur = MAXN == 1 ? 0 : nondet_u8() % MAXN; if (s.cur >= s.n) s.cur = 0;
  MB* c = s.b[s.cur];
  s.used = FIXED_USED >= 0 ? size_t(FIXED_USED) : 8 * size_t(nondet_u8() % 33); if (s.used > c->size) s.used = c->size;
  Arena* a = s.a;
  a->_first_block = s.b[0]; a->_current_block = c;
  a->_ptr = FIXED_USED >= 0 ? c->data() + FIXED_USED : static_cast<uint8_t*>(verif_at8(c->data(), unsigned(s.used / 8))); a->_end = c->end();
  // the shift is symbolic only in the chain harnesses: a symbolic malloc size makes the fresh block an unbounded array for the solver
  a->_min_block_size_shift = 7; a->_current_block_size_shift = uint8_t(7 + (MAXN == 1 ? 0 : nondet_u8() & 1));
  a->_unused_byte_count = nondet_u8();
  s.old_ptr = a->_ptr; s.old_end = a->_end; s.old_unused = a->_unused_byte_count; s.old_shift = a->_current_block_size_shift;
}

// Request classes: 0..504, 512..1016 (larger than every block), and every 8-aligned size that overflows the block-size computation.
static inline size_t pick_request() {
  unsigned k = nondet_u8() & 3; size_t size = 8 * size_t(nondet_u8() & 63);
  if (k == 2) size += 512;
  if (k == 3) size = (SIZE_MAX & ~size_t(7)) - 8 * size_t(nondet_u8() % 6);
  return size;
}

template<bool kf_region>
static void oneshot_step() {
  Arena arena(1024); MB* zero = arena._first_block;
  Pre s; build_chain(s, &arena); Arena* a = s.a;
  size_t size = pick_request();
  size_t remaining = size_t(s.old_end - s.old_ptr);
  // model: first fitting retained block after the current one
  int fit = -1; unsigned skipped = 0;
  bool slow = size > remaining;
  if (slow) for (unsigned j = s.cur + 1; j < s.n; j++) { if (size <= s.b[j]->size) { fit = int(j); break; } skipped++; }
  bool overflow = size > SIZE_MAX - (kHdr + Globals::kAllocOverhead);
  // D1: a skipped block is freed but stays linked unless a fresh block is linked in afterwards.
  bool d1 = slow && skipped >= 1 && (fit >= 0 || overflow);
  (void)d1;
  if constexpr (kf_region) V_ASSUME(d1);
#if KF_D1
  else V_ASSUME(!d1);
#endif
  MB* tail = fit >= 0 ? s.b[fit]->next : nullptr;
  size_t fit_size = fit >= 0 ? s.b[fit]->size : 0;

  uint8_t* p = a->alloc_oneshot<uint8_t>(size);
  verif_observe(p != nullptr); verif_observe(size_t(a->_ptr - (uint8_t*)a->_current_block)); verif_observe(a->_unused_byte_count);

  MB* c = s.b[s.cur];
  V_ASSERT(a->_first_block == s.b[0], "oneshot: first block unchanged");
  for (unsigned i = 0; i < s.cur; i++) V_ASSERT(s.b[i]->next == s.b[i + 1], "oneshot: chain before the current block unchanged");
  if (!slow) {
    if constexpr (!kf_region) {
      V_ASSERT(p == s.old_ptr && a->_ptr == s.old_ptr + size && a->_end == s.old_end && a->_current_block == c, "oneshot: bump allocation inside the current block");
      V_ASSERT(c->next == (s.cur + 1 < s.n ? s.b[s.cur + 1] : nullptr), "oneshot: bump allocation leaves the chain alone");
      V_WITNESS("oneshot-bump");
    }
  } else if (fit >= 0) {
    MB* f = s.b[fit];
    V_ASSERT(c->next == f, "oneshot: current block links to the reused block (skipped blocks unlinked)");
    if constexpr (kf_region) { V_WITNESS("oneshot-d1-region"); defuse(arena, zero); return; }
    V_ASSERT(p == f->data() && a->_current_block == f && a->_ptr == p + size && a->_end == f->data() + fit_size, "oneshot: reuses the first retained block that fits");
    V_ASSERT(f->next == tail && f->size == fit_size, "oneshot: reused block keeps its tail and size");
    V_ASSERT(a->_unused_byte_count == s.old_unused + uint32_t(remaining), "oneshot: unused bytes account for the abandoned remainder");
    V_WITNESS("oneshot-reuse");
  } else if (overflow) {
    V_ASSERT(p == nullptr, "oneshot: overflowing request fails");
    V_ASSERT(c->next == nullptr, "oneshot: failed request leaves no freed block linked");
    if constexpr (kf_region) { V_WITNESS("oneshot-d1-overflow"); defuse(arena, zero); return; }
    V_ASSERT(a->_current_block == c && a->_ptr == s.old_ptr && a->_end == s.old_end, "oneshot: failed request leaves the cursor alone");
    V_WITNESS("oneshot-overflow");
  } else {
    if constexpr (!kf_region) {
      MB* nb = a->_current_block;
      V_ASSERT(p != nullptr, "oneshot: fresh block allocated");
      V_ASSERT(nb != s.b[0] && nb != s.b[1] && nb != s.b[2], "oneshot: fresh block is a new object");
      V_ASSERT(c->next == nb && nb->next == nullptr, "oneshot: fresh block linked after the current one, retained blocks gone");
      V_ASSERT(p == nb->data() && nb->size >= size && a->_ptr == p + size && a->_end == nb->data() + nb->size, "oneshot: fresh block covers the request");
      V_ASSERT(a->_current_block_size_shift == (s.old_shift < a->_max_block_size_shift ? s.old_shift + 1 : s.old_shift), "oneshot: block size shift advances up to the maximum");
      V_ASSERT(a->_unused_byte_count == s.old_unused + uint32_t(remaining), "oneshot: unused bytes account for the abandoned tail");
      V_WITNESS("oneshot-fresh");
    }
  }
  if constexpr (kf_region) { defuse(arena, zero); return; }
  if (p) V_ASSERT((U(p) & 7) == 0 && (U(a->_ptr) & 7) == 0 && U(a->_ptr) <= U(a->_end), "oneshot: result and cursor 8-aligned, cursor inside the block");
  // Everything still linked must be live: a hard reset walks and frees the chain (pointer checks are the obligation).
  a->reset(ResetPolicy::kHard);
  V_ASSERT(a->_ptr == a->_end && a->_first_block == zero && a->_current_block == zero, "oneshot: hard reset returns to the empty arena");
  V_WITNESS("oneshot-hard-reset-done");
}
HARNESS h_arena_oneshot() { oneshot_step<false>(); }
HARNESS h_arena_oneshot_kf_D1() { oneshot_step<true>(); }

// ---------------------------------------------------------------------------------------------------------------
// Reusable allocation. Pre-state: chain as above; up to two released chunks A, B (slot classes 0..2 = 16/32/64 bytes) lying
// disjoint inside the used part of the current block and linked into the slot lists; up to two dynamic blocks.
struct Chunks { uint8_t* q[2]; unsigned slot[2]; unsigned n; };
static inline void build_slots(Pre& s, Chunks& k) {
  Arena* a = s.a; MB* c = s.b[s.cur];
  k.n = nondet_u8() % 3; k.q[0] = k.q[1] = nullptr; k.slot[0] = k.slot[1] = 0;
  size_t off = 0;
  for (unsigned i = 0; i < 2; i++) {
    if (i >= k.n) break;
    k.slot[i] = nondet_u8() % 3;
    off += 8 * size_t(nondet_u8() & 7);
    k.q[i] = static_cast<uint8_t*>(verif_at8(c->data(), unsigned(off / 8)));
    off += size_t(16) << k.slot[i];
  }
  V_ASSUME(off <= s.used);
  for (unsigned i = 0; i < k.n; i++) {  // push in order: B ends up in front of A when both share a slot
    reinterpret_cast<RS*>(k.q[i])->next = a->_reusable_slots[k.slot[i]];
    a->_reusable_slots[k.slot[i]] = reinterpret_cast<RS*>(k.q[i]);
  }
}
struct Dyn { DB* d[2]; unsigned n; };
static inline uint8_t* dyn_payload(DB* d) { return reinterpret_cast<uint8_t*>(d) + sizeof(DB) + sizeof(DB*); }
static inline void build_dynamic(Arena* a, Dyn& y) {
  y.n = nondet_u8() % 3; y.d[0] = y.d[1] = nullptr;
  for (unsigned i = 0; i < y.n; i++) {  // as _alloc_reusable links them: newest first
    DB* d = static_cast<DB*>(verif_dyn_block());
    d->prev = nullptr; d->next = a->_dynamic_blocks; if (d->next) d->next->prev = d;
    reinterpret_cast<DB**>(dyn_payload(d))[-1] = d;
    a->_dynamic_blocks = d; y.d[i] = d;
  }
}
static inline bool in_range(const void* p, size_t n, const void* lo, const void* hi) { return U(p) >= U(lo) && U(p) + n <= U(hi) && U(p) + n >= U(p); }

template<bool SMALL_LEFTOVER>
static void reusable_alloc_step() {
  Arena arena(1024); MB* zero = arena._first_block;
  Pre s; build_chain<false, 1>(s, &arena); Arena* a = s.a; MB* c = s.b[s.cur];
  Chunks k; build_slots(s, k);
  Dyn y; build_dynamic(a, y);
  DB* old_dyn = a->_dynamic_blocks;
  unsigned cls = nondet_u8() & 3;
  size_t size = 1 + size_t(nondet_u16() & 2047);                      // 1..2048: slot classes
  if (cls == 2) size = 2049 + size_t(nondet_u8());                    // dynamic block
  if (cls == 3) size = SIZE_MAX - size_t(nondet_u8() & 63);           // around the overflow guard of the dynamic path
  if (SMALL_LEFTOVER) V_ASSUME(size_t(s.old_end - s.old_ptr) < 32);   // at most one leftover chunk (quick tier)
  size_t slot = 0, want = 0; bool pooled = Arena::_get_reusable_slot_index(size, Out(slot), Out(want));
  RS* old_head = pooled ? a->_reusable_slots[slot] : nullptr;
  RS* old_heads[8]; for (unsigned i = 0; i < 8; i++) old_heads[i] = a->_reusable_slots[i];
  size_t remaining = size_t(s.old_end - s.old_ptr);
  size_t got = 12345;
  uint8_t* p = a->alloc_reusable<uint8_t>(size, Out(got));
  verif_observe(p != nullptr); verif_observe(got);
  if (pooled) {
    V_ASSERT(p != nullptr && got == want && (U(p) & 7) == 0, "reusable: pooled request returns an aligned chunk of the slot size");
    V_ASSERT(a->_dynamic_blocks == old_dyn, "reusable: pooled request leaves dynamic blocks alone");
    if (old_head) {
      V_ASSERT(p == reinterpret_cast<uint8_t*>(old_head), "reusable: non-empty slot hands out its head (a released chunk)");
      V_ASSERT((k.n >= 1 && p == k.q[0] && slot == k.slot[0]) || (k.n >= 2 && p == k.q[1] && slot == k.slot[1]), "reusable: recycled chunk was released with this slot class");
      V_ASSERT(a->_ptr == s.old_ptr && a->_end == s.old_end && a->_current_block == c, "reusable: recycling leaves the cursor alone");
      for (unsigned i = 0; i < 8; i++) if (i != slot) V_ASSERT(a->_reusable_slots[i] == old_heads[i], "reusable: recycling leaves other slots alone");
      V_ASSERT(a->_reusable_slots[slot] == ((k.n == 2 && k.slot[0] == k.slot[1]) && p == k.q[1] ? reinterpret_cast<RS*>(k.q[0]) : nullptr), "reusable: slot head advances to the next released chunk");
      V_WITNESS("reusable-recycled");
    } else if (remaining >= want) {
      V_ASSERT(p == s.old_ptr && a->_ptr == s.old_ptr + want && a->_end == s.old_end && a->_current_block == c, "reusable: empty slot bumps the cursor by the slot size");
      for (unsigned i = 0; i < 8; i++) V_ASSERT(a->_reusable_slots[i] == old_heads[i], "reusable: bump leaves the slots alone");
      V_WITNESS("reusable-bump");
    } else {
      // leftover of the current block is cut into slot chunks, then a fresh block serves the request
      MB* nb = a->_current_block;
      V_ASSERT(nb != c && c->next == nb && nb->next == nullptr, "reusable: fresh block linked after the exhausted one");
      V_ASSERT(p == nb->data() && a->_ptr == p + want && U(a->_ptr) <= U(a->_end) && a->_end == nb->data() + nb->size, "reusable: fresh block serves the request");
      // model of the leftover distribution: repeatedly the smallest slot class covering half of what is left (independent
      // reference for _get_reusable_slot_index), pushed in front of its slot list
      RS* exp_head[8]; for (unsigned i = 0; i < 8; i++) exp_head[i] = old_heads[i];
      uint8_t* q = s.old_ptr; size_t rem = remaining; unsigned fresh = 0;
      for (unsigned it = 0; it < 6 && rem >= 16; it++) {
        unsigned t = 0; while (t < 7 && (size_t(16) << t) < rem / 2) t++;
        size_t csz = size_t(16) << t;
        V_ASSERT(csz <= rem && in_range(q, csz, s.old_ptr, s.old_end), "reusable: leftover chunk lies inside the abandoned remainder with its full slot size");
        V_ASSERT(reinterpret_cast<RS*>(q)->next == exp_head[t], "reusable: leftover chunk chained in front of its slot list");
        exp_head[t] = reinterpret_cast<RS*>(q);
        q += csz; rem -= csz; fresh++;
      }
      V_ASSERT(rem < 16, "reusable: less than one minimal chunk of the remainder is abandoned");
      for (unsigned i = 0; i < 8; i++) V_ASSERT(a->_reusable_slots[i] == exp_head[i], "reusable: slot heads are exactly the model heads (nothing else was linked)");
      if (fresh) V_WITNESS("reusable-leftover-cut");
      V_WITNESS("reusable-fresh-block");
    }
  } else if (size >= SIZE_MAX - 24) {  // 24 = aligned sizeof(DynamicBlock) + back pointer
    V_ASSERT(p == nullptr, "reusable: request overflowing the dynamic block size fails");
    V_ASSERT(a->_dynamic_blocks == old_dyn && a->_ptr == s.old_ptr, "reusable: failed request changes nothing");
    V_WITNESS("reusable-overflow");
  } else if (cls == 3) {
    defuse(arena, zero); return;  // sizes that only fail natively (malloc of ~2^64 bytes): not claimed
  } else {
    DB* d = a->_dynamic_blocks;
    V_ASSERT(p != nullptr && got == size && (U(p) & 7) == 0, "reusable: large request returns an aligned dynamic block of the requested size");
    V_ASSERT(d != old_dyn && d->prev == nullptr && d->next == old_dyn && (!old_dyn || old_dyn->prev == d), "reusable: dynamic block linked in front of the list");
    V_ASSERT(reinterpret_cast<DB**>(p)[-1] == d && U(p) >= U(d) + sizeof(DB) + sizeof(DB*), "reusable: back pointer to the dynamic block stored in front of the payload");
    V_ASSERT(a->_ptr == s.old_ptr && a->_current_block == c, "reusable: large request leaves the managed blocks alone");
    V_WITNESS("reusable-dynamic");
  }
  a->reset(ResetPolicy::kHard);  // frees managed and dynamic blocks: no double free, nothing dangling
  V_ASSERT(a->_dynamic_blocks == nullptr && a->_first_block == zero, "reusable: hard reset releases everything");
  V_WITNESS("reusable-hard-reset-done");
}

HARNESS h_arena_reusable_alloc() { reusable_alloc_step<false>(); }
HARNESS h_arena_reusable_alloc_q() { reusable_alloc_step<true>(); }

HARNESS h_arena_reusable_free() {
  Arena arena(1024); MB* zero = arena._first_block;
  Pre s; build_chain<false, 1>(s, &arena); Arena* a = s.a; MB* c = s.b[s.cur];
  Chunks k; build_slots(s, k);
  Dyn y; build_dynamic(a, y);
  bool dynamic = nondet_bool();
  if (!dynamic) {
    // release a live chunk of the current block's used part that lies behind A and B
    unsigned slot = nondet_u8() % 3; size_t csize = size_t(16) << slot;
    size_t base = 0; for (unsigned i = 0; i < k.n; i++) base = size_t(k.q[i] - c->data()) + (size_t(16) << k.slot[i]);
    uint8_t* q = static_cast<uint8_t*>(verif_at8(c->data(), unsigned(base / 8 + (nondet_u8() & 3))));
    V_ASSUME(size_t(q - c->data()) + csize <= s.used);
    // the size passed may be the requested or the allocated size: anything of the same slot class
    size_t size = 1 + size_t(nondet_u8() & 63); size_t sl = 9, al = 0;
    V_ASSUME(Arena::_get_reusable_slot_index(size, Out(sl), Out(al)) && sl == slot);
    RS* old_head = a->_reusable_slots[slot];
    RS* old_heads[8]; for (unsigned i = 0; i < 8; i++) old_heads[i] = a->_reusable_slots[i];
    a->free_reusable(q, size);
    V_ASSERT(a->_reusable_slots[slot] == reinterpret_cast<RS*>(q) && reinterpret_cast<RS*>(q)->next == old_head, "free: chunk pushed in front of its slot list");
    for (unsigned i = 0; i < 8; i++) if (i != slot) V_ASSERT(a->_reusable_slots[i] == old_heads[i], "free: other slots untouched");
    V_ASSERT(a->_ptr == s.old_ptr && a->_end == s.old_end && a->_dynamic_blocks == (y.n ? y.d[y.n - 1] : nullptr), "free: cursor and dynamic blocks untouched");
    // the next request of that class gets exactly this chunk back
    size_t got = 0; uint8_t* r = slot == 0 ? a->alloc_reusable<uint8_t>(16, Out(got)) : slot == 1 ? a->alloc_reusable<uint8_t>(32, Out(got)) : a->alloc_reusable<uint8_t>(64, Out(got));
    V_ASSERT(r == q && got == csize && a->_reusable_slots[slot] == old_head, "free: released chunk is what the next request of its class receives");
    V_WITNESS("free-pooled");
  } else {
    V_ASSUME(y.n >= 1);
    unsigned i = nondet_u8() % 2; if (i >= y.n) i = 0;
    DB* d = y.d[i]; DB* other = y.n == 2 ? y.d[1 - i] : nullptr;
    a->free_reusable(dyn_payload(d), 4096);
    V_ASSERT(a->_dynamic_blocks == other, "free: dynamic block unlinked, the other one stays");
    if (other) V_ASSERT(other->prev == nullptr && other->next == nullptr, "free: remaining dynamic block has no neighbours");
    V_WITNESS("free-dynamic");
  }
  a->reset(ResetPolicy::kHard);
  V_ASSERT(a->_dynamic_blocks == nullptr && a->_first_block == zero, "free: hard reset releases everything once");
  V_WITNESS("free-hard-reset-done");
}

// ---------------------------------------------------------------------------------------------------------------
// reset(policy) from a populated state, then the arena is usable again.
template<bool kf_region>
static void reset_step() {
  Arena arena(1024); MB* zero = arena._first_block;
  Pre s; Arena* a = &arena; s.a = a; s.n = 0; s.b[0] = s.b[1] = s.b[2] = nullptr;
  bool empty = nondet_bool();  // no managed block yet (only dynamic blocks, e.g. after alloc_reusable(4096) on a new arena)
  if (!empty) build_chain(s, &arena);
  Chunks k; k.n = 0; if (!empty) build_slots(s, k);
  Dyn y; build_dynamic(a, y);
  bool hard = nondet_bool();
  // D18A: hard reset of an arena without managed blocks returns early and keeps (leaks) its dynamic blocks.
  bool d18a = hard && empty && y.n > 0; (void)d18a;
  if constexpr (kf_region) V_ASSUME(d18a);
#if KF_D18A
  else V_ASSUME(!d18a);
#endif
  uint8_t shift0 = a->_current_block_size_shift;
  a->reset(hard ? ResetPolicy::kHard : ResetPolicy::kSoft);
  V_ASSERT(a->_dynamic_blocks == nullptr, "reset: dynamic blocks released");
  if constexpr (kf_region) { V_WITNESS("reset-d18a-region"); defuse(arena, zero); return; }
  for (unsigned i = 0; i < 8; i++) V_ASSERT(a->_reusable_slots[i] == nullptr, "reset: slot lists emptied");
  if (!empty) V_ASSERT(a->_unused_byte_count == 0, "reset: unused byte counter cleared");
  if (hard || empty) {
    V_ASSERT(a->_first_block == zero && a->_current_block == zero && a->_ptr == a->_end, "reset: hard reset leaves the empty arena");
    if (!empty) V_ASSERT(a->_current_block_size_shift == a->_min_block_size_shift, "reset: hard reset restarts the block size progression");
    V_WITNESS("reset-hard");
  } else {
    V_ASSERT(a->_first_block == s.b[0] && a->_current_block == s.b[0] && a->_ptr == s.b[0]->data() && a->_end == s.b[0]->data() + 128, "reset: soft reset rewinds to the first block");
    V_ASSERT(s.b[0]->next == (s.n >= 2 ? s.b[1] : nullptr) && (s.n < 2 || s.b[1]->next == (s.n >= 3 ? s.b[2] : nullptr)), "reset: soft reset keeps the chain");
    V_ASSERT(a->_current_block_size_shift == shift0, "reset: soft reset keeps the block size progression");
    V_WITNESS("reset-soft");
  }
  // usable again
  a->_min_block_size_shift = 7; a->_current_block_size_shift = 7;
  uint8_t* p = a->alloc_oneshot<uint8_t>(64);
  V_ASSERT(p != nullptr && (U(p) & 7) == 0 && in_range(p, 64, a->_current_block->data(), a->_end) && a->_ptr == p + 64, "reset: arena serves requests again from a live block");
  V_WITNESS("reset-then-alloc");
}
HARNESS h_arena_reset() { reset_step<false>(); }
HARNESS h_arena_reset_kf_D18A() { reset_step<true>(); }

// ---------------------------------------------------------------------------------------------------------------
// Static first block (as ArenaTmp builds it): API-built history alloc, alloc, reset(policy), alloc.
HARNESS h_arena_static() {
  // what ArenaTmp<128> does, with the 128 bytes of static storage declared as a typed object for the solver
  struct alignas(8) Storage { MB hdr; void* payload[14]; } storage;
  uint8_t* sbase = reinterpret_cast<uint8_t*>(&storage);
  Arena a(1024, Span<uint8_t>(sbase, 128));
  MB* st = &storage.hdr;
  V_ASSERT(a._first_block == st && a.has_static_block() && st->size == 128 - kHdr && a._ptr == st->data() && a._end == sbase + 128, "static: constructor installs the embedded block");
  a._min_block_size_shift = 7; a._current_block_size_shift = 7; a._max_block_size_shift = 7;  // fresh blocks of 96 bytes instead of 2016, every time
  // request sizes: constants per call site (see h_arena_reusable_alloc)
  size_t s1 = 0, s2 = 0; uint8_t* p1 = nullptr; uint8_t* p2 = nullptr;
  switch (nondet_u8() % 5) {
    case 0: s1 = 0; p1 = a.alloc_oneshot<uint8_t>(0); break;
    case 1: s1 = 8; p1 = a.alloc_oneshot<uint8_t>(8); break;
    case 2: s1 = 56; p1 = a.alloc_oneshot<uint8_t>(56); break;
    case 3: s1 = 112; p1 = a.alloc_oneshot<uint8_t>(112); break;
    default: s1 = 120; p1 = a.alloc_oneshot<uint8_t>(120); break;
  }
  switch (nondet_u8() % 3) {
    case 0: s2 = 8; p2 = a.alloc_oneshot<uint8_t>(8); break;
    case 1: s2 = 64; p2 = a.alloc_oneshot<uint8_t>(64); break;
    default: s2 = 104; p2 = a.alloc_oneshot<uint8_t>(104); break;
  }
  V_ASSERT(p1 && p2 && (U(p1) & 7) == 0 && (U(p2) & 7) == 0, "static: allocations succeed aligned");
  V_ASSERT(U(p1) + s1 <= U(p2) || U(p2) + s2 <= U(p1), "static: two live allocations are disjoint");
  bool in1 = in_range(p1, s1, st->data(), sbase + 128), in2 = in_range(p2, s2, st->data(), sbase + 128);
  V_ASSERT(in1 == (s1 <= 112), "static: first request served from the embedded block iff it fits");
  if (in1 && in2) V_WITNESS("static-both-embedded");
  if (!in2) { V_ASSERT(a._current_block != st && st->next != nullptr && (in1 ? st->next == a._current_block : (st->next == a._current_block || st->next->next == a._current_block)), "static: overflow goes to a heap block linked behind the embedded one"); V_WITNESS("static-spilled"); }
  bool hard = nondet_bool();
  a.reset(hard ? ResetPolicy::kHard : ResetPolicy::kSoft);
  V_ASSERT(a._first_block == st && a._current_block == st && a._ptr == st->data() && a._end == sbase + 128, "static: reset rewinds to the embedded block");
  if (hard) { V_ASSERT(st->next == nullptr, "static: hard reset drops the heap blocks"); V_WITNESS("static-hard"); }
  else V_WITNESS("static-soft");
  uint8_t* p3 = a.alloc_oneshot<uint8_t>(56);
  V_ASSERT(p3 == st->data() && a._ptr == p3 + 56, "static: after reset the embedded block is reused first");
  V_WITNESS("static-done");
}  // destructor: hard reset must not free the embedded block (free of a non-heap object is a pointer-check obligation)

// ---------------------------------------------------------------------------------------------------------------
// dup / ArenaString::set_data / ArenaPool on top of a hand-built block.
// Sizes reaching memcpy/strlen are compile-time constants per instantiation (chosen by a symbolic selector).
template<size_t SIZE, bool NUL>
static void dup_case(Arena* a, MB* b0) {
  uint8_t src[24]; for (int i = 0; i < 24; i++) src[i] = nondet_u8();
  const bool nul = NUL; bool null_src = SIZE == 1 && NUL;
  uint8_t* old_ptr = a->_ptr; size_t remaining = 24;
  uint8_t* m = static_cast<uint8_t*>(a->dup(null_src ? nullptr : src, SIZE, nul));
  if (null_src || SIZE == 0) { V_ASSERT(m == nullptr && a->_ptr == old_ptr, "dup: nothing to copy returns null and allocates nothing"); V_WITNESS("dup-null"); return; }
  size_t asz = (SIZE + (nul ? 1 : 0) + 7) & ~size_t(7);
  V_ASSERT(m != nullptr && (U(m) & 7) == 0, "dup: returns aligned memory");
  V_ASSERT(asz <= remaining ? (m == old_ptr && a->_ptr == old_ptr + asz) : (m == a->_current_block->data() && a->_current_block != b0 && a->_ptr == m + asz), "dup: takes exactly the rounded size from the arena");
  for (size_t i = 0; i < SIZE; i++) V_ASSERT(m[i] == src[i], "dup: bytes copied");
  for (size_t i = SIZE; i < SIZE + 9; i++) if (i < asz) V_ASSERT(m[i] == 0, "dup: terminator and padding are zero");
  verif_observe(asz); v_observe_bytes(m, SIZE);
  if (nul) V_WITNESS("dup-terminated"); else V_WITNESS("dup-plain");
}
HARNESS h_arena_dup() {
  Arena arena(1024);
  Pre s; build_chain<true, 1, 104>(s, &arena); Arena* a = s.a;
  switch (nondet_u8() & 15) {
    case 0: dup_case<0, false>(a, s.b[0]); break;
    case 1: dup_case<1, false>(a, s.b[0]); break;
    case 2: dup_case<1, true>(a, s.b[0]); break;   // null source
    case 3: dup_case<7, false>(a, s.b[0]); break;
    case 4: dup_case<7, true>(a, s.b[0]); break;
    case 5: dup_case<8, false>(a, s.b[0]); break;
    case 6: dup_case<8, true>(a, s.b[0]); break;
    case 7: dup_case<16, true>(a, s.b[0]); break;
    case 8: dup_case<23, true>(a, s.b[0]); break;
    case 9: dup_case<24, false>(a, s.b[0]); break;
    default: dup_case<24, true>(a, s.b[0]); break;  // does not fit the 24 bytes left: fresh block
  }
}

template<size_t SIZE, bool USE_STRLEN>
static void string_case(Arena* a) {
  char src[25]; for (size_t i = 0; i < 24; i++) src[i] = char(nondet_u8()); src[24] = 0;
  // strlen variant: concrete text, so that the length computed by strlen is a constant for the solver (symbolic copy sizes
  // turn memcpy into an unbounded-array operation)
  if (USE_STRLEN) { for (size_t i = 0; i < SIZE; i++) src[i] = char('a' + i); src[SIZE] = 0; }
  ArenaString<16> str;
  V_ASSERT(str.is_empty() && str.size() == 0, "arena string: starts empty");
  uint8_t* old_ptr = a->_ptr;
  Error e = str.set_data(*a, src, USE_STRLEN ? SIZE_MAX : SIZE);
  V_ASSERT(e == Error::kOk && str.size() == SIZE, "arena string: set_data succeeds with the given size");
  V_ASSERT(str.is_embedded() == (SIZE <= 11), "arena string: embedded iff it fits 11 characters");
  const char* d = str.data();
  for (size_t i = 0; i < SIZE; i++) V_ASSERT(d[i] == src[i], "arena string: characters preserved");
  V_ASSERT(d[SIZE] == 0, "arena string: null terminated");
  v_observe_bytes(reinterpret_cast<const uint8_t*>(d), SIZE + 1);
  if (SIZE <= 11) { V_ASSERT(a->_ptr == old_ptr && U(d) >= U(&str) && U(d) + SIZE < U(&str) + sizeof(str), "arena string: embedded text lives inside the object, arena untouched"); V_WITNESS("arena-string-embedded"); }
  else V_WITNESS("arena-string-in-arena");
}
HARNESS h_arena_string() {
  Arena arena(1024);
  Pre s; build_chain<true, 1, 104>(s, &arena); Arena* a = s.a;
  switch (nondet_u8() & 7) {
    case 0: string_case<0, false>(a); break;
    case 1: string_case<0, true>(a); break;
    case 2: string_case<5, true>(a); break;
    case 3: string_case<11, false>(a); break;
    case 4: string_case<11, true>(a); break;
    case 5: string_case<12, false>(a); break;
    case 6: string_case<12, true>(a); break;
    default: string_case<24, false>(a); break;
  }
}

struct PItem { uint64_t a, b, c; };
HARNESS h_arena_pool() {
  Arena arena(1024);
  Pre s; build_chain<false, 1>(s, &arena); Arena* a = s.a;
  ArenaPool<PItem> pool;
  // pre-state: 0..2 released items (distinct slots of a harness array)
  PItem items[3]; unsigned n = nondet_u8() % 3;
  for (unsigned i = 0; i < n; i++) pool.release(&items[i]);
  V_ASSERT(pool.pooled_item_count() == n, "pool: counts released items");
  if (nondet_bool()) {
    uint8_t* old_ptr = a->_ptr; size_t remaining = size_t(a->_end - a->_ptr);
    PItem* p = pool.alloc(*a);
    if (n) { V_ASSERT(p == &items[n - 1] && a->_ptr == old_ptr, "pool: alloc hands out the most recently released item, arena untouched"); V_ASSERT(pool.pooled_item_count() == n - 1, "pool: one item less pooled"); V_WITNESS("pool-recycled"); }
    else { V_ASSERT(p != nullptr && (U(p) & 7) == 0 && (remaining >= 24 ? (uint8_t*)p == old_ptr && a->_ptr == old_ptr + 24 : a->_ptr == (uint8_t*)p + 24), "pool: empty pool takes an aligned item from the arena"); V_WITNESS("pool-fresh"); }
  } else {
    pool.release(&items[2]);
    V_ASSERT(pool.pooled_item_count() == n + 1, "pool: release adds one item");
    PItem* p = pool.alloc(*a);
    V_ASSERT(p == &items[2], "pool: last released is first reused");
    V_WITNESS("pool-release");
  }
}
