# C18 — arena-backed containers and strings
ARENA = dict(harness=['h_arena.cpp'], repo_units=['asmjit/support/arena.cpp'], extra_c=['stubs_arena.c'])
UNITS = [
    Unit('arena', **ARENA),
    Unit('nodes', harness=['h_nodes.cpp'], repo_units=[]),
    Unit('vec', harness=['h_vec.cpp'], repo_units=['asmjit/support/arenavector.cpp', 'asmjit/support/arenabitset.cpp']),
    Unit('string', harness=['h_string.cpp'], repo_units=['asmjit/core/string.cpp']),
    # embedded representation: pad_end's memset length is symbolic for the solver (size field overlays the characters); CBMC's
    # built-in memset loses such writes (spurious counterexamples), so this unit gives the solver a byte-loop memset
    Unit('string_sso', harness=['h_string.cpp'], repo_units=['asmjit/core/string.cpp'], extra_c=['stubs_memset.c']),
    # bit sets: the word loops become mem* calls with symbolic lengths; the solver gets byte-loop models of those (stubs_mem.c)
    Unit('bits', harness=['h_vec.cpp'], repo_units=['asmjit/support/arenavector.cpp', 'asmjit/support/arenabitset.cpp'], extra_c=['stubs_mem.c']),
]
# loops of the arena functions (block chain walks): the chains of the single-block harnesses are at most 2 long
def arena_loops(n):
    fns = {'_ZN6asmjit5v1_215Arena14_alloc_oneshotEm': 6, '_ZN6asmjit5v1_215Arena5resetENS0_11ResetPolicyE': 3}
    return ','.join('%s.%d:%d' % (f, i, n) for f, k in fns.items() for i in range(k))
def leftover_loops(n):
    return ','.join('_ZN6asmjit5v1_21L34Arena_make_block_leftover_reusableERNS0_5ArenaEPhm.%d:%d' % (i, n) for i in range(2))
def tree_loops(n):
    fns = {'_ZL14tree_do_insertRN6asmjit5v1_219ArenaTreeI5TNodeEEPS2_': 8, '_ZL14tree_do_removeRN6asmjit5v1_219ArenaTreeI5TNodeEEPS2_': 10, '_ZL11tree_do_getRN6asmjit5v1_219ArenaTreeI5TNodeEEj': 1}
    return ','.join('%s.%d:%d' % (f, i, n) for f, k in fns.items() for i in range(k))
B_HASH = '%s of 4 nodes, symbolic distinct 8-bit hash codes (collisions inside)'
# loops of the hash harnesses that run over buckets (everything else is bounded by the node count)
def hash_loops(nb):
    r = '_ZN6asmjit5v1_2113ArenaHashBase7_rehashERNS0_5ArenaEj'; c = '_ZL10hash_checkILj29EEvRN6asmjit5v1_219ArenaHashI5HNodeEER6HState'
    return ','.join(['%s.%d:%d' % (r, i, max(nb + 1, 7)) for i in range(6)] + ['%s.%d:31' % (c, i) for i in range(12)])
BITSET_LOOPS = ','.join('_ZN6asmjit5v1_2111ArenaBitSet7_resizeERNS0_5ArenaEmmb.%d:5' % i for i in range(7))  # word loops of _resize: at most 3 words
B_ONE = 'one 128-byte heap block, 8-aligned cursor symbolic, block-size shift 7'
B_CHAIN = 'chain of 1..3 heap blocks (payload 128/64/256), current block and 8-aligned cursor symbolic, block-size shift 7..8'
HARNESSES = [
    Harness('arena', 'h_arena_slot_index', unwind=4, bounds='all 2^64 sizes', mem_gb=1, timeout=300),
    Harness('arena', 'h_arena_oneshot', unwind=5, bounds=B_CHAIN + '; request 0..504, 512..1016 or one of the 6 aligned sizes that overflow the block-size computation', mem_gb=1, timeout=600),
    Harness('arena', 'h_arena_oneshot_kf_D1', unwind=5, known='D1', bounds='same as h_arena_oneshot, restricted to: a retained block is skipped and a later one fits or the request overflows', mem_gb=1, timeout=600),
    Harness('arena', 'h_arena_reusable_alloc', unwind=10, tiers=('thorough',), bounds=B_ONE + '; 0..2 released chunks of 16/32/64 bytes; 0..2 dynamic blocks; request 1..2048, 2049..2304, SIZE_MAX-63..SIZE_MAX', mem_gb=6, timeout=900),
    Harness('arena', 'h_arena_reusable_alloc_q', unwind=10, unwindset=leftover_loops(3), bounds='as h_arena_reusable_alloc with less than 32 bytes left in the block (at most one leftover chunk)', mem_gb=4, timeout=600),
    Harness('arena', 'h_arena_reusable_free', unwind=9, unwindset=arena_loops(4), bounds=B_ONE + '; 0..2 released chunks; 0..2 dynamic blocks; releases a 16/32/64-byte chunk with any size of its class, or either dynamic block', mem_gb=4, timeout=600),
    Harness('arena', 'h_arena_reset', unwind=9, bounds=B_CHAIN + ' or no managed block; 0..2 released chunks; 0..2 dynamic blocks; soft or hard', mem_gb=4, timeout=600),
    Harness('arena', 'h_arena_reset_kf_D18A', unwind=9, known='D18A', bounds='no managed block, 1..2 dynamic blocks, hard reset', mem_gb=2, timeout=600),
    Harness('arena', 'h_arena_static', unwind=5, unwindset=arena_loops(4), bounds='static 128-byte first block: requests {0,8,56,112,120} then {8,64,104}, reset soft or hard, one more request of 56', mem_gb=2, timeout=600),
    Harness('arena', 'h_arena_dup', unwind=26, unwindset=arena_loops(3), bounds='one 128-byte block with 24 bytes left; 24 symbolic bytes, (size, terminator) in {0,1,7,8,16,23,24} x {no,yes} (11 combinations), null source', mem_gb=1, timeout=600),
    Harness('arena', 'h_arena_string', unwind=27, unwindset=arena_loops(3), bounds='one 128-byte block with 24 bytes left; ArenaString<16>, 24 symbolic characters, size in {0,5,11,12,24} explicit or {0,5,11,12} by strlen', mem_gb=1, timeout=600),
    Harness('arena', 'h_arena_pool', unwind=5, bounds=B_ONE + '; 0..2 pooled items; alloc or release+alloc', mem_gb=1, timeout=600),
    Harness('nodes', 'h_list_step', unwind=8, bounds='any list of 0..4 of 4 nodes in any order; one of append/prepend/insert_after/insert_before/unlink/pop_first/pop at any position, then swap', mem_gb=2, timeout=600),
    Harness('nodes', 'h_tree_insert_d2', unwind=17, unwindset=tree_loops(5), rotate=(0, 2), bounds='any valid red-black tree of 0..3 nodes (height <= 2), symbolic distinct 32-bit keys and colours; insert of any new key, then lookup of any key (quick tier: when VERIF_SEED is even)', mem_gb=5, timeout=900),
    Harness('nodes', 'h_tree_remove_d2', unwind=17, unwindset=tree_loops(5), rotate=(1, 2), bounds='any valid red-black tree of 1..3 nodes (height <= 2); remove of any node (quick tier: when VERIF_SEED is odd)', mem_gb=7, timeout=900),
    Harness('nodes', 'h_tree_insert_d3', unwind=33, unwindset=tree_loops(6), tiers=('thorough',), bounds='any valid red-black tree of 0..5 nodes (height <= 3); insert of any new key, then lookup of any key', mem_gb=8, timeout=3000),
    # h_tree_remove_d3 (remove from trees of 1..5 nodes): out of memory at the 8 GB cap after 37 s - dropped, see OUTSIDE
] + [
    Harness('nodes', 'h_hash_mod_%d' % k, unwind=4, bounds='table entries %d..%d: all hash codes below 2^16 through the real _calc_mod + exactness condition of reciprocal division for 32-bit codes on the constants' % (8 * k, min(8 * k + 7, 128)), mem_gb=1, timeout=900,
            tiers=('quick', 'thorough') if k == 1 else ('thorough',)) for k in range(17)
] + [
] + [
    # measured: *_insert/remove/rehash on the embedded table 2-30 s; p2/p11 remove 3-24 s; p11_insert 17 s; p2_rehash 270 s; the 2-node
    # variants p2_insert_n2 255 s, p2_rehash_n2 60 s. No verdict in 900 s (dropped, see OUTSIDE): p2_insert and p11_rehash with 4 nodes, p11_rehash with 2.
    Harness('nodes', 'h_hash_%s_%s' % (tab, op), unwind=13, unwindset=hash_loops(nb), mem_gb=2, timeout=1800, tiers=tiers,
            bounds=B_HASH % pre + '; ' + what)
    for tab, nb, pre in (('embedded', 1, 'embedded single bucket with 0..1'), ('p2', 2, '2 buckets with 0..4'), ('p11', 11, '11 buckets with 0..4'))
    for op, what in (('insert', 'insert of a 5th node (rehash to 29 buckets when the grow threshold is passed)'), ('remove', 'remove of any of the 5 nodes (member or not)'),
                     ('rehash', 'explicit rehash to the next table size (2 / 11 / 29 buckets)'))
    for tiers in [('thorough',) if (tab, op) == ('p2', 'rehash') else ('quick', 'thorough')]
    if (tab, op) not in (('p2', 'insert'), ('p11', 'rehash'))
] + [
    Harness('nodes', 'h_hash_%s_n2' % nm, unwind=13, unwindset=hash_loops(nb), mem_gb=2, timeout=1800, tiers=('thorough',), bounds=B_HASH % pre + '; ' + what)
    for nm, nb, pre, what in (('p2_insert', 2, '2 buckets with 0..2', 'insert (rehash to 29 buckets)'), ('p2_rehash', 2, '2 buckets with 0..2', 'rehash to 11 buckets'))
] + [
    Harness('vec', 'h_vec_u32', unwind=10, bounds='ArenaVector<uint32_t>: size/index pairs (0,0) (0,2) (1,0) (1,1) (3,0) (3,1) (3,3) (4,2) (4,4), spare capacity 0 or 2, symbolic elements; one of append/prepend/insert/remove_at/pop/truncate/clear/resize_fit/resize_grow/reserve/swap/release', mem_gb=2, timeout=900),
    Harness('vec', 'h_vec_tri', unwind=10, bounds='ArenaVector<12-byte struct>: same as h_vec_u32', mem_gb=2, timeout=900),
    Harness('vec', 'h_vec_huge_u32', unwind=4, bounds='reserve_fit/reserve_grow/reserve_additional with any 64-bit item count > 2, arena failing or granting', mem_gb=1, timeout=900),
    Harness('vec', 'h_vec_huge_tri', unwind=4, bounds='same for the 12-byte item', mem_gb=1, timeout=900),
    Harness('vec', 'h_vec_huge_kf_D18C', unwind=4, known='D18C', bounds='12-byte item, restricted to: the arena grants a block of 2^32 items or more', mem_gb=1, timeout=900),
    Harness('bits', 'h_bitset_bits', unwind=66, unwindset='memset.0:130', bounds='any bit set of size 0..128 (two words, symbolic content); bit_at/set_bit/add_bit/clear_bit/xor_bit at any index, append within capacity, truncate, clear', mem_gb=2, timeout=900),
    Harness('bits', 'h_bitset_ranges', unwind=66, bounds='any bit set of size 0..128; clear_all/fill_all/clear_bits/fill_bits over any range, iteration over set bits', mem_gb=1, timeout=900),
    Harness('bits', 'h_bitset_combine', unwind=66, unwindset='memset.0:130', bounds='two bit sets of sizes 0..128; and_/or_/and_not/equals/copy_from', mem_gb=1, timeout=900),
    Harness('bits', 'h_bitset_resize', unwind=66, unwindset=BITSET_LOOPS + ',memset.0:130', bounds='any bit set of size 0..128 with capacity 64 or 128; resize to 0..192 with either value, or growing append', mem_gb=1, timeout=900),
    Harness('bits', 'h_bitset_resize_kf_D18B', unwind=66, unwindset=BITSET_LOOPS + ',memset.0:130', known='D18B', bounds='resize growing from a size that is not a multiple of 64', mem_gb=1, timeout=900),
    Harness('bits', 'h_bitvec_ops', unwind=194, bounds='3 symbolic words; bit_vector_fill/clear over any range, index_of from any start', mem_gb=3, timeout=900),
    Harness('bits', 'h_bitvec_iter_init', unwind=66, bounds='3 symbolic words, any start 0..192: BitVectorIterator::init establishes remaining = set bits from start', mem_gb=1, timeout=900),
    Harness('bits', 'h_bitvec_iter_step', unwind=66, bounds='3 symbolic words, any valid iterator state with something remaining: one next()', mem_gb=1, timeout=900),
    Harness('bits', 'h_bitword_iter', unwind=66, bounds='all non-zero 64-bit / 32-bit words: one next(); BitVectorOpIterator<AndNot> over 2x2 symbolic words from any start: init + first next()', mem_gb=1, timeout=900),
] + [
] + [
    Harness('string_sso' if kind == 'small' else 'string', 'h_string_%s_%s' % (kind, grp), unwind=36, mem_gb=8 if kind == 'small' else 2, timeout=1800,
            tiers=('thorough',) if kind == 'small' else ('quick', 'thorough'), bounds=what + '; symbolic characters; one of ' + ops)
    for kind, what in (('small', 'embedded string (capacity 30), (length, n) in {(5,25),(5,26),(30,1)}'),
                       ('tmp', 'StringTmp<8> (external buffer, capacity 15), (length, n) in {(0,15),(0,16),(8,7),(8,8),(15,3)}'),
                       ('heap', 'heap string (capacity 15), (length, n) in {(0,15),(8,7),(8,8),(15,2)}'))
    for grp, ops in (('a', 'assign / append / append(char) / append_chars'), ('b', 'pad_end / truncate / clear / assign(char)'), ('c', 'assign_chars / assign(String) / reset'))
] + [
    Harness('string', 'h_string_huge', unwind=8, bounds='prepare (append, assign) / append_chars / append_hex with every length the size arithmetic must refuse (>= SIZE_MAX - 16 MiB - 2; hex: >= SIZE_MAX/2 or /3)', mem_gb=1, timeout=600),
    Harness('string', 'h_string_hex', unwind=48, bounds='append_hex of 0..5 symbolic bytes with and without separator onto 0..31 characters of a StringTmp<32>', mem_gb=1, timeout=900),
] + [
    Harness('string', 'h_string_num_' + nm, unwind=u, mem_gb=4, timeout=6000, tiers=tiers, bounds=b)
    for nm, u, tiers, b in (
        ('hex64', 66, ('quick', 'thorough'), 'append_uint base 16, all 2^64 values'),
        ('hex64_alt', 66, ('thorough',), 'append_int base 16, alternate form + show-sign, width 18, all 2^64 values'),
        ('oct32', 34, ('quick', 'thorough'), 'append_uint base 8, alternate form, all 2^32 values'),
        ('bin16', 34, ('thorough',), 'append_int base 2, show-space, all values -2^15..2^15-1'),
        ('dec16', 34, ('quick', 'thorough'), 'append_int base 10, all values -2^15..2^15-1'),
        ('dec32', 34, ('thorough',), 'append_uint base 10, all 2^32 values (measured: 1343..2047 s)'),
        ('dec32_signed', 34, ('thorough',), 'append_int base 0 (=10), show-sign, width 12, all 32-bit signed values'),
        )
] + [
    Harness('string', 'h_string_num_badbase', unwind=8, bounds='any base other than 0/2/8/10/16, any value, width, flags', mem_gb=3, timeout=600),
]
EXPLANATION = 'bounded symbolic execution (CBMC) of the real container code compiled from /repo; one operation from an arbitrary valid pre-state built in the harness, compared with an abstract model (plain arrays)'
OUTSIDE = ['ArenaHash: insert into / rehash of tables with 2 and 11 buckets holding more than 2 nodes when the target has 29 buckets (no verdict from the SAT back end within 15 min); hash codes wider than 8 bits in the table harnesses (16 bits in h_hash_mod)',
           'ArenaTree: insert into trees of more than 5 nodes, remove from trees of more than 3 nodes (remove on 1..5 nodes exhausts the 8 GB cap of one query)',
           'String: decimal formatting of values wider than 32 bits (the /10 digit loop: 32-bit values already take 22 min of SAT time); String::_op_format / vsnprintf paths']
ASSUMPTIONS = ['malloc never fails (allocation failure is C15)',
               'arena harnesses: pre-state blocks are heap objects of 64/128/256 payload bytes allocated by a C stub with malloc(sizeof(struct)) (typed for the solver) and the block-size shift is hand-set to 7..8, i.e. smaller than the 1 KiB minimum the constructor accepts - the code under test does not depend on the block size',
               'h_hash_mod_*: codes >= 2^16 rely on the arithmetic lemma stated in h_nodes.cpp, whose condition is checked on every table constant',
               'vector / bit set harnesses: Arena::_alloc_reusable and _release_dynamic are harness stubs (one typed 512-byte pool, allocated size reported as the real arena does)',
               'bit set and embedded-string harnesses: memset (and for the bit sets memcpy/memmove) are byte loops for the solver (CBMC\'s built-in models lose writes of symbolic length into the middle of an object)',
               'hash harnesses: Arena::_alloc_reusable_zeroed is a harness stub returning a zeroed typed pool (the arena itself is checked by the h_arena_* harnesses)']

# ---- String at the embedded/heap boundary (lengths 29..33), added after seeded change C18-m3
import re as _re, os as _os
UNITS.append(Unit('string_boundary', harness=['h_string_boundary.cpp'], repo_units=['asmjit/core/string.cpp'], cbmc_defines=['VERIF_MEM_LOOPS', 'VERIF_MEM_LOOPS_ALL']))
for _fn in _re.findall(r'^HARNESS (h_\w+)\(\)', open(_os.path.join(_os.path.dirname(_os.path.abspath(__file__)), 'h_string_boundary.cpp')).read(), _re.M):
    HARNESSES.append(Harness('string_boundary', _fn, unwind=42, mem_gb=4, timeout=600,
                             bounds='embedded String brought to exactly the number of characters in the harness name by assign / append / append_chars; contents symbolic, lengths constants'))

# ---- String::_op_vformat at the capacity boundary of its direct path (defect D21, repaired)
UNITS.append(Unit('string_format', harness=['h_string_format.cpp'], repo_units=['asmjit/core/string.cpp'], extra_c=['verif_printf.c'], c_defines=['VP_MAX=160'], cbmc_defines=['VERIF_MEM_LOOPS']))
for _fn in _re.findall(r'^HARNESS (h_\w+)\(\)', open(_os.path.join(_os.path.dirname(_os.path.abspath(__file__)), 'h_string_format.cpp')).read(), _re.M):
    HARNESSES.append(Harness('string_format', _fn, unwind=162, mem_gb=6, timeout=900,
                             bounds='String with external storage of capacity 140 holding 0 or 5 characters, append_format("%s", text) with a text of exactly the length in the harness comment (one below / equal to / one above the remaining capacity); characters symbolic'))
OUTSIDE += ['String::_op_vformat through its 1024-byte stack buffer at the 1023/1024/1025-character boundary: a harness with 1024 symbolic characters (unwind 1042) ran out of its 12 GB budget without a verdict (seeded change C18-m4 is therefore not reported)']
ASSUMPTIONS += ['string_format: vsnprintf is the model tools/verif_printf.c (validated against libc by the native twins)']
