/* Byte-loop models of memset/memcpy/memmove for the solver only (the native twins keep libc's). LLVM's loop-idiom pass turns
 * the word loops of ArenaBitSet / bit_vector_fill into mem* calls with a symbolic length; CBMC's built-in models of those
 * (array_set/array_copy on a suffix of an object) lose such writes - seen as counterexamples that do not replay natively.
 * Lengths here are at most a few words; the loops are covered by the unwinding bound. */
#ifdef __CPROVER__
#include <stddef.h>
void* memset(void* s, int c, size_t n) { unsigned char* p = (unsigned char*)s; for (size_t i = 0; i < n; i++) p[i] = (unsigned char)c; return s; }
void* memcpy(void* d, const void* s, size_t n) { unsigned char* p = (unsigned char*)d; const unsigned char* q = (const unsigned char*)s; for (size_t i = 0; i < n; i++) p[i] = q[i]; return d; }
void* memmove(void* d, const void* s, size_t n) {
  unsigned char* p = (unsigned char*)d; const unsigned char* q = (const unsigned char*)s;
  if ((size_t)p <= (size_t)q) { for (size_t i = 0; i < n; i++) p[i] = q[i]; } else { for (size_t i = n; i > 0; i--) p[i - 1] = q[i - 1]; }
  return d;
}
#else
typedef int verif_stubs_mem_not_empty;
#endif
