// C18 — String at the boundary between the embedded and the heap representation: assign / append / append_chars that bring an embedded
// string to exactly 29..33 characters (the embedded capacity is 30; the length byte of the embedded form doubles as the type tag of the
// other forms, so 31 and 32 are the values where a wrong comparison turns an embedded string into a "heap" string with a garbage pointer).
// Lengths are constants per harness (every copy length is concrete), contents symbolic.
#include <asmjit/core.h>
#include "verif.h"
using namespace asmjit;

static char src[40];
template<int OP, unsigned PRE, unsigned N> static void boundary_case() {   // OP 0: assign(src, N); 1: append(src, N) to PRE chars; 2: append_chars(c, N) to PRE chars
  for (unsigned i = 0; i < sizeof(src); i++) src[i] = char('a' + (nondet_u8() & 15));
  char fill = char('A' + (nondet_u8() & 7));
  String s;
  char pre[32];
  for (unsigned i = 0; i < PRE; i++) pre[i] = char('0' + (nondet_u8() & 7));
  if (PRE) V_ASSERT(s.assign(pre, PRE) == Error::kOk && !s.is_large_or_external() && s.size() == PRE, "boundary pre-state: embedded string");
  Error e = OP == 0 ? s.assign(src, N) : OP == 1 ? s.append(src, N) : s.append_chars(fill, N);
  V_ASSERT(e == Error::kOk, "string boundary operation succeeds");
  const unsigned total = (OP == 0 ? 0 : PRE) + N;
  V_ASSERT(s.size() == total, "string boundary: size is the number of characters");
  V_ASSERT((total <= String::kSSOCapacity) == !s.is_large_or_external(), "string boundary: embedded iff the text fits the embedded capacity");
  V_ASSERT(s.capacity() >= total, "string boundary: capacity covers the size");
  const char* d = s.data();
  bool ok = d[total] == '\0';
  for (unsigned i = 0; i < total; i++) {
    char want = (OP != 0 && i < PRE) ? pre[i] : (OP == 2 ? fill : src[i - (OP == 0 ? 0 : PRE)]);
    ok = ok && d[i] == want;
  }
  V_ASSERT(ok, "string boundary: contents and terminator");
  v_observe_bytes((const uint8_t*)d, total);
  s.reset();
  V_ASSERT(s.size() == 0 && !s.is_large_or_external(), "string boundary: reset returns to the empty embedded string");
  V_WITNESS("string boundary");
}
HARNESS h_string_boundary_assign_29() { boundary_case<0, 0, 29>(); }
HARNESS h_string_boundary_assign_30() { boundary_case<0, 0, 30>(); }
HARNESS h_string_boundary_assign_31() { boundary_case<0, 0, 31>(); }
HARNESS h_string_boundary_assign_32() { boundary_case<0, 0, 32>(); }
HARNESS h_string_boundary_assign_33() { boundary_case<0, 0, 33>(); }
HARNESS h_string_boundary_append_30() { boundary_case<1, 7, 23>(); }
HARNESS h_string_boundary_append_31() { boundary_case<1, 7, 24>(); }
HARNESS h_string_boundary_append_32() { boundary_case<1, 30, 2>(); }
HARNESS h_string_boundary_chars_30() { boundary_case<2, 29, 1>(); }
HARNESS h_string_boundary_chars_31() { boundary_case<2, 30, 1>(); }
HARNESS h_string_boundary_chars_32() { boundary_case<2, 1, 31>(); }
