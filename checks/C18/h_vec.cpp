// C18 — ArenaVector and ArenaBitSet against plain-array models; Support bit-vector helpers and iterators bit by bit.
// The Arena is environment here (it has its own harnesses): Arena::_alloc_reusable / _release_dynamic are harness stubs that
// hand out one typed pool, report the size a real arena would report (slot size, or the request for large blocks) and record
// what was requested and released.
#include <asmjit/core.h>
#include <asmjit/support/arena.h>
#include <asmjit/support/arenavector.h>
#include <asmjit/support/arenabitset_p.h>
#include <asmjit/support/support.h>
#include "verif.h"
using namespace asmjit;

static uint64_t pool_mem[64];                 // 512 bytes
static unsigned pool_calls, release_calls; static size_t pool_req, pool_granted; static bool pool_fail;
static void* released_ptr; static size_t released_size;
ASMJIT_BEGIN_NAMESPACE
void* Arena::_alloc_reusable(size_t size, Out<size_t> allocated_size) noexcept {
  pool_calls++; pool_req = size;
  size_t slot = 0, asz = 0;
  if (!_get_reusable_slot_index(size, Out(slot), Out(asz))) asz = size;
  if (pool_fail) { allocated_size = 0; pool_granted = 0; return nullptr; }
  allocated_size = asz; pool_granted = asz;
  return pool_mem;
}
void Arena::_release_dynamic(void* p, size_t size) noexcept { release_calls++; released_ptr = p; released_size = size; }
ASMJIT_END_NAMESPACE
alignas(8) static unsigned char arena_mem[sizeof(Arena)];
static inline Arena& env_arena() {
  memset(arena_mem, 0, sizeof arena_mem); pool_calls = release_calls = 0; pool_req = pool_granted = 0; pool_fail = false; released_ptr = nullptr; released_size = 0;
  return *reinterpret_cast<Arena*>(arena_mem);
}
// what free_reusable did with a block of `bytes` bytes: pooled sizes are pushed on the slot list, larger ones go to _release_dynamic
static inline bool was_released(Arena& a, void* p, size_t bytes) {
  size_t slot = 0;
  if (Arena::_get_reusable_slot_index(bytes, Out(slot))) return a._reusable_slots[slot] == static_cast<Arena::ReusableSlot*>(p);
  return release_calls == 1 && released_ptr == p;
}

// =================================================================================================================
// ArenaVector<T>: T = uint32_t (power-of-two item size) and a 12-byte struct (multiplied item size).
struct Tri { uint32_t a, b, c; bool operator==(const Tri& o) const { return a == o.a && b == o.b && c == o.c; } };
static inline void fill_nondet(uint32_t& x) { x = nondet_u32(); }
static inline void fill_nondet(Tri& x) { x.a = nondet_u32(); x.b = nondet_u8(); x.c = nondet_u8(); }
static inline void observe(const uint32_t& x) { verif_observe(x); }
static inline void observe(const Tri& x) { verif_observe(x.a); verif_observe(x.b); }
static inline bool is_zero(const uint32_t& x) { return x == 0; }
static inline bool is_zero(const Tri& x) { return x.a == 0 && x.b == 0 && x.c == 0; }

template<typename T, unsigned MAXM>
struct VModel { T m[MAXM]; unsigned n; };

template<typename T, unsigned MAXM>
static inline void vec_equals_model(ArenaVector<T>& v, VModel<T, MAXM>& m) {
  V_ASSERT(v.size() == m.n && v.is_empty() == (m.n == 0), "vector: size equals the model size");
  V_ASSERT(v.size() <= v.capacity(), "vector: size within capacity");
  V_ASSERT(v.capacity() == 0 || v.data() != nullptr, "vector: capacity implies storage");
  for (unsigned i = 0; i < MAXM; i++) if (i < m.n) { V_ASSERT(v[i] == m.m[i], "vector: element equals the model element"); observe(v[i]); }
}

// SIZE, IDX are compile-time constants per instantiation (sizes reaching memcpy/memmove stay concrete for the solver); the
// spare capacity (0 or 2 items) and the operation are symbolic.
template<typename T, unsigned SIZE, unsigned IDX>
static void vec_case() {
  Arena& arena = env_arena();
  T store[SIZE + 3]; ArenaVector<T> v; VModel<T, SIZE + 4> m;
  unsigned spare = nondet_bool() ? 2 : 0;
  for (unsigned i = 0; i < SIZE; i++) { fill_nondet(store[i]); m.m[i] = store[i]; }
  m.n = SIZE;
  if (SIZE + spare) { v._data = store; v._size = SIZE; v._capacity = SIZE + spare; }
  vec_equals_model(v, m);
  unsigned old_cap = v._capacity; void* old_data = v._data;
  T item; fill_nondet(item);
  unsigned op = nondet_u8() % 12;
  verif_observe(op); verif_observe(spare);
  bool grows = false; Error e = Error::kOk;
  switch (op) {
    case 0: e = v.append(arena, item); grows = spare == 0; m.m[m.n++] = item; V_WITNESS("vec-append"); break;
    case 1: e = v.prepend(arena, item); grows = spare == 0; for (unsigned i = m.n; i > 0; i--) m.m[i] = m.m[i - 1]; m.m[0] = item; m.n++; V_WITNESS("vec-prepend"); break;
    case 2: if (IDX > SIZE) return; e = v.insert(arena, IDX, item); grows = spare == 0; for (unsigned i = m.n; i > IDX; i--) m.m[i] = m.m[i - 1]; m.m[IDX] = item; m.n++; V_WITNESS("vec-insert"); break;
    case 3: if (IDX >= SIZE) return; v.remove_at(IDX); for (unsigned i = IDX; i + 1 < m.n; i++) m.m[i] = m.m[i + 1]; m.n--; V_WITNESS("vec-remove-at"); break;
    case 4: { if (!SIZE) return; T r = v.pop(); V_ASSERT(r == m.m[m.n - 1], "vector: pop returns the last element"); m.n--; V_WITNESS("vec-pop"); break; }
    case 5: v.truncate(IDX); if (IDX < m.n) m.n = IDX; V_WITNESS("vec-truncate"); break;
    case 6: v.clear(); m.n = 0; V_ASSERT(v.capacity() == old_cap && v.data() == old_data, "vector: clear keeps the storage"); V_WITNESS("vec-clear"); break;
    case 7: { const unsigned n = IDX + 1 < SIZE ? IDX : SIZE + IDX;  // shrink or grow
      e = v.resize_fit(arena, n); grows = n > old_cap;
      for (unsigned i = m.n; i < n && i < SIZE + 4; i++) m.m[i] = T{}; m.n = n;
      for (unsigned i = SIZE; i < SIZE + 4; i++) if (i < n) V_ASSERT(is_zero(v[i]), "vector: resize zero-fills new elements");
      V_WITNESS("vec-resize-fit"); break; }
    case 8: { const unsigned n = SIZE + IDX;
      e = v.resize_grow(arena, n); grows = n > old_cap;
      for (unsigned i = m.n; i < n && i < SIZE + 4; i++) m.m[i] = T{}; m.n = n;
      V_WITNESS("vec-resize-grow"); break; }
    case 9: { const unsigned n = SIZE + IDX;
      e = nondet_bool() ? v.reserve_fit(arena, n) : v.reserve_grow(arena, n); grows = n > old_cap;
      V_ASSERT(e == Error::kOk && v.capacity() >= n, "vector: reserve provides the capacity asked for");
      V_WITNESS("vec-reserve"); break; }
    case 10: { ArenaVector<T> other; T ostore[2]; fill_nondet(ostore[0]); other._data = ostore; other._size = 1; other._capacity = 2;
      v.swap(other);
      V_ASSERT(other._data == old_data && other._size == SIZE && other._capacity == old_cap, "vector: swap moves this vector's storage to the other");
      m.n = 1; m.m[0] = ostore[0]; V_WITNESS("vec-swap"); break; }
    default: { v.release(arena);
      V_ASSERT(v.data() == nullptr && v.size() == 0 && v.capacity() == 0, "vector: release resets");
      if (old_data) V_ASSERT(was_released(arena, old_data, size_t(old_cap) * sizeof(T)), "vector: release returns the storage to the arena with its byte size");
      m.n = 0; V_WITNESS("vec-release"); break; }
  }
  V_ASSERT(e == Error::kOk, "vector: operation succeeds when the arena delivers");
  if (grows) {
    V_ASSERT(pool_calls == 1 && v.data() == reinterpret_cast<T*>(pool_mem), "vector: growth takes one block from the arena");
    V_ASSERT(size_t(v.capacity()) * sizeof(T) <= pool_granted && pool_granted <= sizeof(pool_mem), "vector: capacity stays within the block the arena granted");
    V_ASSERT(v.capacity() > old_cap, "vector: growth increases the capacity");
    if (old_data) V_ASSERT(was_released(arena, old_data, size_t(old_cap) * sizeof(T)), "vector: growth releases the old storage with its byte size");
    V_WITNESS("vec-grown");
  } else if (op != 10 && op != 11) {
    V_ASSERT(pool_calls == 0 && v.data() == old_data && v.capacity() == old_cap, "vector: no growth keeps the storage");
  }
  vec_equals_model(v, m);
}
template<typename T>
static void vec_dispatch() {
  switch (nondet_u8() % 9) {
    case 0: vec_case<T, 0, 0>(); break;
    case 1: vec_case<T, 0, 2>(); break;
    case 2: vec_case<T, 1, 0>(); break;
    case 3: vec_case<T, 1, 1>(); break;
    case 4: vec_case<T, 3, 0>(); break;
    case 5: vec_case<T, 3, 1>(); break;
    case 6: vec_case<T, 3, 3>(); break;
    case 7: vec_case<T, 4, 2>(); break;
    default: vec_case<T, 4, 4>(); break;
  }
}
HARNESS h_vec_u32() { vec_dispatch<uint32_t>(); }
HARNESS h_vec_tri() { vec_dispatch<Tri>(); }

// Growth arithmetic with huge n: every reserve/resize entry point, n any 64-bit value, arena either failing or granting what is
// asked (the stub hands out the same small pool: nothing but the first `size` items is written by a reserve).
template<typename T, bool kf_region>
static void vec_huge() {
  Arena& arena = env_arena();
  T store[2]; ArenaVector<T> v;
  fill_nondet(store[0]); v._data = store; v._size = 1; v._capacity = 2;
  T first = store[0];  // releasing the old storage to the arena overwrites its first bytes with the slot link
  size_t n = nondet_u64(); V_ASSUME(n > 2);
  pool_fail = nondet_bool();
  unsigned op = nondet_u8() % 3;
  Error e = op == 0 ? v.reserve_fit(arena, n) : op == 1 ? v.reserve_grow(arena, n) : v.reserve_additional(arena, n - 1);
  verif_observe(uint32_t(e));
  // D18C: when the block granted by the arena holds 2^32 items or more, the item count is truncated to 32 bits.
  bool d18c = e == Error::kOk && pool_granted / sizeof(T) > 0xFFFFFFFFu; (void)d18c;
  if constexpr (kf_region) V_ASSUME(d18c);
#if KF_D18C
  else V_ASSUME(!d18c);
#endif
  if (e == Error::kOk) {
    V_ASSERT(size_t(v.capacity()) >= n, "vector: successful reserve of n items reports a capacity of at least n");
    if constexpr (kf_region) { V_WITNESS("vec-huge-d18c-region"); return; }
    V_ASSERT(n < 0xFFFFFFFFu && !pool_fail, "vector: success only for counts that fit 32 bits and when the arena delivered");
    V_ASSERT(pool_req >= n * sizeof(T) && pool_req / sizeof(T) >= n, "vector: the arena was asked for at least n items without overflow");
    V_ASSERT(size_t(v.capacity()) * sizeof(T) <= pool_granted, "vector: reported capacity fits the granted block");
    V_ASSERT(v.size() == 1 && v[0] == first, "vector: reserve keeps the content");
    V_WITNESS("vec-huge-ok");
  } else if constexpr (!kf_region) {
    V_ASSERT(e == Error::kOutOfMemory, "vector: failure is reported as out of memory");
    V_ASSERT(v.data() == store && v.size() == 1 && v.capacity() == 2, "vector: failed reserve leaves the vector unchanged");
    V_ASSERT(pool_fail || n >= 0xFFFFFFFFu, "vector: failure only when the arena failed or the count does not fit");
    V_WITNESS("vec-huge-refused");
  }
}
HARNESS h_vec_huge_u32() { vec_huge<uint32_t, false>(); }
HARNESS h_vec_huge_tri() { vec_huge<Tri, false>(); }
HARNESS h_vec_huge_kf_D18C() { vec_huge<Tri, true>(); }

// =================================================================================================================
// ArenaBitSet: pre-state = any size 0..128 over a two-word store (capacity 128) with arbitrary content that satisfies the
// representation invariant (bits at and above `size` are zero in the used words). Model: the same bits kept as three words
// and updated bit-range-wise by an independent reference (mask of [lo, hi) built bit by bit).
static const unsigned BW = 64, BCAP = 128;
struct BModel { BitWord w[3]; unsigned n; };
static inline bool word_bit(const BitWord* d, unsigned i) { return (d[i / BW] >> (i % BW)) & 1; }
// bits k of word `w` with lo <= k < hi
static inline BitWord range_mask(unsigned w, unsigned lo, unsigned hi) {
  BitWord m = 0;
  for (unsigned b = 0; b < 64; b++) { unsigned k = w * 64 + b; if (k >= lo && k < hi) m |= BitWord(1) << b; }
  return m;
}
static inline unsigned words_of(unsigned bits) { return (bits + 63) / 64; }

static inline void bitset_build(ArenaBitSet& s, BitWord* store, BModel& m, unsigned max_size) {
  unsigned n = nondet_u8(); V_ASSUME(n <= max_size);
  for (unsigned w = 0; w < 2; w++) store[w] = nondet_u64() & range_mask(w, 0, n);
  s._data = store; s._size = n; s._capacity = BCAP;
  m.n = n; m.w[0] = store[0]; m.w[1] = store[1]; m.w[2] = 0;
}
static inline void bitset_equals_model(ArenaBitSet& s, BModel& m) {
  V_ASSERT(s.size() == m.n && s.is_empty() == (m.n == 0), "bitset: size equals the model size");
  V_ASSERT(s.size() <= s.capacity(), "bitset: size within capacity");
  for (unsigned w = 0; w < 3; w++) if (w < words_of(m.n)) {
    V_ASSERT(s.data()[w] == m.w[w], "bitset: every bit below the size equals the model bit and no bit above the size is set");
    verif_observe(s.data()[w]);
  }
}

HARNESS h_bitset_bits() {
  Arena& arena = env_arena();
  BitWord store[2]; ArenaBitSet s; BModel m;
  bitset_build(s, store, m, 128);
  unsigned i = nondet_u8(); bool val = nondet_bool();
  unsigned op = nondet_u8() % 8;
  verif_observe(op);
  BitWord bit = i < 128 ? BitWord(1) << (i % 64) : 0; unsigned wi = (i / 64) & 1;
  switch (op) {
    case 0: V_ASSUME(i < m.n); V_ASSERT(s.bit_at(i) == ((m.w[wi] & bit) != 0), "bitset: bit_at reads the model bit"); V_WITNESS("bitset-bit-at"); break;
    case 1: V_ASSUME(i < m.n); s.set_bit(i, val); m.w[wi] = val ? m.w[wi] | bit : m.w[wi] & ~bit; V_WITNESS("bitset-set-bit"); break;
    case 2: V_ASSUME(i < m.n); s.add_bit(i, val); if (val) m.w[wi] |= bit; V_WITNESS("bitset-add-bit"); break;
    case 3: V_ASSUME(i < m.n); s.clear_bit(i); m.w[wi] &= ~bit; V_WITNESS("bitset-clear-bit"); break;
    case 4: V_ASSUME(i < m.n); s.xor_bit(i, val); if (val) m.w[wi] ^= bit; V_WITNESS("bitset-xor-bit"); break;
    case 5: { V_ASSUME(m.n < 128); Error e = s.append(arena, val); V_ASSERT(e == Error::kOk && pool_calls == 0, "bitset: append within capacity needs no memory");
      if (val) m.w[m.n / 64] |= BitWord(1) << (m.n % 64); m.n++; V_WITNESS("bitset-append"); break; }
    case 6: s.truncate(i); if (i < m.n) { for (unsigned w = 0; w < 3; w++) m.w[w] &= range_mask(w, 0, i); m.n = i; } V_WITNESS("bitset-truncate"); break;
    default: s.clear(); m.n = 0; V_WITNESS("bitset-clear"); break;
  }
  bitset_equals_model(s, m);
}

HARNESS h_bitset_ranges() {
  BitWord store[2]; ArenaBitSet s; BModel m;
  bitset_build(s, store, m, 128);
  unsigned start = nondet_u8(), count = nondet_u8();
  unsigned op = nondet_u8() % 5;
  verif_observe(op);
  switch (op) {
    case 0: s.clear_all(); m.w[0] = m.w[1] = 0; V_WITNESS("bitset-clear-all"); break;
    case 1: s.fill_all(); for (unsigned w = 0; w < 3; w++) m.w[w] = range_mask(w, 0, m.n); V_WITNESS("bitset-fill-all"); break;
    case 2: V_ASSUME(start <= m.n && count <= m.n - start); s.clear_bits(start, count); for (unsigned w = 0; w < 3; w++) m.w[w] &= ~range_mask(w, start, start + count); if (count > 64) V_WITNESS("bitset-clear-bits-across-words"); V_WITNESS("bitset-clear-bits"); break;
    case 3: V_ASSUME(start <= m.n && count <= m.n - start); s.fill_bits(start, count); for (unsigned w = 0; w < 3; w++) m.w[w] |= range_mask(w, start, start + count); if (count > 64) V_WITNESS("bitset-fill-bits-across-words"); V_WITNESS("bitset-fill-bits"); break;
    default: {  // iteration over set bits: the iterator is BitVectorIterator over the used words (its steps: h_bitvec_iter_*)
      ArenaBitSet::ForEachBitSet it(s);
      bool any = (m.w[0] | m.w[1]) != 0;
      V_ASSERT(it.has_next() == any, "bitset: iteration has an element iff a bit is set");
      if (any) { size_t got = it.next(); V_ASSERT(got == (m.w[0] ? Support::ctz(m.w[0]) : 64 + Support::ctz(m.w[1])), "bitset: iteration starts at the lowest set bit"); V_WITNESS("bitset-iterate"); }
      break; }
  }
  bitset_equals_model(s, m);
}

HARNESS h_bitset_combine() {
  Arena& arena = env_arena();
  BitWord store[2], ostore[2]; ArenaBitSet s, o; BModel m, om;
  bitset_build(s, store, m, 128); bitset_build(o, ostore, om, 128);
  unsigned op = nondet_u8() % 5;
  verif_observe(op);
  switch (op) {
    case 0: s.and_(o); for (unsigned w = 0; w < 3; w++) m.w[w] &= om.w[w]; V_WITNESS("bitset-and"); break;
    case 1: s.or_(o); for (unsigned w = 0; w < 3; w++) m.w[w] |= om.w[w] & range_mask(w, 0, m.n); V_WITNESS("bitset-or"); break;
    case 2: s.and_not(o); for (unsigned w = 0; w < 3; w++) m.w[w] &= ~om.w[w]; V_WITNESS("bitset-and-not"); break;
    case 3: { bool eq = m.n == om.n && m.w[0] == om.w[0] && m.w[1] == om.w[1];
      V_ASSERT(s.equals(o) == eq && (s == o) == eq && (s != o) == !eq, "bitset: equality = same size and same bits");
      if (eq) V_WITNESS("bitset-equal"); else V_WITNESS("bitset-unequal"); break; }
    default: { Error e = s.copy_from(arena, o); V_ASSERT(e == Error::kOk && pool_calls == 0, "bitset: copy within capacity needs no memory");
      for (unsigned w = 0; w < 3; w++) m.w[w] = om.w[w]; m.n = om.n; V_WITNESS("bitset-copy-from"); break; }
  }
  bitset_equals_model(s, m);
}

// resize(new_size, value) and growing append. Known finding D18B: growing from a size that is not a multiple of 64 sets or
// clears the wrong bits (the tests only resize from size 0).
template<bool kf_region>
static void bitset_resize() {
  Arena& arena = env_arena();
  BitWord store[2]; ArenaBitSet s; BModel m;
  bitset_build(s, store, m, 128);
  unsigned cap_sel = nondet_u8() % 3;
  if (cap_sel == 1) { V_ASSUME(m.n <= 64); s._capacity = 64; }     // growth beyond one word needs memory
  if (cap_sel == 2) { V_ASSUME(m.n == 128); }                       // full
  unsigned old_n = m.n; unsigned n = nondet_u8(); bool val = nondet_bool(); bool by_append = nondet_bool();
  V_ASSUME(n <= 192);
  if (by_append) n = old_n + 1;
  bool d18b = !by_append && n > old_n && (old_n % 64) != 0; (void)d18b;
  if constexpr (kf_region) V_ASSUME(d18b);
#if KF_D18B
  else V_ASSUME(!d18b);
#endif
  Error e = by_append ? s.append(arena, val) : s.resize(arena, n, val);
  V_ASSERT(e == Error::kOk, "bitset: resize succeeds when the arena delivers");
  const unsigned cap0 = cap_sel == 1 ? 64u : 128u;
  bool grows = n > cap0;
  if (grows) {
    V_ASSERT(pool_calls == 1 && s.data() == reinterpret_cast<BitWord*>(pool_mem) && size_t(s.capacity()) <= pool_granted * 8 && s.capacity() >= n, "bitset: growth takes one block from the arena and reports a capacity within it");
    V_ASSERT(was_released(arena, store, cap0 / 8), "bitset: growth releases the old words with their byte size");
  } else V_ASSERT(pool_calls == 0 && s.data() == store, "bitset: no growth keeps the storage");
  for (unsigned w = 0; w < 3; w++) {
    if (n < old_n) m.w[w] &= range_mask(w, 0, n);
    else if (val) m.w[w] |= range_mask(w, old_n, n);
  }
  m.n = n;
  if constexpr (kf_region) {
    bool same = s.size() == n; for (unsigned w = 0; w < 3; w++) if (w < words_of(n) && s.data()[w] != m.w[w]) same = false;
    V_ASSERT(same, "bitset: resize keeps the old bits and sets the new ones to the value");
    V_WITNESS("bitset-resize-d18b-region");
    return;
  }
  if (by_append) V_WITNESS("bitset-append-any"); else if (n > old_n) V_WITNESS("bitset-resize-grow"); else V_WITNESS("bitset-resize-shrink");
  if (grows) V_WITNESS("bitset-resize-new-storage");
  bitset_equals_model(s, m);
}
HARNESS h_bitset_resize() { bitset_resize<false>(); }
HARNESS h_bitset_resize_kf_D18B() { bitset_resize<true>(); }

// =================================================================================================================
// Support bit-vector helpers on raw word buffers (3 words), bit-by-bit reference.
HARNESS h_bitvec_ops() {
  BitWord buf[3], ref[3];
  for (int i = 0; i < 3; i++) ref[i] = buf[i] = nondet_u64();
  unsigned start = nondet_u8(), count = nondet_u8();
  V_ASSUME(start < 192 && count <= 192 - start);
  unsigned op = nondet_u8() % 3;
  verif_observe(op);
  if (op < 2) {
    if (op == 0) Support::bit_vector_fill(buf, start, count); else Support::bit_vector_clear(buf, start, count);
    // reference: per word, the mask of the bits k with start <= k < start + count
    for (unsigned w = 0; w < 3; w++) {
      BitWord mask = 0;
      for (unsigned b = 0; b < 64; b++) { unsigned k = w * 64 + b; if (k >= start && k < start + count) mask |= BitWord(1) << b; }
      V_ASSERT(buf[w] == (op == 0 ? (ref[w] | mask) : (ref[w] & ~mask)), "bit vector: fill and clear change exactly the bits of the range");
      verif_observe(buf[w]);
    }
    if (count == 0) V_WITNESS("bitvec-empty-range");
    if (count > 128) V_WITNESS("bitvec-range-over-three-words");
    V_WITNESS("bitvec-fill-clear");
  } else {
    bool value = nondet_bool();
    // precondition of index_of: a matching bit exists at or after start (it does not take a length)
    unsigned first = 192; for (unsigned k = 192; k-- > 0;) if (k >= start && word_bit(buf, k) == value) first = k;
    V_ASSUME(first < 192);
    size_t got = Support::bit_vector_index_of(buf, start, value);
    V_ASSERT(got == first, "bit vector: index_of returns the first matching bit at or after start");
    if (first >= 128 && start < 64) V_WITNESS("bitvec-index-of-skips-words");
    V_WITNESS("bitvec-index-of");
  }
}

// Iterators as inductive steps. Abstract state = the set of bit positions still to be delivered (a 3-word mask).
//   init(data, start)  establishes  remaining = set bits at or after start;
//   next() from ANY state that represents a non-empty remaining set returns its minimum and removes exactly it.
// By induction every run delivers the set bits from start in ascending order, each once, and has_next() turns false
// exactly when none is left.
struct Remaining { BitWord w[3]; };
static inline Remaining decode(const Support::BitVectorIterator<BitWord>& it, const BitWord* buf) {
  Remaining r; r.w[0] = r.w[1] = r.w[2] = 0;
  size_t wi = it._idx / 64;
  for (unsigned w = 0; w < 3; w++) { if (w == wi) r.w[w] = it._current; else if (w > wi) r.w[w] = buf[w]; }
  return r;
}
static inline bool iter_valid(const Support::BitVectorIterator<BitWord>& it, const BitWord* buf) {
  size_t wi = it._idx / 64;
  // position: a word boundary; the cursor points behind the current word; an empty current word means nothing is left
  bool pos = it._idx % 64 == 0 && it._end == 192 && (it._idx < 192 ? it._ptr == buf + wi + 1 : true);
  bool sub = it._idx >= 192 ? it._current == 0 : (it._current & ~buf[wi]) == 0;
  bool drained = it._current != 0 || it._idx >= 192 || ((wi >= 1 || buf[1] == 0) && (wi >= 2 || buf[2] == 0));
  return pos && sub && drained;
}
HARNESS h_bitvec_iter_init() {
  BitWord buf[3]; for (int i = 0; i < 3; i++) buf[i] = nondet_u64();
  unsigned start = nondet_u8(); V_ASSUME(start <= 192);
  Support::BitVectorIterator<BitWord> it(Span<const BitWord>(buf, 3), start);
  Remaining r = decode(it, buf);
  for (unsigned w = 0; w < 3; w++) {
    BitWord mask = 0;
    for (unsigned b = 0; b < 64; b++) if (w * 64 + b >= start) mask |= BitWord(1) << b;
    V_ASSERT(r.w[w] == (buf[w] & mask), "bit vector iterator: after init the remaining set is the set bits at or after start");
  }
  V_ASSERT(it._idx >= 192 || iter_valid(it, buf), "bit vector iterator: init establishes the iterator invariant");
  V_ASSERT(it.has_next() == ((r.w[0] | r.w[1] | r.w[2]) != 0), "bit vector iterator: has_next iff something remains");
  if (start == 192) V_WITNESS("bitvec-iter-init-at-end");
  if (start % 64) V_WITNESS("bitvec-iter-init-inside-word");
  V_WITNESS("bitvec-iter-init");
}
HARNESS h_bitvec_iter_step() {
  BitWord buf[3]; for (int i = 0; i < 3; i++) buf[i] = nondet_u64();
  Support::BitVectorIterator<BitWord> it(Span<const BitWord>(buf, 3), 0);
  unsigned wi = nondet_u8() % 3;
  it._idx = 64 * wi; it._end = 192; it._ptr = buf + wi + 1; it._current = nondet_u64() & buf[wi];
  V_ASSUME(it._current != 0 && iter_valid(it, buf));
  Remaining pre = decode(it, buf);
  V_ASSERT(it.has_next(), "bit vector iterator: has_next while something remains");
  size_t peek = it.peek_next();
  size_t n = it.next();
  verif_observe(n);
  // n is the minimum of the remaining set
  V_ASSERT(n < 192 && ((pre.w[n / 64] >> (n % 64)) & 1), "bit vector iterator: next returns a remaining set bit");
  for (unsigned w = 0; w < 3; w++) {
    BitWord below = w < n / 64 ? ~BitWord(0) : w == n / 64 ? ((BitWord(1) << (n % 64)) - 1) : 0;
    V_ASSERT((pre.w[w] & below) == 0, "bit vector iterator: nothing remaining lies below the returned bit");
  }
  V_ASSERT(peek == n, "bit vector iterator: peek_next announces what next returns");
  Remaining post = decode(it, buf);
  for (unsigned w = 0; w < 3; w++) V_ASSERT(post.w[w] == (w == n / 64 ? pre.w[w] & ~(BitWord(1) << (n % 64)) : pre.w[w]), "bit vector iterator: next removes exactly the returned bit");
  V_ASSERT(it._idx >= 192 ? it._current == 0 : iter_valid(it, buf), "bit vector iterator: next preserves the iterator invariant");
  V_ASSERT(it.has_next() == ((post.w[0] | post.w[1] | post.w[2]) != 0), "bit vector iterator: has_next iff something remains after the step");
  if (it._idx / 64 > wi) V_WITNESS("bitvec-iter-advances-word");
  if (!it.has_next()) V_WITNESS("bitvec-iter-exhausted");
  V_WITNESS("bitvec-iter-step");
}

HARNESS h_bitword_iter() {
  // one step from any non-zero word (64- and 32-bit): returns the lowest set bit and clears exactly it
  uint64_t w = nondet_u64(); V_ASSUME(w != 0);
  Support::BitWordIterator<uint64_t> it(w);
  V_ASSERT(it.has_next(), "bit word iterator: has_next on a non-zero word");
  uint32_t k = it.next();
  V_ASSERT(k < 64 && ((w >> k) & 1) && (w & ((uint64_t(1) << k) - 1)) == 0, "bit word iterator: next returns the lowest set bit");
  V_ASSERT(it._bit_word == (w & ~(uint64_t(1) << k)) && it.has_next() == (it._bit_word != 0), "bit word iterator: next clears exactly that bit");
  uint32_t w32 = nondet_u32(); V_ASSUME(w32 != 0);
  Support::BitWordIterator<uint32_t> it32(w32);
  uint32_t k32 = it32.next();
  V_ASSERT(k32 < 32 && ((w32 >> k32) & 1) && (w32 & ((uint32_t(1) << k32) - 1)) == 0 && it32._bit_word == (w32 & ~(uint32_t(1) << k32)), "bit word iterator: 32-bit step returns and clears the lowest set bit");
  Support::BitWordIterator<uint64_t> empty(0);
  V_ASSERT(!empty.has_next(), "bit word iterator: nothing to deliver for zero");
  // two-operand iterator (a and-not b over two words): init + one step
  BitWord a[2] = {nondet_u64(), nondet_u64()}, b[2] = {nondet_u64(), nondet_u64()};
  unsigned start = nondet_u8() % 129;
  Support::BitVectorOpIterator<BitWord, Support::AndNot> oit(a, b, 2, start);
  BitWord c[2] = {a[0] & ~b[0], a[1] & ~b[1]};
  BitWord m0 = 0, m1 = 0; for (unsigned bit = 0; bit < 64; bit++) { if (bit >= start) m0 |= BitWord(1) << bit; if (64 + bit >= start) m1 |= BitWord(1) << bit; }
  bool any = ((c[0] & m0) | (c[1] & m1)) != 0;
  V_ASSERT(oit.has_next() == any, "bit vector op iterator: has_next iff a and-not b has a bit at or after start");
  if (any) {
    size_t n = oit.next();
    BitWord lo = c[0] & m0;
    size_t expect = lo ? Support::ctz(lo) : 64 + Support::ctz(c[1] & m1);
    V_ASSERT(n == expect, "bit vector op iterator: first result is the lowest bit of a and-not b at or after start");
    V_WITNESS("bitword-op-iter");
  }
  V_WITNESS("bitword-iterate");
}
