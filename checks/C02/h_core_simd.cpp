// C02 core harnesses (hand-written, Advanced SIMD classes + CSSC min/max). See h_core.cpp for conventions.
// Vector operands: register id 0..63 (32..63 = no register); shape = either a scalar B/H/S/D/Q register or an arrangement
// (Q, element B/H/S/D) or an element access V.T[index] with index 0..15, each chosen symbolically per operand.
#include "c02_common.h"
using namespace a64;

struct VSym { uint32_t kind, q, el, idx, id; };   // kind 0 = arrangement, 1 = scalar, 2 = element
// maxkind 1: arrangement or scalar; 2: also element access. The 64-bit "arrangement" with D elements does not exist (1D is a plain D register).
static inline VSym nd_vec(uint32_t maxkind = 2) {
  VSym v; v.kind = nondet_u8() % 3; if (v.kind > maxkind) v.kind = 0;
  v.q = nondet_u8() & 1; v.el = nondet_u8() & 3; v.idx = nondet_u8() & 15; v.id = nd_vec_id();
  if (v.kind == 0 && v.el == 3) v.q = 1;
  return v;
}
static inline Vec mk(const VSym& v) { return v.kind == 0 ? varr(v.q, v.el, v.id) : v.kind == 1 ? vscalar(v.el, v.id) : velem(v.el, v.idx, v.id); }
static inline bool same_shape(const VSym& a, const VSym& b) { return a.kind == b.kind && a.el == b.el && (a.kind != 0 || a.q == b.q) && (a.kind != 2 || a.idx == b.idx); }

// ADD/SUB Vd.T, Vn.T, Vm.T and ADD/SUB Dd, Dn, Dm  (three-same)
HARNESS h_simd_add() {
  bool sub = nondet_bool(); VSym d = nd_vec(1), n = nd_vec(1), m = nd_vec(1);
#if KF_C02A
  V_ASSUME(m.id < 32);
#endif
  Res r = sub ? emit(Inst::kIdSub_v, mk(d), mk(n), mk(m)) : emit(Inst::kIdAdd_v, mk(d), mk(n), mk(m));
  C02_FRAME(r);
  if (r.e == Error::kOk) {
    uint32_t w = r.w;
    V_ASSERT(same_shape(d, n) && same_shape(n, m) && d.kind != 2, "simd add: all operands have the same arrangement or scalar type");
    V_ASSERT(vec_ok(d.id) && vec_ok(n.id) && vec_ok(m.id), "simd add: registers are v0-v31");
    V_ASSERT(fld(w, 0, 5) == d.id && fld(w, 5, 5) == n.id && fld(w, 16, 5) == m.id, "simd add: Rd Rn Rm fields");
    V_ASSERT(fld(w, 31, 1) == 0 && fld(w, 29, 1) == uint32_t(sub) && fld(w, 24, 4) == 0xE && fld(w, 21, 1) == 1 && fld(w, 10, 6) == 0x21, "simd add: 0 Q U 01110 size 1 Rm 10000 1");
    if (d.kind == 0) {
      V_ASSERT(fld(w, 28, 1) == 0 && fld(w, 30, 1) == d.q && fld(w, 22, 2) == d.el && !(d.el == 3 && d.q == 0), "simd add vector: Q size from the arrangement, 1D is not an arrangement");
    } else {
      V_ASSERT(d.el == 3 && fld(w, 28, 1) == 1 && fld(w, 30, 1) == 1 && fld(w, 22, 2) == 3, "simd add scalar: D registers only, size 11");
    }
    V_WITNESS("simd-add");
  } else V_WITNESS("simd-add-refused");
}

// FMLA/FMLS/FMUL/FMULX: vector, vector by element, scalar by element (single, double, half precision)
HARNESS h_simd_fmla() {
  uint32_t sel = nondet_u8() & 3; VSym d = nd_vec(1), n = nd_vec(1), m = nd_vec(2);
#if KF_C02A
  V_ASSUME(m.id < 32);
#endif
#if KF_C02K
  V_ASSUME(!(m.kind == 2 && m.el != d.el));
#endif
  Res r;
  switch (sel) {
    case 0: r = emit(Inst::kIdFmla_v, mk(d), mk(n), mk(m)); break;
    case 1: r = emit(Inst::kIdFmls_v, mk(d), mk(n), mk(m)); break;
    case 2: r = emit(Inst::kIdFmul_v, mk(d), mk(n), mk(m)); break;
    default: r = emit(Inst::kIdFmulx_v, mk(d), mk(n), mk(m)); break;
  }
  C02_FRAME(r);
  if (r.e == Error::kOk) {
    uint32_t w = r.w;
    V_ASSERT(same_shape(d, n) && d.kind != 2, "fmla: Rd and Rn have the same arrangement or scalar type");
    V_ASSERT(d.el >= 1 && d.el <= 3, "fmla: half, single or double precision");
    V_ASSERT(vec_ok(d.id) && vec_ok(n.id) && vec_ok(m.id) && fld(w, 0, 5) == d.id && fld(w, 5, 5) == n.id, "fmla: registers are v0-v31, Rd Rn fields");
    V_ASSERT(!(d.kind == 0 && d.el == 3 && d.q == 0), "fmla: 1D is not an arrangement");
    if (m.kind == 2) {
      // by element: 0 Q U 01111 sz.. L M Rm opcode H 0 Rn Rd ; scalar: 01 U 11111 ...
      uint32_t U = sel == 3 ? 1u : 0u, opc = sel == 0 ? 1u : sel == 1 ? 5u : 9u;
      V_ASSERT(m.el == d.el, "fmla element: element size matches");
      V_ASSERT(fld(w, 31, 1) == 0 && fld(w, 29, 1) == U && fld(w, 24, 4) == 0xF && fld(w, 12, 4) == opc && fld(w, 10, 1) == 0, "fmla element: 0 Q U 01111 .. opcode H 0");
      V_ASSERT(fld(w, 28, 1) == (d.kind == 1 ? 1u : 0u) && fld(w, 30, 1) == (d.kind == 1 ? 1u : d.q), "fmla element: scalar flag and Q");
      uint32_t H = fld(w, 11, 1), L = fld(w, 21, 1), M = fld(w, 20, 1);
      if (d.el == 1) {
        V_ASSERT(fld(w, 22, 2) == 0 && m.idx == ((H << 2) | (L << 1) | M) && m.id < 16 && fld(w, 16, 4) == m.id, "fmla element half: size 00, index = H:L:M, Rm is v0-v15");
      } else if (d.el == 2) {
        V_ASSERT(fld(w, 22, 2) == 2 && m.idx == ((H << 1) | L) && fld(w, 16, 5) == m.id, "fmla element single: 1 sz=0, index = H:L, Rm 5 bits");
      } else {
        V_ASSERT(fld(w, 22, 2) == 3 && m.idx == H && L == 0 && fld(w, 16, 5) == m.id, "fmla element double: 1 sz=1, index = H, L = 0");
      }
      V_WITNESS("fmla-element");
    } else {
      V_ASSERT(same_shape(n, m), "fmla vector: Rm has the same type");
      V_ASSERT(fld(w, 16, 5) == m.id, "fmla vector: Rm field");
      if (d.kind == 0) {
        // vector: 0 Q U 01110 a sz 1 Rm opcode 1 Rn Rd ; half: 0 Q U 01110 a 10 Rm 00 opc3 1 Rn Rd
        V_ASSERT(fld(w, 31, 1) == 0 && fld(w, 30, 1) == d.q && fld(w, 24, 5) == 0xE && fld(w, 10, 1) == 1, "fmla vector: 0 Q U 01110 .. 1 Rn Rd");
        uint32_t U = (sel == 2) ? 1u : 0u, a = sel == 1 ? 1u : 0u;
        V_ASSERT(fld(w, 29, 1) == U && fld(w, 23, 1) == a, "fmla vector: U and a bits");
        if (d.el == 1) V_ASSERT(fld(w, 21, 2) == 2 && fld(w, 14, 2) == 0 && fld(w, 11, 3) == (sel <= 1 ? 1u : 3u), "fmla vector half: 10 Rm 00 opcode3");
        else V_ASSERT(fld(w, 22, 1) == d.el - 2 && fld(w, 21, 1) == 1 && fld(w, 11, 5) == (sel <= 1 ? 0x19u : 0x1Bu), "fmla vector: sz 1 Rm opcode5");
      } else {
        // FMUL (scalar) 0001 1110 type 1 Rm 0000 10 Rn Rd ; FMULX scalar 01 0 11110 0 sz 1 Rm 11011 1 ; no scalar FMLA/FMLS vector-form
        V_ASSERT(sel >= 2, "fmla scalar: only FMUL and FMULX have a scalar three-register form");
        if (sel == 2) V_ASSERT(fld(w, 24, 8) == 0x1E && fld(w, 22, 2) == (d.el == 1 ? 3u : d.el - 2) && fld(w, 21, 1) == 1 && fld(w, 10, 6) == 2, "fmul scalar: 00011110 type 1 Rm 000010");
        else if (d.el == 1) V_ASSERT(fld(w, 21, 11) == 0x2F2 && fld(w, 10, 6) == 0x07, "fmulx scalar half: 01011110 010 Rm 000111");
        else V_ASSERT(fld(w, 23, 9) == 0x0BC && fld(w, 22, 1) == d.el - 2 && fld(w, 21, 1) == 1 && fld(w, 10, 6) == 0x37, "fmulx scalar: 010111100 sz 1 Rm 110111");
      }
      V_WITNESS("fmla-vector");
    }
  } else V_WITNESS("fmla-refused");
}

// Integer multiply family by element (AsmJit class ISimdVVVe): MLA/MLS/MUL, SMULL/UMLAL.. (long, with the "2" variants),
// SQDMULH/SQRDMULH/SQRDMLAH (vector and scalar), SQDMLAL/SQDMULL2.   0 Q U 01111 size L M Rm opcode H 0 Rn Rd ; scalar: 01 U 11111 ...
// H elements: index = H:L:M and Rm is 4 bits (v0-v15 only); S elements: index = H:L and M:Rm is the 5-bit register number.
HARNESS h_simd_mul_elem() {
  uint32_t sel = nondet_u8() % 12; VSym d = nd_vec(1), n = nd_vec(1);
  uint32_t mel = nondet_u8() & 3, midx = nondet_u8() & 15, mid = nd_vec_id();
  Vec vm = velem(mel, midx, mid);
  // long forms: AsmJit does not relate the destination arrangement to the source (mixed shapes are malformed operands, outside C02):
  // the destination shape is derived from the source, only its register id stays free
  if (sel >= 6) { d.kind = n.kind; d.q = 1; d.el = (n.el + 1) & 3; }
  Res r; uint32_t U, opc, lng = 0; bool sat = false;   // lng: 0 same width, 1 long (64-bit source), 2 long "2" (upper half of a 128-bit source)
  switch (sel) {
    case 0: r = emit(Inst::kIdMla_v, mk(d), mk(n), vm); U = 1; opc = 0; break;
    case 1: r = emit(Inst::kIdMls_v, mk(d), mk(n), vm); U = 1; opc = 4; break;
    case 2: r = emit(Inst::kIdMul_v, mk(d), mk(n), vm); U = 0; opc = 8; break;
    case 3: r = emit(Inst::kIdSqdmulh_v, mk(d), mk(n), vm); U = 0; opc = 12; sat = true; break;
    case 4: r = emit(Inst::kIdSqrdmulh_v, mk(d), mk(n), vm); U = 0; opc = 13; sat = true; break;
    case 5: r = emit(Inst::kIdSqrdmlah_v, mk(d), mk(n), vm); U = 1; opc = 13; sat = true; break;
    case 6: r = emit(Inst::kIdSmull_v, mk(d), mk(n), vm); U = 0; opc = 10; lng = 1; break;
    case 7: r = emit(Inst::kIdSmull2_v, mk(d), mk(n), vm); U = 0; opc = 10; lng = 2; break;
    case 8: r = emit(Inst::kIdUmlal_v, mk(d), mk(n), vm); U = 1; opc = 2; lng = 1; break;
    case 9: r = emit(Inst::kIdUmlal2_v, mk(d), mk(n), vm); U = 1; opc = 2; lng = 2; break;
    case 10: r = emit(Inst::kIdSqdmlal_v, mk(d), mk(n), vm); U = 0; opc = 3; lng = 1; sat = true; break;
    default: r = emit(Inst::kIdSqdmull2_v, mk(d), mk(n), vm); U = 0; opc = 11; lng = 2; sat = true; break;
  }
  C02_FRAME(r);
  if (r.e == Error::kOk) {
    uint32_t w = r.w, esz = lng ? n.el : d.el;    // size field = element size of the multiplicands
    V_ASSERT(esz == 1 || esz == 2, "mul elem: H or S elements only");
    V_ASSERT(mel == esz, "mul elem: the indexed operand has the element type of the multiplicands");
    V_ASSERT(vec_ok(d.id) && vec_ok(n.id) && vec_ok(mid) && fld(w, 0, 5) == d.id && fld(w, 5, 5) == n.id, "mul elem: registers are v0-v31, Rd Rn fields");
    V_ASSERT(fld(w, 31, 1) == 0 && fld(w, 29, 1) == U && fld(w, 24, 4) == 0xF && fld(w, 22, 2) == esz && fld(w, 12, 4) == opc && fld(w, 10, 1) == 0, "mul elem: 0 Q U s1111 size .. opcode H 0");
    if (d.kind == 1) {
      V_ASSERT(sat && n.kind == 1 && lng != 2 && d.el == n.el + (lng ? 1u : 0u), "mul elem scalar: saturating doubling forms only, matching scalar widths");
      V_ASSERT(fld(w, 30, 1) == 1 && fld(w, 28, 1) == 1, "mul elem scalar: 01 U 11111");
    } else {
      V_ASSERT(n.kind == 0 && fld(w, 28, 1) == 0, "mul elem vector: vector operands, bit 28 clear");
      if (lng) V_ASSERT(d.q == 1 && d.el == n.el + 1 && n.q == (lng == 2 ? 1u : 0u) && fld(w, 30, 1) == n.q, "mul elem long: destination has double-width elements, Q selects the source half");
      else V_ASSERT(same_shape(d, n) && fld(w, 30, 1) == d.q, "mul elem: same arrangement, Q from it");
    }
    uint32_t H = fld(w, 11, 1), L = fld(w, 21, 1), M = fld(w, 20, 1);
    if (esz == 1) {
      V_ASSERT(mid < 16, "mul elem H: the indexed register is v0-v15 (Rm has 4 bits)");
      V_ASSERT(fld(w, 16, 4) == mid, "mul elem H: Rm field");
      V_ASSERT(midx < 8 && midx == ((H << 2) | (L << 1) | M), "mul elem H: index = H:L:M");
    } else {
      V_ASSERT(fld(w, 16, 5) == mid, "mul elem S: M:Rm is the register number");
      V_ASSERT(midx < 4 && midx == ((H << 1) | L), "mul elem S: index = H:L");
    }
    V_WITNESS("mul-elem");
  } else V_WITNESS("mul-elem-refused");
}

// LD1/ST1 (multiple structures) with 1..4 registers: no offset, post-index by register, post-index by immediate
template<uint32_t N> static inline void ld1_body() {
  bool st = nondet_bool();
  uint32_t q = nondet_u8() & 1, el = nondet_u8() & 3; bool d1 = nondet_bool();   // d1: the 1D "arrangement" (a plain D register)
  if (!d1 && el == 3) q = 1;
  uint32_t i0 = nd_vec_id(), i1 = nd_vec_id(), i2 = nd_vec_id(), i3 = nd_vec_id();
  uint32_t b = nd_gp_id(), mode = nondet_u8() % 3, i = nd_gp_id(); bool ix = nondet_bool(); int32_t off = int32_t(nondet_u32());
  Vec v0 = d1 ? vscalar(3, i0) : varr(q, el, i0), v1 = d1 ? vscalar(3, i1) : varr(q, el, i1), v2 = d1 ? vscalar(3, i2) : varr(q, el, i2), v3 = d1 ? vscalar(3, i3) : varr(q, el, i3);
  Mem m = mode == 0 ? mem_off(b, 0, 0) : mode == 1 ? mem_idx(b, ix, i, 0, 0, 2) : mem_off(b, off, 2);
  Res r;
  if (st) r = N == 1 ? emit(Inst::kIdSt1_v, v0, m) : N == 2 ? emit(Inst::kIdSt1_v, v0, v1, m) : N == 3 ? emit(Inst::kIdSt1_v, v0, v1, v2, m) : emit(Inst::kIdSt1_v, v0, v1, v2, v3, m);
  else r = N == 1 ? emit(Inst::kIdLd1_v, v0, m) : N == 2 ? emit(Inst::kIdLd1_v, v0, v1, m) : N == 3 ? emit(Inst::kIdLd1_v, v0, v1, v2, m) : emit(Inst::kIdLd1_v, v0, v1, v2, v3, m);
  C02_FRAME(r);
  if (r.e == Error::kOk) {
    uint32_t w = r.w, Q = d1 ? 0 : q, size = d1 ? 3 : el;
    V_ASSERT(fld(w, 31, 1) == 0 && fld(w, 30, 1) == Q && fld(w, 24, 6) == 0x0C && fld(w, 22, 1) == uint32_t(!st) && fld(w, 21, 1) == 0 && fld(w, 10, 2) == size, "ld1: 0 Q 001100 p L 0 .. size");
    V_ASSERT(fld(w, 12, 4) == (N == 1 ? 7u : N == 2 ? 10u : N == 3 ? 6u : 2u), "ld1: opcode selects the register count");
    V_ASSERT(vec_ok(i0) && fld(w, 0, 5) == i0, "ld1: Rt is v0-v31");
    if (N >= 2) V_ASSERT(i1 == ((i0 + 1) & 31), "ld1: second list register is consecutive modulo 32");
    if (N >= 3) V_ASSERT(i2 == ((i0 + 2) & 31), "ld1: third list register is consecutive modulo 32");
    if (N >= 4) V_ASSERT(i3 == ((i0 + 3) & 31), "ld1: fourth list register is consecutive modulo 32");
    V_ASSERT(gp_sp_ok(b) && fld(w, 5, 5) == (b & 31), "ld1: Rn is r0-r30 or SP");
    if (mode == 0) V_ASSERT(fld(w, 23, 1) == 0 && fld(w, 16, 5) == 0, "ld1: no offset form");
    else if (mode == 1) V_ASSERT(fld(w, 23, 1) == 1 && i < 31 && fld(w, 16, 5) == i, "ld1: post-index by register r0-r30");
    else if (off == 0) V_ASSERT(fld(w, 23, 1) == 0 && fld(w, 16, 5) == 0, "ld1: post-index by 0 is the no offset form");
    else V_ASSERT(fld(w, 23, 1) == 1 && fld(w, 16, 5) == 31 && off == int32_t(N * (Q ? 16 : 8)), "ld1: post-index immediate equals the bytes transferred");
    V_WITNESS("ld1");
  } else V_WITNESS("ld1-refused");
}
HARNESS h_simd_ld1_1() { ld1_body<1>(); }
HARNESS h_simd_ld1_2() { ld1_body<2>(); }
HARNESS h_simd_ld1_3() { ld1_body<3>(); }
HARNESS h_simd_ld1_4() { ld1_body<4>(); }

// DUP/INS/UMOV/SMOV/MOV with lanes
HARNESS h_simd_lane() {
  uint32_t sel = nondet_u8() % 5; VSym a = nd_vec(), b = nd_vec(); bool gx = nondet_bool(); uint32_t g = nd_gp_id();
  bool a_gp = nondet_bool(), b_gp = nondet_bool();
  Operand_ o0 = a_gp ? Operand_(gp(gx, g)) : Operand_(mk(a)), o1 = b_gp ? Operand_(gp(gx, g)) : Operand_(mk(b));
  // operand shapes the ISA defines for these mnemonics (other shapes are malformed operands, C14's subject)
  uint32_t ka = a_gp ? 3 : a.kind, kb = b_gp ? 3 : b.kind;   // 0 arrangement, 1 scalar, 2 element, 3 GP
  bool shape_ok = sel == 0 ? ((ka == 0 || ka == 1) && kb == 2) || (ka == 0 && kb == 3)
                : sel == 1 ? (ka == 2 && (kb == 2 || kb == 3))
                : sel <= 3 ? (ka == 3 && kb == 2)
                : (ka == 0 && kb == 0) || (ka == 1 && kb == 1) || (ka == 2 && (kb == 2 || kb == 3)) || (ka == 1 && kb == 2) || (ka == 3 && kb == 2);
  V_ASSUME(shape_ok);
#if KF_C02K
  V_ASSUME(!(sel == 0 && ka == 0 && kb == 2 && a.el != b.el));
#endif
  Res r;
  switch (sel) {
    case 0: r = emit(Inst::kIdDup_v, o0, o1); break;
    case 1: r = emit(Inst::kIdIns_v, o0, o1); break;
    case 2: r = emit(Inst::kIdUmov_v, o0, o1); break;
    case 3: r = emit(Inst::kIdSmov_v, o0, o1); break;
    default: r = emit(Inst::kIdMov_v, o0, o1); break;
  }
  C02_FRAME(r);
  if (r.e == Error::kOk) {
    uint32_t w = r.w, imm5 = fld(w, 16, 5), Q = fld(w, 30, 1), op = fld(w, 29, 1), imm4 = fld(w, 11, 4);
    if (sel == 4 && ka == 1 && kb == 1) {
      // MOV Dd, Dn : AsmJit extension, assembled as ORR Vd.8B, Vn.8B, Vn.8B (copies the low 64 bits and clears the rest)
      V_ASSERT(a.el == 3 && b.el == 3 && vec_ok(a.id) && vec_ok(b.id), "mov scalar: D registers v0-v31");
      V_ASSERT(w == (0x0EA01C00u | (b.id << 16) | (b.id << 5) | a.id), "mov scalar: ORR Vd.8B, Vn.8B, Vn.8B");
      V_WITNESS("lane-mov-scalar");
    } else if (sel == 4 && ka == 0 && kb == 0) {
      // MOV Vd.T, Vn.T = ORR Vd.T, Vn.T, Vn.T (8B or 16B; AsmJit accepts any same arrangement, the encoding does not depend on it)
      V_ASSERT(same_shape(a, b) && vec_ok(a.id) && vec_ok(b.id), "mov vector: same arrangement, v0-v31");
      V_ASSERT(w == ((a.q << 30) | 0x0EA01C00u | (b.id << 16) | (b.id << 5) | a.id), "mov vector: ORR Vd, Vn, Vn");
      V_WITNESS("lane-mov-orr");
    } else {
      V_ASSERT(fld(w, 31, 1) == 0 && fld(w, 21, 7) == 0x70 && fld(w, 15, 1) == 0 && fld(w, 10, 1) == 1, "lane: 0 Q op s1110000 imm5 0 imm4 1");
      bool scalar_dup = !a_gp && !b_gp && a.kind == 1;
      V_ASSERT(fld(w, 28, 1) == uint32_t(scalar_dup), "lane: bit 28 set only for the scalar DUP form");
      V_ASSERT(fld(w, 0, 5) == ((a_gp ? g : a.id) & 31) && fld(w, 5, 5) == ((b_gp ? g : b.id) & 31), "lane: Rd Rn fields");
      V_ASSERT((a_gp ? gp_zr_ok(g) : vec_ok(a.id)) && (b_gp ? gp_zr_ok(g) : vec_ok(b.id)), "lane: registers are v0-v31 or r0-r30 or ZR");
      if (b_gp) {
        if (a.kind == 0) {        // DUP Vd.T, Rn
          V_ASSERT(sel == 0 && op == 0 && imm4 == 1, "dup general: op 0 imm4 0001");
          V_ASSERT(Q == a.q && imm5 == (1u << a.el) && !(a.el == 3 && a.q == 0), "dup general: Q, imm5 = size marker");
        } else {                  // INS Vd.T[i], Rn
          V_ASSERT((sel == 1 || sel == 4) && a.kind == 2 && Q == 1 && op == 0 && imm4 == 3, "ins general: Q=1 op 0 imm4 0011");
          V_ASSERT((a.idx << (a.el + 1) | (1u << a.el)) == imm5 && (a.idx >> (4 - a.el)) == 0, "ins general: imm5 = index : size marker");
        }
      } else if (a_gp) {          // UMOV / SMOV / MOV Rd, Vn.T[i]
        V_ASSERT(b.kind == 2 && op == 0 && (sel == 2 || sel == 3 || sel == 4), "umov smov: element source");
        V_ASSERT((b.idx << (b.el + 1) | (1u << b.el)) == imm5 && (b.idx >> (4 - b.el)) == 0, "umov smov: imm5 = index : size marker");
        if (sel == 3) V_ASSERT(imm4 == 5 && Q == uint32_t(gx) && b.el <= (gx ? 2u : 1u), "smov: imm4 0101, Wd from B H, Xd from B H S");
        else V_ASSERT(imm4 == 7 && Q == uint32_t(gx) && (gx ? b.el == 3 : b.el <= 2), "umov: imm4 0111, Wd from B H S, Xd from D");
      } else if (a.kind == 2) {   // INS Vd.T[i], Vn.T[j]
        V_ASSERT((sel == 1 || sel == 4) && b.kind == 2 && a.el == b.el && Q == 1 && op == 1, "ins element: Q=1 op 1");
        V_ASSERT((a.idx << (a.el + 1) | (1u << a.el)) == imm5 && (a.idx >> (4 - a.el)) == 0, "ins element: imm5 = index1 : size marker");
        V_ASSERT((b.idx << b.el) == imm4 && (b.idx >> (4 - b.el)) == 0, "ins element: imm4 = index2 shifted by size");
      } else {                    // DUP Vd.T, Vn.T[i]  /  DUP (MOV) scalar Vd, Vn.T[i]
        V_ASSERT((sel == 0 || sel == 4) && b.kind == 2 && op == 0 && imm4 == 0, "dup element: op 0 imm4 0000");
        V_ASSERT((b.idx << (b.el + 1) | (1u << b.el)) == imm5 && (b.idx >> (4 - b.el)) == 0, "dup element: imm5 = index : size marker");
        if (a.kind == 0) V_ASSERT(sel == 0 && Q == a.q && a.el == b.el && !(a.el == 3 && a.q == 0), "dup element vector: Q and matching element size");
        else V_ASSERT(Q == 1 && a.el == b.el, "dup element scalar: 01 0 11110000, destination scalar of the element size");
      }
      V_WITNESS("lane");
    }
  } else V_WITNESS("lane-refused");
}

// FMOV (scalar, immediate) and FMOV (vector, immediate): imm8 must expand (VFPExpandImm) to the requested value
static inline uint64_t ref_vfp_expand64(uint32_t imm8) {
  uint64_t sign = (imm8 >> 7) & 1, b6 = (imm8 >> 6) & 1;
  uint64_t exp = ((b6 ^ 1) << 10) | ((b6 ? 0xFFull : 0) << 2) | ((imm8 >> 4) & 3);
  return (sign << 63) | (exp << 52) | (uint64_t(imm8 & 0xF) << 48);
}
HARNESS h_simd_fmov_imm() {
  VSym d = nd_vec(1); uint64_t bits = nondet_u64();
  double val; memcpy(&val, &bits, 8);
  Res r = emit(Inst::kIdFmov_v, mk(d), Imm(val));
  C02_FRAME(r);
  if (r.e == Error::kOk) {
    uint32_t w = r.w, imm8;
    V_ASSERT(vec_ok(d.id) && fld(w, 0, 5) == d.id && d.kind != 2 && d.el >= 1, "fmov imm: Rd is v0-v31, half single or double");
    if (d.kind == 1) {
      V_ASSERT(fld(w, 24, 8) == 0x1E && fld(w, 22, 2) == (d.el == 1 ? 3u : d.el - 2) && fld(w, 21, 1) == 1 && fld(w, 5, 8) == 0x80, "fmov imm scalar: 00011110 type 1 imm8 100 00000");
      imm8 = fld(w, 13, 8);
    } else {
      V_ASSERT(fld(w, 31, 1) == 0 && fld(w, 30, 1) == d.q && fld(w, 19, 10) == 0x1E0 && fld(w, 12, 4) == 0xF && fld(w, 10, 1) == 1, "fmov imm vector: 0 Q op 0111100000 abc 1111 o2 1 defgh");
      V_ASSERT(fld(w, 29, 1) == (d.el == 3 ? 1u : 0u) && fld(w, 11, 1) == (d.el == 1 ? 1u : 0u) && !(d.el == 3 && d.q == 0), "fmov imm vector: op=1 for 2D, o2=1 for half");
      imm8 = (fld(w, 16, 3) << 5) | fld(w, 5, 5);
    }
    V_ASSERT(ref_vfp_expand64(imm8) == bits, "fmov imm: VFPExpandImm(imm8) is the requested value");
    V_WITNESS("fmov-imm");
  } else V_WITNESS("fmov-imm-refused");
}

// SMAX/SMIN/UMAX/UMIN (CSSC) register and immediate
HARNESS h_minmax() {
  uint32_t sel = nondet_u8() & 3; bool imm_form = nondet_bool();
  bool dx = nondet_bool(), nx = nondet_bool(), mx = nondet_bool(); uint32_t d = nd_gp_id(), n = nd_gp_id(), m = nd_gp_id(); uint64_t imm = nondet_u64();
#if KF_C02I
  V_ASSUME(gp_zr_ok(d) && gp_zr_ok(n) && (imm_form || gp_zr_ok(m)));
#endif
  Operand_ o2 = imm_form ? Operand_(Imm(imm)) : Operand_(gp(mx, m));
  Res r;
  switch (sel) {
    case 0: r = emit(Inst::kIdSmax, gp(dx, d), gp(nx, n), o2); break;
    case 1: r = emit(Inst::kIdUmax, gp(dx, d), gp(nx, n), o2); break;
    case 2: r = emit(Inst::kIdSmin, gp(dx, d), gp(nx, n), o2); break;
    default: r = emit(Inst::kIdUmin, gp(dx, d), gp(nx, n), o2); break;
  }
  C02_FRAME(r);
  if (r.e == Error::kOk) {
    uint32_t w = r.w;
    V_ASSERT(dx == nx && gp_zr_ok(d) && gp_zr_ok(n) && fld(w, 0, 5) == (d & 31) && fld(w, 5, 5) == (n & 31) && fld(w, 31, 1) == uint32_t(dx), "minmax: sf, Rd Rn are r0-r30 or ZR of the same width");
    if (imm_form) {
      V_ASSERT(fld(w, 22, 9) == 0x047 && fld(w, 18, 4) == sel, "minmax imm: sf 0 0 10001 11 opc");
      if (sel & 1) V_ASSERT(imm <= 255 && fld(w, 10, 8) == imm, "minmax imm: unsigned imm8");
      else V_ASSERT(int64_t(imm) >= -128 && int64_t(imm) <= 127 && fld(w, 10, 8) == (imm & 255), "minmax imm: signed imm8");
    } else {
      V_ASSERT(mx == dx && gp_zr_ok(m) && fld(w, 16, 5) == (m & 31), "minmax reg: Rm is r0-r30 or ZR of the same width");
      V_ASSERT(fld(w, 21, 10) == 0x0D6 && fld(w, 12, 4) == 6 && fld(w, 10, 2) == sel, "minmax reg: sf 0 0 11010110 Rm 0110 opc");
    }
    V_WITNESS("minmax");
  } else V_WITNESS("minmax-refused");
}

// TBL/TBX with 1..4 table registers
template<uint32_t N> static inline void tbl_body() {
  bool tbx = nondet_bool(); uint32_t q = nondet_u8() & 1;
  uint32_t d = nd_vec_id(), m = nd_vec_id(), i0 = nd_vec_id(), i1 = nd_vec_id(), i2 = nd_vec_id(), i3 = nd_vec_id();
#if KF_C02J
  V_ASSUME((N < 2 || i1 == ((i0 + 1) & 31)) && (N < 3 || i2 == ((i0 + 2) & 31)) && (N < 4 || i3 == ((i0 + 3) & 31)));
#endif
  Vec vd = varr(q, 0, d), vm = varr(q, 0, m);
#define C02_TBL(ii) (N == 1 ? emit(ii, vd, varr(1, 0, i0), vm) : N == 2 ? emit(ii, vd, varr(1, 0, i0), varr(1, 0, i1), vm) \
                   : N == 3 ? emit(ii, vd, varr(1, 0, i0), varr(1, 0, i1), varr(1, 0, i2), vm) : emit(ii, vd, varr(1, 0, i0), varr(1, 0, i1), varr(1, 0, i2), varr(1, 0, i3), vm))
  Res r; if (tbx) r = C02_TBL(Inst::kIdTbx_v); else r = C02_TBL(Inst::kIdTbl_v);
#undef C02_TBL
  C02_FRAME(r);
  if (r.e == Error::kOk) {
    uint32_t w = r.w;
    V_ASSERT(w == ((q << 30) | 0x0E000000u | ((m & 31) << 16) | ((N - 1) << 13) | (uint32_t(tbx) << 12) | ((i0 & 31) << 5) | (d & 31)), "tbl: 0 Q 001110 000 Rm 0 len op 00 Rn Rd");
    V_ASSERT(vec_ok(d) && vec_ok(m) && vec_ok(i0), "tbl: registers are v0-v31");
    if (N >= 2) V_ASSERT(i1 == ((i0 + 1) & 31), "tbl: second table register is consecutive modulo 32");
    if (N >= 3) V_ASSERT(i2 == ((i0 + 2) & 31), "tbl: third table register is consecutive modulo 32");
    if (N >= 4) V_ASSERT(i3 == ((i0 + 3) & 31), "tbl: fourth table register is consecutive modulo 32");
    V_WITNESS("tbl");
  } else V_WITNESS("tbl-refused");
}
HARNESS h_simd_tbl_1() { tbl_body<1>(); }
HARNESS h_simd_tbl_2() { tbl_body<2>(); }
HARNESS h_simd_tbl_3() { tbl_body<3>(); }
HARNESS h_simd_tbl_4() { tbl_body<4>(); }

// ---- companions of known findings
HARNESS h_simd_add_kf_C02A() {   // third operand of three-register SIMD forms: register id > 31 must be refused
  uint32_t q = nondet_u8() & 1, el = nondet_u8() % 3, d = nondet_u8() & 31, n = nondet_u8() & 31, m = 32 + (nondet_u8() & 31);
  Res r = emit(Inst::kIdAdd_v, varr(q, el, d), varr(q, el, n), varr(q, el, m));
  V_ASSERT(r.e != Error::kOk, "three-register SIMD form with Rm id above 31 is refused");
  V_WITNESS("kf-simd-rm");
}
HARNESS h_minmax_kf_C02I() {   // SMAX/SMIN/UMAX/UMIN: SP (id 31) and ids 32..62 are no operands of these instructions
  bool x = nondet_bool(), imm_form = nondet_bool(); uint32_t d = nd_gp_id(), n = nd_gp_id(), m = nd_gp_id();
  V_ASSUME(!(gp_zr_ok(d) && gp_zr_ok(n) && (imm_form || gp_zr_ok(m))));
  Res r = imm_form ? emit(Inst::kIdSmax, gp(x, d), gp(x, n), Imm(1)) : emit(Inst::kIdSmax, gp(x, d), gp(x, n), gp(x, m));
  V_ASSERT(r.e != Error::kOk, "smax with SP or a register id that is no register is refused");
  V_WITNESS("kf-minmax");
}
HARNESS h_simd_tbl_kf_C02J() {   // TBL with a two-register table that is not consecutive
  uint32_t d = nondet_u8() & 31, m = nondet_u8() & 31, t0 = nondet_u8() & 31, t1 = nondet_u8() & 31;
  V_ASSUME(t1 != ((t0 + 1) & 31));
  Res r = emit(Inst::kIdTbl_v, varr(1, 0, d), varr(1, 0, t0), varr(1, 0, t1), varr(1, 0, m));
  V_ASSERT(r.e != Error::kOk, "tbl with non-consecutive table registers is refused");
  V_WITNESS("kf-tbl");
}
HARNESS h_simd_elem_kf_C02K() {   // by-element operand whose element type differs from the operation's: not encodable, must be refused
  uint32_t sel = nondet_u8() % 3, q = nondet_u8() & 1, el = 1 + (nondet_u8() % 3), mel = nondet_u8() & 3, idx = nondet_u8() & 1;
  uint32_t d = nondet_u8() & 31, n = nondet_u8() & 31, m = nondet_u8() & 15;
  V_ASSUME(mel != el); if (el == 3) q = 1;
  Res r;
  switch (sel) {
    case 0: r = emit(Inst::kIdFmla_v, varr(q, el, d), varr(q, el, n), velem(mel, idx, m)); break;
    case 1: V_ASSUME(el != 3); r = emit(Inst::kIdMul_v, varr(q, el, d), varr(q, el, n), velem(mel, idx, m)); break;
    default: r = emit(Inst::kIdDup_v, varr(q, el, d), velem(mel, idx, n)); break;
  }
  V_ASSERT(r.e != Error::kOk, "by-element operand with a different element type is refused");
  V_WITNESS("kf-elem-type");
}
HARNESS h_simd_kf_C02N() {   // SQDMULH/SQRDMULH/SQRDMLAH/SQRDMLSH (scalar, by element): 01 U 11111 size L M Rm opcode H 0 Rn Rd
  uint32_t sel = nondet_u8() & 3; bool h = nondet_bool(); uint32_t d = nondet_u8() & 31, n = nondet_u8() & 31, m = nondet_u8() & 15, idx = nondet_u8() & 3;
  uint32_t el = h ? 1 : 2;
  Res r;
  switch (sel) {
    case 0: r = emit(Inst::kIdSqdmulh_v, vscalar(el, d), vscalar(el, n), velem(el, idx, m)); break;
    case 1: r = emit(Inst::kIdSqrdmulh_v, vscalar(el, d), vscalar(el, n), velem(el, idx, m)); break;
    case 2: r = emit(Inst::kIdSqrdmlah_v, vscalar(el, d), vscalar(el, n), velem(el, idx, m)); break;
    default: r = emit(Inst::kIdSqrdmlsh_v, vscalar(el, d), vscalar(el, n), velem(el, idx, m)); break;
  }
  if (r.e == Error::kOk) {
    V_ASSERT(fld(r.w, 30, 1) == 1 && fld(r.w, 28, 1) == 1, "scalar by-element form has bits 30 and 28 set (01 U 11111)");
    V_WITNESS("kf-scalar-elem");
  }
}
HARNESS h_simd_kf_C02O() {   // XAR Vd.2D, Vn.2D, Vm.2D, #imm6 : 11001110100 Rm imm6 Rn Rd
  uint32_t d = nondet_u8() & 31, n = nondet_u8() & 31, m = nondet_u8() & 31, imm = nondet_u8() & 63;
  Res r = emit(Inst::kIdXar_v, varr(1, 3, d), varr(1, 3, n), varr(1, 3, m), Imm(imm));
  if (r.e == Error::kOk) {
    V_ASSERT(r.w == (0xCE800000u | (m << 16) | (imm << 10) | (n << 5) | d), "xar encodes as 11001110100 Rm imm6 Rn Rd");
    V_WITNESS("kf-xar");
  }
}
