#!/usr/bin/env python3
"""C02 form generator: reads /repo/db/isa_aarch64.json and writes h_forms_NN.cpp + forms_index.py into this directory.

Run by hand (`python3 checks/C02/gen_forms.py`); the output is committed, the check itself has no generation step.

One harness per group of related DB records (symbolic choice of the record). For every record the generator knows
  * the bit template ("10001011|sop:2|0|Rm|n:6|Rn|Rd"): fixed bits must match, every named field piece must equal a
    function of the operands;
  * a field-semantics table written from the ARM ARM (register fields = id & 31 with the SP-vs-ZR class taken from the
    operand syntax, element index split, size from the arrangement, immediates with *our* scales - the DB's `*4` notes
    are not trusted);
  * the domain of every operand: register ids 0..63 (GP: 31 = SP, 63 = ZR, 32..62 no register; vector: 32..63 no
    register), element index 0..15, immediates / offsets over their full width.
Records whose syntax or fields the table does not cover are counted and listed (forms_index.py: SKIPPED).
"""
import json, re, os, sys, collections

HERE = os.path.dirname(os.path.abspath(__file__))
REPO = os.environ.get('VERIF_REPO', '/repo')
DB = os.path.join(REPO, 'db', 'isa_aarch64.json')
GLOBALS_H = os.path.join(REPO, 'asmjit', 'arm', 'a64globals.h')

RECS_PER_HARNESS = 8
HARNESS_PER_FILE = 24

# ----------------------------------------------------------------------------------------------------------------------
# DB errata: records whose template or syntax contradicts the ARM ARM (DDI 0487). key = (mnemonic, operand text); value =
# corrected template (or None = drop the record: it does not exist). Every entry was checked against the architecture
# manual by hand; the check asserts the corrected template.
ERRATA = {}
ERRATA_NOTES = []
def erratum(name, ops, why, op=None, new_ops=None, drop=False):
    ERRATA[(name, ops)] = None if drop else dict(op=op, ops=new_ops); ERRATA_NOTES.append('%s %s: %s' % (name, ops, why))

for _x, _sf in (('W', '0'), ('X', '1')):
    for _n in ('and', 'ands'):
        erratum(_n, '%sd|%sSP, %sn, %sm, {sop #n}' % (_x, 'W' if _x == 'W' else '', _x, _x), 'AND/ANDS (shifted register) take Rd of the ZR class, not SP (C6.2.12)', new_ops='%sd, %sn, %sm, {sop #n}' % (_x, _x, _x))
for _n, _sz, _tail in (('ldtrsb', '00', '10'), ('ldtrsh', '01', '10'), ('ldursb', '00', '00'), ('ldursh', '01', '00')):
    erratum(_n, 'Wd, [Xn|SP, #offS]', 'opc=11 selects the 32-bit variant, the DB has W and X swapped', op='%s111000|110|offS:9|%s|Rn|Rd' % (_sz, _tail))
    erratum(_n, 'Xd, [Xn|SP, #offS]', 'opc=10 selects the 64-bit variant, the DB has W and X swapped', op='%s111000|100|offS:9|%s|Rn|Rd' % (_sz, _tail))
erratum('ret', 'Xn', 'RET is 1101011 0010 11111 000000 Rn 00000 (bit 25 set)', op='11010110|010|11111|0|00000|Rn|00000')
for _x, _sz in (('W', '10'), ('X', '11')):
    for _n, _l, _o0 in (('cas', 0, 0), ('casa', 1, 0), ('casal', 1, 1), ('casl', 0, 1)):
        erratum(_n, '%ss, %sd, [Xn|SP]' % (_x, _x), 'CAS is size 0010001 L 1 Rs o0 11111 Rn Rt (bit 23 set)', op='%s001000|1%d1|Rs|%d|11111|Rn|Rd' % (_sz, _l, _o0))
erratum('subps', 'Xd, Xn|SP, Xm|SP', 'SUBPS sets flags: S (bit 29) = 1', op='10111010|110|Rm|0|00000|Rn|Rd')
for _n, _o in (('bif', '11'), ('bit', '10'), ('bsl', '01')):
    erratum(_n, 'Vx.16B, Vn.16B, Vm.16B', 'three-same logical group is 0 Q 1 01110 opc2 1 ... (bit 24 clear)', op='01101110|%s|1|Vm|00011|1|Vn|Vx' % _o)
erratum('dup', 'Vd.2S, Wn', 'imm5 = 00100 for S elements', op='00001110|00|0|00100|00001|1|Rn|Vd')
erratum('dup', 'Vd.4S, Wn', 'imm5 = 00100 for S elements', op='01001110|00|0|00100|00001|1|Rn|Vd')
erratum('dup', 'Vd.2D, Xn', 'imm5 = 01000 for D elements', op='01001110|00|0|01000|00001|1|Rn|Vd')
erratum('fabd', 'Vd.2S, Vn.2S, Vm.2S', 'FABD is 0 Q 1 01110 1 sz 1 Rm 11010 1 (bit 21 set)', op='00101110|10|1|Vm|11010|1|Vn|Vd')
erratum('fabd', 'Vd.4S, Vn.4S, Vm.4S', 'FABD 4S: Q = 1, bit 21 set', op='01101110|10|1|Vm|11010|1|Vn|Vd')
erratum('fabd', 'Vd.2D, Vn.2D, Vm.2D', 'FABD is 0 Q 1 01110 1 sz 1 Rm 11010 1 (bit 21 set)', op='01101110|11|1|Vm|11010|1|Vn|Vd')
erratum('facge', 'Dd, Dn, Dm', 'scalar three-same: bit 21 set', op='01111110|01|1|Vm|11101|1|Vn|Vd')
erratum('facgt', 'Dd, Dn, Dm', 'scalar three-same: bit 21 set', op='01111110|11|1|Vm|11101|1|Vn|Vd')
erratum('fmla', 'Vx.4S, Vn.4S, Vm.S[#idx]', 'single precision by element: 1:sz = 10', op='01001111|10|idx[0]|Vm|0001|idx[1]|0|Vn|Vx')
erratum('fmls', 'Vx.4S, Vn.4S, Vm.S[#idx]', 'single precision by element: 1:sz = 10', op='01001111|10|idx[0]|Vm|0101|idx[1]|0|Vn|Vx')
erratum('fmul', 'Vd.4S, Vn.4S, Vm.S[#idx]', 'single precision by element: 1:sz = 10', op='01001111|10|idx[0]|Vm|1001|idx[1]|0|Vn|Vd')
erratum('fsqrt', 'Sd, Sn', 'type = 00 for single precision', op='00011110|00|10000|11100|00|Vn|Vd')
erratum('fsqrt', 'Dd, Dn', 'type = 01 for double precision', op='00011110|01|10000|11100|00|Vn|Vd')
erratum('cmeq', 'Vd.t, Vn.t, #0', 'CMEQ (zero) has U = 0; the DB template is the one of CMLE (zero)', op='0Q001110|sz|10000|01001|10|Vn|Vd')
for _n, _b in (('sqxtun', '01111110'),):
    for _r, _sz in (('Bd, Hn', '00'), ('Hd, Sn', '01'), ('Sd, Dn', '10')):
        erratum(_n, _r, 'SQXTUN is U = 1, opcode 10010 (the DB template is the one of SQXTN)', op='%s|%s|10000|10010|10|Vn|Vd' % (_b, _sz))
erratum('sqxtun', 'Vd.ta, Vn.tb', 'SQXTUN is U = 1, opcode 10010', op='00101110|sz|10000|10010|10|Vn|Vd')
erratum('sqxtun2', 'Vx.ta, Vn.tb', 'SQXTUN2 is U = 1, opcode 10010', op='01101110|sz|10000|10010|10|Vn|Vx')
erratum('uqshrn', 'Vd.ta, Vn.tb, #n', 'UQSHRN has U = 1', op='00101111|0|immh:4|immb:3|10010|1|Vn|Vd')
erratum('uqshrn2', 'Vx.ta, Vn.tb, #n', 'UQSHRN2 has U = 1', op='01101111|0|immh:4|immb:3|10010|1|Vn|Vx')
erratum('sqdmull', 'Vd.ta, Vn.tb, Vm.tb', 'SQDMULL (vector) opcode is 1101 00 (the DB template is the one of SQDMULH)', op='00001110|sz|1|Vm|11010|0|Vn|Vd')
erratum('sqdmull2', 'Vd.ta, Vn.tb, Vm.tb', 'SQDMULL2 (vector) opcode is 1101 00', op='01001110|sz|1|Vm|11010|0|Vn|Vd')
erratum('crc32x', 'Xd, Xn, Xm', 'CRC32X is Wd, Wn, Xm', new_ops='Wd, Wn, Xm')
erratum('crc32cx', 'Xd, Xn, Xm', 'CRC32CX is Wd, Wn, Xm', new_ops='Wd, Wn, Xm')
erratum('ldaxrh', 'Xd, [Xn|SP]', 'LDAXRH has no X form', drop=True)
erratum('stlxrh', 'Wd, Xs, [Xn|SP]', 'STLXRH stores a W register', drop=True)
erratum('stxrh', 'Wd, Xs, [Xn|SP]', 'STXRH stores a W register', drop=True)
for _n in ('ldset', 'ldseta', 'ldsetal', 'ldsetl'):
    erratum(_n, 'Xs, Wd, [Xn|SP]', 'mixed X/W operands do not exist', drop=True)
erratum('xpaclri', 'Xd', 'XPACLRI has no operand', drop=True)
for _o in ('Vd.4S, Vn.4H', 'Vd.2D, Vn.2S'):
    erratum('fcvtn', _o, 'FCVTN narrows: the operands are reversed in the DB (the fcvtn Vd.4H, Vn.4S records exist as well)', drop=True)
for _o in ('Vd.4S, Vn.8H', 'Vd.2D, Vn.4S'):
    erratum('fcvtn2', _o, 'FCVTN2 narrows: the operands are reversed in the DB', drop=True)
for _o in ('Sd, Sn, Sm', 'Dd, Dn, Dm', 'Hd, Hn, Hm'):
    erratum('frecpx', _o, 'FRECPX has two operands', drop=True)

def erratum_rules(name, opstr, op, t):
    """programmatic DB corrections (each class checked against the ARM ARM); returns (opstr, op, t, note or None)"""
    note = None
    if name in ('ld4', 'st4') and '[#idx]' in opstr and opstr.endswith('@'):
        new = op.replace('|001101|110|', '|001101|111|') if name == 'ld4' else op.replace('|001101|100|', '|001101|101|')
        if new != op: op = new; note = 'LD4/ST4 (single structure, post-index) have R (bit 21) = 1; the DB rows are copies of LD3/ST3'
    if name in ('ld3', 'st3') and re.search(r'#off==(16|32)\]@', opstr) and opstr.startswith('3x'):
        opstr = opstr.replace('#off==16', '#off==24').replace('#off==32', '#off==48'); note = 'LD3/ST3 (multiple structures) post-index immediate is 24 / 48 bytes'
    if (name.startswith('sqdmlsl') or name.startswith('sqdmlal')) and opstr.startswith('Vx.') and '[#idx]' in opstr and op[:8] in ('00011111', '01011111'):
        op = op[:3] + '0' + op[4:]; note = 'vector by-element form is 0 Q 0 01111 (bit 28 clear); bit 28 marks the scalar form'
    if name in ('sqrshrun', 'sqrshrun2') and '|10011|1|' in op:
        op = op.replace('|10011|1|', '|10001|1|'); note = 'SQRSHRUN opcode is 10001 (10011 is SQRSHRN)'
    if name in ('bfmlalb', 'bfmlalt') and op.endswith('|idx[2]|1|Vn|Vx'):
        op = op.replace('|idx[2]|1|Vn|Vx', '|idx[2]|0|Vn|Vx'); note = 'by-element form has bit 10 clear'
    if name == 'fcmla' and '|Vm|1|imm:2|1|' in op:
        op = op.replace('|Vm|1|imm:2|1|', '|Vm|0|imm:2|1|'); note = 'FCMLA (by element) is ... Rm 0 rot 1 H 0 (bit 15 clear)'
    if t and re.match(r'^[01]{2,}\|', op) and op[1] == '0' and '.' not in t:
        ts = [x for x in t.split() if x != '~']
        if ts and all(x in ('16B', '8H', '4S', '2D') for x in ts):
            t = ' '.join({'16B': '8B', '8H': '4H', '4S': '2S'}[x] for x in ts if x != '2D'); note = 'Q = 0 record lists the 128-bit arrangements in its t list'
    return opstr, op, t, note

# valid forms that AsmJit refuses altogether (no operand combination is accepted): nothing to check, counted separately
NOT_ACCEPTED = {
    ('chkfeat', ''): 'AsmJit wants the X16 operand spelled out',
    ('stlxr', 'Wd, Xs, [Xn|SP]'): 'BaseAtomicOp demands equal register widths (Ws, Xt cannot be written)',
    ('sqdmlal', 'Sx, Hn, Vm.H[#idx]'): 'scalar by-element form not implemented', ('sqdmlal', 'Dx, Sn, Vm.S[#idx]'): 'scalar by-element form not implemented',
    ('sqdmlsl', 'Sx, Hn, Vm.H[#idx]'): 'scalar by-element form not implemented', ('sqdmlsl', 'Dx, Sn, Vm.S[#idx]'): 'scalar by-element form not implemented',
    ('sqdmull', 'Sd, Hn, Vm.H[#idx]'): 'scalar by-element form not implemented', ('sqdmull', 'Dd, Sn, Vm.S[#idx]'): 'scalar by-element form not implemented',
    ('fcvtn', 'Vd.8B, Vn.4H, Vm.4H'): 'FP8 form not implemented', ('fcvtn', 'Vd.16B, Vn.8H, Vm.8H'): 'FP8 form not implemented',
    ('fcvtn', 'Vd.8B, Vn.4S, Vm.4S'): 'FP8 form not implemented', ('fcvtn2', 'Vx.16B, Vn.4S, Vm.4S'): 'FP8 form not implemented',
}
# forms inside the region of a known finding where every accepted input violates the property: covered by the hand-written
# companion harness of the finding instead (an always-failing case cannot be guarded by an assumption without becoming vacuous)
KF_EXCLUDED = {}

class Skip(Exception):
    pass

def split_ops(s):
    out = []; depth = 0; cur = ''
    for ch in s:
        if ch in '[{': depth += 1
        if ch in ']}': depth -= 1
        if ch == ',' and depth == 0:
            out.append(cur.strip()); cur = ''
        else:
            cur += ch
    if cur.strip(): out.append(cur.strip())
    return out

FIELD_BITS = {'cond': 4, 'nzcv': 4, 'sz': 2, 'sop': 2, 'CRm': 4, 'CRn': 4, 's': 1, 'op': 1, 'cmode': 4}

def parse_template(op):
    """-> (fixed_mask, fixed_value, pieces) ; pieces = [(name, lo, width, src_lo or None)] from MSB to LSB"""
    parts = []
    for f in op.split('|'):
        f = f.strip()
        if f == '': raise Skip('empty template field')
        if re.fullmatch(r'[01]+', f):
            parts.append(('bits', f)); continue
        if re.fullmatch(r'[01A-Z]{2,}', f) and f not in ('CRm', 'CRn'):
            for x in re.findall(r'[01]+|[A-Z]', f):
                parts.append(('bits', x) if x[0] in '01' else ('f', x, 1, None))
            continue
        m = re.fullmatch(r'([\w!]+)\[\s*(\d+)\s*:\s*(\d+)\s*\]', f)
        if m:
            parts.append(('f', m.group(1), int(m.group(2)) - int(m.group(3)) + 1, int(m.group(3)))); continue
        m = re.fullmatch(r'([\w!]+)\[\s*(\d+)\s*\]', f)
        if m:
            parts.append(('f', m.group(1), 1, int(m.group(2)))); continue
        m = re.fullmatch(r"([\w!]+)\s*:\s*(\d+)", f)
        if m:
            parts.append(('f', m.group(1), int(m.group(2)), None)); continue
        if re.fullmatch(r'[\w!]+', f):
            if f in FIELD_BITS: w = FIELD_BITS[f]
            elif re.fullmatch(r'[RVWXBHSDQ][a-z]\w*', f): w = 5
            elif len(f) == 1 or f == '!post': w = 1
            else: raise Skip('unknown field size: ' + f)
            parts.append(('f', f, w, None)); continue
        raise Skip('unparsed template field: ' + f)
    total = sum(len(p[1]) if p[0] == 'bits' else p[2] for p in parts)
    if total != 32: raise Skip('template is %d bits' % total)
    pos = 32; mask = 0; val = 0; pieces = []
    for p in parts:
        if p[0] == 'bits':
            n = len(p[1]); pos -= n
            mask |= ((1 << n) - 1) << pos; val |= int(p[1], 2) << pos
        else:
            pos -= p[2]; pieces.append([p[1], pos, p[2], p[3]])
    cnt = collections.Counter(x[0] for x in pieces if x[3] is None)
    for nm, c in cnt.items():
        if c > 1 and not re.fullmatch(r'[RVWXBHSDQ][a-z]\w*', nm):
            acc = 0
            for x in reversed(pieces):
                if x[0] == nm and x[3] is None: x[3] = acc; acc += x[2]
    return mask, val, [tuple(x) for x in pieces]

# ----------------------------------------------------------------------------------------------------------------------
ARR = {'8B': (0, 0), '16B': (1, 0), '4H': (0, 1), '8H': (1, 1), '2S': (0, 2), '4S': (1, 2), '2D': (1, 3)}
SCALAR_W = {'B': 0, 'H': 1, 'S': 2, 'D': 3, 'Q': 4}
EL = {'B': 0, 'H': 1, 'S': 2, 'D': 3}

class Operand:
    pass

def parse_operand(tok, rec):
    o = Operand(); o.text = tok
    m = re.fullmatch(r'([WX])([a-z]\w*?)(\|W?SP)?', tok)
    if m:
        o.kind = 'gp'; o.x = m.group(1) == 'X'; o.suf = m.group(2); o.sp = bool(m.group(3)); return o
    m = re.fullmatch(r'([BHSDQ])([a-z]\w*)', tok)
    if m:
        o.kind = 'vs'; o.w = SCALAR_W[m.group(1)]; o.suf = m.group(2); return o
    m = re.fullmatch(r'V([a-z]\w*)\.(\w+)', tok)
    if m:
        o.kind = 'va'; o.suf = m.group(1); o.t = m.group(2)
        if o.t not in ARR and o.t not in ('t', 'ta', 'tb', '1D', '2H'): raise Skip('arrangement ' + o.t)
        return o
    m = re.fullmatch(r'V([a-z]\w*)\.(4B|2H|[BHSD])\[#(\w+)\]', tok)
    if m:
        o.kind = 've'; o.suf = m.group(1); o.el = {'B': 0, 'H': 1, 'S': 2, 'D': 3, '4B': 4, '2H': 5}[m.group(2)]; o.idx = m.group(3); o.n = 1
        if not re.fullmatch(r'idx\d?', o.idx): raise Skip('fixed element index')
        return o
    m = re.fullmatch(r'(\d)x\{V([a-z]\w*)\.([BHSD])\}\+?\[#(idx)\]', tok)
    if m:
        o.kind = 've'; o.n = int(m.group(1)); o.suf = m.group(2); o.el = EL[m.group(3)]; o.idx = m.group(4); return o
    m = re.fullmatch(r'\[Xn\|SP, Xm\]@', tok)
    if m:
        o.kind = 'mem'; o.mode = 'postreg'; return o
    m = re.fullmatch(r'\[Xn\|SP, #off==?(\d+)(<<sz)?\]@', tok)
    if m:
        o.kind = 'mem'; o.mode = 'postfix'; o.fix = int(m.group(1)); o.fix_sz = bool(m.group(2)); return o
    m = re.fullmatch(r'\[Xn\|SP, Rm, \{uxtw\|lsl\|sxtw\|sxtx #n(\*\d+)?\}\]', tok)
    if m:
        o.kind = 'mem'; o.mode = 'regoff'; return o
    m = re.fullmatch(r'\{(sop|lsl\|lsr\|asr) #n\}', tok)
    if m:
        o.kind = 'shift'; o.ror = m.group(1) == 'sop'; return o
    m = re.fullmatch(r'\[Xn\|SP\]', tok)
    if m:
        o.kind = 'mem'; o.mode = 'none'; return o
    m = re.fullmatch(r'\[Xn\|SP, #(off[SZ])(\*\d+)?\](!|@|\{@\}\{!\})?', tok)
    if m:
        o.kind = 'mem'; o.mode = 'imm'; o.field = m.group(1); o.wb = {None: 'offset', '!': 'pre', '@': 'post', '{@}{!}': 'any'}[m.group(3)]; return o
    m = re.fullmatch(r'#(\w+)', tok)
    if m:
        o.kind = 'imm'; o.name = m.group(1); return o
    m = re.fullmatch(r'(\d)x\{V([a-z]\w*)\.t\}(\+?)', tok)
    if m:
        o.kind = 'vlist'; o.n = int(m.group(1)); o.suf = m.group(2); return o
    raise Skip('operand syntax: ' + re.sub(r'\d+', 'N', tok))

def inst_ids():
    return set(re.findall(r'kId(\w+),', open(GLOBALS_H).read()))

def id_name(ids, cat, nm):
    n = nm[0].upper() + nm[1:]
    if cat == 'ASIMD' and n + '_v' in ids: return n + '_v'
    if n in ids: return n
    if n + '_v' in ids: return n + '_v'
    return None

# scale of load/store immediate offsets, ARM ARM C6.2 / C7.2 (the DB's "*N" notes are not used)
def offset_scale(name, field, bits, regop):
    cls = None
    if regop is not None:
        cls = ('W', 'X')[regop.x] if regop.kind == 'gp' else 'BHSDQ'[regop.w]
    if field == 'offS' and bits == 9:
        if name in ('stg', 'stzg', 'st2g', 'stz2g', 'ldg'): return 4
        return 0
    if field == 'offS' and bits == 7:
        if name == 'stgp': return 4
        if name == 'ldpsw': return 2
        return {'W': 2, 'X': 3, 'S': 2, 'D': 3, 'Q': 4}[cls]
    if field == 'offZ' and bits == 12:
        if name in ('ldrb', 'strb', 'ldrsb'): return 0
        if name in ('ldrh', 'strh', 'ldrsh'): return 1
        if name == 'ldrsw': return 2
        if name == 'prfm': return 3
        if name in ('ldr', 'str'): return {'W': 2, 'X': 3, 'B': 0, 'H': 1, 'S': 2, 'D': 3, 'Q': 4}[cls]
    raise Skip('offset field %s:%d of %s' % (field, bits, name))

# instructions for which AsmJit falls back to the unscaled (LDUR/STUR...) instruction when the scaled unsigned offset
# does not fit: that other instruction is a different DB record
HAS_UNSCALED_ALT = {'ldr', 'str', 'ldrb', 'strb', 'ldrh', 'strh', 'ldrsb', 'ldrsh', 'ldrsw'}
INVERTED_COND = {'cinc', 'cinv', 'cneg', 'cset', 'csetm'}

class Gen:
    """C++ text of one record case"""
    def __init__(self, rid): self.rid = rid; self.decl = []; self.assume = []; self.pre = []; self.ops = []; self.env = {}; self.refusable = False; self.kf = []
    def var(self, base): return '%s' % base

def gen_record(rec, sib):
    """rec: dict(name, ops(list of Operand), opstr, mask, val, pieces, t, iid, rid). returns list of C++ lines for `case`."""
    name = rec['name']; ops = rec['ops']; pieces = rec['pieces']
    g = Gen(rec['rid'])
    D = g.decl.append; A = g.pre.append
    env = {}            # field name -> (C expression of the field value, width or None)
    tlist = rec['t']
    if tlist:
        keep = [x for x in tlist if x != '~']
        if len(keep) != len(tlist): tlist = keep
        D('uint32_t ti = nondet_u8() %% %d;' % len(tlist))
    def vexpr(q, e, idv):
        if q is None: return 'vscalar(3, %s)' % idv
        if q == '2H': return 'a64::Vec::make_v32_with_element_type(a64::VecElementType::kH, %s)' % idv
        if '2' in q and q != '2': return '((%s) == 2 ? vscalar(3, %s) : varr(%s, %s, %s))' % (q, idv, q, e, idv)
        if q == '2': return 'vscalar(3, %s)' % idv
        return 'varr(%s, %s, %s)' % (q, e, idv)
    def arr_expr(tname):
        # -> (q_expr, el_expr) for operand arrangement name
        if tname in ARR: return str(ARR[tname][0]), str(ARR[tname][1])
        if tname == '1D': return None, '3'
        if tname == '2H': return '2H', '1'
        idx = {'t': 0, 'ta': 0, 'tb': 1}[tname]
        col = [(x.split('.')[idx] if '.' in x else x) for x in tlist]
        for c in col:
            if c not in ARR and c != '1D': raise Skip('arrangement ' + c)
        # 1D (a plain D register) is represented as q = 2
        qs = [2 if c == '1D' else ARR[c][0] for c in col]; es = [3 if c == '1D' else ARR[c][1] for c in col]
        def sel(v):
            if len(set(v)) == 1: return str(v[0])
            e = str(v[-1])
            for k in range(len(v) - 2, -1, -1): e = '(ti == %d ? %d : %s)' % (k, v[k], e)
            return e
        return sel(qs), sel(es)
    el_sizes = []        # element size expressions seen (for `sz`)
    lane_el = None
    nreg = 0
    mem_regop = None
    for k, o in enumerate(ops):
        v = 'o%d' % k
        if o.kind == 'gp':
            D('uint32_t %s_id = nd_gp_id();' % v); g.refusable = True
            # id 31 (SP) / 63 (ZR) are excluded from the domain when a sibling record of the same mnemonic takes them at this position
            if o.sp:
                ok = 'gp_sp_ok(%s_id)' % v
                if sib(k, 'zr'): g.assume.append('%s_id != 63' % v)
            else:
                ok = 'gp_zr_ok(%s_id)' % v
                if sib(k, 'sp'): g.assume.append('%s_id != 31' % v)
            A((ok, 'operand %d is r0-r30 or %s' % (k, 'SP' if o.sp else 'ZR')))
            g.ops.append('gp(%s, %s_id)' % ('true' if o.x else 'false', v))
            env['R' + o.suf] = env['W' + o.suf] = env['X' + o.suf] = ('(%s_id & 31)' % v, 5)
            if mem_regop is None: mem_regop = o
        elif o.kind == 'vs':
            D('uint32_t %s_id = nd_vec_id();' % v); g.refusable = True
            g.ops.append('vscalar(%d, %s_id)' % (o.w, v))
            env['V' + o.suf] = ('%s_id' % v, 5); env['vid%d' % k] = '%s_id' % v
            el_sizes.append(str(o.w))
            if mem_regop is None: mem_regop = o
        elif o.kind == 'va':
            D('uint32_t %s_id = nd_vec_id();' % v); g.refusable = True
            q, e = arr_expr(o.t)
            g.ops.append(vexpr(q, e, '%s_id' % v)); el_sizes.append(e)
            env['V' + o.suf] = ('%s_id' % v, 5); env['vid%d' % k] = '%s_id' % v
        elif o.kind == 've':
            D('uint32_t %s_id = nd_vec_id(), %s_ix = nondet_u8() & 15;' % (v, v)); g.refusable = True
            g.ops.append('velem(%d, %s_ix, %s_id)' % (o.el, v, v))
            for j in range(1, o.n):
                D('uint32_t %s_%d_id = nd_vec_id();' % (v, j))
                g.ops.append('velem(%d, %s_ix, %s_%d_id)' % (o.el, v, v, j))
                A(('%s_%d_id == ((%s_id + %d) & 31)' % (v, j, v, j), 'list register %d is consecutive modulo 32' % j))
            env['V' + o.suf] = ('%s_id' % v, 5); env['vid%d' % k] = '%s_id' % v
            env[o.idx] = ('%s_ix' % v, None)
            if o.idx == 'idx' and not any(p[0] == 'idx' for p in pieces) and any(p[0] == 'imm' for p in pieces) and not any(x.kind == 'imm' and x.name == 'imm' for x in ops):
                env['imm'] = ('%s_ix' % v, None)      # DB names the index bits imm[..] in a few records (fmlal)
            if o.n > 1 or (k == 0 and any(x.kind == 'mem' for x in ops)): lane_el = o.el
        elif o.kind == 'vlist':
            q, e = arr_expr('t')
            for j in range(o.n):
                D('uint32_t %s_%d_id = nd_vec_id();' % (v, j))
                g.ops.append(vexpr(q, e, '%s_%d_id' % (v, j)))
                if j: A(('%s_%d_id == ((%s_0_id + %d) & 31)' % (v, j, v, j), 'list register %d is consecutive modulo 32' % j))
            g.refusable = True
            env['V' + o.suf] = ('%s_0_id' % v, 5); env['vid%d' % k] = '%s_0_id' % v
            el_sizes.append(e)
        elif o.kind == 'mem':
            D('uint32_t %s_b = nd_gp_id();' % v); g.refusable = True
            A(('gp_sp_ok(%s_b)' % v, 'base register is r0-r30 or SP'))
            env['Rn'] = env['Vn'] = env['Xn'] = ('(%s_b & 31)' % v, 5)
            if o.mode == 'none':
                g.ops.append('mem_off(%s_b, 0, 0)' % v)
            elif o.mode == 'postreg':
                D('uint32_t %s_i = nd_gp_id();' % v)
                g.ops.append('mem_idx(%s_b, true, %s_i, 0, 0, 2)' % (v, v))
                A(('%s_i <= 30' % v, 'post-index register is x0-x30'))
                env['Rm'] = ('%s_i' % v, 5)
            elif o.mode == 'postfix':
                D('int32_t %s_off = int32_t(nondet_u32());' % v)
                g.assume.append('%s_off != 0' % v)     # [Xn], #0 is assembled as the no-offset form (another record)
                g.ops.append('mem_off(%s_b, %s_off, 2)' % (v, v))
                if o.fix_sz:
                    if not el_sizes: raise Skip('off<<sz without size')
                    A(('%s_off == int32_t(%d << (%s))' % (v, o.fix, el_sizes[0]), 'post-index immediate equals the bytes transferred'))
                else:
                    A(('%s_off == %d' % (v, o.fix), 'post-index immediate equals the bytes transferred (%d)' % o.fix))
            elif o.mode == 'regoff':
                sc = offset_scale(name, 'offZ', 12, mem_regop)
                D('uint32_t %s_i = nd_gp_id(), %s_sop = nondet_u8() & 15, %s_sh = nondet_u8() & 31; bool %s_ix = nondet_bool();' % (v, v, v, v))
                g.ops.append('mem_idx(%s_b, %s_ix, %s_i, %s_sop, %s_sh)' % (v, v, v, v, v))
                g.kf.append(('C02D', 'gp_sp_ok(%s_b)' % v))
                A(('gp_zr_ok(%s_i)' % v, 'index register is r0-r30 or ZR'))
                A(('ref_ldst_option(%s_sop) != 0xFF' % v, 'index extend is UXTW LSL SXTW or SXTX'))
                A(('%s_sh == 0 || %s_sh == %d' % (v, v, sc), 'index shift is 0 or log2 of the access size (%d)' % sc))
                env['Rm'] = ('(%s_i & 31)' % v, 5); env['option'] = ('ref_ldst_option(%s_sop)' % v, 3)
                env['s'] = env['n'] = ('(%s_sh != 0 ? 1u : 0u)' % v, 1)
            else:
                piece = [p for p in pieces if p[0] == o.field]
                if len(piece) != 1: raise Skip('offset field pieces')
                bits = piece[0][2]
                sc = offset_scale(name, o.field, bits, mem_regop)
                D('int32_t %s_off = int32_t(nondet_u32());' % v)
                if o.wb == 'any':
                    D('uint32_t %s_mode = nondet_u8() %% 3;' % v); mode = '%s_mode' % v
                    env['!post'] = ('(%s != 2 ? 1u : 0u)' % mode, 1); env['W'] = ('(%s != 0 ? 1u : 0u)' % mode, 1)
                    # AsmJit drops a write-back by 0 of the pair forms (same architectural effect): excluded from the domain
                    g.assume.append('!(%s != 0 && %s_off == 0)' % (mode, v))
                else:
                    mode = {'offset': '0', 'pre': '1', 'post': '2'}[o.wb]
                g.ops.append('mem_off(%s_b, %s_off, %s)' % (v, v, mode))
                if o.field == 'offZ':
                    if name in HAS_UNSCALED_ALT:
                        g.assume.append('!(%s_off >= -256 && %s_off <= 255 && (%s_off < 0 || (%s_off & %d) != 0))' % (v, v, v, v, (1 << sc) - 1))
                    A(('%s_off >= 0 && (%s_off & %d) == 0 && (%s_off >> %d) < %d' % (v, v, (1 << sc) - 1, v, sc, 1 << bits), 'offset is a multiple of %d in 0..%d' % (1 << sc, ((1 << bits) - 1) << sc)))
                    env[o.field] = ('uint32_t(%s_off >> %d)' % (v, sc), bits)
                else:
                    A(('(%s_off & %d) == 0 && (%s_off >> %d) >= %d && (%s_off >> %d) <= %d' % (v, (1 << sc) - 1, v, sc, -(1 << (bits - 1)), v, sc, (1 << (bits - 1)) - 1),
                       'offset is a multiple of %d in the signed %d-bit range' % (1 << sc, bits)))
                    env[o.field] = ('(uint32_t(%s_off >> %d) & %d)' % (v, sc, (1 << bits) - 1), bits)
        elif o.kind == 'shift':
            D('uint32_t %s_sop = nondet_u8() & 7; uint64_t %s_amt = nondet_u64();' % (v, v)); g.refusable = True
            g.assume.append('%s_sop <= 5' % v)       # extend kinds (6..13) select the extended-register form: another record
            g.ops.append('shift_imm(%s_sop, %s_amt)' % (v, v))
            A(('%s_sop <= %d' % (v, 3 if o.ror else 2), 'shift kind is LSL LSR ASR' + (' ROR' if o.ror else '')))
            A(('%s_amt < %d' % (v, 64 if ops[0].x else 32), 'shift amount below the register size'))
            env['sop'] = ('%s_sop' % v, 2); env['n'] = ('uint32_t(%s_amt)' % v, 6)
        elif o.kind == 'imm':
            nm = o.name
            if nm == '0':
                D('uint64_t %s_v = nondet_u64();' % v); g.refusable = True
                g.ops.append('Imm(%s_v)' % v); A(('%s_v == 0' % v, 'the immediate is 0'))
                continue
            kind = re.sub(r'\(.*', '', rec['imm'] or '')
            if nm in ('n', 'fbits', 'bits') and kind in ('ASimdShiftNImm', 'ASimdSHRN', 'ASimdFBitsHBImm', 'ASimdShiftPImm', 'ASimdSHL', 'ASimdFBitsScaleImm'):
                D('uint64_t %s_v = nondet_u64();' % v); g.refusable = True
                g.ops.append('Imm(%s_v)' % v)
                if kind == 'ASimdFBitsScaleImm':
                    rs = 64 if [x for x in ops if x.kind == 'gp'][0].x else 32
                    A(('%s_v >= 1 && %s_v <= %d' % (v, v, rs), 'fbits is 1..%d' % rs))
                    env['scale'] = ('(64 - uint32_t(%s_v))' % v, 6)
                else:
                    if not el_sizes: raise Skip('shift without sized operand')
                    e = el_sizes[0]
                    for x in el_sizes[1:]:
                        if x != e: e = '((%s) < (%s) ? (%s) : (%s))' % (e, x, e, x)
                    es = '(8u << (%s))' % e
                    if kind in ('ASimdShiftPImm', 'ASimdSHL'):
                        A(('%s_v < %s' % (v, es), 'left shift amount is 0..esize-1'))
                        hb = '(%s + uint32_t(%s_v))' % (es, v)
                    else:
                        A(('%s_v >= 1 && %s_v <= %s' % (v, v, es), 'right shift amount or fbits is 1..esize'))
                        hb = '(2 * %s - uint32_t(%s_v))' % (es, v)
                    env['immh'] = ('(%s >> 3)' % hb, 4); env['immb'] = ('(%s & 7)' % hb, 3)
                continue
            if nm == 'rotate':
                piece = [p for p in pieces if p[0] == 'imm']
                if len(piece) != 1: raise Skip('rotate field')
                D('uint64_t %s_v = nondet_u64();' % v); g.refusable = True
                g.ops.append('Imm(%s_v)' % v)
                if piece[0][2] == 1:
                    A(('%s_v == 90 || %s_v == 270' % (v, v), 'rotation is 90 or 270')); env['imm'] = ('(%s_v == 270 ? 1u : 0u)' % v, 1)
                else:
                    A(('%s_v == 0 || %s_v == 90 || %s_v == 180 || %s_v == 270' % (v, v, v, v), 'rotation is 0 90 180 or 270')); env['imm'] = ('uint32_t(%s_v / 90)' % v, 2)
                continue
            piece = [p for p in pieces if p[0] == nm]
            if not piece: raise Skip('immediate #%s has no field' % nm)
            bits = sum(p[2] for p in piece)
            D('uint64_t %s_v = nondet_u64();' % v); g.refusable = True
            g.ops.append('Imm(%s_v)' % v)
            if nm == 'cond':
                if name in INVERTED_COND:
                    A(('%s_v >= 2 && %s_v <= 15' % (v, v), 'condition is a condition code other than AL and NV'))
                    env[nm] = ('(arch_cond(uint32_t(%s_v)) ^ 1)' % v, 4)
                else:
                    A(('%s_v <= 15' % v, 'condition is one of the 16 condition codes'))
                    env[nm] = ('arch_cond(uint32_t(%s_v))' % v, 4)
            elif nm == 'imm1' and name in ('addg', 'subg'):
                A(('%s_v <= 1008 && (%s_v & 15) == 0' % (v, v), 'offset is a multiple of 16 in 0..1008'))
                env[nm] = ('uint32_t(%s_v >> 4)' % v, bits)
            elif nm in ('imm', 'immZ', 'nzcv', 'immr', 'imms', 'imm1', 'imm2', 'op1', 'op2', 'Cn', 'Cm', 'CRn', 'CRm', 'idx') and rec['imm'] is None:
                if nm in ('immr', 'imms') and len(ops) >= 1 and ops[0].kind == 'gp' and not ops[0].x:
                    A(('%s_v < 32' % v, 'immediate below the register size')); bits_ = bits
                else:
                    A(('%s_v < %d' % (v, 1 << bits), 'immediate fits %d bits' % bits))
                env[nm] = ('uint32_t(%s_v)' % v, bits)
            elif nm == 'immS' and rec['imm'] is None:
                A(('int64_t(%s_v) >= %d && int64_t(%s_v) <= %d' % (v, -(1 << (bits - 1)), v, (1 << (bits - 1)) - 1), 'immediate fits signed %d bits' % bits))
                env[nm] = ('(uint32_t(%s_v) & %d)' % (v, (1 << bits) - 1), bits)
            else:
                raise Skip('immediate #%s%s' % (nm, ' with imm annotation' if rec['imm'] else ''))
        else:
            raise Skip('operand kind')
    if re.sub(r'\(.*', '', rec['imm'] or '') == 'ASimdXtlImm':
        e = el_sizes[0]
        for x in el_sizes[1:]:
            if x != e: e = '((%s) < (%s) ? (%s) : (%s))' % (e, x, e, x)
        env['immh'] = ('(1u << (%s))' % e, 4)
    # ---- sz
    if any(p[0] == 'sz' for p in pieces):
        if not el_sizes: raise Skip('sz without sized operand')
        # the size field holds the smaller element size of the operands (B=0 H=1 S=2 D=3)
        e = el_sizes[0]
        for x in el_sizes[1:]:
            if x != e: e = '((%s) < (%s) ? (%s) : (%s))' % (e, x, e, x)
        env['sz'] = (e, 2)
    # ---- emit code
    L = []
    L.append('    case %d: {  // %s %s   <- "%s"' % (rec['case'], name, rec['opstr'], rec['op']))
    for d in g.decl: L.append('      ' + d)
    vec_regs = [k for k, o in enumerate(ops) if o.kind in ('vs', 'va', 've')]
    if len(ops) >= 3 and ops[2].kind in ('vs', 'va', 've') and ops[0].kind in ('vs', 'va', 've', 'gp'):
        L.append('#if KF_C02A'); L.append('      V_ASSUME(o2_id < 32);'); L.append('#endif')
    for kid, cond in g.kf:
        L.append('#if KF_%s' % kid); L.append('      V_ASSUME(%s);' % cond); L.append('#endif')
    if name in ('smax', 'smin', 'umax', 'umin') and not rec['iid'].endswith('_v'):
        gps = [k for k, o in enumerate(ops) if o.kind == 'gp']
        L.append('#if KF_C02I'); L.append('      V_ASSUME(%s);' % ' && '.join('gp_zr_ok(o%d_id)' % k for k in gps)); L.append('#endif')
    kf_norefuse = None
    if name in ('cmp', 'cmn') and len(ops) >= 2 and ops[0].kind == 'gp' and ops[1].kind == 'gp':
        L.append('#if KF_C02L'); L.append('      V_ASSUME(gp_zr_ok(o0_id) && gp_zr_ok(o1_id));'); L.append('#endif')
    if name in ('neg', 'negs') and any(o.kind == 'shift' for o in ops):
        si = [k for k, o in enumerate(ops) if o.kind == 'shift'][0]
        L.append('#if KF_C02M'); L.append('      V_ASSUME(o%d_sop != 3);' % si); L.append('#endif')
    if name in ('smax', 'smin', 'umax', 'umin') and not rec['iid'].endswith('_v') and not any(o.kind == 'imm' for o in ops): kf_norefuse = 'C02I'
    if name in ('cinc', 'cinv', 'cneg'):
        ci = [k for k, o in enumerate(ops) if o.kind == 'imm'][0]
        L.append('#if KF_C02F'); L.append('      V_ASSUME(o%d_v != 16);' % ci); L.append('#endif')
    if name in ('tbl', 'tbx'):
        raise Skip('tbl/tbx register lists (hand-written harness)')
    for a in g.assume: L.append('      V_ASSUME(%s);' % a)
    L.append('      r = emit(Inst::kId%s%s);' % (rec['iid'], ''.join(', ' + x for x in g.ops)))
    L.append('      C02_FRAME(r);')
    L.append('      if (r.e == Error::kOk) {')
    tag = 'r%d' % rec['rid']
    L.append('        V_ASSERT((r.w & 0x%08Xu) == 0x%08Xu, "%s: fixed bits of the template");' % (rec['mask'], rec['val'], tag))
    for cond, text in g.pre:
        L.append('        V_ASSERT(%s, "%s: %s");' % (cond, tag, text))
    for k, o in enumerate(ops):
        if o.kind in ('vs', 'va', 've'):
            L.append('        V_ASSERT(vec_ok(o%d_id), "%s: operand %d is v0-v31");' % (k, tag, k))
        if o.kind == 'vlist':
            L.append('        V_ASSERT(vec_ok(o%d_0_id), "%s: first list register is v0-v31");' % (k, tag))
    # field pieces
    idx_bits = collections.defaultdict(int)
    # register fields whose name does not follow the operand (DB: "str Bd" with field Vs, "ins .. Vn.B[]" with field Rn):
    # pair the single unmatched register field with the single register operand no field refers to
    regf = [p[0] for p in pieces if re.fullmatch(r'[RV][a-z]\w*', p[0])]
    unf = sorted(set(f for f in regf if f not in env))
    used = set(f for f in regf if f in env)
    unop = []
    for k, o in enumerate(ops):
        if o.kind in ('gp', 'vs', 'va', 've', 'vlist'):
            names = ['R' + o.suf, 'V' + o.suf]
            if not any(n in used for n in names): unop.append((k, o))
    if len(unf) == len(unop) and len(unf) >= 1:
        # same order: suffixes compare by trailing digit (d/d2 <-> s/s2)
        unf.sort(key=lambda f: (f[-1].isdigit(), f)); unop.sort(key=lambda ko: (ko[1].suf[-1].isdigit(), ko[0]))
        for f, (k, o) in zip(unf, unop):
            env[f] = env[('R' if o.kind == 'gp' else 'V') + o.suf]
    for (fname, lo, width, src) in pieces:
        if fname not in env:
            raise Skip('field %s' % fname)
        expr, fw = env[fname]
        if fname.startswith('idx'): idx_bits[fname] = max(idx_bits[fname], (src or 0) + width)
        if src is None:
            if fw is not None and fw > width and fname[0] in 'RV':
                # narrow register field (Vm:4): the register must be v0-v15
                L.append('        V_ASSERT(%s < %d, "%s: register of field %s is v0-v%d");' % (expr, 1 << width, tag, fname, (1 << width) - 1))
            L.append('        V_ASSERT(fld(r.w, %d, %d) == (%s & %du), "%s: field %s");' % (lo, width, expr, (1 << width) - 1, tag, fname))
        else:
            L.append('        V_ASSERT(fld(r.w, %d, %d) == ((%s >> %d) & %du), "%s: field %s bits %d up");' % (lo, width, expr, src, (1 << width) - 1, tag, fname, src))
    for fname, nb in idx_bits.items():
        if True:
            L.append('        V_ASSERT(%s < %d, "%s: element index fits the %d index bits");' % (env[fname][0], 1 << nb, tag, nb))
    L.append('        V_WITNESS("%s-ok");' % tag)
    if g.refusable and kf_norefuse:
        L.append('      }'); L.append('#if !KF_%s' % kf_norefuse); L.append('      else V_WITNESS("%s-refused");' % tag); L.append('#endif')
    elif g.refusable:
        L.append('      } else V_WITNESS("%s-refused");' % tag)
    else:
        L.append('      }')
    L.append('      break;')
    L.append('    }')
    return L

def main():
    ids = inst_ids()
    db = json.load(open(DB))
    recs = []; skipped = collections.Counter(); skipped_ex = {}
    n_db = 0; n_arch = 0; n_named = 0
    for c in db['instructions']:
        for r in c['data']:
            n_db += 1
            if c['category'] in ('SVE', 'SME'): continue
            n_arch += 1
            m = re.match(r'([\w\|\.<>]+)\s*(.*)', r['inst'])
            for nm in m.group(1).split('|'):
                n_named += 1
                recs.append(dict(cat=c['category'], ext=c.get('ext', ''), name=nm, opstr=m.group(2).strip(), r=r))
    # group sibling syntaxes per mnemonic for the SP/ZR domain rule
    by_name = collections.defaultdict(list)
    for rc in recs: by_name[rc['name']].append(rc)
    def skip(rc, why):
        skipped[why] += 1; skipped_ex.setdefault(why, '%s %s' % (rc['name'], rc['opstr']))
    good = []
    n_errata = [0]
    rid = 0
    for rc in recs:
        rc['rid'] = rid; rid += 1
        iid = id_name(ids, rc['cat'], rc['name'].replace('.<cond>', ''))
        if not iid: skip(rc, 'instruction not implemented by AsmJit (no Inst::kId)'); continue
        rc['iid'] = iid
        key = (rc['name'], rc['opstr'])
        op = rc['r']['op']
        t = rc['r'].get('t') or rc['r'].get('ta.tb')
        if key in NOT_ACCEPTED: skip(rc, 'valid form that AsmJit refuses altogether: ' + NOT_ACCEPTED[key]); continue
        if key in ERRATA:
            if ERRATA[key] is None: skip(rc, 'DB record does not exist in the architecture (erratum, dropped)'); continue
            if ERRATA[key]['op']: op = ERRATA[key]['op']
            if ERRATA[key]['ops']: rc['opstr'] = ERRATA[key]['ops']
            n_errata[0] += 1
        if op.startswith('0Q0'):
            op = ('00' if t and t.split()[0] in ('8B', '4H', '2S') else '01') + op[2:]
        rc['opstr'], op, t, note = erratum_rules(rc['name'], rc['opstr'], op, t)
        if note:
            n_errata[0] += 1
            if note not in ERRATA_NOTES: ERRATA_NOTES.append(note)
        rc['op'] = op; rc['tfix'] = t
        if rc['name'] == 'mov' and rc['cat'] == 'GP': skip(rc, 'mov aliases (hand-written harnesses h_mov_reg / h_mov_imm)'); continue
        try:
            rc['mask'], rc['val'], rc['pieces'] = parse_template(op)
            toks = split_ops(rc['opstr'])
            rc['ops'] = [parse_operand(t, rc) for t in toks]
            if len(rc['ops']) > 6: raise Skip('more than 6 operands')
            t = rc['tfix']
            rc['t'] = t.split() if t else None
            rc['imm'] = rc['r'].get('imm')
            if any(o.kind in ('va', 'vlist') and getattr(o, 't', 't') in ('t', 'ta', 'tb') for o in rc['ops']) and not rc['t']:
                raise Skip('t operand without t list')
        except Skip as e:
            skip(rc, str(e)); continue
        good.append(rc)
    # sibling rule
    def make_sib(rc):
        def sib(k, what):
            for o in by_name[rc['name']]:
                if o is rc or 'ops' not in o:
                    if o is rc: continue
                    # unparsed sibling: look at the raw text
                    toks = split_ops(o['opstr'])
                    if k < len(toks):
                        t = toks[k]
                        if what == 'sp' and re.search(r'\|W?SP', t) and not t.startswith('['): return True
                        if what == 'zr' and re.fullmatch(r'[WXR][a-z]\w*', t): return True
                    continue
                if k < len(o['ops']) and o['ops'][k].kind == 'gp':
                    if what == 'sp' and o['ops'][k].sp: return True
                    if what == 'zr' and not o['ops'][k].sp: return True
            return False
        return sib
    # generate
    out_cases = []
    for rc in good:
        try:
            rc['case'] = 0
            gen_record(rc, make_sib(rc))
        except Skip as e:
            skip(rc, str(e)); continue
        out_cases.append(rc)
    # group: consecutive records (the DB is sorted by mnemonic) -> harnesses
    harnesses = []
    cur = []
    for rc in out_cases:
        cur.append(rc)
        if len(cur) == RECS_PER_HARNESS: harnesses.append(cur); cur = []
    if cur: harnesses.append(cur)
    files = []
    for old in os.listdir(HERE):
        if re.fullmatch(r'h_forms_(\d+|rep)\.cpp', old): os.remove(os.path.join(HERE, old))
    index = []
    # ---- class representatives: one record per (AsmJit encoding class, operand shape, field layout). They form the unit that
    # the quick tier always runs, so that every case of the switch in _emit has at least one DB-checked form in every run.
    enc_of = dict(re.findall(r'INST\((\w+)\s*,\s*(\w+)\s*,', open(os.path.join(REPO, 'asmjit', 'arm', 'a64instdb.cpp')).read()))
    def shape(rc):
        # coarse on purpose (register width, scalar size and the concrete arrangement do not select another code path)
        sh = []
        for o in rc['ops']:
            k = o.kind
            if k == 've': sh.append((k, o.el, o.n > 1))
            elif k == 'vlist': sh.append((k,))
            elif k == 'mem': sh.append((k, o.mode, getattr(o, 'wb', '')))
            elif k == 'imm': sh.append((k, o.name))
            elif k == 'gp': sh.append((k, o.sp))
            else: sh.append((k,))
        narrow = tuple(sorted(p[0] for p in rc['pieces'] if p[0][0] in 'RV' and p[2] < 5))
        return (enc_of.get(rc['iid'], '?'), tuple(sh), narrow)
    reps = {}
    for rc in out_cases: reps.setdefault(shape(rc), rc)
    rep_list = list(reps.values())
    rep_index = []
    if rep_list:
        L = ['// GENERATED by gen_forms.py - do not edit. Class representatives: one DB record per (AsmJit encoding class, operand shape, field layout).',
             '#include "c02_common.h"', 'using namespace a64;', '']
        for hi in range(0, len(rep_list), RECS_PER_HARNESS):
            grp = rep_list[hi:hi + RECS_PER_HARNESS]
            hname = 'h_rep%03d_%s' % (hi // RECS_PER_HARNESS, re.sub(r'\W', '_', grp[0]['name']))
            L.append('HARNESS %s() {' % hname)
            L.append('  Res r; uint32_t sel = nondet_u8() %% %d;' % len(grp))
            L.append('  switch (sel) {')
            for k, rc in enumerate(grp):
                rc['case'] = k
                L += gen_record(rc, make_sib(rc))
            L.append('  }'); L.append('}'); L.append('')
            rep_index.append(('h_forms_rep.cpp', hname, ['%s %s' % (rc['name'], rc['opstr']) for rc in grp]))
        open(os.path.join(HERE, 'h_forms_rep.cpp'), 'w').write('\n'.join(L))
    for fi in range(0, len(harnesses), HARNESS_PER_FILE):
        fn = 'h_forms_%02d.cpp' % (fi // HARNESS_PER_FILE)
        L = ['// GENERATED by gen_forms.py from db/isa_aarch64.json - do not edit. See gen_forms.py for the field semantics.',
             '#include "c02_common.h"', 'using namespace a64;', '']
        for hi, grp in enumerate(harnesses[fi:fi + HARNESS_PER_FILE]):
            hname = 'h_f%03d_%s' % (fi + hi, re.sub(r'\W', '_', grp[0]['name']))
            L.append('HARNESS %s() {' % hname)
            L.append('  Res r; uint32_t sel = nondet_u8() %% %d;' % len(grp))
            L.append('  switch (sel) {')
            for k, rc in enumerate(grp):
                rc['case'] = k
                L += gen_record(rc, make_sib(rc))
            L.append('  }'); L.append('}'); L.append('')
            index.append((fn, hname, ['%s %s' % (rc['name'], rc['opstr']) for rc in grp]))
        open(os.path.join(HERE, fn), 'w').write('\n'.join(L))
        files.append(fn)
    with open(os.path.join(HERE, 'forms_index.py'), 'w') as f:
        f.write('# GENERATED by gen_forms.py - do not edit\n')
        f.write('DB_RECORDS = %d\nDB_RECORDS_A64 = %d  # without SVE/SME\nDB_FORMS = %d  # A64 records x mnemonic aliases\nGENERATED = %d\n' % (n_db, n_arch, n_named, len(out_cases)))
        f.write('FILES = %r\n' % files)
        f.write('HARNESSES = [\n')
        for fn, hname, rl in index: f.write('  (%r, %r, %r),\n' % (fn, hname, rl))
        f.write(']\nREP_HARNESSES = [\n')
        for fn, hname, rl in rep_index: f.write('  (%r, %r, %r),\n' % (fn, hname, rl))
        f.write(']\nSKIPPED = [\n')
        for why, n in skipped.most_common(): f.write('  (%d, %r, %r),\n' % (n, why, skipped_ex[why]))
        f.write(']\nN_ERRATA = %d\nERRATA = %r\n' % (n_errata[0], ERRATA_NOTES))
    if os.environ.get('C02_RIDS'):
        json.dump({str(rc['rid']): [rc['name'], rc['opstr'], rc.get('op', rc['r']['op']), rc['r'].get('t') or rc['r'].get('ta.tb') or ''] for rc in recs}, open(os.environ['C02_RIDS'], 'w'))
    print('db records %d, A64 %d, forms %d, generated %d in %d harnesses / %d files; %d representatives of %d encoding classes in %d harnesses' % (n_db, n_arch, n_named, len(out_cases), len(harnesses), len(files), len(rep_list), len(set(k[0] for k in reps)), len(rep_index)))
    for why, n in skipped.most_common(40): print('  skipped %4d  %s   e.g. %s' % (n, why, skipped_ex[why]))

if __name__ == '__main__':
    main()
