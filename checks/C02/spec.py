# C02 — AArch64 encoding
A64_UNITS = ['asmjit/arm/a64assembler.cpp', 'asmjit/arm/a64instdb.cpp']
UNITS = [Unit('core', harness=['h_core.cpp'], repo_units=A64_UNITS), Unit('simd', harness=['h_core_simd.cpp'], repo_units=A64_UNITS)]
GP = 'GP ids 0..63 (0-30, 31=SP, 63=ZR, 32-62 = no register), W/X per operand'
HARNESSES = [
    Harness('core', 'h_addsub_reg', unwind=17, bounds=GP + '; add/adds/sub/subs; shift/extend kind 0..15; amount 2^64', mem_gb=4, timeout=600),
    Harness('core', 'h_addsub_imm', unwind=17, bounds=GP, mem_gb=4, timeout=600),
    Harness('core', 'h_logical_reg', unwind=17, bounds=GP, mem_gb=4, timeout=600),
    Harness('core', 'h_logical_imm', unwind=34, bounds=GP, mem_gb=4, timeout=600),
    Harness('core', 'h_mov_reg', unwind=17, bounds=GP, mem_gb=4, timeout=600),
    Harness('core', 'h_mov_imm_w', unwind=34, bounds=GP + '; all 2^64 immediates', mem_gb=8, timeout=900),
    Harness('core', 'h_mov_imm_x', unwind=34, bounds=GP + '; all 2^64 immediates', mem_gb=8, timeout=900),
    Harness('core', 'h_movwide', unwind=17, bounds=GP, mem_gb=4, timeout=600),
]
for f in ('ldr', 'str', 'ldrb', 'ldrh', 'strb', 'strh', 'ldrsb', 'ldrsh', 'ldrsw', 'ldp', 'stp', 'ldpsw', 'ldnp', 'madd', 'bitfield', 'shift', 'csel', 'ccmp', 'branch_abs'):
    HARNESSES.append(Harness('core', 'h_' + f, unwind=17, bounds=GP, mem_gb=4, timeout=600))
VEC = 'vector ids 0..63 (32-63 = no register), per operand: arrangement (Q, B/H/S/D) | scalar B/H/S/D/Q | element [0..15]'
for f in ('simd_add', 'simd_fmla', 'simd_ld1_1', 'simd_ld1_2', 'simd_ld1_3', 'simd_ld1_4', 'simd_lane', 'simd_fmov_imm', 'minmax', 'simd_tbl_1', 'simd_tbl_2', 'simd_tbl_3', 'simd_tbl_4'):
    HARNESSES.append(Harness('simd', 'h_' + f, unwind=17, bounds=VEC, mem_gb=4, timeout=600))
KF = [('core', 'h_csel_kf_C02F', 'C02F'), ('core', 'h_branch_kf_C02G', 'C02G'), ('core', 'h_ldst_kf_C02B', 'C02B'), ('core', 'h_ldst_kf_C02C', 'C02C'), ('core', 'h_ldst_kf_C02D', 'C02D'),
      ('core', 'h_bitfield_kf_C02E', 'C02E'), ('core', 'h_mov_imm_kf_C02H', 'C02H'), ('simd', 'h_simd_add_kf_C02A', 'C02A'), ('simd', 'h_minmax_kf_C02I', 'C02I'), ('simd', 'h_simd_tbl_kf_C02J', 'C02J'), ('simd', 'h_simd_elem_kf_C02K', 'C02K'), ('core', 'h_cmp_kf_C02L', 'C02L'), ('core', 'h_neg_kf_C02M', 'C02M'), ('simd', 'h_simd_kf_C02N', 'C02N'), ('simd', 'h_simd_kf_C02O', 'C02O')]
for u, f, k in KF:
    HARNESSES.append(Harness(u, f, unwind=17, bounds='region of known finding ' + k, mem_gb=4, timeout=600, known=k))
# ---- generated family (gen_forms.py, output committed): one unit per h_forms_NN.cpp, rotated into quick by unit
import os as _os
_fx = {}
exec(open(_os.path.join(_os.path.dirname(_os.path.abspath(__file__)), 'forms_index.py')).read(), _fx)
for _k, _fn in enumerate(_fx['FILES']):
    UNITS.append(Unit('f%02d' % _k, harness=[_fn], repo_units=A64_UNITS))
for _fn, _hn, _recs in _fx['HARNESSES']:
    _k = _fx['FILES'].index(_fn)
    HARNESSES.append(Harness('f%02d' % _k, _hn, unwind=17, bounds='DB records: ' + '; '.join(_recs) + ' -- register ids 0..63, element index 0..15, immediates 2^64, offsets 2^32',
                             mem_gb=4, timeout=900, rotate=(_k, len(_fx['FILES'])), validate_runs=100))
EXPLANATION = 'bounded symbolic execution (CBMC) of the real a64::Assembler::_emit'
OUTSIDE = []
ASSUMPTIONS = []
