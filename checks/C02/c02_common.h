// C02 — shared helpers of the AArch64 encoding harnesses (hand-written h_core*.cpp and generated h_forms_*.cpp).
#pragma once
#include "a64_env.h"
using namespace asmjit;
using namespace venv;

namespace c02 {

static const Operand_ none_op = Operand_{};

struct Res { Error e; size_t n; uint32_t w; };

// One call of the real a64::Assembler::_emit on a fresh environment. Observes the return value, the cursor and the buffer.
static inline Res emit(InstId id, const Operand_& o0 = none_op, const Operand_& o1 = none_op, const Operand_& o2 = none_op,
                       const Operand_& o3 = none_op, const Operand_& o4 = none_op, const Operand_& o5 = none_op, bool absolute = false) {
  a64::Assembler* a = make_asm(absolute);
  Operand_ ext[3] = { o3, o4, o5 };
  Res r;
  r.e = a->a64::Assembler::_emit(id, o0, o1, o2, ext);
  r.n = emitted();
  r.w = word(0);
  verif_observe(uint64_t(r.e)); verif_observe(r.n); v_observe_bytes(buf, 8);
  return r;
}

// ---- operand constructors over *symbolic* ids. GP id domain 0..63: 0..30 = r0..r30, 31 = SP, 63 = ZR, 32..62 = no register.
static inline uint32_t nd_gp_id() { return nondet_u8() & 63; }
static inline uint32_t nd_vec_id() { return nondet_u8() & 63; }   // 0..31 = v0..v31, 32..63 = no register
static inline a64::Gp gp(bool x, uint32_t id) { return x ? a64::Gp::make_r64(id) : a64::Gp::make_r32(id); }
static inline bool gp_zr_ok(uint32_t id) { return id < 31 || id == a64::Gp::kIdZr; }   // operand syntax "Xn"
static inline bool gp_sp_ok(uint32_t id) { return id < 31 || id == a64::Gp::kIdSp; }   // operand syntax "Xn|SP"
static inline bool vec_ok(uint32_t id) { return id < 32; }

static inline Imm shift_imm(uint32_t op, uint64_t amount) { return Imm(amount, op); }

// vector register of width class wd (0=B 1=H 2=S 3=D 4=Q scalar/plain) without element type
static inline a64::Vec vscalar(uint32_t wd, uint32_t id) {
  switch (wd) { case 0: return a64::Vec::make_v8(id); case 1: return a64::Vec::make_v16(id); case 2: return a64::Vec::make_v32(id); case 3: return a64::Vec::make_v64(id); default: return a64::Vec::make_v128(id); }
}
// vector arrangement: q (0 = 64-bit, 1 = 128-bit), element 0..3 = B,H,S,D
static inline a64::Vec varr(uint32_t q, uint32_t el, uint32_t id) {
  a64::VecElementType t = a64::VecElementType(uint32_t(a64::VecElementType::kB) + el);
  return q ? a64::Vec::make_v128_with_element_type(t, id) : a64::Vec::make_v64_with_element_type(t, id);
}
static inline a64::Vec velem(uint32_t el, uint32_t index, uint32_t id) {
  return a64::Vec::make_v128_with_element_index(a64::VecElementType(uint32_t(a64::VecElementType::kB) + el), index, id);
}

// asmjit CondCode value (0 = AL, 1 = NA, 2 = EQ ... 15 = LE) -> architectural cond field (EQ = 0 ... AL = 14, NV = 15)
static inline uint32_t arch_cond(uint32_t cc) { return (cc - 2u) & 15u; }

// ---- reference: DecodeBitMasks (ARM ARM shared/functions), returns false if the field combination is reserved.
static inline uint64_t ones64(uint32_t n) { return n >= 64 ? ~0ull : ((1ull << n) - 1); }
static inline uint64_t ror_elem(uint64_t x, uint32_t r, uint32_t w) { uint64_t m = ones64(w); x &= m; r %= w; return r ? ((x >> r) | (x << (w - r))) & m : x; }
static inline bool ref_decode_bitmask(uint32_t n, uint32_t imms, uint32_t immr, uint32_t width, uint64_t* out) {
  uint32_t v = (n << 6) | (~imms & 0x3F);
  int len = -1;
  for (int i = 6; i >= 0; i--) if (v & (1u << i)) { len = i; break; }
  if (len < 1) return false;
  if (width == 32 && n) return false;
  uint32_t esize = 1u << len, levels = esize - 1;
  uint32_t s = imms & levels, r = immr & levels;
  if (s == levels) return false;
  uint64_t e = ror_elem(ones64(s + 1), r, esize);
  uint64_t res = 0;
  for (uint32_t i = 0; i < width; i += esize) res |= e << i;
  *out = res; return true;
}

static inline int64_t sext(uint64_t v, unsigned bits) { uint64_t m = 1ull << (bits - 1); v &= (m << 1) - 1; return int64_t((v ^ m) - m); }
static inline uint32_t fld(uint32_t w, unsigned lo, unsigned bits) { return (w >> lo) & ((bits >= 32) ? ~0u : ((1u << bits) - 1)); }

}  // namespace c02
using namespace c02;

// Post-conditions shared by every single-word form. `ok` is "the reference considers the operands encodable".
//   accepted  => exactly one word, cursor +4, bytes beyond untouched
//   refused   => error reported, nothing appended, buffer untouched
#define C02_FRAME(r) \
  do { \
    if ((r).e == Error::kOk) { \
      V_ASSERT((r).n == 4, "accepted: cursor advanced by exactly 4 bytes"); \
      V_ASSERT(text()->_buffer._size == 4, "accepted: section size is 4"); \
      V_ASSERT(untouched(4, 12), "accepted: bytes beyond the word untouched"); \
    } else { \
      V_ASSERT((r).n == 0, "refused: cursor not advanced"); \
      V_ASSERT(text()->_buffer._size == 0, "refused: section size unchanged"); \
      V_ASSERT(untouched(0, 16), "refused: nothing written"); \
      V_ASSERT(reports == 1 && last_reported == (r).e, "refused: the error was reported once"); \
    } \
  } while (0)

namespace c02 {
// memory operand constructors. mode: 0 = [base, #off]   1 = [base, #off]! (pre-index)   2 = [base], #off (post-index)
static inline a64::Mem mem_off(uint32_t base_id, int32_t off, uint32_t mode) {
  a64::Mem m(a64::Gp::make_r64(base_id), off);
  if (mode == 1) m.make_pre_index(); else if (mode == 2) m.make_post_index();
  return m;
}
// [base, index {, sop #sh}] ; ix: index is an X (else W) register; sop: ShiftOp value 0..15; sh 0..31; mode as above
static inline a64::Mem mem_idx(uint32_t base_id, bool ix, uint32_t index_id, uint32_t sop, uint32_t sh, uint32_t mode = 0) {
  a64::Mem m(a64::Gp::make_r64(base_id), gp(ix, index_id), arm::Shift(arm::ShiftOp(sop), sh));
  if (mode == 1) m.make_pre_index(); else if (mode == 2) m.make_post_index();
  return m;
}
// LD/ST register-offset "option" field from the asmjit shift op; 0xFF = not an addressing extend
static inline uint32_t ref_ldst_option(uint32_t sop) {
  return sop == uint32_t(arm::ShiftOp::kUXTW) ? 2u : sop == uint32_t(arm::ShiftOp::kLSL) ? 3u : sop == uint32_t(arm::ShiftOp::kSXTW) ? 6u : sop == uint32_t(arm::ShiftOp::kSXTX) ? 7u : 0xFFu;
}
}  // namespace c02
