# C12 — instruction read/write information (database-agreement part)
import json, os
UNITS = [Unit('rw', prescreen=True, harness=['h_rw.cpp'], repo_units=['asmjit/x86/x86assembler.cpp', 'asmjit/x86/x86instdb.cpp', 'asmjit/x86/x86instapi.cpp'])]
_c01 = os.path.join(os.path.dirname(os.path.abspath(__file__)), '..', 'C01')
_fg = json.load(open(os.path.join(_c01, 'forms_gen.json')))
_st = json.load(open(os.path.join(_c01, 'forms_status.json')))
_sel = [h for h in _fg['harnesses'] if not h.get('known') and _st.get(h['fn'], {}).get('accepted_runs', 0) > 0]
_NQ = max(1, len(_sel) // 300); _NT = 1
# D20: query_rw_info understands only the spelling with all implicit operands written out; for the short spelling (mul ecx, imul ecx,
# pblendvb xmm1, [mem]) it reports the accesses of the leading implicit operands for the explicit ones (or refuses). While D20 is listed,
# the short-spelling groups are companions of that finding; once it is repaired they are ordinary harnesses again.
_kf = os.path.join(os.path.dirname(os.path.abspath(__file__)), '..', '..', 'known_findings.jsonl')
_d20_open = any(l.startswith('{') and json.loads(l)['id'] == 'D20' for l in open(_kf)) and 'D20' not in os.environ.get('VERIF_KF_EXCLUDE', '').split(',')
HARNESSES = []
for _i, _h in enumerate(_sel):
    HARNESSES.append(Harness('rw', _h['fn'], unwind=17, tiers=('quick', 'thorough'), mem_gb=4, timeout=600, validate_runs=200,
                             known='D20' if (_h.get('implicit_omitted') and _d20_open) else None,
                             rotate=((_i * 7877) % _NQ, _NQ), rotate_thorough=((_i * 7883) % _NT, _NT),
                             bounds='instruction %s, %s-bit mode: same symbolic operand space as the C01 harness of the same name (pairwise distinct register ids among same-class operands)' % (_h['inst'], _h['mode'])))
EXPLANATION = 'bounded symbolic execution of the real InstAPI::query_rw_info against the access marks and io field of the database record'
OUTSIDE = ['the hardware-semantics half of the property (executing instructions on the host is not solver-based)', 'same-register idioms', 'implicit operands other than registers (string instructions, <mem(...)> operands)',
           'register-or-memory substitution (rm_ops_mask), CPU features and consecutive-register lead counts']
ASSUMPTIONS = ['the database record is the oracle (db/isa_x86.json), with the errata listed in checks/C01/gen_forms.py']

# ---- AArch64 register lists (the "run of consecutive registers" clause of the property), added after seeded change C12-m6
import re as _re
UNITS.append(Unit('a64rw', harness=['h_a64rw.cpp'], repo_units=['asmjit/arm/a64instapi.cpp', 'asmjit/arm/a64instdb.cpp']))
for _fn in _re.findall(r'^HARNESS (h_\w+)\(\)', open(os.path.join(os.path.dirname(os.path.abspath(__file__)), 'h_a64rw.cpp')).read(), _re.M):
    HARNESSES.append(Harness('a64rw', _fn, unwind=8, mem_gb=3, timeout=300,
                             bounds='ldN / ldNr / stN with a list of N consecutive vector registers (first id symbolic, wrapping modulo 32), base register symbolic, addressing [xN] / immediate post-index / register post-index'))
OUTSIDE += ['AArch64 read/write information other than the register-list forms (a64 query_rw_info reports no PSTATE flags: TODO in the source)']
