// C12 (database agreement): the C01 form family compiled as read/write-information checks.
#define VF_RW 1
#include "../C01/forms_gen.h"
