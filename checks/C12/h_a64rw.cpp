// C12 (AArch64 part stated in the property): "An instruction whose encoding implies a run of consecutive registers (AArch64 register lists)
// reports that run". The real a64::InstInternal::query_rw_info for ld1/ld2/ld3/ld4, st1..st4, ld1r..ld4r with a list of N registers and a
// memory operand: operand 0 leads the run (consecutive_lead_count == N), every further list register is flagged consecutive, loads write
// the list and read memory, stores read the list and write memory, the base register is read (and written with write-back).
#include <asmjit/a64.h>
#include <asmjit/arm/a64instapi_p.h>
#include "verif.h"
using namespace asmjit;

// LOAD: 1 load (ldN / ldNr), 0 store (stN); N: registers in the list
template<uint32_t INST, bool LOAD, unsigned N> static void list_case() {
  Operand_ ops[6];
  uint32_t first = nondet_u8() & 31;
  for (unsigned i = 0; i < N; i++) ops[i] = a64::v((first + i) & 31).b16();
  uint32_t base = nondet_u8() & 31; uint32_t mode = nondet_u8() % 3;   // 0: [xN], 1: [xN], #imm post-index, 2: [xN], xM post-index
  a64::Mem m = mode == 0 ? a64::ptr(a64::x(base)) : mode == 1 ? a64::ptr_post(a64::x(base), int32_t(16 * N)) : a64::ptr_post(a64::x(base), a64::x(nondet_u8() & 30));
  ops[N] = m;
  InstRWInfo rw;
  Error e = a64::InstInternal::query_rw_info(BaseInst(INST), ops, N + 1, &rw);
  V_ASSERT(e == Error::kOk && rw.op_count() == N + 1, "read/write information is available for the register-list form");
  V_ASSERT(rw.operand(0).consecutive_lead_count() == (N > 1 ? N : 0) || (N == 1 && rw.operand(0).consecutive_lead_count() <= 1), "the first list register leads a run of N consecutive registers");
  for (unsigned i = 1; i < N; i++)
    V_ASSERT(rw.operand(i).has_op_flag(OpRWFlags::kConsecutive) && rw.operand(i).consecutive_lead_count() == 0, "every further list register is flagged as consecutive to its predecessor");
  for (unsigned i = 0; i < N; i++) {
    if (LOAD) V_ASSERT(rw.operand(i).is_write(), "a load writes every register of the list");
    else V_ASSERT(rw.operand(i).is_read() && !rw.operand(i).is_write(), "a store reads every register of the list and writes none");
  }
  const OpRWInfo& mo = rw.operand(N);
  if (LOAD) V_ASSERT(mo.is_read() && !mo.is_write(), "a load reads memory and does not write it");
  else V_ASSERT(mo.is_write(), "a store writes memory");
  V_ASSERT(mo.is_mem_base_read(), "the base register is read");
  if (mode != 0) V_ASSERT(mo.is_mem_base_write(), "write-back addressing writes the base register");
  if (mode == 2) V_ASSERT(mo.is_mem_index_read(), "a register post-index is read");
  verif_observe(rw.operand(0).consecutive_lead_count()); verif_observe(uint32_t(rw.operand(N ? N - 1 : 0).op_flags())); verif_observe(uint32_t(mo.op_flags()));
  V_WITNESS("a64 list rw");
}
HARNESS h_a64rw_ld1_1() { list_case<a64::Inst::kIdLd1_v, true, 1>(); }
HARNESS h_a64rw_ld1_2() { list_case<a64::Inst::kIdLd1_v, true, 2>(); }
HARNESS h_a64rw_ld1_4() { list_case<a64::Inst::kIdLd1_v, true, 4>(); }
HARNESS h_a64rw_ld2() { list_case<a64::Inst::kIdLd2_v, true, 2>(); }
HARNESS h_a64rw_ld3() { list_case<a64::Inst::kIdLd3_v, true, 3>(); }
HARNESS h_a64rw_ld4() { list_case<a64::Inst::kIdLd4_v, true, 4>(); }
HARNESS h_a64rw_ld2r() { list_case<a64::Inst::kIdLd2r_v, true, 2>(); }
HARNESS h_a64rw_st1_2() { list_case<a64::Inst::kIdSt1_v, false, 2>(); }
HARNESS h_a64rw_st2() { list_case<a64::Inst::kIdSt2_v, false, 2>(); }
HARNESS h_a64rw_st3() { list_case<a64::Inst::kIdSt3_v, false, 3>(); }
HARNESS h_a64rw_st4() { list_case<a64::Inst::kIdSt4_v, false, 4>(); }
