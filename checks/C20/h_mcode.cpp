// C20 — the machine-code column and the comment of a logged line (core/emitterutils.cpp finish_formatted_line and log_instruction_emitted,
// String::append_hex / append_chars / pad_end, Formatter::padding_from_options: all real). What is decided: the text that reaches the
// logger is the instruction text, padded, followed by "; " and two hexadecimal digits per byte that was appended to the code buffer, in
// buffer order, with ".." in place of each of the rel_size bytes in front of the imm_size last bytes (a displacement that is still to be
// patched - what the code prints for it), then the comment behind '|' (behind ';' when there is no machine code), then a newline - and
// nothing else. The instruction text itself is a fixed-length token from a harness stub that records what it was asked to print
// (h_x86line.cpp and the operand units decide that text); the number of bytes, the indentation and the paddings are constants per
// harness (they decide text lengths), the bytes, rel_size, imm_size and the format flags are symbolic.
#include <asmjit/x86.h>
#include <asmjit/core/emitterutils_p.h>
#include <asmjit/core/formatter_p.h>
#include <asmjit/core/logger.h>
#include "verif.h"
#include "fmt_match.h"

using namespace asmjit;
using vfmt::Cur; using vfmt::make_string; using vfmt::observe_text;

static uint8_t code_buf[32];
static const char kComment[] = "cmt 1";
constexpr size_t kCommentLen = sizeof(kComment) - 1;

// every loop of this file runs at most 32 times (the unwind bound of the unit is 33: the library's loops over a symbolic byte count run to the bound)
static inline void observe_line(const String& sb) {
  size_t n = sb.size(); verif_observe(n);
  for (size_t a = 0; a < 4; a++) for (size_t b = 0; b < 32; b++) { size_t i = a * 32 + b; if (i < n) verif_observe(uint8_t(sb.data()[i])); }
}

// ---- expectation ----------------------------------------------------------------------------------------------------------
// column P (padding of the regular line), P2 (additional padding of the machine-code column); 0 = the documented defaults 44 / 26
template<unsigned PAD> constexpr size_t col1() { return PAD ? PAD : 44; }
template<unsigned PAD2> constexpr size_t col2() { return PAD2 ? PAD2 : 26; }

static inline void match_spaces_to(Cur& c, size_t col) { for (unsigned k = 0; k < 32 && c.i < col; k++) c.ch(' '); if (c.i < col) c.ok = false; }

// N: bytes appended (NOBIN: machine code not shown); the cursor stands behind the instruction text
constexpr size_t NOBIN = 99;
template<size_t N, unsigned PAD, unsigned PAD2, bool CMT> static inline void match_tail(Cur& c, const uint8_t* bytes, size_t rel, size_t imm) {
  constexpr size_t P = col1<PAD>(), P2 = col2<PAD2>();
  if constexpr (N == NOBIN) {
    if (CMT) { match_spaces_to(c, P); c.lit("; "); c.str(kComment, kCommentLen); }
  }
  else if constexpr (N != 0 || CMT) {
    match_spaces_to(c, P); c.lit("; ");
    for (size_t k = 0; k < N; k++) {
      bool pending = k + imm + rel >= N && k + imm < N;   // one of the rel bytes in front of the imm last bytes
      if (pending) { c.ch('.'); c.ch('.'); }
      else {
        Cur d(c.p + c.i, c.i + 2 <= c.n ? 2 : 0);   // exactly two digits
        uint64_t v = d.uhex<2>();
        if (!(d.ok && d.i == 2 && v == bytes[k])) c.ok = false;
        c.i += 2;
      }
    }
    if (CMT) { match_spaces_to(c, P + P2); c.lit("| "); c.str(kComment, kCommentLen); }
  }
  c.ch('\n');
}

// ---- finish_formatted_line on its own ---------------------------------------------------------------------------------------
// One path per split (REL, IMM) of the N bytes: on each path every length is a constant and only the byte values are symbolic; the harness
// branches over all splits with REL + IMM <= N on symbolic rel / imm (template recursion, no loop).
static bool reached_end;
// PRE: length of the instruction text already in the string
template<size_t N, unsigned PRE, unsigned PAD, unsigned PAD2, bool CMT, size_t REL, size_t IMM> static void column_path(const FormatOptions& fo) {
  String sb; make_string<255>(sb);
  for (unsigned a = 0; a < PRE; a += 16) for (unsigned b = 0; b < 16 && a + b < PRE; b++) vfmt::text_store[a + b] = char('a' + b);
  vfmt::text_store[PRE] = 0; sb._large.size = PRE;
  no_heap::n_calls = 0; no_heap::active = true;
  Error e = EmitterUtils::finish_formatted_line(sb, fo, code_buf, N == NOBIN ? SIZE_MAX : N, REL, IMM, CMT ? kComment : nullptr);
  no_heap::active = false;
  V_ASSERT(e == Error::kOk && no_heap::n_calls == 0, "finishing a formatted line succeeds within the buffer given");
  Cur c(sb.data(), sb.size());
  for (unsigned a = 0; a < PRE; a += 16) for (unsigned b = 0; b < 16 && a + b < PRE; b++) c.ch(char('a' + b));
  match_tail<N, PAD, PAD2, CMT>(c, code_buf, REL, IMM);
  V_ASSERT(c.at_end(), "the line is the instruction text, the bytes appended as hexadecimal pairs with dots for the pending displacement, and the comment");
  observe_line(sb);
  reached_end = true;
}
// ALL: every split with REL + IMM <= N; otherwise the sizes the assemblers pass (displacements of 0, 1, 4 bytes, immediates of 0, 1, 2, 4, 8 bytes)
constexpr size_t kRel[3] = {0, 1, 4};
constexpr size_t kImm[5] = {0, 1, 2, 4, 8};
template<size_t N, unsigned PRE, unsigned PAD, unsigned PAD2, bool CMT, size_t REL, size_t IMM> static void column_split_all(const FormatOptions& fo, size_t rel, size_t imm) {
  constexpr size_t NB = N == NOBIN ? 0 : N;
  if (rel == REL && imm == IMM) column_path<N, PRE, PAD, PAD2, CMT, REL, IMM>(fo);
  else if constexpr (REL + IMM + 1 <= NB) column_split_all<N, PRE, PAD, PAD2, CMT, REL, IMM + 1>(fo, rel, imm);
  else if constexpr (REL + 1 <= NB) column_split_all<N, PRE, PAD, PAD2, CMT, REL + 1, 0>(fo, rel, imm);
  else V_ASSERT(false, "every split of the bytes into opcode, pending displacement and immediate is one of the paths");
}
template<size_t N, unsigned PRE, unsigned PAD, unsigned PAD2, bool CMT, size_t RI, size_t II> static void column_split_usual(const FormatOptions& fo, size_t ri, size_t ii) {
  if constexpr (kRel[RI] + kImm[II] <= N) { if (ri == RI && ii == II) { column_path<N, PRE, PAD, PAD2, CMT, kRel[RI], kImm[II]>(fo); return; } }
  if constexpr (II + 1 < 5) column_split_usual<N, PRE, PAD, PAD2, CMT, RI, II + 1>(fo, ri, ii);
  else if constexpr (RI + 1 < 3) column_split_usual<N, PRE, PAD, PAD2, CMT, RI + 1, 0>(fo, ri, ii);
}
template<size_t N, unsigned PRE, unsigned PAD, unsigned PAD2, bool CMT, bool ALL> static void column_case() {
  constexpr size_t NB = N == NOBIN ? 0 : N;
  for (size_t i = 0; i < NB; i++) code_buf[i] = nondet_u8();
  FormatOptions fo;
  fo._flags = FormatFlags(nondet_u32() & 0x77Fu);
  fo._indentation[FormatIndentationGroup::kCode] = nondet_u8();   // not used by this function
  fo._padding[FormatPaddingGroup::kRegularLine] = uint16_t(PAD);
  fo._padding[FormatPaddingGroup::kMachineCode] = uint16_t(PAD2);
  reached_end = false;
  if constexpr (ALL) {
    size_t rel = 0, imm = 0;
    if (NB) { imm = nondet_u8() & 15; if (imm > NB) imm = NB; rel = nondet_u8() & 15; if (rel > NB - imm) rel = NB - imm; }
    column_split_all<N, PRE, PAD, PAD2, CMT, 0, 0>(fo, rel, imm);
  }
  else {
    size_t ri = nondet_u8() & 3, ii = nondet_u8() & 7;   // combinations that do not fit into N bytes fall through: nothing is called
    column_split_usual<N, PRE, PAD, PAD2, CMT, 0, 0>(fo, ri, ii);
  }
  if (reached_end) V_WITNESS("line finished");
}
HARNESS h_mc_col_n1() { column_case<1, 14, 0, 0, false, true>(); }
HARNESS h_mc_col_n2() { column_case<2, 14, 0, 0, false, true>(); }
HARNESS h_mc_col_n4() { column_case<4, 14, 0, 0, false, true>(); }
HARNESS h_mc_col_n5() { column_case<5, 14, 0, 0, false, true>(); }
HARNESS h_mc_col_n6() { column_case<6, 14, 0, 0, false, true>(); }
HARNESS h_mc_col_n7() { column_case<7, 14, 0, 0, false, false>(); }
HARNESS h_mc_col_n8() { column_case<8, 14, 0, 0, false, false>(); }
HARNESS h_mc_col_n9() { column_case<9, 14, 0, 0, false, false>(); }
HARNESS h_mc_col_n10() { column_case<10, 14, 0, 0, false, false>(); }
HARNESS h_mc_col_n11() { column_case<11, 14, 0, 0, false, false>(); }
HARNESS h_mc_col_n12() { column_case<12, 14, 0, 0, false, false>(); }
HARNESS h_mc_col_n13() { column_case<13, 14, 0, 0, false, false>(); }
HARNESS h_mc_col_n14() { column_case<14, 14, 0, 0, false, false>(); }
HARNESS h_mc_col_n15() { column_case<15, 14, 0, 0, false, false>(); }
HARNESS h_mc_col_n3() { column_case<3, 14, 0, 0, false, true>(); }
HARNESS h_mc_col_n3c() { column_case<3, 14, 0, 0, true, true>(); }
HARNESS h_mc_col_n0c() { column_case<0, 14, 0, 0, true, true>(); }
HARNESS h_mc_col_n0() { column_case<0, 14, 0, 0, false, true>(); }
HARNESS h_mc_col_nobin() { column_case<NOBIN, 14, 0, 0, false, true>(); }
HARNESS h_mc_col_nobinc() { column_case<NOBIN, 14, 0, 0, true, true>(); }
HARNESS h_mc_col_long() { column_case<2, 50, 0, 0, true, false>(); }          // text longer than the padding column: no padding, no truncation
HARNESS h_mc_col_pad() { column_case<2, 10, 20, 12, true, false>(); }        // paddings set by the user

// ---- log_instruction_emitted: from the emitter's state to the text that reaches the logger --------------------------------------
// The assembler object is typed static storage with just the fields the function reads (no constructor: drive the unit); its
// format_instruction hook is a harness stub that records what it was given and appends a fixed token. The logger is a harness subclass
// that keeps what it is handed. IND: indentation of code lines; MC: kMachineCode set.
// The cursor before the instruction (_buffer_ptr) stands at the first byte of code_buf, an array object of its own: the emitted size is the
// pointer difference after - before, and the solver's simplifier folds (&a + N) - &a to N but not (&a + S + N) - (&a + S), which would make
// every length symbolic. _buffer_data designates another object (code_base), so bytes taken from buffer_data() instead of buffer_ptr() show.
template<typename T> union Raw { T v; Raw() noexcept {} ~Raw() noexcept {} };
static Raw<x86::Assembler> asm_store;
static uint8_t code_base[8];

struct SeenInst { int n; uint32_t ff; const BaseEmitter* em; uint32_t arch; uint32_t id; uint32_t opt; uint32_t extra_sig, extra_id; size_t nops; Operand_ ops[6]; };
static SeenInst seen;
static const char kInsn[] = "INSN o0, o1";
constexpr size_t kInsnLen = sizeof(kInsn) - 1;
static Error ASMJIT_CDECL stub_format_instruction(String& sb, FormatFlags ff, const BaseEmitter* em, Arch arch, const BaseInst& inst, Span<const Operand_> operands) noexcept {
  seen.n++; seen.ff = uint32_t(ff); seen.em = em; seen.arch = uint32_t(arch); seen.id = inst.inst_id(); seen.opt = uint32_t(inst.options());
  seen.extra_sig = inst.extra_reg()._signature.bits(); seen.extra_id = inst.extra_reg()._id; seen.nops = operands.size();
  if (operands.size() == 6) {
    for (unsigned i = 0; i < 6; i++) { seen.ops[i]._signature = operands[i]._signature; seen.ops[i]._base_id = operands[i]._base_id; seen.ops[i]._data[0] = operands[i]._data[0]; seen.ops[i]._data[1] = operands[i]._data[1]; }
  }
  return sb.append(kInsn, kInsnLen);
}

struct CapLogger : public Logger {
  int n_logs = 0; size_t size = 0; char text[161];
  Error _log(const char* data, size_t n) noexcept override {
    n_logs++; size = n;
    for (size_t a = 0; a < 160; a += 32) for (size_t b = 0; b < 32; b++) text[a + b] = a + b < n ? data[a + b] : '\0';
    return Error::kOk;
  }
};

static inline Operand_ any_operand() { Operand_ o; o._signature._bits = nondet_u32(); o._base_id = nondet_u32(); o._data[0] = nondet_u32(); o._data[1] = nondet_u32(); return o; }
static inline bool same_operand(const Operand_& a, const Operand_& b) { return a._signature._bits == b._signature._bits && a._base_id == b._base_id && a._data[0] == b._data[0] && a._data[1] == b._data[1]; }

template<size_t N, size_t REL, size_t IMM, unsigned IND, unsigned PAD, unsigned PAD2, bool MC, bool CMT> static void emitted_case() {
  static_assert(REL + IMM <= N && N <= sizeof(code_buf), "sizes");
  for (size_t i = 0; i < sizeof(code_buf); i++) code_buf[i] = nondet_u8();
  for (size_t i = 0; i < sizeof(code_base); i++) code_base[i] = nondet_u8();
  x86::Assembler* a = &asm_store.v;
  CapLogger lg;
  uint32_t flags = (nondet_u32() & 0x77Eu) | (MC ? 1u : 0u);
  lg._options._flags = FormatFlags(flags);
  lg._options._indentation[FormatIndentationGroup::kCode] = uint8_t(IND);
  lg._options._indentation[FormatIndentationGroup::kLabel] = nondet_u8();
  lg._options._indentation[FormatIndentationGroup::kComment] = nondet_u8();
  lg._options._padding[FormatPaddingGroup::kRegularLine] = uint16_t(PAD);
  lg._options._padding[FormatPaddingGroup::kMachineCode] = uint16_t(PAD2);
  a->_logger = &lg;
  a->_funcs.format_instruction = stub_format_instruction;
  a->_buffer_data = code_base; a->_buffer_ptr = code_buf; a->_buffer_end = code_buf + sizeof(code_buf);
  uint32_t arch = nondet_u8(), xsig = nondet_u32(), xid = nondet_u32(), id = nondet_u32(), opt = nondet_u32();
  a->_environment._arch = Arch(arch);
  a->_extra_reg._signature._bits = xsig; a->_extra_reg._id = xid;
  a->_inline_comment = CMT ? kComment : nullptr;
  Operand_ o0 = any_operand(), o1 = any_operand(), o2 = any_operand();
  Operand_ ext[3] = {any_operand(), any_operand(), any_operand()};
  seen.n = 0; seen.nops = 0;

  no_heap::n_calls = 0; no_heap::active = true;
  EmitterUtils::log_instruction_emitted(a, id, InstOptions(opt), o0, o1, o2, ext, uint32_t(REL), uint32_t(IMM), code_buf + N);
  no_heap::active = false;
  V_ASSERT(no_heap::n_calls == 0, "logging an emitted instruction needs no allocation for a line of this size");
  V_ASSERT(seen.n == 1 && seen.nops == 6 && seen.em == a && seen.arch == arch && seen.ff == flags, "the instruction formatter is asked once, with the emitter, its architecture and the logger flags");
  V_ASSERT(seen.id == id && seen.opt == opt && seen.extra_sig == xsig && seen.extra_id == xid, "the instruction formatted is the one emitted: id, options, extra register");
  V_ASSERT(same_operand(seen.ops[0], o0) && same_operand(seen.ops[1], o1) && same_operand(seen.ops[2], o2) && same_operand(seen.ops[3], ext[0]) && same_operand(seen.ops[4], ext[1]) && same_operand(seen.ops[5], ext[2]),
           "the operands formatted are the six operands emitted, in order");
  V_ASSERT(lg.n_logs == 1 && lg.size < 160, "one line reaches the logger");
  V_ASSERT(a->_buffer_ptr == code_buf, "logging does not move the cursor");
  Cur c(lg.text, lg.size);
  for (unsigned k = 0; k < IND; k++) c.ch(' ');
  c.str(kInsn, kInsnLen);
  match_tail<MC ? N : NOBIN, PAD, PAD2, CMT>(c, code_buf, REL, IMM);
  V_ASSERT(c.at_end(), "the logged line is indentation, instruction text, the bytes between the cursor before and after as hexadecimal pairs, and the comment");
  verif_observe(lg.size);
  for (size_t x = 0; x < 160; x += 32) for (size_t y = 0; y < 32; y++) if (x + y < lg.size) verif_observe(uint8_t(lg.text[x + y]));
  V_WITNESS("instruction logged");
}
HARNESS h_mc_emit_n7() { emitted_case<7, 4, 1, 2, 0, 0, true, false>(); }
HARNESS h_mc_emit_n15c() { emitted_case<15, 4, 4, 1, 0, 0, true, true>(); }
HARNESS h_mc_emit_n1() { emitted_case<1, 0, 0, 4, 0, 0, true, false>(); }
HARNESS h_mc_emit_n5pad() { emitted_case<5, 0, 4, 1, 24, 16, true, true>(); }
HARNESS h_mc_emit_nomc() { emitted_case<6, 4, 0, 3, 0, 0, false, false>(); }
HARNESS h_mc_emit_nomcc() { emitted_case<6, 0, 1, 2, 0, 0, false, true>(); }
