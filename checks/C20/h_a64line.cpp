// C20 — AArch64 instruction line assembly (arm/a64formatter.cpp format_instruction: real; arm/armformatter.cpp format_cond_code: real):
// mnemonic, condition suffix, operand list. Operands and the mnemonic are printed by harness stubs as fixed tokens ("O<index>" for the
// operand at that index, "MNEM" for the instruction name); their own text is decided by h_a64fmt.cpp / h_a64mem.cpp / the C13 name harnesses.
// What is decided: the mnemonic looked up is the one of the instruction id with the condition bits removed, the condition carried by the id is
// named behind a '.', with its name in the Arm Architecture Reference Manual (C1.2.4, table C1-1) for the encoding the assembler emits for it,
// every operand up to the first empty one appears once and in order, and nothing else is printed.
#include <asmjit/a64.h>
#include <asmjit/arm/a64formatter_p.h>
#include <asmjit/arm/a64instapi_p.h>
#include <asmjit/core/formatter_p.h>
#include "verif.h"
#include "fmt_match.h"

using namespace asmjit;
using vfmt::Cur; using vfmt::make_string; using vfmt::observe_text;

static Operand_ ops[6];   // static and typed: every slot is assigned field by field in each run
static int n_operand_calls, n_name_calls;
static uint32_t last_name_id;
ASMJIT_BEGIN_SUB_NAMESPACE(arm)
namespace FormatterInternal {
Error ASMJIT_CDECL format_operand(String& sb, FormatFlags, const BaseEmitter*, Arch, const Operand_& op) noexcept {
  n_operand_calls++;
  char d = 'x';
  if (&op == &ops[0]) d = '0'; else if (&op == &ops[1]) d = '1'; else if (&op == &ops[2]) d = '2';
  else if (&op == &ops[3]) d = '3'; else if (&op == &ops[4]) d = '4'; else if (&op == &ops[5]) d = '5';
  char tok[2] = {'O', d};
  return sb.append(tok, 2);
}
}
ASMJIT_END_SUB_NAMESPACE
ASMJIT_BEGIN_SUB_NAMESPACE(a64)
namespace InstInternal {
Error ASMJIT_CDECL inst_id_to_string(InstId inst_id, InstStringifyOptions, String& output) noexcept {
  n_name_calls++; last_name_id = inst_id;
  return output.append("MNEM", 4);
}
}
ASMJIT_END_SUB_NAMESPACE

static inline void set_op(unsigned i, const Operand_& o) {
  ops[i]._signature = o._signature; ops[i]._base_id = o._base_id; ops[i]._data[0] = o._data[0]; ops[i]._data[1] = o._data[1];
}
template<unsigned I, unsigned NOPS> static inline void fill_slot() {
  if constexpr (I >= NOPS) set_op(I, Operand());
  else if constexpr (I == 0 || I == 3) set_op(I, a64::Gp::make_r64(nondet_u8() & 31));
  else if constexpr (I == 1 || I == 4) set_op(I, a64::Mem(a64::Gp::make_r64(nondet_u8() & 31), int32_t(nondet_u16())));
  else set_op(I, Imm(int64_t(nondet_u64())));
}

// Condition names by the 4-bit cond field (Arm ARM table C1-1): 0000 EQ, 0001 NE, 0010 CS or HS, 0011 CC or LO, 0100 MI, 0101 PL, 0110 VS, 0111 VC,
// 1000 HI, 1001 LS, 1010 GE, 1011 LT, 1100 GT, 1101 LE. asmjit's CondCode cc is emitted as field (cc - 2) & 15 (a64assembler.cpp cond_code_to_opcode_field).
static inline void match_cond(Cur& c, uint32_t cc) {
  uint32_t field = (cc - 2u) & 15u;
  static const char n1[14][3] = {"eq", "ne", "cs", "cc", "mi", "pl", "vs", "vc", "hi", "ls", "ge", "lt", "gt", "le"};
  char a = c.peek(); c.i++; char b = c.peek(); c.i++;
  bool ok = field < 14 && a == n1[field][0] && b == n1[field][1];
  if (field == 2 && a == 'h' && b == 's') ok = true;
  if (field == 3 && a == 'l' && b == 'o') ok = true;
  if (!ok) c.ok = false;
}

// NOPS: operands handed over. CCMODE: 0 no condition (AL), 1 a symbolic condition EQ..LE. IDMODE: 0 a fixed valid id, 1 any valid id, 2 an id outside the table or kIdNone.
template<unsigned NOPS, unsigned CCMODE, unsigned IDMODE> static void a64_line_case() {
  fill_slot<0, NOPS>(); fill_slot<1, NOPS>(); fill_slot<2, NOPS>(); fill_slot<3, NOPS>(); fill_slot<4, NOPS>(); fill_slot<5, NOPS>();
  uint32_t cc = 0;
  if (CCMODE == 1) { cc = 2 + (nondet_u8() & 15); if (cc > 15) cc -= 8; }   // 2..15
  uint32_t real_id = a64::Inst::kIdB;
  if (IDMODE == 1) real_id = 1 + nondet_u32() % (uint32_t(a64::Inst::_kIdCount) - 1);
  if (IDMODE == 2) { real_id = uint32_t(a64::Inst::_kIdCount) + nondet_u8(); if (nondet_bool()) real_id = 0; }
  uint32_t id = real_id | (cc << 27);   // InstIdParts::kARM_Cond = 0x78000000
  BaseInst inst(id, InstOptions::kNone);
  FormatFlags ff = FormatFlags(nondet_u32() & 0x77Fu);

  String sb; make_string<255>(sb);
  n_operand_calls = n_name_calls = 0; no_heap::n_calls = 0; no_heap::active = true;
  Error e = a64::FormatterInternal::format_instruction(sb, ff, nullptr, Arch::kAArch64, inst, Span<const Operand_>(ops, 6));
  no_heap::active = false;
  V_ASSERT(e == Error::kOk && no_heap::n_calls == 0, "a64 instruction line formatting succeeds within the buffer given");
  Cur c(sb.data(), sb.size());
  if (IDMODE == 2) {
    V_ASSERT(n_name_calls == 0, "no mnemonic is looked up for an a64 instruction id outside the table");
    c.lit("[InstId=#");
    V_ASSERT(c.udec<4>() == real_id, "the number shown for an unknown a64 instruction id is that id without the condition bits");
    c.ch(']');
  }
  else {
    V_ASSERT(n_name_calls == 1 && last_name_id == real_id, "the a64 mnemonic printed is the one of the instruction id without the condition bits");
    c.lit("MNEM");
  }
  if (CCMODE == 1) { c.ch('.'); match_cond(c, cc); }
  for (unsigned i = 0; i < NOPS; i++) {
    if (i == 0) c.ch(' '); else c.lit(", ");
    c.ch('O'); c.ch(char('0' + i));
  }
  V_ASSERT(n_operand_calls == int(NOPS), "every a64 operand up to the first empty one is printed exactly once");
  V_ASSERT(c.at_end(), "a64 instruction line names exactly the mnemonic, the condition and the operands given");
  observe_text<40>(sb);
  V_WITNESS("a64 line formatted");
}
HARNESS h_a64line_n0() { a64_line_case<0, 0, 0>(); }
HARNESS h_a64line_n1() { a64_line_case<1, 0, 0>(); }
HARNESS h_a64line_n3() { a64_line_case<3, 0, 0>(); }
HARNESS h_a64line_n6() { a64_line_case<6, 0, 0>(); }
HARNESS h_a64line_cc_n0() { a64_line_case<0, 1, 0>(); }
HARNESS h_a64line_cc_n1() { a64_line_case<1, 1, 0>(); }
HARNESS h_a64line_cc_n4() { a64_line_case<4, 1, 0>(); }
HARNESS h_a64line_id() { a64_line_case<0, 0, 1>(); }
HARNESS h_a64line_badid() { a64_line_case<0, 0, 2>(); }
HARNESS h_a64line_badid_cc() { a64_line_case<1, 1, 2>(); }
