// C20 — AArch64 operand formatter (arm/armformatter.cpp format_operand -> format_register, format_shift_op; all real): the text of a
// register operand built through the public operand API (a64::Gp / a64::Vec and their casts) is its name in the Arm Architecture Reference
// Manual (A64: C1.2 register names, C1.2.5 / C7.2 SIMD arrangement specifiers), and the text of an immediate is its value, preceded by
// the shift / extend name it carries. Register kind and arrangement are constants per harness, ids, element indexes, values and format flags
// are symbolic. Names are matched case-insensitively in asmjit's lower case; numbers are parsed back.
#include <asmjit/a64.h>
#include <asmjit/arm/armformatter_p.h>
#include <asmjit/core/formatter_p.h>
#include "verif.h"
#include "fmt_match.h"

using namespace asmjit;
using vfmt::Cur; using vfmt::make_string; using vfmt::observe_text; using vfmt::any_flags;

// ---- registers --------------------------------------------------------------------------------------------------------------------
enum RegKind {
  kW, kX, kB, kH, kS, kD, kQ,                        // Wn Xn Bn Hn Sn Dn Qn
  kV8B, kV16B, kV4H, kV8H, kV2S, kV4S, kV2D, kV2H,   // Vn.8B Vn.16B Vn.4H Vn.8H Vn.2S Vn.4S Vn.2D, and Vn.2H (pairwise half-precision forms)
  kEB, kEH, kES, kED, kE4B, kE2H                     // Vn.B[i] Vn.H[i] Vn.S[i] Vn.D[i], Vn.4B[i] Vn.2H[i] (dot product / fmlal by element)
};
template<RegKind K> constexpr bool is_gp() { return K == kW || K == kX; }
template<RegKind K> constexpr bool is_element() { return K >= kEB; }
template<RegKind K> constexpr uint32_t lane_count() { return K == kEB ? 16 : K == kEH ? 8 : K == kES ? 4 : K == kED ? 2 : K == kE4B ? 4 : K == kE2H ? 4 : 0; }

// The operand handed to the formatter is a typed static that is written field by field: a struct copy is a 16-byte memcpy for the solver, after
// which the operand type is no longer a constant and every branch of format_operand (register list loops included) is explored.
static Operand_ g_op;
static inline void put(const Operand_& src) { g_op._signature = src._signature; g_op._base_id = src._base_id; g_op._data[0] = src._data[0]; g_op._data[1] = src._data[1]; }
template<RegKind K> static inline void make_reg(uint32_t id, uint32_t idx) {
  a64::Vec v = a64::Vec::make_v128(id);
  if constexpr (K == kW) put(a64::Gp::make_r32(id));
  else if constexpr (K == kX) put(a64::Gp::make_r64(id));
  else if constexpr (K == kB) put(v.b());
  else if constexpr (K == kH) put(v.h());
  else if constexpr (K == kS) put(v.s());
  else if constexpr (K == kD) put(v.d());
  else if constexpr (K == kQ) put(v.q());
  else if constexpr (K == kV8B) put(v.b8());
  else if constexpr (K == kV16B) put(v.b16());
  else if constexpr (K == kV4H) put(v.h4());
  else if constexpr (K == kV8H) put(v.h8());
  else if constexpr (K == kV2S) put(v.s2());
  else if constexpr (K == kV4S) put(v.s4());
  else if constexpr (K == kV2D) put(v.d2());
  else if constexpr (K == kV2H) put(v.h2());
  else if constexpr (K == kEB) put(v.b(idx));
  else if constexpr (K == kEH) put(v.h(idx));
  else if constexpr (K == kES) put(v.s(idx));
  else if constexpr (K == kED) put(v.d(idx));
  else if constexpr (K == kE4B) put(v.b4(idx));
  else put(v.h2(idx));
}

// the arrangement / element suffix behind "v<id>"
template<RegKind K> static inline void match_suffix(Cur& c, uint32_t idx) {
  if constexpr (K == kV8B) c.lit(".8b");
  if constexpr (K == kV16B) c.lit(".16b");
  if constexpr (K == kV4H) c.lit(".4h");
  if constexpr (K == kV8H) c.lit(".8h");
  if constexpr (K == kV2S) c.lit(".2s");
  if constexpr (K == kV4S) c.lit(".4s");
  if constexpr (K == kV2D) c.lit(".2d");
  if constexpr (K == kV2H) c.lit(".2h");
  if constexpr (is_element<K>()) {
    // Vn.T[i]; the manual writes the element size only (V1.H[3]) and, for the grouped forms, the group (V1.4B[1], V1.2H[1]). A lane count of
    // the full 128-bit arrangement in front of the size letter (v1.8h[3]) names the same lanes and is accepted.
    c.ch('.');
    constexpr uint32_t full = K == kEB ? 16 : K == kEH ? 8 : K == kES ? 4 : K == kED ? 2 : 0;
    if constexpr (K == kE4B) c.ch('4'); else if constexpr (K == kE2H) c.ch('2');
    else { char p = c.peek(); if (p >= '0' && p <= '9') { if (c.udec<2>() != full) c.ok = false; } }
    c.ch(K == kEB || K == kE4B ? 'b' : K == kEH || K == kE2H ? 'h' : K == kES ? 's' : 'd');
    c.ch('[');
    if (c.udec<2>() != idx) c.ok = false;
    c.ch(']');
  }
}

// one path per element index (the index is part of the operand signature: a symbolic signature makes format_operand explore every operand
// kind); the register id is symbolic on every path
static bool reached_reg;
template<RegKind K, uint32_t IDX> static void a64_reg_path(uint32_t id) {
  make_reg<K>(id, IDX);
  String sb; make_string<255>(sb);
  no_heap::n_calls = 0; no_heap::active = true;
  Error e = arm::FormatterInternal::format_operand(sb, any_flags(), nullptr, Arch::kAArch64, g_op);
  no_heap::active = false;
  V_ASSERT(e == Error::kOk && no_heap::n_calls == 0, "a64 register formatting succeeds within the buffer given");
  Cur c(sb.data(), sb.size());
  c.ch(K == kW ? 'w' : K == kX ? 'x' : K == kB ? 'b' : K == kH ? 'h' : K == kS ? 's' : K == kD ? 'd' : K == kQ ? 'q' : 'v');
  if (c.udec<2>() != id) c.ok = false;
  match_suffix<K>(c, IDX);
  V_ASSERT(c.at_end(), "a64 register text is the architectural name of the register, its arrangement and its element");
  observe_text<16>(sb);
  reached_reg = true;
}
// through format_operand the last element of the vector is decided; every index is decided on format_register itself (a64_elem_case)
template<RegKind K> static void a64_reg_case() {
  uint32_t id = nondet_u8() & 31;
  if (is_gp<K>() && id == 31) id = 30;   // 31 is the stack pointer, 63 the zero register: h_a64reg_special
  reached_reg = false;
  if constexpr (is_element<K>()) a64_reg_path<K, lane_count<K>() - 1>(id);
  else a64_reg_path<K, 0>(id);
  if (reached_reg) V_WITNESS("a64 reg formatted");
}
HARNESS h_a64reg_w() { a64_reg_case<kW>(); }
HARNESS h_a64reg_x() { a64_reg_case<kX>(); }
HARNESS h_a64reg_b() { a64_reg_case<kB>(); }
HARNESS h_a64reg_h() { a64_reg_case<kH>(); }
HARNESS h_a64reg_s() { a64_reg_case<kS>(); }
HARNESS h_a64reg_d() { a64_reg_case<kD>(); }
HARNESS h_a64reg_q() { a64_reg_case<kQ>(); }
HARNESS h_a64reg_v8b() { a64_reg_case<kV8B>(); }
HARNESS h_a64reg_v16b() { a64_reg_case<kV16B>(); }
// Vn.4H or Vn.2H; with known finding C20B open (Vn.2H is shown as vN.8h) the .2H form is left to the companion harness below
HARNESS h_a64reg_v4h() {
  uint32_t id = nondet_u8() & 31;
  bool two = nondet_bool();
#if KF_C20B
  two = false;
#endif
  reached_reg = false;
  if (two) a64_reg_path<kV2H, 0>(id); else a64_reg_path<kV4H, 0>(id);
  if (reached_reg) V_WITNESS("a64 reg formatted");
}
HARNESS h_a64reg_v8h() { a64_reg_case<kV8H>(); }
HARNESS h_a64reg_v2s() { a64_reg_case<kV2S>(); }
HARNESS h_a64reg_v4s() { a64_reg_case<kV4S>(); }
HARNESS h_a64reg_v2d() { a64_reg_case<kV2D>(); }
HARNESS h_a64reg_v2h_kf_C20B() { a64_reg_case<kV2H>(); }   // known finding C20B: Vn.2H is shown as vN.8h
// format_register itself: element type constant, register id and element index symbolic (they are plain arguments here, not signature fields)
template<RegKind K> static void a64_elem_case() {
  uint32_t id = nondet_u8() & 31, idx = nondet_u8() & (lane_count<K>() - 1);
  constexpr uint32_t ET = K == kEB ? uint32_t(a64::VecElementType::kB) : K == kEH ? uint32_t(a64::VecElementType::kH) : K == kES ? uint32_t(a64::VecElementType::kS) :
                          K == kED ? uint32_t(a64::VecElementType::kD) : K == kE4B ? uint32_t(a64::VecElementType::kB4) : uint32_t(a64::VecElementType::kH2);
  String sb; make_string<255>(sb);
  no_heap::n_calls = 0; no_heap::active = true;
  Error e = arm::FormatterInternal::format_register(sb, any_flags(), nullptr, Arch::kAArch64, RegType::kVec128, id, ET, idx);
  no_heap::active = false;
  V_ASSERT(e == Error::kOk && no_heap::n_calls == 0, "a64 element formatting succeeds within the buffer given");
  Cur c(sb.data(), sb.size());
  c.ch('v');
  if (c.udec<2>() != id) c.ok = false;
  match_suffix<K>(c, idx);
  V_ASSERT(c.at_end(), "a64 element text is the vector register, the element size and the element index");
  observe_text<16>(sb);
  V_WITNESS("a64 element formatted");
}
HARNESS h_a64elem_b() { a64_elem_case<kEB>(); }
HARNESS h_a64elem_h() { a64_elem_case<kEH>(); }
HARNESS h_a64elem_s() { a64_elem_case<kES>(); }
HARNESS h_a64elem_d() { a64_elem_case<kED>(); }
HARNESS h_a64elem_4b() { a64_elem_case<kE4B>(); }
HARNESS h_a64elem_2h() { a64_elem_case<kE2H>(); }
HARNESS h_a64reg_eb() { a64_reg_case<kEB>(); }
HARNESS h_a64reg_eh() { a64_reg_case<kEH>(); }
HARNESS h_a64reg_es() { a64_reg_case<kES>(); }
HARNESS h_a64reg_ed() { a64_reg_case<kED>(); }
HARNESS h_a64reg_e4b() { a64_reg_case<kE4B>(); }
HARNESS h_a64reg_e2h() { a64_reg_case<kE2H>(); }

// WSP / SP (id 31) and WZR / XZR (asmjit's id 63)
template<bool X, bool ZR> static void a64_special_case() {
  if (X) put(a64::Gp::make_r64(ZR ? 63u : 31u)); else put(a64::Gp::make_r32(ZR ? 63u : 31u));
  String sb; make_string<255>(sb);
  no_heap::n_calls = 0; no_heap::active = true;
  Error e = arm::FormatterInternal::format_operand(sb, any_flags(), nullptr, Arch::kAArch64, g_op);
  no_heap::active = false;
  V_ASSERT(e == Error::kOk && no_heap::n_calls == 0, "a64 special register formatting succeeds within the buffer given");
  Cur c(sb.data(), sb.size());
  if (ZR) { c.ch(X ? 'x' : 'w'); c.lit("zr"); }
  else { if (!X) c.ch('w'); c.lit("sp"); }
  V_ASSERT(c.at_end(), "stack pointer and zero register are shown as sp, wsp, xzr, wzr");
  observe_text<8>(sb);
  V_WITNESS("a64 special reg formatted");
}
HARNESS h_a64reg_sp() { a64_special_case<true, false>(); }
HARNESS h_a64reg_wsp() { a64_special_case<false, false>(); }
HARNESS h_a64reg_xzr() { a64_special_case<true, true>(); }
HARNESS h_a64reg_wzr() { a64_special_case<false, true>(); }

// the names of the shift / extend modifiers on their own (format_shift_op), every value of the 4-bit field
HARNESS h_a64_shift_names() {
  uint32_t op = nondet_u8() & 15;
  String sb; make_string<255>(sb);
  no_heap::n_calls = 0; no_heap::active = true;
  Error e = arm::FormatterInternal::format_shift_op(sb, arm::ShiftOp(op));
  no_heap::active = false;
  V_ASSERT(e == Error::kOk && no_heap::n_calls == 0, "a64 modifier name formatting succeeds within the buffer given");
  static const char names[14][5] = {"lsl", "lsr", "asr", "ror", "rrx", "msl", "uxtb", "uxth", "uxtw", "uxtx", "sxtb", "sxth", "sxtw", "sxtx"};
  Cur c(sb.data(), sb.size());
  if (op < 14) { for (unsigned k = 0; k < 4 && names[op][k]; k++) c.ch(names[op][k]); V_ASSERT(c.at_end(), "a shift or extend modifier is shown by its mnemonic"); }
  else V_ASSERT(sb.size() != 0, "an undefined modifier value is shown as something");
  observe_text<12>(sb);
  V_WITNESS("a64 modifier named");
}

// ---- immediates and shift / extend modifiers -----------------------------------------------------------------------------------------
// OP: the modifier the immediate carries (asmjit: the predicate of the Imm; 0 is LSL and also "no modifier")
template<uint32_t OP> static inline void match_shift_name(Cur& c) {
  if constexpr (OP == uint32_t(arm::ShiftOp::kLSL)) c.lit("lsl");
  if constexpr (OP == uint32_t(arm::ShiftOp::kLSR)) c.lit("lsr");
  if constexpr (OP == uint32_t(arm::ShiftOp::kASR)) c.lit("asr");
  if constexpr (OP == uint32_t(arm::ShiftOp::kROR)) c.lit("ror");
  if constexpr (OP == uint32_t(arm::ShiftOp::kRRX)) c.lit("rrx");
  if constexpr (OP == uint32_t(arm::ShiftOp::kMSL)) c.lit("msl");
  if constexpr (OP == uint32_t(arm::ShiftOp::kUXTB)) c.lit("uxtb");
  if constexpr (OP == uint32_t(arm::ShiftOp::kUXTH)) c.lit("uxth");
  if constexpr (OP == uint32_t(arm::ShiftOp::kUXTW)) c.lit("uxtw");
  if constexpr (OP == uint32_t(arm::ShiftOp::kUXTX)) c.lit("uxtx");
  if constexpr (OP == uint32_t(arm::ShiftOp::kSXTB)) c.lit("sxtb");
  if constexpr (OP == uint32_t(arm::ShiftOp::kSXTH)) c.lit("sxth");
  if constexpr (OP == uint32_t(arm::ShiftOp::kSXTW)) c.lit("sxtw");
  if constexpr (OP == uint32_t(arm::ShiftOp::kSXTX)) c.lit("sxtx");
}
// FIXED: 0 a symbolic value, otherwise that value (the number formatting is the same code for every modifier: it is decided on symbolic values once)
template<uint32_t OP, unsigned BITS, unsigned MAXDEC, int64_t FIXED = 0> static void a64_imm_case() {
  int64_t v = FIXED ? FIXED : int64_t(nondet_u64());
  FormatFlags ff = any_flags();
  bool hex = Support::test(ff, FormatFlags::kHexImms);
  if (!(hex && uint64_t(v) > 9)) V_ASSUME(v >= -(int64_t(1) << BITS) && v < (int64_t(1) << BITS));
  { Imm imm(v); imm.set_predicate(OP); put(imm); }
  String sb; make_string<255>(sb);
  no_heap::n_calls = 0; no_heap::active = true;
  Error e = arm::FormatterInternal::format_operand(sb, ff, nullptr, Arch::kAArch64, g_op);
  no_heap::active = false;
  V_ASSERT(e == Error::kOk && no_heap::n_calls == 0, "a64 immediate formatting succeeds within the buffer given");
  Cur c(sb.data(), sb.size());
  if (OP != 0) { match_shift_name<OP>(c); c.ch(' '); }
  if (hex && uint64_t(v) > 9) {
    c.lit("0x");
    V_ASSERT(c.uhex<16>() == uint64_t(v) && c.at_end(), "a64 hexadecimal immediate parses back to the value behind its modifier name");
    V_WITNESS("a64 imm hex");
  }
  else {
    bool neg = v < 0;
    if (neg) c.ch('-');
    uint64_t mag = neg ? uint64_t(0) - uint64_t(v) : uint64_t(v);
    V_ASSERT(c.udec<MAXDEC>() == mag && c.at_end(), "a64 decimal immediate parses back to the value behind its modifier name");
    V_WITNESS("a64 imm dec");
  }
  observe_text<24>(sb);
}
HARNESS h_a64imm_plain() { a64_imm_case<0, 12, 4>(); }
HARNESS h_a64imm_asr() { a64_imm_case<2, 6, 2, 63>(); }
HARNESS h_a64imm_sxtw() { a64_imm_case<12, 6, 2, 3>(); }
HARNESS h_a64imm_lsr_neg() { a64_imm_case<1, 6, 2, -7>(); }
