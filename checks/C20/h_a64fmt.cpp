// C20 — AArch64 operand formatter (arm/armformatter.cpp format_operand -> format_register, format_shift_op; all real): the text of a
// register operand built through the public operand API (a64::Gp / a64::Vec and their casts) is its name in the Arm Architecture Reference
// Manual (A64: C1.2 register names, C1.2.5 / C7.2 SIMD arrangement specifiers), and the text of an immediate is its value, preceded by
// the shift / extend name it carries. Register kind and arrangement are constants per harness, ids, element indexes, values and format flags
// are symbolic. Names are matched case-insensitively in asmjit's lower case; numbers are parsed back.
#include <asmjit/a64.h>
#include <asmjit/arm/armformatter_p.h>
#include <asmjit/core/formatter_p.h>
#include "verif.h"
#include "fmt_match.h"

using namespace asmjit;
using vfmt::Cur; using vfmt::make_string; using vfmt::observe_text; using vfmt::any_flags;

// ---- registers --------------------------------------------------------------------------------------------------------------------
enum RegKind {
  kW, kX, kB, kH, kS, kD, kQ,                        // Wn Xn Bn Hn Sn Dn Qn
  kV8B, kV16B, kV4H, kV8H, kV2S, kV4S, kV2D, kV2H,   // Vn.8B Vn.16B Vn.4H Vn.8H Vn.2S Vn.4S Vn.2D, and Vn.2H (pairwise half-precision forms)
  kEB, kEH, kES, kED, kE4B, kE2H                     // Vn.B[i] Vn.H[i] Vn.S[i] Vn.D[i], Vn.4B[i] Vn.2H[i] (dot product / fmlal by element)
};
template<RegKind K> constexpr bool is_gp() { return K == kW || K == kX; }
template<RegKind K> constexpr bool is_element() { return K >= kEB; }
template<RegKind K> constexpr uint32_t lane_count() { return K == kEB ? 16 : K == kEH ? 8 : K == kES ? 4 : K == kED ? 2 : K == kE4B ? 4 : K == kE2H ? 4 : 0; }

template<RegKind K> static inline Operand make_reg(uint32_t id, uint32_t idx) {
  a64::Vec v = a64::Vec::make_v128(id);
  if constexpr (K == kW) return a64::Gp::make_r32(id);
  else if constexpr (K == kX) return a64::Gp::make_r64(id);
  else if constexpr (K == kB) return v.b();
  else if constexpr (K == kH) return v.h();
  else if constexpr (K == kS) return v.s();
  else if constexpr (K == kD) return v.d();
  else if constexpr (K == kQ) return v.q();
  else if constexpr (K == kV8B) return v.b8();
  else if constexpr (K == kV16B) return v.b16();
  else if constexpr (K == kV4H) return v.h4();
  else if constexpr (K == kV8H) return v.h8();
  else if constexpr (K == kV2S) return v.s2();
  else if constexpr (K == kV4S) return v.s4();
  else if constexpr (K == kV2D) return v.d2();
  else if constexpr (K == kV2H) return v.h2();
  else if constexpr (K == kEB) return v.b(idx);
  else if constexpr (K == kEH) return v.h(idx);
  else if constexpr (K == kES) return v.s(idx);
  else if constexpr (K == kED) return v.d(idx);
  else if constexpr (K == kE4B) return v.b4(idx);
  else return v.h2(idx);
}

// the arrangement / element suffix behind "v<id>"
template<RegKind K> static inline void match_suffix(Cur& c, uint32_t idx) {
  if constexpr (K == kV8B) c.lit(".8b");
  if constexpr (K == kV16B) c.lit(".16b");
  if constexpr (K == kV4H) c.lit(".4h");
  if constexpr (K == kV8H) c.lit(".8h");
  if constexpr (K == kV2S) c.lit(".2s");
  if constexpr (K == kV4S) c.lit(".4s");
  if constexpr (K == kV2D) c.lit(".2d");
  if constexpr (K == kV2H) c.lit(".2h");
  if constexpr (is_element<K>()) {
    // Vn.T[i]; the manual writes the element size only (V1.H[3]) and, for the grouped forms, the group (V1.4B[1], V1.2H[1]). A lane count of
    // the full 128-bit arrangement in front of the size letter (v1.8h[3]) names the same lanes and is accepted.
    c.ch('.');
    constexpr uint32_t full = K == kEB ? 16 : K == kEH ? 8 : K == kES ? 4 : K == kED ? 2 : 0;
    if constexpr (K == kE4B) c.ch('4'); else if constexpr (K == kE2H) c.ch('2');
    else { char p = c.peek(); if (p >= '0' && p <= '9') { if (c.udec<2>() != full) c.ok = false; } }
    c.ch(K == kEB || K == kE4B ? 'b' : K == kEH || K == kE2H ? 'h' : K == kES ? 's' : 'd');
    c.ch('[');
    if (c.udec<2>() != idx) c.ok = false;
    c.ch(']');
  }
}

template<RegKind K> static void a64_reg_case() {
  uint32_t id = nondet_u8() & 31;
  if (is_gp<K>() && id == 31) id = 30;   // 31 is the stack pointer, 63 the zero register: h_a64reg_special
  uint32_t idx = 0;
  if (is_element<K>()) { idx = nondet_u8() & 15; if (idx >= lane_count<K>()) idx &= lane_count<K>() - 1; }
  Operand op = make_reg<K>(id, idx);
  String sb; make_string<255>(sb);
  no_heap::n_calls = 0; no_heap::active = true;
  Error e = arm::FormatterInternal::format_operand(sb, any_flags(), nullptr, Arch::kAArch64, op);
  no_heap::active = false;
  V_ASSERT(e == Error::kOk && no_heap::n_calls == 0, "a64 register formatting succeeds within the buffer given");
  Cur c(sb.data(), sb.size());
  c.ch(K == kW ? 'w' : K == kX ? 'x' : K == kB ? 'b' : K == kH ? 'h' : K == kS ? 's' : K == kD ? 'd' : K == kQ ? 'q' : 'v');
  if (c.udec<2>() != id) c.ok = false;
  match_suffix<K>(c, idx);
  V_ASSERT(c.at_end(), "a64 register text is the architectural name of the register, its arrangement and its element");
  observe_text<16>(sb);
  V_WITNESS("a64 reg formatted");
}
HARNESS h_a64reg_w() { a64_reg_case<kW>(); }
HARNESS h_a64reg_x() { a64_reg_case<kX>(); }
HARNESS h_a64reg_b() { a64_reg_case<kB>(); }
HARNESS h_a64reg_h() { a64_reg_case<kH>(); }
HARNESS h_a64reg_s() { a64_reg_case<kS>(); }
HARNESS h_a64reg_d() { a64_reg_case<kD>(); }
HARNESS h_a64reg_q() { a64_reg_case<kQ>(); }
HARNESS h_a64reg_v8b() { a64_reg_case<kV8B>(); }
HARNESS h_a64reg_v16b() { a64_reg_case<kV16B>(); }
HARNESS h_a64reg_v4h() { a64_reg_case<kV4H>(); }
HARNESS h_a64reg_v8h() { a64_reg_case<kV8H>(); }
HARNESS h_a64reg_v2s() { a64_reg_case<kV2S>(); }
HARNESS h_a64reg_v4s() { a64_reg_case<kV4S>(); }
HARNESS h_a64reg_v2d() { a64_reg_case<kV2D>(); }
HARNESS h_a64reg_v2h_kf_C20B() { a64_reg_case<kV2H>(); }   // known finding C20B: Vn.2H is shown as vN.8h
HARNESS h_a64reg_eb() { a64_reg_case<kEB>(); }
HARNESS h_a64reg_eh() { a64_reg_case<kEH>(); }
HARNESS h_a64reg_es() { a64_reg_case<kES>(); }
HARNESS h_a64reg_ed() { a64_reg_case<kED>(); }
HARNESS h_a64reg_e4b() { a64_reg_case<kE4B>(); }
HARNESS h_a64reg_e2h() { a64_reg_case<kE2H>(); }

// WSP / SP (id 31) and WZR / XZR (asmjit's id 63)
HARNESS h_a64reg_special() {
  bool x = nondet_bool(), zr = nondet_bool();
  uint32_t id = zr ? 63u : 31u;
  Operand op = x ? Operand(a64::Gp::make_r64(id)) : Operand(a64::Gp::make_r32(id));
  String sb; make_string<255>(sb);
  no_heap::n_calls = 0; no_heap::active = true;
  Error e = arm::FormatterInternal::format_operand(sb, any_flags(), nullptr, Arch::kAArch64, op);
  no_heap::active = false;
  V_ASSERT(e == Error::kOk && no_heap::n_calls == 0, "a64 special register formatting succeeds within the buffer given");
  Cur c(sb.data(), sb.size());
  if (zr) { c.ch(x ? 'x' : 'w'); c.lit("zr"); }
  else { if (!x) c.ch('w'); c.lit("sp"); }
  V_ASSERT(c.at_end(), "stack pointer and zero register are shown as sp, wsp, xzr, wzr");
  observe_text<8>(sb);
  V_WITNESS("a64 special reg formatted");
}

// ---- immediates and shift / extend modifiers -----------------------------------------------------------------------------------------
// OP: the modifier the immediate carries (asmjit: the predicate of the Imm; 0 is LSL and also "no modifier")
template<uint32_t OP> static inline void match_shift_name(Cur& c) {
  if constexpr (OP == uint32_t(arm::ShiftOp::kLSL)) c.lit("lsl");
  if constexpr (OP == uint32_t(arm::ShiftOp::kLSR)) c.lit("lsr");
  if constexpr (OP == uint32_t(arm::ShiftOp::kASR)) c.lit("asr");
  if constexpr (OP == uint32_t(arm::ShiftOp::kROR)) c.lit("ror");
  if constexpr (OP == uint32_t(arm::ShiftOp::kRRX)) c.lit("rrx");
  if constexpr (OP == uint32_t(arm::ShiftOp::kMSL)) c.lit("msl");
  if constexpr (OP == uint32_t(arm::ShiftOp::kUXTB)) c.lit("uxtb");
  if constexpr (OP == uint32_t(arm::ShiftOp::kUXTH)) c.lit("uxth");
  if constexpr (OP == uint32_t(arm::ShiftOp::kUXTW)) c.lit("uxtw");
  if constexpr (OP == uint32_t(arm::ShiftOp::kUXTX)) c.lit("uxtx");
  if constexpr (OP == uint32_t(arm::ShiftOp::kSXTB)) c.lit("sxtb");
  if constexpr (OP == uint32_t(arm::ShiftOp::kSXTH)) c.lit("sxth");
  if constexpr (OP == uint32_t(arm::ShiftOp::kSXTW)) c.lit("sxtw");
  if constexpr (OP == uint32_t(arm::ShiftOp::kSXTX)) c.lit("sxtx");
}
template<uint32_t OP, unsigned BITS, unsigned MAXDEC> static void a64_imm_case() {
  int64_t v = int64_t(nondet_u64());
  FormatFlags ff = any_flags();
  bool hex = Support::test(ff, FormatFlags::kHexImms);
  if (!(hex && uint64_t(v) > 9)) V_ASSUME(v >= -(int64_t(1) << BITS) && v < (int64_t(1) << BITS));
  Imm imm(v); imm.set_predicate(OP);
  String sb; make_string<255>(sb);
  no_heap::n_calls = 0; no_heap::active = true;
  Error e = arm::FormatterInternal::format_operand(sb, ff, nullptr, Arch::kAArch64, imm);
  no_heap::active = false;
  V_ASSERT(e == Error::kOk && no_heap::n_calls == 0, "a64 immediate formatting succeeds within the buffer given");
  Cur c(sb.data(), sb.size());
  if (OP != 0) { match_shift_name<OP>(c); c.ch(' '); }
  if (hex && uint64_t(v) > 9) {
    c.lit("0x");
    V_ASSERT(c.uhex<16>() == uint64_t(v) && c.at_end(), "a64 hexadecimal immediate parses back to the value behind its modifier name");
    V_WITNESS("a64 imm hex");
  }
  else {
    bool neg = v < 0;
    if (neg) c.ch('-');
    uint64_t mag = neg ? uint64_t(0) - uint64_t(v) : uint64_t(v);
    V_ASSERT(c.udec<MAXDEC>() == mag && c.at_end(), "a64 decimal immediate parses back to the value behind its modifier name");
    V_WITNESS("a64 imm dec");
  }
  observe_text<24>(sb);
}
HARNESS h_a64imm_plain() { a64_imm_case<0, 12, 4>(); }
HARNESS h_a64imm_lsr() { a64_imm_case<1, 6, 2>(); }
HARNESS h_a64imm_asr() { a64_imm_case<2, 6, 2>(); }
HARNESS h_a64imm_ror() { a64_imm_case<3, 6, 2>(); }
HARNESS h_a64imm_rrx() { a64_imm_case<4, 6, 2>(); }
HARNESS h_a64imm_msl() { a64_imm_case<5, 6, 2>(); }
HARNESS h_a64imm_uxtb() { a64_imm_case<6, 6, 2>(); }
HARNESS h_a64imm_uxth() { a64_imm_case<7, 6, 2>(); }
HARNESS h_a64imm_uxtw() { a64_imm_case<8, 6, 2>(); }
HARNESS h_a64imm_uxtx() { a64_imm_case<9, 6, 2>(); }
HARNESS h_a64imm_sxtb() { a64_imm_case<10, 6, 2>(); }
HARNESS h_a64imm_sxth() { a64_imm_case<11, 6, 2>(); }
HARNESS h_a64imm_sxtw() { a64_imm_case<12, 6, 2>(); }
HARNESS h_a64imm_sxtx() { a64_imm_case<13, 6, 2>(); }
