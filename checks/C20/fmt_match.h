// C20 — a matcher over the text the formatter produced. The oracle never renders with asmjit's own tables: register names come from the
// architecture manuals (written out below), numbers are parsed back digit by digit, punctuation is matched literally. Spaces between
// tokens are not part of the property and are skipped on request (sp()).
#pragma once
#include <asmjit/core.h>
#include "verif.h"
#include "no_heap.h"

namespace vfmt {
using namespace asmjit;

struct Cur {
  const char* p; size_t n; size_t i; bool ok;
  Cur(const char* p_, size_t n_) : p(p_), n(n_), i(0), ok(true) {}
  inline char peek() const { return i < n ? p[i] : '\0'; }
  inline void sp() { for (unsigned k = 0; k < 4 && i < n && p[i] == ' '; k++) i++; }
  // the cursor always advances (it stays a constant for the solver as long as the lengths before it are constants); a mismatch is recorded
  inline void ch(char c) { if (!(i < n && p[i] == c)) ok = false; i++; }
  template<size_t N> inline void lit(const char (&s)[N]) { for (size_t k = 0; k + 1 < N; k++) ch(s[k]); }
  inline void str(const char* s, size_t len) { for (size_t k = 0; k < len; k++) ch(s[k]); }
  inline bool at_end() const { return ok && i == n; }
  // unsigned decimal without superfluous leading zeros; at most MAXD digits
  template<unsigned MAXD> inline uint64_t udec() {
    uint64_t v = 0; unsigned d = 0; bool lead0 = false;
    for (unsigned k = 0; k < MAXD; k++) {
      char c = peek();
      if (c < '0' || c > '9') break;
      if (d == 0 && c == '0') lead0 = true;
      v = v * 10u + uint64_t(c - '0'); d++; i++;
    }
    if (d == 0 || (lead0 && d > 1)) ok = false;
    char c = peek(); if (c >= '0' && c <= '9') ok = false;
    return v;
  }
  template<unsigned MAXD> inline uint64_t uhex() {
    uint64_t v = 0; unsigned d = 0;
    for (unsigned k = 0; k < MAXD; k++) {
      char c = peek(); unsigned x;
      if (c >= '0' && c <= '9') x = unsigned(c - '0');
      else if (c >= 'A' && c <= 'F') x = unsigned(c - 'A') + 10;
      else if (c >= 'a' && c <= 'f') x = unsigned(c - 'a') + 10;
      else break;
      v = (v << 4) | x; d++; i++;
    }
    if (d == 0) ok = false;
    return v;
  }
};

// only the text itself is observed (what follows the terminator in the embedded buffer is unspecified)
template<size_t MAX> static inline void observe_text(const String& sb) {
  size_t n = sb.size(); verif_observe(n);
  for (size_t i = 0; i < MAX && i < n; i++) verif_observe(uint8_t(sb.data()[i]));
}

// The string the formatter writes into: external storage in its own static byte array (a StringTmp keeps the characters inside the
// String object, next to the pointer that designates them, which the solver then has to consider as a possible target of every write).
static char text_store[256];
template<size_t CAP> static inline void make_string(String& sb) {
  static_assert(CAP < sizeof(text_store), "capacity");
  sb._large.type = String::kTypeExternal; sb._large.size = 0; sb._large.capacity = CAP; sb._large.data = text_store; text_store[0] = 0;
}

static inline FormatFlags any_flags() {
  // every defined flag bit except kRegType/kRegCasts/kPositions/kMachineCode matter to operands; all of them are symbolic here
  return FormatFlags(nondet_u32() & 0x77Fu);
}

// ---- numbers as the operand formatter prints them ------------------------------------------------------------------------
// magnitude `mag` printed either as decimal or, when hex was requested and mag > 9, as 0x<hex>
template<unsigned MAXDEC> static inline void match_number(Cur& c, uint64_t mag, bool hex_requested) {
  if (hex_requested && mag > 9) {
    c.lit("0x");
    uint64_t v = c.uhex<16>();
    if (v != mag) c.ok = false;
  }
  else {
    uint64_t v = c.udec<MAXDEC>();
    if (v != mag) c.ok = false;
  }
}

// number < 100 as decimal digits, no division
static inline size_t put_u2(char* o, uint32_t v) {
  uint32_t t = v >= 90 ? 9 : v >= 80 ? 8 : v >= 70 ? 7 : v >= 60 ? 6 : v >= 50 ? 5 : v >= 40 ? 4 : v >= 30 ? 3 : v >= 20 ? 2 : v >= 10 ? 1 : 0;
  size_t k = 0;
  if (t) o[k++] = char('0' + t);
  o[k++] = char('0' + (v - t * 10));
  return k;
}

// ---- x86 register names (Intel SDM vol.1 3.4 / 3.7.2.1, APX r16-r31 naming) -------------------------------------------
static const char x86_gp64[8][4] = {"rax", "rcx", "rdx", "rbx", "rsp", "rbp", "rsi", "rdi"};
static const char x86_gp32[8][4] = {"eax", "ecx", "edx", "ebx", "esp", "ebp", "esi", "edi"};
static const char x86_gp16[8][4] = {"ax", "cx", "dx", "bx", "sp", "bp", "si", "di"};
static const char x86_gp8lo[8][4] = {"al", "cl", "dl", "bl", "spl", "bpl", "sil", "dil"};
static const char x86_gp8hi[4][4] = {"ah", "ch", "dh", "bh"};
static const char x86_seg[7][4] = {"", "es", "cs", "ss", "ds", "fs", "gs"};

static inline size_t cstr4(char* o, const char (&s)[4]) { size_t k = 0; for (; k < 3 && s[k]; k++) o[k] = s[k]; return k; }

// number of architectural registers of the type (ids outside are not part of the claim)
template<RegType T> constexpr uint32_t x86_reg_count() {
  return T == RegType::kGp8Lo || T == RegType::kGp16 || T == RegType::kGp32 || T == RegType::kGp64 ? 32 :
         T == RegType::kGp8Hi ? 4 : T == RegType::kVec128 || T == RegType::kVec256 || T == RegType::kVec512 ? 32 :
         T == RegType::kMask ? 8 : T == RegType::kX86_Mm ? 8 : T == RegType::kSegment ? 7 : T == RegType::kControl ? 16 :
         T == RegType::kDebug ? 16 : T == RegType::kX86_St ? 8 : T == RegType::kX86_Bnd ? 4 : T == RegType::kTile ? 8 : T == RegType::kPC ? 1 : 0;
}

// the architectural name of (T, id) into o (at most 8 chars), returns its length
template<RegType T> static inline size_t x86_reg_name(char* o, uint32_t id) {
  size_t k = 0;
  if constexpr (T == RegType::kGp8Lo || T == RegType::kGp16 || T == RegType::kGp32 || T == RegType::kGp64) {
    if (id < 8) {
      if constexpr (T == RegType::kGp8Lo) return cstr4(o, x86_gp8lo[id]);
      if constexpr (T == RegType::kGp16) return cstr4(o, x86_gp16[id]);
      if constexpr (T == RegType::kGp32) return cstr4(o, x86_gp32[id]);
      if constexpr (T == RegType::kGp64) return cstr4(o, x86_gp64[id]);
    }
    o[k++] = 'r'; k += put_u2(o + k, id);
    if constexpr (T == RegType::kGp8Lo) o[k++] = 'b';
    if constexpr (T == RegType::kGp16) o[k++] = 'w';
    if constexpr (T == RegType::kGp32) o[k++] = 'd';
    return k;
  }
  else if constexpr (T == RegType::kGp8Hi) { return cstr4(o, x86_gp8hi[id & 3]); }
  else if constexpr (T == RegType::kSegment) { return cstr4(o, x86_seg[id < 7 ? id : 0]); }
  else if constexpr (T == RegType::kPC) { o[0] = 'r'; o[1] = 'i'; o[2] = 'p'; return 3; }
  else {
    if constexpr (T == RegType::kVec128) { o[k++] = 'x'; o[k++] = 'm'; o[k++] = 'm'; }
    if constexpr (T == RegType::kVec256) { o[k++] = 'y'; o[k++] = 'm'; o[k++] = 'm'; }
    if constexpr (T == RegType::kVec512) { o[k++] = 'z'; o[k++] = 'm'; o[k++] = 'm'; }
    if constexpr (T == RegType::kMask) { o[k++] = 'k'; }
    if constexpr (T == RegType::kX86_Mm) { o[k++] = 'm'; o[k++] = 'm'; }
    if constexpr (T == RegType::kControl) { o[k++] = 'c'; o[k++] = 'r'; }
    if constexpr (T == RegType::kDebug) { o[k++] = 'd'; o[k++] = 'r'; }
    if constexpr (T == RegType::kX86_St) { o[k++] = 's'; o[k++] = 't'; }
    if constexpr (T == RegType::kX86_Bnd) { o[k++] = 'b'; o[k++] = 'n'; o[k++] = 'd'; }
    if constexpr (T == RegType::kTile) { o[k++] = 't'; o[k++] = 'm'; o[k++] = 'm'; }
    k += put_u2(o + k, id);
    return k;
  }
}

template<RegType T> static inline void match_x86_reg(Cur& c, uint32_t id) {
  char nm[8]; size_t n = x86_reg_name<T>(nm, id);
  if (n == 0) c.ok = false;
  c.str(nm, n);
}

}  // namespace vfmt
