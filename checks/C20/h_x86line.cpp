// C20 — x86 instruction line assembly (x86formatter.cpp format_instruction): prefixes and options, mnemonic, operand list, {k}{z},
// broadcast, {er}/{sae}. Operands and the mnemonic are printed by harness stubs as fixed tokens ("O<index>" for the operand at that
// index, "MNEM" for the instruction name): their own text is decided by h_x86fmt.cpp / h_x86mem.cpp / the C13 name harnesses. What is
// decided here: every option that is set is named exactly once, in a fixed place, nothing that is not set is named, every operand up to
// the first empty one appears once and in order, the mask register / {z} / {1toN} / rounding decorations say what was given.
//
// How the cases are cut (measured, see spec.py): a piece of text whose LENGTH is symbolic makes every later append of the real code a case
// split over the positions it may land on (and over the growth path of the String). So
//   * the option words (symbolic within a group, the other groups off) are decided on lines without operands - nothing follows them but
//     the mnemonic token; one line with every option set and one with none fix the order across the groups;
//   * lines with operands have constant options (template bitmask OPT); symbolic there are only things whose text has a constant length:
//     register ids, the immediate, the mask register id, the rounding mode, the broadcast value within {2,4,8} or within {16,32,64}.
#include <asmjit/x86.h>
#include <asmjit/x86/x86formatter_p.h>
#include <asmjit/x86/x86instapi_p.h>
#include <asmjit/core/formatter_p.h>
#include "verif.h"
#include "fmt_match.h"

using namespace asmjit;
using vfmt::Cur; using vfmt::make_string; using vfmt::observe_text;

static Operand_ ops[6];   // static and typed: every slot is assigned field by field in each run (no memset over the array)
static int n_operand_calls, n_name_calls;
static uint32_t last_name_id;
ASMJIT_BEGIN_SUB_NAMESPACE(x86)
namespace FormatterInternal {
Error ASMJIT_CDECL format_operand(String& sb, FormatFlags, const BaseEmitter*, Arch, const Operand_& op) noexcept {
  n_operand_calls++;
  // which element of the operand array was handed over: decided by address, slot by slot (no pointer subtraction)
  char d = 'x';   // 'x': not an element of the operand array (the {reg} of rep is a temporary)
  if (&op == &ops[0]) d = '0'; else if (&op == &ops[1]) d = '1'; else if (&op == &ops[2]) d = '2';
  else if (&op == &ops[3]) d = '3'; else if (&op == &ops[4]) d = '4'; else if (&op == &ops[5]) d = '5';
  char tok[2] = {'O', d};
  if (d == 'x' && op.is_reg()) { tok[0] = 'X'; tok[1] = char('a' + (op.id() & 15)); }
  return sb.append(tok, 2);
}
Error ASMJIT_CDECL format_register(String& sb, FormatFlags, const BaseEmitter*, Arch, RegType reg_type, uint32_t reg_id) noexcept {
  char tok[3] = {'K', char('a' + (uint32_t(reg_type) & 31)), char('0' + (reg_id & 7))};
  return sb.append(tok, 3);
}
}
namespace InstInternal {
Error ASMJIT_CDECL inst_id_to_string(InstId inst_id, InstStringifyOptions, String& output) noexcept {
  n_name_calls++; last_name_id = inst_id;
  return output.append("MNEM", 4);
}
}
ASMJIT_END_SUB_NAMESPACE

static inline void set_op(unsigned i, const Operand_& o) {
  ops[i]._signature = o._signature; ops[i]._base_id = o._base_id; ops[i]._data[0] = o._data[0]; ops[i]._data[1] = o._data[1];
}

// slot I of the operand array: register, memory, immediate, register, memory, immediate; none from NOPS on. (No `%` on the index here: with
// VERIF_DIVC a remainder is a fresh solver variable and the operand kind would become symbolic.)
template<unsigned I, unsigned NOPS> static inline void fill_slot(uint32_t bcst) {
  if constexpr (I >= NOPS) set_op(I, Operand());
  else if constexpr (I == 0 || I == 3) set_op(I, x86::zmm(nondet_u8() & 31));
  else if constexpr (I == 1 || I == 4) { x86::Mem m = x86::ptr(x86::rax); if (I == 1) m.set_broadcast(x86::Mem::Broadcast(bcst)); set_op(I, m); }
  else set_op(I, Imm(int64_t(nondet_u64())));
}

constexpr uint32_t O(InstOptions o) { return uint32_t(o); }
constexpr uint32_t VEX = O(InstOptions::kX86_Vex), VEX3 = O(InstOptions::kX86_Vex3), EVEX = O(InstOptions::kX86_Evex), MODRM = O(InstOptions::kX86_ModRM),
  MODMR = O(InstOptions::kX86_ModMR), SHORT = O(InstOptions::kShortForm), LONG = O(InstOptions::kLongForm), XACQ = O(InstOptions::kX86_XAcquire),
  XREL = O(InstOptions::kX86_XRelease), LOCK = O(InstOptions::kX86_Lock), REP = O(InstOptions::kX86_Rep), REPNE = O(InstOptions::kX86_Repne),
  REX = O(InstOptions::kX86_Rex), ZMASK = O(InstOptions::kX86_ZMask), ER = O(InstOptions::kX86_ER), SAE = O(InstOptions::kX86_SAE), ERMASK = O(InstOptions::kX86_ERMask);
constexpr uint32_t ALL_WORDS = VEX | VEX3 | EVEX | MODRM | MODMR | SHORT | LONG | XACQ | XREL | LOCK | REP | REPNE | REX;

// NOPS: operands handed over (the rest of the 6 slots are none): register, memory, immediate, register, memory, immediate.
// OPT: options that are set (constants); SYM: options that are symbolic (the rest is off). KMODE: 0 no extra register, 1 a mask register with a
// symbolic id 1..7, 2 the {reg} of rep (ecx). BC: broadcast of the memory operand at index 1: 0 none, 1 symbolic in {1to2,1to4,1to8}, 2 symbolic
// in {1to16,1to32,1to64}. IDMODE: 0 a fixed valid id, 1 any valid id, 2 any invalid id.
template<unsigned NOPS, uint32_t OPT, uint32_t SYM, unsigned KMODE, unsigned BC, unsigned IDMODE> static void line_case() {
  uint32_t bcst = 0;
  if (BC == 1) { bcst = nondet_u8() & 3; if (bcst == 0) bcst = 3; }
  if (BC == 2) { bcst = 4 + (nondet_u8() & 3); if (bcst == 7) bcst = 6; }
  fill_slot<0, NOPS>(bcst); fill_slot<1, NOPS>(bcst); fill_slot<2, NOPS>(bcst); fill_slot<3, NOPS>(bcst); fill_slot<4, NOPS>(bcst); fill_slot<5, NOPS>(bcst);
  uint32_t opt = OPT;
  if (SYM != 0) opt |= nondet_u32() & SYM;
  uint32_t kreg = 0;
  if (KMODE == 1) { kreg = nondet_u8() & 7; if (kreg == 0) kreg = 7; }
  uint32_t id = x86::Inst::kIdVaddps;
  if (IDMODE == 1) id = nondet_u32() % uint32_t(x86::Inst::_kIdCount);
  if (IDMODE == 2) id = uint32_t(x86::Inst::_kIdCount) + nondet_u16();   // 5 decimal digits: a 32-bit decimal parse-back is not decided by SAT in the budget
  BaseInst inst(id, InstOptions(opt));
  if (KMODE == 1) inst._extra_reg.init(x86::k(kreg));
  if (KMODE == 2) inst._extra_reg.init(x86::ecx);
  FormatFlags ff = FormatFlags(nondet_u32() & 0x76Fu);   // kExplainImms off: the explanation of an immediate is commentary, not denotation

  String sb; make_string<255>(sb);
  n_operand_calls = n_name_calls = 0; no_heap::n_calls = 0; no_heap::active = true;
  Error e = x86::FormatterInternal::format_instruction(sb, ff, nullptr, Arch::kX64, inst, Span<const Operand_>(ops, 6));
  no_heap::active = false;
  V_ASSERT(e == Error::kOk && no_heap::n_calls == 0, "x86 instruction line formatting succeeds within the buffer given");

  auto has = [&](uint32_t o) { return (opt & o) != 0; };
  Cur c(sb.data(), sb.size());
  if (IDMODE == 2) {
    V_ASSERT(n_name_calls == 0, "no mnemonic is looked up for an instruction id outside the table");
    c.lit("[InstId=#");
    V_ASSERT(c.udec<5>() == id, "the number shown for an unknown instruction id is that id");
    c.ch(']');
  }
  else {
    V_ASSERT(n_name_calls == 1 && last_name_id == id, "the mnemonic printed is the one of the instruction id given");
    if (has(VEX)) c.lit("{vex} ");
    if (has(VEX3)) c.lit("{vex3} ");
    if (has(EVEX)) c.lit("{evex} ");
    if (has(MODRM)) c.lit("{modrm} "); else if (has(MODMR)) c.lit("{modmr} ");
    if (has(SHORT)) c.lit("short ");
    if (has(LONG)) c.lit("long ");
    if (has(XACQ)) c.lit("xacquire ");
    if (has(XREL)) c.lit("xrelease ");
    if (has(LOCK)) c.lit("lock ");
    if (has(REP) || has(REPNE)) {
      if (has(REP)) c.lit("rep "); else c.lit("repnz ");
      if (KMODE == 1) { c.lit("{X"); c.ch(char('a' + kreg)); c.lit("} "); }
      if (KMODE == 2) { c.lit("{X"); c.ch(char('a' + 1)); c.lit("} "); }   // ecx has id 1
    }
    if (has(REX)) c.lit("rex ");
    c.lit("MNEM");
  }
  for (unsigned i = 0; i < NOPS; i++) {
    if (i == 0) c.ch(' '); else c.lit(", ");
    c.ch('O'); c.ch(char('0' + i));
    if (i == 0) {
      if (KMODE == 1) { c.lit(" {K"); c.ch(char('a' + uint32_t(RegType::kMask))); c.ch(char('0' + kreg)); c.ch('}'); if (has(ZMASK)) c.lit("{z}"); }
      else if (has(ZMASK)) c.lit(" {z}");
    }
    if (i == 1 && BC != 0) {
      c.lit(" {1to");
      if (BC == 1) c.ch(bcst == 1 ? '2' : bcst == 2 ? '4' : '8');
      else { c.ch(bcst == 4 ? '1' : bcst == 5 ? '3' : '6'); c.ch(bcst == 4 ? '6' : bcst == 5 ? '2' : '4'); }
      c.ch('}');
    }
  }
  V_ASSERT(n_operand_calls == int(NOPS) + (KMODE != 0 && IDMODE != 2 && (has(REP) || has(REPNE)) ? 1 : 0), "every operand up to the first empty one is printed exactly once");
  if (has(ER)) {
    uint32_t rc = (opt >> 21) & 3;   // EVEX.L'L as rounding control: 00 nearest, 01 down, 10 up, 11 toward zero (SDM vol.2 2.7.5)
    c.lit(", {r"); c.ch(rc == 0 ? 'n' : rc == 1 ? 'd' : rc == 2 ? 'u' : 'z'); c.lit("-sae}");
  }
  else if (has(SAE)) c.lit(", {sae}");
  V_ASSERT(c.at_end(), "x86 instruction line names exactly the options, mnemonic, operands and decorations given");
  observe_text<96>(sb);
  V_WITNESS("x86 line formatted");
}
// ---- option words: symbolic within a group, no operands ---------------------------------------------------------------------
HARNESS h_x86line_w_vex() { line_case<0, 0, VEX | VEX3 | EVEX, 0, 0, 0>(); }
HARNESS h_x86line_w_form() { line_case<0, 0, MODRM | MODMR | SHORT | LONG, 0, 0, 0>(); }
HARNESS h_x86line_w_lock() { line_case<0, 0, XACQ | XREL | LOCK, 0, 0, 0>(); }
HARNESS h_x86line_w_rep() { line_case<0, 0, REP | REPNE | REX, 0, 0, 0>(); }
HARNESS h_x86line_w_repreg() { line_case<0, 0, REP | REPNE | REX, 2, 0, 0>(); }
HARNESS h_x86line_w_all() { line_case<0, ALL_WORDS, 0, 2, 0, 0>(); }
HARNESS h_x86line_id() { line_case<0, 0, 0, 0, 0, 1>(); }
HARNESS h_x86line_badid() { line_case<0, 0, 0, 0, 0, 2>(); }
// ---- operands and decorations: constant options -----------------------------------------------------------------------------
HARNESS h_x86line_n1() { line_case<1, 0, 0, 0, 0, 0>(); }
HARNESS h_x86line_n2() { line_case<2, 0, 0, 0, 0, 0>(); }
HARNESS h_x86line_n3() { line_case<3, 0, 0, 0, 0, 0>(); }
HARNESS h_x86line_n6() { line_case<6, 0, 0, 0, 0, 0>(); }
HARNESS h_x86line_bc_lo2() { line_case<2, 0, 0, 0, 1, 0>(); }
HARNESS h_x86line_bc_hi3() { line_case<3, 0, 0, 0, 2, 0>(); }
HARNESS h_x86line_k1() { line_case<1, 0, 0, 1, 0, 0>(); }
HARNESS h_x86line_kz3() { line_case<3, ZMASK, 0, 1, 0, 0>(); }
HARNESS h_x86line_z2() { line_case<2, ZMASK, 0, 0, 0, 0>(); }
HARNESS h_x86line_er2_rn() { line_case<2, ER, 0, 0, 0, 0>(); }
HARNESS h_x86line_er2_rd() { line_case<2, ER | O(InstOptions::kX86_RD_SAE), 0, 0, 0, 0>(); }
HARNESS h_x86line_er2_ru() { line_case<2, ER | SAE | O(InstOptions::kX86_RU_SAE), 0, 0, 0, 0>(); }
HARNESS h_x86line_er2_rz() { line_case<2, ER | O(InstOptions::kX86_RZ_SAE), 0, 0, 0, 0>(); }
HARNESS h_x86line_sae3() { line_case<3, SAE | O(InstOptions::kX86_RZ_SAE), 0, 0, 0, 0>(); }
// every word, {k}{z}, {1toN} and {er} at once, six operands: order of all the pieces (constant lengths, symbolic ids / mask / broadcast)
HARNESS h_x86line_full6() { line_case<6, ALL_WORDS | ZMASK | ER | SAE | O(InstOptions::kX86_RU_SAE), 0, 1, 2, 0>(); }
// ---- a symbolic piece in front of operands: the later pieces land at a symbolic position -------------------------------------
HARNESS h_x86line_x_vex3() { line_case<3, 0, VEX | VEX3 | EVEX, 0, 0, 0>(); }
HARNESS h_x86line_x_rep3() { line_case<3, 0, REP | REPNE | REX, 2, 0, 0>(); }
HARNESS h_x86line_x_z3() { line_case<3, 0, ZMASK, 1, 0, 0>(); }
HARNESS h_x86line_x_z1() { line_case<1, 0, ZMASK, 0, 0, 0>(); }
HARNESS h_x86line_x_er3() { line_case<3, 0, ER | SAE | ERMASK, 0, 0, 0>(); }
