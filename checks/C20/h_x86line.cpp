// C20 — x86 instruction line assembly (x86formatter.cpp format_instruction): prefixes and options, mnemonic, operand list, {k}{z},
// broadcast, {er}/{sae}. Operands and the mnemonic are printed by harness stubs as fixed tokens ("O<index>" for the operand at that
// index, "MNEM" for the instruction name): their own text is decided by h_x86fmt.cpp / h_x86mem.cpp / the C13 name harnesses. What is
// decided here: every option that is set is named exactly once, in a fixed place, nothing that is not set is named, every operand up to
// the first empty one appears once and in order, the mask register / {z} / {1toN} / rounding decorations say what was given.
#include <asmjit/x86.h>
#include <asmjit/x86/x86formatter_p.h>
#include <asmjit/x86/x86instapi_p.h>
#include <asmjit/core/formatter_p.h>
#include "verif.h"
#include "fmt_match.h"

using namespace asmjit;
using vfmt::Cur; using vfmt::make_string; using vfmt::observe_text;

static const Operand_* ops_base;
static int n_operand_calls, n_name_calls;
static uint32_t last_name_id;
ASMJIT_BEGIN_SUB_NAMESPACE(x86)
namespace FormatterInternal {
Error ASMJIT_CDECL format_operand(String& sb, FormatFlags, const BaseEmitter*, Arch, const Operand_& op) noexcept {
  n_operand_calls++;
  size_t idx = size_t(&op - ops_base);
  char tok[2] = {'O', idx < 6 ? char('0' + idx) : 'x'};   // 'x': not an element of the operand array (the {reg} of rep, a copy)
  if (idx >= 6 && op.is_reg()) { tok[0] = 'X'; tok[1] = char('a' + (op.id() & 15)); }
  return sb.append(tok, 2);
}
Error ASMJIT_CDECL format_register(String& sb, FormatFlags, const BaseEmitter*, Arch, RegType reg_type, uint32_t reg_id) noexcept {
  char tok[3] = {'K', char('a' + (uint32_t(reg_type) & 31)), char('0' + (reg_id & 7))};
  return sb.append(tok, 3);
}
}
namespace InstInternal {
Error ASMJIT_CDECL inst_id_to_string(InstId inst_id, InstStringifyOptions, String& output) noexcept {
  n_name_calls++; last_name_id = inst_id;
  return output.append("MNEM", 4);
}
}
ASMJIT_END_SUB_NAMESPACE

// NOPS: operands handed over (the rest of the 6 slots are none): register, memory, immediate, register, memory, immediate.
// GROUP: which options are symbolic (the others are off) - the formatter handles them one after the other, independently; with all of them
// symbolic at once the length of the text before every later piece is symbolic and no verdict is reached:
//   0: {vex} {vex3} {evex}   1: {modrm} {modmr} short long   2: xacquire xrelease lock   3: rep repnz {reg} rex
//   4: mask register and {z}   5: {er}/{sae} and the rounding mode   6: broadcast of the memory operand
template<unsigned NOPS, int GROUP> static void line_case() {
  Operand_ ops[6];
  for (unsigned i = 0; i < 6; i++) ops[i].reset();
  uint32_t bcst[6] = {0, 0, 0, 0, 0, 0};
  if (GROUP == 6) { bcst[1] = nondet_u8() & 7; V_ASSUME(bcst[1] <= 6); }
  for (unsigned i = 0; i < NOPS; i++) {
    if (i % 3 == 0) ops[i] = x86::zmm(nondet_u8() & 31);
    else if (i % 3 == 1) { x86::Mem m = x86::ptr(x86::rax); m.set_broadcast(x86::Mem::Broadcast(bcst[i])); ops[i] = m; }
    else ops[i] = Imm(int64_t(nondet_u64()));
  }
  InstOptions opt = InstOptions::kNone;
  uint32_t kreg = 0;   // mask register id, 0 = none
  bool rep_reg = false;
  static const InstOptions kGroups[6] = {
    InstOptions::kX86_Vex | InstOptions::kX86_Vex3 | InstOptions::kX86_Evex,
    InstOptions::kX86_ModRM | InstOptions::kX86_ModMR | InstOptions::kShortForm | InstOptions::kLongForm,
    InstOptions::kX86_XAcquire | InstOptions::kX86_XRelease | InstOptions::kX86_Lock,
    InstOptions::kX86_Rep | InstOptions::kX86_Repne | InstOptions::kX86_Rex,
    InstOptions::kX86_ZMask,
    InstOptions::kX86_ER | InstOptions::kX86_SAE | InstOptions::kX86_ERMask };
  if (GROUP < 6) opt = InstOptions(nondet_u32()) & kGroups[GROUP];
  if (GROUP == 3) rep_reg = nondet_bool();
  if (GROUP == 4) kreg = nondet_u8() & 7;
  BaseInst inst(x86::Inst::kIdAdd, opt);
  uint32_t id = nondet_u32() % uint32_t(x86::Inst::_kIdCount);
  inst._inst_id = id;
  if (kreg) inst._extra_reg.init(x86::k(kreg));
  if (rep_reg) inst._extra_reg.init(x86::ecx);
  FormatFlags ff = FormatFlags(nondet_u32() & 0x76Fu);   // kExplainImms off: the explanation of an immediate is commentary, not denotation

  String sb; make_string<255>(sb);
  ops_base = ops; n_operand_calls = n_name_calls = 0; no_heap::active = true;
  Error e = x86::FormatterInternal::format_instruction(sb, ff, nullptr, Arch::kX64, inst, Span<const Operand_>(ops, 6));
  no_heap::active = false;
  V_ASSERT(e == Error::kOk && no_heap::n_calls == 0, "x86 instruction line formatting succeeds within the buffer given");
  V_ASSERT(n_name_calls == 1 && last_name_id == id, "the mnemonic printed is the one of the instruction id given");

  auto has = [&](InstOptions o) { return Support::test(opt, o); };
  Cur c(sb.data(), sb.size());
  if (has(InstOptions::kX86_Vex)) c.lit("{vex} ");
  if (has(InstOptions::kX86_Vex3)) c.lit("{vex3} ");
  if (has(InstOptions::kX86_Evex)) c.lit("{evex} ");
  if (has(InstOptions::kX86_ModRM)) c.lit("{modrm} "); else if (has(InstOptions::kX86_ModMR)) c.lit("{modmr} ");
  if (has(InstOptions::kShortForm)) c.lit("short ");
  if (has(InstOptions::kLongForm)) c.lit("long ");
  if (has(InstOptions::kX86_XAcquire)) c.lit("xacquire ");
  if (has(InstOptions::kX86_XRelease)) c.lit("xrelease ");
  if (has(InstOptions::kX86_Lock)) c.lit("lock ");
  if (has(InstOptions::kX86_Rep) || has(InstOptions::kX86_Repne)) {
    if (has(InstOptions::kX86_Rep)) c.lit("rep "); else c.lit("repnz ");
    if (rep_reg) { c.lit("{X"); c.ch(char('a' + 1)); c.lit("} "); }   // ecx has id 1
  }
  if (has(InstOptions::kX86_Rex)) c.lit("rex ");
  c.lit("MNEM");
  unsigned shown = 0; bool ended = false;
  for (unsigned i = 0; i < 6; i++) {
    if (ended || ops[i].is_none()) { ended = true; continue; }
    if (i == 0) c.ch(' '); else c.lit(", ");
    c.ch('O'); c.ch(char('0' + i)); shown++;
    if (i == 0) {
      if (kreg) { c.lit(" {K"); c.ch(char('a' + uint32_t(RegType::kMask))); c.ch(char('0' + kreg)); c.ch('}'); if (has(InstOptions::kX86_ZMask)) c.lit("{z}"); }
      else if (has(InstOptions::kX86_ZMask)) c.lit(" {z}");
    }
    if (ops[i].is_mem() && bcst[i]) {
      c.lit(" {1to");
      static const char bc[7][3] = {"", "2", "4", "8", "16", "32", "64"};
      c.ch(bc[bcst[i]][0]); if (bcst[i] >= 4) c.ch(bc[bcst[i]][1]);
      c.ch('}');
    }
  }
  V_ASSERT(n_operand_calls == int(shown) + (rep_reg && (has(InstOptions::kX86_Rep) || has(InstOptions::kX86_Repne)) ? 1 : 0), "every operand up to the first empty one is printed exactly once");
  if (has(InstOptions::kX86_ER)) {
    uint32_t rc = (uint32_t(opt) >> 21) & 3;
    c.lit(", {r"); c.ch("nduz"[rc]); c.lit("-sae}");
  }
  else if (has(InstOptions::kX86_SAE)) c.lit(", {sae}");
  V_ASSERT(c.at_end(), "x86 instruction line names exactly the options, mnemonic, operands and decorations given");
  observe_text<16>(sb);
  V_WITNESS("x86 line formatted");
}
HARNESS h_x86line_g0_n0() { line_case<0, 0>(); }
HARNESS h_x86line_g0_n2() { line_case<2, 0>(); }
HARNESS h_x86line_g1_n1() { line_case<1, 1>(); }
HARNESS h_x86line_g2_n2() { line_case<2, 2>(); }
HARNESS h_x86line_g3_n0() { line_case<0, 3>(); }
HARNESS h_x86line_g3_n2() { line_case<2, 3>(); }
HARNESS h_x86line_g4_n1() { line_case<1, 4>(); }
HARNESS h_x86line_g4_n3() { line_case<3, 4>(); }
HARNESS h_x86line_g5_n2() { line_case<2, 5>(); }
HARNESS h_x86line_g5_n3() { line_case<3, 5>(); }
HARNESS h_x86line_g6_n2() { line_case<2, 6>(); }
HARNESS h_x86line_g6_n3() { line_case<3, 6>(); }
HARNESS h_x86line_g4_n6() { line_case<6, 4>(); }
