// C20 — AArch64 memory operand rendering (arm/armformatter.cpp format_operand, mem branch, and format_shift_op: real). Register names are
// the subject of h_a64fmt.cpp; here arm::FormatterInternal::format_register and Formatter::format_label are harness stubs that append a
// fixed-length token naming exactly what they were asked to print. What is decided: brackets, base, index, shift / extend kind and amount,
// offset sign and value, pre-index '!' and post-index placement, and that nothing else is printed. Addressing form, index width and the
// shift / extend kind are constants per harness; register ids, shift amount, offset and format flags are symbolic.
// asmjit's own syntax is taken as the notation ("[x1, w2 sxtw 3]" for the manual's [X1, W2, SXTW #3]): the property is that the text names the
// same base, index, kind, amount and offset, not that it is accepted by an assembler.
#include <asmjit/a64.h>
#include <asmjit/arm/armformatter_p.h>
#include <asmjit/core/formatter_p.h>
#include "verif.h"
#include "fmt_match.h"

using namespace asmjit;
using vfmt::Cur; using vfmt::make_string; using vfmt::observe_text; using vfmt::any_flags; using vfmt::match_number;

static int n_reg_calls, n_label_calls;
// written field by field (a struct copy is a memcpy for the solver and the operand type stops being a constant)
static Operand_ g_op;
static inline void put(const Operand_& src) { g_op._signature = src._signature; g_op._base_id = src._base_id; g_op._data[0] = src._data[0]; g_op._data[1] = src._data[1]; }
ASMJIT_BEGIN_SUB_NAMESPACE(arm)
namespace FormatterInternal {
Error ASMJIT_CDECL format_register(String& sb, FormatFlags, const BaseEmitter*, Arch, RegType reg_type, uint32_t reg_id, uint32_t element_type, uint32_t element_index) noexcept {
  n_reg_calls++;
  char tok[4] = {'R', char('a' + (uint32_t(reg_type) & 31)), char('a' + (reg_id & 15)), char('a' + ((reg_id >> 4) & 15))};
  if (reg_id > 255 || uint32_t(reg_type) > 31 || element_type != 0 || element_index != 0xFFFFFFFFu) tok[0] = '?';   // a base / index is a plain register
  return sb.append(tok, 4);
}
}
ASMJIT_END_SUB_NAMESPACE
ASMJIT_BEGIN_NAMESPACE
namespace Formatter {
Error format_label(String& sb, FormatFlags, const BaseEmitter*, uint32_t label_id) noexcept {
  n_label_calls++;
  char tok[5] = {'L', char('a' + (label_id & 15)), char('a' + ((label_id >> 4) & 15)), char('a' + ((label_id >> 8) & 15)), char('a' + ((label_id >> 12) & 15))};
  if (label_id > 0xFFFFu) tok[0] = '?';
  return sb.append(tok, 5);
}
}
ASMJIT_END_NAMESPACE
static inline void match_reg_token(Cur& c, RegType t, uint32_t id) { c.ch('R'); c.ch(char('a' + uint32_t(t))); c.ch(char('a' + (id & 15))); c.ch(char('a' + ((id >> 4) & 15))); }
static inline void match_label_token(Cur& c, uint32_t id) { c.ch('L'); c.ch(char('a' + (id & 15))); c.ch(char('a' + ((id >> 4) & 15))); c.ch(char('a' + ((id >> 8) & 15))); c.ch(char('a' + ((id >> 12) & 15))); }

// names of the index modifiers (Arm ARM C1.3.3 load/store addressing modes: LSL, UXTW, SXTW, SXTX; the others appear in data-processing operands)
template<arm::ShiftOp OP> static inline void match_sop(Cur& c) {
  if constexpr (OP == arm::ShiftOp::kLSL) c.lit("lsl");
  if constexpr (OP == arm::ShiftOp::kLSR) c.lit("lsr");
  if constexpr (OP == arm::ShiftOp::kASR) c.lit("asr");
  if constexpr (OP == arm::ShiftOp::kUXTW) c.lit("uxtw");
  if constexpr (OP == arm::ShiftOp::kUXTX) c.lit("uxtx");
  if constexpr (OP == arm::ShiftOp::kSXTW) c.lit("sxtw");
  if constexpr (OP == arm::ShiftOp::kSXTX) c.lit("sxtx");
}

enum Base { kBaseReg, kBaseLabel };
enum Mode { kFixed = 0, kPre = 1, kPost = 2 };
static bool reached_mem;
// One path per shift amount (the amount is part of the operand signature: a symbolic signature makes format_operand explore every operand kind).
// IT: type of the index register (kNone: no index). SOP: index modifier. AMOUNT: its amount.
// OFF: 0 no offset, 1 symbolic offset (decimal below 2^OFFBITS in magnitude; hexadecimal: any 32-bit value, shown as the 64-bit two's complement), 2 and 3: the
// constant offsets -256 and 4095 (the number formatting is the same code in every addressing form: it is decided on symbolic values in one form).
template<Base B, RegType IT, Mode M, arm::ShiftOp SOP, uint32_t AMOUNT, unsigned OFF, unsigned OFFBITS, unsigned MAXDEC> static void a64_mem_path() {
  constexpr bool HAS_INDEX = IT != RegType::kNone;
  uint32_t bid = B == kBaseLabel ? uint32_t(nondet_u16()) : uint32_t(nondet_u8() & 31), iid = nondet_u8() & 31;
  int32_t off = 0;
  if (OFF == 1) { off = int32_t(nondet_u32()); if (off == 0) off = 1; }
  if (OFF == 2) off = -256;
  if (OFF == 3) off = 4095;
  if constexpr (B == kBaseLabel) put(a64::Mem(Label(bid), off));
  else if constexpr (HAS_INDEX) put(a64::Mem(a64::Gp::make_r64(bid), Reg::from_type_and_id(IT, iid), arm::Shift(SOP, AMOUNT)));
  else put(a64::Mem(a64::Gp::make_r64(bid), off));
  a64::Mem& m = g_op.as<a64::Mem>();
  if constexpr (HAS_INDEX && OFF != 0) m.set_offset_lo32(off);
  if constexpr (M == kPre) m.make_pre_index();
  if constexpr (M == kPost) m.make_post_index();
  FormatFlags ff = any_flags();
  bool hex = Support::test(ff, FormatFlags::kHexOffsets);
  int64_t disp = off;
  uint64_t mag = disp < 0 ? uint64_t(0) - uint64_t(disp) : uint64_t(disp);
  if (OFF == 1 && !(hex && uint64_t(disp) > 9)) V_ASSUME(mag < (uint64_t(1) << OFFBITS));

  String sb; make_string<255>(sb);
  n_reg_calls = 0; n_label_calls = 0; no_heap::n_calls = 0; no_heap::active = true;
  Error e = arm::FormatterInternal::format_operand(sb, ff, nullptr, Arch::kAArch64, g_op);
  no_heap::active = false;
  V_ASSERT(e == Error::kOk && no_heap::n_calls == 0, "a64 memory operand formatting succeeds within the buffer given");
  V_ASSERT(n_reg_calls == int(B == kBaseReg) + int(HAS_INDEX) && n_label_calls == int(B == kBaseLabel), "one register is printed per register of the operand and one label per label base");

  Cur c(sb.data(), sb.size());
  c.ch('[');
  if constexpr (B == kBaseLabel) match_label_token(c, bid); else match_reg_token(c, RegType::kGp64, bid);
  if constexpr (M == kPost) c.ch(']');
  if constexpr (HAS_INDEX) { c.lit(", "); match_reg_token(c, IT, iid); }
  if constexpr (OFF != 0) {
    c.lit(", ");
    if (hex && uint64_t(disp) > 9) { c.lit("0x"); if (c.uhex<16>() != uint64_t(disp)) c.ok = false; }
    else { if (disp < 0) c.ch('-'); if (c.udec<MAXDEC>() != mag) c.ok = false; }
  }
  // the modifier of an index is part of the operand even when its amount is 0 (LDR Xt, [Xn, Wm, SXTW] and [Xn, Wm, UXTW] are different instructions)
  if constexpr (HAS_INDEX && (AMOUNT != 0 || SOP != arm::ShiftOp::kLSL)) {
    c.ch(' '); match_sop<SOP>(c);
    if constexpr (AMOUNT != 0) { c.ch(' '); c.ch(char('0' + AMOUNT)); }
  }
  if constexpr (M != kPost) c.ch(']');
  if constexpr (M == kPre) c.ch('!');
  V_ASSERT(c.at_end(), "a64 memory operand text denotes base, index, index modifier and amount, offset and the write-back mode of the operand");
  observe_text<24>(sb);
  reached_mem = true;
}
// AMT: 0 the amount is 0; 1 the amount is symbolic in 0..4 (what load / store encodings can hold); 2 the amount is 0 and the modifier is an extend
// (the region of known finding C20A). With C20A open, amount 0 of an extend is left out of the AMT = 1 harnesses.
template<Base B, RegType IT, Mode M, arm::ShiftOp SOP, unsigned AMT, unsigned OFF, unsigned OFFBITS, unsigned MAXDEC> static void a64_mem_case() {
  reached_mem = false;
  if constexpr (AMT == 1) {
    uint32_t amount = nondet_u8() & 7; if (amount > 4) amount -= 4;
    constexpr bool kf_region_at_0 = IT != RegType::kNone && SOP != arm::ShiftOp::kLSL;
    if (amount == 0) {
#if KF_C20A
      if (!kf_region_at_0)
#endif
      a64_mem_path<B, IT, M, SOP, 0, OFF, OFFBITS, MAXDEC>();
    }
    else if (amount == 1) a64_mem_path<B, IT, M, SOP, 1, OFF, OFFBITS, MAXDEC>();
    else if (amount == 2) a64_mem_path<B, IT, M, SOP, 2, OFF, OFFBITS, MAXDEC>();
    else if (amount == 3) a64_mem_path<B, IT, M, SOP, 3, OFF, OFFBITS, MAXDEC>();
    else a64_mem_path<B, IT, M, SOP, 4, OFF, OFFBITS, MAXDEC>();
  }
  else a64_mem_path<B, IT, M, SOP, 0, OFF, OFFBITS, MAXDEC>();
  if (reached_mem) V_WITNESS("a64 mem formatted");
}
constexpr RegType NOIDX = RegType::kNone, XI = RegType::kGp64, WI = RegType::kGp32;
using arm::ShiftOp;
// naming: h_a64mem_<base><index>_<mode>_<modifier><amount>_<offset>
HARNESS h_a64mem_b_fix_none_o0() { a64_mem_case<kBaseReg, NOIDX, kFixed, ShiftOp::kLSL, 0, 0, 12, 4>(); }
HARNESS h_a64mem_b_fix_none_o1() { a64_mem_case<kBaseReg, NOIDX, kFixed, ShiftOp::kLSL, 0, 1, 12, 4>(); }
HARNESS h_a64mem_b_pre_none_o2() { a64_mem_case<kBaseReg, NOIDX, kPre, ShiftOp::kLSL, 0, 2, 12, 4>(); }
HARNESS h_a64mem_b_pre_none_o3() { a64_mem_case<kBaseReg, NOIDX, kPre, ShiftOp::kLSL, 0, 3, 12, 4>(); }
HARNESS h_a64mem_b_post_none_o2() { a64_mem_case<kBaseReg, NOIDX, kPost, ShiftOp::kLSL, 0, 2, 12, 4>(); }
HARNESS h_a64mem_b_post_none_o3() { a64_mem_case<kBaseReg, NOIDX, kPost, ShiftOp::kLSL, 0, 3, 12, 4>(); }
HARNESS h_a64mem_b_post_none_o0() { a64_mem_case<kBaseReg, NOIDX, kPost, ShiftOp::kLSL, 0, 0, 12, 4>(); }
HARNESS h_a64mem_bx_fix_lsl0_o0() { a64_mem_case<kBaseReg, XI, kFixed, ShiftOp::kLSL, 0, 0, 12, 4>(); }
HARNESS h_a64mem_bx_fix_lsl_o0() { a64_mem_case<kBaseReg, XI, kFixed, ShiftOp::kLSL, 1, 0, 12, 4>(); }
HARNESS h_a64mem_bx_fix_sxtx_o0() { a64_mem_case<kBaseReg, XI, kFixed, ShiftOp::kSXTX, 1, 0, 12, 4>(); }
HARNESS h_a64mem_bw_fix_uxtw_o0() { a64_mem_case<kBaseReg, WI, kFixed, ShiftOp::kUXTW, 1, 0, 12, 4>(); }
HARNESS h_a64mem_bw_fix_sxtw_o0() { a64_mem_case<kBaseReg, WI, kFixed, ShiftOp::kSXTW, 1, 0, 12, 4>(); }
HARNESS h_a64mem_bx_post_lsl0_o0() { a64_mem_case<kBaseReg, XI, kPost, ShiftOp::kLSL, 0, 0, 12, 4>(); }
HARNESS h_a64mem_bx_pre_lsl0_o0() { a64_mem_case<kBaseReg, XI, kPre, ShiftOp::kLSL, 0, 0, 12, 4>(); }
HARNESS h_a64mem_l_fix_none_o0() { a64_mem_case<kBaseLabel, NOIDX, kFixed, ShiftOp::kLSL, 0, 0, 12, 4>(); }
HARNESS h_a64mem_l_fix_none_o2() { a64_mem_case<kBaseLabel, NOIDX, kFixed, ShiftOp::kLSL, 0, 2, 12, 4>(); }
// known finding C20A: an extend with amount 0 is not shown at all
HARNESS h_a64mem_bw_fix_sxtw0_kf_C20A() { a64_mem_case<kBaseReg, WI, kFixed, ShiftOp::kSXTW, 2, 0, 12, 4>(); }
HARNESS h_a64mem_bw_fix_uxtw0_kf_C20A() { a64_mem_case<kBaseReg, WI, kFixed, ShiftOp::kUXTW, 2, 0, 12, 4>(); }
HARNESS h_a64mem_bx_fix_sxtx0_kf_C20A() { a64_mem_case<kBaseReg, XI, kFixed, ShiftOp::kSXTX, 2, 0, 12, 4>(); }
