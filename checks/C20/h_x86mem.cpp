// C20 — x86 memory operand rendering (x86formatter.cpp format_operand, mem branch). The register names are the subject of
// h_x86fmt.cpp; here FormatterInternal::format_register is replaced by a harness stub that appends a fixed-length token naming
// (type, id) exactly - "R" + 3 letters - so that the position of every later character is a constant for the solver. What is
// decided: size keyword, segment, abs/rel marker, base, index, scale, sign and value of the displacement, the brackets, and that
// nothing else is printed. Size keyword, segment, abs/rel marker and scale are constants per path (each harness dispatches over all
// values of one of them with the others fixed - the formatter appends them one after the other, independently); register types and
// ids, the displacement and the format flags are symbolic. Constant prefixes keep the length of the text before the displacement a
// constant: with a symbolic length every later append has to consider the path on which the string must grow.
#include <asmjit/x86.h>
#include <asmjit/x86/x86formatter_p.h>
#include <asmjit/core/formatter_p.h>
#include "verif.h"
#include "fmt_match.h"

using namespace asmjit;
using vfmt::Cur; using vfmt::make_string; using vfmt::observe_text; using vfmt::any_flags; using vfmt::match_number;

static int n_reg_calls;
ASMJIT_BEGIN_SUB_NAMESPACE(x86)
namespace FormatterInternal {
Error ASMJIT_CDECL format_register(String& sb, FormatFlags, const BaseEmitter*, Arch, RegType reg_type, uint32_t reg_id) noexcept {
  n_reg_calls++;
  char tok[4] = {'R', char('a' + (uint32_t(reg_type) & 31)), char('a' + (reg_id & 15)), char('a' + ((reg_id >> 4) & 15))};
  if (reg_id > 255 || uint32_t(reg_type) > 31) tok[0] = '?';
  return sb.append(tok, 4);
}
}
ASMJIT_END_SUB_NAMESPACE

// Label bases / label operands: Formatter::format_label (decided by h_label.cpp) is replaced by a fixed-length token naming the id it was given.
static int n_label_calls;
ASMJIT_BEGIN_NAMESPACE
namespace Formatter {
Error format_label(String& sb, FormatFlags, const BaseEmitter*, uint32_t label_id) noexcept {
  n_label_calls++;
  char tok[5] = {'L', char('a' + (label_id & 15)), char('a' + ((label_id >> 4) & 15)), char('a' + ((label_id >> 8) & 15)), char('a' + ((label_id >> 12) & 15))};
  if (label_id > 0xFFFFu) tok[0] = '?';
  return sb.append(tok, 5);
}
}
ASMJIT_END_NAMESPACE
static inline void match_label_token(Cur& c, uint32_t id) {
  c.ch('L'); c.ch(char('a' + (id & 15))); c.ch(char('a' + ((id >> 4) & 15))); c.ch(char('a' + ((id >> 8) & 15))); c.ch(char('a' + ((id >> 12) & 15)));
}

static inline void match_reg_token(Cur& c, RegType t, uint32_t id) {
  c.ch('R'); c.ch(char('a' + uint32_t(t))); c.ch(char('a' + (id & 15))); c.ch(char('a' + ((id >> 4) & 15)));
}

template<uint32_t SIZE> static inline void match_size(Cur& c) {
  if constexpr (SIZE == 1) c.lit("byte");
  if constexpr (SIZE == 2) c.lit("word");
  if constexpr (SIZE == 4) c.lit("dword");
  if constexpr (SIZE == 6) c.lit("fword");
  if constexpr (SIZE == 8) c.lit("qword");
  if constexpr (SIZE == 10) c.lit("tbyte");
  if constexpr (SIZE == 16) c.lit("xmmword");
  if constexpr (SIZE == 32) c.lit("ymmword");
  if constexpr (SIZE == 64) c.lit("zmmword");
  if constexpr (SIZE != 0) c.lit(" ptr ");
}
template<uint32_t SEG> static inline void match_seg(Cur& c) {
  if constexpr (SEG == 1) c.lit("es:");
  if constexpr (SEG == 2) c.lit("cs:");
  if constexpr (SEG == 3) c.lit("ss:");
  if constexpr (SEG == 4) c.lit("ds:");
  if constexpr (SEG == 5) c.lit("fs:");
  if constexpr (SEG == 6) c.lit("gs:");
}

// BT / IT: type of the base / index register (kNone: absent); they travel through the token. OFFBITS bounds the displacement magnitude on the decimal path.
template<RegType BT, RegType IT, uint32_t SIZE, uint32_t SEG, uint32_t AT, uint32_t SHIFT, unsigned OFFBITS, unsigned MAXDEC> static void mem_case() {
  constexpr bool HAS_BASE = BT != RegType::kNone, HAS_INDEX = IT != RegType::kNone, LABEL_BASE = BT == RegType::kLabelTag;
  uint32_t bid = 0, iid = 0; const uint32_t shift = HAS_INDEX ? SHIFT : 0, at = AT;
  const RegType bt = BT, it = IT;   // constants: a symbolic type would make the whole operand signature (shift, segment, size, ...) symbolic
  x86::Mem m;
  int32_t off = int32_t(nondet_u32());
  if constexpr (HAS_BASE) {
    bid = LABEL_BASE ? uint32_t(nondet_u16()) : uint32_t(nondet_u8() & 31);
  }
  if constexpr (HAS_INDEX) {
    iid = nondet_u8() & 31;
  }
  if constexpr (LABEL_BASE && HAS_INDEX) m = x86::Mem(Label(bid), Reg::from_type_and_id(it, iid), shift, off, SIZE);
  else if constexpr (LABEL_BASE) m = x86::Mem(Label(bid), off, SIZE);
  else if constexpr (HAS_BASE && HAS_INDEX) m = x86::Mem(Reg::from_type_and_id(bt, bid), Reg::from_type_and_id(it, iid), shift, off, SIZE);
  else if constexpr (HAS_BASE) m = x86::Mem(Reg::from_type_and_id(bt, bid), off, SIZE);
  else if constexpr (HAS_INDEX) m = x86::Mem(uint64_t(uint32_t(off)), Reg::from_type_and_id(it, iid), shift, SIZE);
  else m = x86::Mem(uint64_t(nondet_u64()), SIZE);
  if constexpr (SEG != 0) m.set_segment(x86::SReg(SEG));
  if (at == 1) m.set_addr_abs(); else if (at == 2) m.set_addr_rel();
  FormatFlags ff = any_flags();
  bool hex = Support::test(ff, FormatFlags::kHexOffsets);
  int64_t disp = m.offset();   // what the operand itself says (64-bit for base-less forms)
  uint64_t mag = disp < 0 ? uint64_t(0) - uint64_t(disp) : uint64_t(disp);
  if (!(hex && mag > 9)) V_ASSUME(mag < (uint64_t(1) << OFFBITS));

  String sb; make_string<255>(sb);
  n_reg_calls = 0; n_label_calls = 0; no_heap::active = true;
  Error e = x86::FormatterInternal::format_operand(sb, ff, nullptr, Arch::kX64, m);
  no_heap::active = false;
  V_ASSERT(e == Error::kOk && no_heap::n_calls == 0, "x86 memory operand formatting succeeds within the buffer given");
  V_ASSERT(n_reg_calls == int(HAS_BASE && !LABEL_BASE) + int(HAS_INDEX) && n_label_calls == int(LABEL_BASE), "one register is printed per register of the operand and one label per label base");

  Cur c(sb.data(), sb.size());
  match_size<SIZE>(c);
  match_seg<SEG>(c);
  c.ch('[');
  if (at == 1) c.lit("abs ");
  if (at == 2) c.lit("rel ");
  if constexpr (LABEL_BASE) match_label_token(c, bid); else if constexpr (HAS_BASE) match_reg_token(c, bt, bid);
  if constexpr (HAS_INDEX) {
    if (HAS_BASE) c.ch('+');
    match_reg_token(c, it, iid);
    if (shift) { c.ch('*'); c.ch(char('0' + (1u << shift))); }
  }
  if (disp != 0 || !(HAS_BASE || HAS_INDEX)) {
    if (disp < 0) c.ch('-'); else if (HAS_BASE || HAS_INDEX) c.ch('+');
    match_number<MAXDEC>(c, mag, hex);
  }
  c.ch(']');
  V_ASSERT(c.at_end(), "x86 memory operand text denotes size, segment, base, index, scale and displacement of the operand");
  observe_text<16>(sb);
  V_WITNESS("x86 mem formatted");
}

constexpr RegType LAB = RegType::kLabelTag, NONE = RegType::kNone, GP64 = RegType::kGp64, GP32 = RegType::kGp32, GP16 = RegType::kGp16, PC = RegType::kPC, XMM = RegType::kVec128, YMM = RegType::kVec256, ZMM = RegType::kVec512;
// One harness per combination of the constant dimensions (a dispatch over them inside one harness costs the solver far more than the sum
// of its cases). Each dimension takes all its values while the others are fixed: the formatter appends size keyword, segment, marker,
// base, index, scale and displacement one after the other, independently. Naming: h_x86mem_<shape>_<size>_<seg>_<marker>_<scale>.
HARNESS h_x86mem_bi_s0_g0_a0_x2() { mem_case<GP64, GP64, 0, 0, 0, 2, 12, 5>(); }
HARNESS h_x86mem_bi_s1_g0_a0_x2() { mem_case<GP64, GP64, 1, 0, 0, 2, 12, 5>(); }
HARNESS h_x86mem_bi_s2_g0_a0_x2() { mem_case<GP64, GP64, 2, 0, 0, 2, 12, 5>(); }
HARNESS h_x86mem_bi_s4_g0_a0_x2() { mem_case<GP64, GP64, 4, 0, 0, 2, 12, 5>(); }
HARNESS h_x86mem_bi_s6_g0_a0_x2() { mem_case<GP64, GP64, 6, 0, 0, 2, 12, 5>(); }
HARNESS h_x86mem_bi_s8_g0_a0_x2() { mem_case<GP64, GP64, 8, 0, 0, 2, 12, 5>(); }
HARNESS h_x86mem_bi_s10_g0_a0_x2() { mem_case<GP64, GP64, 10, 0, 0, 2, 12, 5>(); }
HARNESS h_x86mem_bi_s16_g0_a0_x2() { mem_case<GP64, GP64, 16, 0, 0, 2, 12, 5>(); }
HARNESS h_x86mem_bi_s32_g0_a0_x2() { mem_case<GP64, GP64, 32, 0, 0, 2, 12, 5>(); }
HARNESS h_x86mem_bi_s64_g0_a0_x2() { mem_case<GP64, GP64, 64, 0, 0, 2, 12, 5>(); }
HARNESS h_x86mem_b_s0_g1_a0_x0() { mem_case<GP32, NONE, 0, 1, 0, 0, 12, 5>(); }
HARNESS h_x86mem_b_s0_g2_a0_x0() { mem_case<GP32, NONE, 0, 2, 0, 0, 12, 5>(); }
HARNESS h_x86mem_b_s0_g3_a0_x0() { mem_case<GP32, NONE, 0, 3, 0, 0, 12, 5>(); }
HARNESS h_x86mem_b_s0_g4_a0_x0() { mem_case<GP32, NONE, 0, 4, 0, 0, 12, 5>(); }
HARNESS h_x86mem_b_s0_g5_a0_x0() { mem_case<GP32, NONE, 0, 5, 0, 0, 12, 5>(); }
HARNESS h_x86mem_b_s0_g6_a0_x0() { mem_case<GP32, NONE, 0, 6, 0, 0, 12, 5>(); }
HARNESS h_x86mem_bi_s0_g0_a1_x0() { mem_case<GP64, GP64, 0, 0, 1, 0, 12, 5>(); }
HARNESS h_x86mem_bi_s0_g0_a2_x1() { mem_case<GP64, GP64, 0, 0, 2, 1, 12, 5>(); }
HARNESS h_x86mem_bi_s0_g0_a0_x0() { mem_case<GP64, GP64, 0, 0, 0, 0, 12, 5>(); }
HARNESS h_x86mem_bi_s0_g0_a0_x1() { mem_case<GP64, GP64, 0, 0, 0, 1, 12, 5>(); }
HARNESS h_x86mem_bi_s0_g0_a0_x3() { mem_case<GP64, GP64, 0, 0, 0, 3, 12, 5>(); }
HARNESS h_x86mem_abs_s4_g0_a0_x0() { mem_case<NONE, NONE, 4, 0, 0, 0, 12, 5>(); }
HARNESS h_x86mem_abs_s4_g0_a1_x0() { mem_case<NONE, NONE, 4, 0, 1, 0, 12, 5>(); }
HARNESS h_x86mem_abs_s4_g0_a2_x0() { mem_case<NONE, NONE, 4, 0, 2, 0, 12, 5>(); }
HARNESS h_x86mem_abs_s0_g3_a0_x0() { mem_case<NONE, NONE, 0, 3, 0, 0, 12, 5>(); }
HARNESS h_x86mem_i_s8_g0_a0_x0() { mem_case<NONE, GP32, 8, 0, 0, 0, 12, 5>(); }
HARNESS h_x86mem_i_s8_g0_a0_x2() { mem_case<NONE, GP32, 8, 0, 0, 2, 12, 5>(); }
HARNESS h_x86mem_b_s0_g0_a0_x0() { mem_case<GP64, NONE, 0, 0, 0, 0, 12, 5>(); }
HARNESS h_x86mem_b_s8_g4_a2_x0() { mem_case<GP64, NONE, 8, 4, 2, 0, 12, 5>(); }
HARNESS h_x86mem_rip_s8_g0_a0_x0() { mem_case<PC, NONE, 8, 0, 0, 0, 12, 5>(); }
HARNESS h_x86mem_rip_s0_g5_a2_x0() { mem_case<PC, NONE, 0, 5, 2, 0, 12, 5>(); }
HARNESS h_x86mem_b16i16_s2_g0_a0_x0() { mem_case<GP16, GP16, 2, 0, 0, 0, 12, 5>(); }
HARNESS h_x86mem_vsibx_s4_g0_a0_x2() { mem_case<GP64, XMM, 4, 0, 0, 2, 12, 5>(); }
HARNESS h_x86mem_vsiby_s8_g0_a0_x3() { mem_case<GP32, YMM, 8, 0, 0, 3, 12, 5>(); }
HARNESS h_x86mem_vsibz_s0_g0_a0_x1() { mem_case<NONE, ZMM, 0, 0, 0, 1, 12, 5>(); }
HARNESS h_x86mem_lab_s4_g0_a0_x0() { mem_case<LAB, NONE, 4, 0, 0, 0, 12, 5>(); }
HARNESS h_x86mem_labi_s8_g0_a2_x3() { mem_case<LAB, GP64, 8, 0, 2, 3, 12, 5>(); }
HARNESS h_x86mem_bi_s8_g5_a0_x3_wide() { mem_case<GP64, GP64, 8, 5, 0, 3, 24, 9>(); }
HARNESS h_x86mem_abs_s4_g0_a1_x0_wide() { mem_case<NONE, NONE, 4, 0, 1, 0, 24, 9>(); }

// a label operand: the text is the label's (here: the token of the id given)
HARNESS h_x86op_label() {
  uint32_t id = nondet_u16();
  String sb; make_string<255>(sb);
  n_reg_calls = 0; n_label_calls = 0; no_heap::active = true;
  Error e = x86::FormatterInternal::format_operand(sb, any_flags(), nullptr, Arch::kX64, Label(id));
  no_heap::active = false;
  V_ASSERT(e == Error::kOk && no_heap::n_calls == 0 && n_label_calls == 1 && n_reg_calls == 0, "x86 label operand formatting succeeds within the buffer given");
  Cur c(sb.data(), sb.size());
  match_label_token(c, id);
  V_ASSERT(c.at_end(), "x86 label operand text is the label of the id given");
  observe_text<8>(sb);
  V_WITNESS("x86 label operand formatted");
}
