// C20 — x86 formatter (x86/x86formatter.cpp): the text of a register, a memory operand and an immediate denotes exactly that operand.
// The register type / operand shape is a constant per harness; ids, sizes, segments, shifts, displacements, immediates, broadcast and
// the format flags are symbolic. The text is matched by vfmt::Cur (fmt_match.h): names from the manuals, numbers parsed back.
#include <asmjit/x86.h>
#include <asmjit/x86/x86formatter_p.h>
#include <asmjit/core/formatter_p.h>
#include "verif.h"
#include "fmt_match.h"

using namespace asmjit;
using vfmt::Cur; using vfmt::make_string; using vfmt::observe_text; using vfmt::any_flags; using vfmt::match_number;

// ---- registers ------------------------------------------------------------------------------------------------------------
template<RegType T> static void reg_case() {
  constexpr uint32_t CNT = vfmt::x86_reg_count<T>();
  uint32_t id = nondet_u8();
  V_ASSUME(id < CNT);
  if (T == RegType::kSegment) V_ASSUME(id != 0);   // id 0 is "no segment", not a register
  String sb; make_string<255>(sb);
  no_heap::active = true;
  Error e = x86::FormatterInternal::format_register(sb, any_flags(), nullptr, Arch::kX64, T, id);
  no_heap::active = false;
  V_ASSERT(e == Error::kOk && no_heap::n_calls == 0, "x86 register formatting succeeds within the buffer given");
  Cur c(sb.data(), sb.size());
  vfmt::match_x86_reg<T>(c, id);
  V_ASSERT(c.at_end(), "x86 register text is the architectural name of (type, id)");
  observe_text<8>(sb);
  V_WITNESS("x86 reg formatted");
}
HARNESS h_x86reg_gp8lo() { reg_case<RegType::kGp8Lo>(); }
HARNESS h_x86reg_gp8hi() { reg_case<RegType::kGp8Hi>(); }
HARNESS h_x86reg_gp16() { reg_case<RegType::kGp16>(); }
HARNESS h_x86reg_gp32() { reg_case<RegType::kGp32>(); }
HARNESS h_x86reg_gp64() { reg_case<RegType::kGp64>(); }
HARNESS h_x86reg_xmm() { reg_case<RegType::kVec128>(); }
HARNESS h_x86reg_ymm() { reg_case<RegType::kVec256>(); }
HARNESS h_x86reg_zmm() { reg_case<RegType::kVec512>(); }
HARNESS h_x86reg_k() { reg_case<RegType::kMask>(); }
HARNESS h_x86reg_mm() { reg_case<RegType::kX86_Mm>(); }
HARNESS h_x86reg_seg() { reg_case<RegType::kSegment>(); }
HARNESS h_x86reg_cr() { reg_case<RegType::kControl>(); }
HARNESS h_x86reg_dr() { reg_case<RegType::kDebug>(); }
HARNESS h_x86reg_st() { reg_case<RegType::kX86_St>(); }
HARNESS h_x86reg_bnd() { reg_case<RegType::kX86_Bnd>(); }
HARNESS h_x86reg_tmm() { reg_case<RegType::kTile>(); }
HARNESS h_x86reg_rip() { reg_case<RegType::kPC>(); }

// ---- immediates -----------------------------------------------------------------------------------------------------------
// BITS bounds the magnitude when the decimal path is taken (the /10 digit loop of String::_op_number is the slow kernel for SAT);
// the hexadecimal path is unbounded (64 bits).
template<unsigned BITS, unsigned MAXDEC> static void imm_case() {
  int64_t v = int64_t(nondet_u64());
  FormatFlags ff = any_flags();
  bool hex = Support::test(ff, FormatFlags::kHexImms);
  if (!(hex && uint64_t(v) > 9)) V_ASSUME(v >= -(int64_t(1) << BITS) && v < (int64_t(1) << BITS));
  ff &= ~FormatFlags::kExplainImms;
  String sb; make_string<255>(sb);
  no_heap::active = true;
  Error e = x86::FormatterInternal::format_operand(sb, ff, nullptr, Arch::kX64, Imm(v));
  no_heap::active = false;
  V_ASSERT(e == Error::kOk && no_heap::n_calls == 0, "x86 immediate formatting succeeds within the buffer given");
  Cur c(sb.data(), sb.size());
  if (hex && uint64_t(v) > 9) {
    c.lit("0x");
    V_ASSERT(c.uhex<16>() == uint64_t(v) && c.at_end(), "hexadecimal immediate text parses back to the value (two's complement)");
    V_WITNESS("imm hex");
  }
  else {
    bool neg = v < 0;
    if (neg) c.ch('-');
    uint64_t mag = neg ? uint64_t(0) - uint64_t(v) : uint64_t(v);
    V_ASSERT(c.udec<MAXDEC>() == mag && c.at_end(), "decimal immediate text parses back to the value");
    V_WITNESS("imm dec");
  }
  observe_text<24>(sb);
}
HARNESS h_x86imm_16() { imm_case<16, 6>(); }
HARNESS h_x86imm_24() { imm_case<24, 9>(); }   // wider decimal ranges do not reach a verdict within an hour (32 bits: > 3600 s)

