// C20 — label names (core/formatter.cpp Formatter::format_label, real; String::append / append_format real): the text names the label that
// was given - "L<id>" for a label without a name (whether bound or not, with or without an emitter / a code holder), the name for a named
// label, "L<id>@<name>" for a named label of anonymous type, "<parent>.<name>" for a local label (the parent by its name or as "L<id>"),
// and a text that contains the id for an id outside the label table. The label table is built by hand in a typed CodeHolder environment
// (include/ch_env.h): entries as new_label_id / new_named_label_id / bind_label leave them. Names are constants of equal length, different
// per entry (a wrong entry shows); which entry is asked for, which entry is the parent, and the section a label is bound to are symbolic.
#include <asmjit/x86.h>
#include <asmjit/core/formatter_p.h>
#include "verif.h"
#include "ch_env.h"
#include "fmt_match.h"

using namespace asmjit;
using vfmt::Cur; using vfmt::make_string; using vfmt::observe_text;

template<typename T> union Raw { T v; Raw() noexcept {} ~Raw() noexcept {} };
static Raw<x86::Assembler> asm_store;   // only BaseEmitter::_code is read

// extra data of a named label: the name follows the header (LabelEntry::ExtraData::name() is "this + sizeof(ExtraData)")
struct NamedData { LabelEntry::ExtraData ed; char name[8]; };
static NamedData named[4];
static const char kNames[4][8] = {"alpha_0", "bravo_1", "delta_2", "gamma_3"};   // 7 characters each
constexpr size_t kNameLen = 7;

static inline void make_named(uint32_t i, LabelType type, uint32_t parent, uint32_t bound_to) {
  NamedData& d = named[i];
  d.ed._section_id = bound_to; d.ed._internal_label_type = type;
  d.ed._internal_label_flags = LabelFlags::kHasOwnExtraData | LabelFlags::kHasName | (parent != Globals::kInvalidId ? LabelFlags::kHasParent : LabelFlags::kNone);
  d.ed._internal_uint16_data = 0; d.ed._parent_id = parent; d.ed._name_size = uint32_t(kNameLen);
  for (size_t k = 0; k < 8; k++) d.name[k] = kNames[i][k];
  chenv::label_tab[i]._object_data = &d.ed; chenv::label_tab[i]._offset_or_fixups = 0;
}
static inline uint32_t any_binding() { return nondet_bool() ? Globals::kInvalidId : uint32_t(nondet_u8() & 3); }   // unbound, or bound to one of 4 sections
static inline const BaseEmitter* emitter_with_code(CodeHolder* c) { asm_store.v._code = c; return &asm_store.v; }
static inline void match_name(Cur& c, uint32_t i) { for (size_t k = 0; k < kNameLen; k++) c.ch(kNames[i & 3][k]); }

static inline Error run(String& sb, const BaseEmitter* em, uint32_t id) {
  no_heap::n_calls = 0; no_heap::active = true;
  Error e = Formatter::format_label(sb, vfmt::any_flags(), em, id);
  no_heap::active = false;
  return e;
}

// ---- labels without a name --------------------------------------------------------------------------------------------------
// no emitter / an emitter that is not attached to a code holder: "L<id>" (ids below 1024: the decimal parse-back of wider numbers is slow for SAT)
HARNESS h_label_noemitter() {
  uint32_t id = nondet_u16() & 0x3FF;
  bool detached = nondet_bool();
  asm_store.v._code = nullptr;
  String sb; make_string<255>(sb);
  Error e = run(sb, detached ? &asm_store.v : nullptr, id);
  V_ASSERT(e == Error::kOk && no_heap::n_calls == 0, "label formatting without a code holder succeeds within the buffer given");
  Cur c(sb.data(), sb.size()); c.ch('L');
  V_ASSERT(c.udec<4>() == id && c.at_end(), "without a code holder a label is named L and its id");
  observe_text<8>(sb);
  V_WITNESS("label without holder formatted");
}
// anonymous labels of a 20-entry table, unbound (shared extra data) or bound (the entry designates the section), symbolic id
static LabelEntry big_tab[20];
HARNESS h_label_anonymous() {
  CodeHolder* code = chenv::make_holder(Arch::kX64, 4);
  uint32_t id = nondet_u8() & 31; if (id >= 20) id -= 16;
  for (uint32_t i = 0; i < 20; i++) { big_tab[i]._object_data = &chenv::shared_extra; big_tab[i]._offset_or_fixups = 0; }
  if (nondet_bool()) { big_tab[id]._object_data = chenv::sec(nondet_u8() & 3); big_tab[id]._offset_or_fixups = nondet_u8(); }
  code->_label_entries._data = big_tab; code->_label_entries._size = 20; code->_label_entries._capacity = 20;
  String sb; make_string<255>(sb);
  Error e = run(sb, emitter_with_code(code), id);
  V_ASSERT(e == Error::kOk && no_heap::n_calls == 0, "anonymous label formatting succeeds within the buffer given");
  Cur c(sb.data(), sb.size()); c.ch('L');
  V_ASSERT(c.udec<2>() == id && c.at_end(), "an anonymous label is named L and its id");
  observe_text<8>(sb);
  V_WITNESS("anonymous label formatted");
}
// ids outside the table: the text contains the id (what the code prints: <InvalidLabel:id>). WIDE: the 256 ids behind the table (symbolic),
// otherwise one large constant id (a symbolic 32-bit decimal parse-back is not decided in the budget).
template<uint32_t FIXED> static void invalid_case() {
  CodeHolder* code = chenv::make_holder(Arch::kX64, 1);
  chenv::add_label(); chenv::add_label(); chenv::add_label();   // ids 0..2 exist
  uint32_t id = FIXED ? FIXED : 3 + nondet_u8();
  String sb; make_string<255>(sb);
  Error e = run(sb, emitter_with_code(code), id);
  V_ASSERT(e == Error::kOk && no_heap::n_calls == 0, "formatting an invalid label id succeeds within the buffer given");
  Cur c(sb.data(), sb.size()); c.lit("<InvalidLabel:");
  uint64_t v = c.udec<10>(); c.ch('>');
  V_ASSERT(v == id && c.at_end(), "an id outside the label table is shown as invalid together with the id");
  observe_text<24>(sb);
  V_WITNESS("invalid label formatted");
}
HARNESS h_label_invalid() { invalid_case<0>(); }
HARNESS h_label_invalid_max() { invalid_case<0xFFFFFFFFu>(); }
HARNESS h_label_invalid_big() { invalid_case<3000000000u>(); }

// ---- named labels -----------------------------------------------------------------------------------------------------------
// TYPE: type of the four entries; every entry has its own name
template<LabelType TYPE> static void named_case() {
  CodeHolder* code = chenv::make_holder(Arch::kX64, 4);
  for (uint32_t i = 0; i < 4; i++) make_named(i, TYPE, Globals::kInvalidId, any_binding());
  code->_label_entries._size = 4;
  uint32_t id = nondet_u8() & 3;
  String sb; make_string<255>(sb);
  Error e = run(sb, emitter_with_code(code), id);
  V_ASSERT(e == Error::kOk && no_heap::n_calls == 0, "named label formatting succeeds within the buffer given");
  Cur c(sb.data(), sb.size());
  if (TYPE == LabelType::kAnonymous) { c.ch('L'); c.ch(char('0' + id)); c.ch('@'); }
  match_name(c, id);
  V_ASSERT(c.at_end(), "a named label is shown by its own name (an anonymous one as L id @ name)");
  observe_text<16>(sb);
  V_WITNESS("named label formatted");
}
HARNESS h_label_global() { named_case<LabelType::kGlobal>(); }
HARNESS h_label_external() { named_case<LabelType::kExternal>(); }
HARNESS h_label_anon_named() { named_case<LabelType::kAnonymous>(); }

// local labels 2, 3 with a parent p in {0, 1}; NAMED_PARENT: the parents are global named labels, otherwise anonymous ones
template<bool NAMED_PARENT> static void local_case() {
  CodeHolder* code = chenv::make_holder(Arch::kX64, 4);
  uint32_t p2 = nondet_u8() & 1, p3 = nondet_u8() & 1;
  for (uint32_t i = 0; i < 2; i++) {
    if (NAMED_PARENT) make_named(i, LabelType::kGlobal, Globals::kInvalidId, any_binding());
    else { chenv::label_tab[i]._object_data = &chenv::shared_extra; chenv::label_tab[i]._offset_or_fixups = 0; }
  }
  make_named(2, LabelType::kLocal, p2, any_binding());
  make_named(3, LabelType::kLocal, p3, any_binding());
  code->_label_entries._size = 4;
  uint32_t id = 2 + (nondet_u8() & 1);
  uint32_t parent = id == 2 ? p2 : p3;
  String sb; make_string<255>(sb);
  Error e = run(sb, emitter_with_code(code), id);
  V_ASSERT(e == Error::kOk && no_heap::n_calls == 0, "local label formatting succeeds within the buffer given");
  Cur c(sb.data(), sb.size());
  if (NAMED_PARENT) match_name(c, parent); else { c.ch('L'); c.ch(char('0' + parent)); }
  c.ch('.');
  match_name(c, id);
  V_ASSERT(c.at_end(), "a local label is shown as parent . name with the parent it was created under");
  observe_text<24>(sb);
  V_WITNESS("local label formatted");
}
HARNESS h_label_local_named_parent() { local_case<true>(); }
HARNESS h_label_local_anon_parent() { local_case<false>(); }
