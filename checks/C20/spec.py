# C20 — formatter / logger text denotes the instruction and its operands
import re, os
_here = os.path.dirname(os.path.abspath(__file__))
X86FMT = ['asmjit/x86/x86formatter.cpp', 'asmjit/core/formatter.cpp', 'asmjit/core/string.cpp']
ARMFMT = ['asmjit/arm/armformatter.cpp', 'asmjit/core/string.cpp']
_common = dict(extra_c=['verif_printf.c'], wrap=['malloc', 'realloc'])
_loops = ['VERIF_DIVC', 'VERIF_MEM_LOOPS']
UNITS = [
    Unit('x86op', harness=['h_x86fmt.cpp'], repo_units=X86FMT, cbmc_defines=_loops, **_common),
    Unit('x86mem', harness=['h_x86mem.cpp'], repo_units=X86FMT, cbmc_defines=_loops, **_common),
    Unit('x86line', harness=['h_x86line.cpp'], repo_units=X86FMT, cbmc_defines=_loops + ['VERIF_MEM_LOOPS_ALL'], **_common),
    Unit('mcode', harness=['h_mcode.cpp'], repo_units=['asmjit/core/emitterutils.cpp', 'asmjit/core/string.cpp', 'asmjit/core/logger.cpp'], cbmc_defines=_loops, **_common),
    Unit('label', harness=['h_label.cpp'], repo_units=['asmjit/core/formatter.cpp', 'asmjit/core/string.cpp'], cbmc_defines=_loops, **_common),
    Unit('a64op', harness=['h_a64fmt.cpp'], repo_units=ARMFMT, cbmc_defines=_loops, **_common),
    Unit('a64mem', harness=['h_a64mem.cpp'], repo_units=ARMFMT, cbmc_defines=_loops, **_common),
    Unit('a64line', harness=['h_a64line.cpp'], repo_units=['asmjit/arm/a64formatter.cpp'] + ARMFMT, cbmc_defines=_loops + ['VERIF_MEM_LOOPS_ALL'], **_common),
]
def _fns(src):
    return re.findall(r'^HARNESS (h_\w+)\(\)', open(os.path.join(_here, src)).read(), re.M)
def _known(fn):
    m = re.search(r'_kf_(\w+)$', fn)
    return m.group(1) if m else None
HARNESSES = []
for unit, src in (('x86op', 'h_x86fmt.cpp'), ('x86mem', 'h_x86mem.cpp')):
  for fn in _fns(src):
    wide = fn.endswith('_wide') or fn.endswith('imm_24')
    HARNESSES.append(Harness(unit, fn, unwind=18, mem_gb=3, timeout=900 if not wide else 3600, tiers=('thorough',) if wide else ('quick', 'thorough'),
        bounds='register type / operand shape constant per harness; ids, size, segment, shift, displacement, immediate and all format flags symbolic; decimal numbers bounded as the template arguments say '
               '(hexadecimal: full width); label bases and label operands: 16-bit ids through a token stub of Formatter::format_label'))
# x86 instruction line. Cheap harnesses (everything that decides a length is a constant) get a small memory reservation so that they run side by side.
_line_sym = ('_w_vex', '_w_form', '_w_lock', '_w_rep', '_w_repreg', '_x_', '_full6', '_id', '_badid')
for fn in _fns('h_x86line.cpp'):
    heavy = any(t in fn for t in _line_sym)
    HARNESSES.append(Harness('x86line', fn, unwind=100, mem_gb=4 if heavy else 1, timeout=900,
        bounds='operands and mnemonic are fixed-length tokens from harness stubs; h_x86line_w_*: the option words of one group symbolic (others off), no operands; '
               'h_x86line_x_*: one symbolic group in front of 1 or 3 operands; the others: options constant per harness, 0..6 operands; register ids, immediate value, mask '
               'register id 1..7, broadcast within {2,4,8} / {16,32,64}, instruction id (h_x86line_id: every defined id; h_x86line_badid: the 65536 ids above the last defined one) '
               'and the format flags (except kExplainImms) symbolic'))
for fn in _fns('h_mcode.cpp'):
    HARNESSES.append(Harness('mcode', fn, unwind=33, mem_gb=2, timeout=900,
        bounds='h_mc_col_*: finish_formatted_line with n = 0..6 bytes and every split into opcode / pending displacement / immediate (rel + imm <= n), n = 7..15 (and 2 with user paddings / a long line) '
               'with rel in {0,1,4} and imm in {0,1,2,4,8}; byte values and format flags symbolic; instruction text of 10, 14 or 50 characters; paddings default (44 / 26) or 20 / 12; comment absent or a 5-character constant. '
               'h_mc_emit_*: log_instruction_emitted with 1, 5, 6, 7, 15 bytes behind the cursor, constant rel / imm / indentation / paddings per harness; bytes, instruction id, options, extra register, the six operands '
               '(raw 128-bit values), architecture byte and format flags symbolic'))
for fn in _fns('h_label.cpp'):
    HARNESSES.append(Harness('label', fn, unwind=28, mem_gb=3, timeout=900,
        bounds='label tables of 4 entries (20 for anonymous labels) built by hand; which entry is asked for, the parent (one of two), bound / unbound and the section symbolic; names are 7-character constants, '
               'different per entry; ids without a code holder below 1024; invalid ids: the 256 ids behind the table, 3000000000 and 0xFFFFFFFF'))
for unit, src in (('a64op', 'h_a64fmt.cpp'), ('a64mem', 'h_a64mem.cpp'), ('a64line', 'h_a64line.cpp')):
  for fn in _fns(src):
    HARNESSES.append(Harness(unit, fn, unwind=42 if unit == 'a64line' else 26, mem_gb=3, timeout=900, known=_known(fn),
        bounds='a64op: register kind / arrangement constant per harness, ids 0..31 (w/x: 0..30, sp / zr separately) symbolic; element index: every index on format_register itself, the last element through '
               'format_operand; immediates: 12-bit decimal / 64-bit hexadecimal symbolic without modifier, constants with a modifier; modifier names: all 16 field values. a64mem: addressing form, index width and '
               'modifier constant per harness; base / index ids (labels: 16 bits) symbolic, amount 0..4 (one path each), offset symbolic (12-bit decimal / 32-bit hexadecimal) in the base+offset form, -256 and 4095 '
               'in the pre / post / label forms. a64line: 0..6 operands (token stubs), condition EQ..LE symbolic, every defined instruction id (h_a64line_id), kIdNone and the 256 ids above the table (badid)'))
EXPLANATION = 'bounded symbolic execution (CBMC) of the real formatter compiled from /repo; the produced text is matched token by token against names from the architecture manuals and numbers are parsed back'
OUTSIDE = [
    'x86 instruction line: combinations of option words from different groups other than "all set" / "none set" (the formatter appends the groups one after the other; each group is decided with all its combinations)',
    'FormatFlags::kExplainImms (the explanation of an immediate is commentary, not denotation); undefined x86 instruction ids above _kIdCount + 65535 and other 32-bit decimal numbers wider than the bounds say (a symbolic 32-bit decimal parse-back is not decided by SAT in the budget)',
    'machine-code column: more than 15 bytes and, for 7..15 bytes, splits other than rel in {0,1,4} x imm in {0,1,2,4,8} (one path per split: about 1.5 s each); symbolic paddings / indentation '
    '(they decide text lengths; decided for the defaults and one user setting); comments other than one constant (the comment is copied by String::append, its length by str_nlen up to 1024); lines that do not fit the 256-byte StringTmp (growth is C15)',
    'log_label_bound and the whole-log transcript over real emission sweeps (C01 / C02): the column is decided on symbolic bytes in the buffer, not on bytes produced by an encoder run',
    'labels: names with symbolic characters (a name is copied by String::append(const char*)); label tables beyond 20 entries',
    'AArch64: virtual registers (Compiler), register lists, [base, index, offset] mixed forms, PC-relative and absolute-address memory operands, CondCode::kNA, AArch32 register names; an Imm whose modifier is LSL prints like one without modifier (ShiftOp::kLSL is 0)',
    'virtual-register naming through a Compiler, format_node_list',
]
ASSUMPTIONS = [
    'vsnprintf/snprintf are modelled by tools/verif_printf.c (%%, %c, %s, %d, %u, %zu, %0Nu); the native twin runs libc, and translator validation compares the two on random runs',
    'x86mem / x86line / a64mem / a64line: FormatterInternal::format_register (and in the line units format_operand and InstInternal::inst_id_to_string; in x86mem / a64mem Formatter::format_label) are harness stubs that append a '
    'fixed-length token encoding their arguments; their own text is decided by the x86op / a64op / label units (mnemonics: C13)',
    'mcode: BaseEmitter::_funcs.format_instruction is a harness stub (records its arguments, appends a fixed token); the logger is a harness subclass of Logger that keeps the text; the assembler object is typed storage with the '
    'fields log_instruction_emitted reads (_logger, _funcs, _buffer_ptr, _environment, _extra_reg, _inline_comment); the cursor stands at the first byte of its own array object (pointer differences of other shapes are not folded by the solver front end)',
    'label: CodeHolder label table and LabelEntry::ExtraData records are built by hand (include/ch_env.h) in the states new_label_id / new_named_label_id / bind_label leave them',
    'the String written to has external storage of 255 characters (no allocation is a checked side condition: malloc / realloc are wrapped and counted)',
]
