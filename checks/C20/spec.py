# C20 — formatter / logger text denotes the instruction and its operands
import re, os
_here = os.path.dirname(os.path.abspath(__file__))
X86FMT = ['asmjit/x86/x86formatter.cpp', 'asmjit/core/formatter.cpp', 'asmjit/core/string.cpp']
_common = dict(extra_c=['verif_printf.c'], wrap=['malloc', 'realloc'])
UNITS = [
    Unit('x86op', harness=['h_x86fmt.cpp'], repo_units=X86FMT, cbmc_defines=['VERIF_DIVC', 'VERIF_MEM_LOOPS'], **_common),
    Unit('x86mem', harness=['h_x86mem.cpp'], repo_units=X86FMT, cbmc_defines=['VERIF_DIVC', 'VERIF_MEM_LOOPS'], **_common),
    Unit('x86line', harness=['h_x86line.cpp'], repo_units=X86FMT, cbmc_defines=['VERIF_DIVC', 'VERIF_MEM_LOOPS', 'VERIF_MEM_LOOPS_ALL'], **_common),
    Unit('mcode', harness=['h_mcode.cpp'], repo_units=['asmjit/core/emitterutils.cpp', 'asmjit/core/string.cpp', 'asmjit/core/logger.cpp'], cbmc_defines=['VERIF_DIVC', 'VERIF_MEM_LOOPS'], **_common),
    Unit('label', harness=['h_label.cpp'], repo_units=['asmjit/core/formatter.cpp', 'asmjit/core/string.cpp'], cbmc_defines=['VERIF_DIVC', 'VERIF_MEM_LOOPS'], **_common),
    Unit('a64op', harness=['h_a64fmt.cpp'], repo_units=['asmjit/arm/armformatter.cpp', 'asmjit/core/string.cpp'], cbmc_defines=['VERIF_DIVC', 'VERIF_MEM_LOOPS'], **_common),
    Unit('a64mem', harness=['h_a64mem.cpp'], repo_units=['asmjit/arm/armformatter.cpp', 'asmjit/core/string.cpp'], cbmc_defines=['VERIF_DIVC', 'VERIF_MEM_LOOPS'], **_common),
]
def _fns(src):
    return re.findall(r'^HARNESS (h_\w+)\(\)', open(os.path.join(_here, src)).read(), re.M)
HARNESSES = []
for unit, src in (('x86op', 'h_x86fmt.cpp'), ('x86mem', 'h_x86mem.cpp')):
  for fn in _fns(src):
    wide = fn.endswith('_wide') or fn.endswith('imm_32')
    HARNESSES.append(Harness(unit, fn, unwind=18, mem_gb=6, timeout=900 if not wide else 3600, tiers=('thorough',) if wide else ('quick', 'thorough'),
        bounds='register type / operand shape constant per harness; ids, size, segment, shift, displacement, immediate and all format flags symbolic; decimal numbers bounded as the template arguments say (hexadecimal: full width)'))
# x86 instruction line. Cheap harnesses (everything that decides a length is a constant) get a small memory reservation so that they run side by side.
_line_sym = ('_w_vex', '_w_form', '_w_lock', '_w_rep', '_w_repreg', '_x_', '_full6', '_id', '_badid')
for fn in _fns('h_x86line.cpp'):
    heavy = any(t in fn for t in _line_sym)
    HARNESSES.append(Harness('x86line', fn, unwind=100, mem_gb=6 if heavy else 2, timeout=900,
        bounds='operands and mnemonic are fixed-length tokens from harness stubs; h_x86line_w_*: the option words of one group symbolic (others off), no operands; '
               'h_x86line_x_*: one symbolic group in front of 1 or 3 operands; the others: options constant per harness, 0..6 operands; register ids, immediate value, mask '
               'register id 1..7, broadcast within {2,4,8} / {16,32,64}, instruction id (h_x86line_id: every defined id; h_x86line_badid: the 65536 ids above the last defined one) '
               'and the format flags (except kExplainImms) symbolic'))
for fn in _fns('h_mcode.cpp'):
    HARNESSES.append(Harness('mcode', fn, unwind=33, mem_gb=4, timeout=900, bounds='TODO'))
for fn in _fns('h_label.cpp'):
    HARNESSES.append(Harness('label', fn, unwind=28, mem_gb=4, timeout=900, bounds='TODO'))
for unit, src in (('a64op', 'h_a64fmt.cpp'), ('a64mem', 'h_a64mem.cpp')):
  for fn in _fns(src):
    m = re.search(r'_kf_(\w+)$', fn)
    HARNESSES.append(Harness(unit, fn, unwind=26, mem_gb=4, timeout=900, known=m.group(1) if m else None, bounds='TODO'))
EXPLANATION = 'bounded symbolic execution (CBMC) of the real formatter compiled from /repo; the produced text is matched token by token against names from the architecture manuals and numbers are parsed back'
OUTSIDE = [
    'x86 instruction line: combinations of option words from different groups other than "all set" / "none set" (the formatter appends the groups one after the other; each group is decided with all its combinations)',
    'x86 instruction line: FormatFlags::kExplainImms (the explanation of an immediate is commentary, not denotation); undefined instruction ids above _kIdCount + 65535 (32-bit decimal parse-back is not decided by SAT in the budget)',
]
ASSUMPTIONS = [
    'vsnprintf/snprintf are modelled by tools/verif_printf.c (%%, %c, %s, %d, %u, %zu, %0Nu); the native twin runs libc, and translator validation compares the two on random runs',
    'x86mem / x86line: x86::FormatterInternal::format_register (and in x86line format_operand and InstInternal::inst_id_to_string) are harness stubs that append a fixed-length token encoding their arguments; their own text is decided by the x86op unit (mnemonics: C13)',
]
