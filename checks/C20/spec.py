# C20 — formatter / logger text denotes the instruction and its operands
import re, os
_here = os.path.dirname(os.path.abspath(__file__))
X86FMT = ['asmjit/x86/x86formatter.cpp', 'asmjit/core/formatter.cpp', 'asmjit/core/string.cpp']
UNITS = [
    Unit('x86op', harness=['h_x86fmt.cpp'], repo_units=X86FMT, extra_c=['verif_printf.c'], wrap=['malloc', 'realloc'], cbmc_defines=['VERIF_DIVC', 'VERIF_MEM_LOOPS']),
    Unit('x86mem', harness=['h_x86mem.cpp'], repo_units=X86FMT, extra_c=['verif_printf.c'], wrap=['malloc', 'realloc'], cbmc_defines=['VERIF_DIVC', 'VERIF_MEM_LOOPS']),
    Unit('x86line', harness=['h_x86line.cpp'], repo_units=X86FMT, extra_c=['verif_printf.c'], wrap=['malloc', 'realloc'], cbmc_defines=['VERIF_DIVC', 'VERIF_MEM_LOOPS', 'VERIF_MEM_LOOPS_ALL']),
]
def _fns(src):
    return re.findall(r'^HARNESS (h_\w+)\(\)', open(os.path.join(_here, src)).read(), re.M)
HARNESSES = []
for unit, src in (('x86op', 'h_x86fmt.cpp'), ('x86mem', 'h_x86mem.cpp'), ('x86line', 'h_x86line.cpp')):
  for fn in _fns(src):
    wide = fn.endswith('_wide') or fn.endswith('imm_32')
    HARNESSES.append(Harness(unit, fn, unwind=18, mem_gb=6, timeout=900 if not wide else 3600, tiers=('thorough',) if wide else ('quick', 'thorough'),
        bounds='register type / operand shape constant per harness; ids, size, segment, shift, displacement, immediate and all format flags symbolic; decimal numbers bounded as the template arguments say (hexadecimal: full width)'))
EXPLANATION = 'bounded symbolic execution (CBMC) of the real formatter compiled from /repo; the produced text is matched token by token against names from the architecture manuals and numbers are parsed back'
OUTSIDE = []
ASSUMPTIONS = ['vsnprintf/snprintf are modelled by tools/verif_printf.c (%%, %c, %s, %d, %u, %zu, %0Nu); the native twin runs libc, and translator validation compares the two on random runs']
