// C11 H2 — CpuInfo::host() (cpuinfo.cpp), the lazily initialised process-wide host description: flag + payload in
// function-local statics. The real function runs with the detection INPUTS replaced: CPUID / XGETBV answer from a harness
// table (symbolic feature words), sysconf(_SC_NPROCESSORS_ONLN) is a harness function. The race "a second thread arrives
// while the first one is still detecting" is modelled sequentially: the sysconf stub - called by the first caller in the
// middle of its detection, before the cache is published - calls CpuInfo::host() itself once. That inner caller must get
// a completely initialised CpuInfo (what a lone caller gets), never the zero-initialised cache, and every later call
// returns the same value without detecting again.
#include "verif.h"
#include <asmjit/core.h>
#include <atomic>
#include <unistd.h>
#include "intrin.h"

static uint32_t g_leaf1_ecx, g_leaf1_edx, g_leaf7_ebx, g_leaf7_ecx; static unsigned g_threads;
static int g_cpuid_calls, g_sysconf_calls; static bool g_arm_inner, g_inner_done;
static asmjit::CpuInfo g_inner_copy;

void __cpuidex(int* out, int eax, int ecx) {
  g_cpuid_calls++;
  uint32_t r[4] = { 0, 0, 0, 0 };
  switch (uint32_t(eax)) {
    case 0x0: r[0] = 7; r[1] = 0x756E6547; r[3] = 0x49656E69; r[2] = 0x6C65746E; break;          // max leaf 7, "GenuineIntel"
    case 0x1: r[0] = 0x000906EA; r[2] = g_leaf1_ecx; r[3] = g_leaf1_edx; break;
    case 0x7: if (ecx == 0) { r[1] = g_leaf7_ebx; r[2] = g_leaf7_ecx; } break;
    case 0x80000000u: r[0] = 0x80000001u; break;
    default: break;
  }
  for (int i = 0; i < 4; i++) out[i] = int(r[i]);
}
unsigned long long _xgetbv(unsigned int) { return 0x7; }
extern "C" long sysconf(int name) noexcept {
  if (name != _SC_NPROCESSORS_ONLN) return 4096;
  g_sysconf_calls++;
  if (g_arm_inner && !g_inner_done) {
    g_inner_done = true;
    const asmjit::CpuInfo& inner = asmjit::CpuInfo::host();     // "another thread" asks while the first caller is still detecting
    g_inner_copy = inner;
  }
  return long(g_threads);
}

#define _MSC_VER 1930   // selects the intrinsic spelling of CPUID / XGETBV inside cpuinfo.cpp only: every header is included already
#include <asmjit/core/cpuinfo.cpp>
#undef _MSC_VER
using namespace asmjit;

// member by member (the struct has tail padding that a copy of a stack object carries along with arbitrary contents)
static bool same_info(const CpuInfo& a, const CpuInfo& b) {
  bool eq = a._arch == b._arch && a._sub_arch == b._sub_arch && a._was_detected == b._was_detected && a._reserved == b._reserved &&
            a._family_id == b._family_id && a._model_id == b._model_id && a._brand_id == b._brand_id && a._stepping == b._stepping &&
            a._processor_type == b._processor_type && a._max_logical_processors == b._max_logical_processors &&
            a._cache_line_size == b._cache_line_size && a._hw_thread_count == b._hw_thread_count && a._hints == b._hints;
  for (size_t i = 0; i < 16 / 4; i++) eq = eq && a._vendor.u32[i] == b._vendor.u32[i];
  for (size_t i = 0; i < 64 / 4; i++) eq = eq && a._brand.u32[i] == b._brand.u32[i];
  return eq && a._features == b._features;
}
HARNESS h_cpu_info_host() {
  g_leaf1_ecx = nondet_u32(); g_leaf1_edx = nondet_u32(); g_leaf7_ebx = nondet_u32(); g_leaf7_ecx = nondet_u32(); g_threads = 1 + (nondet_u8() & 63);
  g_cpuid_calls = 0; g_sysconf_calls = 0; g_arm_inner = true; g_inner_done = false;
  const CpuInfo& outer = CpuInfo::host();                          // first caller (detects; the inner caller arrives meanwhile)
  CpuInfo first(outer);
  int cpuid_after_first = g_cpuid_calls;
  g_leaf1_ecx = ~g_leaf1_ecx; g_threads = 65;                      // whatever the machine would answer now must not matter
  const CpuInfo& again = CpuInfo::host();
  verif_observe(outer.hw_thread_count()); verif_observe(outer.features().x86().has_sse2());
  V_ASSERT(&again == &outer && same_info(first, again) && g_cpuid_calls == cpuid_after_first, "CpuInfo::host: once initialised, every call returns the same value and nothing is detected again");
  V_ASSERT(outer._was_detected && outer.hw_thread_count() >= 1 && outer.arch() == Arch::kHost, "CpuInfo::host: the value handed out is a detected host description");
  V_ASSERT(g_inner_done, "CpuInfo::host: the detection asked for the number of hardware threads (where the second caller arrives)");
  V_ASSERT(same_info(g_inner_copy, first), "CpuInfo::host: a caller arriving during the first caller's detection gets the completely initialised value, never the empty cache");
  V_WITNESS("cpu-info-host");
}
