// Stand-in for the MSVC <intrin.h>, found through -I<check dir> when h_cpuinfo.cpp compiles asmjit/core/cpuinfo.cpp with
// _MSC_VER defined: cpuinfo.cpp then spells CPUID / XGETBV as the two intrinsics below (its GNU branch is inline assembly,
// which the IR translator cannot encode); the harness defines them.
#pragma once
void __cpuidex(int* out, int eax, int ecx);
unsigned long long _xgetbv(unsigned int ecx);
