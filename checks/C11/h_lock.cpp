// C11 H1 — lock discipline of the JitAllocator entry points, decided over all paths of one call from the C09 symbolic
// pre-state (one block of 64 granules in any state of I).
//
// How "shared state is only touched under the lock" is decided: outside the critical section the shared bookkeeping
// (impl counters, tree root, the pool's mutable fields, the block's header fields and both bit vectors) holds GARBAGE -
// nondeterministic values, null links. The pthread_mutex_lock stub installs the real state, the unlock stub takes it away
// again. A read before lock() / after unlock() therefore sees arbitrary values: any influence on results, errors, the
// final state or any pointer dereference fails an obligation; a write outside the lock is lost and the final state
// differs. Immutable configuration (options, granularity, pool granularity, a block's pool / mapping / size / vectors
// pointers) is not scrambled: it is written once before the block or allocator is published.
#include "../C09/jit_env.h"
using namespace asmjit;
using namespace jenv;

struct Shared {   // the mutable shared state of a one-block allocator
  size_t allocation_count; JitAllocatorBlock* root;
  JitAllocatorBlock *first, *last, *cursor; uint32_t block_count; uint8_t empty_block_count; size_t area_size[2], area_used[2], overhead;
  uint32_t flags, area_used_b, lua, ss, se; JitAllocatorBlock *tl, *tr, *lp, *ln; uint64_t U, S;
};
static Shared real_state; static bool state_installed;
static JitAllocatorBlock* the_block;

static void save(Shared& s) {
  JitAllocatorPrivateImpl* im = impl(); JitAllocatorPool* pl = pool(0); JitAllocatorBlock* b = the_block;
  s.allocation_count = im->allocation_count; s.root = im->tree._root;
  s.first = pl->blocks._nodes[0]; s.last = pl->blocks._nodes[1]; s.cursor = pl->cursor; s.block_count = pl->block_count; s.empty_block_count = pl->empty_block_count;
  s.area_size[0] = pl->total_area_size[0]; s.area_size[1] = pl->total_area_size[1]; s.area_used[0] = pl->total_area_used[0]; s.area_used[1] = pl->total_area_used[1]; s.overhead = pl->total_overhead_bytes;
  s.flags = b->_flags; s.area_used_b = b->_area_used; s.lua = b->_largest_unused_area; s.ss = b->_search_start; s.se = b->_search_end;
  s.tl = b->_tree_nodes[0]; s.tr = b->_tree_nodes[1]; s.lp = b->_list_nodes[0]; s.ln = b->_list_nodes[1]; s.U = b->_used_bit_vector[0]; s.S = b->_stop_bit_vector[0];
}
static void install(const Shared& s) {
  JitAllocatorPrivateImpl* im = impl(); JitAllocatorPool* pl = pool(0); JitAllocatorBlock* b = the_block;
  im->allocation_count = s.allocation_count; im->tree._root = s.root;
  pl->blocks._nodes[0] = s.first; pl->blocks._nodes[1] = s.last; pl->cursor = s.cursor; pl->block_count = s.block_count; pl->empty_block_count = s.empty_block_count;
  pl->total_area_size[0] = s.area_size[0]; pl->total_area_size[1] = s.area_size[1]; pl->total_area_used[0] = s.area_used[0]; pl->total_area_used[1] = s.area_used[1]; pl->total_overhead_bytes = s.overhead;
  b->_flags = s.flags; b->_area_used = s.area_used_b; b->_largest_unused_area = s.lua; b->_search_start = s.ss; b->_search_end = s.se;
  b->_tree_nodes[0] = s.tl; b->_tree_nodes[1] = s.tr; b->_list_nodes[0] = s.lp; b->_list_nodes[1] = s.ln; b->_used_bit_vector[0] = s.U; b->_stop_bit_vector[0] = s.S;
}
static void scramble() {
  Shared g;
  g.allocation_count = nondet_u64(); g.root = nullptr; g.first = nullptr; g.last = nullptr; g.cursor = nullptr; g.block_count = nondet_u32(); g.empty_block_count = nondet_u8();
  g.area_size[0] = nondet_u64(); g.area_size[1] = nondet_u64(); g.area_used[0] = nondet_u64(); g.area_used[1] = nondet_u64(); g.overhead = nondet_u64();
  g.flags = nondet_u32(); g.area_used_b = nondet_u32(); g.lua = nondet_u32(); g.ss = nondet_u32(); g.se = nondet_u32();
  g.tl = nullptr; g.tr = nullptr; g.lp = nullptr; g.ln = nullptr; g.U = nondet_u64(); g.S = nondet_u64();
  install(g);
}
static void hook_lock() { V_ASSERT(!state_installed, "lock hook: state not installed twice"); install(real_state); state_installed = true; }
static void hook_unlock() { save(real_state); scramble(); state_installed = false; }

static BState<1> bstate_of(const Shared& s) { BState<1> r; r.U[0] = s.U; r.S[0] = s.S; r.flags = s.flags; r.area_used = s.area_used_b; r.lua = s.lua; r.ss = s.ss; r.se = s.se; return r; }

// OPT concrete; ENTRY selects the public entry
template<uint32_t OPT, int ENTRY> static void check_entry() {
  constexpr uint32_t G = 64, A = 64;
  JitAllocatorPrivateImpl* im = make_impl(OPT, G, 64 * G, 1, 0xCCCCCCCCu); JitAllocatorPool* pl = pool(0);
  Seed<1> z = nondet_seed<1>(); z.flags &= ~kFL; if (ENTRY == 1 || ENTRY == 2) z.flags &= ~kFE;
  BState<1> pre = gen_state<1>(z); V_ASSUME(inv_ok<1>(pre));
  JitAllocatorBlock* b = new_block_object<1>(0); store_state<1>(b, pre); place_block<1>(b, pl, nondet_u8() & 3); the_block = b;
  pl->blocks._nodes[0] = b; pl->blocks._nodes[1] = b; pl->cursor = b; pl->block_count = 1; pl->empty_block_count = (pre.flags & kFE) ? 1 : 0;
  pl->total_area_size[0] = A; pl->total_area_used[0] = pre.area_used; pl->total_overhead_bytes = block_overhead(A);
  im->tree._root = b; im->allocation_count = pre.stop_count() - pre.P();
  size_t count_pre = im->allocation_count;
  save(real_state); scramble(); state_installed = false;
  on_lock = hook_lock; on_unlock = hook_unlock;
  vm_alloc_fail = true;
  uint8_t* brx = static_cast<uint8_t*>(b->_mapping.rx);
  uint32_t g = nondet_u8() & 63;
  Error err = Error::kOk;
  bool frontier = false; uint32_t e = 0;
  if (ENTRY == 1 || ENTRY == 2) {
    V_ASSUME(pre.is_span_start(g)); e = pre.span_end(g); frontier = (pre.flags & kFI) && pre.ss == e;
#if KF_C09A
    V_ASSUME(!((pre.flags & kFI) && pre.se != A && !frontier && pre.ss < A));
#endif
  }
  if (ENTRY == 0) {          // alloc
    V_ASSUME(pre.free_run_count() <= 2);
    JitAllocator::Span span; size_t size = 1 + nondet_u16();
    err = allocator()->alloc(Out(span), size);
    uint32_t n = uint32_t((size + G - 1) / G);
    if (err == Error::kOk) {
      uint32_t at = uint32_t((static_cast<uint8_t*>(span._rx) - brx) / G);
      V_ASSERT(span._block == b && at + n <= A && (pre.U[0] & rangemask_w(0, at, at + n)) == 0, "alloc: the span handed out was free in the state under the lock");
      V_ASSERT(real_state.U == (pre.U[0] | rangemask_w(0, at, at + n)) && real_state.allocation_count == count_pre + 1, "alloc: the state left under the lock accounts the span");
      V_WITNESS("lock-alloc-served");
    } else { V_ASSERT(err == Error::kOutOfMemory && !pre.has_free_run(n) && real_state.U == pre.U[0], "alloc: refusal only when the state under the lock has no room"); V_WITNESS("lock-alloc-refused"); }
    V_ASSERT(lock_count == 1 && env_calls_unlocked == 0, "alloc: one critical section, the OS layer is only called inside it");
  } else if (ENTRY == 1) {   // release
    err = allocator()->release(brx + size_t(g) * G);
    V_ASSERT(err == Error::kOk && real_state.U == (pre.U[0] & ~rangemask_w(0, g, e)) && real_state.allocation_count == count_pre - 1, "release: the state left under the lock has the span removed");
    V_ASSERT(lock_count == 1 && env_calls_unlocked == 0, "release: one critical section, the OS layer is only called inside it");
    V_WITNESS("lock-release");
  } else if (ENTRY == 2) {   // shrink
    JitAllocator::Span span; span._rx = brx + size_t(g) * G; span._rw = span._rx; span._size = size_t(e - g) * G; span._block = b;
    size_t new_size = 1 + (nondet_u16() & 0xFFF);
    err = allocator()->shrink(span, new_size);
    uint32_t k = uint32_t((new_size + G - 1) / G);
    if (k <= e - g) { V_ASSERT(err == Error::kOk && real_state.U == (pre.U[0] & ~rangemask_w(0, g + k, e)) && real_state.allocation_count == count_pre, "shrink: the state left under the lock has the tail removed"); V_WITNESS("lock-shrink"); }
    else { V_ASSERT(err == Error::kInvalidArgument && real_state.U == pre.U[0], "shrink: refusal leaves the state under the lock unchanged"); V_WITNESS("lock-shrink-refused"); }
    V_ASSERT(lock_count == 1 && env_calls_unlocked == 0, "shrink: one critical section, the OS layer is only called inside it");
  } else if (ENTRY == 3) {   // query
    JitAllocator::Span span;
    err = allocator()->query(Out(span), brx + size_t(g) * G);
    if (pre.used(g)) { V_ASSERT(err == Error::kOk && span._rx == brx + size_t(g) * G && span._size == size_t(pre.span_end(g) - g) * G && span._block == b, "query: answered from the state under the lock"); V_WITNESS("lock-query-hit"); }
    else { V_ASSERT(err == Error::kInvalidArgument, "query: free memory refused from the state under the lock"); V_WITNESS("lock-query-miss"); }
    V_ASSERT(lock_count == 1 && real_state.U == pre.U[0] && real_state.allocation_count == count_pre, "query: one critical section, nothing changed");
  } else if (ENTRY == 4) {   // statistics
    JitAllocator::Statistics st = allocator()->statistics();
    V_ASSERT(st.allocation_count() == count_pre && st.used_size() == size_t(pre.area_used) * G && st.reserved_size() == size_t(A) * G && st.block_count() == 1, "statistics: computed from the state under the lock");
    V_ASSERT(lock_count == 1, "statistics: one critical section");
    V_WITNESS("lock-statistics");
  } else {                   // write(span, offset, src, size): touches span memory only, takes no lock, reads no bookkeeping
    JitAllocator::Span span; span._rx = brx; span._rw = arena_rw; span._size = 0; span._block = b;   // size 0: nothing to copy
    static uint8_t src[8];
    err = allocator()->write(span, 0, src, 0, VirtMem::CachePolicy::kDefault);
    V_ASSERT(err == Error::kOk && lock_count == 0, "write: no lock needed, bookkeeping not consulted");
    V_WITNESS("lock-write");
  }
  verif_observe(uint64_t(err));
  V_ASSERT(lock_depth == 0 && lock_count == unlock_count && !state_installed, "lock released on every return path, never left held");
  BState<1> post = bstate_of(real_state);
  Inv<1> r = inv_of<1>(post);
  V_ASSERT(r.c1 && r.c2 && r.c3 && r.c5 && r.c6 && r.c7 && r.c8 && r.c9 && r.c10, "the state left under the lock satisfies I(block)");
  V_ASSERT(real_state.root == b && real_state.first == b && real_state.last == b && real_state.cursor == b && real_state.block_count == 1, "the state left under the lock keeps the block linked");
}
HARNESS h_lock_alloc() { check_entry<0, 0>(); }
HARNESS h_lock_release() { check_entry<0, 1>(); }
HARNESS h_lock_shrink() { check_entry<0, 2>(); }
HARNESS h_lock_query() { check_entry<0, 3>(); }
HARNESS h_lock_statistics() { check_entry<0, 4>(); }
HARNESS h_lock_write() { check_entry<0, 5>(); }
