// C11 H1(b) — JitRuntime::_add / _release (jitruntime.cpp): they reach the allocator only through its public, locking
// entry points, hold no lock of their own, never call into the CodeHolder with the allocator lock held, and give the
// span back on every failure path. CodeHolder::flatten / resolve_cross_section_fixups / code_size / relocate_to_base
// are stubs here (nondeterministic outcome; they are properties C03/C04/C10); the allocator is the real one, empty,
// with the C09 tree model and OS-layer stubs.
#include "../C09/jit_env.h"
#include <asmjit/core.h>
#include <asmjit/core/jitruntime.cpp>
using namespace asmjit;
using namespace jenv;

static int codeholder_calls, codeholder_calls_locked;
static Error stub_flatten, stub_resolve, stub_relocate; static size_t stub_size_before, stub_size_after; static int code_size_calls;
static uint8_t* g_fill_base;    // start of the mapping handed out in h_runtime_add_fill
static bool g_scribble_code;   // h_runtime_add_fill: stands for the section bytes _add copies into the span (the code holder here has no sections)
static inline void ch_call() { codeholder_calls++; if (lock_depth != 0) codeholder_calls_locked++; }
ASMJIT_BEGIN_NAMESPACE
Error CodeHolder::flatten() noexcept { ch_call(); return stub_flatten; }
Error CodeHolder::resolve_cross_section_fixups() noexcept { ch_call(); return stub_resolve; }
size_t CodeHolder::code_size() const noexcept { ch_call(); return code_size_calls++ == 0 ? stub_size_before : stub_size_after; }
Error CodeHolder::relocate_to_base(uint64_t, RelocationSummary* summary) noexcept {
  ch_call();
  if (summary) summary->code_size_reduction = stub_size_before - stub_size_after;
  if (g_scribble_code) for (uint32_t i = 4; i < 24; i++) g_fill_base[i] = 0xEE;
  return stub_relocate;
}
ASMJIT_END_NAMESPACE

alignas(16) static unsigned char rt_mem[sizeof(JitRuntime)];
alignas(16) static unsigned char code_mem[sizeof(CodeHolder)];

// Every outcome of the four steps is a constant of the call (the harness enters check_add on separate paths): with symbolic
// outcomes the allocator state after alloc() is a merge of "no block" and "new block" and the following release / shrink /
// query on it did not fit in 8 GB.
template<bool THEN_RELEASE> static void check_add(size_t size_before, size_t size_after, bool flatten_ok, bool resolve_ok, bool os_ok, bool relocate_ok) {
  JitAllocatorPrivateImpl* im = make_impl(0, 64, 64 * 64, 1, 0xCCCCCCCCu); JitAllocatorPool* pl = pool(0);
  // rt_mem / code_mem stay zero: the stubs never write them and _add only iterates the (empty) section vector
  JitRuntime* rt = reinterpret_cast<JitRuntime*>(rt_mem); CodeHolder* code = reinterpret_cast<CodeHolder*>(code_mem);
  rt->_allocator._impl = im;
  codeholder_calls = codeholder_calls_locked = 0; code_size_calls = 0;
  stub_flatten = flatten_ok ? Error::kOk : Error::kInvalidState; stub_resolve = resolve_ok ? Error::kOk : Error::kInvalidDisplacement;
  stub_relocate = relocate_ok ? Error::kOk : Error::kRelocOffsetOutOfRange;
  stub_size_before = size_before; stub_size_after = size_after;
  vm_alloc_fail = !os_ok; vm_next_rx = arena_at(arena_rx, 0); vm_next_rw = vm_next_rx;
  void* fn = arena_rx;
  Error err = rt->JitRuntime::_add(&fn, code);
  verif_observe(uint64_t(err));
  V_ASSERT(lock_depth == 0 && lock_count == unlock_count, "_add: the allocator lock is not held on return, whatever the outcome");
  V_ASSERT(codeholder_calls_locked == 0, "_add: the code holder is never entered with the allocator lock held");
  V_ASSERT(env_calls_unlocked == 0 || err == Error::kOk, "_add: failure paths touch the OS layer only inside the allocator lock");
  if (err != Error::kOk) {
    V_ASSERT(fn == nullptr, "_add: failure returns a null function pointer");
    V_ASSERT(im->allocation_count == 0, "_add: failure leaves no span allocated");
    if (stub_flatten != Error::kOk || stub_resolve != Error::kOk || size_before == 0) { V_ASSERT(lock_count == 0 && pl->block_count == 0, "_add: failing before the allocation does not touch the allocator"); V_WITNESS("add-fails-early"); }
    else if (vm_alloc_fail) { V_ASSERT(err == Error::kOutOfMemory, "_add: out of memory is reported"); if (size_before) V_WITNESS("add-out-of-memory"); }
    else { V_ASSERT(err == stub_relocate && lock_count == 2, "_add: a relocation failure releases the span again (alloc + release)"); if (size_before) V_WITNESS("add-relocation-fails"); }
  } else {
    V_ASSERT(fn != nullptr && fn == static_cast<uint8_t*>(vm_next_rx) + 64, "_add: returns the executable address of the span (behind the block padding)");
    V_ASSERT(im->allocation_count == 1 && pl->block_count == 1, "_add: exactly one span is live");
    JitAllocator::Span q; Error qe = rt->_allocator.query(Out(q), fn);
    V_ASSERT(qe == Error::kOk && q._rx == fn && q._size == ((size_after + 63) & ~size_t(63)), "_add: the span was shrunk to the final code size");
    V_ASSERT(rw_depth == 0, "_add: memory is executable again on return");
    if (THEN_RELEASE) {
      Error re = rt->JitRuntime::_release(fn);
      V_ASSERT(re == Error::kOk && im->allocation_count == 0 && lock_depth == 0, "_release: gives the span back through the allocator, lock released");
    }
    if (size_before) V_WITNESS("add-ok");
  }
}
template<bool THEN_RELEASE> static void all_outcomes(size_t before, size_t after) {
  uint32_t c = nondet_u8() & 7;
  if (c == 0) check_add<THEN_RELEASE>(before, after, false, true, true, true);
  else if (c == 1) check_add<THEN_RELEASE>(before, after, true, false, true, true);
  else if (c == 2) check_add<THEN_RELEASE>(before, after, true, true, false, true);
  else if (c == 3) check_add<THEN_RELEASE>(before, after, true, true, true, false);
  else if (c == 4) check_add<THEN_RELEASE>(before, after, true, true, false, false);
  else if (c == 5) check_add<THEN_RELEASE>(0, 0, true, true, true, true);   // no code generated
  else check_add<THEN_RELEASE>(before, after, true, true, true, true);
}
HARNESS h_runtime_add_exact() { all_outcomes<true>(64, 64); }
HARNESS h_runtime_add_shrunk() { all_outcomes<false>(200, 130); }

// _add with kFillUnusedMemory: the tail that span.shrink() gives back is filled before the allocator lock is released,
// never afterwards (see h_lockmem.cpp for the rule). Granularity scaled to 4 bytes: a fresh block is 512 bytes (filled on
// creation), the code takes granules [1,6) estimated and [1,5) final, so granule 5 (bytes 20..23) is given back.
static uint32_t fill_probe; static bool fill_probe_free_at_unlock; static uint8_t fill_probe_at_unlock; static int unlocks_seen;
static void runtime_unlock_hook() {
  JitAllocatorBlock* b = pool(0)->blocks.first();
  unlocks_seen++;
  fill_probe_free_at_unlock = b != nullptr && !((b->_used_bit_vector[0] >> (fill_probe / 4)) & 1);
  fill_probe_at_unlock = g_fill_base[fill_probe];
}
HARNESS h_runtime_add_fill() {
  uint32_t pattern = nondet_u32();
  JitAllocatorPrivateImpl* im = make_impl(0x04 /* kFillUnusedMemory */, 4, 64 * 4, 1, pattern); JitAllocatorPool* pl = pool(0);
  JitRuntime* rt = reinterpret_cast<JitRuntime*>(rt_mem); CodeHolder* code = reinterpret_cast<CodeHolder*>(code_mem);
  rt->_allocator._impl = im;
  codeholder_calls = codeholder_calls_locked = 0; code_size_calls = 0;
  stub_flatten = Error::kOk; stub_resolve = Error::kOk; stub_relocate = Error::kOk; stub_size_before = 20; stub_size_after = 13;
  // the mapping starts at the first 4-byte aligned address of the arena (the solver's objects are aligned; the natively
  // compiled translation of this unit does not keep the alignas of the arena, and the byte fill requires aligned spans)
  g_fill_base = arena_at(arena_rx, (4 - (uintptr_t(arena_rx) & 3)) & 3);
  vm_alloc_fail = false; vm_next_rx = g_fill_base; vm_next_rw = vm_next_rx;
  g_scribble_code = true;
  fill_probe = nondet_u8() & 63; fill_probe_free_at_unlock = false; unlocks_seen = 0; on_unlock = runtime_unlock_hook;
  void* fn = nullptr;
  Error err = rt->JitRuntime::_add(&fn, code);
  verif_observe(uint64_t(err));
  V_ASSERT(err == Error::kOk && fn == static_cast<void*>(g_fill_base + 4) && lock_depth == 0 && unlocks_seen == 2, "_add (fill): succeeds with two critical sections (alloc, shrink)");
  V_ASSERT(im->allocation_count == 1 && pl->blocks.first() != nullptr && pl->blocks.first()->_used_bit_vector[0] == 0x1F, "_add (fill): padding + 4 granules of code stay used");
  uint8_t now = g_fill_base[fill_probe]; verif_observe(now);
  if (fill_probe_free_at_unlock) { V_ASSERT(now == fill_probe_at_unlock, "_add (fill): no byte of a granule that is free when the lock is released is written afterwards"); V_WITNESS("add-fill-free-byte"); }
  if (fill_probe >= 20 && fill_probe < 24) { V_ASSERT(fill_probe_free_at_unlock && now == uint8_t(pattern >> (8 * (fill_probe & 3))), "_add (fill): the tail given back is free at the unlock and carries the fill pattern"); V_WITNESS("add-fill-tail"); }
  V_ASSERT(codeholder_calls_locked == 0 && rw_depth == 0, "_add (fill): code holder never entered under the lock, memory executable again");
  g_scribble_code = false;
}
