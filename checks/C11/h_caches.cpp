// C11 H2 — the lazily initialised process-wide caches of virtmem.cpp: VirtMem::info() (flag + payload, written payload
// first). Two / three calls with the OS answering differently each time: once the flag is set every reader gets the
// value of the first initialisation, i.e. a second initialiser (another thread that also saw flag == 0) can only store the
// same value as long as the OS answer is stable, and nothing is recomputed afterwards. The function-local statics cannot
// be named from outside the function, so a "payload half written by another thread" state cannot be constructed here
// (see spec.py OUTSIDE).
#include "verif.h"
#include <unistd.h>
static int g_pagesize_calls; static int g_pagesize[3];
extern "C" int getpagesize(void) noexcept { int i = g_pagesize_calls < 2 ? g_pagesize_calls : 2; g_pagesize_calls++; return g_pagesize[i]; }
#include <asmjit/core/virtmem.cpp>
using namespace asmjit;

HARNESS h_vm_info_idempotent() {
  g_pagesize_calls = 0;
  for (int i = 0; i < 3; i++) g_pagesize[i] = 1 << (12 + (nondet_u8() & 7));
  VirtMem::Info a = VirtMem::info();
  int calls_after_first = g_pagesize_calls;
  VirtMem::Info b = VirtMem::info();
  VirtMem::Info c = VirtMem::info();
  verif_observe(a.page_size); verif_observe(a.page_granularity);
  V_ASSERT(a.page_size == b.page_size && a.page_granularity == b.page_granularity && a.page_size == c.page_size && a.page_granularity == c.page_granularity, "VirtMem::info: every call returns the value of the first initialisation");
  V_ASSERT(g_pagesize_calls == calls_after_first, "VirtMem::info: nothing is recomputed once the flag is set");
  V_ASSERT(a.page_granularity >= 65536 && a.page_granularity >= a.page_size && a.page_size != 0, "VirtMem::info: granularity covers the page size");
  V_WITNESS("vm-info");
}
