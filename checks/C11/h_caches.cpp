// C11 H2 — the lazily initialised process-wide caches of virtmem.cpp: VirtMem::info() (flag + payload, written payload
// first). Two / three calls with the OS answering differently each time: once the flag is set every reader gets the
// value of the first initialisation, i.e. a second initialiser (another thread that also saw flag == 0) can only store the
// same value as long as the OS answer is stable, and nothing is recomputed afterwards. The function-local statics cannot
// be named from outside the function, so a "payload half written by another thread" state cannot be constructed here
// (see spec.py OUTSIDE).
#include "verif.h"
#include <unistd.h>
static int g_pagesize_calls; static int g_pagesize[3];
static bool g_arm_inner, g_inner_done; static uint32_t g_inner_page_size, g_inner_granularity;
static void inner_caller();
extern "C" int getpagesize(void) noexcept {
  int i = g_pagesize_calls < 2 ? g_pagesize_calls : 2; g_pagesize_calls++;
  if (g_arm_inner && !g_inner_done) { g_inner_done = true; inner_caller(); }   // a second thread arrives while the first one is detecting
  return g_pagesize[i];
}
#include <asmjit/core/virtmem.cpp>
using namespace asmjit;
static void inner_caller() { VirtMem::Info in = VirtMem::info(); g_inner_page_size = in.page_size; g_inner_granularity = in.page_granularity; }

HARNESS h_vm_info_idempotent() {
  g_pagesize_calls = 0; g_arm_inner = false;
  for (int i = 0; i < 3; i++) g_pagesize[i] = 1 << (12 + (nondet_u8() & 7));
  VirtMem::Info a = VirtMem::info();
  int calls_after_first = g_pagesize_calls;
  VirtMem::Info b = VirtMem::info();
  VirtMem::Info c = VirtMem::info();
  verif_observe(a.page_size); verif_observe(a.page_granularity);
  V_ASSERT(a.page_size == b.page_size && a.page_granularity == b.page_granularity && a.page_size == c.page_size && a.page_granularity == c.page_granularity, "VirtMem::info: every call returns the value of the first initialisation");
  V_ASSERT(g_pagesize_calls == calls_after_first, "VirtMem::info: nothing is recomputed once the flag is set");
  V_ASSERT(a.page_granularity >= 65536 && a.page_granularity >= a.page_size && a.page_size != 0, "VirtMem::info: granularity covers the page size");
  V_WITNESS("vm-info");
}

// the race modelled sequentially: the getpagesize stub of the first caller calls VirtMem::info() itself once (a second
// thread arriving mid-detection, OS answer stable): it gets the fully initialised value, the same as everybody afterwards
HARNESS h_vm_info_race() {
  g_pagesize_calls = 0; g_arm_inner = true; g_inner_done = false;
  int ps = 1 << (12 + (nondet_u8() & 7)); for (int i = 0; i < 3; i++) g_pagesize[i] = ps;
  VirtMem::Info a = VirtMem::info();
  VirtMem::Info b = VirtMem::info();
  V_ASSERT(g_inner_done, "VirtMem::info: detection asked the OS (where the second caller arrives)");
  V_ASSERT(g_inner_page_size == a.page_size && g_inner_granularity == a.page_granularity && a.page_size == uint32_t(ps), "VirtMem::info: a caller arriving during the first caller's detection gets the completely initialised value");
  V_ASSERT(b.page_size == a.page_size && b.page_granularity == a.page_granularity, "VirtMem::info: later callers get the same value");
  V_WITNESS("vm-info-race");
}
