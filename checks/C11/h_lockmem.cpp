// C11 H1 (memory side) — the lock must also cover the writes to JIT MEMORY that belong to a state change: the fill of
// released / shrunk-away bytes under kFillUnusedMemory. The moment the lock is released every granule that is free in
// the bookkeeping may be handed to another thread, which then writes its code there; a write of this call to such a
// granule AFTER its unlock would destroy that code. Decided over all paths of one call from the C09 symbolic pre-state:
//   * the pthread_mutex_unlock stub records, for one symbolic probe byte of the mapping, its value and whether its granule
//     is free at that moment; on return a probe byte whose granule was free at the unlock still has that value;
//   * the bytes the call gave back carry the fill pattern (so the fill did happen - before the unlock);
//   * release / shrink open and close their write scope (protect_jit_memory / flush stubs) with the lock held; for
//     write(span, fn) the scope around the user's write is the caller's and legitimately unlocked, the byte rule decides.
// Granularity scaled to 4 bytes (as unit fillp of C09: the fill of a span is a few stores; 256 bytes of real memory are
// the whole block); the span written by the user's function stays used, so writes to it are never "free at unlock".
#include "../C09/jit_env.h"
using namespace asmjit;
using namespace jenv;

static constexpr uint32_t kOptFill = 0x04;
static constexpr uint32_t G = 4, A = 64;
static JitAllocatorBlock* the_block; static uint32_t probe;
static bool unlock_seen, probe_free_at_unlock; static uint8_t probe_at_unlock;
static void hook_unlock() {
  unlock_seen = true;
  probe_free_at_unlock = !((the_block->_used_bit_vector[0] >> (probe / G)) & 1);
  probe_at_unlock = arena_rx[probe];
}
static size_t g_truncate_to; static uint32_t g_user_byte;
static Error truncate_fn(JitAllocator::Span& span, void*) noexcept {
  static_cast<uint8_t*>(span.rw())[0] = uint8_t(g_user_byte);     // the user writes its code (first byte of the span) ...
  span.shrink(g_truncate_to);                                      // ... and truncates the span
  return Error::kOk;
}

// ENTRY 0: release, 1: shrink, 2: write(span, fn) whose fn truncates the span
template<int ENTRY> static void check_memory_under_lock() {
  uint32_t pattern = nondet_u32();
  JitAllocatorPrivateImpl* im = make_impl(kOptFill, G, 64 * G, 1, pattern); JitAllocatorPool* pl = pool(0);
  Seed<1> z = nondet_seed<1>(); z.flags &= ~(kFE | kFL | kFM);
  BState<1> pre = gen_state<1>(z); V_ASSUME(inv_ok<1>(pre));
  JitAllocatorBlock* b = new_block_object<1>(0); store_state<1>(b, pre); place_block<1>(b, pl, 0); the_block = b;
  pl->blocks._nodes[0] = b; pl->blocks._nodes[1] = b; pl->cursor = b; pl->block_count = 1;
  pl->total_area_size[0] = A; pl->total_area_used[0] = pre.area_used; pl->total_overhead_bytes = block_overhead(A);
  im->tree._root = b; im->allocation_count = pre.stop_count() - pre.P();
  probe = nondet_u8(); uint8_t before = nondet_u8(); arena_rx[probe] = before;
  unlock_seen = false; probe_free_at_unlock = false; probe_at_unlock = 0; on_unlock = hook_unlock;
  uint32_t g = nondet_u8() & 63; V_ASSUME(pre.is_span_start(g));
  uint32_t e = pre.span_end(g); V_ASSUME(e - g <= 4);
  uint32_t keep = ENTRY == 0 ? 0 : 1 + (nondet_u8() & 1); V_ASSUME(keep <= e - g);
  JitAllocator::Span span; span._rx = b->rx_ptr() + size_t(g) * G; span._rw = span._rx; span._size = size_t(e - g) * G; span._block = b;
  Error err;
  if (ENTRY == 0) err = allocator()->release(span._rx);
  else if (ENTRY == 1) err = allocator()->shrink(span, size_t(keep) * G - (nondet_u8() & (G - 1)));
  else { g_truncate_to = size_t(keep) * G - (nondet_u8() & (G - 1)); g_user_byte = nondet_u8(); err = allocator()->write(span, truncate_fn, nullptr, VirtMem::CachePolicy::kNeverFlush); }
  verif_observe(uint64_t(err));
  bool locks = ENTRY != 2 || g_truncate_to < size_t(e - g) * G;   // write(span, fn) only enters the allocator when fn truncated the span
  V_ASSERT(err == Error::kOk && lock_depth == 0 && lock_count == (locks ? 1 : 0) && unlock_seen == locks, "memory: operation accepted, one critical section");
  uint8_t now = arena_rx[probe]; verif_observe(now);
  size_t lo = size_t(g + keep) * G, hi = size_t(e) * G;
  if (probe_free_at_unlock) {
    V_ASSERT(now == probe_at_unlock, "memory: no byte of a granule that is free when the lock is released is written afterwards");
    V_WITNESS("mem-free-at-unlock");
  }
  if (probe >= lo && probe < hi) {
    V_ASSERT(probe_free_at_unlock, "memory: the bytes given back are free in the bookkeeping when the lock is released");
    V_ASSERT(now == uint8_t(pattern >> (8 * (probe & 3))), "memory: the bytes given back carry the fill pattern");
    V_WITNESS("mem-byte-given-back");
  } else if (ENTRY == 2 && probe == size_t(g) * G) {
    V_ASSERT(now == uint8_t(g_user_byte), "memory: the byte written by the user's function is kept");
    V_WITNESS("mem-user-byte");
  } else V_ASSERT(now == before, "memory: no other byte is written");
  if (ENTRY != 2) V_ASSERT(env_calls_unlocked == 0, "memory: release / shrink open and close their write scope with the lock held");
  V_ASSERT(rw_depth == 0, "memory: executable again on return");
}
HARNESS h_lockmem_release() { check_memory_under_lock<0>(); }
HARNESS h_lockmem_shrink() { check_memory_under_lock<1>(); }
HARNESS h_lockmem_write_fn() { check_memory_under_lock<2>(); }
