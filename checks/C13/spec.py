# C13 — validator, encoder and database agree; names round-trip
import json, os
X86_UNITS = ['asmjit/x86/x86assembler.cpp', 'asmjit/x86/x86instdb.cpp', 'asmjit/x86/x86instapi.cpp']
UNITS = [Unit('forms13', prescreen=True, harness=['h_forms13.cpp'], repo_units=X86_UNITS)]
_c01 = os.path.join(os.path.dirname(os.path.abspath(__file__)), '..', 'C01')
_fg = json.load(open(os.path.join(_c01, 'forms_gen.json')))
_st = json.load(open(os.path.join(_c01, 'forms_status.json')))
# "implemented" = accepted by the pinned release (vendored list checks/C01/forms_status.json); a form that stops being accepted
# makes the both-accept witness unreachable, which the runner reports (vacuous harness = broken check, to be triaged).
_sel = [h for h in _fg['harnesses'] if (not h.get('known') and _st.get(h['fn'], {}).get('accepted_runs', 0) > 0) or (h.get('known') == 'D15' and h['fn'] in ('h_f64_vpdpbssd_xmm_xmm_xmm_kf_D15', 'h_f64_vmpsadbw_xmm_xmm_xmm_imm_kf_D15'))]
_NQ = max(1, len(_sel) // 40); _NT = max(1, len(_sel) // 1000)
HARNESSES = []
for _i, _h in enumerate(_sel):
    HARNESSES.append(Harness('forms13', _h['fn'], unwind=17, tiers=('quick', 'thorough'), mem_gb=6, timeout=900, validate_runs=200,
                             rotate=None if _h.get('known') else ((_i * 7901) % _NQ, _NQ), rotate_thorough=None if _h.get('known') else ((_i * 7907) % _NT, _NT), known=_h.get('known'),
                             bounds='instruction %s, %s-bit mode: same symbolic operand space as the C01 harness of the same name; strict validation on and off' % (_h['inst'], _h['mode'])))
EXPLANATION = 'bounded symbolic execution of the real encoder twice (strict validation on / off) on the same symbolic operands'
OUTSIDE = ['instruction-name round trip (inst_id_to_string / string_to_inst_id): the binary search over the name tables did not reach a verdict within budget (see DESIGN.md C13)',
           'near-miss mutations of forms (covered in part by C14 arbitrary-operand harnesses)', 'AArch64 (no operand validator)']
ASSUMPTIONS = ['forms accepted by the pinned release are vendored in checks/C01/forms_status.json']

# ---- units 'names' (x86) and 'names_a64': instruction-name round trip (h_names.cpp) -------------------------------------------------
# Two units from one source: per unit every library function then has one call chain and is inlined the same way whichever harnesses
# are selected (the loop names in the unwindsets below depend on it; the harness calls go through noinline wrappers for the same reason).
import re as _re
_NAMES_CORE = ['asmjit/core/instdb.cpp', 'asmjit/core/string.cpp']
UNITS.append(Unit('names', harness=['h_names.cpp'], repo_units=_NAMES_CORE + ['asmjit/x86/x86instdb.cpp', 'asmjit/x86/x86instapi.cpp'], wrap=['malloc', 'realloc'], extra_c=['names_mem.c']))
UNITS.append(Unit('names_a64', harness=['h_names.cpp'], repo_units=_NAMES_CORE + ['asmjit/arm/a64instdb.cpp', 'asmjit/arm/a64instapi.cpp'], wrap=['malloc', 'realloc'], extra_c=['names_mem.c']))
_XID = '_ZN12_GLOBAL__N_13X865to_idEPKcm'      # X86::to_id with string_to_inst_id, find_instruction and find_alias inlined
_AID = '_ZN12_GLOBAL__N_13A645to_idEPKcm'      # A64::to_id with string_to_inst_id inlined (loop 0 = the linear scan)
_FIND = '_ZN6asmjit5v1_2113InstNameUtils16find_instructionEPKcmPKjS3_RKNS0_13InstNameIndexE'
def _x86_uw(outer):
    # .1/.5 compare_string_views (<= 17 characters), .3 binary search of find_instruction, .7 binary search of find_alias (44 aliases),
    # memcpy.0: the copy loops of decode_to_buffer / String::append (<= 17 characters)
    return '%s.1:18,%s.3:%d,%s.5:18,%s.7:7,memcpy.0:18' % (_XID, _XID, outer, _XID, _XID)
def _a64_uw(scan):
    return '%s.0:%d,%s.1:11,%s.3:10,memcpy.0:11,memcmp.0:11' % (_AID, scan, _FIND, _FIND)
_names_src = open(os.path.join(os.path.dirname(os.path.abspath(__file__)), 'h_names.cpp')).read()
_names_fns = _re.findall(r'^HARNESS (h_names_\w+)\(\)', _names_src, _re.M) + ['h_names_a64_' + l for l in _re.findall(r'NAMES_A64\((\w), +\d+\)', _names_src)]
_B_TXT = ' The text lives in a 47-byte static array (external String storage); malloc/realloc are wrapped and asserted not to be called.'
_B_X86 = ('x86: instruction id symbolic over the whole range [1, x86::Inst::_kIdCount) in ONE query; text = inst_id_to_string(id, kNone); string_to_inst_id(text, size) must be the same id.'
          ' Loop bounds: binary search <= 10 steps (a span of < 1024 ids per letter), alias search <= 6 steps (44 aliases), names <= 17 characters (text bound 20).' + _B_TXT)
_B_A64 = ('AArch64, letter %s: instruction id symbolic over the name index span of the letter [data[l].start, data[l].end), restricted to ids whose name starts with the letter'
          ' (first character then a constant; the other ids of the span belong to the harness of their letter, h_names_a64_cover shows every id lies in the span of its first letter);'
          ' id2 = string_to_inst_id(inst_id_to_string(id)) is not kIdNone, inst_id_to_string(id2) is the same text, and id2 == id unless one is a general-purpose and the other a SIMD id.'
          ' Both binary searches (<= 9 steps each) and the linear scan of the whole span (up to 451 entries) are executed. Names <= 9 characters (text bound 20).' + _B_TXT)
_B_COVER = ('%s: instruction id symbolic over [1, _kIdCount) in one query: name non-empty, <= max_name_length (and <= 20), characters a-z 0-9 _, first character a letter,'
            ' zero terminated, and the id lies inside _inst_name_index.data[first letter] (start != 0).' + _B_TXT)
_B_ALIAS = 'x86: alias index symbolic over [0, x86::InstDB::kAliasTableSize) in one query; alias text = decode(alias_name_index_table[i]) over alias_name_string_table; '
_NAMES = {
    'h_names_x86_all': dict(bounds=_B_X86, mem_gb=10, timeout=2400, rotate=(0, 2), unwindset=_x86_uw(11)),
    'h_names_x86_cover': dict(bounds=_B_COVER % 'x86', mem_gb=3, timeout=600),
    'h_names_a64_cover': dict(bounds=_B_COVER % 'AArch64', mem_gb=2, timeout=600, unwindset=None),
    'h_names_a64_letters': dict(bounds='AArch64: the letters j k q v (no h_names_a64_<l> harness) have an empty name index span; max_name_length <= 20 (text bound of the harnesses)', mem_gb=1, timeout=300, unwindset=None),
    'h_names_x86_alias': dict(bounds=_B_ALIAS + 'string_to_inst_id(text, size) == alias_index_to_inst_id_table[i], a defined id; the text is 1..max_name_length characters a-z 0-9 _ starting with a letter.'
                              ' Loop bounds: find_instruction <= 7 steps (the spans of the letters aliases start with have < 128 ids; checked as an unwinding assertion), find_alias <= 6 steps.' + _B_TXT,
                              mem_gb=6, timeout=1200, unwindset=_x86_uw(8)),
    'h_names_x86_alias_names': dict(bounds=_B_ALIAS + 'id = alias_index_to_inst_id_table[i] is defined; inst_id_to_string(id, kAliases) (forms "jnbe|ja" and "cmov.nbe|a") lists the alias text and the primary name among its alternatives;'
                                    ' where asmjit prints no list the pair (alias, primary name) must be (sal, shl) or (wait, fwait) (Intel SDM); the alias differs from the primary name.' + _B_TXT, mem_gb=3, timeout=600),
    'h_names_x86_alias_miss': dict(bounds=_B_ALIAS + 'one character (position symbolic) replaced by one of . | ~ A (no name or alias contains them: h_names_x86_cover, h_names_x86_alias); string_to_inst_id must return kIdNone.' + _B_TXT,
                                   mem_gb=7, timeout=2400, tiers=('thorough',), unwindset=_x86_uw(8)),
}
# AArch64 letters: the linear scan over spans of 300..451 ids costs 80..170 s per letter (symbolic execution of the scan is quadratic in its
# length, 2.2..3.7 GB); the short spans run in every quick run, the long ones in one of four groups chosen by VERIF_SEED; thorough runs all.
_A64_ALWAYS = 'fghwyz'
_A64_GROUP = {0: 'et', 1: 'abcds', 2: 'mn', 3: 'iloprux'}     # the even seeds also run h_names_x86_all (310 s, 7.7 GB)
for _fn in _names_fns:
    _a64 = '_a64_' in _fn
    _o = dict(mem_gb=5 if _fn[-1] in 'ls' else 4, timeout=1500, unwindset=_a64_uw(800) if _a64 else None, rotate=None, tiers=('quick', 'thorough'))
    if _fn in _NAMES: _o.update(_NAMES[_fn])
    else:
        _l = _fn[-1]
        _o['bounds'] = _B_A64 % _l
        if _l not in _A64_ALWAYS: _o['rotate'] = ([k for k, v in _A64_GROUP.items() if _l in v][0], 4)
        else: _o['mem_gb'] = 3
    HARNESSES.append(Harness('names_a64' if _a64 else 'names', _fn, unwind=21, object_bits=12 if _a64 else None, **_o))
EXPLANATION += '; names: bounded symbolic execution of inst_id_to_string / string_to_inst_id over the real name tables with the instruction id (alias index) symbolic'
OUTSIDE = [o for o in OUTSIDE if not o.startswith('instruction-name round trip')] + [
    'names: string_to_inst_id called with len == SIZE_MAX (strlen path), s == nullptr, len == 0 or len > max_name_length - the harnesses always pass the exact length of a produced text',
    'names: upper-case or mixed-case input, and texts that are no name other than an alias with one character replaced by one of . | ~ A (thorough tier only); near misses of instruction names are not generated',
    'names: inst_id_to_string for undefined ids (error path), AArch64 ids with condition-code bits above InstIdParts::kRealId, appending to a non-empty or heap-allocated String',
    'names: InstStringifyOptions::kAliases rendering is looked at only for the ids the 44 aliases map to',
    'names: the dispatch by Arch in InstAPI::inst_id_to_string / string_to_inst_id (core/inst.cpp); the arch-specific functions are called directly',
    'names: quick tier runs h_names_x86_all when VERIF_SEED is even and one of four groups of the long AArch64 letters per seed (et / abcds / mn / iloprux); thorough runs all',
]
ASSUMPTIONS += ['names: under CBMC memcmp / bcmp are plain byte loops and memcpy is a plain byte loop for destination objects of at most 64 bytes, CBMC\'s own model otherwise (checks/C13/names_mem.c); the native twins use libc and translator validation compares the two',
                'names: malloc / realloc are wrapped (include/no_heap.h): while the code under test runs they return NULL and are counted; every harness asserts the count is 0',
                'names: SAL = SHL and WAIT = FWAIT (Intel SDM) are the oracle for the two aliases asmjit renders without an alias list']

# ---- forms with five and six operands (vpermil2ps/pd, pcmpestri/m with the implicit operands written out, cmpxchg8b/16b): not in the generated family
UNITS.append(Unit('ops56', harness=['h_ops56.cpp'], repo_units=X86_UNITS))
import re as _re
for _fn in _re.findall(r'^HARNESS (h_\w+)\(\)', open(os.path.join(os.path.dirname(os.path.abspath(__file__)), 'h_ops56.cpp')).read(), _re.M):
    HARNESSES.append(Harness('ops56', _fn, unwind=17, mem_gb=4, timeout=600, validate_runs=200,
                             bounds='instruction id, vector length, register / memory form constant per harness; register ids, displacement, immediate symbolic; strict validation on and off'))
