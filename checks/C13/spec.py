# C13 — validator, encoder and database agree; names round-trip
import json, os
X86_UNITS = ['asmjit/x86/x86assembler.cpp', 'asmjit/x86/x86instdb.cpp', 'asmjit/x86/x86instapi.cpp']
UNITS = [Unit('forms13', prescreen=True, harness=['h_forms13.cpp'], repo_units=X86_UNITS)]
_c01 = os.path.join(os.path.dirname(os.path.abspath(__file__)), '..', 'C01')
_fg = json.load(open(os.path.join(_c01, 'forms_gen.json')))
_st = json.load(open(os.path.join(_c01, 'forms_status.json')))
# "implemented" = accepted by the pinned release (vendored list checks/C01/forms_status.json); a form that stops being accepted
# makes the both-accept witness unreachable, which the runner reports (vacuous harness = broken check, to be triaged).
_sel = [h for h in _fg['harnesses'] if (not h.get('known') and _st.get(h['fn'], {}).get('accepted_runs', 0) > 0) or (h.get('known') == 'D15' and h['fn'] in ('h_f64_vpdpbssd_xmm_xmm_xmm_kf_D15', 'h_f64_vmpsadbw_xmm_xmm_xmm_imm_kf_D15'))]
_NQ = max(1, len(_sel) // 40); _NT = max(1, len(_sel) // 1000)
HARNESSES = []
for _i, _h in enumerate(_sel):
    HARNESSES.append(Harness('forms13', _h['fn'], unwind=17, tiers=('quick', 'thorough'), mem_gb=6, timeout=900, validate_runs=200,
                             rotate=None if _h.get('known') else ((_i * 31) % _NQ, _NQ), rotate_thorough=None if _h.get('known') else ((_i * 7907) % _NT, _NT), known=_h.get('known'),
                             bounds='instruction %s, %s-bit mode: same symbolic operand space as the C01 harness of the same name; strict validation on and off' % (_h['inst'], _h['mode'])))
EXPLANATION = 'bounded symbolic execution of the real encoder twice (strict validation on / off) on the same symbolic operands'
OUTSIDE = ['instruction-name round trip (inst_id_to_string / string_to_inst_id): the binary search over the name tables did not reach a verdict within budget (see DESIGN.md C13)',
           'near-miss mutations of forms (covered in part by C14 arbitrary-operand harnesses)', 'AArch64 (no operand validator)']
ASSUMPTIONS = ['forms accepted by the pinned release are vendored in checks/C01/forms_status.json']

# ---- units 'names' (x86) and 'names_a64': instruction-name round trip (h_names.cpp) -------------------------------------------------
# Two units from one source: per unit every library function then has one call chain and is inlined the same way whichever harnesses
# are selected (the loop names in the unwindsets below depend on it; the harness calls go through noinline wrappers for the same reason).
import re as _re
_NAMES_CORE = ['asmjit/core/instdb.cpp', 'asmjit/core/string.cpp']
UNITS.append(Unit('names', harness=['h_names.cpp'], repo_units=_NAMES_CORE + ['asmjit/x86/x86instdb.cpp', 'asmjit/x86/x86instapi.cpp'], wrap=['malloc', 'realloc'], extra_c=['names_mem.c']))
UNITS.append(Unit('names_a64', harness=['h_names.cpp'], repo_units=_NAMES_CORE + ['asmjit/arm/a64instdb.cpp', 'asmjit/arm/a64instapi.cpp'], wrap=['malloc', 'realloc'], extra_c=['names_mem.c']))
_XID = '_ZN12_GLOBAL__N_13X865to_idEPKcm'      # X86::to_id with string_to_inst_id, find_instruction and find_alias inlined
_AID = '_ZN12_GLOBAL__N_13A645to_idEPKcm'      # A64::to_id with string_to_inst_id inlined (loop 0 = the linear scan)
_FIND = '_ZN6asmjit5v1_2113InstNameUtils16find_instructionEPKcmPKjS3_RKNS0_13InstNameIndexE'
def _x86_uw(outer):
    # .1/.5 compare_string_views (<= 17 characters), .3 binary search of find_instruction, .7 binary search of find_alias (44 aliases),
    # memcpy.0: the copy loops of decode_to_buffer / String::append (<= 17 characters)
    return '%s.1:18,%s.3:%d,%s.5:18,%s.7:7,memcpy.0:18' % (_XID, _XID, outer, _XID, _XID)
def _a64_uw(scan):
    return '%s.0:%d,%s.1:11,%s.3:10,memcpy.0:11,memcmp.0:11' % (_AID, scan, _FIND, _FIND)
_names_src = open(os.path.join(os.path.dirname(os.path.abspath(__file__)), 'h_names.cpp')).read()
_names_fns = _re.findall(r'^HARNESS (h_names_\w+)\(\)', _names_src, _re.M) + ['h_names_a64_' + l for l in _re.findall(r'NAMES_A64\((\w), +\d+\)', _names_src)]
for _fn in _names_fns:
    _a64 = '_a64_' in _fn
    HARNESSES.append(Harness('names_a64' if _a64 else 'names', _fn, unwind=21, mem_gb=10 if _fn == 'h_names_x86_all' else 6, timeout=1800,
                             unwindset=_a64_uw(800) if _a64 else _x86_uw(11 if _fn == 'h_names_x86_all' else 8), object_bits=12 if _a64 else None, bounds='TODO'))
