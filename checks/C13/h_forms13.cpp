// C13 (forms): the C01 form family compiled as agreement checks (strict validation on vs off).
#define VF_AGREE 1
#include "../C01/forms_gen.h"
