// C13 (and C01) — forms with five and six operands, which the generated family (at most four operands per record) does not reach:
// XOP-era vpermil2ps/vpermil2pd (five explicit operands: /is4 register + imm4) and the forms whose implicit operands may be written
// out (pcmpestri/pcmpestrm/vpcmpestri: six, cmpxchg16b/cmpxchg8b: five). Strict validation and the plain encoder must agree on every
// operand assignment inside the record's domain, the bytes must be the same, and (vpermil2ps) the fields must hold the operands.
#include "x86_env.h"
using namespace asmjit;

template<bool X64> static void agree(InstId id, const Operand_& o0, const Operand_& o1, const Operand_& o2, const Operand_& o3, const Operand_& o4, const Operand_& o5,
                                     uint8_t* bytes_out, size_t& n_out, bool& accepted) {
  Operand_ ext[3] = { o3, o4, o5 };
  uint8_t b1[16]; Error e1, e2; size_t n1, n2;
  { x86::Assembler* a = venv::make_asm(X64, true); e1 = a->x86::Assembler::_emit(id, o0, o1, o2, ext); n1 = venv::emitted(); memcpy(b1, venv::buf, 16); }
  { x86::Assembler* a = venv::make_asm(X64, false); e2 = a->x86::Assembler::_emit(id, o0, o1, o2, ext); n2 = venv::emitted(); }
  verif_observe(uint32_t(e1)); verif_observe(uint32_t(e2)); verif_observe(n1); verif_observe(n2);
  V_ASSERT((e1 == Error::kOk) == (e2 == Error::kOk), "strict validation and the encoder agree on acceptance (5/6 operands)");
  V_ASSERT(e1 == Error::kOk, "a database form with 5/6 operands is accepted");
  accepted = e1 == Error::kOk && e2 == Error::kOk;
  if (accepted) {
    V_ASSERT(n1 == n2, "validation does not change the length (5/6 operands)");
    bool same = true; for (uint32_t i = 0; i < 15; i++) if (i < n1) same &= b1[i] == venv::buf[i];
    V_ASSERT(same, "validation does not change the bytes (5/6 operands)");
  }
  memcpy(bytes_out, venv::buf, 16); n_out = n2;
}

// vpermil2ps/pd xmm|ymm, xmm|ymm, xmm|ymm / mem, xmm|ymm, imm4   [RVMS] VEX.L.66.0F3A.W0 48|49 /r /is4
template<bool X64, bool YMM, bool MEM, bool PD> static void permil2() {   // the instruction id is a constant per harness (a symbolic id makes every table lookup symbolic)
  uint32_t lim = X64 ? 15 : 7;
  uint32_t r0 = nondet_u8() & lim, r1 = nondet_u8() & lim, r2 = nondet_u8() & lim, r3 = nondet_u8() & lim, imm = nondet_u8() & 15;
  const InstId id = PD ? x86::Inst::kIdVpermil2pd : x86::Inst::kIdVpermil2ps;
  Operand o0 = YMM ? Operand(x86::ymm(r0)) : Operand(x86::xmm(r0)), o1 = YMM ? Operand(x86::ymm(r1)) : Operand(x86::xmm(r1)), o3 = YMM ? Operand(x86::ymm(r3)) : Operand(x86::xmm(r3));
  int32_t disp = int32_t(nondet_u32());
  Operand o2 = MEM ? Operand(X64 ? x86::ptr(x86::gpq(r2), disp) : x86::ptr(x86::gpd(r2), disp)) : (YMM ? Operand(x86::ymm(r2)) : Operand(x86::xmm(r2)));
  uint8_t b[16]; size_t n; bool ok;
  agree<X64>(id, o0, o1, o2, o3, Imm(imm), Operand(), b, n, ok);
  if (ok) {
    // decode: VEX3 (C4) or VEX2 is impossible here (map 0F3A needs the 3-byte form)
    V_ASSERT(b[0] == 0xC4 && (b[1] & 31) == 3, "vpermil2: three-byte VEX, map 0F3A");
    uint32_t R = !((b[1] >> 7) & 1), X = !((b[1] >> 6) & 1), B = !((b[1] >> 5) & 1), W = (b[2] >> 7) & 1, vvvv = (~(b[2] >> 3)) & 15, L = (b[2] >> 2) & 1, pp = b[2] & 3;
    V_ASSERT(pp == 1 && L == (YMM ? 1u : 0u) && b[3] == (id == x86::Inst::kIdVpermil2ps ? 0x48 : 0x49), "vpermil2: prefix 66, vector length, opcode");
    uint32_t modrm = b[4], reg = ((modrm >> 3) & 7) | (R << 3);
    V_ASSERT(reg == r0 && vvvv == r1, "vpermil2: destination in ModRM.reg, first source in VEX.vvvv");
    uint8_t is4 = b[n - 1];
    if (!MEM) {
      V_ASSERT((modrm >> 6) == 3 && X == 0, "vpermil2: register form");
      uint32_t rm = (modrm & 7) | (B << 3);
      // W0: third operand in ModRM.rm, fourth in is4[7:4]; W1: swapped - either denotes the same instruction
      V_ASSERT(W == 0 ? (rm == r2 && uint32_t(is4 >> 4) == r3) : (rm == r3 && uint32_t(is4 >> 4) == r2), "vpermil2: the two remaining sources in ModRM.rm and is4[7:4]");
    } else {
      V_ASSERT((modrm >> 6) != 3 && W == 0 && uint32_t(is4 >> 4) == r3, "vpermil2: memory form uses W0, fourth operand in is4[7:4]");
    }
    V_ASSERT(uint32_t(is4 & 15) == imm, "vpermil2: imm4 in is4[3:0]");
    V_WITNESS("both-accept-5ops");
  }
}
HARNESS h_ops5_vpermil2ps_x64_xmm() { permil2<true, false, false, false>(); }
HARNESS h_ops5_vpermil2pd_x64_ymm_mem() { permil2<true, true, true, true>(); }
HARNESS h_ops5_vpermil2ps_x86_xmm_mem() { permil2<false, false, true, false>(); }

// pcmpestri / pcmpestrm / vpcmpestri / vpcmpestrm xmm, xmm/m128, imm8, <ecx|xmm0>, <eax>, <edx>  (implicit operands written out)
template<bool X64, bool VEXF, bool MEM, bool STRM> static void pcmpestr() {
  uint32_t lim = X64 ? 15 : 7;
  uint32_t r0 = nondet_u8() & lim, r1 = nondet_u8() & lim; int64_t imm = int64_t(int8_t(nondet_u8()));
  const bool strm = STRM;
  const InstId id = VEXF ? (strm ? x86::Inst::kIdVpcmpestrm : x86::Inst::kIdVpcmpestri) : (strm ? x86::Inst::kIdPcmpestrm : x86::Inst::kIdPcmpestri);
  Operand o1 = MEM ? Operand(X64 ? x86::ptr(x86::gpq(r1), int32_t(nondet_u32())) : x86::ptr(x86::gpd(r1), int32_t(nondet_u32()))) : Operand(x86::xmm(r1));
  Operand o3 = strm ? Operand(x86::xmm0) : Operand(x86::ecx);
  uint8_t b[16]; size_t n; bool ok;
  agree<X64>(id, x86::xmm(r0), o1, Imm(imm), o3, x86::eax, x86::edx, b, n, ok);
  if (ok) {
    V_ASSERT(b[n - 1] == uint8_t(imm), "pcmpestr: imm8 is the last byte");
    V_WITNESS("both-accept-6ops");
  }
}
HARNESS h_ops6_pcmpestri_x64() { pcmpestr<true, false, false, false>(); }
HARNESS h_ops6_vpcmpestrm_x64_mem() { pcmpestr<true, true, true, true>(); }
HARNESS h_ops6_pcmpestri_x86_mem() { pcmpestr<false, false, true, false>(); }

// cmpxchg16b m128, <rdx>, <rax>, <rcx>, <rbx>  /  cmpxchg8b m64, <edx>, <eax>, <ecx>, <ebx>
template<bool X64> static void cmpxchg_wide() {
  uint32_t rb = nondet_u8() & (X64 ? 15 : 7); int32_t disp = int32_t(nondet_u32());
  const bool wide = X64;
  x86::Mem m = X64 ? x86::ptr(x86::gpq(rb), disp) : x86::ptr(x86::gpd(rb), disp);
  m.set_size(wide ? 16 : 8);
  uint8_t b[16]; size_t n; bool ok;
  if (wide) agree<X64>(x86::Inst::kIdCmpxchg16b, m, x86::rdx, x86::rax, x86::rcx, x86::rbx, Operand(), b, n, ok);
  else agree<X64>(x86::Inst::kIdCmpxchg8b, m, x86::edx, x86::eax, x86::ecx, x86::ebx, Operand(), b, n, ok);
  if (ok) V_WITNESS("both-accept-cmpxchg");
}
HARNESS h_ops5_cmpxchg_x64() { cmpxchg_wide<true>(); }
HARNESS h_ops5_cmpxchg_x86() { cmpxchg_wide<false>(); }
