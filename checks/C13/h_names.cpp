// C13 (names): the textual name of every instruction maps back to an instruction id that carries this name.
//
// Subjects: x86::InstInternal::inst_id_to_string / string_to_inst_id, a64::InstInternal::inst_id_to_string / string_to_inst_id,
// InstNameUtils::decode / find_instruction / find_alias (core/instdb.cpp) over the real name tables of x86instdb.cpp / a64instdb.cpp.
// The instruction id (the alias index) is a symbolic variable; the solver decides the round trip for every value of it. Nothing about
// the contents of the tables is written down here except two facts from the Intel SDM used as an oracle for aliases (see below).
//
//   h_names_x86_all      : id over [1, x86::Inst::_kIdCount), one query: string_to_inst_id(inst_id_to_string(id)) == id.
//   h_names_<arch>_cover : id over [1, _kIdCount): the name is non-empty, at most max_name_length long, made of [a-z0-9_], starts with a
//                          letter, and the id lies inside the span `_inst_name_index.data[letter]` - the only part of the table that
//                          string_to_inst_id() looks at for a name starting with that letter.
//   h_names_a64_<l>      : AArch64, id over the span of letter <l>, restricted to the ids whose name starts with <l> (the span of a
//                          letter runs from its general-purpose block into its SIMD block and so contains ids of other letters; those
//                          belong to the harness of their own letter). The first character of the text handed to string_to_inst_id()
//                          is then the constant <l>: the span, the bounds of both binary searches and the ids visited by the linear
//                          scan that a64 string_to_inst_id() falls back to are constants for the solver (the scan over a symbolic span
//                          is out of reach: 450 iterations, each decoding a symbolic table entry); the probe position of every search
//                          step and the name looked up stay symbolic.  h_names_a64_cover + all letters = every id in [1, _kIdCount).
//   h_names_x86_alias    : alias index over [0, kAliasTableSize): the alias text maps to the id the alias table gives.
//   h_names_x86_alias_names : alias index over the same range: that id carries the alias as one of its names.
//   h_names_x86_alias_miss  : a text that is no name maps to kIdNone.
#include <asmjit/core.h>
#include <asmjit/x86.h>
#include <asmjit/a64.h>
#include <asmjit/core/instdb_p.h>
#include <asmjit/x86/x86instdb_p.h>
#include <asmjit/x86/x86instapi_p.h>
#include <asmjit/arm/a64instdb_p.h>
#include <asmjit/arm/a64instapi_p.h>
#include "verif.h"
#include "no_heap.h"
// (assertion texts: the translator drops IR globals whose text contains the word "alias" between spaces - hence "alias-name")

using namespace asmjit;

namespace {

// Texts live in their own static byte arrays (external storage of the String): the characters are not inside the String object and no
// heap object can be a target of the writes (no_heap: an allocation would fail the operation and is counted).
constexpr size_t kCap = 47;
constexpr size_t kMax = 20;   // harness bound on the length of a text (x86: max_name_length is 17, AArch64: 9); asserted, never assumed
char txt_a[kCap + 1], txt_b[kCap + 1], txt_c[kCap + 1];
inline void ext_string(String& sb, char* store) {
  sb._large.type = String::kTypeExternal; sb._large.size = 0; sb._large.capacity = kCap; sb._large.data = store; store[0] = 0;
}

// to_string / to_id are not inlined into the harnesses: the loops of the code under test then carry the same names (X86::to_id.N ...)
// in every build of the unit, whichever harnesses are selected, and the unwindset entries of spec.py stay valid.
#define NOINLINE __attribute__((noinline))
struct X86 {
  static constexpr uint32_t kCount = x86::Inst::_kIdCount;
  static constexpr bool kUniqueNames = true;                      // any other id than the one that was printed is a violation
  static inline const InstNameIndex& index() { return x86::InstDB::_inst_name_index; }
  static NOINLINE Error to_string(InstId id, InstStringifyOptions o, String& s) { return x86::InstInternal::inst_id_to_string(id, o, s); }
  static NOINLINE InstId to_id(const char* s, size_t n) { return x86::InstInternal::string_to_inst_id(s, n); }
  static inline bool same_class(InstId, InstId) { return true; }
};
struct A64 {
  static constexpr uint32_t kCount = a64::Inst::_kIdCount;
  static constexpr bool kUniqueNames = false;
  static inline const InstNameIndex& index() { return a64::InstDB::_inst_name_index; }
  static NOINLINE Error to_string(InstId id, InstStringifyOptions o, String& s) { return a64::InstInternal::inst_id_to_string(id, o, s); }
  static NOINLINE InstId to_id(const char* s, size_t n) { return a64::InstInternal::string_to_inst_id(s, n); }
  // one mnemonic may name a general-purpose id and a SIMD id (the SIMD ids start at kIdAbs_v)
  static inline bool same_class(InstId a, InstId b) { return (a < uint32_t(a64::Inst::kIdAbs_v)) == (b < uint32_t(a64::Inst::kIdAbs_v)); }
};

inline bool name_char(char c) { return (c >= 'a' && c <= 'z') || (c >= '0' && c <= '9') || c == '_'; }

template<size_t MAX> inline void observe_text(const char* p, size_t n) {
  verif_observe(n);
  for (size_t i = 0; i < MAX && i < n; i++) verif_observe(uint8_t(p[i]));
}
template<size_t MAX> inline bool same_text(const char* a, size_t an, const char* b, size_t bn) {
  if (an != bn) return false;
  bool eq = true;
  for (size_t i = 0; i < MAX && i < an; i++) eq &= (a[i] == b[i]);
  return eq;
}

// ---- every id: shape of the name, and the id lies in the span of the first letter of its name ----------------------------------
template<class A> inline void cover() {
  const InstNameIndex& ix = A::index();
  uint32_t id = 1u + uint32_t(nondet_u16()) % (A::kCount - 1u);
  String a; ext_string(a, txt_a);
  no_heap::active = true;
  Error e = A::to_string(id, InstStringifyOptions::kNone, a);
  no_heap::active = false;
  V_ASSERT(e == Error::kOk && no_heap::n_calls == 0, "the name of a defined id is produced without allocation");
  size_t n = a.size();
  V_ASSERT(a.data() == txt_a && n >= 1 && n <= ix.max_name_length && n <= kMax, "the name is non-empty and at most max_name_length long");
  if (n > kMax) return;
  bool ok = true;
  for (size_t i = 0; i < kMax && i < n; i++) ok &= name_char(txt_a[i]);
  V_ASSERT(ok && txt_a[n] == '\0', "the name consists of characters a-z 0-9 _ and is terminated");
  uint32_t l = uint32_t(uint8_t(txt_a[0])) - uint32_t('a');
  V_ASSERT(l < 26, "the name starts with a letter");
  if (l >= 26) return;
  V_ASSERT(ix.data[l].start != 0 && ix.data[l].start <= id && id < ix.data[l].end, "the id lies inside the name index span of its first letter");
  verif_observe(id); observe_text<kMax>(txt_a, n);
  V_WITNESS("name of an id checked");
}

// ---- round trip. L < 26: the ids of the span of letter 'a' + L whose name starts with that letter; L == 26: every id ---------------
template<class A, uint32_t L> inline void round_trip() {
  static_assert(L <= 26, "letter");
  const InstNameIndex& ix = A::index();
  uint32_t lo = L < 26 ? uint32_t(ix.data[L < 26 ? L : 0].start) : 1u, hi = L < 26 ? uint32_t(ix.data[L < 26 ? L : 0].end) : A::kCount;
  if (lo == 0 || lo >= hi || hi > A::kCount) return;      // no id to check: the harness is then vacuous and reported as such
  uint32_t id = lo + uint32_t(nondet_u16()) % (hi - lo);

  String a; ext_string(a, txt_a);
  no_heap::active = true;
  Error e = A::to_string(id, InstStringifyOptions::kNone, a);
  size_t n = a.size();
  V_ASSERT(e == Error::kOk && a.data() == txt_a && n >= 1 && n <= kMax, "the name of a defined id is produced");
  if (e != Error::kOk || n < 1 || n > kMax) return;
  if (L < 26) {
    V_ASSUME(txt_a[0] == char('a' + L));   // ids of the span whose name starts with another letter: see the harness of that letter
    txt_a[0] = char('a' + L);              // the same value as a constant
  }

  InstId id2 = A::to_id(txt_a, n);
  V_ASSERT(id2 != BaseInst::kIdNone, "the name of an instruction maps back to an instruction id");
  V_ASSERT(id2 == id || !A::same_class(id2, id), "the name maps back to the same id unless a general-purpose and a SIMD id share it");
  if (id2 == BaseInst::kIdNone) return;
  if (!A::kUniqueNames) {
    String b; ext_string(b, txt_b);
    Error e2 = A::to_string(id2, InstStringifyOptions::kNone, b);
    V_ASSERT(e2 == Error::kOk && b.data() == txt_b, "the id found has a name");
    V_ASSERT(same_text<kMax>(txt_a, n, txt_b, b.size()), "the id found carries the name that was looked up");
  }
  no_heap::active = false;
  V_ASSERT(no_heap::n_calls == 0, "nothing was allocated");
  verif_observe(id); verif_observe(id2); observe_text<kMax>(txt_a, n);
  V_WITNESS("name round trip done");
}

// ---- x86 aliases ---------------------------------------------------------------------------------------------------------------
// `f` is the name of an id as InstStringifyOptions::kAliases prints it: "jnbe|ja" (alternatives separated by '|') or "cmov.nbe|a"
// (a common stem before '.', the alternatives are the stem followed by each piece). True when `s` is one of the alternatives.
inline bool among_alternatives(const char* f, size_t fn, const char* s, size_t sn) {
  size_t dot = fn; bool has_dot = false;
  for (size_t i = 0; i < kMax && i < fn; i++) if (f[i] == '.' && !has_dot) { has_dot = true; dot = i; }
  size_t stem = has_dot ? dot : 0;
  bool stem_ok = stem <= sn;
  for (size_t i = 0; i < kMax && i < stem; i++) stem_ok &= (i < sn && s[i] == f[i]);
  bool found = false, cur_ok = true; size_t cur = stem;
  for (size_t i = 0; i < kMax && i < fn; i++) {
    if (has_dot && i <= dot) continue;
    char c = f[i];
    if (c == '|') { found |= (cur_ok && cur == sn); cur_ok = true; cur = stem; }
    else { cur_ok &= (cur < sn && s[cur < kCap ? cur : kCap] == c); cur++; }
  }
  found |= (cur_ok && cur == sn);
  return stem_ok && found;
}
template<size_t N> inline bool text_is(const char* p, size_t n, const char (&lit)[N]) {
  if (n != N - 1) return false;
  bool eq = true;
  for (size_t i = 0; i + 1 < N; i++) eq &= (p[i] == lit[i]);
  return eq;
}

// the text of alias `ai` in txt_a; returns its length (0: the harness stops, an assertion has failed)
inline size_t alias_text(uint32_t ai) {
  String a; ext_string(a, txt_a);
  Error e = InstNameUtils::decode(x86::InstDB::alias_name_index_table[ai], InstStringifyOptions::kNone, x86::InstDB::alias_name_string_table, a);
  size_t n = a.size();
  V_ASSERT(e == Error::kOk && a.data() == txt_a && n >= 1 && n <= x86::InstDB::_inst_name_index.max_name_length && n <= kMax, "the alias-name is non-empty and at most max_name_length long");
  return (e == Error::kOk && n <= kMax) ? n : 0;
}

} // namespace

HARNESS h_names_x86_cover() { cover<X86>(); }
HARNESS h_names_a64_cover() { cover<A64>(); }

HARNESS h_names_x86_all() { round_trip<X86, 26>(); }

// AArch64: one harness per letter that has instructions
#define NAMES_A64(l, L) HARNESS h_names_a64_##l() { round_trip<A64, L>(); }
NAMES_A64(a,  0) NAMES_A64(b,  1) NAMES_A64(c,  2) NAMES_A64(d,  3) NAMES_A64(e,  4) NAMES_A64(f,  5) NAMES_A64(g,  6) NAMES_A64(h,  7)
NAMES_A64(i,  8) NAMES_A64(l, 11) NAMES_A64(m, 12) NAMES_A64(n, 13) NAMES_A64(o, 14) NAMES_A64(p, 15) NAMES_A64(r, 17) NAMES_A64(s, 18)
NAMES_A64(t, 19) NAMES_A64(u, 20) NAMES_A64(w, 22) NAMES_A64(x, 23) NAMES_A64(y, 24) NAMES_A64(z, 25)

// AArch64 letters without a harness above must have no instruction: otherwise the union of the letter harnesses would not be every id.
HARNESS h_names_a64_letters() {
  const InstNameIndex& a = a64::InstDB::_inst_name_index;
  V_ASSERT(a.data[9].start == 0 && a.data[10].start == 0 && a.data[16].start == 0 && a.data[21].start == 0, "a64: no instruction name starts with j k q v");
  V_ASSERT(a.max_name_length <= kMax, "a64: max_name_length is within the text bound of these harnesses");
  verif_observe(a.max_name_length);
  V_WITNESS("letters without instructions checked");
}

HARNESS h_names_x86_alias() {
  uint32_t ai = uint32_t(nondet_u8()) % x86::InstDB::kAliasTableSize;
  no_heap::active = true;
  size_t n = alias_text(ai);
  if (n == 0) return;
  bool chars_ok = true;
  for (size_t i = 0; i < kMax && i < n; i++) chars_ok &= name_char(txt_a[i]);
  V_ASSERT(chars_ok && txt_a[0] >= 'a' && txt_a[0] <= 'z', "the alias-name consists of characters a-z 0-9 _ and starts with a letter");

  InstId id = X86::to_id(txt_a, n);
  no_heap::active = false;
  V_ASSERT(id == x86::InstDB::alias_index_to_inst_id_table[ai], "the alias-name maps to the id its table entry gives");
  V_ASSERT(id != BaseInst::kIdNone && id < x86::Inst::_kIdCount && no_heap::n_calls == 0, "the alias-name maps to a defined instruction id");
  verif_observe(ai); verif_observe(id); observe_text<kMax>(txt_a, n);
  V_WITNESS("alias round trip done");
}

// The id the alias table gives carries the alias as one of its names: the kAliases rendering of the id lists it. The two aliases that
// asmjit renders without a list are checked against the Intel SDM (SAL and SHL are one instruction; WAIT and FWAIT are one instruction).
HARNESS h_names_x86_alias_names() {
  uint32_t ai = uint32_t(nondet_u8()) % x86::InstDB::kAliasTableSize;
  no_heap::active = true;
  size_t n = alias_text(ai);
  if (n == 0) return;
  InstId id = x86::InstDB::alias_index_to_inst_id_table[ai];
  V_ASSERT(id != BaseInst::kIdNone && id < x86::Inst::_kIdCount, "the alias-name table gives a defined instruction id");
  if (id == BaseInst::kIdNone || id >= x86::Inst::_kIdCount) return;
  String p; ext_string(p, txt_b);
  String f; ext_string(f, txt_c);
  Error e1 = X86::to_string(id, InstStringifyOptions::kNone, p);
  Error e2 = X86::to_string(id, InstStringifyOptions::kAliases, f);
  no_heap::active = false;
  size_t pn = p.size(), fn = f.size();
  V_ASSERT(e1 == Error::kOk && e2 == Error::kOk && no_heap::n_calls == 0 && pn >= 1 && pn <= kMax && fn >= 1 && fn <= kMax, "the id has a plain rendering and a rendering with aliases");
  if (pn > kMax || fn > kMax) return;
  bool plain = same_text<kMax>(txt_b, pn, txt_c, fn);
  bool listed = among_alternatives(txt_c, fn, txt_a, n);
  bool primary = among_alternatives(txt_c, fn, txt_b, pn);
  bool manual = (text_is(txt_a, n, "sal") && text_is(txt_b, pn, "shl")) || (text_is(txt_a, n, "wait") && text_is(txt_b, pn, "fwait"));
  V_ASSERT(primary, "the rendering with aliases of an id lists its primary name");
  V_ASSERT(plain ? manual : listed, "the id an alias-name maps to carries it as one of its names");
  V_ASSERT(!same_text<kMax>(txt_a, n, txt_b, pn), "an alias-name differs from the primary name");
  verif_observe(ai); verif_observe(id); observe_text<kMax>(txt_a, n); observe_text<kMax>(txt_c, fn);
  V_WITNESS("alias names checked");
}

// A text that is no instruction and no alias maps to kIdNone: one character of an alias replaced by a character no name contains.
HARNESS h_names_x86_alias_miss() {
  uint32_t ai = uint32_t(nondet_u8()) % x86::InstDB::kAliasTableSize;
  no_heap::active = true;
  size_t n = alias_text(ai);
  if (n == 0) return;
  size_t k = nondet_u8() & 31;
  if (k >= n) return;
  static const char other[4] = { '.', '|', '~', 'A' };   // outside a-z 0-9 _ (h_names_x86_cover, h_names_x86_alias: no name and no alias contains them)
  txt_a[k] = other[nondet_u8() & 3];
  InstId id = X86::to_id(txt_a, n);
  no_heap::active = false;
  V_ASSERT(id == BaseInst::kIdNone && no_heap::n_calls == 0, "a text that is neither an instruction name nor an alias-name maps to no id");
  verif_observe(ai); verif_observe(k); observe_text<kMax>(txt_a, n);
  V_WITNESS("near miss of an alias-name looked up");
}
