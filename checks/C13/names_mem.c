/* Solver-side memcpy / bcmp / memcmp for the C13 'names' units (Unit(extra_c=...)).
 * clang -O1 turns the prefix / suffix copy loops of InstNameUtils::decode_to_buffer into memcpy(name, string_table + k, n) with a
 * symbolic k and n; String::append copies the decoded name with a symbolic length as well. CBMC's built-in model expresses such a copy
 * as a whole-array replacement, which sends the constant name tables into the array theory (out of memory after the first query). The
 * plain byte loop below is what the source code had. It is used for copies into the 32..48-byte name buffers (selected by the size of
 * the destination object, a constant for the solver; loop memcpy.0, bound: longest name + 1); every other copy (a64 string_to_inst_id
 * copies the 106-byte InstNameIndex, StringTmp<32> in its linear scan) keeps CBMC's own model, which is exact for constant lengths.
 * The native twins use libc: the file is empty unless __CPROVER__ is defined. */
#ifdef __CPROVER__
#include <stddef.h>
void* memcpy(void* d, const void* s, size_t n) {
  unsigned char* p = (unsigned char*)d; const unsigned char* q = (const unsigned char*)s;
  if (__CPROVER_OBJECT_SIZE(d) <= 64) { for (size_t i = 0; i < n; i++) p[i] = q[i]; }
  else if (n > 0) { char src_n[n]; __CPROVER_array_copy(src_n, (char*)s); __CPROVER_array_replace((char*)d, src_n); }   /* = CBMC's own model */
  return d;
}
int memcmp(const void* a, const void* b, size_t n) {
  const unsigned char* p = (const unsigned char*)a; const unsigned char* q = (const unsigned char*)b;
  for (size_t i = 0; i < n; i++) if (p[i] != q[i]) return p[i] < q[i] ? -1 : 1;
  return 0;
}
int bcmp(const void* a, const void* b, size_t n) { return memcmp(a, b, n); }
#endif
