/* Solver-side memcpy / bcmp / memcmp for the C13 'names' unit (Unit(extra_c=...)).
 * clang -O1 turns the prefix / suffix copy loops of InstNameUtils::decode_to_buffer into memcpy(name, string_table + k, n) with a
 * symbolic k and n; String::append copies the decoded name with a symbolic length as well. CBMC's built-in model expresses such a copy
 * as a whole-array replacement, which sends the constant name tables into the array theory (out of memory after the first query). The
 * plain byte loops below are what the source code had; their bounds come from --unwind (names are at most 32 characters).
 * The native twins use libc: the file is empty unless __CPROVER__ is defined. */
#ifdef __CPROVER__
#include <stddef.h>
void* memcpy(void* d, const void* s, size_t n) {
  unsigned char* p = (unsigned char*)d; const unsigned char* q = (const unsigned char*)s;
  for (size_t i = 0; i < n; i++) p[i] = q[i];
  return d;
}
int memcmp(const void* a, const void* b, size_t n) {
  const unsigned char* p = (const unsigned char*)a; const unsigned char* q = (const unsigned char*)b;
  for (size_t i = 0; i < n; i++) if (p[i] != q[i]) return p[i] < q[i] ? -1 : 1;
  return 0;
}
int bcmp(const void* a, const void* b, size_t n) { return memcmp(a, b, n); }
#endif
