// C06/H1 — argument / return value classification: FuncDetail::init(signature, environment) (core/func.cpp,
// x86/x86func.cpp, arm/a64func.cpp) against an independent reference of the platform ABIs written below.
//
// Symbolic: number of arguments (0..NMAX), the TypeId of every argument and of the return value, the varargs index,
// the calling convention id among those that select the ABI under test, the platform.
// Reference sources: System V psABI x86-64 (3.2.3 parameter passing, INTEGER/SSE classes, stack slots of 8 bytes, __m128/
// __m256/__m512 aligned to their size); Microsoft x64 calling convention (positional RCX/RDX/R8/R9 + XMM0-3, 32 byte home
// space, arguments > 8 bytes by reference, __m64 in GP) and __vectorcall (XMM0-5 positional); Microsoft/GCC 32-bit
// conventions (cdecl, stdcall, fastcall ECX/EDX, thiscall ECX, regparm EAX/EDX/ECX, vectorcall); AAPCS64 (x0-7, v0-7,
// stack slots of 8 bytes, 16-byte quantities aligned to 16) and Apple's arm64 variant (stack arguments packed at their
// natural size and alignment, variadic arguments on the stack in 8-byte slots). Every rule of the reference was also
// compared with what clang 14 generates for the corresponding target triple.
// Only what those documents prescribe is asserted; where they are silent (AsmJit's light-call, 64-bit integers under
// register conventions of x86-32, vector arguments beyond the register ones on x86-32) only internal consistency is.
#include <asmjit/core.h>
#include "verif.h"
using namespace asmjit;

// ---------------------------------------------------------------------------------------------------------- types
enum Cls : uint8_t { C_INT, C_F32, C_F64, C_VEC, C_MMX, C_MASK };
struct Ty { TypeId id; uint8_t cls; uint8_t size; };

// Independent size table (the harness does not use TypeUtils::size_of).
template<bool kX86>
static Ty pick_type(uint32_t reg_size) {
  Ty t; uint32_t sel = nondet_u8() % (kX86 ? 17 : 13), sub = nondet_u8() % 10;
  if (sel < 10) {
    t.id = TypeId(32 + sel); t.cls = C_INT;
    t.size = sel < 2 ? uint8_t(reg_size) : uint8_t(1u << ((sel - 2) >> 1));     // intptr, uintptr, i8,u8,i16,u16,i32,u32,i64,u64
  }
  else if (sel == 10) { t.id = TypeId::kFloat32; t.cls = C_F32; t.size = 4; }
  else if (sel == 11) { t.id = TypeId::kFloat64; t.cls = C_F64; t.size = 8; }
  else if (sel == 12) { t.id = TypeId(71 + sub); t.cls = C_VEC; t.size = 16; }
  else if (sel == 13) { t.id = TypeId(81 + sub); t.cls = C_VEC; t.size = 32; }
  else if (sel == 14) { t.id = TypeId(91 + sub); t.cls = C_VEC; t.size = 64; }
  else if (sel == 15) { t.id = TypeId::kMmx64; t.cls = C_MMX; t.size = 8; }
  else { t.id = TypeId(45 + (sub & 3)); t.cls = C_MASK; t.size = uint8_t(1u << (sub & 3)); }
  return t;
}
static inline TypeId deabstract(TypeId id, uint32_t reg_size) {
  if (id == TypeId::kIntPtr) return reg_size == 8 ? TypeId::kInt64 : TypeId::kInt32;
  if (id == TypeId::kUIntPtr) return reg_size == 8 ? TypeId::kUInt64 : TypeId::kUInt32;
  return id;
}

// ---------------------------------------------------------------------------------------------------------- locations
enum : uint8_t { G_GP = 0, G_VEC = 1, G_MASK = 2, G_MM = 3, G_ST = 9, G_BAD = 0xFF };
static inline uint8_t group_of(RegType rt) {
  uint32_t r = uint32_t(rt);
  if (r >= 2 && r <= 6) return G_GP;
  if (r >= 7 && r <= 15) return G_VEC;
  if (rt == RegType::kMask) return G_MASK;
  if (rt == RegType::kX86_Mm) return G_MM;
  if (rt == RegType::kX86_St) return G_ST;
  return G_BAD;
}
static inline uint32_t reg_bytes(RegType rt) {
  switch (rt) {
    case RegType::kGp32: return 4; case RegType::kGp64: return 8;
    case RegType::kVec32: return 4; case RegType::kVec64: return 8; case RegType::kVec128: return 16; case RegType::kVec256: return 32; case RegType::kVec512: return 64;
    case RegType::kMask: return 8; case RegType::kX86_Mm: return 8; case RegType::kX86_St: return 10;
    default: return 0;
  }
}
enum : uint8_t { L_NONE = 0, L_REG = 1, L_STACK = 2 };
struct Loc { uint8_t kind, group, id, indirect; uint32_t off; TypeId type; uint8_t bytes; };
static inline Loc loc_reg(uint8_t group, uint32_t id, TypeId type, uint32_t bytes, bool indirect = false) { Loc l; l.kind = L_REG; l.group = group; l.id = uint8_t(id); l.indirect = indirect; l.off = 0; l.type = type; l.bytes = uint8_t(bytes); return l; }
static inline Loc loc_stack(uint32_t off, TypeId type, uint32_t bytes, bool indirect = false) { Loc l; l.kind = L_STACK; l.group = 0; l.id = 0; l.indirect = indirect; l.off = off; l.type = type; l.bytes = uint8_t(bytes); return l; }
static inline uint32_t align_up(uint32_t x, uint32_t a) { return (x + a - 1) & ~(a - 1); }

enum Abi { SYSV64, WIN64, VECTORCALL64, X86_32, AAPCS64, APPLE64, LIGHT32, LIGHT64 };
enum Known { K_NONE, K_D6, K_D7, K_C06A, K_C06B, K_C06C, K_C06D, K_C06E, K_C06F, K_C06G };

template<uint32_t NMAX>
struct Sig {
  uint32_t n; Ty t[NMAX]; Ty ret; bool has_ret; uint32_t va;   // va: index of the first variadic argument, or 0xFF
};
template<uint32_t NMAX>
struct Ref {
  Loc a[NMAX][2];      // expected location of every value of every argument (x86-32 splits 64-bit integers in two)
  uint8_t nval[NMAX];
  uint32_t n_exact;    // arguments [0, n_exact) have a prescribed location; behind that only consistency is checked
  uint32_t stack_size; bool stack_size_exact;
  bool callee_pops;
  // regions of known findings
  bool r_d6, r_d7, r_a, r_b, r_c, r_d, r_e, r_f, r_g;
};

// ---------------------------------------------------------------------------------------------------------- references
template<uint32_t NMAX>
static void ref_sysv64(const Sig<NMAX>& s, Ref<NMAX>& r) {
  static const uint8_t gp[6] = { 7, 6, 2, 1, 8, 9 };   // rdi rsi rdx rcx r8 r9
  uint32_t ng = 0, nv = 0, off = 0;
  r.n_exact = s.n; r.callee_pops = false;
  for (uint32_t i = 0; i < NMAX; i++) {
    if (i >= s.n) break;
    const Ty& t = s.t[i]; TypeId id = deabstract(t.id, 8); r.nval[i] = 1;
    if (t.cls == C_INT) {                                         // class INTEGER
      if (ng < 6) r.a[i][0] = loc_reg(G_GP, gp[ng++], id, t.size);
      else { r.a[i][0] = loc_stack(off, id, t.size); off += 8; }
    }
    else if (t.cls == C_MASK) {                                   // no such C type: location not prescribed, but it must have one
      r.r_a = true; if (r.n_exact > i) r.n_exact = i; r.a[i][0].kind = L_NONE;
    }
    else {                                                        // class SSE (float, double, __m64, __m128, __m256, __m512)
      if (t.cls == C_MMX) r.r_a = true;
      if (nv < 8) r.a[i][0] = loc_reg(G_VEC, nv++, id, t.size);
      else {
        uint32_t al = t.size > 8 ? t.size : 8;
        if (align_up(off, al) != off) r.r_d6 = true;
        if (t.cls == C_F32) r.r_d6 = true;
        off = align_up(off, al);
        r.a[i][0] = loc_stack(off, id, t.size); off += align_up(t.size, 8);
      }
    }
  }
  r.stack_size = off; r.stack_size_exact = r.n_exact == s.n;
}

template<uint32_t NMAX>
static void ref_win64(const Sig<NMAX>& s, Ref<NMAX>& r, bool vectorcall) {
  static const uint8_t gp[4] = { 1, 2, 8, 9 };         // rcx rdx r8 r9
  uint32_t nvreg = vectorcall ? 6 : 4;
  r.n_exact = s.n; r.callee_pops = false;
  for (uint32_t i = 0; i < NMAX; i++) {
    if (i >= s.n) break;
    const Ty& t = s.t[i]; TypeId id = deabstract(t.id, 8); r.nval[i] = 1;
    if (t.cls == C_INT || t.cls == C_MMX) {
      if (i < 4) r.a[i][0] = loc_reg(G_GP, gp[i], id, t.size);
      else { r.a[i][0] = loc_stack(8 * i, id, t.size); if (vectorcall && i < 6) r.r_c = true; }
    }
    else if (t.cls == C_F32 || t.cls == C_F64) {
      if (i < nvreg) r.a[i][0] = loc_reg(G_VEC, i, id, t.size);
      else r.a[i][0] = loc_stack(8 * i, id, t.size);
    }
    else if (t.cls == C_VEC) {
      if (vectorcall && i < 6) r.a[i][0] = loc_reg(G_VEC, i, id, t.size);
      else {                                                       // by reference: the pointer takes the positional integer slot
        if (i < 4) { r.a[i][0] = loc_reg(G_GP, gp[i], id, 8, true); r.r_b = true; }
        else r.a[i][0] = loc_stack(8 * i, id, 8, true);
        if (i >= 16) r.r_d7 = true;
      }
    }
    else { r.r_a = true; if (r.n_exact > i) r.n_exact = i; r.a[i][0].kind = L_NONE; }
  }
  r.stack_size = s.n > 4 ? 8 * s.n : 32;
  r.stack_size_exact = !vectorcall && r.n_exact == s.n;   // vectorcall: the documents do not give the size of the home area
}

template<uint32_t NMAX>
static void ref_x86_32(const Sig<NMAX>& s, Ref<NMAX>& r, CallConvId cc, bool win) {
  uint8_t gp[3] = { 0xFF, 0xFF, 0xFF }; uint32_t ngp = 0, nvreg = 3;
  bool vectorcall = cc == CallConvId::kVectorCall;
  r.callee_pops = cc == CallConvId::kStdCall || cc == CallConvId::kFastCall || vectorcall || (cc == CallConvId::kThisCall && win);
  if (cc == CallConvId::kFastCall || vectorcall) { gp[0] = 1; gp[1] = 2; ngp = 2; }              // ecx edx
  else if (cc == CallConvId::kThisCall && win) { gp[0] = 1; ngp = 1; }                              // ecx
  else if (cc == CallConvId::kRegParm1) { gp[0] = 0; ngp = 1; }                                     // eax
  else if (cc == CallConvId::kRegParm2) { gp[0] = 0; gp[1] = 2; ngp = 2; }                          // eax edx
  else if (cc == CallConvId::kRegParm3) { gp[0] = 0; gp[1] = 2; gp[2] = 1; ngp = 3; }               // eax edx ecx
  if (vectorcall) nvreg = 6;
  uint32_t ng = 0, nv = 0, off = 0;
  bool va = s.va != 0xFF;
  r.n_exact = s.n;
  for (uint32_t i = 0; i < NMAX; i++) {
    if (i >= s.n) break;
    const Ty& t = s.t[i]; TypeId id = deabstract(t.id, 4); r.nval[i] = 1;
    bool exact = r.n_exact > i;
    if (t.cls == C_INT && t.size <= 4) {
      if (ng < ngp) r.a[i][0] = loc_reg(G_GP, gp[ng++], id, t.size);
      else { r.a[i][0] = loc_stack(off, id, t.size); off += 4; }
    }
    else if (t.cls == C_INT) {
      // 64-bit integer: two 32-bit halves, low half first. While argument registers remain the documents are silent or the
      // compilers disagree (MSVC/clang fastcall: never in registers; GCC regparm: a pair if it fits) - not claimed.
      if (ng < ngp) { if (exact) r.n_exact = i; ng = ngp; }
      r.nval[i] = 2;
      r.a[i][0] = loc_stack(off, TypeId::kUInt32, 4); r.a[i][1] = loc_stack(off + 4, TypeId(uint32_t(id) - 2), 4); off += 8;
    }
    else if (t.cls == C_F32 || t.cls == C_F64) {
      if (vectorcall) { r.r_g = true; if (nv < nvreg) r.a[i][0] = loc_reg(G_VEC, nv++, id, t.size); else { r.a[i][0] = loc_stack(off, id, t.size); off += t.size; } }
      else { r.a[i][0] = loc_stack(off, id, t.size); off += t.size; }
    }
    else if (t.cls == C_VEC) {
      if (!va && nv < nvreg) { if (nv >= 3) r.r_g = true; r.a[i][0] = loc_reg(G_VEC, nv++, id, t.size); }
      else { if (exact) r.n_exact = i; r.a[i][0].kind = L_NONE; }     // on the stack: alignment differs between vendors - consistency only
    }
    else {  // __m64: vendors disagree (mm0-2 or stack); mask: no C type. Not prescribed, but a location there must be.
      r.r_a = true; if (exact) r.n_exact = i; r.a[i][0].kind = L_NONE;
    }
  }
  r.stack_size = off; r.stack_size_exact = r.n_exact == s.n;
}

template<uint32_t NMAX>
static void ref_a64(const Sig<NMAX>& s, Ref<NMAX>& r, bool apple) {
  uint32_t ng = 0, nv = 0, off = 0;
  r.n_exact = s.n; r.callee_pops = false;
  for (uint32_t i = 0; i < NMAX; i++) {
    if (i >= s.n) break;
    const Ty& t = s.t[i]; TypeId id = deabstract(t.id, 8); r.nval[i] = 1;
    bool variadic = i >= s.va;
    if (apple && variadic) r.r_f = true;
    bool to_stack = apple && variadic;                 // Apple: variadic arguments are always passed on the stack
    if (t.cls == C_INT && ng < 8 && !to_stack) r.a[i][0] = loc_reg(G_GP, ng++, id, t.size);
    else if (t.cls != C_INT && nv < 8 && !to_stack) r.a[i][0] = loc_reg(G_VEC, nv++, id, t.size);
    else {
      uint32_t sz = t.size, al = t.size;
      if (!apple || variadic) { sz = align_up(sz, 8); if (al < 8) al = 8; }   // AAPCS64 C.14/C.16: 8-byte slots; 16-byte types aligned to 16
      if (apple && !variadic && t.size < 4) r.r_d = true;
      if (t.size == 16) r.r_e = true;
      off = align_up(off, al);
      r.a[i][0] = loc_stack(off, id, t.size); off += sz;
    }
  }
  r.stack_size = align_up(off, 8); r.stack_size_exact = true;
}

// ---------------------------------------------------------------------------------------------------------- checks
static inline void observe_value(const FuncValue& v) { verif_observe(v._data); }

// One value against its prescribed location.
template<Abi ABI>
static void check_value(const FuncValue& v, const Loc& L) {
  constexpr bool k64 = ABI != X86_32 && ABI != LIGHT32;
  constexpr bool kA64 = ABI == AAPCS64 || ABI == APPLE64;
  V_ASSERT(v.type_id() == L.type, "argument keeps its (deabstracted) type id");
  V_ASSERT(v.is_indirect() == bool(L.indirect), "passed by reference exactly when the ABI says so");
  if (L.kind == L_REG) {
    V_ASSERT(v.is_reg() && !v.is_stack(), "argument is passed in a register as the ABI prescribes");
    V_ASSERT(group_of(v.reg_type()) == L.group && v.reg_id() == L.id, "argument register kind and id are those of the ABI");
    uint32_t rb = reg_bytes(v.reg_type());
    if (L.group == G_GP) V_ASSERT(rb >= L.bytes && rb <= (k64 ? 8u : 4u) && rb >= 4, "GP argument register is wide enough for the value");
    else if (kA64) V_ASSERT(rb == L.bytes, "a64 vector register view matches the value size");
    else V_ASSERT(rb == (L.bytes < 16 ? 16u : L.bytes), "x86 vector register (xmm, ymm, zmm) matches the value size");
  } else {
    V_ASSERT(v.is_stack() && !v.is_reg(), "argument is passed on the stack as the ABI prescribes");
    V_ASSERT(uint32_t(v.stack_offset()) == L.off, "stack argument offset is the one the ABI prescribes");
  }
}

template<Abi ABI, uint32_t NMAX>
static void check_ret(const FuncDetail& fd, const Sig<NMAX>& s, bool vectorcall32) {
  constexpr bool k32 = ABI == X86_32 || ABI == LIGHT32;
  constexpr bool kA64 = ABI == AAPCS64 || ABI == APPLE64;
  if (!s.has_ret) { V_ASSERT(!fd.has_ret(), "void function has no return value"); return; }
  const FuncValue& r0 = fd.ret(0); const FuncValue& r1 = fd.ret(1);
  observe_value(r0); observe_value(r1);
  const Ty& t = s.ret;
  if (t.cls == C_MASK) return;   // not prescribed
  V_ASSERT(r0.is_reg() && !r0.is_stack() && !r0.is_indirect(), "return value is in a register");
  uint8_t g = group_of(r0.reg_type()); uint32_t id = r0.reg_id(), rb = reg_bytes(r0.reg_type());
  if (t.cls == C_INT) {
    V_ASSERT(g == G_GP && id == 0, "integer result in rax, eax or x0");
    if (k32 && t.size == 8) {
      V_ASSERT(r1.is_reg() && group_of(r1.reg_type()) == G_GP && r1.reg_id() == 2 && rb == 4, "x86-32: 64-bit result in edx:eax");
    } else {
      V_ASSERT(rb >= t.size && rb >= 4 && !r1.is_initialized(), "integer result register is wide enough");
    }
  }
  else if (t.cls == C_F32 || t.cls == C_F64) {
    if (k32 && !vectorcall32) V_ASSERT(g == G_ST && id == 0, "x86-32: floating point result in st0");
    else V_ASSERT(g == G_VEC && id == 0 && (kA64 ? rb == t.size : rb == 16), "floating point result in xmm0 or v0");
  }
  else if (t.cls == C_MMX) {
    if (ABI == SYSV64) V_ASSERT(g == G_VEC && id == 0, "SysV x64: __m64 result in xmm0");
    else if (ABI == WIN64 || ABI == VECTORCALL64) V_ASSERT(g == G_GP && id == 0 && rb == 8, "Win64: __m64 result in rax");
    else if (ABI == X86_32) V_ASSERT(g == G_MM && id == 0, "x86-32: __m64 result in mm0");
  }
  else {
    V_ASSERT(g == G_VEC && id == 0 && rb == t.size, "vector result in xmm0, ymm0, zmm0 or v0");
  }
}

// Internal consistency: no two values share a register, stack slots do not overlap and lie inside the argument area.
template<uint32_t NMAX>
static void check_consistency(const FuncDetail& fd, const Sig<NMAX>& s, uint32_t ptr_size) {
  for (uint32_t i = 0; i < NMAX; i++) {
    if (i >= s.n) break;
    for (uint32_t vi = 0; vi < 2; vi++) {
      const FuncValue& a = fd.arg(i, vi);
      if (!a.is_initialized()) continue;
      V_ASSERT(!(a.is_reg() && a.is_stack()), "a value is not both in a register and on the stack");
      uint32_t asz = a.is_indirect() ? ptr_size : (vi == 0 && !fd.arg(i, 1).is_initialized() ? s.t[i].size : 4u);
      if (a.is_stack()) V_ASSERT(a.stack_offset() >= 0 && uint32_t(a.stack_offset()) + asz <= fd.arg_stack_size(), "stack argument lies inside the argument area");
      if (a.is_reg()) V_ASSERT(a.reg_id() < 32 && group_of(a.reg_type()) != G_BAD, "argument register is a real register");
      for (uint32_t j = 0; j < NMAX; j++) {
        if (j >= s.n) break;
        for (uint32_t vj = 0; vj < 2; vj++) {
          if (j < i || (j == i && vj <= vi)) continue;
          const FuncValue& b = fd.arg(j, vj);
          if (!b.is_initialized()) continue;
          uint32_t bsz = b.is_indirect() ? ptr_size : (vj == 0 && !fd.arg(j, 1).is_initialized() ? s.t[j].size : 4u);
          if (a.is_reg() && b.is_reg())
            V_ASSERT(!(group_of(a.reg_type()) == group_of(b.reg_type()) && a.reg_id() == b.reg_id()), "no two arguments in one register");
          if (a.is_stack() && b.is_stack())
            V_ASSERT(uint32_t(a.stack_offset()) + asz <= uint32_t(b.stack_offset()) || uint32_t(b.stack_offset()) + bsz <= uint32_t(a.stack_offset()), "stack arguments do not overlap");
        }
      }
    }
  }
}

static inline uint32_t bit(uint32_t i) { return 1u << i; }

template<Abi ABI>
static void check_call_conv(const CallConv& cc, bool callee_pops) {
  constexpr uint32_t GP = 0, VEC = 1;
  V_ASSERT(cc.has_flag(CallConvFlags::kCalleePopsStack) == callee_pops, "callee pops the stack arguments exactly in stdcall, fastcall, thiscall, vectorcall of x86-32");
  uint32_t pg = cc.preserved_regs(RegGroup::kGp), pv = cc.preserved_regs(RegGroup::kVec);
  if (ABI == SYSV64) {
    V_ASSERT(pg == (bit(3) | bit(4) | bit(5) | bit(12) | bit(13) | bit(14) | bit(15)), "SysV x64 callee-saved: rbx rsp rbp r12-r15");
    V_ASSERT(pv == 0, "SysV x64: no callee-saved vector registers");
    V_ASSERT(cc.red_zone_size() <= 128 && cc.spill_zone_size() == 0, "SysV x64: red zone of at most 128 bytes, no home area");
    V_ASSERT(cc.natural_stack_alignment() == 16, "SysV x64: 16-byte stack alignment");
  }
  if (ABI == WIN64 || ABI == VECTORCALL64) {
    V_ASSERT(pg == (bit(3) | bit(4) | bit(5) | bit(6) | bit(7) | bit(12) | bit(13) | bit(14) | bit(15)), "Win64 callee-saved: rbx rsp rbp rsi rdi r12-r15");
    V_ASSERT(pv == 0xFFC0u, "Win64 callee-saved: xmm6-xmm15");
    V_ASSERT(cc.red_zone_size() == 0, "Win64: no red zone");
    if (ABI == WIN64) V_ASSERT(cc.spill_zone_size() == 32, "Win64: 32 bytes of home space");
    V_ASSERT(cc.natural_stack_alignment() == 16, "Win64: 16-byte stack alignment");
  }
  if (ABI == X86_32) {
    V_ASSERT(pg == (bit(3) | bit(4) | bit(5) | bit(6) | bit(7)), "x86-32 callee-saved: ebx esp ebp esi edi");
    V_ASSERT(pv == 0 && cc.red_zone_size() == 0 && cc.spill_zone_size() == 0, "x86-32: no callee-saved vector registers, no red zone, no home area");
  }
  if (ABI == AAPCS64 || ABI == APPLE64) {
    uint32_t must = 0; for (uint32_t i = 19; i <= 29; i++) must |= bit(i);
    V_ASSERT((pg & must) == must && (pg & ~(must | bit(18) | bit(30))) == 0, "AAPCS64 callee-saved: x19-x28, fp (lr and the platform register x18 may be kept too)");
    V_ASSERT(pv == 0xFF00u && cc.save_restore_reg_size(RegGroup::kVec) == 8, "AAPCS64 callee-saved: low 64 bits of v8-v15");
    V_ASSERT(cc.red_zone_size() <= (ABI == APPLE64 ? 128u : 0u) && cc.spill_zone_size() == 0, "AAPCS64: no red zone (Apple: at most 128 bytes), no home area");
    V_ASSERT(cc.natural_stack_alignment() == 16, "AAPCS64: 16-byte stack alignment");
  }
  (void)GP; (void)VEC;
}

// ---------------------------------------------------------------------------------------------------------- driver
template<Abi ABI, uint32_t NMAX, Known KNOWN>
static void classify() {
  constexpr bool kX86 = ABI != AAPCS64 && ABI != APPLE64;
  constexpr bool k32 = ABI == X86_32 || ABI == LIGHT32;
  constexpr uint32_t reg_size = k32 ? 4 : 8;
  constexpr bool kLight = ABI == LIGHT32 || ABI == LIGHT64;

  // ---- environment and convention id
  Arch arch = kX86 ? (k32 ? Arch::kX86 : Arch::kX64) : Arch::kAArch64;
  Platform plat = Platform::kLinux; PlatformABI pabi = PlatformABI::kGNU;
  CallConvId cc = CallConvId::kCDecl;
  bool win = false;
  uint32_t k = nondet_u8();
  static const CallConvId cdecl_like[8] = { CallConvId::kCDecl, CallConvId::kStdCall, CallConvId::kFastCall, CallConvId::kThisCall,
                                            CallConvId::kRegParm1, CallConvId::kRegParm2, CallConvId::kRegParm3, CallConvId::kCDecl };
  if (ABI == SYSV64) {          // explicit id on any platform, or a 32-bit id on a non-Windows platform
    if (k & 8) { cc = CallConvId::kX64SystemV; if (k & 16) { plat = Platform::kWindows; pabi = PlatformABI::kMSVC; } }
    else { cc = cdecl_like[k & 7]; if (k & 16) { plat = Platform::kOSX; pabi = PlatformABI::kDarwin; } }
  }
  if (ABI == WIN64) {           // explicit id on any platform, or a 32-bit id on Windows / with the MSVC ABI
    if (k & 8) { cc = CallConvId::kX64Windows; if (k & 16) { plat = Platform::kWindows; pabi = PlatformABI::kMSVC; } }
    else { cc = cdecl_like[k & 7]; plat = (k & 16) ? Platform::kWindows : Platform::kLinux; pabi = (k & 32) || !(k & 16) ? PlatformABI::kMSVC : PlatformABI::kGNU; }
  }
  if (ABI == VECTORCALL64) { cc = CallConvId::kVectorCall; if (k & 16) { plat = Platform::kWindows; pabi = PlatformABI::kMSVC; } }
  if (ABI == X86_32) {
    static const CallConvId ids[8] = { CallConvId::kCDecl, CallConvId::kStdCall, CallConvId::kFastCall, CallConvId::kThisCall,
                                       CallConvId::kRegParm1, CallConvId::kRegParm2, CallConvId::kRegParm3, CallConvId::kVectorCall };
    cc = ids[k & 7]; win = (k & 16) != 0;
    if (cc == CallConvId::kThisCall) win = true;   // thiscall outside Windows is documented by AsmJit as cdecl: outside the claim
    if (win) { plat = Platform::kWindows; pabi = PlatformABI::kMSVC; }
  }
  if (ABI == AAPCS64 || ABI == APPLE64) {
    static const CallConvId ids[8] = { CallConvId::kCDecl, CallConvId::kStdCall, CallConvId::kFastCall, CallConvId::kThisCall,
                                       CallConvId::kRegParm1, CallConvId::kRegParm2, CallConvId::kRegParm3, CallConvId::kVectorCall };
    cc = ids[k & 7];
    if (ABI == APPLE64) { plat = (k & 16) ? Platform::kOSX : Platform::kIOS; pabi = PlatformABI::kDarwin; }
    else if (k & 16) { plat = Platform::kWindows; pabi = PlatformABI::kMSVC; }
  }
  if (kLight) { cc = CallConvId(uint32_t(CallConvId::kLightCall2) + (k % 3)); if (k & 16) { plat = Platform::kWindows; pabi = PlatformABI::kMSVC; win = true; } }
  Environment env(arch, SubArch::kUnknown, Vendor::kUnknown, plat, pabi);

  // ---- signature
  Sig<NMAX> s;
  s.n = nondet_u8() % (NMAX + 1);
  for (uint32_t i = 0; i < NMAX; i++) {
    if (KNOWN == K_D7 && i < 16) { s.t[i].id = TypeId::kInt32; s.t[i].cls = C_INT; s.t[i].size = 4; }   // the finding needs only the argument at index 16 to vary
    else s.t[i] = pick_type<kX86>(reg_size);
  }
  s.has_ret = nondet_bool(); s.ret = pick_type<kX86>(reg_size);
  s.va = 0xFF;
  bool va_ok = ABI == SYSV64 || ABI == WIN64 || ABI == AAPCS64 || ABI == APPLE64 || (ABI == X86_32 && cc == CallConvId::kCDecl);
  if (va_ok && nondet_bool()) { s.va = nondet_u8() % (NMAX + 1); V_ASSUME(s.va >= 1 && s.va <= s.n); }

  // ---- reference
  Ref<NMAX> r;
  r.r_d6 = r.r_d7 = r.r_a = r.r_b = r.r_c = r.r_d = r.r_e = r.r_f = r.r_g = false;
  r.n_exact = 0; r.stack_size = 0; r.stack_size_exact = false; r.callee_pops = false;
  if (ABI == SYSV64) ref_sysv64(s, r);
  if (ABI == WIN64) ref_win64(s, r, false);
  if (ABI == VECTORCALL64) ref_win64(s, r, true);
  if (ABI == X86_32) ref_x86_32(s, r, cc, win);
  if (ABI == AAPCS64) ref_a64(s, r, false);
  if (ABI == APPLE64) ref_a64(s, r, true);
  if (kLight) for (uint32_t i = 0; i < NMAX; i++) if (i < s.n && (s.t[i].cls == C_MMX || s.t[i].cls == C_MASK)) r.r_a = true;
  if (ABI == X86_32 && cc == CallConvId::kVectorCall && s.has_ret && (s.ret.cls == C_F32 || s.ret.cls == C_F64)) r.r_g = true;

  // ---- regions of known findings: excluded here, proved to fail (and only as listed) in the companion harnesses
#define REGION(flag, kid, open) if (open) { if (KNOWN == kid) V_ASSUME(flag); else V_ASSUME(!(flag)); }
#if KF_D6
  REGION(r.r_d6, K_D6, true)
#endif
#if KF_D7
  REGION(r.r_d7, K_D7, true)
#endif
#if KF_C06A
  REGION(r.r_a, K_C06A, true)
#endif
#if KF_C06B
  REGION(r.r_b, K_C06B, true)
#endif
#if KF_C06C
  REGION(r.r_c, K_C06C, true)
#endif
#if KF_C06D
  REGION(r.r_d, K_C06D, true)
#endif
#if KF_C06E
  REGION(r.r_e, K_C06E, true)
#endif
#if KF_C06F
  REGION(r.r_f, K_C06F, true)
#endif
#if KF_C06G
  REGION(r.r_g, K_C06G, true)
#endif

  // In the D7 region every path ends in the array-bounds trap inside FuncDetail::init: reachability is witnessed before it.
  if (KNOWN == K_D7) V_WITNESS("d7-region-entered");

  // ---- the code under test
  FuncSignature sig;
  sig._call_conv_id = cc; sig._arg_count = uint8_t(s.n); sig._va_index = uint8_t(s.va);
  sig._ret = s.has_ret ? s.ret.id : TypeId::kVoid;
  for (uint32_t i = 0; i < NMAX; i++) if (i < s.n) sig._args[i] = s.t[i].id;
  FuncDetail fd;
  Error err = fd.init(sig, env);
  verif_observe(uint32_t(err));
  V_ASSERT(err == Error::kOk, "signature over the supported types is accepted");
  verif_observe(fd.arg_stack_size()); verif_observe(uint32_t(fd.flags()));
  for (uint32_t i = 0; i < NMAX; i++) if (i < s.n) { observe_value(fd.arg(i, 0)); observe_value(fd.arg(i, 1)); }

  V_ASSERT(fd.arg_count() == s.n, "argument count kept");
  V_ASSERT(fd.va_index() == s.va, "varargs index kept");

  // ---- prescribed locations
  uint32_t used[2] = { 0, 0 }, used_direct[2] = { 0, 0 };
  for (uint32_t i = 0; i < NMAX; i++) {
    if (i >= s.n) break;
    const FuncValue& v0 = fd.arg(i, 0); const FuncValue& v1 = fd.arg(i, 1);
    V_ASSERT(v0.is_assigned(), "every argument has a location (register or stack)");
    V_ASSERT(!fd.arg(i, 2).is_initialized() && !fd.arg(i, 3).is_initialized(), "at most two values per argument");
    if (v0.is_reg() && group_of(v0.reg_type()) <= G_VEC && v0.reg_id() < 32) { used[group_of(v0.reg_type())] |= bit(v0.reg_id()); if (!v0.is_indirect()) used_direct[group_of(v0.reg_type())] |= bit(v0.reg_id()); }
    if (v1.is_reg() && group_of(v1.reg_type()) <= G_VEC && v1.reg_id() < 32) { used[group_of(v1.reg_type())] |= bit(v1.reg_id()); used_direct[group_of(v1.reg_type())] |= bit(v1.reg_id()); }
    if (kLight || i >= r.n_exact) continue;
    check_value<ABI>(v0, r.a[i][0]);
    if (r.nval[i] == 2) { V_ASSERT(v1.is_initialized(), "x86-32: 64-bit integer is split in two values"); check_value<ABI>(v1, r.a[i][1]); }
    else V_ASSERT(!v1.is_initialized(), "argument is a single value");
  }
  // (registers that carry the address of a by-reference argument are not recorded by AsmJit; the mask only seeds FuncFrame's dirty set)
  uint32_t ug = fd.used_regs(RegGroup::kGp), uv = fd.used_regs(RegGroup::kVec);
  V_ASSERT((ug & ~used[0]) == 0 && (uv & ~used[1]) == 0 && (used_direct[0] & ~ug) == 0 && (used_direct[1] & ~uv) == 0, "used-register masks cover the argument registers and nothing else");
  if (!kLight && r.stack_size_exact) V_ASSERT(fd.arg_stack_size() == r.stack_size, "size of the stack argument area is the one the ABI prescribes");
  if (!kLight) { check_call_conv<ABI>(fd.call_conv(), r.callee_pops); check_ret<ABI>(fd, s, ABI == X86_32 && cc == CallConvId::kVectorCall); }
  if (KNOWN != K_D7) check_consistency(fd, s, reg_size);

  // ---- reachability
  if (KNOWN != K_D7) {
    if (s.n == NMAX) V_WITNESS("all-arguments-used");
    if (s.n >= 1 && r.n_exact == s.n && fd.arg(s.n - 1, 0).is_stack()) V_WITNESS("last-argument-on-stack");
    if (s.n >= 1 && fd.arg(0, 0).is_reg()) V_WITNESS("first-argument-in-register");
  }
}

#define H(name, abi, nmax, known) HARNESS name() { classify<abi, nmax, known>(); }
H(h_sysv64_8, SYSV64, 8, K_NONE)
H(h_sysv64_20, SYSV64, 20, K_NONE)
H(h_win64_8, WIN64, 8, K_NONE)
H(h_win64_20, WIN64, 20, K_NONE)
H(h_vectorcall64_8, VECTORCALL64, 8, K_NONE)
H(h_vectorcall64_20, VECTORCALL64, 20, K_NONE)
H(h_x86_32_8, X86_32, 8, K_NONE)
H(h_x86_32_20, X86_32, 20, K_NONE)
H(h_aapcs64_12, AAPCS64, 12, K_NONE)
H(h_aapcs64_20, AAPCS64, 20, K_NONE)
H(h_apple64_12, APPLE64, 12, K_NONE)
H(h_apple64_20, APPLE64, 20, K_NONE)
H(h_light32_8, LIGHT32, 8, K_NONE)
H(h_light64_8, LIGHT64, 8, K_NONE)
// companions confined to the input regions of the known findings
H(h_sysv64_kf_D6, SYSV64, 12, K_D6)
H(h_win64_kf_D7, WIN64, 17, K_D7)
H(h_sysv64_kf_C06A, SYSV64, 8, K_C06A)
H(h_win64_kf_C06B, WIN64, 8, K_C06B)
H(h_vectorcall64_kf_C06C, VECTORCALL64, 8, K_C06C)
H(h_apple64_kf_C06D, APPLE64, 12, K_C06D)
H(h_aapcs64_kf_C06E, AAPCS64, 12, K_C06E)
H(h_apple64_kf_C06F, APPLE64, 12, K_C06F)
H(h_x86_32_kf_C06G, X86_32, 8, K_C06G)
