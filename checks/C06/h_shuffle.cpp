// NOT REGISTERED in spec.py (see OUTSIDE there): CBMC runs out of memory on this harness even for two arguments.
// Kept as the starting point for a lighter encoding.
// C06/H2 — the parallel-move solver behind BaseEmitter::emit_args_assignment:
// BaseEmitHelper::emit_args_assignment (core/emithelper.cpp) + FuncArgsContext (core/funcargscontext.cpp), driven the way the
// public API drives them: FuncArgsAssignment::update_func_frame(frame); frame.finalize(); emit_args_assignment(frame, args).
// The three virtual emit_* hooks are implemented by a token machine: a register file (value = argument token + the TypeId the
// value currently has) and one stack argument slot. Symbolic: number of arguments (0..4), register group (GP: has xchg, Vec: needs
// a scratch register), source register of every argument (distinct), at most one source on the stack, destination register and
// type of every argument (or unassigned), dirty and preserved masks of the frame (scratch exhaustion), preserved FP, dynamic
// alignment (stack-argument base register other than SP).
#include <asmjit/core.h>
#include <asmjit/core/emithelper_p.h>
#include <asmjit/core/funcargscontext_p.h>
#include "verif.h"
using namespace asmjit;

struct Val { uint8_t tok; TypeId type; };
enum : uint8_t { TOK_SP = 200, TOK_FP = 201, TOK_SA = 202, TOK_JUNK = 100 };

namespace tmach {
static uint8_t rtok[2][32]; static uint8_t rtyp[2][32];
static uint32_t written[2];
static uint8_t stack_tok; static TypeId stack_type; static int32_t stack_off; static bool has_stack;
static const FuncFrame* frame;
static uint32_t n_moves, n_swaps, n_loads;
}

static inline uint32_t type_size(TypeId t) {
  switch (t) {
    case TypeId::kInt8: case TypeId::kUInt8: return 1;
    case TypeId::kInt16: case TypeId::kUInt16: return 2;
    case TypeId::kInt32: case TypeId::kUInt32: case TypeId::kFloat32: return 4;
    case TypeId::kInt64: case TypeId::kUInt64: case TypeId::kFloat64: return 8;
    default: return 16;
  }
}

class TokenHelper : public BaseEmitHelper {
public:
  explicit TokenHelper(BaseEmitter* e) noexcept : BaseEmitHelper(e) {}

  Error emit_reg_move(const Operand_&, const Operand_&, TypeId, const char*) override {
    V_ASSERT(false, "no register to stack move is needed when every destination is a register");
    return Error::kOk;
  }

  Error emit_reg_swap(const Reg& a, const Reg& b, const char*) override {
    uint32_t g = uint32_t(a.reg_group());
    V_ASSERT(g == 0 && uint32_t(b.reg_group()) == 0 && a.id() < 32 && b.id() < 32, "swap is only requested for GP registers (the only group with xchg)");
    uint32_t ia = a.id() & 31, ib = b.id() & 31;
    uint8_t t0 = tmach::rtok[0][ia], t1 = tmach::rtyp[0][ia];
    tmach::rtok[0][ia] = tmach::rtok[0][ib]; tmach::rtyp[0][ia] = tmach::rtyp[0][ib]; tmach::rtok[0][ib] = t0; tmach::rtyp[0][ib] = t1;
    tmach::written[0] |= (1u << (a.id() & 31)) | (1u << (b.id() & 31));
    tmach::n_swaps++;
    return Error::kOk;
  }

  Error emit_arg_move(const Reg& dst_, TypeId dst_type_id, const Operand_& src_, TypeId src_type_id, const char*) override {
    uint32_t g = uint32_t(dst_.reg_group());
    V_ASSERT(g <= 1 && dst_.id() < 32, "move destination is a GP or vector register");
    Val v;
    if (src_.is_reg()) {
      const Reg& s = src_.as<Reg>();
      V_ASSERT(uint32_t(s.reg_group()) == g && s.id() < 32, "register move stays inside the register group");
      v.tok = tmach::rtok[g & 1][s.id() & 31]; v.type = TypeId(tmach::rtyp[g & 1][s.id() & 31]);
      tmach::n_moves++;
    } else {
      V_ASSERT(src_.is_mem() && tmach::has_stack, "memory source only for the stack argument");
      const BaseMem& m = src_.as<BaseMem>();
      V_ASSERT(m.has_base_reg() && !m.has_index() && m.base_id() < 32, "stack argument is addressed as base plus offset");
      uint8_t base_tok = tmach::rtok[0][m.base_id() & 31];
      const FuncFrame& f = *tmach::frame;
      // The base register must still hold the pointer the prolog left there: SP, or FP / the SA register when SP was realigned.
      if (!f.has_dynamic_alignment()) {
        V_ASSERT(base_tok == TOK_SP && m.offset() == int64_t(f.sa_offset_from_sp()) + tmach::stack_off, "stack argument is loaded from SP plus sa_offset_from_sp plus its offset");
      } else {
        V_ASSERT(base_tok == (f.has_preserved_fp() ? TOK_FP : TOK_SA) && m.offset() == int64_t(f.sa_offset_from_sa()) + tmach::stack_off, "stack argument is loaded from the stack-argument base register plus sa_offset_from_sa plus its offset");
      }
      v.tok = tmach::stack_tok; v.type = tmach::stack_type;
      tmach::n_loads++;
    }
    V_ASSERT(v.type == src_type_id, "the move is typed with the type the source value currently has");
    v.type = dst_type_id;
    tmach::rtok[g & 1][dst_.id() & 31] = v.tok; tmach::rtyp[g & 1][dst_.id() & 31] = uint8_t(v.type);
    tmach::written[g & 1] |= 1u << (dst_.id() & 31);
    return Error::kOk;
  }
};

alignas(16) static unsigned char emitter_mem[sizeof(BaseEmitter)];
// zero-initialised static storage: what the default constructors / reset() produce, without byte-wise memsets in the formula
static FuncDetail g_fd;
static FuncArgsAssignment g_args;
static FuncFrame g_frame;

static TypeId pick_gp_type() {
  static const TypeId t[8] = { TypeId::kInt8, TypeId::kUInt16, TypeId::kInt32, TypeId::kUInt32, TypeId::kInt64, TypeId::kUInt64, TypeId::kInt32, TypeId::kUInt64 };
  return t[nondet_u8() & 7];
}
static TypeId pick_vec_type() {
  static const TypeId t[4] = { TypeId::kFloat32, TypeId::kFloat64, TypeId::kInt32x4, TypeId::kFloat64x2 };
  return t[nondet_u8() & 3];
}

template<Arch ARCH, uint32_t N, int GROUP>
static void shuffle() {
  constexpr bool kA64 = ARCH == Arch::kAArch64;
  constexpr uint32_t kSp = kA64 ? 31 : 4, kFp = kA64 ? 29 : 5, kIdMask = kA64 ? 31 : 15;
  uint32_t n = nondet_u8() % (N + 1);
  constexpr uint32_t g = GROUP;                             // one register group per scenario
  uint32_t stack_arg = nondet_u8() & 7;                     // index of the argument that arrives on the stack (>= n: none)

  // ---- the function as FuncDetail::init would describe it (sources) and the caller's wishes (destinations)
  FuncDetail& fd = g_fd; fd.reset();
  fd._call_conv.set_arch(ARCH);
  fd._arg_count = uint8_t(n);
  FuncArgsAssignment& args = g_args; args.reset(&fd);
  uint32_t src_id[N], dst_id[N]; TypeId src_type[N], dst_type[N], exp_type[N]; bool dst_set[N], on_stack[N];
  uint32_t src_mask = 0, dst_mask = 0; bool dup = false, bad_phys = false;
  bool has_fp = nondet_bool();
  for (uint32_t i = 0; i < N; i++) {
    src_id[i] = nondet_u8() & kIdMask; dst_id[i] = nondet_u8() & kIdMask;
    src_type[i] = g ? pick_vec_type() : pick_gp_type();
    dst_type[i] = nondet_bool() ? TypeId::kVoid : (g ? pick_vec_type() : pick_gp_type());
    dst_set[i] = nondet_bool(); on_stack[i] = i == stack_arg;
    if (i >= n) { dst_set[i] = false; continue; }
    RegType srt = g ? (kA64 ? (type_size(src_type[i]) == 4 ? RegType::kVec32 : type_size(src_type[i]) == 8 ? RegType::kVec64 : RegType::kVec128) : RegType::kVec128)
                    : (type_size(src_type[i]) <= 4 ? RegType::kGp32 : RegType::kGp64);
    if (on_stack[i]) {
      tmach::stack_off = int32_t(nondet_u8() & 0x78);
      fd._args[i][0].init_stack(tmach::stack_off, src_type[i]);
    } else {
      // a calling convention never passes two arguments in one register, nor anything in SP / FP (x86: rbp, a64: x29, x30, x18)
      V_ASSUME(!(src_mask & (1u << src_id[i])));
      if (g == 0) V_ASSUME(src_id[i] != kSp && src_id[i] != kFp && (!kA64 || (src_id[i] != 30 && src_id[i] != 18)));
      src_mask |= 1u << src_id[i];
      fd._args[i][0].init_reg(srt, src_id[i], src_type[i]);
    }
    if (dst_set[i]) {
      RegType drt = g ? (kA64 ? (dst_type[i] == TypeId::kVoid ? RegType::kVec128 : type_size(dst_type[i]) == 4 ? RegType::kVec32 : type_size(dst_type[i]) == 8 ? RegType::kVec64 : RegType::kVec128) : RegType::kVec128)
                      : (dst_type[i] == TypeId::kVoid ? (nondet_bool() ? RegType::kGp32 : RegType::kGp64) : type_size(dst_type[i]) <= 4 ? RegType::kGp32 : RegType::kGp64);
      args._arg_packs[i][0].init_reg(drt, dst_id[i], dst_type[i]);
      exp_type[i] = dst_type[i] == TypeId::kVoid ? RegUtils::type_id_of(drt) : dst_type[i];
      if (dst_mask & (1u << dst_id[i])) dup = true;
      dst_mask |= 1u << dst_id[i];
      if (g == 0 && (dst_id[i] == kSp || (has_fp && dst_id[i] == kFp) || (kA64 && dst_id[i] == 18))) bad_phys = true;
    }
  }

  // ---- the frame before update_func_frame: what FuncFrame::init leaves, with symbolic masks
  FuncFrame& f = g_frame; f.reset();
  f._arch = ARCH; f._sp_reg_id = uint8_t(kSp); f._sa_reg_id = uint8_t(Reg::kIdBad);
  f._natural_stack_alignment = 16; f._min_dynamic_alignment = 32; f._final_stack_alignment = 16;
  f._save_restore_reg_size[RegGroup::kGp] = 8; f._save_restore_alignment[RegGroup::kGp] = kA64 ? 16 : 8;
  f._save_restore_reg_size[RegGroup::kVec] = kA64 ? 8 : 16; f._save_restore_alignment[RegGroup::kVec] = 16;
  f._preserved_regs[RegGroup::kGp] = (nondet_u32() | (1u << kFp)) & ~(1u << kSp);   // FP is callee-saved in every convention
  f._preserved_regs[RegGroup::kVec] = nondet_u32();
  f._dirty_regs[RegGroup::kGp] = nondet_u32() | src_mask * (g == 0);   // FuncFrame::init: argument registers are dirty
  f._dirty_regs[RegGroup::kVec] = nondet_u32() | src_mask * (g == 1);
  if (has_fp) f.set_preserved_fp();
  if (!kA64 && nondet_bool()) f.set_local_stack_alignment(32);   // dynamic alignment (x86 only: the a64 prolog has none)
  f.set_local_stack_size(nondet_u32() & 0xFF0);

  Error e1 = args.update_func_frame(f);
  verif_observe(uint32_t(e1));
  if (dup || bad_phys) {
    V_ASSERT(e1 == Error::kOverlappedRegs || e1 == Error::kInvalidPhysId, "overlapping or non-allocable destinations are refused with the documented error");
    V_WITNESS("refused");
    return;
  }
  V_ASSERT(e1 == Error::kOk, "update_func_frame accepts a well-formed assignment");
  Error ef = f.finalize();
  V_ASSERT(ef == Error::kOk, "finalize ok");

  // ---- machine state after the prolog
  memset(tmach::rtok, 0, sizeof(tmach::rtok)); memset(tmach::rtyp, 0, sizeof(tmach::rtyp));   // token 0 = whatever the register held on entry
  tmach::rtok[0][kSp] = TOK_SP;
  if (has_fp) tmach::rtok[0][kFp] = TOK_FP;
  else if (f.has_dynamic_alignment()) tmach::rtok[0][f.sa_reg_id() & 31] = TOK_SA;   // prolog: mov sa_reg, zsp
  tmach::has_stack = false;
  for (uint32_t i = 0; i < N; i++) {
    if (i >= n) break;
    if (on_stack[i]) { tmach::has_stack = true; tmach::stack_tok = uint8_t(i + 1); tmach::stack_type = src_type[i]; }
    else { tmach::rtok[g][src_id[i]] = uint8_t(i + 1); tmach::rtyp[g][src_id[i]] = uint8_t(src_type[i]); }
  }
  tmach::written[0] = tmach::written[1] = 0; tmach::frame = &f; tmach::n_moves = tmach::n_swaps = tmach::n_loads = 0;
  BaseEmitter* em = reinterpret_cast<BaseEmitter*>(emitter_mem);
  em->_gp_signature = OperandSignature{RegTraits<RegType::kGp64>::kSignature};
  em->_environment.init(ARCH);

  TokenHelper helper(em);
  Error e2 = helper.emit_args_assignment(f, args);
  verif_observe(uint32_t(e2)); verif_observe(tmach::n_moves); verif_observe(tmach::n_swaps); verif_observe(tmach::n_loads);
  V_ASSERT(e2 == Error::kOk, "emit_args_assignment succeeds after update_func_frame succeeded");

  // ---- every destination holds its argument, typed as the destination asks (extension done where it widens)
  for (uint32_t i = 0; i < N; i++) {
    if (i >= n || !dst_set[i]) continue;
    Val v; v.tok = tmach::rtok[g][dst_id[i]]; v.type = TypeId(tmach::rtyp[g][dst_id[i]]);
    verif_observe(v.tok); verif_observe(uint32_t(v.type));
    V_ASSERT(v.tok == i + 1, "destination register holds the value of its argument");
    // a value that was never moved (or only exchanged) keeps its source type: fine unless the destination type needs a conversion
    // (GP: widening; vector registers: float32 <-> float64)
    bool needs_conv = g == 0 ? type_size(exp_type[i]) > type_size(src_type[i])
                             : (exp_type[i] == TypeId::kFloat32 && src_type[i] == TypeId::kFloat64) || (exp_type[i] == TypeId::kFloat64 && src_type[i] == TypeId::kFloat32);
    V_ASSERT(v.type == exp_type[i] || (!needs_conv && v.type == src_type[i]), "destination value has the destination type, or still the source type when no conversion is needed");
  }
  // ---- nothing outside the frame's clobber set was written: a written register is dirty (so the prolog saved it) or caller-saved
  V_ASSERT((tmach::written[0] & f.preserved_regs(RegGroup::kGp) & ~f.dirty_regs(RegGroup::kGp)) == 0, "no callee-saved GP register is written unless the frame marks it dirty");
  V_ASSERT((tmach::written[1] & f.preserved_regs(RegGroup::kVec) & ~f.dirty_regs(RegGroup::kVec)) == 0, "no callee-saved vector register is written unless the frame marks it dirty");
  V_ASSERT(tmach::rtok[0][kSp] == TOK_SP, "SP is never a move destination");
  if (has_fp) V_ASSERT(tmach::rtok[0][kFp] == TOK_FP, "a preserved FP is never a move destination");

  if (tmach::n_swaps) V_WITNESS("used-xchg");
  if (g == 1 && tmach::n_moves > n) V_WITNESS("used-scratch-register");
  if (tmach::n_loads) V_WITNESS("loaded-stack-argument");
  if (n == N && dst_mask == src_mask && tmach::n_moves + tmach::n_swaps >= 3) V_WITNESS("permutation-of-four");
}

HARNESS h_shuffle_x64_gp2() { shuffle<Arch::kX64, 2, 0>(); }
HARNESS h_shuffle_x64_gp3() { shuffle<Arch::kX64, 3, 0>(); }
HARNESS h_shuffle_x64_gp4() { shuffle<Arch::kX64, 4, 0>(); }
HARNESS h_shuffle_x64_vec3() { shuffle<Arch::kX64, 3, 1>(); }
HARNESS h_shuffle_x64_vec4() { shuffle<Arch::kX64, 4, 1>(); }
HARNESS h_shuffle_a64_gp3() { shuffle<Arch::kAArch64, 3, 0>(); }
HARNESS h_shuffle_a64_gp4() { shuffle<Arch::kAArch64, 4, 0>(); }
HARNESS h_shuffle_a64_vec4() { shuffle<Arch::kAArch64, 4, 1>(); }

