// C06/H3 — typed move selection: the real x86::EmitHelper::emit_arg_move (x86/x86emithelper.cpp) with a recording emitter.
// Symbolic: destination TypeId and register, source TypeId, source kind (register of symbolic id, or stack memory), SSE/AVX mode.
// Oracle: a reference table of extension-correct moves written here from the instruction set manual:
//   integer <- integer   widening from a signed source into a signed destination: movsx / movsxd;
//                        widening from an unsigned source: movzx, or mov r32 (which clears bits 63:32);
//                        signed source into a wider unsigned destination: either (AsmJit zero-extends; not prescribed);
//                        same size or narrowing: mov / movzx of the narrower size;
//   vector-typed destination <- float / vector: float32 <-> float64 must convert (cvtss2sd: single to double, cvtsd2ss: double
//                        to single); otherwise a move of min(size) bytes (movss/movd 4, movsd/movq 8, movaps/movups 16..64).
// and the operand rules: destination is the requested register, source the given register / memory, every register operand
// has a register type that exists on x86 and the width the instruction form needs.
#include <asmjit/x86.h>
#include <asmjit/x86/x86emithelper_p.h>
#include "verif.h"
using namespace asmjit;

namespace rec {
static uint32_t count; static InstId id; static Operand_ o0, o1;
}
ASMJIT_BEGIN_NAMESPACE
Error BaseEmitter::_emitI(InstId inst_id, const Operand_& a, const Operand_& b) { rec::count++; rec::id = inst_id; rec::o0 = a; rec::o1 = b; return Error::kOk; }
ASMJIT_END_NAMESPACE
alignas(16) static unsigned char emitter_mem[sizeof(BaseEmitter)];

static inline uint32_t int_size(TypeId t) { return 1u << ((uint32_t(t) - uint32_t(TypeId::kInt8)) >> 1); }      // i8,u8,i16,u16,i32,u32,i64,u64
static inline bool int_signed(TypeId t) { return ((uint32_t(t) - uint32_t(TypeId::kInt8)) & 1) == 0; }
static inline uint32_t gp_width(const Operand_& o) { RegType rt = o.as<Reg>().reg_type(); return rt == RegType::kGp8Lo ? 1 : rt == RegType::kGp16 ? 2 : rt == RegType::kGp32 ? 4 : rt == RegType::kGp64 ? 8 : 0; }
static inline uint32_t vec_width(const Operand_& o) { RegType rt = o.as<Reg>().reg_type(); return rt == RegType::kVec128 ? 16 : rt == RegType::kVec256 ? 32 : rt == RegType::kVec512 ? 64 : 0; }

static x86::EmitHelper make_helper(bool avx) {
  BaseEmitter* em = reinterpret_cast<BaseEmitter*>(emitter_mem);
  em->_environment.init(Arch::kX64);
  em->_gp_signature = OperandSignature{RegTraits<RegType::kGp64>::kSignature};
  rec::count = 0; rec::id = 0;
  return x86::EmitHelper(em, avx, false);
}

// ---- integer <- integer
HARNESS h_argmove_x64_int() {
  TypeId dt = TypeId(uint32_t(TypeId::kInt8) + (nondet_u8() & 7)), st = TypeId(uint32_t(TypeId::kInt8) + (nondet_u8() & 7));
  uint32_t did = nondet_u8() & 15, sid = nondet_u8() & 15; bool src_mem = nondet_bool(), avx = nondet_bool();
  uint32_t ds = int_size(dt), ss = int_size(st);
  Reg dst(ds <= 4 ? OperandSignature{RegTraits<RegType::kGp32>::kSignature} : OperandSignature{RegTraits<RegType::kGp64>::kSignature}, did);
  Reg sreg(ss <= 4 ? OperandSignature{RegTraits<RegType::kGp32>::kSignature} : OperandSignature{RegTraits<RegType::kGp64>::kSignature}, sid);
  x86::Mem smem = x86::ptr(x86::rsp, int32_t(nondet_u16() & 0x7FF8));
  x86::EmitHelper h = make_helper(avx);
  Error e = src_mem ? h.x86::EmitHelper::emit_arg_move(dst, dt, smem, st, nullptr) : h.x86::EmitHelper::emit_arg_move(dst, dt, sreg, st, nullptr);
  verif_observe(uint32_t(e)); verif_observe(rec::id); verif_observe(rec::count);
  V_ASSERT(e == Error::kOk, "integer to integer argument move is supported for every pair of types");
  V_ASSERT(rec::count == 1, "exactly one instruction");
  const Operand_& a = rec::o0; const Operand_& b = rec::o1;
  V_ASSERT(a.is_reg() && a.as<Reg>().is_gp() && a.id() == did && gp_width(a) != 0, "destination operand is the requested GP register");
  if (src_mem) V_ASSERT(b.is_mem() && b.as<x86::Mem>().base_id() == 4 && b.as<x86::Mem>().offset() == smem.offset(), "source operand is the given stack slot");
  else V_ASSERT(b.is_reg() && b.as<Reg>().is_gp() && b.id() == sid && gp_width(b) != 0, "source operand is the given GP register");
  uint32_t dw = gp_width(a), sw = src_mem ? b.as<x86::Mem>().size() : gp_width(b);
  verif_observe(dw); verif_observe(sw);
  bool widening = ds > ss;
  bool is_sx = rec::id == x86::Inst::kIdMovsx || rec::id == x86::Inst::kIdMovsxd;
  bool is_zx = rec::id == x86::Inst::kIdMovzx || (rec::id == x86::Inst::kIdMov && dw == 4 && sw == 4);   // mov r32 clears the upper half
  V_ASSERT(is_sx || rec::id == x86::Inst::kIdMovzx || rec::id == x86::Inst::kIdMov, "instruction is mov, movzx, movsx or movsxd");
  // operand widths the forms need
  if (rec::id == x86::Inst::kIdMov) V_ASSERT(dw == sw && (dw == 4 || dw == 8), "mov: both operands 32 or 64 bit");
  if (rec::id == x86::Inst::kIdMovzx || rec::id == x86::Inst::kIdMovsx) V_ASSERT((sw == 1 || sw == 2) && dw > sw && dw >= 2, "movzx and movsx: 8 or 16 bit source, wider destination");
  if (rec::id == x86::Inst::kIdMovsxd) V_ASSERT(sw == 4 && dw == 8, "movsxd: 32 bit source, 64 bit destination");
  // the value: all bytes of the narrower type are moved, the extension is the one the source type requires
  uint32_t need = ds < ss ? ds : ss;
  V_ASSERT(sw >= need || (rec::id != x86::Inst::kIdMov && sw == ss), "the move reads every byte of the value");
  if (widening) {
    uint32_t ext_to = is_sx ? dw : (rec::id == x86::Inst::kIdMovzx ? (dw == 4 ? 8 : dw) : (dw == 4 && sw == 4 ? 8 : dw));   // writing r32 zero-extends to 64 bits
    if (int_signed(st) && int_signed(dt)) { V_ASSERT(is_sx && sw == ss && dw >= ds, "signed value widened into a signed destination is sign-extended"); V_WITNESS("sign-extended"); }
    else if (!int_signed(st)) { V_ASSERT(is_zx && sw == ss && ext_to >= ds, "unsigned value widened is zero-extended to the destination width"); V_WITNESS("zero-extended"); }
    else { V_ASSERT((is_sx || is_zx) && sw == ss, "signed value into a wider unsigned destination is extended from its own width"); }
  } else V_WITNESS("plain-move");
}

// ---- vector-typed destination <- float / vector
// AVX is a template parameter: the instruction-id table of the helper is then indexed by a constant (CBMC mis-read the table with a
// symbolic index - counterexamples that did not replay natively).
template<bool kKnown, bool AVX>
static void argmove_fp() {
  uint32_t dk = nondet_u8() % 3, sk = nondet_u8() % 5;
  TypeId dt = dk == 0 ? TypeId::kFloat32x1 : dk == 1 ? TypeId::kFloat64x1 : TypeId::kFloat32x4;
  TypeId st = sk == 0 ? TypeId::kFloat32 : sk == 1 ? TypeId::kFloat64 : sk == 2 ? TypeId::kFloat32x1 : sk == 3 ? TypeId::kFloat64x1 : TypeId::kFloat32x4;
  uint32_t d_elem = dk == 1 ? 8 : 4, s_elem = (sk == 1 || sk == 3) ? 8 : 4;     // scalar kind: float32 or float64
  uint32_t dsz = dk == 0 ? 4 : dk == 1 ? 8 : 16, ssz = sk == 0 || sk == 2 ? 4 : sk == 4 ? 16 : 8;
  bool convert = d_elem != s_elem;
#if KF_C06I
  if (kKnown) V_ASSUME(convert); else V_ASSUME(!convert);
#endif
  uint32_t did = nondet_u8() & 15, sid = nondet_u8() & 15; bool src_mem = nondet_bool(); constexpr bool avx = AVX;
  Reg dst(OperandSignature{RegTraits<RegType::kVec128>::kSignature}, did), sreg(OperandSignature{RegTraits<RegType::kVec128>::kSignature}, sid);
  x86::Mem smem = x86::ptr(x86::rsp, int32_t(nondet_u16() & 0x7FF0));
  x86::EmitHelper h = make_helper(avx);
  Error e = src_mem ? h.x86::EmitHelper::emit_arg_move(dst, dt, smem, st, nullptr) : h.x86::EmitHelper::emit_arg_move(dst, dt, sreg, st, nullptr);
  verif_observe(uint32_t(e)); verif_observe(rec::id); verif_observe(rec::count);
  V_ASSERT(e == Error::kOk && rec::count == 1, "float and vector argument move emits one instruction");
  const Operand_& a = rec::o0; const Operand_& b = rec::o1;
  V_ASSERT(a.is_reg() && a.as<Reg>().is_vec() && a.id() == did && vec_width(a) != 0, "destination operand is the requested xmm register with an x86 register type");
  if (src_mem) V_ASSERT(b.is_mem() && b.as<x86::Mem>().base_id() == 4 && b.as<x86::Mem>().offset() == smem.offset(), "source operand is the given stack slot");
  else V_ASSERT(b.is_reg() && b.as<Reg>().is_vec() && b.id() == sid && vec_width(b) != 0, "source operand is the given xmm register with an x86 register type");
#if KF_C06J
  // While C06J is open every float/vector move has malformed operands (and the real code runs into undefined behaviour):
  // the instruction choice below is only claimed once that is repaired, except for the swapped conversions (C06I).
  if (!convert) { V_WITNESS("move-operands-checked"); return; }
#endif
  InstId id = rec::id;
  if (convert) {
    if (s_elem == 4) V_ASSERT(id == x86::Inst::kIdCvtss2sd || id == x86::Inst::kIdVcvtss2sd, "float32 argument into a float64 destination: cvtss2sd");
    else V_ASSERT(id == x86::Inst::kIdCvtsd2ss || id == x86::Inst::kIdVcvtsd2ss, "float64 argument into a float32 destination: cvtsd2ss");
    V_WITNESS("conversion");
  } else {
    uint32_t n = dsz < ssz ? dsz : ssz;
    bool m4 = id == x86::Inst::kIdMovss || id == x86::Inst::kIdVmovss || id == x86::Inst::kIdMovd || id == x86::Inst::kIdVmovd;
    bool m8 = id == x86::Inst::kIdMovsd || id == x86::Inst::kIdVmovsd || id == x86::Inst::kIdMovq || id == x86::Inst::kIdVmovq;
    bool m16 = id == x86::Inst::kIdMovaps || id == x86::Inst::kIdVmovaps || id == x86::Inst::kIdMovups || id == x86::Inst::kIdVmovups;
    V_ASSERT(m4 || m8 || m16, "instruction is a 4, 8 or 16 byte vector move");
    if (src_mem) V_ASSERT(b.as<x86::Mem>().size() <= ssz && (m16 ? n >= 16 : m8 ? n >= 8 : true), "memory source: no more bytes are read than the argument has");
    V_ASSERT(m16 || (m8 && n <= 8) || (m4 && n <= 4) || !src_mem, "the move covers the whole value");
#if !KF_C06J
    V_WITNESS("move");
#endif
  }
}
HARNESS h_argmove_x64_fp() { if (nondet_bool()) argmove_fp<false, true>(); else argmove_fp<false, false>(); }
// The full float/vector claim: while C06I or C06J is listed every input lies in one of the two regions, so nothing is claimed
// (the harness then consists of its witness only); with both repaired and unlisted this is the main harness.
HARNESS h_argmove_x64_fp_full() {
#if KF_C06I || KF_C06J
  V_WITNESS("nothing-claimed-while-C06I-or-C06J-is-listed");
#else
  if (nondet_bool()) argmove_fp<false, true>(); else argmove_fp<false, false>();
#endif
}
HARNESS h_argmove_x64_kf_C06I() { if (nondet_bool()) argmove_fp<true, true>(); else argmove_fp<true, false>(); }
