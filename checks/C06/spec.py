# C06 — arguments and return values follow the target calling convention; argument shuffling
FUNC_UNITS = ['asmjit/core/func.cpp', 'asmjit/core/archtraits.cpp', 'asmjit/core/type.cpp', 'asmjit/x86/x86func.cpp', 'asmjit/arm/a64func.cpp']
UNITS = [
    Unit('classify', harness=['h_classify.cpp'], repo_units=FUNC_UNITS),
    Unit('argmove', harness=['h_argmove.cpp'], repo_units=['asmjit/x86/x86emithelper.cpp', 'asmjit/core/archtraits.cpp', 'asmjit/core/type.cpp', 'asmjit/core/environment.cpp']),
]
TYPES_X86 = 'every argument and the return type symbolic over {intptr, uintptr, i8..u64, f32, f64, mmx64, mask8..64, all 10 element kinds of vec128/256/512}'
TYPES_A64 = 'every argument and the return type symbolic over {intptr, uintptr, i8..u64, f32, f64, all 10 element kinds of vec128}'
def HC(fn, n, what, tiers=('quick', 'thorough'), known=None, mem=2, timeout=900, validate_runs=400):
    return Harness('classify', fn, unwind=n + 2, bounds='0..%d arguments; %s; varargs index symbolic where the convention allows varargs; %s' % (n, what, TYPES_A64 if ('a64' in fn or 'aapcs' in fn or 'apple' in fn) else TYPES_X86),
                   tiers=tiers, known=known, mem_gb=mem, timeout=timeout, validate_runs=validate_runs)
HARNESSES = [
    HC('h_sysv64_8', 8, 'SysV x86-64 selected by kX64SystemV on any platform or by cdecl/stdcall/fastcall/thiscall/regparm1-3 on a non-Windows platform'),
    HC('h_win64_8', 8, 'Win64 selected by kX64Windows on any platform or by a 32-bit id on Windows / MSVC ABI'),
    HC('h_vectorcall64_8', 8, 'x86-64 vectorcall'),
    HC('h_x86_32_8', 8, 'x86-32 cdecl, stdcall, fastcall, thiscall (Windows), regparm1-3, vectorcall; Windows and Linux'),
    HC('h_aapcs64_12', 12, 'AAPCS64 (all ids that AsmJit maps to it), Linux and Windows'),
    HC('h_apple64_12', 12, 'Apple arm64 (Darwin ABI)'),
    HC('h_light32_8', 8, 'light-call 2-4 on x86-32 (AsmJit only: internal consistency)'),
    HC('h_light64_8', 8, 'light-call 2-4 on x86-64 (AsmJit only: internal consistency)'),
    Harness('argmove', 'h_argmove_x64_int', unwind=6, bounds='x86-64: destination and source type over i8..u64 (64 pairs), source in any GP register or on the stack, any destination register, SSE/AVX mode', mem_gb=1, timeout=600),
    Harness('argmove', 'h_argmove_x64_fp', unwind=6, bounds='x86-64: destination type float32x1, float64x1, float32x4; source type float32, float64, float32x1, float64x1, float32x4; source in any xmm register or on the stack; SSE/AVX mode; the whole harness lies in the region of known finding C06J (no native twin comparison: the real code evaluates ctz(0), undefined behaviour)', known='C06J', validate_runs=0, mem_gb=1, timeout=600),
    Harness('argmove', 'h_argmove_x64_fp_full', unwind=6, bounds='as h_argmove_x64_fp, all assertions; claims nothing while C06I or C06J is listed (every input lies in one of the two regions)', mem_gb=1, timeout=600),
    Harness('argmove', 'h_argmove_x64_kf_C06I', unwind=6, bounds='region of known finding C06I (float32 <-> float64 conversion)', known='C06I', validate_runs=0, mem_gb=1, timeout=600),
    HC('h_sysv64_kf_D6', 12, 'region of known finding D6', known='D6'),
    # no native twin comparison: inside the region the real code reads out of bounds (undefined behaviour), the encoded code stops at the UBSan trap
    HC('h_win64_kf_D7', 17, 'region of known finding D7 (17 arguments, a by-reference vector at index 16)', known='D7', mem=2, validate_runs=0),
    HC('h_sysv64_kf_C06A', 8, 'region of known finding C06A (SysV x86-64)', known='C06A'),
    HC('h_win64_kf_C06B', 8, 'region of known finding C06B', known='C06B'),
    HC('h_vectorcall64_kf_C06C', 8, 'region of known finding C06C', known='C06C'),
    HC('h_apple64_kf_C06D', 12, 'region of known finding C06D', known='C06D'),
    HC('h_aapcs64_kf_C06E', 12, 'region of known finding C06E (AAPCS64)', known='C06E'),
    HC('h_apple64_kf_C06F', 12, 'region of known finding C06F', known='C06F'),
    HC('h_x86_32_kf_C06G', 8, 'region of known finding C06G', known='C06G'),
    HC('h_sysv64_20', 20, 'as h_sysv64_8', tiers=('thorough',), mem=5, timeout=2400),
    HC('h_win64_20', 20, 'as h_win64_8', tiers=('thorough',), mem=5, timeout=2400),
    HC('h_vectorcall64_20', 20, 'as h_vectorcall64_8', tiers=('thorough',), mem=5, timeout=2400),
    HC('h_x86_32_20', 20, 'as h_x86_32_8', tiers=('thorough',), mem=5, timeout=4800),
    HC('h_aapcs64_20', 20, 'as h_aapcs64_12', tiers=('thorough',), mem=5, timeout=2400),
    HC('h_apple64_20', 20, 'as h_apple64_12', tiers=('thorough',), mem=5, timeout=2400),
]
EXPLANATION = 'bounded symbolic execution (CBMC) of the real FuncDetail::init / emit_args_assignment compiled from /repo; oracle: an independent reference of the platform ABIs and a token machine, both in the harness'
OUTSIDE = ['more than 20 arguments (API limit 32)', 'float80, mmx32, vec32/vec64 argument type ids', 'thiscall outside Windows (AsmJit documents it as cdecl)',
           'x86-32: 64-bit integers while argument registers remain, vector arguments beyond the register ones, MMX locations (vendors disagree: consistency only)',
           'values received by real callees on foreign ABIs',
           'H2 parallel-move solver (BaseEmitHelper::emit_args_assignment + FuncArgsContext on a token machine): h_shuffle.cpp is written but NOT registered - '
           'the encoded program does not fit the resource caps (2 arguments, concrete registers: > 750 k SSA steps, > 8 GB during propositional reduction; cause: every access to '
           'FuncArgsContext::_work_data[group] / _phys_to_var_id[id] goes through a pointer with a symbolic offset into a 1.4 KB object, which CBMC turns into whole-object byte updates)',
           'H3 typed move selection for AArch64, and for x86 destinations other than integer and float/vector registers (mmx, mask)']
ASSUMPTIONS = ['h_argmove_*: BaseEmitter::_emitI(id, o0, o1) is defined in the harness as a recording emitter (the object is zeroed raw storage with environment and GP signature set)',
               'h_win64_kf_D7, h_argmove_x64_fp, h_argmove_x64_kf_C06I run without native twin comparison: inside those known-finding regions the real code has undefined behaviour (out-of-bounds read, ctz(0))']
