// C08 (second unit, added after the second round of seeded changes): typed data nodes, the const-pool capture sequence, section links
// and label lookup of BaseBuilder. Same recording destination idea as h_builder.cpp; nodes are built by the real code or in typed storage.
#include <new>
#include <asmjit/x86.h>
#include <asmjit/core/emitterutils_p.h>
#include <asmjit/core/constpool.h>
#include "verif.h"
#include "arena_stub.h"
using namespace asmjit;

template<typename T> union Raw { T v; Raw() noexcept {} ~Raw() noexcept {} };
struct Rec { int kind; uint32_t a, b; uint64_t d, e; const void* p; };
static Rec recs[4]; static int nrecs;
class Recorder : public BaseEmitter {
public:
  Recorder() noexcept : BaseEmitter(EmitterType::kAssembler) {}
  Rec* next(int kind) { Rec* r = &recs[nrecs < 4 ? nrecs : 3]; nrecs++; r->kind = kind; r->a = r->b = 0; r->d = r->e = 0; r->p = nullptr; return r; }
  Error _emit(InstId, const Operand_&, const Operand_&, const Operand_&, const Operand_*) override { next(1); return Error::kOk; }
  Error _emit_op_array(InstId, const Operand_*, size_t) override { next(99); return Error::kOk; }
  Error finalize() override { return Error::kOk; }
  Error section(Section* s) override { Rec* r = next(7); r->p = s; return Error::kOk; }
  Label new_label() override { return Label(); }
  Label new_named_label(const char*, size_t, LabelType, uint32_t) override { return Label(); }
  Error bind(const Label& l) override { Rec* r = next(2); r->a = l.id(); return Error::kOk; }
  Error align(AlignMode m, uint32_t al) override { Rec* r = next(3); r->a = uint32_t(m); r->b = al; return Error::kOk; }
  Error embed(const void* p, size_t n) override { Rec* r = next(10); r->p = p; r->d = n; return Error::kOk; }
  Error embed_data_array(TypeId t, const void* p, size_t n, size_t rep) override { Rec* r = next(4); r->a = uint32_t(t); r->p = p; r->d = n; r->e = rep; return Error::kOk; }
  Error embed_const_pool(const Label& l, const ConstPool& pool) override { Rec* r = next(9); r->a = l.id(); r->p = &pool; return Error::kOk; }
  Error embed_label(const Label& l, size_t n) override { Rec* r = next(5); r->a = l.id(); r->d = n; return Error::kOk; }
  Error embed_label_delta(const Label& l, const Label& base, size_t n) override { Rec* r = next(6); r->a = l.id(); r->b = base.id(); r->d = n; return Error::kOk; }
  Error comment(const char* s, size_t) override { Rec* r = next(8); r->p = s; return Error::kOk; }
};
ASMJIT_BEGIN_NAMESPACE
namespace EmitterUtils {
Error log_instruction_failed(BaseEmitter* self, Error err, InstId, InstOptions, const Operand_&, const Operand_&, const Operand_&, const Operand_*) { self->reset_state(); return self->report_error(err); }
}
ASMJIT_END_NAMESPACE

// ---- typed data: capture by the real embed_data_array (the replay of typed data nodes is h_replay_k5_* in h_builder.cpp)
struct EmbedDataStorage { EmbedDataNode n; uint8_t payload[32]; };
static Raw<EmbedDataStorage> st_edata;
static Raw<CodeHolder> code_store;
static Raw<LabelEntry> label_tab[2];
static uint64_t items[4];
template<TypeId T, unsigned ITEM_SIZE, unsigned COUNT> static void typed_data_case() {
  BaseBuilder b;
  memset((void*)&code_store, 0, sizeof(code_store)); b._code = &code_store.v;
  for (unsigned i = 0; i < 4; i++) items[i] = nondet_u64();
  const size_t repeat = 1 + (COUNT & 3);   // constant per harness
  nrecs = 0;
  Error e = b.BaseBuilder::embed_data_array(T, items, COUNT, repeat);
  V_ASSERT(e == Error::kOk, "embed_data_array is captured");
  BaseNode* n = b._node_list.first();
  V_ASSERT(n != nullptr && n == b._node_list.last() && n->type() == NodeType::kEmbedData, "one data node recorded");
  EmbedDataNode* d = n->as<EmbedDataNode>();
  V_ASSERT(d->type_id() == T && d->type_size() == ITEM_SIZE && d->item_count() == COUNT && d->repeat_count() == repeat && d->data_size() == size_t(COUNT) * ITEM_SIZE, "data node carries type, item size, item count and repeat count");
  bool same = true; for (unsigned i = 0; i < COUNT * ITEM_SIZE; i++) same = same && d->data()[i] == reinterpret_cast<const uint8_t*>(items)[i];
  V_ASSERT(same, "data node carries the bytes");
  verif_observe(d->item_count()); verif_observe(d->data_size());   // replay of typed data nodes: h_replay_k5_* in h_builder.cpp
  b._code = nullptr;
  V_WITNESS("typed data");
}
HARNESS h_data_u8() { typed_data_case<TypeId::kUInt8, 1, 5>(); }
HARNESS h_data_u16() { typed_data_case<TypeId::kUInt16, 2, 3>(); }
HARNESS h_data_u32() { typed_data_case<TypeId::kUInt32, 4, 3>(); }
HARNESS h_data_f64() { typed_data_case<TypeId::kFloat64, 8, 2>(); }

// ---- const pool: Builder::embed_const_pool records what BaseAssembler::embed_const_pool does: align(kData, pool alignment), bind, the bytes
static Raw<ConstPool> pool_store;
static void make_holder(BaseBuilder& b, uint32_t nlabels) {
  memset((void*)&code_store, 0, sizeof(code_store)); b._code = &code_store.v;
  code_store.v._label_entries._data = &label_tab[0].v; code_store.v._label_entries._size = nlabels; code_store.v._label_entries._capacity = 2;
}
HARNESS h_const_pool_capture() {
  BaseBuilder b; make_holder(b, 2);
  memset((void*)&pool_store, 0, sizeof(pool_store));
  size_t al = size_t(1) << (nondet_u8() & 3); pool_store.v._alignment = al; pool_store.v._size = 0;   // an empty pool image: its contents are C19's subject
  uint32_t lid = nondet_u32();
  Error e = b.BaseBuilder::embed_const_pool(Label(lid), pool_store.v);
  if (lid >= 2) {
    V_ASSERT(e == Error::kInvalidLabel && b._node_list.first() == nullptr, "const pool with a label that does not exist is refused, nothing recorded");
    V_WITNESS("pool refused");
  } else {
    V_ASSERT(e == Error::kOk, "const pool captured");
    BaseNode* n0 = b._node_list.first(); V_ASSERT(n0 && n0->type() == NodeType::kAlign, "first an align node");
    AlignNode* an = n0->as<AlignNode>();
    V_ASSERT(an->align_mode() == AlignMode::kData && an->alignment() == al, "the pool is aligned as data (as BaseAssembler::embed_const_pool does) to the pool's alignment");
    BaseNode* n1 = n0->next(); V_ASSERT(n1 && n1->type() == NodeType::kLabel && n1->as<LabelNode>()->label_id() == lid, "then the label is bound");
    BaseNode* n2 = n1->next(); V_ASSERT(n2 && n2->type() == NodeType::kEmbedData && n2->next() == nullptr && n2 == b._node_list.last(), "then the pool image as one data node");
    verif_observe(uint32_t(an->align_mode())); verif_observe(an->alignment());
    V_WITNESS("pool captured");
  }
  b._code = nullptr;
}

// ---- label lookup: bind() of an id the holder does not know is refused and records nothing (ids count, count+1, anything above)
HARNESS h_bind_label_range() {
  BaseBuilder b; uint32_t count = nondet_u8() & 1; count += 1; make_holder(b, count);
  uint32_t lid = nondet_u32();
  Error e = b.BaseBuilder::bind(Label(lid));
  if (lid >= count) {
    V_ASSERT(e == Error::kInvalidLabel, "bind of a label id the holder does not know is refused");
    V_ASSERT(b._node_list.first() == nullptr && b._cursor == nullptr, "refused bind records no node");
    V_WITNESS("bind refused");
  } else {
    V_ASSERT(e == Error::kOk && b._node_list.first() != nullptr && b._node_list.first() == b._node_list.last() && b._node_list.first()->type() == NodeType::kLabel &&
             b._node_list.first()->as<LabelNode>()->label_id() == lid, "bind of a known label records its label node");
    V_WITNESS("bind recorded");
  }
  verif_observe(uint32_t(e));
  b._code = nullptr;
}

// ---- section links: after update_section_links() the section nodes of the list are chained in list order and the chain ends at the last one,
// whatever stale links an earlier state of the list left behind
static Raw<SectionNode> st_sect[3]; static Raw<LabelNode> st_lab[2];
template<unsigned NSECT> static void section_links_case() {
  BaseBuilder b;
  // list: S0 L0 [S1] L1 [S2]   (labels in between so that the walk has to skip nodes)
  BaseNode* seq[5]; unsigned n = 0;
  SectionNode* s[3];
  for (unsigned i = 0; i < NSECT; i++) {
    s[i] = new (&st_sect[i].v) SectionNode(i);
    seq[n++] = s[i];
    if (i < 2) { seq[n++] = new (&st_lab[i].v) LabelNode(i); }
  }
  // stale links from an earlier shape of the list: any of the section nodes or none
  for (unsigned i = 0; i < NSECT; i++) { uint32_t k = nondet_u8() & 3; s[i]->_next_section = k < NSECT ? s[k] : nullptr; }
  for (unsigned i = 0; i < n; i++) { seq[i]->_prev = i ? seq[i - 1] : nullptr; seq[i]->_next = i + 1 < n ? seq[i + 1] : nullptr; }
  b._node_list.reset(seq[0], seq[n - 1]);
  b._dirty_section_links = true;
  b.update_section_links();
  for (unsigned i = 0; i < NSECT; i++)
    V_ASSERT(s[i]->_next_section == (i + 1 < NSECT ? s[i + 1] : nullptr), "section nodes are chained in list order and the last one ends the chain");
  V_ASSERT(!b._dirty_section_links, "links are clean afterwards");
  V_WITNESS("section links");
}
HARNESS h_section_links_1() { section_links_case<1>(); }
HARNESS h_section_links_2() { section_links_case<2>(); }
HARNESS h_section_links_3() { section_links_case<3>(); }
