// C08 — capture (BaseBuilder::_emit & friends) followed by replay (serialize_to) is the identity on emitter calls;
// node-list editing yields the edited sequence. The destination emitter is a recording model (subclass of BaseEmitter).
#include <asmjit/x86.h>
#include <asmjit/core/emitterutils_p.h>
#include "verif.h"
#include "arena_stub.h"
using namespace asmjit;

struct Rec {
  int kind;  // 1 emit 2 bind 3 align 4 embed_data_array 5 embed_label 6 embed_label_delta 7 section 8 comment 9 const pool
  InstId inst_id; InstOptions options; RegOnly extra; Operand_ ops[6]; const char* comment;
  uint32_t a, b, c; uint64_t d, e; const void* p;
};
static Rec recs[4]; static int nrecs;

class Recorder : public BaseEmitter {
public:
  Recorder() noexcept : BaseEmitter(EmitterType::kAssembler) {}
  Rec* next(int kind) { Rec* r = &recs[nrecs < 4 ? nrecs : 3]; nrecs++; memset(r, 0, sizeof(Rec)); r->kind = kind; r->comment = _inline_comment; return r; }
  Error _emit(InstId inst_id, const Operand_& o0, const Operand_& o1, const Operand_& o2, const Operand_* op_ext) override {
    Rec* r = next(1); r->inst_id = inst_id; r->options = _inst_options; r->extra = _extra_reg;
    r->ops[0] = o0; r->ops[1] = o1; r->ops[2] = o2; r->ops[3] = op_ext[0]; r->ops[4] = op_ext[1]; r->ops[5] = op_ext[2];
    // what every real emitter does on success
    _inst_options = InstOptions::kNone; _extra_reg.reset(); _inline_comment = nullptr;
    return Error::kOk;
  }
  Error _emit_op_array(InstId, const Operand_*, size_t) override { next(99); return Error::kOk; }
  Error finalize() override { return Error::kOk; }
  Error section(Section* s) override { Rec* r = next(7); r->p = s; return Error::kOk; }
  Label new_label() override { return Label(); }
  Label new_named_label(const char*, size_t, LabelType, uint32_t) override { return Label(); }
  Error bind(const Label& l) override { Rec* r = next(2); r->a = l.id(); return Error::kOk; }
  Error align(AlignMode m, uint32_t al) override { Rec* r = next(3); r->a = uint32_t(m); r->b = al; return Error::kOk; }
  Error embed(const void* p, size_t n) override { Rec* r = next(10); r->p = p; r->d = n; return Error::kOk; }
  Error embed_data_array(TypeId t, const void* p, size_t n, size_t rep) override { Rec* r = next(4); r->a = uint32_t(t); r->p = p; r->d = n; r->e = rep; return Error::kOk; }
  Error embed_const_pool(const Label& l, const ConstPool& pool) override { Rec* r = next(9); r->a = l.id(); r->p = &pool; return Error::kOk; }
  Error embed_label(const Label& l, size_t n) override { Rec* r = next(5); r->a = l.id(); r->d = n; return Error::kOk; }
  Error embed_label_delta(const Label& l, const Label& base, size_t n) override { Rec* r = next(6); r->a = l.id(); r->b = base.id(); r->d = n; return Error::kOk; }
  Error comment(const char* s, size_t) override { Rec* r = next(8); r->p = s; return Error::kOk; }
};

static void any_op(Operand_& o) { o._signature._bits = nondet_u32(); o._base_id = nondet_u32(); o._data[0] = nondet_u32(); o._data[1] = nondet_u32(); }
static bool same_op(const Operand_& a, const Operand_& b) { return a._signature._bits == b._signature._bits && a._base_id == b._base_id && a._data[0] == b._data[0] && a._data[1] == b._data[1]; }

// H1a (capture): one instruction with arbitrary id / options / extra register / operands / optional inline comment is
// stored in the node list verbatim, and the one-shot state is cleared exactly as an assembler clears it.
template<uint32_t N> static void emit_capture() {
  BaseBuilder b;   // real constructor; not attached to a CodeHolder
  b._forced_inst_options = InstOptions::kNone;   // as after attach() without logger/validation: no slow path requested
  Operand_ o[6];
  for (uint32_t i = 0; i < 6; i++) { o[i].reset(); if (i < N) any_op(o[i]); }
  // The typed emit() overloads pass the extension operands (4th..6th) densely: none is never followed by an operand.
  V_ASSUME(!(o[3].is_none() && (!o[4].is_none() || !o[5].is_none())) && !(o[4].is_none() && !o[5].is_none()));
  InstId id = nondet_u32();
  InstOptions opts = InstOptions(nondet_u32()) & ~InstOptions::kReserved;
  RegOnly extra; extra._signature._bits = nondet_u32(); extra._id = nondet_u32();
  static const char text[] = "cmt";
  const char* cmt = nondet_bool() ? text : nullptr;
  b._inst_options = opts; b._extra_reg = extra; b._inline_comment = cmt;
  Error e = b.BaseBuilder::_emit(id, o[0], o[1], o[2], &o[3]);
  V_ASSERT(e == Error::kOk, "builder accepts the call (no validation requested)");
  V_ASSERT(uint32_t(b._inst_options) == 0 && b._extra_reg._signature._bits == 0 && b._extra_reg._id == 0 && b._inline_comment == nullptr, "one-shot state cleared exactly as an assembler does");
  BaseNode* first = b._node_list.first();
  V_ASSERT(first != nullptr && first == b._node_list.last() && first == b._cursor, "exactly one node, cursor on it");
  V_ASSERT(first->is_inst() && first->prev() == nullptr && first->next() == nullptr && first->is_active(), "it is an active instruction node with no neighbours");
  InstNode* node = first->as<InstNode>();
  V_ASSERT(node->inst_id() == id, "same instruction id");
  V_ASSERT(node->options() == opts, "same options");
  V_ASSERT(node->extra_reg()._signature._bits == extra._signature._bits && node->extra_reg()._id == extra._id, "same extra register");
  uint32_t cnt = 0; for (uint32_t i = 0; i < 6; i++) if (!o[i].is_none()) cnt = i + 1;
  V_ASSERT(node->op_count() == cnt, "operand count is the index of the last non-none operand plus one");
  V_ASSERT(node->op_capacity() >= cnt && node->op_capacity() <= 6, "capacity covers the operands");
  for (uint32_t i = 0; i < 6; i++) {
    if (i < cnt && i < node->op_capacity()) V_ASSERT(same_op(node->operands_data()[i], o[i]), "operand stored verbatim");
    else if (i < node->op_capacity()) V_ASSERT(node->operands_data()[i].is_none(), "unused operand slots are none");
  }
  const char* c = node->inline_comment();
  V_ASSERT((c == nullptr) == (cmt == nullptr), "inline comment presence preserved");
  if (cmt) V_ASSERT(c != text && c[0] == 'c' && c[1] == 'm' && c[2] == 't' && c[3] == 0, "inline comment text copied");
  verif_observe(cnt); verif_observe(uint32_t(node->options()));
  V_WITNESS("emit-capture");
}
HARNESS h_capture_0() { emit_capture<0>(); }
HARNESS h_capture_1() { emit_capture<1>(); }
HARNESS h_capture_3() { emit_capture<3>(); }
HARNESS h_capture_4() { emit_capture<4>(); }
HARNESS h_capture_6() { emit_capture<6>(); }

// H1b (replay): serialize_to() on a list of typed nodes built by the harness (real node constructors, static typed storage)
// replays each node as the emitter call with exactly the node's fields, in list order.
template<typename T> union Raw { T v; Raw() noexcept {} ~Raw() noexcept {} };
static Raw<InstNodeWithOperands<6>> st_inst;
static Raw<LabelNode> st_label; static Raw<AlignNode> st_align; static Raw<EmbedLabelNode> st_elabel;
static Raw<EmbedLabelDeltaNode> st_edelta; static Raw<CommentNode> st_comment;
struct EmbedDataStorage { EmbedDataNode n; uint8_t payload[16]; };   // the node's data follows the node object
static Raw<EmbedDataStorage> st_edata;

template<uint32_t KIND, bool A_FIRST, uint32_t CNT> static void replay_two_nodes() {
  BaseBuilder b;
  nrecs = 0;
  // node A: an instruction with arbitrary contents
  Operand_ o[6]; const uint32_t cnt = CNT;   // concrete per instantiation: keeps every operand index concrete for the solver
  InstId id = nondet_u32(); InstOptions opts = InstOptions(nondet_u32());
  RegOnly extra; extra._signature._bits = nondet_u32(); extra._id = nondet_u32();
  InstNode* A = new(Support::PlacementNew{&st_inst.v}) InstNodeWithOperands<6>(id, opts, cnt);
  for (uint32_t i = 0; i < 6; i++) { o[i].reset(); if (i < cnt) { any_op(o[i]); A->set_op(i, o[i]); } }
  A->reset_op_range(cnt, 6);
  A->set_extra_reg(extra);
  static const char text[] = "ca";
  const char* cmtA = nondet_bool() ? text : nullptr;
  A->set_inline_comment(cmtA);
  // node B: one of the non-instruction node kinds
  const uint32_t kind = KIND;
  uint32_t x = nondet_u32(), y = nondet_u32(), z = nondet_u32();
  static const uint8_t blob[4] = { 1, 2, 3, 4 };
  BaseNode* B = nullptr;
  switch (kind) {
    case 0: B = new(Support::PlacementNew{&st_label.v}) LabelNode(x); break;
    case 1: B = new(Support::PlacementNew{&st_align.v}) AlignNode(AlignMode(x & 3), y); break;
    case 2: B = new(Support::PlacementNew{&st_elabel.v}) EmbedLabelNode(x, y); break;
    case 3: B = new(Support::PlacementNew{&st_edelta.v}) EmbedLabelDeltaNode(x, y, z); break;
    case 4: B = new(Support::PlacementNew{&st_comment.v}) CommentNode(text); break;
    default: {   // typed data: item size 1, 2 or 4 (the destination must get the ITEM count, not the byte count)
      EmbedDataNode* d;
      if ((z & 3) == 0) d = new(Support::PlacementNew{&st_edata.v.n}) EmbedDataNode(TypeId::kUInt8, 1, 4, (y & 3) + 1);
      else if ((z & 3) == 1) d = new(Support::PlacementNew{&st_edata.v.n}) EmbedDataNode(TypeId::kUInt16, 2, 2, (y & 3) + 1);
      else d = new(Support::PlacementNew{&st_edata.v.n}) EmbedDataNode(TypeId::kUInt32, 4, 1, (y & 3) + 1);
      memcpy(d->data(), blob, 4); B = d; break;
    }
  }
  const bool a_first = A_FIRST;
  BaseNode* n0 = a_first ? static_cast<BaseNode*>(A) : B; BaseNode* n1 = a_first ? B : static_cast<BaseNode*>(A);
  n0->_prev = nullptr; n0->_next = n1; n1->_prev = n0; n1->_next = nullptr;
  b._node_list.reset(n0, n1);
  Recorder r;
  Error s = b.BaseBuilder::serialize_to(&r);
  V_ASSERT(s == Error::kOk, "serialize ok");
  V_ASSERT(nrecs == 2, "exactly two emitter calls");
  const Rec& qa = recs[a_first ? 0 : 1]; const Rec& qb = recs[a_first ? 1 : 0];
  V_ASSERT(qa.kind == 1 && qa.inst_id == id && qa.options == opts, "instruction node replayed as _emit with its id and options");
  V_ASSERT(qa.extra._signature._bits == extra._signature._bits && qa.extra._id == extra._id, "extra register replayed");
  for (uint32_t i = 0; i < 6; i++) {
    if (i < cnt) V_ASSERT(same_op(qa.ops[i], o[i]), "operand replayed verbatim");
    else V_ASSERT(qa.ops[i].is_none(), "operands beyond the node's count are none");
  }
  V_ASSERT(qa.comment == cmtA, "inline comment handed to the destination before the call");
  switch (kind) {
    case 0: V_ASSERT(qb.kind == 2 && qb.a == x, "label node replayed as bind(label)"); break;
    case 1: V_ASSERT(qb.kind == 3 && qb.a == (x & 3) && qb.b == y, "align node replayed as align(mode, alignment)"); break;
    case 2: V_ASSERT(qb.kind == 5 && qb.a == x && qb.d == y, "embed-label node replayed as embed_label(label, size)"); break;
    case 3: V_ASSERT(qb.kind == 6 && qb.a == x && qb.b == y && qb.d == z, "label-delta node replayed as embed_label_delta(label, base, size)"); break;
    case 4: V_ASSERT(qb.kind == 8 && qb.p == (const void*)text, "comment node replayed as comment(text)"); break;
    default: {
      uint32_t k = z & 3; TypeId want_t = k == 0 ? TypeId::kUInt8 : k == 1 ? TypeId::kUInt16 : TypeId::kUInt32; uint64_t want_n = k == 0 ? 4 : k == 1 ? 2 : 1;
      V_ASSERT(qb.kind == 4 && qb.a == uint32_t(want_t) && qb.d == want_n && qb.e == (y & 3) + 1 && ((const uint8_t*)qb.p)[0] == 1 && ((const uint8_t*)qb.p)[3] == 4, "data node replayed as embed_data_array(type, data, count, repeat)"); break;
    }
  }
  verif_observe(kind); verif_observe(cnt);
  V_WITNESS("replay");
}
#define H_REPLAY(K, C) HARNESS h_replay_k##K##_a() { replay_two_nodes<K, true, C>(); } HARNESS h_replay_k##K##_b() { replay_two_nodes<K, false, 6 - C>(); }
H_REPLAY(0, 0) H_REPLAY(1, 1) H_REPLAY(2, 2) H_REPLAY(3, 3) H_REPLAY(4, 4) H_REPLAY(5, 5)

// H1c (replay of consecutive instructions): operand slots of one instruction never leak into the next one's replay.
static Raw<InstNodeWithOperands<6>> st_inst2;
template<uint32_t CNT_A, uint32_t CNT_B> static void replay_two_insts() {
  BaseBuilder b; nrecs = 0;
  Operand_ oa[6], ob[6];
  InstNode* A = new(Support::PlacementNew{&st_inst.v}) InstNodeWithOperands<6>(nondet_u32(), InstOptions::kNone, CNT_A);
  InstNode* B = new(Support::PlacementNew{&st_inst2.v}) InstNodeWithOperands<6>(nondet_u32(), InstOptions::kNone, CNT_B);
  for (uint32_t i = 0; i < 6; i++) { oa[i].reset(); ob[i].reset(); if (i < CNT_A) { any_op(oa[i]); A->set_op(i, oa[i]); } if (i < CNT_B) { any_op(ob[i]); B->set_op(i, ob[i]); } }
  A->reset_op_range(CNT_A, 6); B->reset_op_range(CNT_B, 6);
  A->_prev = nullptr; A->_next = B; B->_prev = A; B->_next = nullptr;
  b._node_list.reset(A, B);
  Recorder r;
  V_ASSERT(b.BaseBuilder::serialize_to(&r) == Error::kOk && nrecs == 2, "two _emit calls replayed");
  for (uint32_t i = 0; i < 6; i++) {
    if (i < CNT_A) V_ASSERT(same_op(recs[0].ops[i], oa[i]), "first instruction: operand replayed verbatim"); else V_ASSERT(recs[0].ops[i].is_none(), "first instruction: operands beyond its count are none");
    if (i < CNT_B) V_ASSERT(same_op(recs[1].ops[i], ob[i]), "second instruction: operand replayed verbatim"); else V_ASSERT(recs[1].ops[i].is_none(), "second instruction: operands beyond its count are none (nothing leaks from the first)");
  }
  V_WITNESS("replay-two-insts");
}
HARNESS h_replay_ii_6_4() { replay_two_insts<6, 4>(); }
HARNESS h_replay_ii_5_4() { replay_two_insts<5, 4>(); }
HARNESS h_replay_ii_6_5() { replay_two_insts<6, 5>(); }
HARNESS h_replay_ii_4_6() { replay_two_insts<4, 6>(); }
HARNESS h_replay_ii_6_2() { replay_two_insts<6, 2>(); }

// H1d (capture with validation): when strict validation of the intermediate representation refuses the instruction, nothing is
// recorded and the whole one-shot state (options, extra register, inline comment) is cleared, exactly as an assembler does.
static int vreports; static bool validator_refuses;
static Error stub_validate(const BaseInst&, const Operand_*, size_t, ValidationFlags) noexcept { return validator_refuses ? make_error(Error::kInvalidInstruction) : Error::kOk; }
ASMJIT_BEGIN_NAMESPACE
Error BaseEmitter::_report_error(Error err, const char*) { vreports++; return err; }
namespace EmitterUtils {   // the ASMJIT_NO_LOGGING branch of the real function (text formatting is C20)
Error log_instruction_failed(BaseEmitter* self, Error err, InstId, InstOptions, const Operand_&, const Operand_&, const Operand_&, const Operand_*) { self->reset_state(); return self->report_error(err); }
}
ASMJIT_END_NAMESPACE
static Raw<CodeHolder> code_store;
HARNESS h_capture_validated() {
  BaseBuilder b;
  memset((void*)&code_store, 0, sizeof(code_store)); b._code = &code_store.v;
  b._diagnostic_options = DiagnosticOptions::kValidateIntermediate; b._forced_inst_options = InstOptions::kReserved;   // as on_settings_updated() sets them
  b._funcs.validate = stub_validate; validator_refuses = nondet_bool(); vreports = 0;
  Operand_ o[3], ext[3]; o[0] = x86::zmm0; o[1] = x86::zmm1; o[2] = x86::eax; for (int i = 0; i < 3; i++) ext[i].reset();   // operand contents are H1a's subject
  InstOptions opts = InstOptions(nondet_u32()) & ~InstOptions::kReserved;
  RegOnly extra; extra._signature._bits = nondet_u32(); extra._id = nondet_u32();
  b._inst_options = opts; b._extra_reg = extra; b._inline_comment = nondet_bool() ? "c" : nullptr;
  Error e = b.BaseBuilder::_emit(nondet_u32(), o[0], o[1], o[2], ext);
  V_ASSERT((e != Error::kOk) == validator_refuses, "the validator's verdict is the call's verdict");
  V_ASSERT(uint32_t(b._inst_options) == 0 && b._extra_reg._signature._bits == 0 && b._extra_reg._id == 0 && b._inline_comment == nullptr, "one-shot state fully cleared whatever the verdict");
  if (validator_refuses) { V_ASSERT(b._node_list.first() == nullptr && b._cursor == nullptr, "a refused instruction is not recorded"); V_ASSERT(vreports == 1, "refusal reported once"); V_WITNESS("refused"); }
  else { V_ASSERT(b._node_list.first() != nullptr && b._node_list.first() == b._node_list.last(), "an accepted instruction is recorded once"); V_WITNESS("recorded"); }
  b._code = nullptr;
}

// H3 (list editing): one edit from a well-formed list of L nodes with the cursor at position CUR (or no cursor) yields the
// edited sequence with symmetric links, correct first/last/cursor and active flags; serialize_to then visits that sequence.
static Raw<LabelNode> st_nodes[5];
template<uint32_t L, int CUR>
struct ListCtx {
  BaseBuilder b; BaseNode* n[5]; uint32_t ids[5];
  ListCtx() {
    b._forced_inst_options = InstOptions::kNone;
    for (uint32_t i = 0; i < 5; i++) { ids[i] = nondet_u32(); n[i] = new(Support::PlacementNew{&st_nodes[i].v}) LabelNode(ids[i]); }
    for (uint32_t i = 0; i < L; i++) { n[i]->_prev = i ? n[i - 1] : nullptr; n[i]->_next = i + 1 < L ? n[i + 1] : nullptr; n[i]->_add_flags(NodeFlags::kIsActive); }
    if (L) b._node_list.reset(n[0], n[L - 1]);
    b._cursor = CUR >= 0 ? n[CUR] : nullptr;
  }
  // checks that the list is exactly seq[0..cnt) and that serialize_to replays bind() in that order
  void expect(BaseNode* const* seq, uint32_t cnt, BaseNode* cursor) {
    V_ASSERT((cnt == 0) == (b._node_list.first() == nullptr) && (cnt == 0) == (b._node_list.last() == nullptr), "empty list has no first and last");
    BaseNode* p = b._node_list.first(); BaseNode* prev = nullptr;
    for (uint32_t i = 0; i < cnt; i++) {
      V_ASSERT(p == seq[i], "list order is the edited sequence");
      V_ASSERT(p->prev() == prev && p->is_active(), "links are symmetric and members are active");
      prev = p; p = p->next();
    }
    V_ASSERT(p == nullptr && b._node_list.last() == prev, "last node ends the list");
    V_ASSERT(b._cursor == cursor, "cursor is where the documentation says");
    if (cnt) {
      nrecs = 0; Recorder r;
      Error e = b.BaseBuilder::serialize_to(&r);
      V_ASSERT(e == Error::kOk && nrecs == int(cnt), "serialize_to visits every node once");
      for (uint32_t i = 0; i < cnt && i < 4; i++) V_ASSERT(recs[i].kind == 2 && recs[i].a == seq[i]->as<LabelNode>()->label_id(), "serialize_to replays the edited order");
    }
  }
};

template<uint32_t L, int CUR> static void edit_add_node() {   // add_node: after the cursor, or at the front when there is no cursor; cursor moves to it
  ListCtx<L, CUR> c; BaseNode* x = c.n[4]; BaseNode* seq[5]; uint32_t k = 0;
  if (CUR < 0) seq[k++] = x;
  for (uint32_t i = 0; i < L; i++) { seq[k++] = c.n[i]; if (int(i) == CUR) seq[k++] = x; }
  c.b.add_node(x);
  c.expect(seq, L + 1, x); V_WITNESS("add-node");
}
template<uint32_t L, int REF, int CUR> static void edit_add_after_before(bool after) {
  ListCtx<L, CUR> c; BaseNode* x = c.n[4]; BaseNode* seq[5]; uint32_t k = 0;
  for (uint32_t i = 0; i < L; i++) { if (!after && int(i) == REF) seq[k++] = x; seq[k++] = c.n[i]; if (after && int(i) == REF) seq[k++] = x; }
  if (after) c.b.add_after(x, c.n[REF]); else c.b.add_before(x, c.n[REF]);
  c.expect(seq, L + 1, CUR >= 0 ? c.n[CUR] : nullptr); V_WITNESS("add-after-before");
}
template<uint32_t L, int FIRST, int LAST, int CUR> static void edit_remove() {   // remove_node (FIRST == LAST) / remove_nodes
  ListCtx<L, CUR> c; BaseNode* seq[5]; uint32_t k = 0;
  for (int i = 0; i < int(L); i++) if (i < FIRST || i > LAST) seq[k++] = c.n[i];
  if (FIRST == LAST && nondet_bool()) c.b.remove_node(c.n[FIRST]); else c.b.remove_nodes(c.n[FIRST], c.n[LAST]);
  for (int i = FIRST; i <= LAST; i++) V_ASSERT(!c.n[i]->is_active() && c.n[i]->prev() == nullptr && c.n[i]->next() == nullptr, "removed nodes are inactive and unlinked");
  // a cursor inside the removed range moves to the node before the range
  BaseNode* cur = CUR < 0 ? nullptr : (CUR >= FIRST && CUR <= LAST) ? (FIRST > 0 ? c.n[FIRST - 1] : nullptr) : c.n[CUR];
  c.expect(seq, k, cur); V_WITNESS("remove");
}
HARNESS h_edit_add_node_empty() { edit_add_node<0, -1>(); }
HARNESS h_edit_add_node_front() { edit_add_node<3, -1>(); }
HARNESS h_edit_add_node_mid() { edit_add_node<3, 1>(); }
HARNESS h_edit_add_node_end() { edit_add_node<3, 2>(); }
HARNESS h_edit_add_after_mid() { edit_add_after_before<3, 1, 0>(true); }
HARNESS h_edit_add_after_last() { edit_add_after_before<3, 2, 2>(true); }
HARNESS h_edit_add_before_first() { edit_add_after_before<3, 0, -1>(false); }
HARNESS h_edit_add_before_mid() { edit_add_after_before<3, 2, 1>(false); }
HARNESS h_edit_remove_only() { edit_remove<1, 0, 0, 0>(); }
HARNESS h_edit_remove_first() { edit_remove<4, 0, 0, 1>(); }
HARNESS h_edit_remove_mid_cursor() { edit_remove<4, 1, 1, 1>(); }
HARNESS h_edit_remove_last() { edit_remove<4, 3, 3, 3>(); }
HARNESS h_edit_remove_range_mid() { edit_remove<4, 1, 2, 2>(); }
HARNESS h_edit_remove_range_head() { edit_remove<4, 0, 1, 3>(); }
HARNESS h_edit_remove_range_tail() { edit_remove<4, 2, 3, 0>(); }
HARNESS h_edit_remove_range_all() { edit_remove<4, 0, 3, 2>(); }
