// C08 — capture (BaseBuilder::_emit & friends) followed by replay (serialize_to) is the identity on emitter calls;
// node-list editing yields the edited sequence. The destination emitter is a recording model (subclass of BaseEmitter).
#include <asmjit/x86.h>
#include <asmjit/core/emitterutils_p.h>
#include "verif.h"
#include "arena_stub.h"
using namespace asmjit;

struct Rec {
  int kind;  // 1 emit 2 bind 3 align 4 embed_data_array 5 embed_label 6 embed_label_delta 7 section 8 comment 9 const pool
  InstId inst_id; InstOptions options; RegOnly extra; Operand_ ops[6]; const char* comment;
  uint32_t a, b, c; uint64_t d, e; const void* p;
};
static Rec recs[4]; static int nrecs;

class Recorder : public BaseEmitter {
public:
  Recorder() noexcept : BaseEmitter(EmitterType::kAssembler) {}
  Rec* next(int kind) { Rec* r = &recs[nrecs < 4 ? nrecs : 3]; nrecs++; memset(r, 0, sizeof(Rec)); r->kind = kind; r->comment = _inline_comment; return r; }
  Error _emit(InstId inst_id, const Operand_& o0, const Operand_& o1, const Operand_& o2, const Operand_* op_ext) override {
    Rec* r = next(1); r->inst_id = inst_id; r->options = _inst_options; r->extra = _extra_reg;
    r->ops[0] = o0; r->ops[1] = o1; r->ops[2] = o2; r->ops[3] = op_ext[0]; r->ops[4] = op_ext[1]; r->ops[5] = op_ext[2];
    // what every real emitter does on success
    _inst_options = InstOptions::kNone; _extra_reg.reset(); _inline_comment = nullptr;
    return Error::kOk;
  }
  Error _emit_op_array(InstId, const Operand_*, size_t) override { next(99); return Error::kOk; }
  Error finalize() override { return Error::kOk; }
  Error section(Section* s) override { Rec* r = next(7); r->p = s; return Error::kOk; }
  Label new_label() override { return Label(); }
  Label new_named_label(const char*, size_t, LabelType, uint32_t) override { return Label(); }
  Error bind(const Label& l) override { Rec* r = next(2); r->a = l.id(); return Error::kOk; }
  Error align(AlignMode m, uint32_t al) override { Rec* r = next(3); r->a = uint32_t(m); r->b = al; return Error::kOk; }
  Error embed(const void* p, size_t n) override { Rec* r = next(10); r->p = p; r->d = n; return Error::kOk; }
  Error embed_data_array(TypeId t, const void* p, size_t n, size_t rep) override { Rec* r = next(4); r->a = uint32_t(t); r->p = p; r->d = n; r->e = rep; return Error::kOk; }
  Error embed_const_pool(const Label& l, const ConstPool& pool) override { Rec* r = next(9); r->a = l.id(); r->p = &pool; return Error::kOk; }
  Error embed_label(const Label& l, size_t n) override { Rec* r = next(5); r->a = l.id(); r->d = n; return Error::kOk; }
  Error embed_label_delta(const Label& l, const Label& base, size_t n) override { Rec* r = next(6); r->a = l.id(); r->b = base.id(); r->d = n; return Error::kOk; }
  Error comment(const char* s, size_t) override { Rec* r = next(8); r->p = s; return Error::kOk; }
};

static void any_op(Operand_& o) { o._signature._bits = nondet_u32(); o._base_id = nondet_u32(); o._data[0] = nondet_u32(); o._data[1] = nondet_u32(); }
static bool same_op(const Operand_& a, const Operand_& b) { return a._signature._bits == b._signature._bits && a._base_id == b._base_id && a._data[0] == b._data[0] && a._data[1] == b._data[1]; }

// H1: one instruction with arbitrary id / options / extra register / 0..6 arbitrary operands / optional inline comment.
template<uint32_t N> static void emit_roundtrip() {
  BaseBuilder b;   // real constructor; not attached to a CodeHolder
  b._forced_inst_options = InstOptions::kNone;   // as after attach() without logger/validation: no slow path requested
  nrecs = 0;
  Operand_ o[6];
  const uint32_t n = N;
  for (uint32_t i = 0; i < 6; i++) { o[i].reset(); if (i < n) any_op(o[i]); }
  InstId id = nondet_u32();
  InstOptions opts = InstOptions(nondet_u32()) & ~InstOptions::kReserved;
  RegOnly extra; extra._signature._bits = nondet_u32(); extra._id = nondet_u32();
  static const char text[] = "cmt";
  const char* cmt = nondet_bool() ? text : nullptr;
  b._inst_options = opts; b._extra_reg = extra; b._inline_comment = cmt;
  Error e = b.BaseBuilder::_emit(id, o[0], o[1], o[2], &o[3]);
  V_ASSERT(e == Error::kOk, "builder accepts the call (no validation requested)");
  V_ASSERT(uint32_t(b._inst_options) == 0 && b._extra_reg._signature._bits == 0 && b._extra_reg._id == 0 && b._inline_comment == nullptr, "one-shot state cleared exactly as an assembler does");
  Recorder r;
  Error s = b.BaseBuilder::serialize_to(&r);
  V_ASSERT(s == Error::kOk, "serialize ok");
  V_ASSERT(nrecs == 1 && recs[0].kind == 1, "exactly one _emit call replayed");
  const Rec& q = recs[0];
  V_ASSERT(q.inst_id == id, "same instruction id");
  V_ASSERT(q.options == opts, "same options");
  V_ASSERT(q.extra._signature._bits == extra._signature._bits && q.extra._id == extra._id, "same extra register");
  // operands: everything up to the last non-none operand is replayed verbatim, the rest are none
  uint32_t cnt = 0; for (uint32_t i = 0; i < 6; i++) if (!o[i].is_none()) cnt = i + 1;
  for (uint32_t i = 0; i < 6; i++) {
    if (i < cnt) V_ASSERT(same_op(q.ops[i], o[i]), "operand replayed verbatim");
    else V_ASSERT(q.ops[i].is_none(), "operands beyond the last one are none");
  }
  V_ASSERT((q.comment == nullptr) == (cmt == nullptr), "inline comment presence preserved");
  if (cmt) V_ASSERT(q.comment[0] == 'c' && q.comment[1] == 'm' && q.comment[2] == 't' && q.comment[3] == 0, "inline comment text preserved");
  verif_observe(cnt); verif_observe(uint32_t(q.options));
  V_WITNESS("emit-roundtrip");
}
HARNESS h_emit_rt_0() { emit_roundtrip<0>(); }
HARNESS h_emit_rt_2() { emit_roundtrip<2>(); }
HARNESS h_emit_rt_3() { emit_roundtrip<3>(); }
HARNESS h_emit_rt_4() { emit_roundtrip<4>(); }
HARNESS h_emit_rt_6() { emit_roundtrip<6>(); }
