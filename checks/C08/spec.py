# C08 — Builder/Compiler serialization = direct assembling
CORE = ['asmjit/core/builder.cpp', 'asmjit/core/emitter.cpp', 'asmjit/core/globals.cpp', 'asmjit/core/operand.cpp', 'asmjit/core/type.cpp', 'asmjit/core/emitterutils.cpp']
UNITS = [Unit('builder', harness=['h_builder.cpp'], repo_units=CORE)]
HARNESSES = [Harness('builder', 'h_capture_%d' % n, unwind=17, mem_gb=8, timeout=900, tiers=('quick', 'thorough') if n in (0, 3, 6) else ('thorough',), bounds='one instruction: any 32-bit id, any option bits, any extra register bits, first %d operands arbitrary 16 bytes each (any of them may be none), optional inline comment' % n) for n in (0, 1, 3, 4, 6)]
KINDS = ['label', 'align', 'embed-label', 'label-delta', 'comment', 'data']
for k in range(6):
    for o in 'ab':
        HARNESSES.append(Harness('builder', 'h_replay_k%d_%s' % (k, o), unwind=17, mem_gb=8, timeout=900, 
                                 bounds='two-node list (instruction node %s): instruction node with any id/options/extra register/a concrete number of arbitrary operands (0..6 across the family)/optional comment, and a %s node with arbitrary field values' % ('first' if o == 'a' else 'second', KINDS[k])))
for n in ['add_node_empty', 'add_node_front', 'add_node_mid', 'add_node_end', 'add_after_mid', 'add_after_last', 'add_before_first', 'add_before_mid', 'remove_only', 'remove_first',
          'remove_mid_cursor', 'remove_last', 'remove_range_mid', 'remove_range_head', 'remove_range_tail', 'remove_range_all']:
    HARNESSES.append(Harness('builder', 'h_edit_' + n, unwind=17, mem_gb=6, timeout=600, bounds='one list edit (%s) on a well-formed list of up to 4 label nodes with arbitrary label ids; list shape, edited position and cursor position are concrete per harness' % n))
for n in ('6_4', '5_4', '6_5', '4_6', '6_2'):
    HARNESSES.append(Harness('builder', 'h_replay_ii_' + n, unwind=17, mem_gb=6, timeout=600, bounds='two consecutive instruction nodes with %s operands (arbitrary contents): the second replay must not see operands of the first' % n.replace('_', ' and ')))
HARNESSES.append(Harness('builder', 'h_capture_validated', unwind=17, mem_gb=8, timeout=900, bounds='BaseBuilder::_emit with intermediate validation on and a validator stub that refuses nondeterministically; arbitrary options, extra register, comment; operands concrete'))
EXPLANATION = 'bounded symbolic execution of the real BaseBuilder capture and serialize_to replay against a recording emitter'
OUTSIDE = ['byte equality for whole programs (follows from capture/replay identity plus determinism of the assembler back end; not re-proved)', 'Compiler-specific nodes (func/invoke)']
ASSUMPTIONS = ['the instruction validator is a stub with a nondeterministic verdict in h_capture_validated (the real validator is C13/C14); failure path without text formatting', 'extension operands (4th..6th) are passed densely, as the typed emit() overloads do', 'Arena replaced by the malloc-backed stub include/arena_stub.h (one malloc per request; the arena itself is C18)', 'destination emitter is a recording model that clears the one-shot state as real emitters do']

# ---- second unit (typed data nodes, const-pool capture, label lookup, section links), added after the second round of seeded changes
import re as _re, os as _os
UNITS.append(Unit('builder2', harness=['h_builder2.cpp'], repo_units=CORE + ['asmjit/core/constpool.cpp', 'asmjit/support/arenavector.cpp']))
_B2 = {'h_data': 'embed_data_array of 2..5 items of the type in the harness name (item bytes symbolic, repeat count a constant per harness) captured by the real Builder (node fields and bytes)',
       'h_const_pool': 'embed_const_pool of an empty pool with alignment 1/2/4/8 and any 32-bit label id on a holder with two labels', 'h_bind': 'bind() of any 32-bit label id on a holder with one or two labels',
       'h_section': 'list of 1..3 section nodes separated by label nodes with arbitrary stale _next_section links, then update_section_links()'}
for _fn in _re.findall(r'^HARNESS (h_\w+)\(\)', open(_os.path.join(_os.path.dirname(_os.path.abspath(__file__)), 'h_builder2.cpp')).read(), _re.M):
    HARNESSES.append(Harness('builder2', _fn, unwind=42, mem_gb=4, timeout=600, bounds=[v for k, v in _B2.items() if _fn.startswith(k)][0]))
