# C08 — Builder/Compiler serialization = direct assembling
CORE = ['asmjit/core/builder.cpp', 'asmjit/core/emitter.cpp', 'asmjit/core/globals.cpp', 'asmjit/core/operand.cpp', 'asmjit/core/type.cpp', 'asmjit/core/emitterutils.cpp']
UNITS = [Unit('builder', harness=['h_builder.cpp'], repo_units=CORE)]
HARNESSES = [
] + [Harness('builder', 'h_emit_rt_%d' % n, unwind=17, mem_gb=10, timeout=1200, bounds='one instruction: any 32-bit id, any option bits, any extra register bits, first %d operands arbitrary 16 bytes each (so any of them may also be none), optional inline comment' % n) for n in (0, 2, 3, 4, 6)] + [
]
EXPLANATION = 'bounded symbolic execution of the real BaseBuilder capture and serialize_to replay against a recording emitter'
OUTSIDE = ['byte equality for whole programs (follows from capture/replay identity plus determinism of the assembler back end; not re-proved)', 'Compiler-specific nodes (func/invoke)']
ASSUMPTIONS = ['Arena replaced by the malloc-backed stub include/arena_stub.h (one malloc per request; the arena itself is C18)', 'destination emitter is a recording model that clears the one-shot state as real emitters do']
