import re, os
_src = os.path.join(os.path.dirname(os.path.abspath(__file__)), '..', 'C13', 'h_ops56.cpp')
UNITS = [Unit('ops56', harness=['../C13/h_ops56.cpp'], repo_units=['asmjit/x86/x86assembler.cpp', 'asmjit/x86/x86instdb.cpp', 'asmjit/x86/x86instapi.cpp'])]
HARNESSES = [Harness('ops56', fn, unwind=17, mem_gb=6, timeout=900, validate_runs=200, bounds='x') for fn in re.findall(r'^HARNESS (h_\w+)\(\)', open(_src).read(), re.M)]
EXPLANATION = 'x'; OUTSIDE = []; ASSUMPTIONS = []
