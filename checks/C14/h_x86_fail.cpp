// C14 (failure path as linked in the library): the real EmitterUtils::log_instruction_failed runs (text formatting of the
// instruction itself is stubbed empty - C20). Claim: when the error reaches the error handler the one-shot instruction state is
// already cleared, so a handler that throws (never returns) cannot leave stale options/extra register/comment behind.
#define VENV_REAL_FAILURE_PATH 1
#include "x86_env.h"
using namespace asmjit;
using namespace venv;

static Error fmt_stub(String&, FormatFlags, const BaseEmitter*, Arch, const BaseInst&, Span<const Operand_>) noexcept { return Error::kOk; }

template<bool X64>
static void fail_order(InstId id) {
  x86::Assembler* a = make_asm(X64, true);
  a->_funcs.format_instruction = fmt_stub;
  // an instruction that strict validation refuses: register operands with arbitrary types / ids plus arbitrary prefixes
  Operand_ o0 = Reg::from_type_and_id(RegType(nondet_u8() & 31), nondet_u8() & 63), o1 = Reg::from_type_and_id(RegType(nondet_u8() & 31), nondet_u8() & 63), none{};
  a->_inst_options = InstOptions(nondet_u32() & 0xCFFFFFF7u);
  if (nondet_bool()) a->_extra_reg.init(x86::k(1 + (nondet_u8() & 3)));
  if (nondet_bool()) a->_inline_comment = "cm";
  state_cleared_at_report = true;
  Error e = a->x86::Assembler::_emit(id, o0, o1, none, EmitterUtils::no_ext);
  verif_observe(uint32_t(e));
  if (e != Error::kOk) {
    V_ASSERT(reports == 1, "error reported once");
    V_ASSERT(state_cleared_at_report, "one-shot state is cleared before the error handler is entered (a throwing handler leaves nothing behind)");
    V_ASSERT(emitted() == 0, "nothing appended");
    V_WITNESS("refused");
  }
}
HARNESS h_fail_order64_add() { fail_order<true>(x86::Inst::kIdAdd); }
HARNESS h_fail_order32_vaddps() { fail_order<false>(x86::Inst::kIdVaddps); }
