# C14 — invalid input is rejected, state untouched
X86_UNITS = ['asmjit/x86/x86assembler.cpp', 'asmjit/x86/x86instdb.cpp', 'asmjit/x86/x86instapi.cpp']
UNITS = [Unit('x86any', harness=['h_x86_any.cpp'], repo_units=X86_UNITS)]
UNITS.append(Unit('x86fail', harness=['h_x86_fail.cpp'], repo_units=X86_UNITS + ['asmjit/core/emitterutils.cpp', 'asmjit/core/string.cpp', 'asmjit/core/globals.cpp', 'asmjit/core/emitter.cpp']))
NAMES = ['add', 'mov', 'lea', 'jmp', 'call', 'jz', 'loop', 'jecxz', 'push', 'xchg', 'imul', 'shl', 'movsx', 'movs', 'in_', 'enter', 'ret', 'movd', 'movq',
         'pextrw', 'crc32', 'vaddps', 'vgatherdps', 'vpextrw', 'kmovq', 'vmovd', 'vcvtps2pd', 'fld', 'bswap', 'test', 'cmpxchg', 'mul']
B = ('instruction id fixed (%s); mode %s; operands 0..2 each symbolic over {none, reg(any RegType, any 32-bit id), mem(any signature bits, base id, index id, 64-bit offset), '
     'imm(any 64-bit), label(any id; holder has 0..2 labels, one bound, one unbound)}; every option bit that has an InstOptions enumerator (mask 0xCFFFFFF7), extra register any bits, inline comment present or not; operands 3..5 none')
HARNESSES = []
for i, n in enumerate(NAMES):
    for mode in ('64', '32'):
        k = len(HARNESSES)
        HARNESSES.append(Harness('x86any', 'h_any%s_%s' % (mode, n), unwind=72, timeout=1800, mem_gb=6, bounds=B % (n, mode),
                                 tiers=('quick', 'thorough'), validate_runs=300))
HARNESSES.append(Harness('x86any', 'h_any64_lea_d8_region', unwind=72, timeout=1200, mem_gb=8, tiers=('quick', 'thorough'), validate_runs=100,
                         bounds='lea r, [label + disp] with disp within 256 of INT32_MIN/INT32_MAX (region of the fixed defect D8: must now be refused or encoded exactly)'))
HARNESSES.append(Harness('x86any', 'h_any64_add_kf_D4', unwind=72, timeout=1200, mem_gb=6, known='D4', tiers=('quick', 'thorough'), validate_runs=100,
                         bounds='add m, imm with lock + xacquire/xrelease + segment override in 64-bit mode (region of known finding D4)'))
for n in ('h_fail_order64_add', 'h_fail_order32_vaddps'):
    HARNESSES.append(Harness('x86fail', n, unwind=72, timeout=1200, mem_gb=8, validate_runs=200, bounds='two register operands of arbitrary type and id, every defined option bit, optional {k} and inline comment; the real failure path (log_instruction_failed) with the instruction formatter stubbed empty'))
EXPLANATION = 'bounded symbolic execution of the real x86 validator + encoder with arbitrary operands'
OUTSIDE = ['C++ unwinding of a throwing error handler itself (the harness shows instead that the one-shot state is already cleared when the handler is entered)', 'instruction ids other than the listed representatives of the encoding classes', 'operands 4..6']
ASSUMPTIONS = ['CodeHolder::new_fixup/new_reloc_entry/add_address_to_address_table replaced by counting stubs (real ones: C03/C04/C15)',
               'failure path without text formatting (ASMJIT_NO_LOGGING branch of log_instruction_failed); BaseEmitter::_report_error replaced by a counter']
