// C14 (x86): arbitrary (options, extra register, operands) handed to the real x86::Assembler::_emit with strict
// validation on. The instruction id is fixed per harness (one per encoding class is instantiated in spec.py).
#include "x86_env_labels.h"
using namespace asmjit;
using namespace venv;

// An operand as the public constructors/setters can build it: every bit field of every operand kind is free.
static Operand_ any_operand(uint32_t kinds_allowed) {
  Operand_ o; o.reset();
  uint32_t kind = nondet_u8() & 7;
  V_ASSUME(kind <= 4 && ((kinds_allowed >> kind) & 1));
  switch (kind) {
    case 0: break;  // none
    case 1: {       // register of any type known to the operand API (signature comes from the type, id is free)
      RegType rt = RegType(nondet_u8() & 31);
      Reg r = Reg::from_type_and_id(rt, nondet_u32());
      o = r;
      break;
    }
    case 2: {       // memory operand: every signature field free (base/index type, shift, size, segment, broadcast, addr type, reg-home)
      uint32_t bits = nondet_u32();
      o._signature._bits = (bits & ~OperandSignature::kOpTypeMask) | uint32_t(OperandType::kMem);
      o._base_id = nondet_u32(); o._data[0] = nondet_u32(); o._data[1] = nondet_u32();
      break;
    }
    case 3: {       // immediate
      int64_t v = int64_t(nondet_u64());
      Imm im(v);
      o = im;
      break;
    }
    case 4: {       // label with any id
      o._signature._bits = uint32_t(OperandType::kLabel); o._base_id = nondet_u32();
      break;
    }
  }
  return o;
}

// D8 region: a memory operand whose base is a label and whose 32-bit displacement lies within 256 of INT32_MIN/INT32_MAX
// (the rel32 arithmetic in the [LABEL|RIP + DISP32] path overflows `int`).
static inline bool in_d8_region(const Operand_& o) {
  if (!o.is_mem() || !o.as<x86::Mem>().has_base_label()) return false;
  int32_t d = o.as<x86::Mem>().offset_lo32();
  return d < INT32_MIN + 256 || d > INT32_MAX - 256;
}

// kf: 0 = everything outside the regions of open known findings; 8 = only the D8 region
template<bool X64>
static void check_any_call(InstId inst_id, uint32_t allowed0, uint32_t allowed1, uint32_t allowed2, bool sym_ext, int kf = 0) {
  x86::Assembler* a = make_asm(X64, true);
  setup_labels(nondet_u8() & 3, nondet_u8() & 63);
  V_ASSUME(holder()->_label_entries._size <= 2);
  Operand_ o0 = any_operand(allowed0), o1 = any_operand(allowed1), o2 = any_operand(allowed2), ext[3];
  bool d8 = in_d8_region(o0) || in_d8_region(o1) || in_d8_region(o2);
#if KF_D8
  if (kf == 0 || kf == 4) V_ASSUME(!d8);
#endif
  if (kf == 8) V_ASSUME(d8);
  // Only option bits that have an enumerator in InstOptions (bit 3 and bits 28,29 are undefined).
  InstOptions opts = InstOptions(nondet_u32() & 0xCFFFFFF7u);
  // D4 region: 64-bit mode, LOCK + XACQUIRE/XRELEASE on a memory destination with a segment override (with 67h, REX,
  // SIB, disp32 and imm32 the instruction reaches 16 bytes).
  bool d4 = X64 && Support::test(opts, InstOptions::kX86_Lock) && Support::test(opts, InstOptions::kX86_XAcquire | InstOptions::kX86_XRelease) &&
            o0.is_mem() && o0.as<x86::Mem>().has_segment();
#if KF_D4
  if (kf == 0 || kf == 8) V_ASSUME(!d4);
#endif
  if (kf == 4) V_ASSUME(d4);
  ext[0].reset(); ext[1].reset(); ext[2].reset();
  if (sym_ext) ext[0] = any_operand(0x0F);
  a->_inst_options = opts;
  if (nondet_bool()) { a->_extra_reg._signature._bits = nondet_u32(); a->_extra_reg._id = nondet_u32(); }
  if (nondet_bool()) a->_inline_comment = "c";
  // inputs that no instruction can accept (whatever the instruction): they must be refused
  bool must_refuse = false; uint32_t why = 0;
  const Operand_* ops3[3] = { &o0, &o1, &o2 };
  for (int i = 0; i < 3; i++) {
    const Operand_& o = *ops3[i];
    if (o.is_reg() && o.id() >= 32) { must_refuse = true; why |= 1; }                                     // no physical register has such an id; virtual ids are illegal for an assembler
    if (o.is_mem()) {
      const x86::Mem& m = o.as<x86::Mem>();
      if (m.segment_id() > 6) { must_refuse = true; why |= 2; }                                            // es..gs are 1..6
      if (m.has_base_label() && m.base_id() >= holder()->_label_entries._size) { must_refuse = true; why |= 4; }   // label that does not exist
      if (m.has_base_reg() && !m.is_reg_home() && m.base_id() >= 32) { must_refuse = true; why |= 8; }
    }
    if (o.is_label() && o.id() >= holder()->_label_entries._size) { must_refuse = true; why |= 16; }
    // LOCK is #UD unless the destination is a memory operand (SDM Vol.2 LOCK); asmjit's operand order puts the destination first
    if (i == 0 && Support::test(opts, InstOptions::kX86_Lock) && !o.is_mem()) { must_refuse = true; why |= 32; }
    // an operand after a none operand is never looked at by some encoders: only the leading run counts
    if (o.is_none()) break;
  }
  Error e = a->x86::Assembler::_emit(inst_id, o0, o1, o2, ext);
  size_t n = emitted();
  verif_observe(uint32_t(e)); verif_observe(n); verif_observe(why);
  if (must_refuse) V_ASSERT(e != Error::kOk, "invalid register id, segment id, label id or LOCK without a memory destination is refused");
  if (e != Error::kOk) {
    V_ASSERT(n == 0, "failed call appends nothing (cursor unchanged)");
    V_ASSERT(text()->_buffer._size == 0, "failed call leaves the section size unchanged");
    V_ASSERT(n_fixups == 0 && n_relocs == 0 && n_addrtab == 0, "failed call creates no fixup, relocation or address-table entry");
    V_ASSERT(reports == 1 && last_reported == e, "error reported exactly once, same code as returned");
    V_WITNESS("rejected");
  } else {
    V_ASSERT(n >= 1 && n <= 15, "accepted instruction is 1..15 bytes long");
    V_ASSERT(reports == 0, "no error reported on success");
    v_observe_bytes(buf, 16);
    V_WITNESS("accepted");
  }
  V_ASSERT(uint32_t(a->_inst_options) == 0 && a->_extra_reg._signature._bits == 0 && a->_extra_reg._id == 0 && a->_inline_comment == nullptr,
           "one-shot instruction state cleared");
  V_ASSERT(a->_buffer_data == buf && a->_buffer_end == buf + sizeof(buf) && a->_section == text(), "emitter bindings untouched");
}

// kinds bitmask: 1=none 2=reg 4=mem 8=imm 16=label
#define ANY 0x1F
#define H_ANY(name, id, k0, k1, k2) \
  HARNESS h_any64_##name() { check_any_call<true>(x86::Inst::id, k0, k1, k2, false); } \
  HARNESS h_any32_##name() { check_any_call<false>(x86::Inst::id, k0, k1, k2, false); }

HARNESS h_any64_add_kf_D4() { check_any_call<true>(x86::Inst::kIdAdd, 0x04, 0x08, 0x01, false, 4); }
HARNESS h_any64_lea_d8_region() { check_any_call<true>(x86::Inst::kIdLea, 0x02, 0x04, 0x01, false, 8); }
H_ANY(add, kIdAdd, ANY, ANY, ANY)
H_ANY(mov, kIdMov, ANY, ANY, ANY)
H_ANY(lea, kIdLea, ANY, ANY, 0x01)
H_ANY(jmp, kIdJmp, ANY, 0x01, 0x01)
H_ANY(call, kIdCall, ANY, 0x01, 0x01)
H_ANY(jz, kIdJz, ANY, 0x01, 0x01)
H_ANY(loop, kIdLoop, ANY, ANY, 0x01)
H_ANY(jecxz, kIdJecxz, ANY, ANY, 0x01)
H_ANY(push, kIdPush, ANY, 0x01, 0x01)
H_ANY(xchg, kIdXchg, ANY, ANY, 0x01)
H_ANY(imul, kIdImul, ANY, ANY, ANY)
H_ANY(shl, kIdShl, ANY, ANY, 0x01)
H_ANY(movsx, kIdMovsx, ANY, ANY, 0x01)
H_ANY(movs, kIdMovs, ANY, ANY, 0x01)
H_ANY(in_, kIdIn, ANY, ANY, 0x01)
H_ANY(enter, kIdEnter, ANY, ANY, 0x01)
H_ANY(ret, kIdRet, ANY, 0x01, 0x01)
H_ANY(movd, kIdMovd, ANY, ANY, 0x01)
H_ANY(movq, kIdMovq, ANY, ANY, 0x01)
H_ANY(pextrw, kIdPextrw, ANY, ANY, ANY)
H_ANY(crc32, kIdCrc32, ANY, ANY, 0x01)
H_ANY(vaddps, kIdVaddps, ANY, ANY, ANY)
H_ANY(vgatherdps, kIdVgatherdps, ANY, ANY, ANY)
H_ANY(vpextrw, kIdVpextrw, ANY, ANY, ANY)
H_ANY(kmovq, kIdKmovq, ANY, ANY, 0x01)
H_ANY(vmovd, kIdVmovd, ANY, ANY, 0x01)
H_ANY(vcvtps2pd, kIdVcvtps2pd, ANY, ANY, 0x01)
H_ANY(fld, kIdFld, ANY, 0x01, 0x01)
H_ANY(bswap, kIdBswap, ANY, 0x01, 0x01)
H_ANY(test, kIdTest, ANY, ANY, 0x01)
H_ANY(cmpxchg, kIdCmpxchg, ANY, ANY, ANY)
H_ANY(mul, kIdMul, ANY, ANY, ANY)
