// C09 — the one-block harnesses of h_block1.cpp again, with the block in a pool whose granularity differs from the
// allocator's base granularity (kUseMultiplePools: pool #1 = 2x, pool #2 = 4x). In pool #0 every "area index <-> byte
// offset" conversion may use impl->granularity or pool->granularity interchangeably; here it may not: span rx / rw =
// block base + area_index * POOL granularity, area index of a pointer = offset / POOL granularity, span size = granules
// * POOL granularity, and the request's pool is the coarsest one whose granularity divides the (base-aligned) size.
#define JENV_POOLS 3
#include "h_block1.cpp"

HARNESS h_alloc_p1() { check_alloc<1, 64, 1, 0, 2>(); }                 // base 64, block in pool #1 (128-byte granules)
HARNESS h_release_p1() { check_release<1, 64, 1, kOptImmediate>(); }    // pool #1, immediate release (delete path included)
HARNESS h_release_p2() { check_release<1, 64, 2, 0>(); }                // pool #2 (256-byte granules)
HARNESS h_shrink_p2() { check_shrink<1, 64, 2, 0>(); }
HARNESS h_shrink_p1_g128() { check_shrink<1, 128, 1, 0>(); }            // base 128, pool #1 = 256
HARNESS h_query_p1() { check_query<1, 64, 1, kOptDual>(); }
HARNESS h_query_p2() { check_query<2, 128, 2, 0>(); }                   // base 128, pool #2 = 512, two bit words
