/* Solver-side definitions of memset / memcpy / memmove for the C09 / C11 units (Unit(extra_c=...)).
 *
 * CBMC 6.11's built-in models drop the write when length AND destination are symbolic: clang -O1 turns the "clear the
 * full words" loop of Support::bit_vector_op into memset(buf, 0, k * 8), and the word kept its old value in the
 * counterexample (which the native replay then refused - that is how it was noticed; reproduced stand-alone with a
 * 12-line C program). A user definition takes precedence over the library model, so these plain loops are what the
 * solver executes. Loop bounds are set per harness through --unwindset (memset.0, memcpy.0, ... are stable names).
 * The native twins use libc: the file is empty unless __CPROVER__ is defined. */
#ifdef __CPROVER__
#include <stddef.h>
#include <stdint.h>
void* memset(void* d, int c, size_t n) {
  unsigned char* p = (unsigned char*)d;
  uint64_t w = (unsigned char)c; w |= w << 8; w |= w << 16; w |= w << 32;
  while (n >= 8) { *(uint64_t*)p = w; p += 8; n -= 8; }
  while (n) { *p++ = (unsigned char)c; n--; }
  return d;
}
void* memcpy(void* d, const void* s, size_t n) {
  unsigned char* p = (unsigned char*)d; const unsigned char* q = (const unsigned char*)s;
  while (n >= 8) { *(uint64_t*)p = *(const uint64_t*)q; p += 8; q += 8; n -= 8; }
  while (n) { *p++ = *q++; n--; }
  return d;
}
void* memmove(void* d, const void* s, size_t n) {
  unsigned char* p = (unsigned char*)d; const unsigned char* q = (const unsigned char*)s;
  if ((uintptr_t)p <= (uintptr_t)q) { while (n) { *p++ = *q++; n--; } }
  else { while (n) { n--; p[n] = q[n]; } }
  return d;
}
#endif
