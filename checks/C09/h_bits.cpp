// C09 — the bit-vector helpers the allocator relies on (support.h Support::bit_vector_*) and the file-local
// BitVectorRangeIterator of jitallocator.cpp, each against a bit-level model over three / two 64-bit words.
#include "jit_env.h"
using namespace asmjit;
using namespace jenv;

static constexpr uint32_t NW = 3, NB = 64 * NW;

// fill / clear of [index, index + count) inside 3 words; every other bit untouched
HARNESS h_bv_fill_clear() {
  uint64_t v[NW], before[NW];
  for (uint32_t i = 0; i < NW; i++) { v[i] = nondet_u64(); before[i] = v[i]; }
  uint32_t index = nondet_u8(), count = nondet_u8();
  V_ASSUME(index < NB && count <= NB - index);
  bool fill = nondet_bool();
  if (fill) Support::bit_vector_fill(v, index, count); else Support::bit_vector_clear(v, index, count);
  for (uint32_t i = 0; i < NW; i++) {
    uint64_t m = rangemask_w(i, index, index + count);
    verif_observe(v[i]);
    V_ASSERT(v[i] == (fill ? (before[i] | m) : (before[i] & ~m)), "bit_vector_fill / clear: exactly the bits of the range change");
  }
  if (count == 0) V_WITNESS("bv-empty-range");
  if (index < 64 && index + count > 128) V_WITNESS("bv-three-words");
  if (count && (index & 63) + count <= 64) V_WITNESS("bv-one-word");
}

// get / set / or / xor of one bit
HARNESS h_bv_bit() {
  uint64_t v[NW], before[NW];
  for (uint32_t i = 0; i < NW; i++) { v[i] = nondet_u64(); before[i] = v[i]; }
  uint32_t index = nondet_u8(); V_ASSUME(index < NB);
  bool value = nondet_bool(); uint32_t op = nondet_u8() & 3;
  bool old = bit_at<NW>(before, index);
  V_ASSERT(Support::bit_vector_get_bit(v, index) == old, "bit_vector_get_bit reads the addressed bit");
  bool expect = old;
  if (op == 0) { Support::bit_vector_set_bit(v, index, value); expect = value; }
  else if (op == 1) { Support::bit_vector_or_bit(v, index, value); expect = old || value; }
  else if (op == 2) { Support::bit_vector_xor_bit(v, index, value); expect = old != value; }
  for (uint32_t i = 0; i < NW; i++) {
    uint64_t m = rangemask_w(i, index, index + 1);
    V_ASSERT(v[i] == ((before[i] & ~m) | (expect ? m : 0)), "bit_vector_set / or / xor_bit: only the addressed bit changes, to the expected value");
  }
  V_WITNESS("bv-bit");
}

// index_of(start, value): lowest index >= start whose bit equals value (precondition of every caller: there is one)
HARNESS h_bv_index_of() {
  uint64_t v[NW];
  for (uint32_t i = 0; i < NW; i++) v[i] = nondet_u64();
  uint32_t start = nondet_u8(); V_ASSUME(start < NB);
  bool value = nondet_bool();
  uint64_t cand[NW];
  for (uint32_t i = 0; i < NW; i++) cand[i] = (value ? v[i] : ~v[i]) & ~lowmask_w(i, start);
  V_ASSUME(!is_zero_v<NW>(cand));
  size_t r = Support::bit_vector_index_of(v, start, value);
  verif_observe(r);
  V_ASSERT(r == lowest_v<NW>(cand), "bit_vector_index_of returns the first matching bit at or after start");
  V_WITNESS("bv-index-of");
  if (r >= 128 && start < 64) V_WITNESS("bv-index-of-skips-a-word");
}

// ---------------------------------------------------------------------------------------------------------------------
// BitVectorRangeIterator<BitWord, B>: one next_range() call from ANY iterator state over two words.
// Iterator invariant J: _idx = 64*wi, _ptr = data + wi, _bit_word = matching(data[wi]) & (ones << k), 0 <= k <= 64
// (k = 64: word exhausted), i.e. the iterator stands at position pos = 64*wi + k. `matching` = set bits (B = 1) or clear
// bits (B = 0). Precondition of the iterator (satisfied by the allocator through I c8 / by whole-vector scans): no matching
// bit at a position >= end inside the words it reads (words below ceil(end / 64)).
template<uint32_t B> static void check_range_step() {
  constexpr uint32_t W = 2;
  uint64_t data[W]; for (uint32_t i = 0; i < W; i++) data[i] = nondet_u64();
  uint64_t M[W]; for (uint32_t i = 0; i < W; i++) M[i] = B ? data[i] : ~data[i];   // matching bits
  uint32_t end = nondet_u8(); V_ASSUME(end >= 1 && end <= 64 * W);
  uint32_t words_read = (end + 63) / 64;
  for (uint32_t i = 0; i < W; i++) if (i < words_read) V_ASSUME((M[i] & ~lowmask_w(i, end)) == 0);
  uint32_t wi = nondet_u8() & 1, k = nondet_u8(); V_ASSUME(k <= 64 && wi < words_read);
  size_t hint = nondet_bool() ? SIZE_MAX : size_t(nondet_u8());
  V_ASSUME(hint >= 1);
  BitVectorRangeIterator<uint64_t, B> it(data, W, 0, 64 * W);   // any constructor; the state is set directly below
  it._ptr = data + wi; it._idx = 64 * wi; it._end = end;
  it._bit_word = k == 64 ? 0 : (word_at<W>(M, wi) & (~0ull << k));
  uint32_t pos = 64 * wi + k;
  size_t rs = 1000, re = 2000;
  bool got = it.next_range(Out(rs), Out(re), hint);
  verif_observe(got); if (got) { verif_observe(rs); verif_observe(re); }
  uint64_t ahead[W]; for (uint32_t i = 0; i < W; i++) ahead[i] = M[i] & ~lowmask_w(i, pos) & lowmask_w(i, end);
  if (is_zero_v<W>(ahead)) {
    V_ASSERT(!got, "next_range: no matching bit ahead means no range");
    V_WITNESS("iter-exhausted");
  } else {
    uint32_t first = lowest_v<W>(ahead);
    uint64_t stopb[W]; for (uint32_t i = 0; i < W; i++) stopb[i] = ~M[i] & ~lowmask_w(i, first);
    uint32_t run_end = is_zero_v<W>(stopb) ? 64 * W : lowest_v<W>(stopb);
    if (run_end > end) run_end = end;
    V_ASSERT(got, "next_range: a matching bit ahead yields a range");
    V_ASSERT(rs == first, "next_range: the range starts at the first matching bit at or after the position");
    V_ASSERT(re > rs && re <= run_end, "next_range: the range is non-empty and contains matching bits only");
    V_ASSERT(re == run_end || re - rs >= hint, "next_range: the range is the whole run unless the hint was reached");
    if (re == run_end) {
      // the iterator stands behind the run: J holds again (or the iterator is exhausted: _idx >= _end with no candidate
      // bits) and no matching bit between the run and the new position is lost
      uint64_t left[W]; for (uint32_t i = 0; i < W; i++) left[i] = M[i] & ~lowmask_w(i, re) & lowmask_w(i, end);
      if (it._idx >= end) {
        V_ASSERT(it._bit_word == 0 && is_zero_v<W>(left), "next_range: an exhausted iterator has nothing left behind the run");
        V_WITNESS("iter-run-reaches-end");
      } else {
        uint32_t nwi = uint32_t(it._idx / 64);
        V_ASSERT(it._idx % 64 == 0 && it._ptr == data + nwi && nwi < W, "next_range: iterator stays on a word it may read");
        bool earlier_words_done = true;
        for (uint32_t i = 0; i < W; i++) { if (i < nwi) earlier_words_done = earlier_words_done && left[i] == 0; }
        V_ASSERT(it._bit_word == word_at<W>(left, nwi) && earlier_words_done, "next_range: every matching bit behind the run is still ahead of the iterator");
      }
      V_WITNESS("iter-full-run");
      if (rs < 64 && re > 64) V_WITNESS("iter-run-crosses-word");
    } else V_WITNESS("iter-cut-by-hint");
    if (first >= 64 && pos < 64) V_WITNESS("iter-skips-empty-word");
  }
}
HARNESS h_range_iter_free() { check_range_step<0>(); }
HARNESS h_range_iter_used() { check_range_step<1>(); }

// init(start, end): establishes J at position start (start < end as in every call the allocator makes)
HARNESS h_range_iter_init() {
  constexpr uint32_t W = 2;
  uint64_t data[W]; for (uint32_t i = 0; i < W; i++) data[i] = nondet_u64();
  uint32_t start = nondet_u8(), end = nondet_u8(); V_ASSUME(start < end && end <= 64 * W);
  BitVectorRangeIterator<uint64_t, 0> it(data, W, start, end);
  uint32_t wi = start / 64;
  V_ASSERT(it._idx == 64 * wi && it._ptr == data + wi && it._end == end, "init: iterator stands on the word of start");
  V_ASSERT(it._bit_word == (~word_at<W>(data, wi) & (~0ull << (start & 63))), "init: candidate bits are the free bits at or after start");
  BitVectorRangeIterator<uint64_t, 1> whole(data, W);
  V_ASSERT(whole._idx == 0 && whole._ptr == data && whole._end == 64 * W && whole._bit_word == data[0], "init: whole-vector iterator over set bits");
  V_WITNESS("iter-init");
}
