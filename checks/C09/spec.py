# C09 — JitAllocator bookkeeping (inductive step)
UNITS = [
    # the harness #includes asmjit/core/jitallocator.cpp (file-local classes); VirtMem and pthread_mutex_* are stubbed in jit_env.h
    Unit('block1', harness=['h_block1.cpp'], repo_units=[], extra_c=['cbmc_mem.c']),
    Unit('world2', harness=['h_world2.cpp'], repo_units=[], extra_c=['cbmc_mem.c'], defines=['JENV_POOLS=3', 'JENV_NEW_BLOCK_WORDS=8']),
    Unit('fill', harness=['h_fill.cpp'], repo_units=[], extra_c=['cbmc_mem.c'], defines=['JENV_CBMC_ARENA_BYTES=256']),
    Unit('reset', harness=['h_reset.cpp'], repo_units=[], extra_c=['cbmc_mem.c'], defines=['JENV_CBMC_ARENA_BYTES=4096']),
    Unit('bits', harness=['h_bits.cpp'], repo_units=[], extra_c=['cbmc_mem.c']),
    Unit('gen', harness=['h_gen.cpp'], repo_units=[], extra_c=['cbmc_mem.c']),
]
B1 = '1 block of 64 granules in any state satisfying I(block), any window/flags; '
B2 = '1 block of 128 granules (two bit words) in any state satisfying I(block); '
MEM = 'memset.0:10,memset.1:9,memcpy.0:10,memcpy.1:9'
FILL = MEM + ',_ZN6asmjit5v1_21L25JitAllocator_fill_patternEPvjm.0:50,_ZN6asmjit5v1_21L25JitAllocator_fill_patternEPvjm.1:50,_ZN6asmjit5v1_21L25JitAllocator_fill_patternEPvjm.2:50'
HARNESSES = [
    Harness('block1', 'h_alloc_w1', unwind=4, bounds=B1 + 'every size; at most 2 free runs', unwindset=MEM, mem_gb=6, timeout=900),
    Harness('block1', 'h_alloc_w2', unwind=4, bounds=B2 + 'every size; at most 2 free runs', unwindset=MEM, mem_gb=8, timeout=1800, tiers=('thorough',)),
    Harness('block1', 'h_release_w1', unwind=5, bounds=B1 + 'every live span', unwindset=MEM, mem_gb=4),
    Harness('block1', 'h_release_w2', unwind=5, bounds=B2 + 'every live span', unwindset=MEM, mem_gb=4),
    Harness('block1', 'h_release_imm_w1', unwind=5, bounds=B1 + 'immediate release', unwindset=MEM, mem_gb=4),
    Harness('block1', 'h_release_kf_C09A', unwind=5, bounds=B1 + 'region of C09A', unwindset=MEM, mem_gb=4, known='C09A'),
    Harness('block1', 'h_release_kf_C09B', unwind=5, bounds=B1 + 'region of C09B', unwindset=MEM, mem_gb=4, known='C09B'),
    Harness('block1', 'h_shrink_w1', unwind=5, bounds=B1 + 'every granule as span start, every new size', unwindset=MEM, mem_gb=4),
    Harness('block1', 'h_shrink_w2', unwind=5, bounds=B2 + 'every granule as span start, every new size', unwindset=MEM, mem_gb=4),
    Harness('block1', 'h_shrink_kf_C09A', unwind=5, bounds=B1 + 'region of C09A', unwindset=MEM, mem_gb=4, known='C09A'),
    Harness('block1', 'h_shrink_kf_C09F', unwind=5, bounds=B1 + 'region of C09F', unwindset=MEM, mem_gb=4, known='C09F'),
    Harness('block1', 'h_query_w1', unwind=5, bounds=B1 + 'every pointer', unwindset=MEM, mem_gb=4),
    Harness('block1', 'h_query_w2', unwind=5, bounds=B2 + 'every pointer, dual mapping', unwindset=MEM, mem_gb=4),
    Harness('block1', 'h_reject', unwind=5, bounds=B1, unwindset=MEM, mem_gb=4),
    Harness('block1', 'h_not_initialized', unwind=5, bounds='', unwindset=MEM, mem_gb=4),
    Harness('block1', 'h_statistics', unwind=5, bounds=B2, unwindset=MEM, mem_gb=4),
    Harness('block1', 'h_initialized_kf_C09C', unwind=5, bounds='', unwindset=MEM, mem_gb=4, known='C09C'),
    Harness('world2', 'h_first_block', unwind=10, unwindset=MEM, bounds='empty allocator, 4 boundary sizes, default options, OS refusing or not', mem_gb=8),
    Harness('world2', 'h_first_block_b', unwind=10, unwindset=MEM, bounds='same, 4 more sizes', mem_gb=8, tiers=('thorough',)),
    Harness('world2', 'h_first_block_nopad_dual', unwind=10, unwindset=MEM, bounds='same, no padding + dual mapping, granularity 128', mem_gb=8, tiers=('thorough',)),
    Harness('world2', 'h_first_block_large_refused', unwind=10, unwindset=MEM, bounds='same, large pages refused by the OS (fallback to regular pages)', mem_gb=8, tiers=('thorough',)),
    Harness('world2', 'h_first_block_large_align', unwind=10, unwindset=MEM, bounds='same, large pages + align + no padding, granularity 256', mem_gb=8, tiers=('thorough',)),
    Harness('world2', 'h_first_block_multipool', unwind=10, unwindset=MEM, bounds='same, 3 pools, sizes selecting each pool', mem_gb=8, tiers=('thorough',)),
    Harness('world2', 'h_block_size_policy', unwind=6, unwindset=MEM, bounds='every request size, base 64 KiB..8 MiB, last block base*2^k', mem_gb=6),
    Harness('world2', 'h_second_block', unwind=10, unwindset=MEM, bounds='pool with one full block of 64 granules, 4 boundary sizes', mem_gb=6),
    Harness('world2', 'h_release_2b', unwind=6, unwindset=MEM, bounds='2 blocks of 64 granules in any states of I, any list order / tree shape / cursor', mem_gb=6),
    Harness('world2', 'h_release_2b_imm', unwind=6, unwindset=MEM, bounds='same, immediate release', mem_gb=6),
    Harness('fill', 'h_fill_release', unwind=6, unwindset=FILL, bounds='1 block of 64 granules, any state of I, spans of 1..2 granules inside the first 4 granules, any pattern, any byte of those 256', mem_gb=6),
    Harness('fill', 'h_fill_release_dual', unwind=6, unwindset=FILL, bounds='same, dual mapping', mem_gb=6, tiers=('thorough',)),
    Harness('fill', 'h_fill_shrink', unwind=6, unwindset=FILL, bounds='same, shrink keeping 1..2 granules and freeing 0..2', mem_gb=6),
    Harness('fill', 'h_write', unwind=6, unwindset=MEM.replace('memcpy.0:10', 'memcpy.0:18'), bounds='span of 1..2 granules inside the first 4 granules, any offset, any size, any source byte', mem_gb=6),
    Harness('fill', 'h_write_fn', unwind=6, unwindset=FILL, bounds='span of 1..3 granules inside the first 4 granules, truncated to 1..256 bytes by the write function', mem_gb=6),
    Harness('reset', 'h_reset_hard', unwind=6, unwindset=MEM, bounds='1..2 blocks of 64 granules in any states of I, any list order / tree shape', mem_gb=6),
    Harness('reset', 'h_reset_kf_C09G', unwind=6, unwindset=MEM, bounds='same', mem_gb=6, known='C09G'),
    Harness('reset', 'h_reset_soft', unwind=6, unwindset=MEM, bounds='same', mem_gb=6),
    Harness('reset', 'h_reset_soft_then_alloc', unwind=6, unwindset=MEM, bounds='same, followed by one alloc of 1..256 bytes', mem_gb=6, timeout=1500, tiers=('thorough',)),
    Harness('reset', 'h_reset_soft_kf_C09E', unwind=6, unwindset=MEM, bounds='same, region of C09E', mem_gb=6, known='C09E'),
    Harness('bits', 'h_bv_fill_clear', unwind=5, unwindset=MEM, bounds='3 words, every index/count', mem_gb=4),
    Harness('bits', 'h_bv_bit', unwind=5, unwindset=MEM, bounds='3 words, every index', mem_gb=4),
    Harness('bits', 'h_bv_index_of', unwind=5, unwindset=MEM, bounds='3 words, every start', mem_gb=4),
    Harness('bits', 'h_range_iter_free', unwind=5, unwindset=MEM, bounds='2 words, any iterator state, any end, any hint', mem_gb=4),
    Harness('bits', 'h_range_iter_used', unwind=5, unwindset=MEM, bounds='2 words, any iterator state, any end, any hint', mem_gb=4),
    Harness('bits', 'h_range_iter_init', unwind=5, unwindset=MEM, bounds='2 words, every start < end', mem_gb=4),
    Harness('gen', 'h_gen_complete_w1', unwind=5, unwindset=MEM, bounds='every state of I, 64 granules', mem_gb=4),
    Harness('gen', 'h_gen_complete_w2', unwind=5, unwindset=MEM, bounds='every state of I, 128 granules', mem_gb=4),
]
EXPLANATION = 'x'
OUTSIDE = []
ASSUMPTIONS = []
