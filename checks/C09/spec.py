# C09 — JitAllocator bookkeeping: inductive step. One public operation from an arbitrary state satisfying the representation
# invariant I(block) (jit_env.h), I and the post-conditions asserted afterwards; bit-vector helpers against bit-level models.
X = dict(repo_units=[], extra_c=['cbmc_mem.c'])   # every unit #includes asmjit/core/jitallocator.cpp through jit_env.h
UNITS = [
    Unit('block1', harness=['h_block1.cpp'], **X),
    Unit('block1p', harness=['h_block1p.cpp'], **X),
    Unit('fillp', harness=['h_fillp.cpp'], defines=['JENV_CBMC_ARENA_BYTES=256'], **X),
    Unit('world2', harness=['h_world2.cpp'], defines=['JENV_POOLS=3', 'JENV_NEW_BLOCK_WORDS=8'], **X),
    Unit('fill', harness=['h_fill.cpp'], defines=['JENV_CBMC_ARENA_BYTES=256'], **X),
    Unit('reset', harness=['h_reset.cpp'], defines=['JENV_CBMC_ARENA_BYTES=256'], **X),
    Unit('bits', harness=['h_bits.cpp'], **X),
    Unit('gen', harness=['h_gen.cpp'], **X),
    Unit('tree', harness=['h_tree.cpp'], repo_units=[]),
]
MEM = 'memset.0:10,memset.1:9,memcpy.0:10,memcpy.1:9'          # loops of cbmc_mem.c (stable names)
FP = '_ZN6asmjit5v1_21L25JitAllocator_fill_patternEPvjm'         # noinline in jitallocator.cpp: its loop ids are stable
FILL = MEM + ',%s.0:50,%s.1:50,%s.2:50' % (FP, FP, FP)
FILLP = MEM + ',%s.0:12,%s.1:12,%s.2:12' % (FP, FP, FP)
B1 = '1 block of 64 granules in any state satisfying I(block), any window/flags/placement; '
B2 = '1 block of 128 granules (two bit words) in any state satisfying I(block); '
T = ('thorough',)
def H(unit, fn, bounds, unwind=5, mem=2, **kw):
    kw.setdefault('unwindset', MEM)
    return Harness(unit, fn, unwind=unwind, bounds=bounds, mem_gb=mem, **kw)
HARNESSES = [
    # ---- one block, one operation
    H('block1', 'h_alloc_w1', B1 + 'every request size; at most 2 free runs (search loop bound); OS refuses new mappings', unwind=4, mem=4, timeout=900),
    H('block1', 'h_alloc_w2', B2 + 'every request size; at most 2 free runs; OS refuses new mappings', unwind=4, mem=8, timeout=2400, tiers=T),
    H('block1', 'h_release_w1', B1 + 'every live span'),
    H('block1', 'h_release_w2', B2 + 'every live span', mem=4, tiers=T),
    H('block1', 'h_release_imm_w1', B1 + 'every live span, immediate release (block deleted when emptied)'),
    H('block1', 'h_release_kf_C09A', B1 + 'region of known finding C09A', known='C09A'),
    H('block1', 'h_release_kf_C09B', B1 + 'region of known finding C09B', known='C09B'),
    H('block1', 'h_shrink_w1', B1 + 'every granule as span start (live, interior, free), every new size'),
    H('block1', 'h_shrink_w2', B2 + 'every granule as span start, every new size', mem=4, timeout=1200, tiers=T),
    H('block1', 'h_shrink_kf_C09A', B1 + 'region of known finding C09A', known='C09A'),
    H('block1', 'h_shrink_kf_C09F', B1 + 'region of known finding C09F (new size > 2^37)', known='C09F'),
    H('block1', 'h_query_w1', B1 + 'every pointer inside and outside the block'),
    H('block1', 'h_query_w2', B2 + 'every pointer, dual mapping'),
    H('block1', 'h_reject', B1 + 'null / foreign pointers, null span, span without block'),
    H('block1', 'h_not_initialized', 'allocator whose construction failed: every entry'),
    H('block1', 'h_statistics', B2),
    H('block1', 'h_initialized_kf_C09C', 'any allocator', known='C09C'),
    # ---- the same in pools whose granularity differs from the base granularity (address arithmetic must use the POOL granularity)
    H('block1p', 'h_alloc_p1', B1 + 'block in pool #1 (granularity 128 over base 64); every request size; at most 2 free runs', unwind=4, mem=4, timeout=900, tiers=T),
    H('block1p', 'h_release_p1', B1 + 'block in pool #1, immediate release'),
    H('block1p', 'h_release_p2', B1 + 'block in pool #2 (granularity 256 over base 64)', tiers=T),
    H('block1p', 'h_shrink_p2', B1 + 'block in pool #2, every granule as span start, every new size'),
    H('block1p', 'h_shrink_p1_g128', B1 + 'block in pool #1 of base 128 (granularity 256)', tiers=T),
    H('block1p', 'h_query_p1', B1 + 'block in pool #1, dual mapping, every pointer'),
    H('block1p', 'h_query_p2', B2 + 'block in pool #2 of base 128 (granularity 512), every pointer'),
    H('fillp', 'h_fill_release_pool1', B1 + 'block in pool #1 of a multi-pool allocator, granularities scaled to 4/8/16 bytes; release of a span of 1..2 granules inside the first 256 bytes; any pattern, any byte of those 256', unwind=6, unwindset=FILLP),
    H('fillp', 'h_fill_shrink_pool2', B1 + 'block in pool #2 of a multi-pool allocator, granularities scaled to 4/8/16 bytes; shrink of a span of 1..2 granules inside the first 256 bytes; any pattern, any byte of those 256', unwind=6, unwindset=FILLP),
    H('fillp', 'h_fill_release_pool2_dual', B1 + 'block in pool #2 of a multi-pool allocator, granularities scaled to 4/8/16 bytes; release, dual mapping, of a span of 1..2 granules inside the first 256 bytes; any pattern, any byte of those 256', unwind=6, unwindset=FILLP, tiers=T),
    H('fillp', 'h_fill_shrink_pool1_dual', B1 + 'block in pool #1 of a multi-pool allocator, granularities scaled to 4/8/16 bytes; shrink, dual mapping, of a span of 1..2 granules inside the first 256 bytes; any pattern, any byte of those 256', unwind=6, unwindset=FILLP, tiers=T),
    # ---- blocks appear / disappear
    H('world2', 'h_first_block', 'empty allocator, 4 boundary sizes, default options, OS refusing or not', unwind=10, mem=4),
    H('world2', 'h_first_block_b', 'same, 4 more sizes', unwind=10, mem=6, tiers=T),
    H('world2', 'h_first_block_nopad_dual', 'same, no padding + dual mapping, granularity 128', unwind=10, mem=6, tiers=T),
    H('world2', 'h_first_block_large_refused', 'same, large pages refused by the OS (fallback to regular pages), no padding, granularity 256', unwind=10, mem=6, tiers=T),
    H('world2', 'h_first_block_large_align', 'same, large pages granted, align option, no padding, granularity 256', unwind=10, mem=6, tiers=T),
    H('world2', 'h_first_block_multipool', 'same, 3 pools, sizes selecting each pool (span address in the coarser pools)', unwind=10, mem=3),
    H('world2', 'h_block_size_policy', 'every request size, base block 64 KiB..8 MiB, last block base*2^k, padding on/off', unwind=6),
    H('world2', 'h_second_block', 'pool with one full block of 64 granules, 4 boundary sizes, either address order', unwind=10),
    H('world2', 'h_release_2b', '2 blocks of 64 granules in any states of I, any list order / tree shape / cursor', unwind=6),
    H('world2', 'h_release_2b_imm', 'same, immediate release', unwind=6),
    # ---- JIT memory contents
    H('fill', 'h_fill_shrink', B1 + 'shrink keeping 1..2 granules and freeing 0..2 inside the first 4 granules, any pattern, any byte of those 256', unwind=6, unwindset=FILL),
    H('fill', 'h_write_fn', B1 + 'span of 1..3 granules inside the first 4, truncated to 1..256 bytes by the write function, fill on', unwind=6, unwindset=FILL),
    H('fill', 'h_fill_release', B1 + 'release of a span of 1..2 granules inside the first 4, any pattern, any byte', unwind=6, unwindset=FILL, mem=6, timeout=3000, tiers=T),
    H('fill', 'h_fill_release_dual', 'same, dual mapping', unwind=6, unwindset=FILL, mem=6, timeout=3000, tiers=T),
    H('fill', 'h_write', 'write(span, offset, src, size): span of 1..2 granules inside the first 4, any offset, sizes 0..24 (copied) or > 128 (refused), any source byte', unwind=6, unwindset=MEM.replace('memcpy.0:10', 'memcpy.0:5'), mem=6, timeout=2400, tiers=T),
    # ---- reset
    H('reset', 'h_reset_hard', '1..2 blocks of 64 granules in any states of I, any list order / tree shape', unwind=6),
    H('reset', 'h_reset_kf_C09G', 'same, region of known finding C09G', unwind=6, known='C09G'),
    H('reset', 'h_reset_soft', 'same, soft reset', unwind=6),
    H('reset', 'h_reset_soft_then_alloc', 'same, followed by one alloc of 1..256 bytes', unwind=6, mem=4, timeout=1500, tiers=T),
    H('reset', 'h_reset_fill', 'soft reset with fill: 64-granule block, granularity scaled to 4 bytes, 5 concrete bit patterns, any fill pattern, any byte', unwind=70, unwindset=MEM + ',%s.0:70,%s.1:70,%s.2:70' % (FP, FP, FP), mem=4),
    H('reset', 'h_reset_fill_kf_C09D', 'same, region of known finding C09D (blocks with live spans)', unwind=70, unwindset=MEM + ',%s.0:70,%s.1:70,%s.2:70' % (FP, FP, FP), mem=4, known='C09D'),
    H('reset', 'h_reset_soft_kf_C09E', 'same, region of known finding C09E', unwind=6, known='C09E'),
    # ---- helpers the allocator relies on
    H('tree', 'h_tree_real', 'real arenatree.h: 1..2 nodes, either insertion order by address, any lookup address, any node removed', mem=4, unwindset=None, tiers=T),
    H('bits', 'h_bv_fill_clear', '3 words, every index/count'),
    H('bits', 'h_bv_bit', '3 words, every index, get/set/or/xor'),
    H('bits', 'h_bv_index_of', '3 words, every start, both values'),
    H('bits', 'h_range_iter_free', 'BitVectorRangeIterator<.,0>: 2 words, ANY iterator state, any end, any hint (one next_range step)'),
    H('bits', 'h_range_iter_used', 'BitVectorRangeIterator<.,1>: 2 words, ANY iterator state, any end, any hint'),
    H('bits', 'h_range_iter_init', '2 words, every start < end'),
    H('gen', 'h_gen_complete_w1', 'every state of I, 64 granules: the pre-state generator reaches it'),
    H('gen', 'h_gen_complete_w2', 'every state of I, 128 granules'),
]
EXPLANATION = ('bounded symbolic execution (CBMC) of the real jitallocator.cpp, one operation from an arbitrary pre-state satisfying the representation invariant '
               'I(block) c1..c10 (jit_env.h); I is re-established and the post-conditions (span non-null, granule aligned, >= requested, inside the block, disjoint from '
               'every previously used granule; released/shrunk granules free and inside the search window; a new block only when no free run fits; statistics = recomputation; '
               'fill pattern; foreign pointers refused without change) are asserted. Histories are covered inductively, not enumerated. '
               'c4 (area_used = popcount) is carried in delta form.')
OUTSIDE = [
    'blocks are scaled down to 64 / 128 granules (real minimum: 64 KiB = 256..1024 granules); area sizes are multiples of 64 granules as in every real configuration',
    'alloc inside an existing block: pre-states with at most 2 free runs (the search loop runs once per free run that is too small; 6 runs: 25 M clauses, 10 min symex); '
    'the iterator itself is checked from ANY state in unit bits, so fragmentation beyond 2 runs is covered for next_range, not for the loop around it',
    'new-block paths use concrete boundary request sizes (a symbolic size makes the length/position of the new bit vectors symbolic: 42 M variables); the sizing policy is checked for every size separately',
    'dropped (no verdict within 8 GB): first block with large pages AND initial padding; three-node real red-black tree; initial fill of a fresh block',
    'fill pattern written by a soft reset (wipeOutBlock): pool granularity scaled down to 4 bytes, five concrete bit patterns (h_reset_fill)',
    'JIT memory is real only in units fill / reset, and only the first 256 bytes of the block; release/shrink/write there are limited to spans inside the first 4 granules',
    'release(rx) with an interior or stale (already released) pointer: the code has no used-bit check in release (unlike shrink/query) - treated as a precondition, only null and foreign pointers are claimed to be refused',
    'query(rx) with an interior pointer returns the suffix [granule of rx, end of span), not the whole span (asserted as such)',
    'fill / write in the coarser pools of a multi-pool allocator (unit fillp) uses granularities scaled to 4 / 8 / 16 bytes; with the real 64 / 128 / 256 the span address arithmetic is checked without memory (unit block1p, h_first_block_multipool)',
    'real mmap / dual mapping aliasing / large pages / instruction-cache flushes (OS); two views are two buffers here',
    'block growth beyond the doubling / request-sized policy; histories of 10^5 operations (inductive argument instead)',
]
ASSUMPTIONS = [
    'VirtMem::alloc / alloc_dual_mapping / release / release_dual_mapping / protect_jit_memory / flush_instruction_cache / info / large_page_size / hardened_runtime_info are harness stubs (jit_env.h): arena slots, recorded calls, RW/RX nesting asserted',
    'pthread_mutex_lock / unlock are a depth counter with nesting assertions (the real Lock / LockGuard run on top)',
    'ArenaTree<JitAllocatorBlock> is replaced by tree_model.h (typed links, no balancing, same interface; the block\'s own range comparison operators stay real); the real arenatree.h is exercised in unit tree with 1..2 nodes',
    '::free(block) / ::malloc(block object) are redirected (jenv_free / jenv_malloc): pre-state blocks are typed static objects whose bit vectors live in separate arrays; a freed block is recorded and poisoned',
    'memset / memcpy / memmove are plain loops under CBMC (cbmc_mem.c): the built-in models drop writes with symbolic length at a symbolic destination (observed)',
    'block flags padding / dual mapped / large pages are not tied to the allocator options in the one-block harnesses (superset of the reachable states)',
    'release / shrink / write(fn) preconditions: the span passed in was returned by alloc/query of this allocator (rx at a granule start of the block named by span._block)',
]
