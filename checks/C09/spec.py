# C09 — JitAllocator bookkeeping (inductive step)
UNITS = [
    # the harness #includes asmjit/core/jitallocator.cpp (file-local classes); VirtMem and pthread_mutex_* are stubbed in jit_env.h
    Unit('block1', harness=['h_block1.cpp'], repo_units=[]),
]
HARNESSES = [
    Harness('block1', 'h_alloc_w1', unwind=34, bounds='1 block, 64 granules', mem_gb=6, timeout=900),
    Harness('block1', 'h_release_w1', unwind=5, bounds='1 block, 64 granules', mem_gb=6, timeout=900),
]
HARNESSES += [Harness('block1','h_release_imm_w1',unwind=5), Harness('block1','h_release_w2',unwind=5)]
EXPLANATION = 'x'
OUTSIDE = []
ASSUMPTIONS = []
