// STUB (listed in spec.py ASSUMPTIONS): stand-in for asmjit/support/arenatree.h inside the C09/C11 allocator units.
//
// The real ArenaTree stores child links as uintptr_t with the colour in bit 0 and walks them through the untyped base
// class ArenaTreeNode. After clang -O1 every field of a JitAllocatorBlock reached through a tree lookup becomes
// "ArenaTreeNode* + k, cast", for which the solver's points-to analysis has no field precision: each store through
// such a pointer updates every object any block field points to, and the formula does not fit in memory (measured:
// > 8 GB for one release() on one 64-granule block). This model keeps the interface and the contract the allocator
// relies on - an ordered map from address ranges to blocks, searched with the block's own operator< / operator>
// (those stay the real code) - but uses typed child pointers and no balancing. The real red-black algorithms are
// exercised separately with the real header in unit `tree` (h_tree.cpp) and are the subject of property C18.
#pragma once
#define ASMJIT_SUPPORT_ARENATREE_H_INCLUDED
#include <asmjit/support/support.h>

ASMJIT_BEGIN_NAMESPACE

template<typename NodeT>
class ArenaTreeNodeT {
public:
  ASMJIT_NONCOPYABLE(ArenaTreeNodeT)
  // Typed links under the name and shape of the real header ([0] = left, [1] = right; the allocator itself only zeroes
  // them), read and written with CONSTANT indices through the non-inlined accessors below: a link chosen by a symbolic
  // index / address inside a block would again be untyped pointer arithmetic for the solver (clang -O1 turns
  // `c ? n->right : n->left` into one load from a selected address unless the two loads are separate calls).
  NodeT* _tree_nodes[2] {};
  ASMJIT_INLINE_NODEBUG ArenaTreeNodeT() noexcept {}
  ASMJIT_INLINE_NODEBUG bool has_left() const noexcept { return _tree_nodes[0] != nullptr; }
  ASMJIT_INLINE_NODEBUG bool has_right() const noexcept { return _tree_nodes[1] != nullptr; }
  ASMJIT_INLINE_NODEBUG NodeT* left() const noexcept { return _tree_nodes[0]; }
  ASMJIT_INLINE_NODEBUG NodeT* right() const noexcept { return _tree_nodes[1]; }
};

namespace TreeModel {
template<typename NodeT> __attribute__((noinline)) static NodeT* get_left(const NodeT* n) noexcept { return n->_tree_nodes[0]; }
template<typename NodeT> __attribute__((noinline)) static NodeT* get_right(const NodeT* n) noexcept { return n->_tree_nodes[1]; }
template<typename NodeT> __attribute__((noinline)) static void set_left(NodeT* n, NodeT* c) noexcept { n->_tree_nodes[0] = c; }
template<typename NodeT> __attribute__((noinline)) static void set_right(NodeT* n, NodeT* c) noexcept { n->_tree_nodes[1] = c; }
template<typename NodeT> static inline NodeT* child(const NodeT* n, bool right_side) noexcept { if (right_side) return get_right(n); return get_left(n); }
template<typename NodeT> static inline void set_child(NodeT* n, bool right_side, NodeT* c) noexcept { if (right_side) set_right(n, c); else set_left(n, c); }
}

template<typename NodeT>
class ArenaTree {
public:
  ASMJIT_NONCOPYABLE(ArenaTree)
  using Node = NodeT;
  NodeT* _root {};

  ASMJIT_INLINE_NODEBUG ArenaTree() noexcept {}
  ASMJIT_INLINE_NODEBUG void reset() noexcept { _root = nullptr; }
  ASMJIT_INLINE_NODEBUG bool is_empty() const noexcept { return _root == nullptr; }
  ASMJIT_INLINE_NODEBUG NodeT* root() const noexcept { return _root; }

  template<typename CompareT = Support::Compare<Support::SortOrder::kAscending>>
  void insert(NodeT* node, const CompareT& cmp = CompareT()) noexcept {
    ASMJIT_ASSERT(!node->has_left());
    ASMJIT_ASSERT(!node->has_right());
    NodeT* p = _root;
    if (!p) { _root = node; return; }
    for (;;) {
      bool side = cmp(*p, *node) < 0;
      NodeT* c = TreeModel::child(p, side);
      if (!c) { TreeModel::set_child(p, side, node); return; }
      p = c;
    }
  }

  // parent == nullptr: `node` hangs off _root
  ASMJIT_INLINE void _replace(NodeT* parent, bool side, NodeT* with) noexcept {
    if (!parent) _root = with; else TreeModel::set_child(parent, side, with);
  }

  template<typename CompareT = Support::Compare<Support::SortOrder::kAscending>>
  void remove(NodeT* node, const CompareT& cmp = CompareT()) noexcept {
    NodeT* parent = nullptr; bool side = false;
    NodeT* q = _root;
    while (q != node) {
      ASMJIT_ASSERT(q != nullptr);
      parent = q; side = cmp(*q, *node) < 0;
      q = TreeModel::child(q, side);
    }
    NodeT* l = TreeModel::get_left(node);
    NodeT* r = TreeModel::get_right(node);
    if (!l) _replace(parent, side, r);
    else if (!r) _replace(parent, side, l);
    else {
      // two children: the in-order successor (leftmost node of the right subtree) takes the place of `node`
      NodeT* sp = nullptr; NodeT* s = r;
      for (;;) { NodeT* sl = TreeModel::get_left(s); if (!sl) break; sp = s; s = sl; }
      if (sp) { TreeModel::set_left(sp, TreeModel::get_right(s)); TreeModel::set_right(s, r); }
      TreeModel::set_left(s, l);
      _replace(parent, side, s);
    }
    TreeModel::set_left(node, static_cast<NodeT*>(nullptr));
    TreeModel::set_right(node, static_cast<NodeT*>(nullptr));
  }

  template<typename KeyT, typename CompareT = Support::Compare<Support::SortOrder::kAscending>>
  [[nodiscard]]
  inline NodeT* get(const KeyT& key, const CompareT& cmp = CompareT()) const noexcept {
    NodeT* node = _root;
    while (node) {
      auto result = cmp(*node, key);
      if (result == 0) break;
      node = TreeModel::child(node, result < 0);
    }
    return node;
  }
};

ASMJIT_END_NAMESPACE
