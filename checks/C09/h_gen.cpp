// C09 — the constructive pre-state generator (jit_env.h gen_state) reaches EVERY state of I(block): for an arbitrary raw
// state F satisfying I, the seed read off F regenerates F. (The harnesses build pre-states with gen_state + assume(I);
// this shows nothing of I is lost by the construction.)
#include "jit_env.h"
using namespace asmjit;
using namespace jenv;

template<uint32_t W> static void check_gen_complete() {
  constexpr uint32_t A = 64 * W;
  BState<W> f;
  for (uint32_t i = 0; i < W; i++) { f.U[i] = nondet_u64(); f.S[i] = nondet_u64(); }
  f.flags = nondet_u8() & (kFP | kFE | kFD | kFI | kFL | kFM);
  f.area_used = nondet_u8(); f.lua = nondet_u8(); f.ss = nondet_u8(); f.se = nondet_u8();
  V_ASSUME(inv_ok<W>(f));
  Seed<W> z;
  for (uint32_t i = 0; i < W; i++) { z.U[i] = f.U[i]; z.X[i] = f.S[i]; }
  z.flags = f.flags; z.ss = f.ss; z.lua = f.lua; z.se_zero = f.se == 0; z.d1 = 0; z.d2 = 0;
  uint64_t F[W]; f.free_mask(F);
  if (!is_zero_v<W>(F)) { z.d1 = lowest_v<W>(F) - f.ss; z.d2 = f.se - (highest_v<W>(F) + 1); }
  BState<W> g = gen_state<W>(z);
  V_ASSERT(same_bits<W>(f, g), "generator reproduces the bit vectors of any state of I");
  V_ASSERT(f.flags == g.flags && f.area_used == g.area_used, "generator reproduces flags and area_used of any state of I");
  V_ASSERT(f.ss == g.ss && f.se == g.se && f.lua == g.lua, "generator reproduces the search cache of any state of I");
  if (f.flags & kFI) V_WITNESS("gen-incremental"); else V_WITNESS("gen-searching");
  if (f.area_used == A) V_WITNESS("gen-full");
  if (f.flags & kFE) V_WITNESS("gen-empty");
}
HARNESS h_gen_complete_w1() { check_gen_complete<1>(); }
HARNESS h_gen_complete_w2() { check_gen_complete<2>(); }
