// C09 — one block in an arbitrary state satisfying I(block), one public operation, I + post-conditions afterwards.
// W = words per bit vector (area = 64*W granules), G0 = base granularity, PID = pool the block belongs to.
#include "jit_env.h"
using namespace asmjit;
using namespace jenv;

static constexpr uint32_t kOptDual = 0x01, kOptMulti = 0x02, kOptFill = 0x04, kOptImmediate = 0x08, kOptNoPad = 0x10, kOptLarge = 0x20, kOptAlignLarge = 0x40;

template<uint32_t W> struct World {
  JitAllocatorPrivateImpl* im; JitAllocatorPool* pl; JitAllocatorBlock* b;
  BState<W> pre; uint32_t options, G, G0, pid, slot, L;
  size_t alloc_count_pre, used_pre[2];
};

// One block owned by pool PID of an allocator with options OPT (concrete per instantiation: they select code paths; the
// block's own flags - padding, dual mapped, large pages - stay symbolic and are not tied to OPT, a superset of what a
// history produces). No fill here: JIT memory is not touched.
template<uint32_t W, uint32_t G0, uint32_t PID, uint32_t OPT, bool ALLOW_EMPTY_FLAG = true> static World<W> world1() {
  World<W> w;
  constexpr uint32_t options = OPT | (PID ? kOptMulti : 0);
  w.options = options; w.G0 = G0; w.G = G0 << PID; w.pid = PID;
  w.im = make_impl(options, G0, 64 * G0 /* base block size = 64 granules of pool 0 */, (options & kOptMulti) ? 3 : 1, 0xCCCCCCCCu);
  w.pl = pool(PID);
  Seed<W> z = nondet_seed<W>();
  // an empty-flagged block never survives a release under immediate release; harnesses that need a live span in the block
  // exclude the flag up front (I c5: an empty-flagged block has no span), which keeps empty_block_count concrete
  if ((options & kOptImmediate) || !ALLOW_EMPTY_FLAG) z.flags &= ~kFE;
  w.pre = gen_state<W>(z);
  V_ASSUME(inv_ok<W>(w.pre));
  w.b = new_block_object<W>(0);
  store_state<W>(w.b, w.pre);
  w.slot = nondet_u8() & 3;
  place_block<W>(w.b, w.pl, w.slot);
  // pool / impl bookkeeping as insertBlock + the history would have left it
  w.L = (w.pre.flags & kFL) ? 1 : 0;
  w.pl->blocks._nodes[0] = w.b; w.pl->blocks._nodes[1] = w.b; w.pl->cursor = w.b; w.pl->block_count = 1;
  if ((options & kOptImmediate) || !ALLOW_EMPTY_FLAG) w.pl->empty_block_count = 0; else w.pl->empty_block_count = (w.pre.flags & kFE) ? 1 : 0;
  w.pl->total_area_size[0] = w.L ? 0 : 64 * W; w.pl->total_area_size[1] = w.L ? 64 * W : 0;
  w.pl->total_area_used[0] = w.L ? 0 : w.pre.area_used; w.pl->total_area_used[1] = w.L ? w.pre.area_used : 0;
  w.pl->total_overhead_bytes = block_overhead(64 * W);
  w.im->tree._root = w.b;
  w.im->allocation_count = w.pre.stop_count() - w.pre.P();
  w.alloc_count_pre = w.im->allocation_count; w.used_pre[0] = w.pl->total_area_used[0]; w.used_pre[1] = w.pl->total_area_used[1];
  return w;
}

// Pool bookkeeping = recomputation from the (single) block.
template<uint32_t W> static void assert_pool1(const World<W>& w) {
  BState<W> s; snapshot<W>(s, w.b);
  V_ASSERT(w.pl->block_count == 1 && w.pl->blocks.first() == w.b && w.pl->blocks.last() == w.b && w.pl->cursor == w.b, "pool: block list and cursor unchanged");
  V_ASSERT(w.im->tree._root == w.b && w.b->_tree_nodes[0] == nullptr && w.b->_tree_nodes[1] == nullptr, "tree: unchanged");
  V_ASSERT(w.pl->total_area_size[w.L] == 64 * W && w.pl->total_area_size[1 - w.L] == 0, "pool: reserved area = sum over blocks");
  V_ASSERT(w.pl->total_area_used[w.L] == s.area_used && w.pl->total_area_used[1 - w.L] == 0, "pool: used area = popcount of the used bits");
  V_ASSERT(w.pl->empty_block_count == ((s.flags & kFE) ? 1 : 0), "pool: empty_block_count = number of blocks flagged empty");
  V_ASSERT(w.pl->total_overhead_bytes == block_overhead(64 * W), "pool: overhead = sum over blocks");
  V_ASSERT(lock_depth == 0 && lock_count == unlock_count, "lock released on return");
}

static inline uint32_t model_pool_id(uint32_t pool_count, uint32_t g0, size_t size) {
  uint32_t pid = pool_count - 1;
  while (pid && (size % (size_t(g0) << pid)) != 0) pid--;
  return pid;
}

// ---- alloc: every size; the OS refuses new mappings, so the request is served from the block or fails.
// K bounds the fragmentation of the pre-state (number of free runs): the search loop runs once per free run that is too
// small, and the unwinding bound has to cover it.
template<uint32_t W, uint32_t G0, uint32_t PID, uint32_t OPT, uint32_t K> static void check_alloc() {
  World<W> w = world1<W, G0, PID, OPT>();
  constexpr uint32_t A = 64 * W;
  V_ASSUME(w.pre.free_run_count() <= K);
  vm_alloc_fail = true;
  size_t size = nondet_bool() ? size_t(nondet_u16()) : size_t(nondet_u64());
  JitAllocator::Span span; span._rx = arena_rx; span._size = 77;
  Error err = allocator()->alloc(Out(span), size);
  verif_observe(uint64_t(err)); verif_observe(span._size);
  size_t asize = (size + G0 - 1) & ~size_t(G0 - 1);   // wraps to 0 for sizes near 2^64
  BState<W> post; snapshot<W>(post, w.b);
  assert_inv<W>(w.b);
  assert_pool1<W>(w);
  if (asize == 0) {
    V_ASSERT(err == Error::kInvalidArgument, "alloc: size 0 (or wrapping to 0) is an invalid argument");
    V_ASSERT(same_state<W>(w.pre, post) && lock_count == 0, "alloc: invalid size leaves the block untouched and takes no lock");
    V_WITNESS("alloc-zero");
  } else if (asize - 1 >= 0x7FFFFFFFu) {
    V_ASSERT(err == Error::kTooLarge, "alloc: more than 2^31 bytes is too large");
    V_ASSERT(same_state<W>(w.pre, post) && lock_count == 0, "alloc: too large leaves the block untouched and takes no lock");
    V_WITNESS("alloc-too-large");
  } else {
    uint32_t pid = model_pool_id((w.options & kOptMulti) ? 3 : 1, G0, asize);
    uint32_t n = uint32_t((asize + w.G - 1) / w.G);
    if (err == Error::kOk) {
      V_ASSERT(pid == PID, "alloc: served from the pool the size selects");
      V_ASSERT(span._block == w.b && span._size == asize, "alloc: span names the block and the aligned size");
      size_t off = size_t(static_cast<uint8_t*>(span._rx) - w.b->rx_ptr());
      V_ASSERT(span._rx != nullptr && off % w.G == 0, "alloc: rx is non-null and granule aligned");
      V_ASSERT(static_cast<uint8_t*>(span._rw) == w.b->rw_ptr() + off, "alloc: rw view has the same offset as rx");
      uint32_t g = uint32_t(off / w.G);
      V_ASSERT(off / w.G < A && g + n <= A && g >= w.pre.P(), "alloc: span lies inside the block behind the padding");
      V_ASSERT(size_t(n) * w.G >= size && asize >= size, "alloc: at least as large as requested");
      bool was_free = true, bits_ok = true;
      for (uint32_t i = 0; i < W; i++) {
        uint64_t m = rangemask_w(i, g, g + n), st = rangemask_w(i, g + n - 1, g + n);
        was_free = was_free && (w.pre.U[i] & m) == 0;
        bits_ok = bits_ok && post.U[i] == (w.pre.U[i] | m) && post.S[i] == (w.pre.S[i] | st);
      }
      V_ASSERT(was_free, "alloc: every granule handed out was free before");
      V_ASSERT(bits_ok, "alloc: exactly the span granules become used, stop bit at its last granule, nothing else changes");
      V_ASSERT(post.is_span_start(g) && post.span_end(g) == g + n, "alloc: the span is a live span of exactly n granules");
      V_ASSERT(w.im->allocation_count == w.alloc_count_pre + 1, "alloc: one more allocation accounted (one stop bit was set)");
      V_ASSERT(post.area_used == w.pre.area_used + n, "alloc: area_used grows by the number of granules that became used (I c4)");
      V_ASSERT(vm_alloc_calls == 0, "alloc: no new mapping requested when the block has room");
      V_WITNESS("alloc-served");
      if ((w.pre.flags & kFI) == 0) V_WITNESS("alloc-served-by-search");
      if constexpr (W > 1) { if (g + n > 64 && g < 64) V_WITNESS("alloc-crosses-word"); }
    } else {
      V_ASSERT(err == Error::kOutOfMemory, "alloc: refusal of the OS is reported as out of memory");
      V_ASSERT(same_bits<W>(w.pre, post), "alloc: failure leaves the bit vectors untouched");
      V_ASSERT(w.im->allocation_count == w.alloc_count_pre && post.area_used == w.pre.area_used, "alloc: failure accounts nothing");
      V_ASSERT(span._rx == nullptr && span._size == 0 && span._block == nullptr, "alloc: failure returns an empty span");
      // reusability: a new mapping is only requested when no free run of n granules exists in the pool's block
      if (pid == PID) V_ASSERT(!w.pre.has_free_run(n), "alloc: new block only when no free run of the requested length exists");
      else V_ASSERT(same_state<W>(w.pre, post), "alloc: a block of another pool is not touched");
      V_ASSERT(vm_alloc_calls >= 1, "alloc: asked the OS before giving up");
      V_WITNESS("alloc-no-room");
    }
  }
}
HARNESS h_alloc_w1() { check_alloc<1, 64, 0, 0, 2>(); }
HARNESS h_alloc_w2() { check_alloc<2, 64, 0, 0, 2>(); }

// Known findings (see /verif/known_findings.jsonl). MODE 0: main harness, the finding's input region is excluded while the
// entry is open; MODE 1 / 2: companion harness confined to the region of C09A / C09B.
//  C09A: a block that was full once keeps search_end = 0 while incremental; the first release/shrink that leaves incremental
//        mode then computes the window from that stale value and the free tail [search_start, area) falls outside it.
//  C09B: a block emptied by a release at the incremental frontier is not flagged empty (never unmapped / not counted).
template<int MODE> static inline void kf_region(bool in_c09a, bool in_c09b) {
  if (MODE == 1) V_ASSUME(in_c09a && !in_c09b);
  else if (MODE == 2) V_ASSUME(in_c09b && !in_c09a);
  else {
#if KF_C09A
    V_ASSUME(!in_c09a);
#endif
#if KF_C09B
    V_ASSUME(!in_c09b);
#endif
  }
}

// ---- release of a live span (rx anywhere inside its first granule)
template<uint32_t W, uint32_t G0, uint32_t PID, uint32_t OPT, int MODE = 0> static void check_release() {
  World<W> w = world1<W, G0, PID, OPT, false>();
  constexpr uint32_t A = 64 * W;
  uint32_t g = nondet_u8(); V_ASSUME(w.pre.is_span_start(g));
  uint32_t e = w.pre.span_end(g), n = e - g;
  bool frontier = (w.pre.flags & kFI) && w.pre.ss == e;
  bool emptied = w.pre.area_used - n == w.pre.P();
  kf_region<MODE>((w.pre.flags & kFI) && w.pre.se != A && !frontier && w.pre.ss < A, frontier && emptied);
  uint8_t* rx = w.b->rx_ptr() + size_t(g) * w.G + (nondet_u16() % w.G);
  void* brx = w.b->_mapping.rx; void* brw = w.b->_mapping.rw; size_t bsz = w.b->_block_size;
  Error err = allocator()->release(rx);
  verif_observe(uint64_t(err));
  V_ASSERT(err == Error::kOk, "release: a live span is released");
  V_ASSERT(lock_depth == 0 && lock_count == 1 && unlock_count == 1, "release: lock taken once and released");
  V_ASSERT(w.im->allocation_count == w.alloc_count_pre - 1, "release: one allocation less accounted");
  if (vm_release_calls == 0) {
    BState<W> post; snapshot<W>(post, w.b);
    assert_inv<W>(w.b);
    assert_pool1<W>(w);
    bool bits_ok = true;
    for (uint32_t i = 0; i < W; i++) {
      uint64_t m = rangemask_w(i, g, e), st = rangemask_w(i, e - 1, e);
      bits_ok = bits_ok && post.U[i] == (w.pre.U[i] & ~m) && post.S[i] == (w.pre.S[i] & ~st);
    }
    V_ASSERT(bits_ok, "release: exactly the span granules become free, its stop bit is cleared, nothing else changes");
    V_ASSERT(post.area_used == w.pre.area_used - n, "release: area_used shrinks by the number of granules freed (I c4)");
    V_ASSERT(post.has_free_run(n), "release: the freed run is free");
    V_ASSERT(!emptied || (post.flags & kFE), "release: a block that became empty is flagged empty");
    V_ASSERT(!(emptied && (w.options & kOptImmediate)), "release: immediate release does not retain an empty block");
    V_WITNESS("release-kept");
    if constexpr (MODE == 2 || (MODE == 0 && (OPT & kOptImmediate) == 0)) { if (emptied) V_WITNESS("release-emptied-kept"); }
    if constexpr (W > 1 && MODE == 0) { if (g < 64 && e > 64) V_WITNESS("release-crosses-word"); }
  } else {
    V_ASSERT(emptied && (w.options & kOptImmediate), "release: the block is only unmapped when it became empty under immediate release");
    V_ASSERT(vm_release_calls == 1 && vm_released_rx == brx && vm_released_rw == brw && vm_released_size == bsz, "release: unmaps exactly the block mapping");
    V_ASSERT(w.im->tree._root == nullptr && w.pl->blocks.first() == nullptr && w.pl->blocks.last() == nullptr && w.pl->cursor == nullptr && w.pl->block_count == 0, "release: deleted block is unlinked from tree, list and cursor");
    V_ASSERT(w.pl->total_area_size[0] == 0 && w.pl->total_area_size[1] == 0 && w.pl->total_area_used[0] == 0 && w.pl->total_area_used[1] == 0 && w.pl->total_overhead_bytes == 0 && w.pl->empty_block_count == 0, "release: deleted block leaves no accounting behind");
    if constexpr ((OPT & kOptImmediate) != 0 && MODE == 0) V_WITNESS("release-deleted");
  }
}
HARNESS h_release_w1() { check_release<1, 64, 0, 0>(); }
HARNESS h_release_w2() { check_release<2, 64, 0, 0>(); }
HARNESS h_release_imm_w1() { check_release<1, 64, 0, kOptImmediate>(); }
HARNESS h_release_kf_C09A() { check_release<1, 64, 0, 0, 1>(); }
HARNESS h_release_kf_C09B() { check_release<1, 64, 0, kOptImmediate, 2>(); }



// ---- shrink(span, new_size), new_size != 0, span.rx = first byte of any granule of the block (live, interior or free)
template<uint32_t W, uint32_t G0, uint32_t PID, uint32_t OPT, int MODE = 0> static void check_shrink() {
  World<W> w = world1<W, G0, PID, OPT>();
  constexpr uint32_t A = 64 * W;
  uint32_t g = nondet_u8(); V_ASSUME(g < A);
  size_t new_size = nondet_bool() ? size_t(nondet_u16()) : size_t(nondet_u64());
  V_ASSUME(new_size != 0);   // shrink(span, 0) is release(span.rx), see h_shrink_zero
#if KF_C09F
  // known finding C09F: byte sizes of 2^38 and more wrap in area_size_from_byte_size
  V_ASSUME(MODE == 3 || new_size <= (size_t(1) << 37));
#endif
  if (MODE == 3) V_ASSUME(new_size > (size_t(1) << 37));
  bool used = w.pre.used(g);
  uint32_t e = used ? w.pre.span_end(g) : 0, prev = e - g;
  uint32_t k = uint32_t((new_size + w.G - 1) / w.G);             // granules kept (meaningful for sizes that do not wrap)
  bool frontier = (w.pre.flags & kFI) && w.pre.ss == e;
  bool shrinks = used && new_size <= size_t(prev) * w.G && k < prev;
  kf_region<(MODE == 3 ? 0 : MODE)>(shrinks && (w.pre.flags & kFI) && w.pre.se != A && !frontier && w.pre.ss < A, false);
  JitAllocator::Span span; span._rx = w.b->rx_ptr() + size_t(g) * w.G; span._rw = w.b->rw_ptr() + size_t(g) * w.G;
  span._size = nondet_u32(); span._block = w.b;
  size_t size_in = span._size;
  Error err = allocator()->shrink(span, new_size);
  verif_observe(uint64_t(err)); verif_observe(span._size);
  BState<W> post; snapshot<W>(post, w.b);
  assert_inv<W>(w.b);
  assert_pool1<W>(w);
  V_ASSERT(w.im->allocation_count == w.alloc_count_pre, "shrink: number of allocations unchanged");
  V_ASSERT(lock_count == 1, "shrink: lock taken exactly once");
  if (!used) {
    V_ASSERT(err == Error::kInvalidArgument, "shrink: a span whose first granule is free (stale) is refused");
    V_ASSERT(same_state<W>(w.pre, post) && span._size == size_in, "shrink: refusal changes nothing");
    if constexpr (MODE == 0) V_WITNESS("shrink-stale-refused");
  } else if (new_size > size_t(prev) * w.G) {
    V_ASSERT(err == Error::kInvalidArgument, "shrink: growing is refused");
    V_ASSERT(same_state<W>(w.pre, post) && span._size == size_in, "shrink: refusal changes nothing");
    if constexpr (MODE == 0) V_WITNESS("shrink-grow-refused"); if constexpr (MODE == 3) V_WITNESS("shrink-huge-size");
  } else {
    V_ASSERT(err == Error::kOk, "shrink: accepted");
    if (k == prev) {
      V_ASSERT(same_state<W>(w.pre, post) && span._size == size_in, "shrink: same number of granules changes nothing");
      if constexpr (MODE == 0) V_WITNESS("shrink-noop");
    } else {
      bool bits_ok = true;
      for (uint32_t i = 0; i < W; i++) {
        uint64_t m = rangemask_w(i, g + k, e), old_stop = rangemask_w(i, e - 1, e), new_stop = rangemask_w(i, g + k - 1, g + k);
        bits_ok = bits_ok && post.U[i] == (w.pre.U[i] & ~m) && post.S[i] == ((w.pre.S[i] & ~old_stop) | new_stop);
      }
      V_ASSERT(bits_ok, "shrink: exactly the tail granules become free and the stop bit moves to the new last granule");
      V_ASSERT(post.area_used == w.pre.area_used - (prev - k), "shrink: area_used shrinks by the number of granules freed (I c4)");
      V_ASSERT(span._size == size_t(k) * w.G && span._rx == w.b->rx_ptr() + size_t(g) * w.G, "shrink: span keeps its start and reports the new size");
      V_ASSERT(post.has_free_run(prev - k), "shrink: the freed tail is free");
      if constexpr (MODE != 3) V_WITNESS("shrink-shrunk");
      if constexpr (W > 1) { if (g + k < 64 && e > 64) V_WITNESS("shrink-crosses-word"); }
    }
  }
}
HARNESS h_shrink_w1() { check_shrink<1, 64, 0, 0>(); }
HARNESS h_shrink_w2() { check_shrink<2, 64, 0, 0>(); }
HARNESS h_shrink_kf_C09A() { check_shrink<1, 64, 0, 0, 1>(); }
HARNESS h_shrink_kf_C09F() { check_shrink<1, 64, 0, 0, 3>(); }

// ---- query(rx), rx anywhere in the arena (inside the block: live, interior, free; outside: foreign)
template<uint32_t W, uint32_t G0, uint32_t PID, uint32_t OPT> static void check_query() {
  World<W> w = world1<W, G0, PID, OPT>();
  constexpr uint32_t A = 64 * W;
  size_t bs = size_t(A) * w.G;
  size_t off = nondet_u32() & 0x3FFFF;                    // the 4 slots (at most 4 x 64 KiB at granularity 512) and beyond
  uint8_t* rx = arena_at(arena_rx, off);
  size_t boff = size_t(w.slot) * bs;
  JitAllocator::Span span; span._rx = arena_rx; span._size = 77; span._block = w.b;
  Error err = allocator()->query(Out(span), rx);
  verif_observe(uint64_t(err)); verif_observe(span._size);
  BState<W> post; snapshot<W>(post, w.b);
  V_ASSERT(same_state<W>(w.pre, post), "query: never changes the block");
  assert_pool1<W>(w);
  V_ASSERT(w.im->allocation_count == w.alloc_count_pre && lock_count == 1, "query: accounts nothing, lock taken once");
  if (off < boff || off >= boff + bs) {
    V_ASSERT(err == Error::kInvalidArgument && span._rx == nullptr && span._size == 0 && span._block == nullptr, "query: a foreign pointer is refused with an empty span");
    V_WITNESS("query-foreign");
    if (off == boff + bs) V_WITNESS("query-one-past-the-block");
  } else {
    uint32_t g = uint32_t((off - boff) / w.G);
    if (!w.pre.used(g)) {
      V_ASSERT(err == Error::kInvalidArgument && span._rx == nullptr && span._size == 0, "query: a pointer into free memory is refused");
      V_WITNESS("query-free");
    } else {
      uint32_t e = w.pre.span_end(g);
      V_ASSERT(err == Error::kOk && span._block == w.b, "query: a pointer into used memory is answered");
      V_ASSERT(span._rx == w.b->rx_ptr() + size_t(g) * w.G && span._rw == w.b->rw_ptr() + size_t(g) * w.G, "query: span starts at the granule of rx in both views");
      V_ASSERT(span._size == size_t(e - g) * w.G && e <= A, "query: span ends where the live span ends");
      if (w.pre.is_span_start(g)) V_WITNESS("query-span-start"); else V_WITNESS("query-interior-or-padding");
    }
  }
}
HARNESS h_query_w1() { check_query<1, 64, 0, 0>(); }
HARNESS h_query_w2() { check_query<2, 64, 0, kOptDual>(); }

// ---- pointers the allocator must reject, and the uninitialised allocator
HARNESS h_reject() {
  World<1> w = world1<1, 64, 0, 0>();
  size_t bs = 64 * 64, boff = size_t(w.slot) * bs;
  uint32_t which = nondet_u8() & 3;
  Error err;
  if (which == 0) {
    err = allocator()->release(nullptr);
    V_ASSERT(err == Error::kInvalidArgument && lock_count == 0, "release(null) is an invalid argument");
    V_WITNESS("release-null");
  } else if (which == 1) {
    size_t off = nondet_u32() & 0xFFFF; V_ASSUME(off < boff || off >= boff + bs);
    err = allocator()->release(arena_at(arena_rx, off));
    V_ASSERT(err == Error::kInvalidState, "release of a foreign pointer is refused");
    V_WITNESS("release-foreign");
  } else if (which == 2) {
    JitAllocator::Span span; span._rx = nullptr; span._block = w.b; span._size = 64;
    err = allocator()->shrink(span, 1 + nondet_u16());
    V_ASSERT(err == Error::kInvalidArgument && lock_count == 0, "shrink of a null span is refused");
    V_WITNESS("shrink-null");
  } else {
    JitAllocator::Span span; span._rx = w.b->rx_ptr(); span._block = nullptr; span._size = 64;
    err = allocator()->shrink(span, 1 + nondet_u16());
    V_ASSERT(err == Error::kInvalidArgument, "shrink of a span without block is refused");
    V_WITNESS("shrink-no-block");
  }
  BState<1> post; snapshot<1>(post, w.b);
  V_ASSERT(same_state<1>(w.pre, post) && w.im->allocation_count == w.alloc_count_pre, "rejected call changes nothing");
  assert_pool1<1>(w);
}

// JitAllocator whose construction failed: every entry reports kNotInitialized (and touches nothing).
HARNESS h_not_initialized() {
  env_reset();
  allocator()->_impl = const_cast<JitAllocator::Impl*>(&JitAllocatorImpl_none);
  JitAllocator::Span span;
  uint32_t which = nondet_u8() & 3;
  if (which == 0) { V_ASSERT(allocator()->alloc(Out(span), 1 + nondet_u16()) == Error::kNotInitialized && span._rx == nullptr, "uninitialised: alloc refused"); }
  else if (which == 1) { V_ASSERT(allocator()->release(arena_rx) == Error::kNotInitialized, "uninitialised: release refused"); }
  else if (which == 2) { span._rx = arena_rx; span._block = arena_rx; V_ASSERT(allocator()->shrink(span, 1) == Error::kNotInitialized, "uninitialised: shrink refused"); }
  else { V_ASSERT(allocator()->query(Out(span), arena_rx) == Error::kNotInitialized && span._rx == nullptr, "uninitialised: query refused"); }
  JitAllocator::Statistics st = allocator()->statistics();
  V_ASSERT(st.block_count() == 0 && st.allocation_count() == 0 && st.used_size() == 0 && st.reserved_size() == 0 && st.overhead_size() == 0, "uninitialised: statistics are zero");
  allocator()->reset(ResetPolicy::kHard);
  V_ASSERT(lock_count == 0, "uninitialised: no lock taken");
#if !KF_C09C
  V_ASSERT(!allocator()->is_initialized(), "uninitialised allocator reports not initialised");
#endif
  V_WITNESS("not-initialised");
}

// ---- statistics() = recomputation from the bit vectors; is_initialized()
HARNESS h_statistics() {
  World<2> w = world1<2, 64, 0, 0>();
  JitAllocator::Statistics st = allocator()->statistics();
  verif_observe(st.used_size()); verif_observe(st.allocation_count());
  V_ASSERT(st.block_count() == 1 && st.reserved_size() == size_t(128) * 64, "statistics: blocks and reserved bytes");
  V_ASSERT(st.used_size() == size_t(popcount_v<2>(w.pre.U)) * 64, "statistics: used bytes = used granules times granularity");
  V_ASSERT(st.allocation_count() == w.pre.stop_count() - w.pre.P(), "statistics: allocation count = live spans");
  V_ASSERT(st.overhead_size() == block_overhead(128), "statistics: overhead");
  V_ASSERT(lock_count == 1 && lock_depth == 0, "statistics: lock taken once and released");
  BState<2> post; snapshot<2>(post, w.b);
  V_ASSERT(same_state<2>(w.pre, post), "statistics: changes nothing");
#if !KF_C09C
  V_ASSERT(allocator()->is_initialized(), "working allocator reports initialised");
#endif
  V_WITNESS("statistics");
}
// known finding C09C: is_initialized() is inverted (block_size == 0 is the NOT initialised state)
HARNESS h_initialized_kf_C09C() {
  bool real = nondet_bool();
  if (real) { World<1> w = world1<1, 64, 0, 0>(); (void)w; }
  else { env_reset(); allocator()->_impl = const_cast<JitAllocator::Impl*>(&JitAllocatorImpl_none); }
  V_ASSERT(allocator()->is_initialized() == real, "is_initialized is true exactly for a constructed allocator");
  V_WITNESS("is-initialized");
}
