// C09 — one block in an arbitrary state satisfying I(block), one public operation, I + post-conditions afterwards.
// W = words per bit vector (area = 64*W granules), G0 = base granularity, PID = pool the block belongs to.
#include "jit_env.h"
using namespace asmjit;
using namespace jenv;

static constexpr uint32_t kOptDual = 0x01, kOptMulti = 0x02, kOptFill = 0x04, kOptImmediate = 0x08, kOptNoPad = 0x10, kOptLarge = 0x20, kOptAlignLarge = 0x40;

template<uint32_t W> struct World {
  JitAllocatorPrivateImpl* im; JitAllocatorPool* pl; JitAllocatorBlock* b;
  BState<W> pre; uint32_t options, G, G0, pid, slot, L;
  size_t alloc_count_pre, used_pre[2];
};

// One block owned by pool PID of an allocator with options OPT (concrete per instantiation: they select code paths; the
// block's own flags - padding, dual mapped, large pages - stay symbolic and are not tied to OPT, a superset of what a
// history produces). No fill here: JIT memory is not touched.
template<uint32_t W, uint32_t G0, uint32_t PID, uint32_t OPT, bool ALLOW_EMPTY_FLAG = true> static World<W> world1() {
  World<W> w;
  constexpr uint32_t options = OPT | (PID ? kOptMulti : 0);
  w.options = options; w.G0 = G0; w.G = G0 << PID; w.pid = PID;
  w.im = make_impl(options, G0, 64 * G0 /* base block size = 64 granules of pool 0 */, (options & kOptMulti) ? 3 : 1, 0xCCCCCCCCu);
  w.pl = pool(PID);
  Seed<W> z = nondet_seed<W>();
  // an empty-flagged block never survives a release under immediate release; harnesses that need a live span in the block
  // exclude the flag up front (I c5: an empty-flagged block has no span), which keeps empty_block_count concrete
  if ((options & kOptImmediate) || !ALLOW_EMPTY_FLAG) z.flags &= ~kFE;
  w.pre = gen_state<W>(z);
  V_ASSUME(inv_ok<W>(w.pre));
  w.b = new_block_object<W>(0);
  store_state<W>(w.b, w.pre);
  w.slot = nondet_u8() & 3;
  place_block<W>(w.b, w.pl, w.slot);
  // pool / impl bookkeeping as insertBlock + the history would have left it
  w.L = (w.pre.flags & kFL) ? 1 : 0;
  w.pl->blocks._nodes[0] = w.b; w.pl->blocks._nodes[1] = w.b; w.pl->cursor = w.b; w.pl->block_count = 1;
  if ((options & kOptImmediate) || !ALLOW_EMPTY_FLAG) w.pl->empty_block_count = 0; else w.pl->empty_block_count = (w.pre.flags & kFE) ? 1 : 0;
  w.pl->total_area_size[0] = w.L ? 0 : 64 * W; w.pl->total_area_size[1] = w.L ? 64 * W : 0;
  w.pl->total_area_used[0] = w.L ? 0 : w.pre.area_used; w.pl->total_area_used[1] = w.L ? w.pre.area_used : 0;
  w.pl->total_overhead_bytes = block_overhead(64 * W);
  w.im->tree._root = w.b;
  w.im->allocation_count = w.pre.stop_count() - w.pre.P();
  w.alloc_count_pre = w.im->allocation_count; w.used_pre[0] = w.pl->total_area_used[0]; w.used_pre[1] = w.pl->total_area_used[1];
  return w;
}

// Pool bookkeeping = recomputation from the (single) block.
template<uint32_t W> static void assert_pool1(const World<W>& w) {
  BState<W> s; snapshot<W>(s, w.b);
  V_ASSERT(w.pl->block_count == 1 && w.pl->blocks.first() == w.b && w.pl->blocks.last() == w.b && w.pl->cursor == w.b, "pool: block list and cursor unchanged");
  V_ASSERT(w.im->tree._root == w.b && w.b->_tree_left == nullptr && w.b->_tree_right == nullptr, "tree: unchanged");
  V_ASSERT(w.pl->total_area_size[w.L] == 64 * W && w.pl->total_area_size[1 - w.L] == 0, "pool: reserved area = sum over blocks");
  V_ASSERT(w.pl->total_area_used[w.L] == s.area_used && w.pl->total_area_used[1 - w.L] == 0, "pool: used area = popcount of the used bits");
  V_ASSERT(w.pl->empty_block_count == ((s.flags & kFE) ? 1 : 0), "pool: empty_block_count = number of blocks flagged empty");
  V_ASSERT(w.pl->total_overhead_bytes == block_overhead(64 * W), "pool: overhead = sum over blocks");
  V_ASSERT(lock_depth == 0 && lock_count == unlock_count, "lock released on return");
}

static inline uint32_t model_pool_id(uint32_t pool_count, uint32_t g0, size_t size) {
  uint32_t pid = pool_count - 1;
  while (pid && (size % (size_t(g0) << pid)) != 0) pid--;
  return pid;
}

// ---- alloc: every size; the OS refuses new mappings, so the request is served from the block or fails.
template<uint32_t W, uint32_t G0, uint32_t PID, uint32_t OPT> static void check_alloc() {
  World<W> w = world1<W, G0, PID, OPT>();
  constexpr uint32_t A = 64 * W;
  vm_alloc_fail = true;
  size_t size = nondet_bool() ? size_t(nondet_u16()) : size_t(nondet_u64());
  JitAllocator::Span span; span._rx = arena_rx; span._size = 77;
  Error err = allocator()->alloc(Out(span), size);
  verif_observe(uint64_t(err)); verif_observe(span._size);
  size_t asize = (size + G0 - 1) & ~size_t(G0 - 1);   // wraps to 0 for sizes near 2^64
  BState<W> post; snapshot<W>(post, w.b);
  assert_inv<W>(w.b);
  assert_pool1<W>(w);
  if (asize == 0) {
    V_ASSERT(err == Error::kInvalidArgument, "alloc: size 0 (or wrapping to 0) is an invalid argument");
    V_ASSERT(same_state<W>(w.pre, post) && lock_count == 0, "alloc: invalid size leaves the block untouched and takes no lock");
    V_WITNESS("alloc-zero");
  } else if (asize - 1 >= 0x7FFFFFFFu) {
    V_ASSERT(err == Error::kTooLarge, "alloc: more than 2^31 bytes is too large");
    V_ASSERT(same_state<W>(w.pre, post) && lock_count == 0, "alloc: too large leaves the block untouched and takes no lock");
    V_WITNESS("alloc-too-large");
  } else {
    uint32_t pid = model_pool_id((w.options & kOptMulti) ? 3 : 1, G0, asize);
    uint32_t n = uint32_t((asize + w.G - 1) / w.G);
    if (err == Error::kOk) {
      V_ASSERT(pid == PID, "alloc: served from the pool the size selects");
      V_ASSERT(span._block == w.b && span._size == asize, "alloc: span names the block and the aligned size");
      size_t off = size_t(static_cast<uint8_t*>(span._rx) - w.b->rx_ptr());
      V_ASSERT(span._rx != nullptr && off % w.G == 0, "alloc: rx is non-null and granule aligned");
      V_ASSERT(static_cast<uint8_t*>(span._rw) == w.b->rw_ptr() + off, "alloc: rw view has the same offset as rx");
      uint32_t g = uint32_t(off / w.G);
      V_ASSERT(off / w.G < A && g + n <= A && g >= w.pre.P(), "alloc: span lies inside the block behind the padding");
      V_ASSERT(size_t(n) * w.G >= size && asize >= size, "alloc: at least as large as requested");
      bool was_free = true, bits_ok = true;
      for (uint32_t i = 0; i < W; i++) {
        uint64_t m = rangemask_w(i, g, g + n), st = rangemask_w(i, g + n - 1, g + n);
        was_free = was_free && (w.pre.U[i] & m) == 0;
        bits_ok = bits_ok && post.U[i] == (w.pre.U[i] | m) && post.S[i] == (w.pre.S[i] | st);
      }
      V_ASSERT(was_free, "alloc: every granule handed out was free before");
      V_ASSERT(bits_ok, "alloc: exactly the span granules become used, stop bit at its last granule, nothing else changes");
      V_ASSERT(post.is_span_start(g) && post.span_end(g) == g + n, "alloc: the span is a live span of exactly n granules");
      V_ASSERT(w.im->allocation_count == w.alloc_count_pre + 1, "alloc: one more allocation accounted (one stop bit was set)");
      V_ASSERT(post.area_used == w.pre.area_used + n, "alloc: area_used grows by the number of granules that became used (I c4)");
      V_ASSERT(vm_alloc_calls == 0, "alloc: no new mapping requested when the block has room");
      V_WITNESS("alloc-served");
      if ((w.pre.flags & kFI) == 0) V_WITNESS("alloc-served-by-search");
      if constexpr (W > 1) { if (g + n > 64 && g < 64) V_WITNESS("alloc-crosses-word"); }
    } else {
      V_ASSERT(err == Error::kOutOfMemory, "alloc: refusal of the OS is reported as out of memory");
      V_ASSERT(same_bits<W>(w.pre, post), "alloc: failure leaves the bit vectors untouched");
      V_ASSERT(w.im->allocation_count == w.alloc_count_pre && post.area_used == w.pre.area_used, "alloc: failure accounts nothing");
      V_ASSERT(span._rx == nullptr && span._size == 0 && span._block == nullptr, "alloc: failure returns an empty span");
      // reusability: a new mapping is only requested when no free run of n granules exists in the pool's block
      if (pid == PID) V_ASSERT(!w.pre.has_free_run(n), "alloc: new block only when no free run of the requested length exists");
      else V_ASSERT(same_state<W>(w.pre, post), "alloc: a block of another pool is not touched");
      V_ASSERT(vm_alloc_calls >= 1, "alloc: asked the OS before giving up");
      V_WITNESS("alloc-no-room");
    }
  }
}
HARNESS h_alloc_w1() { check_alloc<1, 64, 0, 0>(); }
HARNESS h_alloc_w2() { check_alloc<2, 64, 0, 0>(); }

// ---- release of a live span (rx anywhere inside its first granule)
template<uint32_t W, uint32_t G0, uint32_t PID, uint32_t OPT> static void check_release() {
  World<W> w = world1<W, G0, PID, OPT, false>();
  constexpr uint32_t A = 64 * W;
  uint32_t g = nondet_u8(); V_ASSUME(w.pre.is_span_start(g));
  uint32_t e = w.pre.span_end(g), n = e - g;
  bool frontier = (w.pre.flags & kFI) && w.pre.ss == e;
#if KF_J1
  // known finding J1: leaving incremental mode with a stale search_end (block was full once) loses the free tail
  V_ASSUME(!((w.pre.flags & kFI) && w.pre.se != A && !frontier && w.pre.ss < A));
#endif
#if KF_J2
  // known finding J2: a block emptied through the incremental-frontier path is not flagged empty
  V_ASSUME(!(frontier && w.pre.area_used - n == w.pre.P()));
#endif
  uint8_t* rx = w.b->rx_ptr() + size_t(g) * w.G + (nondet_u16() % w.G);
  void* brx = w.b->_mapping.rx; void* brw = w.b->_mapping.rw; size_t bsz = w.b->_block_size;
  Error err = allocator()->release(rx);
  verif_observe(uint64_t(err));
  V_ASSERT(err == Error::kOk, "release: a live span is released");
  V_ASSERT(lock_depth == 0 && lock_count == 1 && unlock_count == 1, "release: lock taken once and released");
  V_ASSERT(w.im->allocation_count == w.alloc_count_pre - 1, "release: one allocation less accounted");
  bool emptied = w.pre.area_used - n == w.pre.P();
  if (vm_release_calls == 0) {
    BState<W> post; snapshot<W>(post, w.b);
    assert_inv<W>(w.b);
    assert_pool1<W>(w);
    bool bits_ok = true;
    for (uint32_t i = 0; i < W; i++) {
      uint64_t m = rangemask_w(i, g, e), st = rangemask_w(i, e - 1, e);
      bits_ok = bits_ok && post.U[i] == (w.pre.U[i] & ~m) && post.S[i] == (w.pre.S[i] & ~st);
    }
    V_ASSERT(bits_ok, "release: exactly the span granules become free, its stop bit is cleared, nothing else changes");
    V_ASSERT(post.area_used == w.pre.area_used - n, "release: area_used shrinks by the number of granules freed (I c4)");
    V_ASSERT(post.has_free_run(n), "release: the freed run is free");
    V_ASSERT(!emptied || (post.flags & kFE), "release: a block that became empty is flagged empty");
    V_ASSERT(!(emptied && (w.options & kOptImmediate)), "release: immediate release does not retain an empty block");
    V_WITNESS("release-kept");
    if (emptied) V_WITNESS("release-emptied-kept");
    if constexpr (W > 1) { if (g < 64 && e > 64) V_WITNESS("release-crosses-word"); }
  } else {
    V_ASSERT(emptied && (w.options & kOptImmediate), "release: the block is only unmapped when it became empty under immediate release");
    V_ASSERT(vm_release_calls == 1 && vm_released_rx == brx && vm_released_rw == brw && vm_released_size == bsz, "release: unmaps exactly the block mapping");
    V_ASSERT(w.im->tree._root == nullptr && w.pl->blocks.first() == nullptr && w.pl->blocks.last() == nullptr && w.pl->cursor == nullptr && w.pl->block_count == 0, "release: deleted block is unlinked from tree, list and cursor");
    V_ASSERT(w.pl->total_area_size[0] == 0 && w.pl->total_area_size[1] == 0 && w.pl->total_area_used[0] == 0 && w.pl->total_area_used[1] == 0 && w.pl->total_overhead_bytes == 0 && w.pl->empty_block_count == 0, "release: deleted block leaves no accounting behind");
    if constexpr ((OPT & kOptImmediate) != 0) V_WITNESS("release-deleted");
  }
}
HARNESS h_release_w1() { check_release<1, 64, 0, 0>(); }
HARNESS h_release_w2() { check_release<2, 64, 0, 0>(); }
HARNESS h_release_imm_w1() { check_release<1, 64, 0, kOptImmediate>(); }

