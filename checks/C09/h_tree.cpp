// C09 — the REAL ArenaTree (asmjit/support/arenatree.h, red-black, links stored as tagged integers) as the allocator uses
// it: keyed by address ranges, looked up by an address inside a range. One or two nodes (three did not fit in 6 GB) with symbolic disjoint
// ranges; insert in either address order, look up any address, remove any node, look up again. (The allocator units use
// tree_model.h instead of this header, see there; this unit is what ties the model's contract to the real code.)
#include "verif.h"
#include <asmjit/core.h>
#include <asmjit/support/arenatree.h>
using namespace asmjit;

struct Node : public ArenaTreeNodeT<Node> {
  uint32_t base, size;
  bool operator<(const Node& o) const noexcept { return base < o.base; }
  bool operator>(const Node& o) const noexcept { return base > o.base; }
  bool operator<(const uint32_t& key) const noexcept { return base + size <= key; }
  bool operator>(const uint32_t& key) const noexcept { return base > key; }
};
static Node nodes[2];

HARNESS h_tree_real() {
  ArenaTree<Node> tree;
  for (uint32_t i = 0; i < 2; i++) { nodes[i]._tree_nodes[0] = 0; nodes[i]._tree_nodes[1] = 0; nodes[i].base = uint32_t(nondet_u8()) * 16; nodes[i].size = 16; }
  V_ASSUME(nodes[0].base != nodes[1].base);
  uint32_t count = 1 + (nondet_u8() & 1);
  tree.insert(&nodes[0]); if (count == 2) tree.insert(&nodes[1]);
  uint32_t key = nondet_u16() & 0x1FFF;
  Node* hit = tree.get(key);
  Node* want = nullptr;
  for (uint32_t i = 0; i < 2; i++) if (i < count && key >= nodes[i].base && key < nodes[i].base + nodes[i].size) want = &nodes[i];
  V_ASSERT(hit == want, "real tree: get(address) returns the node whose range contains it, null otherwise");
  uint32_t r = nondet_u8() & 1; V_ASSUME(r < count);
  tree.remove(&nodes[r]);
  Node* hit2 = tree.get(key);
  V_ASSERT(hit2 == (want == &nodes[r] ? nullptr : want), "real tree: after remove the node is gone and every other node is still found");
  if (count == 1) V_ASSERT(tree._root == nullptr, "real tree: removing the only node empties the tree");
  if (want) V_WITNESS("tree-hit"); else V_WITNESS("tree-miss");
  if (count == 2) V_WITNESS("tree-two-nodes");
}
