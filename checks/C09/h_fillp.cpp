// C09 — fill pattern and span addresses in the coarser pools of a multi-pool allocator: the memory given back by
// release() / shrink() carries the pattern, every other byte of the mapping - in particular the live spans around it -
// keeps its contents. In pool #0 (unit fill) impl->granularity and pool->granularity coincide, so a byte offset computed
// with the wrong one goes unnoticed; in pool #1 / #2 it lands in a neighbouring span or misses the released memory.
// Same scheme as h_fill.cpp (block bookkeeping in ANY state of I, one symbolic probe byte), with the granularities scaled
// down to base 4 / pool #1 = 8 / pool #2 = 16 bytes: the byte fill of a span is then a handful of stores and the first
// 256 bytes of the mapping (the solver's window of real memory) hold 32 / 16 granules. The address arithmetic is linear
// in the granularity; with the real values (64 / 128 / 256, no memory) it is covered by unit block1p.
#define JENV_POOLS 3
#include "jit_env.h"
using namespace asmjit;
using namespace jenv;

static constexpr uint32_t kOptDual = 0x01, kOptMulti = 0x02, kOptFill = 0x04;
static constexpr uint32_t G0 = 4, A = 64;
static inline uint8_t pattern_byte(uint32_t pattern, size_t addr_off) { return uint8_t(pattern >> (8 * (addr_off & 3))); }

template<uint32_t PID, bool DUAL, bool SHRINK> static void check_fill_pool() {
  constexpr uint32_t G = G0 << PID, WINDOW_GRANULES = 256 / G;
  uint32_t pattern = nondet_u32();
  JitAllocatorPrivateImpl* im = make_impl(kOptFill | kOptMulti | (DUAL ? kOptDual : 0), G0, 64 * (G0 << 2), 3, pattern);
  JitAllocatorPool* pl = pool(PID);
  Seed<1> z = nondet_seed<1>(); z.flags &= ~(kFE | kFL | kFM); if (DUAL) z.flags |= kFM;
  BState<1> pre = gen_state<1>(z); V_ASSUME(inv_ok<1>(pre));
  JitAllocatorBlock* b = new_block_object<1>(0); store_state<1>(b, pre); place_block<1>(b, pl, 0);
  pl->blocks._nodes[0] = b; pl->blocks._nodes[1] = b; pl->cursor = b; pl->block_count = 1;
  pl->total_area_size[0] = A; pl->total_area_used[0] = pre.area_used; pl->total_overhead_bytes = block_overhead(A);
  im->tree._root = b; im->allocation_count = pre.stop_count() - pre.P();
  uint8_t* rw_view = DUAL ? arena_rw : arena_rx; uint8_t* other_view = DUAL ? arena_rx : arena_rw;
  uint32_t probe = nondet_u8(); uint8_t before = nondet_u8();
  rw_view[probe] = before; other_view[probe] = uint8_t(~before);
  uint32_t g = nondet_u8() & (WINDOW_GRANULES - 1); V_ASSUME(pre.is_span_start(g));
  uint32_t e = pre.span_end(g); V_ASSUME(e <= WINDOW_GRANULES);
  uint32_t keep = SHRINK ? 1 + (nondet_u8() & 1) : 0;
  V_ASSUME(e - g <= keep + 2 && keep <= e - g);
  Error err;
  JitAllocator::Span span; span._rx = b->rx_ptr() + size_t(g) * G; span._rw = b->rw_ptr() + size_t(g) * G; span._size = size_t(e - g) * G; span._block = b;
  if (SHRINK) err = allocator()->shrink(span, size_t(keep) * G - (nondet_u8() & (G - 1)));
  else err = allocator()->release(span._rx);
  verif_observe(uint64_t(err));
  V_ASSERT(err == Error::kOk, "pool fill: operation accepted");
  assert_inv<1>(b);
  BState<1> post; snapshot<1>(post, b);
  V_ASSERT(post.U[0] == (pre.U[0] & ~rangemask_w(0, g + keep, e)), "pool fill: exactly the granules given back become free");
  size_t lo = size_t(g + keep) * G, hi = size_t(e) * G;
  uint8_t now = rw_view[probe]; verif_observe(now);
  if (probe >= lo && probe < hi) {
    V_ASSERT(now == pattern_byte(pattern, probe), "pool fill: every byte given back carries the fill pattern (byte offset = area index times POOL granularity)");
    V_WITNESS("pool-fill-byte-freed");
  } else {
    V_ASSERT(now == before, "pool fill: no byte outside the memory given back is written (live spans keep their contents)");
    V_WITNESS("pool-fill-byte-kept");
  }
  V_ASSERT(other_view[probe] == uint8_t(~before), "pool fill: the other view is not written");
  V_ASSERT(rw_depth == 0, "pool fill: memory is executable again afterwards");
  if (SHRINK && keep < e - g) V_ASSERT(span._size == size_t(keep) * G && span._rx == b->rx_ptr() + size_t(g) * G, "pool fill: shrunk span keeps its start, size in pool granules");
}
HARNESS h_fill_release_pool1() { check_fill_pool<1, false, false>(); }
HARNESS h_fill_release_pool2_dual() { check_fill_pool<2, true, false>(); }
HARNESS h_fill_shrink_pool2() { check_fill_pool<2, false, true>(); }
HARNESS h_fill_shrink_pool1_dual() { check_fill_pool<1, true, true>(); }
