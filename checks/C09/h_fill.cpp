// C09 — JIT memory contents: fill pattern on released / shrunk-away memory, write() copies exactly the requested
// bytes. One block of 64 granules whose bookkeeping is in any state of I; the spans operated on lie in the first four
// granules of the block, and only those 256 bytes are real memory for the solver (JENV_CBMC_ARENA_BYTES) - an access
// anywhere else in the mapping is an out-of-bounds obligation. (With the whole 4 KiB mapping as a symbolic-indexed array
// no formula fitted in 6 GB.) Memory is checked at ONE symbolic byte offset, which stands for every byte of the window.
#include "jit_env.h"
using namespace asmjit;
using namespace jenv;

static constexpr uint32_t kOptDual = 0x01, kOptFill = 0x04, kOptCustomFill = 0x10000000u;
static constexpr uint32_t G = 64, A = 64; static constexpr size_t BS = size_t(A) * G;

struct FillWorld { JitAllocatorPrivateImpl* im; JitAllocatorPool* pl; JitAllocatorBlock* b; BState<1> pre; uint32_t slot, pattern; size_t probe; uint8_t before; uint8_t* rw_view; uint8_t* other_view; };

template<uint32_t OPT> static FillWorld fill_world() {
  FillWorld w;
  w.pattern = nondet_u32();
  w.im = make_impl(OPT, G, 64 * G, 1, w.pattern); w.pl = pool(0);
  Seed<1> z = nondet_seed<1>(); z.flags &= ~(kFE | kFL | kFM); if (OPT & kOptDual) z.flags |= kFM;
  w.pre = gen_state<1>(z); V_ASSUME(inv_ok<1>(w.pre));
  w.b = new_block_object<1>(0); store_state<1>(w.b, w.pre);
  w.slot = 0; place_block<1>(w.b, w.pl, w.slot);
  w.pl->blocks._nodes[0] = w.b; w.pl->blocks._nodes[1] = w.b; w.pl->cursor = w.b; w.pl->block_count = 1;
  w.pl->total_area_size[0] = A; w.pl->total_area_used[0] = w.pre.area_used; w.pl->total_overhead_bytes = block_overhead(A);
  w.im->tree._root = w.b; w.im->allocation_count = w.pre.stop_count() - w.pre.P();
  w.rw_view = (OPT & kOptDual) ? arena_rw : arena_rx; w.other_view = (OPT & kOptDual) ? arena_rx : arena_rw;
  // one symbolic byte of the writable view, with a symbolic value
  w.probe = nondet_u8(); w.before = nondet_u8();   // a byte of granules 0..3
  w.rw_view[w.probe] = w.before; w.other_view[w.probe] = uint8_t(~w.before);
  return w;
}
static inline uint8_t pattern_byte(uint32_t pattern, size_t addr_off) { return uint8_t(pattern >> (8 * (addr_off & 3))); }

// release / shrink with kFillUnusedMemory: freed bytes carry the pattern, every other byte keeps its value
template<uint32_t OPT, bool SHRINK> static void check_fill() {
  FillWorld w = fill_world<OPT | kOptFill | kOptCustomFill>();
  uint32_t g = nondet_u8() & 3; V_ASSUME(w.pre.is_span_start(g) && w.pre.span_end(g) <= 4);
  uint32_t e = w.pre.span_end(g);
  uint32_t keep = SHRINK ? 1 + (nondet_u8() & 1) : 0;            // granules kept by shrink
  V_ASSUME(e - g <= keep + 2 && keep <= e - g);
  bool frontier = (w.pre.flags & kFI) && w.pre.ss == e;
#if KF_C09A
  V_ASSUME(!((w.pre.flags & kFI) && w.pre.se != A && !frontier && w.pre.ss < A && keep < e - g));
#endif
  size_t boff = size_t(w.slot) * BS;
  Error err;
  if (SHRINK) {
    JitAllocator::Span span; span._rx = w.b->rx_ptr() + size_t(g) * G; span._rw = w.b->rw_ptr() + size_t(g) * G; span._size = size_t(e - g) * G; span._block = w.b;
    size_t new_size = size_t(keep) * G - (nondet_u8() & 63);     // any byte size that needs `keep` granules
    err = allocator()->shrink(span, new_size);
  } else err = allocator()->release(w.b->rx_ptr() + size_t(g) * G);
  verif_observe(uint64_t(err));
  V_ASSERT(err == Error::kOk, "fill: operation accepted");
  size_t lo = boff + size_t(g + keep) * G, hi = boff + size_t(e) * G;   // byte range that became free
  uint8_t now = w.rw_view[w.probe];
  verif_observe(now);
  if (w.probe >= lo && w.probe < hi) {
    V_ASSERT(now == pattern_byte(w.pattern, w.probe), "fill: every byte of the memory that became free carries the fill pattern");
    V_WITNESS("fill-byte-inside");
  } else {
    V_ASSERT(now == w.before, "fill: no byte outside the freed memory is written");
    V_WITNESS("fill-byte-outside");
  }
  V_ASSERT(w.other_view[w.probe] == uint8_t(~w.before), "fill: the other view is not written by the allocator");
  V_ASSERT(rw_depth == 0 && (protect_calls == 2 || (keep == e - g && protect_calls == 0)), "fill: memory is made writable around the fill and executable again afterwards");
  if constexpr (SHRINK) { if (keep == e - g) V_WITNESS("fill-nothing-freed"); }
}
HARNESS h_fill_release() { check_fill<0, false>(); }
HARNESS h_fill_release_dual() { check_fill<kOptDual, false>(); }
HARNESS h_fill_shrink() { check_fill<0, true>(); }

// write(span, offset, src, size): copies exactly [offset, offset + size) into the writable view or refuses
HARNESS h_write() {
  FillWorld w = fill_world<kOptDual>();
  uint32_t g = nondet_u8() & 3, n = 1 + (nondet_u8() & 1); V_ASSUME(g + n <= 4);
  size_t offset = nondet_u8();
  JitAllocator::Span span; span._rx = w.b->rx_ptr() + size_t(g) * G; span._rw = w.b->rw_ptr() + size_t(g) * G; span._size = size_t(n) * G; span._block = w.b;
  if (nondet_bool()) span._flags = JitAllocator::Span::Flags::kInstructionCacheClean;
  static uint8_t src[128];
  size_t size = nondet_bool() ? size_t(nondet_u8() & 31) : size_t(nondet_u64());
  V_ASSUME(size <= 24 || size > 128);   // copies of at most 24 bytes (memcpy loop bound), or sizes no span here can hold
  size_t sidx = nondet_u8() & 127; uint8_t sval = nondet_u8(); src[sidx] = sval;
  uint32_t policy = nondet_u8() & 3; V_ASSUME(policy <= 2);   // the three CachePolicy values
  BState<1> pre; snapshot<1>(pre, w.b);
  Error err = allocator()->write(span, offset, src, size, VirtMem::CachePolicy(policy));
  verif_observe(uint64_t(err));
  BState<1> post; snapshot<1>(post, w.b);
  V_ASSERT(same_state<1>(pre, post) && lock_count == 0, "write: bookkeeping is neither read under the lock nor changed");
  size_t base = size_t(w.slot) * BS + size_t(g) * G;
  uint8_t now = w.rw_view[w.probe];
  bool ok_args = offset <= span._size && size <= span._size - offset;
  if (!ok_args) {
    V_ASSERT(err == Error::kInvalidArgument && now == w.before && protect_calls == 0, "write: a range outside the span is refused and nothing is written");
    V_WITNESS("write-refused");
  } else {
    V_ASSERT(err == Error::kOk, "write: accepted");
    if (w.probe >= base + offset && w.probe < base + offset + size) {
      size_t k = w.probe - (base + offset);
      if (k == sidx) V_ASSERT(now == sval, "write: destination byte equals the source byte");
      V_WITNESS("write-byte-inside");
    } else {
      V_ASSERT(now == w.before, "write: bytes outside the requested range keep their value");
      V_WITNESS("write-byte-outside");
    }
    V_ASSERT(rw_depth == 0 && protect_calls == (size ? 2 : 0), "write: RW scope opened and closed around the copy");
    bool flush = size && (policy == uint32_t(VirtMem::CachePolicy::kFlushAfterWrite) || (policy == uint32_t(VirtMem::CachePolicy::kDefault) && span._flags == JitAllocator::Span::Flags::kNone));
    V_ASSERT(flush_calls == (flush ? 1 : 0), "write: instruction cache flushed according to the policy");
  }
  V_ASSERT(w.other_view[w.probe] == uint8_t(~w.before), "write: the executable view is not written");
}

// write(span, fn): fn truncates the span -> the tail is given back under the same write scope (shrink + fill)
static size_t g_truncate_to;
static Error truncate_fn(JitAllocator::Span& span, void*) noexcept { span.shrink(g_truncate_to); return Error::kOk; }
HARNESS h_write_fn() {
  FillWorld w = fill_world<kOptFill | kOptCustomFill>();
  uint32_t g = nondet_u8() & 3; V_ASSUME(w.pre.is_span_start(g));
  uint32_t e = w.pre.span_end(g); V_ASSUME(e <= 4);
  bool frontier = (w.pre.flags & kFI) && w.pre.ss == e;
  JitAllocator::Span span; span._rx = w.b->rx_ptr() + size_t(g) * G; span._rw = w.b->rw_ptr() + size_t(g) * G; span._size = size_t(e - g) * G; span._block = w.b;
  g_truncate_to = 1 + nondet_u8();                                  // 1..256 bytes
  uint32_t keep = uint32_t((g_truncate_to + G - 1) / G); if (keep > e - g) keep = e - g;
#if KF_C09A
  V_ASSUME(!((w.pre.flags & kFI) && w.pre.se != A && !frontier && w.pre.ss < A && keep < e - g));
#endif
  size_t alloc_pre = w.im->allocation_count;
  Error err = allocator()->write(span, truncate_fn, nullptr, VirtMem::CachePolicy::kNeverFlush);
  verif_observe(uint64_t(err)); verif_observe(span._size);
  V_ASSERT(err == Error::kOk, "write(fn): accepted");
  assert_inv<1>(w.b);
  BState<1> post; snapshot<1>(post, w.b);
  uint64_t m = rangemask_w(0, g + keep, e);
  V_ASSERT(post.U[0] == (w.pre.U[0] & ~m) && w.im->allocation_count == alloc_pre, "write(fn): the truncated tail becomes free, the span stays allocated");
  V_ASSERT(post.area_used == w.pre.area_used - (e - g - keep), "write(fn): area_used shrinks by the freed granules (I c4)");
  V_ASSERT(rw_depth == 0 && lock_depth == 0, "write(fn): write scope closed and lock released");
  size_t boff = size_t(w.slot) * BS, lo = boff + size_t(g + keep) * G, hi = boff + size_t(e) * G;
  uint8_t now = w.rw_view[w.probe];
  if (w.probe >= lo && w.probe < hi) { V_ASSERT(now == pattern_byte(w.pattern, w.probe), "write(fn): the freed tail carries the fill pattern"); V_WITNESS("write-fn-tail-filled"); }
  else { V_ASSERT(now == w.before, "write(fn): nothing else is written"); V_WITNESS("write-fn-byte-outside"); }
  if (keep == e - g) V_WITNESS("write-fn-not-truncated");
}
