// C09 — paths that change the set of blocks: a new block (empty pool / second block), deleting one of two blocks.
// Pool and tree/list bookkeeping = recomputation; the new block satisfies I; the OS is asked for / given back exactly
// the mapping of the block.
#include "jit_env.h"
using namespace asmjit;
using namespace jenv;

static constexpr uint32_t kOptDual = 0x01, kOptMulti = 0x02, kOptFill = 0x04, kOptImmediate = 0x08, kOptNoPad = 0x10, kOptLarge = 0x20, kOptAlignLarge = 0x40;

static inline uint32_t model_pool_id(uint32_t pool_count, uint32_t g0, size_t size) {
  uint32_t pid = pool_count - 1;
  while (pid && (size % (size_t(g0) << pid)) != 0) pid--;
  return pid;
}

// ---- first block of a pool. OPT concrete (selects code paths), size / OS behaviour symbolic.
// Base block size = 64 granules of the coarsest pool (the real minimum, 64 KiB, is 256 granules of it).
// The request size is one of a few concrete values per run (boundaries of the sizing policy): with a symbolic size the
// block size, hence the length and position of the new bit vectors, is symbolic and the formula does not fit in memory
// (42 M variables measured). The sizing policy itself is checked for every size in h_block_size_policy.
template<uint32_t OPT, uint32_t G0, bool LARGE_REFUSED = false> static void check_first_block(size_t size) {
  constexpr uint32_t NPOOL = (OPT & kOptMulti) ? 3 : 1;
  constexpr uint32_t BASE = 64 * (G0 << (NPOOL - 1));
  JitAllocatorPrivateImpl* im = make_impl(OPT, G0, BASE, NPOOL, 0xCCCCCCCCu);
  bool os_refuses = nondet_bool(); constexpr bool large_refused = LARGE_REFUSED;
  vm_large_page_size = (OPT & kOptLarge) ? 2 * BASE : 0;
  vm_alloc_fail = os_refuses;
  vm_fail_first_only = !os_refuses && large_refused && (OPT & kOptLarge) && !(OPT & kOptDual);
  uint32_t slot = nondet_u8() & 3;
  vm_next_rx = arena_at(arena_rx, size_t(slot) * 65536); vm_next_rw = arena_at(arena_rw, size_t(slot) * 65536);
  JitAllocator::Span span;
  Error err = allocator()->alloc(Out(span), size);
  verif_observe(uint64_t(err)); verif_observe(span._size);
  size_t asize = (size + G0 - 1) & ~size_t(G0 - 1);
  uint32_t pid = model_pool_id(NPOOL, G0, asize);
  JitAllocatorPool* pl = pool(pid);
  uint32_t G = G0 << pid;
  uint32_t P = (OPT & kOptNoPad) ? 0 : 1;
  V_ASSERT(lock_depth == 0 && lock_count == 1 && unlock_count == 1, "alloc: lock taken once and released on every path");
  if (os_refuses) {
    V_ASSERT(err == Error::kOutOfMemory && span._rx == nullptr && span._size == 0, "first block: refusal of the OS is reported, empty span");
    V_ASSERT(im->tree._root == nullptr && pl->blocks.first() == nullptr && pl->block_count == 0 && pl->cursor == nullptr && im->allocation_count == 0, "first block: failure leaves the allocator empty");
    V_ASSERT(pl->total_area_size[0] == 0 && pl->total_area_size[1] == 0 && pl->total_area_used[0] == 0 && pl->total_area_used[1] == 0 && pl->total_overhead_bytes == 0, "first block: failure accounts nothing");
    V_WITNESS("first-block-os-refuses");
    return;
  }
  V_ASSERT(err == Error::kOk, "first block: allocation succeeds when the OS provides memory");
  JitAllocatorBlock* b = static_cast<JitAllocatorBlock*>(span._block);
  if (err != Error::kOk || b == nullptr) return;
  V_ASSERT(im->tree._root == b && b->_tree_nodes[0] == nullptr && b->_tree_nodes[1] == nullptr, "first block: is the root of the tree");
  V_ASSERT(pl->blocks.first() == b && pl->blocks.last() == b && pl->cursor == b && pl->block_count == 1 && b->_list_nodes[0] == nullptr && b->_list_nodes[1] == nullptr, "first block: is the only element of the pool list and the cursor");
  V_ASSERT(b->_pool == pl, "first block: belongs to the pool the size selects");
  // sizing policy: twice the base size, or the request (plus padding) rounded up to the base size; large pages round up further
  size_t need = asize + (P ? G : 0);
  size_t ideal = 2 * size_t(BASE); if (need > ideal) ideal = (need + BASE - 1) / BASE * BASE;
  bool large = (OPT & kOptLarge) && !(OPT & kOptDual) && !large_refused && (ideal >= vm_large_page_size || (OPT & kOptAlignLarge));
  size_t bsize = large ? (ideal + vm_large_page_size - 1) / vm_large_page_size * vm_large_page_size : ideal;
  V_ASSERT(b->_block_size == bsize && vm_alloc_size == bsize, "first block: block size follows the sizing policy and is what the OS was asked for");
  V_ASSERT(bsize >= need, "first block: large enough for the request and the padding");
  uint32_t A = uint32_t(bsize / G);
  V_ASSERT(b->_area_size == A && A % 64 == 0, "first block: area is block size over granularity, a whole number of bit words");
  uint32_t want_flags = (P ? kFP : 0) | ((OPT & kOptDual) ? kFM : 0) | (large ? kFL : 0);
  V_ASSERT((b->_flags & (kFP | kFM | kFL)) == want_flags, "first block: padding / dual mapped / large page flags follow the options");
  V_ASSERT(b->_mapping.rx == vm_next_rx && b->_mapping.rw == ((OPT & kOptDual) ? vm_next_rw : vm_next_rx), "first block: maps what the OS returned (two views when dual mapped)");
  uint32_t n = uint32_t((asize + G - 1) / G);
  V_ASSERT(span._rx == b->rx_ptr() + size_t(P) * G && span._rw == b->rw_ptr() + size_t(P) * G && span._size == asize, "first block: span starts behind the padding in both views");
  V_ASSERT(im->allocation_count == 1 && pl->empty_block_count == 0, "first block: one allocation, no empty block");
  uint32_t L = large ? 1 : 0;
  V_ASSERT(pl->total_area_size[L] == A && pl->total_area_size[1 - L] == 0 && pl->total_area_used[L] == P + n && pl->total_area_used[1 - L] == 0 && pl->total_overhead_bytes == block_overhead(A), "first block: pool totals = the block");
  if (A == 128) {
    BState<2> s; snapshot<2>(s, b);
    assert_inv<2>(b);
    bool bits_ok = true;
    for (uint32_t i = 0; i < 2; i++) bits_ok = bits_ok && s.U[i] == (rangemask_w(i, 0, P) | rangemask_w(i, P, P + n)) && s.S[i] == (rangemask_w(i, 0, P) | rangemask_w(i, P + n - 1, P + n));
    V_ASSERT(bits_ok && s.area_used == P + n, "first block: used = padding + span, stop bits at the padding and the span end");
    V_ASSERT((s.flags & kFI) && !(s.flags & kFE), "first block: incremental, not flagged empty");
  }
  V_WITNESS("first-block-created");
  if constexpr ((OPT & kOptLarge) != 0 && !LARGE_REFUSED) { if (large) V_WITNESS("first-block-large-pages"); }
  if constexpr ((OPT & kOptLarge) != 0 && LARGE_REFUSED) V_WITNESS("first-block-large-pages-fallback");
  if constexpr ((OPT & kOptMulti) != 0) { if (pid != 0) V_WITNESS("first-block-coarser-pool"); }
}
template<uint32_t OPT, uint32_t G0, uint32_t PART, bool LR = false> static void first_block_sizes() {
  constexpr size_t two_blocks = 2 * 64 * size_t(G0 << ((OPT & kOptMulti) ? 2 : 0));
  uint32_t c = nondet_u8() & 3;
  if (PART == 0) {
    if (c == 0) check_first_block<OPT, G0, LR>(1);
    else if (c == 1) check_first_block<OPT, G0, LR>(G0 + 1);
    else if (c == 2) check_first_block<OPT, G0, LR>(two_blocks - G0);            // exactly fills the doubled block (with padding)
    else check_first_block<OPT, G0, LR>(two_blocks - G0 + 1);                    // one byte more
  } else {
    if (c == 0) check_first_block<OPT, G0, LR>(G0);
    else if (c == 1) check_first_block<OPT, G0, LR>(2 * G0);                     // multi-pool: second pool
    else if (c == 2) check_first_block<OPT, G0, LR>(12 * G0);                    // multi-pool: third pool
    else check_first_block<OPT, G0, LR>(two_blocks);
  }
}
HARNESS h_first_block() { first_block_sizes<0, 64, 0>(); }
HARNESS h_first_block_b() { first_block_sizes<0, 64, 1>(); }
HARNESS h_first_block_nopad_dual() { first_block_sizes<kOptNoPad | kOptDual, 128, 0>(); }
HARNESS h_first_block_large_refused() { first_block_sizes<kOptLarge | kOptAlignLarge | kOptNoPad, 256, 0, true>(); }
HARNESS h_first_block_large_align() { first_block_sizes<kOptLarge | kOptAlignLarge | kOptNoPad, 256, 0>(); }
HARNESS h_first_block_multipool() { first_block_sizes<kOptMulti, 64, 1>(); }

// JitAllocator_calculate_ideal_block_size for every request size, every last-block size, both padding settings
HARNESS h_block_size_policy() {
  constexpr uint32_t G = 64;
  bool nopad = nondet_bool(); bool has_last = nondet_bool();
  uint32_t base = 65536u << (nondet_u8() & 7);                         // what JitAllocator_new_impl accepts: 64 KiB .. 8 MiB here
  JitAllocatorPrivateImpl* im = make_impl(nopad ? kOptNoPad : 0, G, base, 1, 0);
  JitAllocatorPool* pl = pool(0);
  size_t last_size = size_t(base) << (nondet_u8() & 15);              // block sizes are base * 2^k
  if (has_last) { JitAllocatorBlock* b = new_block_object<1>(0); b->_block_size = last_size; pl->blocks._nodes[0] = b; pl->blocks._nodes[1] = b; }
  size_t size = nondet_u64();
  size_t r = JitAllocator_calculate_ideal_block_size(im, pl, size);
  verif_observe(r);
  size_t pad = nopad ? 0 : G;
  if (size > SIZE_MAX - pad - base) {
    if (r == 0) V_WITNESS("policy-overflow-refused");
    V_ASSERT(r == 0 || r >= size + pad, "block size policy: a request that overflows the computation is refused (0), never wrapped");
  } else {
    size_t prev = has_last ? last_size : size_t(base);
    size_t doubled = prev < (size_t(64) << 20) ? prev * 2 : prev;
    V_ASSERT(r >= size + pad, "block size policy: block holds the request plus the padding");
    V_ASSERT(r % base == 0 && r != 0, "block size policy: block size is a multiple of the base block size");
    V_ASSERT(r == doubled || (size + pad > doubled && r - (size + pad) < base), "block size policy: double the last block, or the request rounded up to the base size");
    if (r == doubled) V_WITNESS("policy-doubled"); else V_WITNESS("policy-request-sized");
  }
}

// ---- two blocks in one pool --------------------------------------------------------------------------------------
template<uint32_t W> struct World2 {
  JitAllocatorPrivateImpl* im; JitAllocatorPool* pl; JitAllocatorBlock* b[2]; BState<W> pre[2];
  uint32_t slot[2]; bool b0_first_in_list, b0_is_root, cursor_b0; size_t alloc_count_pre;
};
// Both blocks arbitrary states of I; list order, tree shape (by address) and cursor symbolic. Large-page flag off (one
// accounting bucket), OPT concrete.
template<uint32_t W, uint32_t OPT, bool B0_HAS_SPAN> static World2<W> world2() {
  World2<W> w; constexpr uint32_t G = 64, A = 64 * W;
  w.im = make_impl(OPT, G, 64 * G, 1, 0xCCCCCCCCu); w.pl = pool(0);
  for (uint32_t k = 0; k < 2; k++) {
    Seed<W> z = nondet_seed<W>(); z.flags &= ~kFL;
    if ((OPT & kOptImmediate) || (k == 0 && B0_HAS_SPAN)) z.flags &= ~kFE;
    w.pre[k] = gen_state<W>(z); V_ASSUME(inv_ok<W>(w.pre[k]));
    w.b[k] = new_block_object<W>(k); store_state<W>(w.b[k], w.pre[k]);
  }
  // policy: at most one block flagged empty
  V_ASSUME(!((w.pre[0].flags & kFE) && (w.pre[1].flags & kFE)));
  w.slot[0] = nondet_u8() & 3; w.slot[1] = nondet_u8() & 3; V_ASSUME(w.slot[0] != w.slot[1]);
  place_block<W>(w.b[0], w.pl, w.slot[0]); place_block<W>(w.b[1], w.pl, w.slot[1]);
  w.b0_first_in_list = nondet_bool(); w.b0_is_root = nondet_bool(); w.cursor_b0 = nondet_bool();
  JitAllocatorBlock* f = w.b0_first_in_list ? w.b[0] : w.b[1]; JitAllocatorBlock* l = w.b0_first_in_list ? w.b[1] : w.b[0];
  w.pl->blocks._nodes[0] = f; w.pl->blocks._nodes[1] = l; f->_list_nodes[1] = l; l->_list_nodes[0] = f;
  w.pl->cursor = w.cursor_b0 ? w.b[0] : w.b[1]; w.pl->block_count = 2;
  JitAllocatorBlock* r = w.b0_is_root ? w.b[0] : w.b[1]; JitAllocatorBlock* c = w.b0_is_root ? w.b[1] : w.b[0];
  w.im->tree._root = r;
  if (c->rx_ptr() < r->rx_ptr()) r->_tree_nodes[0] = c; else r->_tree_nodes[1] = c;
  w.pl->empty_block_count = (OPT & kOptImmediate) ? 0 : (((w.pre[0].flags | w.pre[1].flags) & kFE) ? 1 : 0);
  w.pl->total_area_size[0] = 2 * A; w.pl->total_area_used[0] = w.pre[0].area_used + w.pre[1].area_used;
  w.pl->total_overhead_bytes = 2 * block_overhead(A);
  w.im->allocation_count = w.pre[0].stop_count() - w.pre[0].P() + w.pre[1].stop_count() - w.pre[1].P();
  w.alloc_count_pre = w.im->allocation_count;
  return w;
}

// release in block 0 of two: kept (flagged empty or not) or deleted because block 1 is already the one empty block
template<uint32_t W, uint32_t OPT> static void check_release_2b() {
  World2<W> w = world2<W, OPT, true>();
  constexpr uint32_t A = 64 * W, G = 64;
  uint32_t g = nondet_u8(); V_ASSUME(w.pre[0].is_span_start(g));
  uint32_t e = w.pre[0].span_end(g), n = e - g;
  bool frontier = (w.pre[0].flags & kFI) && w.pre[0].ss == e, emptied = w.pre[0].area_used - n == w.pre[0].P();
#if KF_C09A
  V_ASSUME(!((w.pre[0].flags & kFI) && w.pre[0].se != A && !frontier && w.pre[0].ss < A));
#endif
#if KF_C09B
  V_ASSUME(!(frontier && emptied));
#endif
  void* brx = w.b[0]->_mapping.rx; size_t bsz = w.b[0]->_block_size;
  Error err = allocator()->release(w.b[0]->rx_ptr() + size_t(g) * G);
  verif_observe(uint64_t(err));
  V_ASSERT(err == Error::kOk && lock_depth == 0 && lock_count == 1, "release (2 blocks): accepted, lock released");
  V_ASSERT(w.im->allocation_count == w.alloc_count_pre - 1, "release (2 blocks): one allocation less");
  BState<W> other; snapshot<W>(other, w.b[1]);
  V_ASSERT(same_state<W>(w.pre[1], other), "release (2 blocks): the other block is untouched");
  bool must_delete = emptied && ((OPT & kOptImmediate) || (w.pre[1].flags & kFE));
  if (!must_delete) {
    V_ASSERT(vm_release_calls == 0 && !block_freed[0], "release (2 blocks): block kept unless it became empty while another empty block exists");
    assert_inv<W>(w.b[0]);
    BState<W> post; snapshot<W>(post, w.b[0]);
    V_ASSERT(w.pl->block_count == 2 && w.pl->total_area_size[0] == 2 * A && w.pl->total_area_used[0] == post.area_used + other.area_used && w.pl->total_overhead_bytes == 2 * block_overhead(A), "release (2 blocks): pool totals = sum over blocks");
    V_ASSERT(w.pl->empty_block_count == (((post.flags | other.flags) & kFE) ? 1 : 0) && !((post.flags & kFE) && (other.flags & kFE)), "release (2 blocks): empty_block_count = number of blocks flagged empty, at most one");
    V_ASSERT(!emptied || (post.flags & kFE), "release (2 blocks): a block that became empty is flagged empty");
    V_WITNESS("release2-kept");
  } else {
    V_ASSERT(vm_release_calls == 1 && vm_released_rx == brx && vm_released_size == bsz && block_freed[0], "release (2 blocks): the emptied block is unmapped and freed, exactly once");
    V_ASSERT(w.im->tree._root == w.b[1] && w.b[1]->_tree_nodes[0] == nullptr && w.b[1]->_tree_nodes[1] == nullptr, "release (2 blocks): tree holds exactly the remaining block");
    V_ASSERT(w.pl->blocks.first() == w.b[1] && w.pl->blocks.last() == w.b[1] && w.b[1]->_list_nodes[0] == nullptr && w.b[1]->_list_nodes[1] == nullptr && w.pl->cursor == w.b[1] && w.pl->block_count == 1, "release (2 blocks): list and cursor hold exactly the remaining block");
    V_ASSERT(w.pl->total_area_size[0] == A && w.pl->total_area_used[0] == other.area_used && w.pl->total_overhead_bytes == block_overhead(A), "release (2 blocks): pool totals = the remaining block");
    V_ASSERT(w.pl->empty_block_count == ((other.flags & kFE) ? 1 : 0), "release (2 blocks): empty_block_count still counts the flagged blocks");
    V_WITNESS("release2-deleted");
    if (w.b0_is_root) V_WITNESS("release2-deleted-root"); else V_WITNESS("release2-deleted-child");
  }
}
HARNESS h_release_2b() { check_release_2b<1, 0>(); }
HARNESS h_release_2b_imm() { check_release_2b<1, kOptImmediate>(); }

// second block: the pool's only block is full, so the request opens a new block behind it
static void check_second_block(size_t size) {
  constexpr uint32_t G = 64, A = 64;
  JitAllocatorPrivateImpl* im = make_impl(0, G, 64 * G, 1, 0xCCCCCCCCu); JitAllocatorPool* pl = pool(0);
  BState<1> full; full.U[0] = ~0ull; full.S[0] = (1ull << 63) | 1 | (nondet_u64() & ~1ull); full.flags = kFP | (nondet_bool() ? kFI : 0);
  full.area_used = A; full.ss = A; full.se = 0; full.lua = 0;
  V_ASSUME(inv_ok<1>(full));
  JitAllocatorBlock* b0 = new_block_object<1>(0); store_state<1>(b0, full);
  uint32_t s0 = nondet_u8() & 3, s1 = nondet_u8() & 3; V_ASSUME(s0 != s1);
  place_block<1>(b0, pl, 0); b0->_mapping.rx = arena_at(arena_rx, size_t(s0) * 65536); b0->_mapping.rw = b0->_mapping.rx;
  pl->blocks._nodes[0] = b0; pl->blocks._nodes[1] = b0; pl->cursor = b0; pl->block_count = 1;
  pl->total_area_size[0] = A; pl->total_area_used[0] = A; pl->total_overhead_bytes = block_overhead(A);
  im->tree._root = b0; im->allocation_count = full.stop_count() - 1;
  size_t count_pre = im->allocation_count;
  vm_next_rx = arena_at(arena_rx, size_t(s1) * 65536); vm_next_rw = vm_next_rx;
  JitAllocator::Span span;
  Error err = allocator()->alloc(Out(span), size);
  verif_observe(uint64_t(err));
  V_ASSERT(err == Error::kOk, "second block: allocation succeeds");
  JitAllocatorBlock* b1 = static_cast<JitAllocatorBlock*>(span._block);
  V_ASSERT(b1 != nullptr && b1 != b0, "second block: a new block serves the request");
  if (err != Error::kOk || b1 == nullptr || b1 == b0) return;
  V_ASSERT(b1->_block_size == 2 * b0->_block_size && b1->_area_size == 2 * A, "second block: block size doubles");
  V_ASSERT(pl->blocks.first() == b0 && pl->blocks.last() == b1 && b0->_list_nodes[1] == b1 && b1->_list_nodes[0] == b0 && b0->_list_nodes[0] == nullptr && b1->_list_nodes[1] == nullptr && pl->cursor == b0 && pl->block_count == 2, "second block: appended to the pool list, cursor unchanged");
  bool left = b1->rx_ptr() < b0->rx_ptr();
  V_ASSERT(im->tree._root == b0 && (left ? b0->_tree_nodes[0] == b1 && b0->_tree_nodes[1] == nullptr : b0->_tree_nodes[1] == b1 && b0->_tree_nodes[0] == nullptr) && b1->_tree_nodes[0] == nullptr && b1->_tree_nodes[1] == nullptr, "second block: tree orders the two blocks by address");
  uint32_t n = uint32_t((size + G - 1) / G);
  V_ASSERT(pl->total_area_size[0] == 3 * A && pl->total_area_used[0] == A + 1 + n && pl->total_overhead_bytes == block_overhead(A) + block_overhead(2 * A), "second block: pool totals = sum over both blocks");
  V_ASSERT(im->allocation_count == count_pre + 1, "second block: one more allocation");
  assert_inv<1>(b0); assert_inv<2>(b1);
  BState<1> post0; snapshot<1>(post0, b0);
  V_ASSERT(same_bits<1>(full, post0), "second block: the full block keeps its bits");
  V_ASSERT(span._rx == b1->rx_ptr() + G && span._size == size_t(n) * G, "second block: span starts behind the padding of the new block");
  JitAllocator::Span q; Error qe = allocator()->query(Out(q), span._rx);
  V_ASSERT(qe == Error::kOk && q._rx == span._rx && q._size == span._size && q._block == b1, "second block: query finds the new span through the tree");
  if (left) V_WITNESS("second-block-lower-address"); else V_WITNESS("second-block-higher-address");
}
HARNESS h_second_block() {
  switch (nondet_u8() & 3) {
    case 0: check_second_block(1); break;
    case 1: check_second_block(65); break;
    case 2: check_second_block(4096); break;
    default: check_second_block(127 * 64); break;   // fills the new block exactly
  }
}
