// C09 — reset(): afterwards no allocation is accounted, no more blocks are retained than the policy allows (hard: none;
// soft: the first block of each pool, wiped), every other block is unmapped and freed exactly once, and the allocator
// keeps working.
#include "jit_env.h"
using namespace asmjit;
using namespace jenv;

static constexpr uint32_t kOptFill = 0x04, kOptImmediate = 0x08;
static constexpr uint32_t G = 64, A = 64;

struct RWorld { JitAllocatorPrivateImpl* im; JitAllocatorPool* pl; JitAllocatorBlock* b[2]; BState<1> pre[2]; bool two, b0_first, b0_root; };
// one or two blocks in any states of I, any list order / tree shape
template<uint32_t OPT> static RWorld reset_world() {
  RWorld w; w.im = make_impl(OPT, G, 64 * G, 1, 0xCCCCCCCCu); w.pl = pool(0);
  w.two = nondet_bool();
  for (uint32_t k = 0; k < 2; k++) {
    Seed<1> z = nondet_seed<1>(); z.flags &= ~kFL; if (OPT & kOptImmediate) z.flags &= ~kFE;
    w.pre[k] = gen_state<1>(z); V_ASSUME(inv_ok<1>(w.pre[k]));
    w.b[k] = new_block_object<1>(k); store_state<1>(w.b[k], w.pre[k]);
  }
  V_ASSUME(!((w.pre[0].flags & kFE) && (w.pre[1].flags & kFE)));
  uint32_t s0 = nondet_u8() & 3, s1 = nondet_u8() & 3; V_ASSUME(s0 != s1);
  place_block<1>(w.b[0], w.pl, s0); place_block<1>(w.b[1], w.pl, s1);
  w.b0_first = nondet_bool(); w.b0_root = nondet_bool();
  if (!w.two) {
    w.pl->blocks._nodes[0] = w.b[0]; w.pl->blocks._nodes[1] = w.b[0]; w.pl->cursor = w.b[0]; w.pl->block_count = 1; w.im->tree._root = w.b[0];
    w.pl->total_area_size[0] = A; w.pl->total_area_used[0] = w.pre[0].area_used; w.pl->total_overhead_bytes = block_overhead(A);
    w.pl->empty_block_count = (w.pre[0].flags & kFE) ? 1 : 0;
    w.im->allocation_count = w.pre[0].stop_count() - w.pre[0].P();
  } else {
    JitAllocatorBlock* f = w.b0_first ? w.b[0] : w.b[1]; JitAllocatorBlock* l = w.b0_first ? w.b[1] : w.b[0];
    w.pl->blocks._nodes[0] = f; w.pl->blocks._nodes[1] = l; f->_list_nodes[1] = l; l->_list_nodes[0] = f;
    w.pl->cursor = nondet_bool() ? f : l; w.pl->block_count = 2;
    JitAllocatorBlock* r = w.b0_root ? w.b[0] : w.b[1]; JitAllocatorBlock* c = w.b0_root ? w.b[1] : w.b[0];
    w.im->tree._root = r; if (c->rx_ptr() < r->rx_ptr()) r->_tree_nodes[0] = c; else r->_tree_nodes[1] = c;
    w.pl->total_area_size[0] = 2 * A; w.pl->total_area_used[0] = w.pre[0].area_used + w.pre[1].area_used; w.pl->total_overhead_bytes = 2 * block_overhead(A);
    w.pl->empty_block_count = ((w.pre[0].flags | w.pre[1].flags) & kFE) ? 1 : 0;
    w.im->allocation_count = w.pre[0].stop_count() - w.pre[0].P() + w.pre[1].stop_count() - w.pre[1].P();
  }
  return w;
}

HARNESS h_reset_hard() {
  RWorld w = reset_world<0>();
  allocator()->reset(ResetPolicy::kHard);
  V_ASSERT(vm_release_calls == (w.two ? 2 : 1) && block_freed[0] && block_freed[1] == w.two, "hard reset: every block is unmapped and freed exactly once");
  V_ASSERT(w.im->tree._root == nullptr && w.pl->blocks.first() == nullptr && w.pl->blocks.last() == nullptr && w.pl->cursor == nullptr && w.pl->block_count == 0, "hard reset: no block remains linked");
  V_ASSERT(w.pl->total_area_size[0] == 0 && w.pl->total_area_used[0] == 0 && w.pl->total_area_size[1] == 0 && w.pl->total_area_used[1] == 0 && w.pl->total_overhead_bytes == 0, "hard reset: nothing remains reserved or used");
#if !KF_C09G
  V_ASSERT(w.im->allocation_count == 0, "reset: no allocation remains accounted");
  V_ASSERT(w.pl->empty_block_count == 0, "hard reset: no empty block remains counted");
#endif
  JitAllocator::Statistics st = allocator()->statistics();
  V_ASSERT(st.block_count() == 0 && st.used_size() == 0 && st.reserved_size() == 0 && st.overhead_size() == 0, "hard reset: statistics report an empty allocator");
  if (w.two) V_WITNESS("reset-hard-two-blocks"); else V_WITNESS("reset-hard-one-block");
}
// known finding C09G: reset() leaves allocation_count (and a stale empty_block_count) behind
HARNESS h_reset_kf_C09G() {
  RWorld w = reset_world<0>();
  size_t count_pre = w.im->allocation_count; uint32_t empties_pre = w.pl->empty_block_count;
  allocator()->reset(ResetPolicy::kHard);
  V_ASSERT(w.im->allocation_count == 0, "reset: no allocation remains accounted");
  V_ASSERT(w.pl->empty_block_count == 0, "hard reset: no empty block remains counted");
  if (count_pre != 0) V_WITNESS("reset-with-live-spans");
  if (empties_pre != 0) V_WITNESS("reset-with-empty-block");
}

// soft reset: the first block of the pool is kept, wiped (state of a fresh block), the other one deleted
template<int MODE, bool FOLLOW_UP> static void check_reset_soft() {
  RWorld w = reset_world<0>();
  JitAllocatorBlock* keep = (!w.two || w.b0_first) ? w.b[0] : w.b[1];
  uint32_t ki = keep == w.b[0] ? 0 : 1;
  bool stale_links = keep->_tree_nodes[0] != nullptr || keep->_tree_nodes[1] != nullptr;
  // known finding C09E: the kept block is re-inserted with the tree links it had in the old tree
  if (MODE == 1) V_ASSUME(stale_links);
  else {
#if KF_C09E
    V_ASSUME(!stale_links);
#endif
  }
  allocator()->reset(ResetPolicy::kSoft);
  V_ASSERT(!block_freed[ki] && vm_release_calls == (w.two ? 1 : 0) && (!w.two || block_freed[1 - ki]), "soft reset: the first block of the pool is kept, the other one is unmapped and freed");
  V_ASSERT(w.im->tree._root == keep && keep->_tree_nodes[0] == nullptr && keep->_tree_nodes[1] == nullptr, "soft reset: the tree holds exactly the kept block");
  V_ASSERT(w.pl->blocks.first() == keep && w.pl->blocks.last() == keep && keep->_list_nodes[0] == nullptr && keep->_list_nodes[1] == nullptr && w.pl->cursor == keep && w.pl->block_count == 1, "soft reset: list and cursor hold exactly the kept block");
  BState<1> post; snapshot<1>(post, keep);
  uint32_t P = w.pre[ki].P();
  assert_inv<1>(keep);
  V_ASSERT(post.U[0] == P && post.S[0] == P && post.area_used == P && (post.flags & kFE), "soft reset: the kept block is wiped: only the padding is used, flagged empty");
  V_ASSERT(w.pl->empty_block_count == 1 && w.pl->total_area_size[0] == A && w.pl->total_area_used[0] == P && w.pl->total_overhead_bytes == block_overhead(A), "soft reset: pool totals = the kept empty block");
#if !KF_C09G
  V_ASSERT(w.im->allocation_count == 0, "soft reset: no allocation remains accounted");
#endif
  // the allocator keeps working: the next request is served from the kept block
  if (!FOLLOW_UP) { V_WITNESS("reset-soft"); return; }
  vm_alloc_fail = true;
  JitAllocator::Span span; Error err = allocator()->alloc(Out(span), 1 + nondet_u8());
  V_ASSERT(err == Error::kOk && span._block == keep && span._rx == keep->rx_ptr() + size_t(P) * G, "soft reset: the next allocation reuses the kept block from its start");
  if (w.two) V_WITNESS("reset-soft-two-blocks"); else V_WITNESS("reset-soft-one-block");
}
HARNESS h_reset_soft() { check_reset_soft<0, false>(); }
HARNESS h_reset_soft_then_alloc() { check_reset_soft<0, true>(); }
HARNESS h_reset_soft_kf_C09E() { check_reset_soft<1, false>(); }

// soft reset under kFillUnusedMemory (JitAllocatorImpl_wipeOutBlock): the memory of every span that was live carries the
// fill pattern afterwards, and exactly the used runs are wiped and flushed. The pool granularity is scaled to 4 bytes (the
// wipe is linear in it; real: 64..1024), so the block is 256 bytes of real memory; four concrete bit patterns entered on
// separate paths (addresses and loop counts of the byte fill are then constants; BitVectorRangeIterator<., 1> is checked
// from any state in unit bits). Pattern and the probed byte are symbolic.
//   known finding C09D: the wipe iterates the FREE ranges. While it is open the main harness is confined to blocks without
//   any used granule (nothing to wipe), the companion covers the blocks with live spans.
static void check_reset_fill(uint64_t U, uint64_t S, uint32_t flags, uint32_t ss, uint32_t lua, bool check_ranges) {
  constexpr uint32_t G4 = 4;
  JitAllocatorPrivateImpl* im = make_impl(kOptFill, G4, 64 * G4, 1, nondet_u32()); JitAllocatorPool* pl = pool(0);
  BState<1> s; s.U[0] = U; s.S[0] = S; s.flags = flags; s.area_used = popcount_v<1>(s.U); s.ss = ss; s.se = A; s.lua = lua;
  V_ASSUME(inv_ok<1>(s));
  JitAllocatorBlock* b = new_block_object<1>(0); store_state<1>(b, s); place_block<1>(b, pl, 0);
  pl->blocks._nodes[0] = b; pl->blocks._nodes[1] = b; pl->cursor = b; pl->block_count = 1;
  pl->total_area_size[0] = A; pl->total_area_used[0] = s.area_used; pl->total_overhead_bytes = block_overhead(A);
  im->tree._root = b; im->allocation_count = s.stop_count() - s.P();
  allocator()->reset(ResetPolicy::kSoft);
  uint32_t probe = nondet_u8();
  uint8_t now = arena_rx[probe]; verif_observe(now);
  bool was_used = s.used(probe / G4);
  if (was_used) V_ASSERT(now == uint8_t(im->fill_pattern >> (8 * (probe & 3))), "soft reset with fill: memory of every formerly used granule carries the fill pattern");
  // the ranges handed to the instruction-cache flush are the used runs, in order
  uint32_t runs = 0; bool ranges_ok = true; uint32_t i = 0;
  while (i < A) {
    if (!s.used(i)) { i++; continue; }
    uint32_t j = i; while (j < A && s.used(j)) j++;
    if (runs < 8) ranges_ok = ranges_ok && flush_ptr[runs] == static_cast<void*>(arena_rx + i * G4) && flush_size[runs] == size_t(j - i) * G4;
    runs++; i = j;
  }
  if (check_ranges) V_ASSERT(flush_calls == int(runs) && ranges_ok, "soft reset with fill: exactly the used runs are wiped and flushed");
  V_ASSERT(rw_depth == 0, "soft reset with fill: memory is executable again afterwards");
  BState<1> post; snapshot<1>(post, b);
  V_ASSERT(post.U[0] == s.P() && (post.flags & kFE), "soft reset with fill: the kept block is empty afterwards");
  V_WITNESS("reset-fill");
}
template<int MODE> static void reset_fill_cases() {
  uint32_t c = nondet_u8() & 7;
  bool live = c != 0;                         // case 0: a block without any used granule (not flagged empty, see C09B)
  if (MODE == 1) V_ASSUME(live);
  else {
#if KF_C09D
    V_ASSUME(!live);
#endif
  }
  bool cr = true;
#if KF_C09D
  cr = MODE == 1;
#endif
  if (c == 0) check_reset_fill(0, 0, kFI | kFD, 0, A, cr);                                            // nothing used, no padding
  else if (c == 1) check_reset_fill(0x27, 0x25, kFP | kFD, 3, 0, cr);                                 // padding, spans [1,3) and [5,6)
  else if (c == 2) check_reset_fill((1ull << 63) | 1, (1ull << 63) | 1, kFD, 1, 0, cr);               // no padding, spans [0,1) and [63,64)
  else if (c == 3) check_reset_fill(~0ull & ~(3ull << 7), (1ull << 63) | (1ull << 6) | 1, kFP | kFD, 7, 0, cr);   // all used but [7,9)
  else check_reset_fill((1ull << 10) - 1, (1ull << 9) | 1, kFP | kFI | kFD, 10, A - 10, cr);          // incremental, [0,10) used
}
HARNESS h_reset_fill() { reset_fill_cases<0>(); }
HARNESS h_reset_fill_kf_C09D() { reset_fill_cases<1>(); }
