// C09 / C11 shared environment: the real jitallocator.cpp is #included (its classes and helpers are file-local), the
// OS layer below it is stubbed here. Every stub is part of the claim and is listed in spec.py ASSUMPTIONS.
//
//   VirtMem::alloc / alloc_dual_mapping    hand out the slot the harness prepared (rx and rw are two distinct buffers when
//                                           dual mapped), or fail when the harness says so
//   VirtMem::release / release_dual_mapping record what was released (the harness asserts it is the block's mapping)
//   VirtMem::protect_jit_memory / flush_instruction_cache   counters (RW/RX nesting is asserted)
//   VirtMem::info / large_page_size / hardened_runtime_info  constants chosen by the harness
//   pthread_mutex_lock / unlock             a depth counter with nesting assertions; the real Lock / LockGuard run on top
//   ArenaTree<JitAllocatorBlock>            typed-pointer model (tree_model.h); the block's address-range comparison stays real
//   ::free(block) / ::malloc(block)         pre-state blocks are typed statics: free is recorded + poisons (jenv_free); the one
//                                           block JitAllocator_new_block may create per run comes from a fixed buffer (jenv_malloc)
#pragma once
#include "verif.h"
#include <pthread.h>
#include <stdlib.h>
// Everything jitallocator.cpp includes is included first (include guards), so that the only `free` the macro below
// renames is the allocator's own `::free(block)`: blocks of the symbolic pre-state are typed static objects (the solver
// needs struct fields, not malloc'ed byte arrays), and freeing one is recorded and poisons it instead of calling libc.
#include <asmjit/core/api-build_p.h>
#if !defined(JENV_REAL_TREE)
#include "tree_model.h"   // STUB for asmjit/support/arenatree.h, see the comment there
#endif
#include <asmjit/core/archtraits.h>
#include <asmjit/core/jitallocator.h>
#include <asmjit/core/osutils_p.h>
#include <asmjit/core/virtmem.h>
#include <asmjit/support/arena.h>
#include <asmjit/support/arenalist.h>
#include <asmjit/support/arenapool.h>
#include <asmjit/support/arenatree.h>
#include <asmjit/support/support.h>
void jenv_free(void* p) noexcept;
void* jenv_malloc(size_t size) noexcept;
#define free jenv_free
#define malloc jenv_malloc
#if !defined(JENV_SUBJECT)
#define JENV_SUBJECT <asmjit/core/jitallocator.cpp>   // found through -I$VERIF_REPO (default /repo); overridable for experiments on a copy
#endif
#include JENV_SUBJECT
#undef malloc
#undef free

namespace jenv {
using namespace asmjit;
typedef Support::BitWord BW;
static_assert(sizeof(BW) == 8, "64-bit bit words");

// ---------------------------------------------------------------------------------------------------------------------
// Environment state (reset by env_reset()).
static int lock_depth, lock_count, unlock_count;
static int rw_depth, protect_calls, flush_calls;
static void* flush_ptr[8]; static size_t flush_size[8];   // the first 8 ranges handed to flush_instruction_cache
static int env_calls_unlocked, env_calls_locked;   // stub calls made without / with the allocator lock held
static int vm_alloc_calls, vm_release_calls;
static bool vm_alloc_fail, vm_fail_first_only;   // every request refused / only the first one (large pages) refused
static uint8_t *vm_next_rx, *vm_next_rw;           // what the next VirtMem::alloc* returns
static size_t vm_alloc_size; static uint32_t vm_alloc_flags;
static void *vm_released_rx, *vm_released_rw; static size_t vm_released_size;
static size_t vm_large_page_size;
static void (*on_lock)(); static void (*on_unlock)();
static int new_block_mallocs; static bool new_block_freed;

static inline void env_reset() {
  lock_depth = lock_count = unlock_count = 0; rw_depth = protect_calls = flush_calls = 0;
  env_calls_unlocked = env_calls_locked = 0; vm_alloc_calls = vm_release_calls = 0; vm_alloc_fail = false; vm_fail_first_only = false;
  vm_next_rx = vm_next_rw = nullptr; vm_alloc_size = 0; vm_alloc_flags = 0;
  vm_released_rx = vm_released_rw = nullptr; vm_released_size = 0; vm_large_page_size = 0;
  on_lock = nullptr; on_unlock = nullptr;
}
static inline void env_call() { if (lock_depth == 1) env_calls_locked++; else env_calls_unlocked++; }
}  // namespace jenv

extern "C" int pthread_mutex_lock(pthread_mutex_t*) noexcept {
  V_ASSERT(jenv::lock_depth == 0, "lock: never taken while already held");
  jenv::lock_depth++; jenv::lock_count++;
  if (jenv::on_lock) jenv::on_lock();
  return 0;
}
extern "C" int pthread_mutex_unlock(pthread_mutex_t*) noexcept {
  V_ASSERT(jenv::lock_depth == 1, "unlock: only while held");
  if (jenv::on_unlock) jenv::on_unlock();
  jenv::lock_depth--; jenv::unlock_count++;
  return 0;
}

ASMJIT_BEGIN_NAMESPACE
namespace VirtMem {
Info info() noexcept { Info i; i.page_size = 4096; i.page_granularity = 65536; return i; }
size_t large_page_size() noexcept { jenv::env_call(); return jenv::vm_large_page_size; }
HardenedRuntimeInfo hardened_runtime_info() noexcept { HardenedRuntimeInfo h; h.flags = HardenedRuntimeFlags::kNone; return h; }
void flush_instruction_cache(void* p, size_t size) noexcept {
  jenv::env_call();
  if (jenv::flush_calls < 8) { jenv::flush_ptr[jenv::flush_calls] = p; jenv::flush_size[jenv::flush_calls] = size; }
  jenv::flush_calls++;
}
void protect_jit_memory(ProtectJitAccess access) noexcept {
  jenv::env_call(); jenv::protect_calls++;
  if (access == ProtectJitAccess::kReadWrite) { V_ASSERT(jenv::rw_depth == 0, "protect: RW scope not nested"); jenv::rw_depth++; }
  else { V_ASSERT(jenv::rw_depth == 1, "protect: RX only after RW"); jenv::rw_depth--; }
}
Error alloc(void** p, size_t size, MemoryFlags flags) noexcept {
  jenv::env_call(); jenv::vm_alloc_calls++; jenv::vm_alloc_size = size; jenv::vm_alloc_flags = uint32_t(flags);
  if (jenv::vm_alloc_fail || (jenv::vm_fail_first_only && jenv::vm_alloc_calls == 1)) { *p = nullptr; return make_error(Error::kOutOfMemory); }
  *p = jenv::vm_next_rx; return Error::kOk;
}
Error release(void* p, size_t size) noexcept {
  jenv::env_call(); jenv::vm_release_calls++; jenv::vm_released_rx = p; jenv::vm_released_rw = p; jenv::vm_released_size = size;
  return Error::kOk;
}
Error alloc_dual_mapping(Out<DualMapping> dm, size_t size, MemoryFlags flags) noexcept {
  jenv::env_call(); jenv::vm_alloc_calls++; jenv::vm_alloc_size = size; jenv::vm_alloc_flags = uint32_t(flags);
  if (jenv::vm_alloc_fail) { dm->rx = nullptr; dm->rw = nullptr; return make_error(Error::kOutOfMemory); }
  dm->rx = jenv::vm_next_rx; dm->rw = jenv::vm_next_rw; return Error::kOk;
}
Error release_dual_mapping(DualMapping& dm, size_t size) noexcept {
  jenv::env_call(); jenv::vm_release_calls++; jenv::vm_released_rx = dm.rx; jenv::vm_released_rw = dm.rw; jenv::vm_released_size = size;
  dm.rx = nullptr; dm.rw = nullptr;
  return Error::kOk;
}
}  // namespace VirtMem
ASMJIT_END_NAMESPACE

namespace jenv {
// ---------------------------------------------------------------------------------------------------------------------
// Word-level bit helpers of the ORACLE (independent of Support::bit_vector_*). W = number of 64-bit words, concrete.
template<uint32_t W> struct BV { uint64_t w[W]; };

template<uint32_t W> static inline uint64_t word_at(const uint64_t* v, uint32_t wi) {
  if constexpr (W == 1) return v[0];
  else if constexpr (W == 2) return wi == 0 ? v[0] : v[1];
  else return wi == 0 ? v[0] : wi == 1 ? v[1] : v[2];
}
template<uint32_t W> static inline bool bit_at(const uint64_t* v, uint32_t i) { return (word_at<W>(v, i >> 6) >> (i & 63)) & 1; }
// bits of word `wi` whose global index is < n
static inline uint64_t lowmask_w(uint32_t wi, uint32_t n) {
  uint32_t base = wi * 64;
  if (n <= base) return 0;
  if (n >= base + 64) return ~0ull;
  return (1ull << (n - base)) - 1;
}
static inline uint64_t rangemask_w(uint32_t wi, uint32_t lo, uint32_t hi) { return lo >= hi ? 0 : (lowmask_w(wi, hi) & ~lowmask_w(wi, lo)); }
template<uint32_t W> static inline uint32_t popcount_v(const uint64_t* v) { uint32_t n = 0; for (uint32_t i = 0; i < W; i++) n += (uint32_t)__builtin_popcountll(v[i]); return n; }
template<uint32_t W> static inline bool is_zero_v(const uint64_t* v) { uint64_t a = 0; for (uint32_t i = 0; i < W; i++) a |= v[i]; return a == 0; }
// index of the lowest / highest set bit (precondition: v != 0)
template<uint32_t W> static inline uint32_t lowest_v(const uint64_t* v) {
  for (uint32_t i = 0; i < W; i++) if (v[i]) return i * 64 + (uint32_t)__builtin_ctzll(v[i]);
  return W * 64;
}
template<uint32_t W> static inline uint32_t highest_v(const uint64_t* v) {
  for (uint32_t i = W; i-- > 0;) if (v[i]) return i * 64 + 63 - (uint32_t)__builtin_clzll(v[i]);
  return 0;
}
// v >> s over the whole vector (s < 64*W)
template<uint32_t W> static inline BV<W> shr_v(const BV<W>& v, uint32_t s) {
  BV<W> r; uint32_t ws = s >> 6, bs = s & 63;
  for (uint32_t i = 0; i < W; i++) {
    uint64_t lo = (i + ws < W) ? word_at<W>(v.w, i + ws) : 0, hi = (i + ws + 1 < W) ? word_at<W>(v.w, i + ws + 1) : 0;
    r.w[i] = bs ? ((lo >> bs) | (hi << (64 - bs))) : lo;
  }
  return r;
}
// is there a run of >= k consecutive set bits in v (k >= 1)?   doubling: x_len has bit i set iff v[i, i+len) all set
template<uint32_t W> static inline void run_step(BV<W>& x, uint32_t& len, uint32_t k) {
  if (len < k) { uint32_t s = (k - len < len) ? k - len : len; BV<W> y = shr_v<W>(x, s); for (uint32_t i = 0; i < W; i++) x.w[i] &= y.w[i]; len += s; }
}
template<uint32_t W> static inline bool has_run_v(const uint64_t* v, uint32_t k) {
  if (k > W * 64) return false;
  BV<W> x; for (uint32_t i = 0; i < W; i++) x.w[i] = v[i];
  uint32_t len = 1;   // straight-line: 8 doublings cover 256 >= 64*W
  run_step<W>(x, len, k); run_step<W>(x, len, k); run_step<W>(x, len, k); run_step<W>(x, len, k);
  run_step<W>(x, len, k); run_step<W>(x, len, k); run_step<W>(x, len, k); run_step<W>(x, len, k);
  return !is_zero_v<W>(x.w);
}

// ---------------------------------------------------------------------------------------------------------------------
// Allocator object, impl with three pools, JIT memory arena.
static constexpr uint32_t kMaxPools = 3;
// Plain typed statics (the solver then sees struct fields, not a byte array or a union); make_impl re-constructs them
// by placement new on every run, the static initialisers only exist to satisfy C++.
#if !defined(JENV_POOLS)
#define JENV_POOLS 1   // units about multiple pools define 3; a single-pool unit keeps the pool object small for the solver
#endif
static JitAllocatorPool pool_objs[JENV_POOLS] = { JitAllocatorPool(64)
#if JENV_POOLS == 3
  , JitAllocatorPool(128), JitAllocatorPool(256)
#endif
};
static JitAllocatorPrivateImpl impl_obj(pool_objs, 1);
alignas(8) static void* allocator_obj[sizeof(JitAllocator) / sizeof(void*)];
static_assert(sizeof(JitAllocator) == sizeof(void*), "JitAllocator is one pointer");
static inline JitAllocatorPrivateImpl* impl() { return &impl_obj; }
static inline JitAllocatorPool* pool(uint32_t i) { return &pool_objs[i]; }
static inline JitAllocator* allocator() { return reinterpret_cast<JitAllocator*>(allocator_obj); }

// The arena the blocks live in: one object per view so that every address comparison the allocator makes is between
// pointers into the same object (well-defined in C and in the solver's memory model); positions are symbolic slots.
// Units that never touch JIT memory (JENV_ARENA_BYTES undefined) give the solver a 64-byte stand-in: only addresses
// matter there, and any access the allocator made to JIT memory would be reported as out of bounds.
#if defined(JENV_CBMC_ARENA_BYTES) && defined(VERIF_CBMC)
static constexpr size_t kArenaBytes = JENV_CBMC_ARENA_BYTES;   // the solver's window of real JIT memory (fill / write units)
#elif defined(VERIF_CBMC)
static constexpr size_t kArenaBytes = 64;
#else
static constexpr size_t kArenaBytes = 5 * 65536;
#endif
alignas(64) static uint8_t arena_rx[kArenaBytes];
alignas(64) static uint8_t arena_rw[kArenaBytes];
static inline uint8_t* arena_at(uint8_t* view, size_t off) { return view + off; }

// As JitAllocator_new_impl builds it (options / granularity / block size chosen by the harness; the public constructor
// only creates block_size >= 64 KiB — the harnesses scale blocks down to 64*W granules, see spec.py OUTSIDE).
static inline JitAllocatorPrivateImpl* make_impl(uint32_t options, uint32_t granularity, uint32_t block_size, uint32_t pool_count, uint32_t fill_pattern) {
  env_reset(); new_block_mallocs = 0; new_block_freed = false;
  JitAllocatorPrivateImpl* im = new (Support::PlacementNew{impl()}) JitAllocatorPrivateImpl(pool(0), pool_count);
  im->options = JitAllocatorOptions(options); im->block_size = block_size; im->granularity = granularity; im->fill_pattern = fill_pattern;
  im->page_size = 4096;
  for (uint32_t i = 0; i < pool_count; i++) new (Support::PlacementNew{pool(i)}) JitAllocatorPool(granularity << i);
  allocator()->_impl = im;
  return im;
}

// ---------------------------------------------------------------------------------------------------------------------
// Block state as plain data (oracle side) and the representation invariant I(block).
static constexpr uint32_t kFP = JitAllocatorBlock::kFlagInitialPadding, kFE = JitAllocatorBlock::kFlagEmpty, kFD = JitAllocatorBlock::kFlagDirty,
                          kFI = JitAllocatorBlock::kFlagIncremental, kFL = JitAllocatorBlock::kFlagLargePages, kFM = JitAllocatorBlock::kFlagDualMapped;

template<uint32_t W> struct BState {
  uint64_t U[W], S[W];
  uint32_t flags, area_used, lua, ss, se;
  static constexpr uint32_t A = 64 * W;
  bool used(uint32_t i) const { return bit_at<W>(U, i); }
  bool stop(uint32_t i) const { return bit_at<W>(S, i); }
  uint32_t P() const { return flags & kFP; }
  void free_mask(uint64_t* F) const { for (uint32_t i = 0; i < W; i++) F[i] = ~U[i]; }
  bool has_free_run(uint32_t k) const { uint64_t F[W]; free_mask(F); return has_run_v<W>(F, k); }
  // number of maximal runs of free granules
  uint32_t free_run_count() const {
    uint32_t n = 0; uint64_t carry = 1;   // "granule -1 is used"
    for (uint32_t i = 0; i < W; i++) { uint64_t f = ~U[i]; uint64_t prev_used = (U[i] << 1) | carry; n += (uint32_t)__builtin_popcountll(f & prev_used); carry = U[i] >> 63; }
    return n;
  }
  // i is the first granule of a live span (the initial padding granule is not a span)
  bool is_span_start(uint32_t i) const { return i < A && used(i) && !(P() && i == 0) && (i == 0 || !used(i - 1) || stop(i - 1)); }
  // end (exclusive) of the span starting at / containing granule i: first stop bit at or after i, plus one
  uint32_t span_end(uint32_t i) const {
    uint64_t M[W]; for (uint32_t w = 0; w < W; w++) M[w] = S[w] & ~lowmask_w(w, i);
    return lowest_v<W>(M) + 1;
  }
  uint32_t stop_count() const { return popcount_v<W>(S); }
};

template<uint32_t W> static inline void snapshot(BState<W>& s, const JitAllocatorBlock* b) {
  for (uint32_t i = 0; i < W; i++) { s.U[i] = b->_used_bit_vector[i]; s.S[i] = b->_stop_bit_vector[i]; }
  s.flags = b->_flags; s.area_used = b->_area_used; s.lua = b->_largest_unused_area; s.ss = b->_search_start; s.se = b->_search_end;
}
template<uint32_t W> static inline bool same_state(const BState<W>& a, const BState<W>& b) {
  bool eq = a.flags == b.flags && a.area_used == b.area_used && a.lua == b.lua && a.ss == b.ss && a.se == b.se;
  for (uint32_t i = 0; i < W; i++) eq = eq && a.U[i] == b.U[i] && a.S[i] == b.S[i];
  return eq;
}
template<uint32_t W> static inline bool same_bits(const BState<W>& a, const BState<W>& b) {
  bool eq = true; for (uint32_t i = 0; i < W; i++) eq = eq && a.U[i] == b.U[i] && a.S[i] == b.S[i];
  return eq;
}

// I(block), clause by clause (area_size = 64*W exactly: every block size the allocator creates is a multiple of
// 64 granules, and the search code relies on it — bits beyond area_size would read as free).
//  c1 stop subset of used            c2 every used run ends at a stop bit (a used non-stop granule is followed by a used one)
//  c3 padding => granule 0 is used+stop      c4 area_used = popcount(used)   (post-states: delta form, see assert_inv)
//  c5 flag Empty => nothing but the padding is used, window = whole block, largest = area - padding, not dirty
//  c6 full => search_start = area, search_end = 0, largest = 0, neither dirty nor empty
//  c7 incremental => used = [0, search_start), largest = area - search_start, search_end in {0, area}
//  c8 neither incremental nor full => every free granule lies in [search_start, search_end), search_end <= area
//  c9 neither incremental nor full nor dirty => no free run longer than largest_unused_area
//  c10 largest_unused_area <= area
template<uint32_t W> struct Inv {
  bool c1, c2, c3, c4, c5, c6, c7, c8, c9, c10;
  bool all() const { return c1 && c2 && c3 && c4 && c5 && c6 && c7 && c8 && c9 && c10; }
};
template<uint32_t W> static inline Inv<W> inv_of(const BState<W>& s) {
  constexpr uint32_t A = 64 * W;
  Inv<W> r; uint32_t P = s.P();
  bool incr = s.flags & kFI, dirty = s.flags & kFD, empty = s.flags & kFE;
  r.c1 = true; r.c2 = true;
  uint64_t carry = 0;
  for (uint32_t i = 0; i < W; i++) {
    r.c1 = r.c1 && (s.S[i] & ~s.U[i]) == 0;
    uint64_t cont = s.U[i] & ~s.S[i];                 // used, allocation continues into the next granule
    r.c2 = r.c2 && (((cont << 1) | carry) & ~s.U[i]) == 0;
    carry = cont >> 63;
  }
  r.c2 = r.c2 && carry == 0;
  r.c3 = !P || ((s.U[0] & 1) && (s.S[0] & 1));
  r.c4 = s.area_used == popcount_v<W>(s.U);
  bool full = s.area_used == A;
  r.c5 = !empty || (s.area_used == P && s.ss == P && s.se == A && s.lua == A - P && !dirty);
  r.c6 = !full || (s.ss == A && s.se == 0 && s.lua == 0 && !dirty && !empty);
  r.c7 = true;
  if (incr) {
    r.c7 = s.ss <= A && s.lua == A - s.ss && (s.se == A || s.se == 0);
    for (uint32_t i = 0; i < W; i++) r.c7 = r.c7 && s.U[i] == lowmask_w(i, s.ss);
  }
  r.c8 = true; r.c9 = true;
  if (!incr && !full) {
    r.c8 = s.ss < s.se && s.se <= A;
    for (uint32_t i = 0; i < W; i++) r.c8 = r.c8 && (~s.U[i] & ~rangemask_w(i, s.ss, s.se)) == 0;
    if (!dirty) r.c9 = !s.has_free_run(s.lua + 1);
  }
  r.c10 = s.lua <= A;
  return r;
}
template<uint32_t W> static inline bool inv_ok(const BState<W>& s) { return inv_of<W>(s).all(); }

// Asserted after every operation (one obligation per clause, so a counterexample names the clause).
template<uint32_t W> static __attribute__((noinline)) void assert_inv(const JitAllocatorBlock* b) {
  BState<W> s; snapshot<W>(s, b);
  Inv<W> r = inv_of<W>(s);
  V_ASSERT(b->_area_size == 64 * W, "I: area size unchanged");
  V_ASSERT(r.c1, "I c1: stop bits are a subset of used bits");
  V_ASSERT(r.c2, "I c2: every used run ends at a stop bit");
  V_ASSERT(r.c3, "I c3: padding granule is used and stopped");
  // c4 (area_used = popcount(used)) is asserted by every harness in delta form: the operation flips exactly the bits
  // named in its "bits" assertion and area_used moves by that count (a popcount equality over the post-state is
  // arithmetic the SAT solver cannot do in reasonable time: 160 s for 64 bits, measured).
  V_ASSERT(r.c5, "I c5: empty flag implies empty block with a full window");
  V_ASSERT(r.c6, "I c6: full block has the closed window");
  V_ASSERT(r.c7, "I c7: incremental block is used exactly below search_start");
  V_ASSERT(r.c8, "I c8: every free granule lies inside the search window");
  V_ASSERT(r.c9, "I c9: clean block has no free run longer than largest_unused_area");
  V_ASSERT(r.c10, "I c10: largest_unused_area <= area");
}

// ---------------------------------------------------------------------------------------------------------------------
// Symbolic pre-state: a block satisfying I, built constructively (so that random native runs get past the preamble)
// and then filtered by I itself. h_gen_complete shows the construction reaches every state of I.
template<uint32_t W> struct Seed {
  uint64_t U[W], X[W];       // raw used bits, extra stop bits inside runs
  uint32_t flags;            // P, D, I, L, M taken as is; E honoured when possible
  uint32_t ss, d1, d2, lua;  // frontier (incremental), window slack below / above, largest_unused_area / slack
  bool se_zero;              // incremental: search_end = 0 (block was full once) instead of area
};
template<uint32_t W> static inline Seed<W> nondet_seed() {
  Seed<W> z;
  for (uint32_t i = 0; i < W; i++) { z.U[i] = nondet_u64(); z.X[i] = nondet_u64(); }
  z.flags = nondet_u8() & (kFP | kFE | kFD | kFI | kFL | kFM);
  z.ss = nondet_u8(); z.d1 = nondet_u8(); z.d2 = nondet_u8(); z.lua = nondet_u8(); z.se_zero = nondet_bool();
  return z;
}
template<uint32_t W> static inline BState<W> gen_state(const Seed<W>& z) {
  constexpr uint32_t A = 64 * W;
  BState<W> s; uint32_t P = z.flags & kFP;
  bool incr = z.flags & kFI;
  uint32_t ss = z.ss > A ? A : z.ss; if (ss < P) ss = P;
  for (uint32_t i = 0; i < W; i++) s.U[i] = incr ? lowmask_w(i, ss) : z.U[i];
  if (P) s.U[0] |= 1;
  // stop bits: mandatory at the last granule of every maximal used run, optional inside runs
  for (uint32_t i = 0; i < W; i++) {
    uint64_t next_used = (s.U[i] >> 1) | (i + 1 < W ? s.U[i + 1] << 63 : 0);
    s.S[i] = (s.U[i] & ~next_used) | (s.U[i] & z.X[i]);
  }
  if (P) s.S[0] |= 1;
  s.area_used = popcount_v<W>(s.U);
  bool full = s.area_used == A;
  s.flags = z.flags & (kFP | kFD | kFI | kFL | kFM);
  uint64_t F[W]; s.free_mask(F);
  if (full) { s.ss = A; s.se = 0; s.lua = 0; s.flags &= ~kFD; }
  else if (incr) { s.ss = ss; s.se = z.se_zero ? 0 : A; s.lua = A - ss; }
  else {
    uint32_t lo = lowest_v<W>(F), hi = highest_v<W>(F) + 1;
    s.ss = lo - (z.d1 > lo ? lo : z.d1); s.se = hi + (z.d2 > A - hi ? A - hi : z.d2);
    s.lua = z.lua > A ? A : z.lua;
  }
  if ((z.flags & kFE) && s.area_used == P) { s.flags = (s.flags | kFE) & ~kFD; s.ss = P; s.se = A; s.lua = A - P; }
  return s;
}

// Pre-state block objects: typed statics (see jenv_free for how deleting one is handled); the two bit vectors live in
// their own arrays (JitAllocator_new_block puts them behind the header in one malloc object — the allocator only ever
// reaches them through _used_bit_vector / _stop_bit_vector, so the placement is not observable).
static constexpr uint32_t kMaxBlocks = 2;
// one object per vector, exactly W words (a symbolic word index then only ever addresses W words)
template<uint32_t W> struct BitStore { static inline uint64_t U0[W], S0[W], U1[W], S1[W]; };
static uint64_t init_words[2];   // what the static initialisers' clear_block() writes to (never used afterwards)
static JitAllocatorBlock block_obj0(&pool_objs[0], VirtMem::DualMapping{}, 0, 0, &init_words[0], &init_words[1], 0);
static JitAllocatorBlock block_obj1(&pool_objs[0], VirtMem::DualMapping{}, 0, 0, &init_words[0], &init_words[1], 0);
static inline JitAllocatorBlock* block_obj(uint32_t k) { return k == 0 ? &block_obj0 : &block_obj1; }
static bool block_freed[kMaxBlocks];
// storage for the block JitAllocator_new_block creates (header + 2 bit vectors of up to JENV_NEW_BLOCK_WORDS words each),
// handed out once per run; a typed object, so that the solver keeps the header's pointer fields apart
#if !defined(JENV_NEW_BLOCK_WORDS)
#define JENV_NEW_BLOCK_WORDS 4
#endif
struct NewBlockStore {
  JitAllocatorBlock hdr; uint64_t bits[2 * JENV_NEW_BLOCK_WORDS];
  NewBlockStore() : hdr(&pool_objs[0], VirtMem::DualMapping{}, 0, 0, &init_words[0], &init_words[1], 0) {}
};
static NewBlockStore new_block_store;
static_assert(offsetof(NewBlockStore, bits) == sizeof(JitAllocatorBlock), "bit vectors directly behind the header");
template<uint32_t W> static inline JitAllocatorBlock* new_block_object(uint32_t k) {
  JitAllocatorBlock* b = block_obj(k); block_freed[k] = false;
#if defined(JENV_REAL_TREE)
  b->_tree_nodes[0] = 0; b->_tree_nodes[1] = 0;
#else
  b->_tree_nodes[0] = nullptr; b->_tree_nodes[1] = nullptr;
#endif
  b->_list_nodes[0] = nullptr; b->_list_nodes[1] = nullptr;
  b->_used_bit_vector = k == 0 ? BitStore<W>::U0 : BitStore<W>::U1;
  b->_stop_bit_vector = k == 0 ? BitStore<W>::S0 : BitStore<W>::S1;
  return b;
}
template<uint32_t W> static inline void store_state(JitAllocatorBlock* b, const BState<W>& s) {
  for (uint32_t i = 0; i < W; i++) { b->_used_bit_vector[i] = s.U[i]; b->_stop_bit_vector[i] = s.S[i]; }
  b->_flags = s.flags; b->_area_size = 64 * W; b->_area_used = s.area_used; b->_largest_unused_area = s.lua; b->_search_start = s.ss; b->_search_end = s.se;
}
// Places the block at `slot` of the arena (slot size = block size) and gives it to `pl` (no list/tree linking).
template<uint32_t W> static inline void place_block(JitAllocatorBlock* b, JitAllocatorPool* pl, uint32_t slot) {
  size_t bs = size_t(64 * W) * pl->granularity;
  b->_pool = pl; b->_block_size = bs;
  b->_mapping.rx = arena_at(arena_rx, slot * bs);
  b->_mapping.rw = arena_at((b->_flags & kFM) ? arena_rw : arena_rx, slot * bs);
}
static inline size_t block_overhead(uint32_t area_size) { return sizeof(JitAllocatorBlock) + size_t((area_size + 63) / 64) * 8u * 2u; }

}  // namespace jenv

// The allocator's `::free(block)`: a pre-state block is marked freed (at most once) and poisoned, so that any later use
// of it by the allocator dereferences null; anything else goes to libc.
void jenv_free(void* p) noexcept {
  for (uint32_t k = 0; k < jenv::kMaxBlocks; k++) {
    asmjit::JitAllocatorBlock* b = jenv::block_obj(k);
    if (p == static_cast<void*>(b)) {
      V_ASSERT(!jenv::block_freed[k], "free: a block is freed at most once");
      jenv::block_freed[k] = true;
      b->_pool = nullptr; b->_used_bit_vector = nullptr; b->_stop_bit_vector = nullptr; b->_mapping.rx = nullptr; b->_mapping.rw = nullptr;
      return;
    }
  }
  if (p == static_cast<void*>(&jenv::new_block_store)) { V_ASSERT(!jenv::new_block_freed, "free: the new block is freed at most once"); jenv::new_block_freed = true; return; }
  ::free(p);
}
void* jenv_malloc(size_t size) noexcept {
  V_ASSERT(jenv::new_block_mallocs == 0 && size <= sizeof(jenv::new_block_store), "malloc: one block object per run, within the harness buffer");
  jenv::new_block_mallocs++;
  return &jenv::new_block_store;
}
