// C07/H2 (AArch64) — prolog, arbitrary body, epilog on an abstract machine.
// Code under test: the real a64::EmitHelper::emit_prolog / emit_epilog (arm/a64emithelper.cpp) on a frame produced by the real
// CallConv::init + FuncFrame::init + FuncFrame::finalize. BaseEmitter::_emitI(...) is defined here and interprets
// stp/ldp/str/ldr (x and d registers; offset, pre-index and post-index forms), mov x29, sp, add/sub sp, sp, #imm, ret x30, bti.
// Machine: x0-x30 + sp (32-bit model values, see h_prolog_x86.cpp), d0-d31, stack memory as the set of stores made so far.
#include <asmjit/a64.h>
#include <asmjit/arm/a64emithelper_p.h>
#include "verif.h"
using namespace asmjit;

namespace mach {
typedef uint32_t val_t;
enum : uint32_t { G_GP = 0, G_VEC = 1 };
static val_t x[32], d[32];               // x[31] is SP
static val_t s_addr[2][32], s_val[2][32]; static uint32_t s_valid[2];
static val_t ex_lo, ex_hi; static bool ex_valid;
static val_t sp_entry;
static bool ret_seen; static val_t ret_target; static uint32_t n_inst, n_store;
static bool in_epilog;
static uint32_t viol;
#define CHK(k, c) do { if (!(c)) mach::viol |= 1u << (k); } while (0)

static void store(uint32_t g, uint32_t r, val_t addr, val_t v) {
  CHK(0, addr >= x[31]);                                                   // no store below the current stack pointer
  CHK(1, addr + 8 <= sp_entry);                                            // no store at or above the entry stack pointer
  CHK(2, !ex_valid || addr + 8 <= ex_lo || addr >= ex_hi);                 // register save does not overlap an earlier save
  if (!ex_valid) { ex_lo = addr; ex_hi = addr + 8; ex_valid = true; } else { if (addr < ex_lo) ex_lo = addr; if (addr + 8 > ex_hi) ex_hi = addr + 8; }
  CHK(3, ((s_valid[g & 1] >> (r & 31)) & 1) == 0);                         // a register is saved once
  s_addr[g & 1][r & 31] = addr; s_val[g & 1][r & 31] = v; s_valid[g & 1] |= 1u << (r & 31);
  n_store++;
}
static val_t load(uint32_t g, uint32_t r, val_t addr) {
  val_t v = nondet_u32();
  if (((s_valid[g & 1] >> (r & 31)) & 1) && s_addr[g & 1][r & 31] == addr) v = s_val[g & 1][r & 31];
  return v;
}
// effective address of a load/store and the base register write-back
static val_t ea(const Operand_& o) {
  const a64::Mem& m = o.as<a64::Mem>();
  CHK(4, m.has_base_reg() && !m.has_index() && m.base_id() == 31);         // model: stack accesses are sp plus immediate
  CHK(5, x[31] % 16 == 0);                                                 // SP is 16-byte aligned whenever it is used as a base (hardware check)
  val_t off = val_t(int32_t(m.offset()));
  if (m.is_pre_index()) { x[31] += off; return x[31]; }
  if (m.is_post_index()) { val_t a = x[31]; x[31] += off; return a; }
  return x[31] + off;
}

static Error exec(InstId id, const Operand_& o0, const Operand_& o1, const Operand_& o2) {
  n_inst++;
  // Register saves and restores are recognised by their operand shapes and by the phase (prolog stores, epilog loads), which
  // are concrete at every call site; the instruction id (looked up in a table by the real code) is only checked for agreement.
  if (o0.is_reg() && (o1.is_mem() || (o1.is_reg() && o2.is_mem()))) {
    bool pair = o1.is_reg();
    uint32_t g = o0.as<Reg>().is_gp() ? G_GP : G_VEC;
    uint32_t r0 = o0.id(), r1 = pair ? o1.id() : 0;
    CHK(6, r0 < 31 + g && (!pair || (r1 < 31 + g && r1 != r0)) && (g == G_GP ? o0.as<Reg>().is_gp64() && (!pair || o1.as<Reg>().is_gp64()) : o0.as<Reg>().is_vec64() && (!pair || o1.as<Reg>().is_vec64())));
    InstId want = !in_epilog ? (pair ? (g == G_GP ? a64::Inst::kIdStp : a64::Inst::kIdStp_v) : (g == G_GP ? a64::Inst::kIdStr : a64::Inst::kIdStr_v))
                             : (pair ? (g == G_GP ? a64::Inst::kIdLdp : a64::Inst::kIdLdp_v) : (g == G_GP ? a64::Inst::kIdLdr : a64::Inst::kIdLdr_v));
    CHK(7, id == want);
    val_t a = ea(pair ? o2 : o1);
    if (!in_epilog) {
      store(g, r0, a, g == G_GP ? x[r0 & 31] : d[r0 & 31]);
      if (pair) store(g, r1, a + 8, g == G_GP ? x[r1 & 31] : d[r1 & 31]);
    } else {
      val_t v0 = load(g, r0, a), v1 = pair ? load(g, r1, a + 8) : 0;
      if (g == G_GP) { x[r0 & 31] = v0; if (pair) x[r1 & 31] = v1; } else { d[r0 & 31] = v0; if (pair) d[r1 & 31] = v1; }
    }
    return Error::kOk;
  }
  switch (id) {
    case a64::Inst::kIdMov: { CHK(10, o0.is_reg() && o1.is_reg() && o0.id() < 32 && o1.id() < 32); x[o0.id() & 31] = x[o1.id() & 31]; break; }   // mov x29, sp
    case a64::Inst::kIdSub: { CHK(11, o0.is_reg() && o1.is_reg() && o2.is_imm() && o0.id() == 31 && o1.id() == 31); x[31] -= val_t(o2.as<Imm>().value()); break; }
    case a64::Inst::kIdAdd: { CHK(12, o0.is_reg() && o1.is_reg() && o2.is_imm() && o0.id() == 31 && o1.id() == 31); x[31] += val_t(o2.as<Imm>().value()); break; }
    case a64::Inst::kIdBti: break;
    case a64::Inst::kIdRet: { CHK(13, !ret_seen && o0.is_reg() && o0.id() == 30); ret_target = x[30]; ret_seen = true; break; }
    default: CHK(14, false); break;   // instruction outside the model
  }
  return Error::kOk;
}
static void flush_checks() {
  V_ASSERT(((viol >> 0) & 1) == 0, "no store below the current stack pointer");
  V_ASSERT(((viol >> 1) & 1) == 0, "no store at or above the entry stack pointer");
  V_ASSERT(((viol >> 2) & 1) == 0, "register save does not overlap an earlier save");
  V_ASSERT(((viol >> 3) & 1) == 0, "a register is saved once");
  V_ASSERT(((viol >> 4) & 1) == 0, "model: stack accesses are sp plus immediate");
  V_ASSERT(((viol >> 5) & 1) == 0, "SP is 16-byte aligned whenever it is used as a base address");
  V_ASSERT(((viol >> 6) & 1) == 0, "register saves move x registers (not sp) or d registers, two distinct ones in a pair");
  V_ASSERT(((viol >> 7) & 1) == 0, "prolog uses stp and str, epilog ldp and ldr, of the register kind being saved");
  V_ASSERT(((viol >> 10) & 1) == 0, "mov between x registers");
  V_ASSERT(((viol >> 11) & 1) == 0, "sub sp, sp, imm");
  V_ASSERT(((viol >> 12) & 1) == 0, "add sp, sp, imm");
  V_ASSERT(((viol >> 13) & 1) == 0, "single ret through x30");
  V_ASSERT(((viol >> 14) & 1) == 0, "instruction outside the prolog-epilog model");
}
}  // namespace mach

ASMJIT_BEGIN_NAMESPACE
static const Operand_ none_op {};
Error BaseEmitter::_emitI(InstId inst_id) { return mach::exec(inst_id, none_op, none_op, none_op); }
Error BaseEmitter::_emitI(InstId inst_id, const Operand_& o0) { return mach::exec(inst_id, o0, none_op, none_op); }
Error BaseEmitter::_emitI(InstId inst_id, const Operand_& o0, const Operand_& o1) { return mach::exec(inst_id, o0, o1, none_op); }
Error BaseEmitter::_emitI(InstId inst_id, const Operand_& o0, const Operand_& o1, const Operand_& o2) { return mach::exec(inst_id, o0, o1, o2); }
ASMJIT_END_NAMESPACE

alignas(16) static unsigned char emitter_mem[sizeof(BaseEmitter)];
enum Known { K_NONE, K_C07C, K_C07D, K_C07E };

// SMALL: quick-tier slice - only x19-x21, x29, x30 and d8-d10 may be dirty (3 + 2 register pairs at most); the thorough tier
// runs the same harness with all 2^32 x 2^32 dirty masks.
// (SMALL == 2, companions of known findings: x19, x29, x30 only, no vector register; SMALL == 3, light-call, where every
// register from x4 / v4 up is callee-saved: only x19-x21, x29, x30, d8-d10 may be dirty.)
template<Known KNOWN, CallConvId CCID, bool DARWIN, int SMALL>
static void run() {
  using namespace mach;
  constexpr Arch ARCH = Arch::kAArch64;
  Environment env(ARCH, SubArch::kUnknown, Vendor::kUnknown, DARWIN ? Platform::kOSX : Platform::kLinux, DARWIN ? PlatformABI::kDarwin : PlatformABI::kGNU);
  FuncDetail fd;
  V_ASSERT(fd._call_conv.init(CCID, env) == Error::kOk, "calling convention id accepted");
  const CallConv& cc = fd._call_conv;
  for (RegGroup g : Support::enumerate(RegGroup::kMaxVirt)) fd._used_regs[g] = nondet_u32() & cc._passed_regs[g];
  fd._arg_stack_size = nondet_u32() & 0xF8;
  FuncFrame f;
  V_ASSERT(f.init(fd) == Error::kOk, "frame init accepted");
  V_ASSERT(f.arch() == ARCH, "frame arch copied from the convention");
  f._arch = ARCH;   // constant index into the arch-traits table (no-op natively)

  f.add_dirty_regs(RegGroup::kGp, nondet_u32() & (SMALL == 3 ? 0x60380000u : SMALL == 2 ? 0x60080000u | 0x3FFFFu : SMALL ? 0x60380000u | 0x3FFFFu : ~0u));   // (registers the convention does not preserve are never saved)
  f.add_dirty_regs(RegGroup::kVec, nondet_u32() & (SMALL == 3 ? 0x00000700u : SMALL == 2 ? 0xFFFF00FFu : SMALL ? 0xFFFF07FFu : ~0u));
  uint32_t lsz = nondet_u32() & 0xFFF8, csz = nondet_u32() & 0xFFF8;   // 0..65528, whole 8-byte words
  f.set_local_stack_size(lsz); f.set_call_stack_size(csz);
  uint32_t la = 1u << (nondet_u8() % 7), ca = 1u << (nondet_u8() % 7);
  f.set_local_stack_alignment(la); f.set_call_stack_alignment(ca);
  f.add_attributes(FuncAttributes(nondet_u32()) & (FuncAttributes::kHasVarArgs | FuncAttributes::kHasPreservedFP | FuncAttributes::kHasFuncCalls | FuncAttributes::kIndirectBranchProtection));
  if (f.has_preserved_fp() && nondet_bool()) f.set_sa_reg_id(29);   // FuncArgsContext::mark_stack_args_reg with a preserved FP
  uint32_t pres_gp = f.preserved_regs(RegGroup::kGp), pres_vec = f.preserved_regs(RegGroup::kVec);
  V_ASSERT(f.finalize() == Error::kOk, "finalize accepted");
  uint32_t A = f.final_stack_alignment();
  bool has_fp = f.has_preserved_fp(), has_da = f.has_dynamic_alignment();
  uint32_t n_saved_vec = uint32_t(__builtin_popcount(f.saved_regs(RegGroup::kVec)));
  // Known findings. C07C (no realignment on AArch64) and C07D (FP-relative stack argument offset) each break exactly one
  // assertion below: the main harnesses keep the whole input space and leave that one assertion to the companion harness.
  // C07E (odd number of 16-byte vector slots, light-call only) breaks the SP arithmetic altogether: its region is excluded.
  bool r_c = has_da, r_d = has_fp;
  bool r_e = cc.save_restore_reg_size(RegGroup::kVec) == 16 && (n_saved_vec & 1);
  if (KNOWN == K_C07C) V_ASSUME(r_c);
  if (KNOWN == K_C07D) V_ASSUME(r_d);
#if KF_C07E
  if (KNOWN == K_C07E) V_ASSUME(r_e); else V_ASSUME(!r_e);
#endif
#if KF_C07C
  constexpr bool check_c = KNOWN == K_C07C;
#else
  constexpr bool check_c = true;
#endif
#if KF_C07D
  constexpr bool check_d = KNOWN == K_C07D;
#else
  constexpr bool check_d = true;
#endif

  // ---- machine at function entry: SP 16-byte aligned, every register symbolic
  val_t entry_x[32], entry_d[32];
  for (uint32_t i = 0; i < 32; i++) { entry_x[i] = nondet_u32(); x[i] = entry_x[i]; entry_d[i] = nondet_u32(); d[i] = entry_d[i]; }
  val_t sp0 = nondet_u32() & ~val_t(15);
  V_ASSUME(sp0 >= 0x100000 && sp0 <= 0x7FFF0000u);   // room for the largest frame below, no wrap-around above
  x[31] = sp0; sp_entry = sp0;
  s_valid[0] = s_valid[1] = 0; ex_valid = false; viol = 0; in_epilog = false; ret_seen = false; n_inst = 0; n_store = 0;
  BaseEmitter* em = reinterpret_cast<BaseEmitter*>(emitter_mem);
  em->_environment = env;
  em->_gp_signature = OperandSignature{RegTraits<RegType::kGp64>::kSignature};
  a64::EmitHelper helper(em);

  Error ep = helper.emit_prolog(f);
  V_ASSERT(ep == Error::kOk, "prolog emitted");
  flush_checks();
  val_t sp_body = x[31];
  uint32_t P = f.push_pop_save_size(), S = f.stack_adjustment();
  verif_observe(sp0 - sp_body); verif_observe(n_inst); verif_observe(n_store);
  V_ASSERT(sp_body == sp0 - P - S, "body SP = entry SP minus register save area minus adjustment");
  if (!r_c || check_c) V_ASSERT(sp_body % A == 0, "inside the body SP has the promised alignment");
  if (!has_da) V_ASSERT(sp_body + f.sa_offset_from_sp() == sp0, "stack arguments at SP plus sa_offset_from_sp");
  if (has_fp && check_d) V_ASSERT(x[29] + f.sa_offset_from_sa() == sp0, "with a preserved FP stack arguments are at x29 plus sa_offset_from_sa");
  val_t c0 = sp_body, l0 = sp_body + f.local_stack_offset();
  V_ASSERT(c0 + csz <= l0 && l0 + lsz <= sp0 && (!ex_valid || l0 + lsz <= ex_lo), "call area below local area below every saved register");

  // ---- body
  uint32_t clob_gp = (f.dirty_regs(RegGroup::kGp) | ~pres_gp) & ~(1u << 31);
  if (has_fp) clob_gp &= ~(1u << 29);
  uint32_t clob_vec = f.dirty_regs(RegGroup::kVec) | ~pres_vec;
  for (uint32_t i = 0; i < 32; i++) { if ((clob_gp >> i) & 1) x[i] = nondet_u32(); if ((clob_vec >> i) & 1) d[i] = nondet_u32(); }

  in_epilog = true;
  Error ee = helper.emit_epilog(f);
  V_ASSERT(ee == Error::kOk, "epilog emitted");
  flush_checks();
  V_ASSERT(ret_seen, "epilog ends in ret");
  V_ASSERT(ret_target == entry_x[30], "ret returns to the caller (entry value of x30)");
  V_ASSERT(x[31] == sp0, "SP after ret = entry SP");
  for (uint32_t i = 0; i < 31; i++) {
    if ((pres_gp >> i) & 1) V_ASSERT(x[i] == entry_x[i], "callee-saved x register holds its entry value at ret");
    if ((pres_vec >> i) & 1) V_ASSERT(d[i] == entry_d[i], "callee-saved d register holds its entry value at ret");
  }
  if (has_fp) V_WITNESS("with-fp-lr-pair"); else V_WITNESS("without-fp");
  if constexpr (SMALL != 2) { if (f.saved_regs(RegGroup::kVec) && f.saved_regs(RegGroup::kGp)) V_WITNESS("gp-and-vector-pairs"); }
  if (S > 0xFFF) V_WITNESS("two-step-adjustment");
}

HARNESS h_prolog_a64_aapcs_small() { run<K_NONE, CallConvId::kCDecl, false, 1>(); }
HARNESS h_prolog_a64_apple_small() { run<K_NONE, CallConvId::kCDecl, true, 1>(); }
HARNESS h_prolog_a64_kf_C07C() { run<K_C07C, CallConvId::kCDecl, false, 2>(); }
HARNESS h_prolog_a64_kf_C07D() { run<K_C07D, CallConvId::kCDecl, false, 2>(); }
HARNESS h_prolog_a64_aapcs() { run<K_NONE, CallConvId::kCDecl, false, 0>(); }
HARNESS h_prolog_a64_apple() { run<K_NONE, CallConvId::kCDecl, true, 0>(); }
HARNESS h_prolog_a64_light_small() { run<K_NONE, CallConvId::kLightCall2, false, 3>(); }
HARNESS h_prolog_a64_kf_C07E() { run<K_C07E, CallConvId::kLightCall2, false, 3>(); }
