// C07/H2 (x86-32 / x86-64) — prolog, arbitrary body, epilog on an abstract machine.
// Code under test: the real x86::EmitHelper::emit_prolog / emit_epilog (x86/x86emithelper.cpp) on a frame produced by the real
// CallConv::init + FuncFrame::init + FuncFrame::finalize. The emitter is a model: BaseEmitter::_emitI(...) (the only entry point
// the x86::Emitter wrappers use) is defined here and interprets each instruction on
//   * GP registers (numeric 64-bit values; rsp/rbp/sa hold addresses), xmm (2x64), k, mm registers - all symbolic at entry,
//   * a word-addressed stack memory window below the caller's frame, symbolic entry SP with the alignment the convention gives.
// Body = havoc of every register the frame may clobber (dirty or caller-saved) and of the words of the call + local areas only.
// Asserted at ret: SP = entry SP + return address (+ callee cleanup), return address word intact and used, every callee-saved
// register (incl. xmm6-15 on Win64) holds its entry value; during the run: no store at or above the return address, no store
// below the current SP, aligned moves only to 16-aligned addresses; inside the body: promised SP alignment and stack-argument base.
#include <asmjit/x86.h>
#include <asmjit/x86/x86emithelper_p.h>
#include "verif.h"
using namespace asmjit;

namespace mach {
// Machine-level obligations are accumulated in sticky flags and asserted once after the prolog and once after the epilog
// (one proof obligation per kind instead of one per executed instruction).
static uint32_t viol;   // bit k = obligation k violated
#define CHK(k, c) do { if (!(c)) mach::viol |= 1u << (k); } while (0)
// Values are 32-bit in the model for both architectures: saved register contents are only compared for equality and every
// address is below 2^31, so the arithmetic the prolog does on rsp/rbp (push, sub, add, and, lea) is exact.
typedef uint32_t val_t;
// Stack memory is modelled as the set of stores made so far: one slot per (register group, register id) plus the DA slot.
// Disjointness of the stores is established by a sufficient condition that costs O(1) per store: pushes form a hull that only
// grows downwards; the register saves form a second hull below the pushes that only grows at its ends; the DA slot is a third
// interval. The body
// may overwrite the call and local areas only, which must lie below both hulls. Under these (asserted) conditions a load of
// register r at the address and size r was stored with returns the stored value; any other load returns garbage (nondet).
enum : uint32_t { G_GP = 0, G_VEC = 1, G_K = 2, G_MM = 3, G_DA = 4 };
static val_t gp[16], vec[16], kr[8], mmr[8];
static val_t s_addr[4][16], s_val[4][16]; static uint32_t s_valid[4];
static val_t da_addr, da_val; static bool da_valid;
static val_t push_lo;            // lowest address written by a push (initially: the return address word)
static val_t ex_lo, ex_hi; static bool ex_valid;   // hull of all other stores
static val_t top;               // first address above the return address word
static val_t ret_word;          // the caller's return address (at top - W)
static uint32_t W;              // word = GP register size
static bool ret_seen; static val_t ret_target; static uint32_t n_inst, n_store;

static inline uint32_t size_of_group(uint32_t g) { return g == G_GP || g == G_DA ? W : g == G_VEC ? 16u : 8u; }

static void store(uint32_t g, uint32_t r, val_t addr, val_t v, bool is_push) {
  uint32_t size = size_of_group(g);
  CHK(0, addr >= gp[4]);
  if (is_push) { CHK(1, addr + size <= push_lo && (!ex_valid || ex_hi <= addr)); push_lo = addr; }
  else {
    CHK(2, addr + size <= push_lo);
    if (g == G_DA) CHK(3, !ex_valid || addr + size <= ex_lo || addr >= ex_hi);                 // the DA slot is an interval of its own
    else {
      CHK(3, (!ex_valid || addr + size <= ex_lo || addr >= ex_hi) && (!da_valid || addr + size <= da_addr || addr >= da_addr + W));
      if (!ex_valid) { ex_lo = addr; ex_hi = addr + size; ex_valid = true; } else { if (addr < ex_lo) ex_lo = addr; if (addr + size > ex_hi) ex_hi = addr + size; }
    }
  }
  if (g == G_DA) { CHK(4, !da_valid); da_addr = addr; da_val = v; da_valid = true; }
  else { CHK(5, ((s_valid[g & 3] >> (r & 15)) & 1) == 0); s_addr[g & 3][r & 15] = addr; s_val[g & 3][r & 15] = v; s_valid[g & 3] |= 1u << (r & 15); }
  n_store++;
}
// value found at addr when loading register r of group g: what r was saved with if that is its slot, else garbage
static val_t load(uint32_t g, uint32_t r, val_t addr) {
  val_t v = nondet_u32();
  if (((s_valid[g & 3] >> (r & 15)) & 1) && s_addr[g & 3][r & 15] == addr) v = s_val[g & 3][r & 15];
  if (g == G_GP && r == 4 && da_valid && da_addr == addr) v = da_val;
  return v;
}

static val_t ea(const Operand_& o) {
  const x86::Mem& m = o.as<x86::Mem>();
  CHK(6, m.has_base_reg() && !m.has_index() && m.base_id() < 16);
  return gp[m.base_id() & 15] + val_t(int32_t(m.offset()));
}

static Error exec(InstId id, const Operand_& o0, const Operand_& o1) {
  n_inst++;
  // Register-save moves (xmm, k, mm <-> memory) are recognised by their operand kinds, which are concrete at every call site,
  // not by the instruction id, which depends on frame attributes (movaps, movups, vmovaps, vmovups).
  {
    const Operand_& ro = o0.is_mem() ? o1 : o0; const Operand_& mo = o0.is_mem() ? o0 : o1;
    if (ro.is_reg() && !ro.as<Reg>().is_gp()) {
      bool is_store = o0.is_mem();
      RegType rt = ro.as<Reg>().reg_type(); uint32_t r = ro.id();
      CHK(7, mo.is_mem() && (rt == RegType::kVec128 || rt == RegType::kMask || rt == RegType::kX86_Mm));
      val_t a = ea(mo);
      if (rt == RegType::kVec128) {
        bool aligned = id == x86::Inst::kIdMovaps || id == x86::Inst::kIdVmovaps;
        CHK(8, r < 16 && (aligned || id == x86::Inst::kIdMovups || id == x86::Inst::kIdVmovups));
        CHK(9, !aligned || a % 16 == 0);
        if (is_store) store(G_VEC, r, a, vec[r & 15], false); else vec[r & 15] = load(G_VEC, r, a);
      } else if (rt == RegType::kMask) {
        CHK(10, r < 8 && id == x86::Inst::kIdKmovq);
        if (is_store) store(G_K, r, a, kr[r & 7], false); else kr[r & 7] = load(G_K, r, a);
      } else {
        CHK(11, r < 8 && id == x86::Inst::kIdMovq);
        if (is_store) store(G_MM, r, a, mmr[r & 7], false); else mmr[r & 7] = load(G_MM, r, a);
      }
      return Error::kOk;
    }
  }
  switch (id) {
    case x86::Inst::kIdPush: {
      CHK(12, o0.is_reg() && o0.as<Reg>().is_gp() && o0.id() < 16);
      gp[4] = gp[4] - W; store(G_GP, o0.id(), gp[4], gp[o0.id() & 15], true); break;
    }
    case x86::Inst::kIdPop: {
      CHK(13, o0.is_reg() && o0.as<Reg>().is_gp() && o0.id() < 16 && o0.id() != 4);
      gp[o0.id() & 15] = load(G_GP, o0.id(), gp[4]); gp[4] = gp[4] + W; break;
    }
    case x86::Inst::kIdMov: {
      if (o0.is_reg() && o1.is_reg()) { CHK(14, o0.id() < 16 && o1.id() < 16); gp[o0.id() & 15] = gp[o1.id() & 15]; }
      else if (o0.is_mem() && o1.is_reg()) { CHK(15, o1.id() < 16); store(G_DA, 0, ea(o0), gp[o1.id() & 15], false); }
      else { CHK(16, o0.is_reg() && o1.is_mem() && o0.id() < 16); gp[o0.id() & 15] = load(G_GP, o0.id(), ea(o1)); }
      break;
    }
    case x86::Inst::kIdLea: { CHK(17, o0.is_reg() && o1.is_mem() && o0.id() < 16); gp[o0.id() & 15] = ea(o1); break; }
    case x86::Inst::kIdAnd: { CHK(18, o0.is_reg() && o1.is_imm() && o0.id() < 16); gp[o0.id() & 15] &= val_t(o1.as<Imm>().value()); break; }
    case x86::Inst::kIdSub: { CHK(19, o0.is_reg() && o1.is_imm() && o0.id() < 16); gp[o0.id() & 15] -= val_t(o1.as<Imm>().value()); break; }
    case x86::Inst::kIdAdd: { CHK(20, o0.is_reg() && o1.is_imm() && o0.id() < 16); gp[o0.id() & 15] += val_t(o1.as<Imm>().value()); break; }
    case x86::Inst::kIdEmms: case x86::Inst::kIdVzeroupper: case x86::Inst::kIdEndbr32: case x86::Inst::kIdEndbr64: break;
    case x86::Inst::kIdRet: {
      CHK(21, !ret_seen);
      val_t pop = o0.is_imm() ? val_t(o0.as<Imm>().value()) : 0;
      ret_target = gp[4] == top - W ? ret_word : nondet_u32(); gp[4] = gp[4] + W + pop; ret_seen = true; break;
    }
    default: CHK(22, false); break;
  }
  return Error::kOk;
}
static void flush_checks() {
  V_ASSERT(((viol >> 0) & 1) == 0, "no store below the current stack pointer");
  V_ASSERT(((viol >> 1) & 1) == 0, "a push goes below every earlier push and above the other saves");
  V_ASSERT(((viol >> 2) & 1) == 0, "register save lies below the pushed registers and the return address");
  V_ASSERT(((viol >> 3) & 1) == 0, "register save does not overlap an earlier save");
  V_ASSERT(((viol >> 4) & 1) == 0, "DA slot written once");
  V_ASSERT(((viol >> 5) & 1) == 0, "a register is saved once");
  V_ASSERT(((viol >> 6) & 1) == 0, "model: memory operand is base plus displacement");
  V_ASSERT(((viol >> 7) & 1) == 0, "register save moves an xmm, k or mm register to or from memory");
  V_ASSERT(((viol >> 8) & 1) == 0, "xmm registers are saved with movaps, movups, vmovaps or vmovups");
  V_ASSERT(((viol >> 9) & 1) == 0, "aligned vector move uses a 16-byte aligned address");
  V_ASSERT(((viol >> 10) & 1) == 0, "k registers are saved with kmovq");
  V_ASSERT(((viol >> 11) & 1) == 0, "mm registers are saved with movq");
  V_ASSERT(((viol >> 12) & 1) == 0, "push of a GP register");
  V_ASSERT(((viol >> 13) & 1) == 0, "pop into a GP register other than SP");
  V_ASSERT(((viol >> 14) & 1) == 0, "mov r, r");
  V_ASSERT(((viol >> 15) & 1) == 0, "mov m, r");
  V_ASSERT(((viol >> 16) & 1) == 0, "mov r, m");
  V_ASSERT(((viol >> 17) & 1) == 0, "lea r, m");
  V_ASSERT(((viol >> 18) & 1) == 0, "and r, imm");
  V_ASSERT(((viol >> 19) & 1) == 0, "sub r, imm");
  V_ASSERT(((viol >> 20) & 1) == 0, "add r, imm");
  V_ASSERT(((viol >> 21) & 1) == 0, "single ret");
  V_ASSERT(((viol >> 22) & 1) == 0, "instruction outside the prolog-epilog model");
}
}  // namespace mach

// The model emitter: every x86::Emitter wrapper (push, mov, emit(id, ...)) ends in one of these.
ASMJIT_BEGIN_NAMESPACE
static const Operand_ none_op {};
Error BaseEmitter::_emitI(InstId inst_id) { return mach::exec(inst_id, none_op, none_op); }
Error BaseEmitter::_emitI(InstId inst_id, const Operand_& o0) { return mach::exec(inst_id, o0, none_op); }
Error BaseEmitter::_emitI(InstId inst_id, const Operand_& o0, const Operand_& o1) { return mach::exec(inst_id, o0, o1); }
ASMJIT_END_NAMESPACE

alignas(16) static unsigned char emitter_mem[sizeof(BaseEmitter)];

enum Known { K_NONE, K_C07A, K_C07B };
// CUSTOM: the frame's preserved sets are extended as a user-defined convention may do (k, mm, more xmm registers)
template<Arch ARCH, Known KNOWN, bool CUSTOM, bool VECS, CallConvId CCID>
static void run(Platform plat, PlatformABI pabi) {
  constexpr CallConvId ccid = CCID;
  using namespace mach;
  constexpr bool k32 = ARCH == Arch::kX86;
  constexpr uint32_t NV = 16;     // xmm0-15 (light-call with AVX-512 registers: thorough harness of h_frame covers the layout)
  Environment env(ARCH, SubArch::kUnknown, Vendor::kUnknown, plat, pabi);
  W = k32 ? 4 : 8;

  FuncDetail fd;
  Error e_cc = fd._call_conv.init(ccid, env);
  V_ASSERT(e_cc == Error::kOk, "calling convention id accepted");
  const CallConv& cc = fd._call_conv;
  for (RegGroup g : Support::enumerate(RegGroup::kMaxVirt)) fd._used_regs[g] = nondet_u32() & cc._passed_regs[g];
  fd._arg_stack_size = (nondet_u32() & 0xFC);
  FuncFrame f;
  V_ASSERT(f.init(fd) == Error::kOk, "frame init accepted");
  V_ASSERT(f.arch() == ARCH, "frame arch copied from the convention");
  f._arch = ARCH;   // re-written as a constant: keeps the index into the arch-traits table concrete for the solver (no-op natively)
  // Groups no built-in convention preserves: asserted to be empty, then written as the constant 0 so that the solver does not
  // unroll the save/restore loops of groups that cannot be saved.
  if (!CUSTOM) {
    V_ASSERT(f.preserved_regs(RegGroup::kMask) == 0 && f.preserved_regs(RegGroup::kX86_MM) == 0, "built-in conventions preserve no k and no mm register");
    f._preserved_regs[RegGroup::kMask] = 0; f._preserved_regs[RegGroup::kX86_MM] = 0;
    if (!VECS) { V_ASSERT(f.preserved_regs(RegGroup::kVec) == 0, "this convention preserves no vector register"); f._preserved_regs[RegGroup::kVec] = 0; }
  }

  // ---- configuration: everything the user or the allocator may set
  f.add_dirty_regs(RegGroup::kGp, nondet_u32() & 0xFFFF);
  f.add_dirty_regs(RegGroup::kVec, nondet_u32() & 0xFFFF);
  f.add_dirty_regs(RegGroup::kMask, nondet_u32() & 0xFF);
  f.add_dirty_regs(RegGroup::kX86_MM, nondet_u32() & 0xFF);
  uint32_t lsz = nondet_u32() & (0xFFFFu & ~(W - 1)), csz = nondet_u32() & (0xFFFFu & ~(W - 1));   // 0..64 KiB, whole machine words
  f.set_local_stack_size(lsz); f.set_call_stack_size(csz);
  uint32_t la = 1u << (nondet_u8() % 7), ca = 1u << (nondet_u8() % 7);
  f.set_local_stack_alignment(la); f.set_call_stack_alignment(ca);
  constexpr FuncAttributes kUserAttrs = FuncAttributes::kHasVarArgs | FuncAttributes::kHasPreservedFP | FuncAttributes::kHasFuncCalls |
    FuncAttributes::kIndirectBranchProtection | FuncAttributes::kX86_AVXEnabled | FuncAttributes::kX86_AVX512Enabled |
    FuncAttributes::kX86_MMXCleanup | FuncAttributes::kX86_AVXCleanup | FuncAttributes::kX86_AVXAutoCleanup;
  f.add_attributes(FuncAttributes(nondet_u32()) & kUserAttrs);
  if (nondet_bool()) { uint32_t sa = nondet_u8() & (k32 ? 7 : 15); V_ASSUME(sa != 4); f.set_sa_reg_id(sa); }
  if (CUSTOM) {   // a user-defined convention may also preserve k, mm and more vector registers
    f._preserved_regs[RegGroup::kVec] |= nondet_u32() & 0xFFFF; f._preserved_regs[RegGroup::kMask] |= nondet_u32() & 0xFF; f._preserved_regs[RegGroup::kX86_MM] |= nondet_u32() & 0xFF;
  }
  uint32_t pres_gp = f.preserved_regs(RegGroup::kGp), pres_vec = f.preserved_regs(RegGroup::kVec), pres_k = f.preserved_regs(RegGroup::kMask), pres_mm = f.preserved_regs(RegGroup::kX86_MM);
  Error ef = f.finalize();
  V_ASSERT(ef == Error::kOk, "finalize accepted");
  uint32_t A = f.final_stack_alignment(), N = cc.natural_stack_alignment();
  bool has_fp = f.has_preserved_fp(), has_da = f.has_dynamic_alignment();
#if KF_C07A   // x86-32: alignment 8 promised without realignment (see h_frame.cpp)
  if (k32) { if (KNOWN == K_C07A) V_ASSUME(!has_da && A > N); else V_ASSUME(has_da || A <= N); }
#endif
#if KF_C07B   // a saved k register shares its slot with the next k or mm register (Reg::size() of a mask register is 0)
  { uint32_t sk = f.saved_regs(RegGroup::kMask); bool two_k = (sk & (sk - 1)) != 0 || (sk != 0 && f.saved_regs(RegGroup::kX86_MM) != 0); if (KNOWN == K_C07B) V_ASSUME(two_k); else V_ASSUME(!two_k); }
#endif

  // ---- machine at function entry
  val_t entry_gp[16], entry_vec[NV], entry_k[8], entry_mm[8];
  top = nondet_u32() & ~val_t(N - 1);          // the caller keeps (entry SP + return address) aligned to the natural alignment
  V_ASSUME(top >= 0x100000 && top <= 0x7FFF0000u);   // room for the largest frame below, no wrap-around above
  for (uint32_t i = 0; i < 16; i++) { entry_gp[i] = nondet_u32(); gp[i] = entry_gp[i]; }
  for (uint32_t i = 0; i < NV; i++) { entry_vec[i] = nondet_u32(); vec[i] = entry_vec[i]; }
  for (uint32_t i = 0; i < 8; i++) { entry_k[i] = nondet_u32(); entry_mm[i] = nondet_u32(); kr[i] = entry_k[i]; mmr[i] = entry_mm[i]; }
  for (uint32_t g = 0; g < 4; g++) s_valid[g] = 0;
  viol = 0; ex_valid = false;
  da_valid = false;
  val_t sp0 = top - W, ret_addr = nondet_u32();
  gp[4] = sp0; ret_word = ret_addr; push_lo = sp0;
  ret_seen = false; n_inst = 0; n_store = 0;
  BaseEmitter* em = reinterpret_cast<BaseEmitter*>(emitter_mem);
  em->_environment = env;
  em->_gp_signature = OperandSignature{k32 ? RegTraits<RegType::kGp32>::kSignature : RegTraits<RegType::kGp64>::kSignature};
  x86::EmitHelper helper(em, f.is_avx_enabled(), f.is_avx512_enabled());

  // ---- prolog
  Error ep = helper.emit_prolog(f);
  V_ASSERT(ep == Error::kOk, "prolog emitted");
  flush_checks();
  val_t sp_body = gp[4];
  uint32_t P = f.push_pop_save_size(), S = f.stack_adjustment();
  bool nonempty = S != 0 || f.has_func_calls();
  verif_observe(sp0 - sp_body); verif_observe(n_inst); verif_observe(n_store);
  if (!has_da) V_ASSERT(sp_body == sp0 - P - S, "body SP = entry SP minus pushes minus adjustment");
  if (nonempty) V_ASSERT(sp_body % A == 0, "inside the body SP has the promised alignment");
  V_ASSERT(sp_body + S <= sp0 && sp_body <= sp0, "frame lies below the return address");
  // stack-passed arguments are found where the frame says
  val_t first_arg = sp0 + W;
  if (!has_da) V_ASSERT(sp_body + f.sa_offset_from_sp() == first_arg, "stack arguments at SP plus sa_offset_from_sp");
  if (f.sa_reg_id() != 4) V_ASSERT(gp[f.sa_reg_id() & 15] + f.sa_offset_from_sa() == first_arg, "stack arguments at the base register plus sa_offset_from_sa");

  // ---- body: clobbers what the frame allows, writes only the call and local areas
  uint32_t clob_gp = (f.dirty_regs(RegGroup::kGp) | ~f.preserved_regs(RegGroup::kGp)) & ~(1u << 4);
  if (has_fp) clob_gp &= ~(1u << 5);                          // a preserved frame pointer is not available to the body
  uint32_t clob_vec = f.dirty_regs(RegGroup::kVec) | ~f.preserved_regs(RegGroup::kVec);
  for (uint32_t i = 0; i < 16; i++) if ((clob_gp >> i) & 1) gp[i] = nondet_u32();
  for (uint32_t i = 0; i < NV; i++) if ((clob_vec >> i) & 1) vec[i] = nondet_u32();
  for (uint32_t i = 0; i < 8; i++) { if (((f.dirty_regs(RegGroup::kMask) | ~f.preserved_regs(RegGroup::kMask)) >> i) & 1) kr[i] = nondet_u32(); if (((f.dirty_regs(RegGroup::kX86_MM) | ~f.preserved_regs(RegGroup::kX86_MM)) >> i) & 1) mmr[i] = nondet_u32(); }
  // the body writes the call area and the local area only: both must lie below everything the prolog stored
  val_t c0 = sp_body, l0 = sp_body + f.local_stack_offset();
  V_ASSERT(c0 + csz <= l0 && l0 + lsz <= push_lo && (!ex_valid || l0 + lsz <= ex_lo) && (!da_valid || l0 + lsz <= da_addr), "call area below local area below every saved register, the DA slot and the return address");

  // ---- epilog
  Error ee = helper.emit_epilog(f);
  V_ASSERT(ee == Error::kOk, "epilog emitted");
  flush_checks();
  V_ASSERT(ret_seen, "epilog ends in ret");
  V_ASSERT(ret_target == ret_addr, "ret uses the caller's return address");
  V_ASSERT(gp[4] == sp0 + W + f.callee_stack_cleanup(), "SP after ret = entry SP plus return address plus callee cleanup");
  for (uint32_t i = 0; i < 16; i++) if ((pres_gp >> i) & 1) V_ASSERT(gp[i] == entry_gp[i], "callee-saved GP register holds its entry value at ret");
  for (uint32_t i = 0; i < NV; i++) if ((pres_vec >> i) & 1) V_ASSERT(vec[i] == entry_vec[i], "callee-saved xmm register holds its entry value at ret");
  for (uint32_t i = 0; i < 8; i++) {
    if ((pres_k >> i) & 1) V_ASSERT(kr[i] == entry_k[i], "callee-saved k register holds its entry value at ret");
    if ((pres_mm >> i) & 1) V_ASSERT(mmr[i] == entry_mm[i], "callee-saved mm register holds its entry value at ret");
  }
  if (has_da && has_fp) V_WITNESS("realigned-with-fp");
  if (has_da && !has_fp) V_WITNESS("realigned-with-da-slot");
  if (!has_da && has_fp) V_WITNESS("static-with-fp");
  if (!has_da && !has_fp && P) V_WITNESS("static-with-pushes");
  if constexpr (VECS) { if (f.saved_regs(RegGroup::kVec) && P) V_WITNESS("push-and-vector-saves"); }
  if constexpr (k32 && (CCID == CallConvId::kStdCall || CCID == CallConvId::kFastCall || CCID == CallConvId::kThisCall || CCID == CallConvId::kVectorCall)) { if (f.callee_stack_cleanup()) V_WITNESS("ret-imm"); }
}

// One concrete convention and platform per harness.
#define HX(name, arch, known, custom, vecs, plat, pabi, cc) HARNESS name() { run<arch, known, custom, vecs, cc>(plat, pabi); }
HX(h_prolog_x86_cdecl,      Arch::kX86, K_NONE, false, false, Platform::kLinux,   PlatformABI::kGNU,  CallConvId::kCDecl)
HX(h_prolog_x86_stdcall,    Arch::kX86, K_NONE, false, false, Platform::kWindows, PlatformABI::kMSVC, CallConvId::kStdCall)
HX(h_prolog_x86_fastcall,   Arch::kX86, K_NONE, false, false, Platform::kWindows, PlatformABI::kMSVC, CallConvId::kFastCall)
HX(h_prolog_x86_thiscall,   Arch::kX86, K_NONE, false, false, Platform::kWindows, PlatformABI::kMSVC, CallConvId::kThisCall)
HX(h_prolog_x86_vectorcall, Arch::kX86, K_NONE, false, false, Platform::kWindows, PlatformABI::kMSVC, CallConvId::kVectorCall)
HX(h_prolog_x86_regparm3,   Arch::kX86, K_NONE, false, false, Platform::kLinux,   PlatformABI::kGNU,  CallConvId::kRegParm3)
HX(h_prolog_x86_light2,     Arch::kX86, K_NONE, false, true,  Platform::kLinux,   PlatformABI::kGNU,  CallConvId::kLightCall2)
HX(h_prolog_x86_kf_C07A,    Arch::kX86, K_C07A, false, false, Platform::kLinux,   PlatformABI::kGNU,  CallConvId::kCDecl)
HX(h_prolog_x64_sysv,       Arch::kX64, K_NONE, false, false, Platform::kLinux,   PlatformABI::kGNU,  CallConvId::kX64SystemV)
HX(h_prolog_x64_win,        Arch::kX64, K_NONE, false, true,  Platform::kWindows, PlatformABI::kMSVC, CallConvId::kX64Windows)
HX(h_prolog_x64_vectorcall, Arch::kX64, K_NONE, false, true,  Platform::kWindows, PlatformABI::kMSVC, CallConvId::kVectorCall)
HX(h_prolog_x64_light3,     Arch::kX64, K_NONE, false, true,  Platform::kLinux,   PlatformABI::kGNU,  CallConvId::kLightCall3)
HX(h_prolog_x64_custom,     Arch::kX64, K_NONE, true,  true,  Platform::kLinux,   PlatformABI::kGNU,  CallConvId::kX64SystemV)
HX(h_prolog_x64_kf_C07B,    Arch::kX64, K_C07B, true,  true,  Platform::kLinux,   PlatformABI::kGNU,  CallConvId::kX64SystemV)
