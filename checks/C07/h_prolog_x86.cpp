// C07/H2 (x86-32 / x86-64) — prolog, arbitrary body, epilog on an abstract machine.
// Code under test: the real x86::EmitHelper::emit_prolog / emit_epilog (x86/x86emithelper.cpp) on a frame produced by the real
// CallConv::init + FuncFrame::init + FuncFrame::finalize. The emitter is a model: BaseEmitter::_emitI(...) (the only entry point
// the x86::Emitter wrappers use) is defined here and interprets each instruction on
//   * GP registers (numeric 64-bit values; rsp/rbp/sa hold addresses), xmm (2x64), k, mm registers - all symbolic at entry,
//   * a word-addressed stack memory window below the caller's frame, symbolic entry SP with the alignment the convention gives.
// Body = havoc of every register the frame may clobber (dirty or caller-saved) and of the words of the call + local areas only.
// Asserted at ret: SP = entry SP + return address (+ callee cleanup), return address word intact and used, every callee-saved
// register (incl. xmm6-15 on Win64) holds its entry value; during the run: no store at or above the return address, no store
// below the current SP, aligned moves only to 16-aligned addresses; inside the body: promised SP alignment and stack-argument base.
#include <asmjit/x86.h>
#include <asmjit/x86/x86emithelper_p.h>
#include "verif.h"
using namespace asmjit;

namespace mach {
// Values are 32-bit in the model for both architectures: saved register contents are only compared for equality and every
// address is below 2^31, so the arithmetic the prolog does on rsp/rbp (push, sub, add, and, lea) is exact.
typedef uint32_t val_t;
// Stack memory is modelled as the set of stores made so far: one slot per (register group, register id) plus the DA slot.
// Every new store must be disjoint from all earlier ones, lie at or above the current SP and below the return address; the
// body may then overwrite the call and local areas only, which must be disjoint from every slot. Under these (asserted)
// conditions a load returns the value of the store made at exactly that address and size, and garbage (nondet) otherwise.
enum : uint32_t { G_GP = 0, G_VEC = 1, G_K = 2, G_MM = 3, G_DA = 4 };
static val_t gp[16], vec[16], kr[8], mmr[8];
static val_t s_addr[4][16], s_val[4][16]; static uint32_t s_valid[4]; static const uint32_t s_size_of[4] = { 0, 16, 8, 8 };
static val_t da_addr, da_val; static bool da_valid;
static val_t top;               // first address above the return address word
static val_t ret_word;          // the caller's return address (at top - W)
static uint32_t W;              // word = GP register size
static bool ret_seen; static val_t ret_target; static uint32_t n_inst, n_store;

static inline uint32_t size_of_group(uint32_t g) { return g == G_GP ? W : s_size_of[g & 3]; }
static inline bool overlap(val_t a, uint32_t asz, val_t b, uint32_t bsz) { return a < b + bsz && b < a + asz; }

static void check_disjoint(val_t addr, uint32_t size) {
  for (uint32_t i = 0; i < 16; i++) if ((s_valid[G_GP] >> i) & 1) V_ASSERT(!overlap(addr, size, s_addr[G_GP][i], W), "store does not overlap a saved GP register");
  for (uint32_t i = 0; i < 16; i++) if ((s_valid[G_VEC] >> i) & 1) V_ASSERT(!overlap(addr, size, s_addr[G_VEC][i], 16), "store does not overlap a saved xmm register");
  for (uint32_t i = 0; i < 8; i++) {
    if ((s_valid[G_K] >> i) & 1) V_ASSERT(!overlap(addr, size, s_addr[G_K][i], 8), "store does not overlap a saved k register");
    if ((s_valid[G_MM] >> i) & 1) V_ASSERT(!overlap(addr, size, s_addr[G_MM][i], 8), "store does not overlap a saved mm register");
  }
  if (da_valid) V_ASSERT(!overlap(addr, size, da_addr, W), "store does not overlap the DA slot");
}
static void store(uint32_t g, uint32_t r, val_t addr, val_t v) {
  uint32_t size = g == G_DA ? W : size_of_group(g);
  V_ASSERT(addr + size <= top - W && addr < top, "no store to the return address or above it");
  V_ASSERT(addr >= gp[4], "no store below the current stack pointer");
  check_disjoint(addr, size);
  if (g == G_DA) { V_ASSERT(!da_valid, "DA slot written once"); da_addr = addr; da_val = v; da_valid = true; }
  else { V_ASSERT(((s_valid[g & 3] >> (r & 15)) & 1) == 0, "a register is saved once"); s_addr[g & 3][r & 15] = addr; s_val[g & 3][r & 15] = v; s_valid[g & 3] |= 1u << (r & 15); }
  n_store++;
}
// value found at [addr, addr+size): the store made exactly there, else garbage
static val_t load(uint32_t g, val_t addr) {
  val_t v = nondet_u32();
  uint32_t n = g == G_GP || g == G_VEC ? 16 : 8;
  for (uint32_t i = 0; i < 16; i++) if (i < n && ((s_valid[g & 3] >> i) & 1) && s_addr[g & 3][i] == addr) v = s_val[g & 3][i];
  if (g == G_GP && da_valid && da_addr == addr) v = da_val;
  if (g == G_GP && addr == top - W) v = ret_word;
  return v;
}

static val_t ea(const Operand_& o) {
  const x86::Mem& m = o.as<x86::Mem>();
  V_ASSERT(m.has_base_reg() && !m.has_index() && m.base_id() < 16, "model: memory operand is base plus displacement");
  return gp[m.base_id() & 15] + val_t(int32_t(m.offset()));
}

static Error exec(InstId id, const Operand_& o0, const Operand_& o1) {
  n_inst++;
  switch (id) {
    case x86::Inst::kIdPush: {
      V_ASSERT(o0.is_reg() && o0.as<Reg>().is_gp() && o0.id() < 16, "push of a GP register");
      gp[4] = gp[4] - W; store(G_GP, o0.id(), gp[4], gp[o0.id() & 15]); break;
    }
    case x86::Inst::kIdPop: {
      V_ASSERT(o0.is_reg() && o0.as<Reg>().is_gp() && o0.id() < 16 && o0.id() != 4, "pop into a GP register other than SP");
      gp[o0.id() & 15] = load(G_GP, gp[4]); gp[4] = gp[4] + W; break;
    }
    case x86::Inst::kIdMov: {
      if (o0.is_reg() && o1.is_reg()) { V_ASSERT(o0.id() < 16 && o1.id() < 16, "mov r, r"); gp[o0.id() & 15] = gp[o1.id() & 15]; }
      else if (o0.is_mem() && o1.is_reg()) { V_ASSERT(o1.id() < 16, "mov m, r"); store(G_DA, 0, ea(o0), gp[o1.id() & 15]); }
      else { V_ASSERT(o0.is_reg() && o1.is_mem() && o0.id() < 16, "mov r, m"); gp[o0.id() & 15] = load(G_GP, ea(o1)); }
      break;
    }
    case x86::Inst::kIdLea: { V_ASSERT(o0.is_reg() && o1.is_mem() && o0.id() < 16, "lea r, m"); gp[o0.id() & 15] = ea(o1); break; }
    case x86::Inst::kIdAnd: { V_ASSERT(o0.is_reg() && o1.is_imm() && o0.id() < 16, "and r, imm"); gp[o0.id() & 15] &= val_t(o1.as<Imm>().value()); break; }
    case x86::Inst::kIdSub: { V_ASSERT(o0.is_reg() && o1.is_imm() && o0.id() < 16, "sub r, imm"); gp[o0.id() & 15] -= val_t(o1.as<Imm>().value()); break; }
    case x86::Inst::kIdAdd: { V_ASSERT(o0.is_reg() && o1.is_imm() && o0.id() < 16, "add r, imm"); gp[o0.id() & 15] += val_t(o1.as<Imm>().value()); break; }
    case x86::Inst::kIdMovaps: case x86::Inst::kIdVmovaps: case x86::Inst::kIdMovups: case x86::Inst::kIdVmovups: {
      bool aligned = id == x86::Inst::kIdMovaps || id == x86::Inst::kIdVmovaps;
      if (o0.is_mem()) {
        V_ASSERT(o1.is_reg() && o1.as<Reg>().is_vec128() && o1.id() < 16, "vector save stores an xmm register");
        val_t a = ea(o0); if (aligned) V_ASSERT(a % 16 == 0, "aligned vector store goes to a 16-byte aligned address");
        store(G_VEC, o1.id(), a, vec[o1.id() & 15]);
      } else {
        V_ASSERT(o0.is_reg() && o0.as<Reg>().is_vec128() && o0.id() < 16 && o1.is_mem(), "vector restore loads an xmm register");
        val_t a = ea(o1); if (aligned) V_ASSERT(a % 16 == 0, "aligned vector load comes from a 16-byte aligned address");
        vec[o0.id() & 15] = load(G_VEC, a);
      }
      break;
    }
    case x86::Inst::kIdKmovq: {
      if (o0.is_mem()) { V_ASSERT(o1.is_reg() && o1.as<Reg>().reg_type() == RegType::kMask && o1.id() < 8, "kmovq m, k"); store(G_K, o1.id(), ea(o0), kr[o1.id() & 7]); }
      else { V_ASSERT(o0.is_reg() && o0.as<Reg>().reg_type() == RegType::kMask && o0.id() < 8 && o1.is_mem(), "kmovq k, m"); kr[o0.id() & 7] = load(G_K, ea(o1)); }
      break;
    }
    case x86::Inst::kIdMovq: {
      if (o0.is_mem()) { V_ASSERT(o1.is_reg() && o1.as<Reg>().reg_type() == RegType::kX86_Mm && o1.id() < 8, "movq m, mm"); store(G_MM, o1.id(), ea(o0), mmr[o1.id() & 7]); }
      else { V_ASSERT(o0.is_reg() && o0.as<Reg>().reg_type() == RegType::kX86_Mm && o0.id() < 8 && o1.is_mem(), "movq mm, m"); mmr[o0.id() & 7] = load(G_MM, ea(o1)); }
      break;
    }
    case x86::Inst::kIdEmms: case x86::Inst::kIdVzeroupper: case x86::Inst::kIdEndbr32: case x86::Inst::kIdEndbr64: break;
    case x86::Inst::kIdRet: {
      V_ASSERT(!ret_seen, "single ret");
      val_t pop = o0.is_imm() ? val_t(o0.as<Imm>().value()) : 0;
      ret_target = load(G_GP, gp[4]); gp[4] = gp[4] + W + pop; ret_seen = true; break;
    }
    default: V_ASSERT(false, "instruction outside the prolog-epilog model"); break;
  }
  return Error::kOk;
}
}  // namespace mach

// The model emitter: every x86::Emitter wrapper (push, mov, emit(id, ...)) ends in one of these.
ASMJIT_BEGIN_NAMESPACE
static const Operand_ none_op {};
Error BaseEmitter::_emitI(InstId inst_id) { return mach::exec(inst_id, none_op, none_op); }
Error BaseEmitter::_emitI(InstId inst_id, const Operand_& o0) { return mach::exec(inst_id, o0, none_op); }
Error BaseEmitter::_emitI(InstId inst_id, const Operand_& o0, const Operand_& o1) { return mach::exec(inst_id, o0, o1); }
ASMJIT_END_NAMESPACE

alignas(16) static unsigned char emitter_mem[sizeof(BaseEmitter)];

enum Known { K_NONE, K_C07A, K_C07B };
// CUSTOM: the frame's preserved sets are extended as a user-defined convention may do (k, mm, more xmm registers)
template<Arch ARCH, Known KNOWN, bool CUSTOM>
static void run(Platform plat, PlatformABI pabi, CallConvId ccid) {
  using namespace mach;
  constexpr bool k32 = ARCH == Arch::kX86;
  constexpr uint32_t NV = 16;     // xmm0-15 (light-call with AVX-512 registers: thorough harness of h_frame covers the layout)
  Environment env(ARCH, SubArch::kUnknown, Vendor::kUnknown, plat, pabi);
  W = k32 ? 4 : 8;

  FuncDetail fd;
  Error e_cc = fd._call_conv.init(ccid, env);
  V_ASSERT(e_cc == Error::kOk, "calling convention id accepted");
  const CallConv& cc = fd._call_conv;
  for (RegGroup g : Support::enumerate(RegGroup::kMaxVirt)) fd._used_regs[g] = nondet_u32() & cc._passed_regs[g];
  fd._arg_stack_size = (nondet_u32() & 0xFC);
  FuncFrame f;
  V_ASSERT(f.init(fd) == Error::kOk, "frame init accepted");

  // ---- configuration: everything the user or the allocator may set
  f.add_dirty_regs(RegGroup::kGp, nondet_u32() & 0xFFFF);
  f.add_dirty_regs(RegGroup::kVec, nondet_u32() & 0xFFFF);
  f.add_dirty_regs(RegGroup::kMask, nondet_u32() & 0xFF);
  f.add_dirty_regs(RegGroup::kX86_MM, nondet_u32() & 0xFF);
  uint32_t lsz = (nondet_u8() & 7) * W, csz = (nondet_u8() & 7) * W;   // whole words (the machine's memory is word addressed), up to 4 words each
  V_ASSUME(lsz <= 4 * W && csz <= 4 * W);
  f.set_local_stack_size(lsz); f.set_call_stack_size(csz);
  uint32_t la = 1u << (nondet_u8() % 7), ca = 1u << (nondet_u8() % 7);
  f.set_local_stack_alignment(la); f.set_call_stack_alignment(ca);
  constexpr FuncAttributes kUserAttrs = FuncAttributes::kHasVarArgs | FuncAttributes::kHasPreservedFP | FuncAttributes::kHasFuncCalls |
    FuncAttributes::kIndirectBranchProtection | FuncAttributes::kX86_AVXEnabled | FuncAttributes::kX86_AVX512Enabled |
    FuncAttributes::kX86_MMXCleanup | FuncAttributes::kX86_AVXCleanup | FuncAttributes::kX86_AVXAutoCleanup;
  f.add_attributes(FuncAttributes(nondet_u32()) & kUserAttrs);
  if (nondet_bool()) { uint32_t sa = nondet_u8() & (k32 ? 7 : 15); V_ASSUME(sa != 4); f.set_sa_reg_id(sa); }
  if (CUSTOM) {   // a user-defined convention may also preserve k, mm and more vector registers
    f._preserved_regs[RegGroup::kVec] |= nondet_u32() & 0xFFFF; f._preserved_regs[RegGroup::kMask] |= nondet_u32() & 0xFF; f._preserved_regs[RegGroup::kX86_MM] |= nondet_u32() & 0xFF;
  }
  uint32_t pres_gp = f.preserved_regs(RegGroup::kGp), pres_vec = f.preserved_regs(RegGroup::kVec), pres_k = f.preserved_regs(RegGroup::kMask), pres_mm = f.preserved_regs(RegGroup::kX86_MM);
  Error ef = f.finalize();
  V_ASSERT(ef == Error::kOk, "finalize accepted");
  uint32_t A = f.final_stack_alignment(), N = cc.natural_stack_alignment();
  bool has_fp = f.has_preserved_fp(), has_da = f.has_dynamic_alignment();
#if KF_C07A   // x86-32: alignment 8 promised without realignment (see h_frame.cpp)
  if (k32) { if (KNOWN == K_C07A) V_ASSUME(!has_da && A > N); else V_ASSUME(has_da || A <= N); }
#endif
#if KF_C07B   // a saved k register shares its slot with the next k or mm register (Reg::size() of a mask register is 0)
  { uint32_t sk = f.saved_regs(RegGroup::kMask); bool two_k = (sk & (sk - 1)) != 0 || (sk != 0 && f.saved_regs(RegGroup::kX86_MM) != 0); if (KNOWN == K_C07B) V_ASSUME(two_k); else V_ASSUME(!two_k); }
#endif

  // ---- machine at function entry
  val_t entry_gp[16], entry_vec[NV], entry_k[8], entry_mm[8];
  top = nondet_u32() & ~val_t(N - 1);          // the caller keeps (entry SP + return address) aligned to the natural alignment
  V_ASSUME(top >= 0x10000 && top <= 0x7FFF0000u);
  for (uint32_t i = 0; i < 16; i++) { entry_gp[i] = nondet_u32(); gp[i] = entry_gp[i]; }
  for (uint32_t i = 0; i < NV; i++) { entry_vec[i] = nondet_u32(); vec[i] = entry_vec[i]; }
  for (uint32_t i = 0; i < 8; i++) { entry_k[i] = nondet_u32(); entry_mm[i] = nondet_u32(); kr[i] = entry_k[i]; mmr[i] = entry_mm[i]; }
  for (uint32_t g = 0; g < 4; g++) s_valid[g] = 0;
  da_valid = false;
  val_t sp0 = top - W, ret_addr = nondet_u32();
  gp[4] = sp0; ret_word = ret_addr;
  ret_seen = false; n_inst = 0; n_store = 0;
  BaseEmitter* em = reinterpret_cast<BaseEmitter*>(emitter_mem);
  em->_environment = env;
  em->_gp_signature = OperandSignature{k32 ? RegTraits<RegType::kGp32>::kSignature : RegTraits<RegType::kGp64>::kSignature};
  x86::EmitHelper helper(em, f.is_avx_enabled(), f.is_avx512_enabled());

  // ---- prolog
  Error ep = helper.emit_prolog(f);
  V_ASSERT(ep == Error::kOk, "prolog emitted");
  val_t sp_body = gp[4];
  uint32_t P = f.push_pop_save_size(), S = f.stack_adjustment();
  bool nonempty = S != 0 || f.has_func_calls();
  verif_observe(sp0 - sp_body); verif_observe(n_inst); verif_observe(n_store);
  if (!has_da) V_ASSERT(sp_body == sp0 - P - S, "body SP = entry SP minus pushes minus adjustment");
  if (nonempty) V_ASSERT(sp_body % A == 0, "inside the body SP has the promised alignment");
  V_ASSERT(sp_body + S <= sp0 && sp_body <= sp0, "frame lies below the return address");
  // stack-passed arguments are found where the frame says
  val_t first_arg = sp0 + W;
  if (!has_da) V_ASSERT(sp_body + f.sa_offset_from_sp() == first_arg, "stack arguments at SP plus sa_offset_from_sp");
  if (f.sa_reg_id() != 4) V_ASSERT(gp[f.sa_reg_id() & 15] + f.sa_offset_from_sa() == first_arg, "stack arguments at the base register plus sa_offset_from_sa");

  // ---- body: clobbers what the frame allows, writes only the call and local areas
  uint32_t clob_gp = (f.dirty_regs(RegGroup::kGp) | ~f.preserved_regs(RegGroup::kGp)) & ~(1u << 4);
  if (has_fp) clob_gp &= ~(1u << 5);                          // a preserved frame pointer is not available to the body
  uint32_t clob_vec = f.dirty_regs(RegGroup::kVec) | ~f.preserved_regs(RegGroup::kVec);
  for (uint32_t i = 0; i < 16; i++) if ((clob_gp >> i) & 1) gp[i] = nondet_u32();
  for (uint32_t i = 0; i < NV; i++) if ((clob_vec >> i) & 1) vec[i] = nondet_u32();
  for (uint32_t i = 0; i < 8; i++) { if (((f.dirty_regs(RegGroup::kMask) | ~f.preserved_regs(RegGroup::kMask)) >> i) & 1) kr[i] = nondet_u32(); if (((f.dirty_regs(RegGroup::kX86_MM) | ~f.preserved_regs(RegGroup::kX86_MM)) >> i) & 1) mmr[i] = nondet_u32(); }
  // the body writes the call area and the local area only: none of the saved slots may lie there
  val_t c0 = sp_body, l0 = sp_body + f.local_stack_offset();
  for (uint32_t i = 0; i < 16; i++) {
    if ((s_valid[G_GP] >> i) & 1) V_ASSERT(!overlap(s_addr[G_GP][i], W, c0, csz) && !overlap(s_addr[G_GP][i], W, l0, lsz), "saved GP register lies outside the call and local areas");
    if ((s_valid[G_VEC] >> i) & 1) V_ASSERT(!overlap(s_addr[G_VEC][i], 16, c0, csz) && !overlap(s_addr[G_VEC][i], 16, l0, lsz), "saved xmm register lies outside the call and local areas");
  }
  for (uint32_t i = 0; i < 8; i++) {
    if ((s_valid[G_K] >> i) & 1) V_ASSERT(!overlap(s_addr[G_K][i], 8, c0, csz) && !overlap(s_addr[G_K][i], 8, l0, lsz), "saved k register lies outside the call and local areas");
    if ((s_valid[G_MM] >> i) & 1) V_ASSERT(!overlap(s_addr[G_MM][i], 8, c0, csz) && !overlap(s_addr[G_MM][i], 8, l0, lsz), "saved mm register lies outside the call and local areas");
  }
  if (da_valid) V_ASSERT(!overlap(da_addr, W, c0, csz) && !overlap(da_addr, W, l0, lsz), "DA slot lies outside the call and local areas");
  V_ASSERT(c0 + csz <= l0 && l0 + lsz <= sp0, "call area below local area below the return address");

  // ---- epilog
  Error ee = helper.emit_epilog(f);
  V_ASSERT(ee == Error::kOk, "epilog emitted");
  V_ASSERT(ret_seen, "epilog ends in ret");
  V_ASSERT(ret_target == ret_addr, "ret uses the caller's return address");
  V_ASSERT(gp[4] == sp0 + W + f.callee_stack_cleanup(), "SP after ret = entry SP plus return address plus callee cleanup");
  for (uint32_t i = 0; i < 16; i++) if ((pres_gp >> i) & 1) V_ASSERT(gp[i] == entry_gp[i], "callee-saved GP register holds its entry value at ret");
  for (uint32_t i = 0; i < NV; i++) if ((pres_vec >> i) & 1) V_ASSERT(vec[i] == entry_vec[i], "callee-saved xmm register holds its entry value at ret");
  for (uint32_t i = 0; i < 8; i++) {
    if ((pres_k >> i) & 1) V_ASSERT(kr[i] == entry_k[i], "callee-saved k register holds its entry value at ret");
    if ((pres_mm >> i) & 1) V_ASSERT(mmr[i] == entry_mm[i], "callee-saved mm register holds its entry value at ret");
  }
  if (has_da && has_fp) V_WITNESS("realigned-with-fp");
  if (has_da && !has_fp) V_WITNESS("realigned-with-da-slot");
  if (!has_da && has_fp) V_WITNESS("static-with-fp");
  if (!has_da && !has_fp && f.saved_regs(RegGroup::kVec) && P) V_WITNESS("static-push-and-vector-saves");
  if constexpr (k32) { if (f.callee_stack_cleanup()) V_WITNESS("ret-imm"); }
}

static const CallConvId ids32[8] = { CallConvId::kCDecl, CallConvId::kStdCall, CallConvId::kFastCall, CallConvId::kVectorCall, CallConvId::kThisCall,
                                     CallConvId::kRegParm3, CallConvId::kLightCall2, CallConvId::kLightCall4 };
HARNESS h_prolog_x86() {
  uint32_t k = nondet_u8(); bool win = (k & 8) != 0;
  run<Arch::kX86, K_NONE, false>(win ? Platform::kWindows : Platform::kLinux, win ? PlatformABI::kMSVC : PlatformABI::kGNU, ids32[k & 7]);
}
HARNESS h_prolog_x86_kf_C07A() {
  uint32_t k = nondet_u8(); bool win = (k & 8) != 0;
  run<Arch::kX86, K_C07A, false>(win ? Platform::kWindows : Platform::kLinux, win ? PlatformABI::kMSVC : PlatformABI::kGNU, ids32[k & 7]);
}
HARNESS h_prolog_x64_sysv() { run<Arch::kX64, K_NONE, false>(Platform::kLinux, PlatformABI::kGNU, CallConvId::kX64SystemV); }
HARNESS h_prolog_x64_win() { run<Arch::kX64, K_NONE, false>(Platform::kWindows, PlatformABI::kMSVC, nondet_bool() ? CallConvId::kX64Windows : CallConvId::kVectorCall); }
HARNESS h_prolog_x64_light() { run<Arch::kX64, K_NONE, false>(Platform::kLinux, PlatformABI::kGNU, CallConvId(uint32_t(CallConvId::kLightCall2) + nondet_u8() % 3)); }
HARNESS h_prolog_x64_kf_C07B() { run<Arch::kX64, K_C07B, true>(Platform::kLinux, PlatformABI::kGNU, CallConvId::kX64SystemV); }
HARNESS h_prolog_x64_custom() { run<Arch::kX64, K_NONE, true>(Platform::kLinux, PlatformABI::kGNU, CallConvId::kX64SystemV); }
