# C07 — prolog/epilog preserve callee-saved state; frame areas disjoint
FUNC_UNITS = ['asmjit/core/func.cpp', 'asmjit/core/archtraits.cpp', 'asmjit/core/type.cpp', 'asmjit/x86/x86func.cpp', 'asmjit/arm/a64func.cpp']
UNITS = [
    Unit('frame', harness=['h_frame.cpp'], repo_units=FUNC_UNITS),
    Unit('prolog_x86', harness=['h_prolog_x86.cpp'], repo_units=FUNC_UNITS + ['asmjit/x86/x86emithelper.cpp']),
]
B_FRAME = ('every convention id valid for the arch (real CallConv::init); dirty masks of all 4 groups: all 2^32 values each; local and call stack size 0..65536; '
           'local and call alignment 1,2,..,64; all user attributes (preserved FP, calls, AVX, AVX-512, cleanup flags, IBT, varargs); optional user-chosen '
           'stack-argument base register; optional red-zone reset; used-register masks and stack-argument size 0..65532 handed over by FuncDetail')
HARNESSES = [
    Harness('frame', 'h_frame_x86', unwind=6, bounds='x86-32 (11 convention ids x windows/linux): ' + B_FRAME, mem_gb=4, timeout=600),
    Harness('frame', 'h_frame_x86_kf_C07A', unwind=6, known='C07A', bounds='region of known finding C07A: x86-32, final alignment 8 > natural alignment 4, no realignment; otherwise as h_frame_x86', mem_gb=4, timeout=600),
    Harness('frame', 'h_frame_x64', unwind=6, bounds='x86-64 (SysV, Win64, vectorcall, light-call 2-4, 32-bit ids mapped by platform): ' + B_FRAME, mem_gb=4, timeout=600),
    Harness('frame', 'h_frame_a64', unwind=6, bounds='AArch64 (AAPCS64/Apple, light-call): ' + B_FRAME, mem_gb=4, timeout=600),
    Harness('prolog_x86', 'h_prolog_x64_sysv', unwind=17, bounds='tbd', mem_gb=8, timeout=1500, flags=['--slice-formula']),
    Harness('prolog_x86', 'h_prolog_x64_win', unwind=17, bounds='tbd', mem_gb=6, timeout=900),
    Harness('prolog_x86', 'h_prolog_x86', unwind=17, bounds='tbd', mem_gb=6, timeout=900),
    Harness('prolog_x86', 'h_prolog_x86_kf_C07A', unwind=17, bounds='tbd', known='C07A', mem_gb=6, timeout=900),
    Harness('prolog_x86', 'h_prolog_x64_kf_C07B', unwind=17, bounds='tbd', known='C07B', mem_gb=6, timeout=900),
    Harness('prolog_x86', 'h_prolog_x64_light', unwind=17, bounds='tbd', mem_gb=6, timeout=900, tiers=('thorough',)),
]
EXPLANATION = 'bounded symbolic execution (CBMC) of the real FuncFrame::init/finalize and of the real x86/a64 emit_prolog/emit_epilog driving a model machine defined in the harness'
OUTSIDE = ['BaseRAPass::update_stack_frame hand-over (needs a Compiler run)', 'local/call stack sizes above 64 KiB']
ASSUMPTIONS = ['FuncDetail fields other than the calling convention record (used registers, stack argument size) are set directly to symbolic values of the shape FuncDetail::init produces']
