# C07 — prolog/epilog preserve callee-saved state; frame areas disjoint
FUNC_UNITS = ['asmjit/core/func.cpp', 'asmjit/core/archtraits.cpp', 'asmjit/core/type.cpp', 'asmjit/x86/x86func.cpp', 'asmjit/arm/a64func.cpp']
PRO = '_ZN6asmjit5v1_213x8610EmitHelper11emit_prologERKNS0_9FuncFrameE'
EPI = '_ZN6asmjit5v1_213x8610EmitHelper11emit_epilogERKNS0_9FuncFrameE'
UNITS = [
    Unit('frame', harness=['h_frame.cpp'], repo_units=FUNC_UNITS),
    Unit('prolog_a64', harness=['h_prolog_a64.cpp'], repo_units=FUNC_UNITS + ['asmjit/arm/a64emithelper.cpp']),
    Unit('prolog_x86', harness=['h_prolog_x86.cpp'], repo_units=FUNC_UNITS + ['asmjit/x86/x86emithelper.cpp']),
]
B_PRO = ('dirty masks of GP (16 bit), xmm0-15, k0-7, mm0-7 symbolic; local and call stack size 0..64 KiB in whole machine words; local and call alignment 1..64; '
         'all user attributes; optional user-chosen stack-argument base register; entry SP symbolic (aligned as the convention guarantees); entry values of all registers symbolic')
def HP(fn, what, gp, vec, known=None, mem=2, timeout=1200, tiers=('quick', 'thorough')):
    # loop bounds: push loop (saved GP registers + 1), save/restore loop of the other groups (saved registers per group + 1), pop loop (16 + 1)
    return Harness('prolog_x86', fn, unwind=17, unwindset='%s.0:%d,%s.1:%d,%s.0:%d' % (PRO, gp, PRO, vec, EPI, vec), bounds=what + '; ' + B_PRO, known=known, mem_gb=mem, timeout=timeout, tiers=tiers)
B_PRO_A64 = ('dirty masks of x0-x30 and v0-v31 symbolic (all 2^32 values); local and call stack size 0..64 KiB in 8-byte words; local and call alignment 1..64; '
             'preserved FP, calls, varargs, BTI attributes; stack-argument base register SP or FP; entry SP symbolic and 16-byte aligned; entry values of all registers symbolic')
def HA(fn, what, known=None, unwind=33, mem=2, timeout=1200, tiers=('quick', 'thorough')):
    A64P = '_ZN6asmjit5v1_213a6410EmitHelper11emit_prologERKNS0_9FuncFrameE'; A64E = '_ZN6asmjit5v1_213a6410EmitHelper11emit_epilogERKNS0_9FuncFrameE'; PEI = '_ZN6asmjit5v1_213a6416PrologEpilogInfo4initERKNS0_9FuncFrameE'
    # library loops: pair loops (AAPCS64: at most 7 GP and 4 vector pairs; light-call: 14 and 14), mask iteration in PrologEpilogInfo::init (13 / 28 registers)
    pairs, regs = (3, 4) if ('C07C' in fn or 'C07D' in fn) else (4, 6) if 'small' in fn else (8, 14)
    if 'light' in fn or 'C07E' in fn: pairs, regs = (7, 11)   # light-call: used argument registers x4-x7 / v4-v7 are callee-saved too
    us = ','.join('%s.%d:%d' % (f, i, pairs) for f in (A64P, A64E) for i in range(4)) + ',%s.0:%d,%s.1:%d' % (PEI, regs, PEI, regs)
    return Harness('prolog_a64', fn, unwind=unwind, unwindset=us, bounds=what + '; ' + B_PRO_A64, known=known, mem_gb=mem, timeout=timeout, tiers=tiers)
B_FRAME = ('every convention id valid for the arch (real CallConv::init); dirty masks of all 4 groups: all 2^32 values each; local and call stack size 0..65536; '
           'local and call alignment 1,2,..,64; all user attributes (preserved FP, calls, AVX, AVX-512, cleanup flags, IBT, varargs); optional user-chosen '
           'stack-argument base register; optional red-zone reset; used-register masks and stack-argument size 0..65532 handed over by FuncDetail')
HARNESSES = [
    Harness('frame', 'h_frame_x86', unwind=6, bounds='x86-32 (11 convention ids x windows/linux): ' + B_FRAME, mem_gb=1, timeout=600),
    Harness('frame', 'h_frame_x86_kf_C07A', unwind=6, known='C07A', bounds='region of known finding C07A: x86-32, final alignment 8 > natural alignment 4, no realignment; otherwise as h_frame_x86', mem_gb=1, timeout=600),
    Harness('frame', 'h_frame_x64', unwind=6, bounds='x86-64 (SysV, Win64, vectorcall, light-call 2-4, 32-bit ids mapped by platform): ' + B_FRAME, mem_gb=1, timeout=600),
    Harness('frame', 'h_frame_a64', unwind=6, bounds='AArch64 (AAPCS64/Apple, light-call): ' + B_FRAME, mem_gb=1, timeout=600),
    HP('h_prolog_x64_sysv', 'x86-64 SysV', gp=8, vec=1),
    HP('h_prolog_x86_cdecl', 'x86-32 cdecl (Linux)', gp=6, vec=1),
    HP('h_prolog_x86_stdcall', 'x86-32 stdcall (Windows)', gp=6, vec=1),
    HP('h_prolog_x86_fastcall', 'x86-32 fastcall (Windows)', gp=6, vec=1),
    HP('h_prolog_x86_thiscall', 'x86-32 thiscall (Windows)', gp=6, vec=1),
    HP('h_prolog_x86_vectorcall', 'x86-32 vectorcall (Windows)', gp=6, vec=1),
    HP('h_prolog_x86_regparm3', 'x86-32 regparm(3) (Linux)', gp=6, vec=1),
    HP('h_prolog_x86_kf_C07A', 'x86-32 cdecl, region of known finding C07A', gp=6, vec=1, known='C07A'),
    HP('h_prolog_x64_win', 'Win64 (xmm6-15 callee-saved)', gp=10, vec=11, mem=4, timeout=2400, tiers=('thorough',)),
    HP('h_prolog_x64_vectorcall', 'x86-64 vectorcall (xmm6-15 callee-saved)', gp=10, vec=11, mem=4, timeout=2400, tiers=('thorough',)),
    HP('h_prolog_x64_custom', 'x86-64 with a user-defined convention that also preserves symbolic sets of xmm, k and mm registers', gp=8, vec=17, mem=4, timeout=4800, tiers=('thorough',)),
    HP('h_prolog_x64_kf_C07B', 'region of known finding C07B (user-defined convention preserving k registers)', gp=8, vec=17, mem=4, timeout=2400, known='C07B', tiers=('thorough',)),
    HP('h_prolog_x64_light3', 'x86-64 light-call 3 (all GP and most xmm registers callee-saved)', gp=17, vec=17, mem=4, timeout=4800, tiers=('thorough',)),
    HP('h_prolog_x86_light2', 'x86-32 light-call 2', gp=9, vec=9, mem=4, timeout=2400, tiers=('thorough',)),
    HA('h_prolog_a64_aapcs_small', 'AAPCS64 (Linux), quick slice: dirty registers within x19-x21, x29, x30, d8-d10 (plus any caller-saved register)'),
    HA('h_prolog_a64_apple_small', 'Apple arm64, slice: dirty registers within x19-x21, x29, x30, d8-d10 (plus any caller-saved register)', tiers=('thorough',)),
    HA('h_prolog_a64_kf_C07C', 'AAPCS64, region of known finding C07C (alignment 32 or 64); dirty callee-saved registers within x19, x29, x30', known='C07C'),
    HA('h_prolog_a64_kf_C07D', 'AAPCS64, region of known finding C07D (preserved FP); dirty callee-saved registers within x19, x29, x30', known='C07D'),
    HA('h_prolog_a64_aapcs', 'AAPCS64 (Linux)', mem=4, timeout=3000, tiers=('thorough',)),
    HA('h_prolog_a64_apple', 'Apple arm64', mem=4, timeout=3000, tiers=('thorough',)),
    HA('h_prolog_a64_light_small', 'AArch64 light-call 2 (16-byte vector slots), slice: dirty registers within x19-x21, x29, x30, d8-d10 (plus used argument registers)', mem=6, timeout=3000, tiers=('thorough',)),
    HA('h_prolog_a64_kf_C07E', 'AArch64 light-call 2, same slice, region of known finding C07E (odd number of saved vector registers)', known='C07E', mem=6, timeout=3000, tiers=('thorough',)),
]
EXPLANATION = 'bounded symbolic execution (CBMC) of the real FuncFrame::init/finalize and of the real x86/a64 emit_prolog/emit_epilog driving a model machine defined in the harness'
OUTSIDE = ['H2 AArch64 light-call with all 2^32 dirty masks (h_prolog_a64_light / full C07E companion: no verdict within 3000 s - replaced by the slice harnesses)', 'BaseRAPass::update_stack_frame hand-over (needs a Compiler run)', 'local/call stack sizes above 64 KiB',
           'H2: local and call stack sizes that are not whole machine words; xmm16-xmm31 (AVX-512 light-call frames); the red zone and the Win64 home area are not written by the body',
           'H2 AArch64 quick tier: dirty callee-saved registers outside x19-x21, x29, x30, d8-d10 (all masks in the thorough tier)']
ASSUMPTIONS = ['FuncDetail fields other than the calling convention record (used registers, stack argument size) are set directly to symbolic values of the shape FuncDetail::init produces',
               'H2: BaseEmitter::_emitI(...) is defined in the harness as the model emitter (interpreter of the prolog/epilog instructions); the emitter object is zeroed raw storage with environment and GP signature set',
               'H2: machine values are 32 bit; stack memory is the set of stores made so far, disjointness is established by a sufficient condition (push hull, save hull, DA slot) - see h_prolog_x86.cpp',
               'H2: after FuncFrame::init the harness asserts frame.arch() == ARCH and re-writes the field with the constant (no-op natively): with a non-constant index CBMC mis-read _arch_traits[arch] in this unit (counterexamples did not replay natively, i.e. the runner reported BROKEN, never a wrong PASS)',
               'H2: preserved-register sets no built-in convention has (k, mm; xmm where the convention has none) are asserted empty and re-written as constant 0, except in h_prolog_x64_custom / _kf_C07B where they are symbolic',
               'H2: per-loop unwind bounds (unwindset) follow from the number of callee-saved registers of the convention; a too small bound fails the unwinding assertion']
